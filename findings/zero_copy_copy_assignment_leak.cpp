// Genuine defect (properties C10 "leak of owned arrays" / C17 ownership of zero-copy matrices): crs::operator=(const crs&) on a matrix created by
// adapter::zero_copy() allocates new ptr/col/val arrays but leaves own_data == false, so the destructor never frees them.
// build: g++ -std=c++17 -O1 -g -fsanitize=address -I<repo> zero_copy_copy_assignment_leak.cpp && ./a.out     LeakSanitizer report / exit 1 = defect present
#include <iostream>
#include <vector>
#include <amgcl/backend/builtin.hpp>
#include <amgcl/adapter/crs_tuple.hpp>
#include <amgcl/adapter/zero_copy.hpp>
int main() { int n=3; std::vector<ptrdiff_t> ptr{0,2,4,5}, col{0,1, 0,1, 2}; std::vector<double> val{2,-1, -1,2, 3}; int bad=0;
  { amgcl::backend::crs<double> B(std::tie(n,ptr,col,val)); auto Z=amgcl::adapter::zero_copy(n,ptr.data(),col.data(),val.data()); *Z=B;
    if (!Z->own_data) { std::cout << "after copy assignment the former zero-copy matrix does not own the arrays it allocated (leak)" << std::endl; bad=1; } }
  std::cout << (bad?"DEFECT":"ok") << std::endl; return bad; }
