// Genuine defect (property C05): the Givens rotation of the GMRES family is not unitary for complex coefficients.
// detail::generate_plane_rotation computes cs = 1/sqrt(1 + tmp*tmp), sn = tmp*cs with tmp = dy/dx: for complex tmp this is the complex
// square root of 1 + tmp^2 instead of sqrt(1 + |tmp|^2), so |cs|^2 + |sn|^2 != 1.  The rotation still annihilates dy, so GMRES reaches the
// solution at k = n, but for 2 <= k < n the returned iterate is NOT the residual minimiser over the Krylov space (and the reported
// residual |s[k]| is not the true residual norm).  Real data are unaffected (tmp*adjoint(tmp) == tmp*tmp bit for bit).
// build: g++ -std=c++17 -O1 -I<repo> complex_givens_rotation.cpp && ./a.out      exit 1 = defect present
#include <complex>
#include <iostream>
#include <vector>
#include <amgcl/backend/builtin.hpp>
#include <amgcl/value_type/complex.hpp>
#include <amgcl/solver/gmres.hpp>
#include <amgcl/preconditioner/dummy.hpp>
typedef std::complex<double> CX; typedef amgcl::backend::builtin<CX> BE; typedef std::vector<CX> V;
int main() { double worst=0; for (int n=3;n<=5;++n) for (int k=1;k<n;++k) {
    std::vector<ptrdiff_t> ptr(n+1), col; std::vector<CX> val;
    for (int i=0;i<n;++i) { ptr[i]=col.size(); for (int j=0;j<n;++j) { col.push_back(j); val.push_back(i==j ? CX(4+i, 0.5*(i+1)) : CX(0.3*(i+1)-0.1*j, 0.2*(j+1)-0.15*i*i)); } } ptr[n]=col.size();
    auto A = std::make_shared<amgcl::backend::crs<CX>>(n,n,ptr,col,val);
    V f(n), x(n, CX(0,0)); for (int i=0;i<n;++i) f[i]=CX(1+i, 0.5-i);
    amgcl::solver::gmres<BE>::params prm; prm.maxiter=k; prm.tol=1e-14; prm.M=n; amgcl::solver::gmres<BE> s(n,prm); amgcl::preconditioner::dummy<BE> P(*A);
    size_t it; double res; std::tie(it,res)=s(*A,P,f,x);
    auto mv=[&](const V&v){ V r(n); for (int i=0;i<n;++i) { CX t=0; for (int j=0;j<n;++j) t+=val[i*n+j]*v[j]; r[i]=t; } return r; };
    V Ax=mv(x), rk(n); for (int i=0;i<n;++i) rk[i]=f[i]-Ax[i];
    // minimal residual over span{r0, A r0, ...}  <=>  r_k orthogonal (Hermitian form) to A r0, A^2 r0, ..., A^k r0
    V v=f; std::cout << "gmres complex n="<<n<<" k="<<k<<" iterations="<<it<<"  |(A^j r0)^H r_k|, j=1..k:"; for (int j=0;j<k;++j) { V w=mv(v); CX h=0; for (int i=0;i<n;++i) h+=std::conj(w[i])*rk[i]; std::cout << " " << std::abs(h); worst=std::max(worst,std::abs(h)); v=w; } std::cout << std::endl; }
  if (worst > 1e-9) { std::cout << "DEFECT: complex GMRES iterates are not the residual minimisers (largest orthogonality defect " << worst << ")" << std::endl; return 1; } std::cout << "ok" << std::endl; return 0; }
