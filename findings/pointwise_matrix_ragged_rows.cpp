// Reproducer for the second half of the C08 pointwise_matrix finding (commit 0d8efe7).  On the pinned commit the result is wrong (2 entries instead of 3);
// after the first, incomplete repair 98846c4 (filling pass only) the counting pass still under-counted: heap-buffer-overflow under -fsanitize=address.
//   g++ -std=c++17 -O1 -g -fsanitize=address -I<amgcl> findings/pointwise_matrix_ragged_rows.cpp
#include <iostream>
#include <vector>
#include <amgcl/backend/builtin.hpp>
int main() {
    typedef amgcl::backend::crs<double, ptrdiff_t, ptrdiff_t> matrix;
    // 2x8 (also works embedded in a square 8x8): row0 = {0,6}, row1 = {0,2}
    std::vector<ptrdiff_t> ptr = {0,2,4,4,4,4,4,4,4}, col = {0,6,0,2};
    std::vector<double> val = {1,2,3,4};
    matrix A(8, 8, ptr, col, val);
    // count pass only (what pointwise_matrix allocates) vs entries written
    auto P = amgcl::backend::pointwise_matrix(A, 2);
    std::cout << "row 0 of Ap has " << P->ptr[1]-P->ptr[0] << " entries (expected 3), nnz=" << P->nnz << std::endl;
    for (ptrdiff_t j = P->ptr[0]; j < P->ptr[1]; ++j) std::cout << " (" << P->col[j] << "," << P->val[j] << ")";
    std::cout << std::endl;
}
