// Genuine defect (property C06): relaxation::spai0 computes m_i = a_ii / sum_j |a_ij|^2; the row-wise least-squares minimiser of |I - M A|_F is
// m_i = conj(a_ii) / sum_j |a_ij|^2.  For complex matrices the normal equations fail and, with a diagonal of large imaginary part, |1 - m_i a_ii| > 1:
// the sweep amplifies the error.  SPAI-1 (complex QR) is correct.   exit 1 = defect present
// build: g++ -std=c++17 -O1 -I<repo> complex_spai0_not_least_squares.cpp && ./a.out
#include <complex>
#include <iostream>
#include <vector>
#include <amgcl/backend/builtin.hpp>
#include <amgcl/value_type/complex.hpp>
#include <amgcl/relaxation/spai0.hpp>
#include <amgcl/relaxation/spai1.hpp>
typedef std::complex<double> CX; typedef amgcl::backend::builtin<CX> BE; typedef amgcl::backend::crs<CX> M;
int main() { int n=6, bad=0; std::vector<ptrdiff_t> ptr(1,0), col; std::vector<CX> val; std::vector<std::vector<CX>> Ad(n,std::vector<CX>(n,CX(0,0)));
  for (int i=0;i<n;++i) { for (int j=0;j<n;++j) if (std::abs(i-j)<=1 || (i+j)%4==0) { CX v = i==j ? CX(3+0.2*i, 2.0-0.3*i) : CX(-0.7+0.1*((i+j)%3), 0.4*((i*2+j)%3)-0.3); col.push_back(j); val.push_back(v); Ad[i][j]=v; } ptr.push_back(col.size()); }
  M A(n,n,ptr,col,val);
  { amgcl::relaxation::spai0<BE> S(A, amgcl::relaxation::spai0<BE>::params(), BE::params()); double worst=0;
    for (int i=0;i<n;++i) { CX m=(*S.M)[i]; // gradient of sum_j |delta_ij - m a_ij|^2 wrt conj(m): -sum_j (delta_ij - m a_ij) conj(a_ij)
      CX g(0,0); for (int j=0;j<n;++j) g += (CX(i==j?1:0,0) - m*Ad[i][j])*std::conj(Ad[i][j]); worst=std::max(worst,std::abs(g)); }
    std::cout << "spai0 complex: max normal-equation residual " << worst << (worst>1e-12?"   <-- not the least-squares minimiser":"") << std::endl; if (worst>1e-12) ++bad;
    // consequence: one sweep on a diagonal matrix with an almost imaginary diagonal
    double amp=0; for (int i=0;i<n;++i) { CX m=(*S.M)[i]; amp=std::max(amp,std::abs(CX(1,0)-m*Ad[i][i])); } std::cout << "   max |1 - m_i a_ii| = " << amp << std::endl; }
  { amgcl::relaxation::spai1<BE> S(A, amgcl::relaxation::spai1<BE>::params(), BE::params()); auto &Mx=*S.M; double worst=0;
    for (int i=0;i<n;++i) { std::vector<CX> r(n,CX(0,0)); r[i]=1; for (ptrdiff_t k=Mx.ptr[i];k<Mx.ptr[i+1];++k) for (int c=0;c<n;++c) r[c]-=Mx.val[k]*Ad[Mx.col[k]][c];
      for (ptrdiff_t k=Mx.ptr[i];k<Mx.ptr[i+1];++k) { CX g(0,0); for (int c=0;c<n;++c) g+=r[c]*std::conj(Ad[Mx.col[k]][c]); worst=std::max(worst,std::abs(g)); } }
    std::cout << "spai1 complex: max normal-equation residual " << worst << (worst>1e-12?"   <-- not the least-squares minimiser":"") << std::endl; if (worst>1e-12) ++bad; }
  return bad; }
