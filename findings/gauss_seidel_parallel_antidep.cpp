// Demonstration for the C09 finding: the level schedule of the parallel Gauss-Seidel sweep only ordered a row after the rows it
// depends on in the swept triangle; a row c that is swept LATER but is READ by an earlier row i (a_ic != 0, a_ci == 0, structurally
// non-symmetric matrix) could be placed in the same or an earlier level, so row i saw the new instead of the old x_c (or raced).
// Build: g++ -std=c++17 -O1 -fopenmp -I/repo gauss_seidel_parallel_antidep.cpp ; run with OMP_NUM_THREADS=4
// exit 0: level-scheduled sweep == serial sweep; exit 1: they differ.
#include <amgcl/backend/builtin.hpp>
#include <amgcl/relaxation/gauss_seidel.hpp>
#include <amgcl/adapter/crs_tuple.hpp>
#include <omp.h>
#include <iostream>
#include <cmath>
typedef amgcl::backend::builtin<double> B;
int main() {
    omp_set_num_threads(4);
    // row 1 reads x0 (lower) and x2 (upper); row 2 does not read x1: forward levels were {0,2} | {1}
    int n = 3; std::vector<int> ptr{0,1,4,5}, col{0, 0,1,2, 2}; std::vector<double> val{2, -1,4,-1, 3};
    B::matrix A(std::tie(n, ptr, col, val));
    std::vector<double> f{1, 2, 3};
    amgcl::backend::numa_vector<double> F(f), xs(n), xp(n), t(n);
    for (int i = 0; i < n; ++i) xs[i] = xp[i] = 10 + i;
    amgcl::relaxation::gauss_seidel<B>::params ser; ser.serial = true; amgcl::relaxation::gauss_seidel<B>::params par; par.serial = false;
    amgcl::relaxation::gauss_seidel<B> S(A, ser, B::params()), P(A, par, B::params());
    S.apply_pre(A, F, xs, t); P.apply_pre(A, F, xp, t);
    double d = 0; for (int i = 0; i < n; ++i) d = std::max(d, std::fabs(xs[i] - xp[i]));
    std::cout << "serial   x = " << xs[0] << " " << xs[1] << " " << xs[2] << "\nparallel x = " << xp[0] << " " << xp[1] << " " << xp[2] << "\nmax difference " << d << "\n";
    return d == 0 ? 0 : 1;
}
