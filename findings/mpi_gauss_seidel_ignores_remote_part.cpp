// Genuine defect (property C12, and the fixed-point clause of C06 for the distributed smoother): mpi::relaxation::gauss_seidel sweeps over the LOCAL
// diagonal block with the untouched right-hand side; the coupling to unknowns owned by other ranks (A_rem * x_rem) is never subtracted.  The exact
// solution is therefore not a fixed point of the sweep, and AMG + CG with this smoother stalls on 2D Poisson as soon as there is more than one rank.
// build: mpicxx -std=c++17 -O1 -I<repo> mpi_gauss_seidel_ignores_remote_part.cpp && mpirun --oversubscribe --allow-run-as-root -np 2 ./a.out    exit 1 = defect present
#include <iostream>
#include <vector>
#include <cmath>
#include <amgcl/backend/builtin.hpp>
#include <amgcl/adapter/crs_tuple.hpp>
#include <amgcl/mpi/util.hpp>
#include <amgcl/mpi/distributed_matrix.hpp>
#include <amgcl/mpi/relaxation/gauss_seidel.hpp>
#include <amgcl/mpi/make_solver.hpp>
#include <amgcl/mpi/amg.hpp>
#include <amgcl/mpi/coarsening/smoothed_aggregation.hpp>
#include <amgcl/mpi/direct_solver/skyline_lu.hpp>
#include <amgcl/mpi/partition/merge.hpp>
#include <amgcl/mpi/inner_product.hpp>
#include <amgcl/solver/cg.hpp>
typedef amgcl::backend::builtin<double> BE;
int main(int argc, char **argv) { MPI_Init(&argc,&argv); int bad=0; { amgcl::mpi::communicator comm(MPI_COMM_WORLD); int m=24, n=m*m, chunk=(n+comm.size-1)/comm.size, rb=std::min(n,comm.rank*chunk), re=std::min(n,rb+chunk), nl=re-rb;
  std::vector<ptrdiff_t> ptr(1,0), col; std::vector<double> val; for (int id=rb;id<re;++id) { int i=id%m, j=id/m; if (j>0) { col.push_back(id-m); val.push_back(-1); } if (i>0) { col.push_back(id-1); val.push_back(-1); } col.push_back(id); val.push_back(4.0); if (i+1<m) { col.push_back(id+1); val.push_back(-1); } if (j+1<m) { col.push_back(id+m); val.push_back(-1); } ptr.push_back(col.size()); }
  // 1. fixed point: f = A x*, one pre-sweep from x* must return x*
  { amgcl::mpi::distributed_matrix<BE> A(comm, std::tie(nl,ptr,col,val), nl); amgcl::mpi::relaxation::gauss_seidel<BE> gs(A); A.move_to_backend();
    std::vector<double> xs(nl), f(nl), t(nl); for (int i=0;i<nl;++i) xs[i]=1.0+0.01*((rb+i)%17); amgcl::backend::spmv(1.0,A,xs,0.0,f); std::vector<double> x=xs; gs.apply_pre(A,f,x,t); double e=0; for (int i=0;i<nl;++i) e=std::max(e,std::fabs(x[i]-xs[i])); e=comm.reduce(MPI_MAX,e);
    if (comm.rank==0) std::cout << "np=" << comm.size << ": distance of one Gauss-Seidel pre-sweep from the exact solution it started at: " << e << std::endl; if (e>1e-12) bad=1; }
  // 2. consequence: AMG(smoothed aggregation, Gauss-Seidel) + CG
  { typedef amgcl::mpi::make_solver<amgcl::mpi::amg<BE, amgcl::mpi::coarsening::smoothed_aggregation<BE>, amgcl::mpi::relaxation::gauss_seidel<BE>, amgcl::mpi::direct::skyline_lu<double>, amgcl::mpi::partition::merge<BE>>, amgcl::solver::cg<BE, amgcl::mpi::inner_product>> Solver; Solver::params prm; prm.precond.coarse_enough=40; prm.solver.maxiter=100;
    Solver S(comm, std::tie(nl,ptr,col,val), prm); std::vector<double> f(nl,1.0), x(nl,0.0); size_t it; double res; std::tie(it,res)=S(f,x); if (comm.rank==0) std::cout << "np=" << comm.size << ": amg(SA, gauss_seidel)+cg on 24x24 Poisson: " << it << " iterations, residual " << res << std::endl; if (res>1e-8) bad=1; }
  bad=comm.reduce(MPI_MAX,bad); if (comm.rank==0) std::cout << (bad?"DEFECT: the distributed Gauss-Seidel sweep ignores the remote part of the matrix":"ok") << std::endl; }
  MPI_Finalize(); return bad; }
