// Demonstration for the C10 finding: ruge_stuben::connect() leaves the strength flags S.val[] of a row whose
// off-diagonal entries are all non-negative unwritten (new char[nnz], `continue` before the assignment), and the
// transposition / cfsplit / interpolation read them.  Build:  g++ -std=c++17 -O1 -I/repo rs_connect_uninit.cpp
// Every fresh allocation is filled with FILL (argv[1], default 0xFF) to model prior heap contents.
// exit 0: the transfer operator does not depend on the heap fill; exit 1: it does (or the process crashes).
#include <cstdlib>
#include <cstring>
#include <new>
#include <iostream>
#include <vector>
#include <tuple>
static unsigned char FILL = 0xFF;
void *operator new(std::size_t n) { void *p = std::malloc(n ? n : 1); if (!p) throw std::bad_alloc(); std::memset(p, FILL, n); return p; }
void *operator new[](std::size_t n) { return operator new(n); }
void operator delete(void *p) noexcept { std::free(p); }
void operator delete[](void *p) noexcept { std::free(p); }
void operator delete(void *p, std::size_t) noexcept { std::free(p); }
void operator delete[](void *p, std::size_t) noexcept { std::free(p); }
#include <amgcl/backend/builtin.hpp>
#include <amgcl/coarsening/ruge_stuben.hpp>
#include <amgcl/adapter/crs_tuple.hpp>
typedef amgcl::backend::builtin<double> B;
static std::vector<double> run(unsigned char fill) {
    FILL = fill;
    // row 0 has only a positive off-diagonal entry; rows 1..3 are an ordinary M-matrix stencil
    int n = 4; std::vector<int> ptr{0,2,5,8,10}, col{0,1, 0,1,2, 1,2,3, 2,3}; std::vector<double> val{2,1, -1,2,-1, -1,2,-1, -1,2};
    B::matrix A(std::tie(n, ptr, col, val));
    amgcl::coarsening::ruge_stuben<B> rs; std::shared_ptr<B::matrix> P, R; std::tie(P, R) = rs.transfer_operators(A);
    std::vector<double> out; out.push_back(P->nrows); out.push_back(P->ncols); for (size_t i = 0; i <= P->nrows; ++i) out.push_back(P->ptr[i]); for (size_t j = 0; j < P->nnz; ++j) { out.push_back(P->col[j]); out.push_back(P->val[j]); }
    return out;
}
int main() {
    std::vector<double> a = run(0x00), b = run(0xFF), c = run(0x01);
    if (a != b || a != c) { std::cout << "FAIL: Ruge-Stuben transfer operator depends on prior heap contents (sizes " << a.size() << " / " << b.size() << " / " << c.size() << ")\n"; return 1; }
    std::cout << "ok: transfer operator independent of heap fill\n"; return 0;
}
