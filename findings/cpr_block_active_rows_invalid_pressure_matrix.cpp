// Genuine defect (properties C18 / C10): preconditioner::cpr with a BLOCK-VALUED matrix and active_rows < n copies the column indices of the active rows
// unfiltered into the np x np pressure matrix: couplings to inactive (well) unknowns become column indices >= ncols, so the pressure preconditioner is built
// on a structurally invalid matrix (out-of-bounds accesses in its setup / application).  The scalar flavour (first_scalar_pass) filters these columns.
// build: g++ -std=c++17 -O1 -I<repo> cpr_block_active_rows_invalid_pressure_matrix.cpp && ./a.out        exit 1 = defect present
#include <iostream>
#include <vector>
#include <amgcl/backend/builtin.hpp>
#include <amgcl/value_type/static_matrix.hpp>
#include <amgcl/adapter/crs_tuple.hpp>
#include <amgcl/adapter/block_matrix.hpp>
#include <amgcl/preconditioner/cpr.hpp>
#include <amgcl/relaxation/as_preconditioner.hpp>
#include <amgcl/relaxation/spai0.hpp>
typedef amgcl::backend::builtin<double> SB; static std::shared_ptr<SB::matrix> seen;
// a pressure "preconditioner" that records the matrix it is given
struct recorder { typedef SB backend_type; typedef SB::matrix matrix; typedef SB::params backend_params; typedef amgcl::detail::empty_params params; typedef double value_type;
  recorder(std::shared_ptr<matrix> m, const params& = params(), const backend_params& = backend_params()) { seen=m; }
  template<class V1,class V2> void apply(const V1&, V2 &&x) const { for (auto &v : x) v=0; } std::shared_ptr<matrix> system_matrix_ptr() const { return seen; } const matrix& system_matrix() const { return *seen; } };
int main() { typedef amgcl::static_matrix<double,2,2> B2; typedef amgcl::backend::builtin<B2> BB;
  int nb=4, n=2*nb; std::vector<ptrdiff_t> ptr(1,0), col; std::vector<double> val;   // block tridiagonal, 4 block rows; the last block row is an inactive "well"
  for (int i=0;i<n;++i) { for (int j=0;j<n;++j) if (std::abs(i/2-j/2)<=1) { col.push_back(j); val.push_back(i==j ? 6.0+i : -0.5-0.1*((i+j)%3)); } ptr.push_back(col.size()); }
  typedef amgcl::preconditioner::cpr<recorder, amgcl::relaxation::as_preconditioner<BB,amgcl::relaxation::spai0>> CPR; CPR::params prm; prm.active_rows=3;
  auto A=std::tie(n,ptr,col,val); CPR C(amgcl::adapter::block_matrix<B2>(A),prm);
  int bad=0; std::cout << "pressure matrix " << seen->nrows << " x " << seen->ncols << ", " << seen->ptr[seen->nrows] << " entries" << std::endl;
  for (size_t i=0;i<seen->nrows;++i) for (ptrdiff_t k=seen->ptr[i];k<seen->ptr[i+1];++k) if (seen->col[k]<0 || (size_t)seen->col[k]>=seen->ncols) { std::cout << "  row " << i << " has column index " << seen->col[k] << " >= ncols" << std::endl; bad=1; }
  std::cout << (bad?"DEFECT: structurally invalid pressure matrix":"ok") << std::endl; return bad; }
