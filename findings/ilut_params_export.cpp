// Demonstration for the C14 finding: relaxation::ilut<...>::params::get(ptree &p, path) exported the fill factor with
// AMGCL_PARAMS_EXPORT_VALUE(p, path, p); inside get() the name p is the property tree, so the tree was put into itself and
// the function did not compile once instantiated: ILUT parameters could not be exported.
// Build: g++ -std=c++17 -O1 -I/repo ilut_params_export.cpp (fails to COMPILE on the unfixed tree); exit 0: round trip ok.
#include <amgcl/backend/builtin.hpp>
#include <amgcl/relaxation/ilut.hpp>
#include <iostream>
typedef amgcl::relaxation::ilut<amgcl::backend::builtin<double>> R;
int main() {
    boost::property_tree::ptree in; in.put("p", 3.5); in.put("tau", 0.25); in.put("damping", 0.5);
    R::params prm(in); boost::property_tree::ptree out; prm.get(out, "");
    bool ok = out.get<double>("p") == 3.5 && out.get<double>("tau") == 0.25 && out.get<double>("damping") == 0.5;
    std::cout << (ok ? "ok: ilut parameters round-trip\n" : "FAIL\n"); return ok ? 0 : 1;
}
