// Genuine defect (property C10): coarsening::smoothed_aggr_emin::interpolation() calls sort_row(&adap_col[0], &adap_val[0], 0) for a row of A*P that has no
// entries: &vec[0] of an empty vector is undefined behaviour and aborts with the hardened libstdc++ (-D_GLIBCXX_ASSERTIONS).
// Input: a valid SPD matrix with one decoupled unknown (diagonal-only row).
// build: g++ -std=c++17 -O1 -D_GLIBCXX_ASSERTIONS -I<repo> emin_empty_row_hardened_libstdcxx.cpp && ./a.out     aborts (SIGABRT) = defect present
#include <iostream>
#include <vector>
#include <amgcl/backend/builtin.hpp>
#include <amgcl/adapter/crs_tuple.hpp>
#include <amgcl/make_solver.hpp>
#include <amgcl/amg.hpp>
#include <amgcl/coarsening/smoothed_aggr_emin.hpp>
#include <amgcl/relaxation/damped_jacobi.hpp>
#include <amgcl/solver/cg.hpp>
int main() { typedef amgcl::backend::builtin<double> BE; int n=5; std::vector<ptrdiff_t> ptr{0,2,5,7,8,9}, col{0,1, 0,1,2, 1,2, 3, 4}; std::vector<double> val{2,-1, -1,2,-1, -1,2, 3, 5};
  amgcl::backend::crs<double> A(std::tie(n,ptr,col,val)); amgcl::coarsening::smoothed_aggr_emin<BE> C; auto PR=C.transfer_operators(A);
  std::cout << "prolongation " << std::get<0>(PR)->nrows << " x " << std::get<0>(PR)->ncols << "\nok" << std::endl; return 0; }
