// Genuine defect (property C12; C10 class "undefined behaviour on valid input"): mpi::coarsening::pmis and mpi::direct::solver_base take &vec[0] of vectors that are
// EMPTY on a process without neighbours (always with one process, and on ranks that own nothing).  With the hardened libstdc++ every distributed AMG
// setup aborts in pmis::conn_strength() (pmis.hpp:359) even with a single process.
// build: mpicxx -std=c++17 -O1 -D_GLIBCXX_ASSERTIONS -I<repo> mpi_hardened_libstdcxx_sweep.cpp && mpirun --oversubscribe --allow-run-as-root -np 1 ./a.out     abort = defect present
// (the program is the sweep over every distributed coarsening x relaxation x solver combination; optional argument: the rank that owns no rows)
#include <iostream>
#include <vector>
#include <cmath>
#include <amgcl/backend/builtin.hpp>
#include <amgcl/adapter/crs_tuple.hpp>
#include <amgcl/mpi/util.hpp>
#include <amgcl/mpi/make_solver.hpp>
#include <amgcl/mpi/amg.hpp>
#include <amgcl/mpi/coarsening/runtime.hpp>
#include <amgcl/mpi/relaxation/runtime.hpp>
#include <amgcl/mpi/direct_solver/runtime.hpp>
#include <amgcl/mpi/partition/runtime.hpp>
#include <amgcl/mpi/solver/runtime.hpp>
typedef amgcl::backend::builtin<double> BE;
int main(int argc, char **argv) { MPI_Init(&argc,&argv); int bad=0; { amgcl::mpi::communicator comm(MPI_COMM_WORLD); int m=24, n=m*m;
  int empty = argc>1 ? atoi(argv[1]) : -1;   // rank that owns nothing
  std::vector<int> sizes(comm.size,0); { int owners=comm.size-(empty>=0&&empty<comm.size&&comm.size>1?1:0); int k=0; for (int r=0;r<comm.size;++r) { if (comm.size>1 && r==empty) continue; sizes[r]=n/owners+(k<n%owners?1:0); ++k; } }
  int rb=0; for (int r=0;r<comm.rank;++r) rb+=sizes[r]; int nl=sizes[comm.rank], re=rb+nl;
  std::vector<ptrdiff_t> ptr(1,0), col; std::vector<double> val, f(nl,1.0); for (int id=rb;id<re;++id) { int i=id%m, j=id/m; if (j>0) { col.push_back(id-m); val.push_back(-1); } if (i>0) { col.push_back(id-1); val.push_back(-1); } col.push_back(id); val.push_back(4.0); if (i+1<m) { col.push_back(id+1); val.push_back(-1); } if (j+1<m) { col.push_back(id+m); val.push_back(-1); } ptr.push_back(col.size()); }
  typedef amgcl::mpi::make_solver<amgcl::mpi::amg<BE, amgcl::runtime::mpi::coarsening::wrapper<BE>, amgcl::runtime::mpi::relaxation::wrapper<BE>, amgcl::runtime::mpi::direct::solver<double>, amgcl::runtime::mpi::partition::wrapper<BE>>, amgcl::runtime::mpi::solver::wrapper<BE>> Solver;
  for (const char *c : {"aggregation","smoothed_aggregation"}) for (const char *r : {"spai0","damped_jacobi","gauss_seidel","ilu0","iluk","ilup","ilut","chebyshev","spai1"}) for (const char *s : {"cg","bicgstab"}) {
    boost::property_tree::ptree prm; prm.put("precond.coarsening.type",c); prm.put("precond.relax.type",r); prm.put("solver.type",s); prm.put("precond.coarse_enough",40); prm.put("solver.maxiter",200);
    auto A=std::make_shared<amgcl::mpi::distributed_matrix<BE>>(comm, std::tie(nl,ptr,col,val), nl);
    size_t it=0; double res=0; std::vector<double> x(nl,0.0); try { Solver S(comm,A,prm); std::tie(it,res)=S(f,x); } catch (const std::exception &e) { std::cout << "rank " << comm.rank << " " << c << "+" << r << "+" << s << " EXC " << e.what() << std::endl; bad=1; continue; }
    // same (iters,res) everywhere; true residual
    long itmin=comm.reduce(MPI_MIN,(long)it), itmax=comm.reduce(MPI_MAX,(long)it); double rmin=comm.reduce(MPI_MIN,res), rmax=comm.reduce(MPI_MAX,res);
    std::vector<double> xg(n,0.0), xa(n,0.0); for (int i=0;i<nl;++i) xg[rb+i]=x[i]; MPI_Allreduce(xg.data(),xa.data(),n,MPI_DOUBLE,MPI_SUM,MPI_COMM_WORLD);
    double r2=0; for (int id=0;id<n;++id) { int i=id%m, j=id/m; double t=1.0-4*xa[id]; if (j>0) t+=xa[id-m]; if (i>0) t+=xa[id-1]; if (i+1<m) t+=xa[id+1]; if (j+1<m) t+=xa[id+m]; r2+=t*t; } double tr=std::sqrt(r2/n);
    bool ok = itmin==itmax && rmin==rmax && res<1e-6 && std::fabs(tr-res)<1e-6*std::max(1.0,0.0)+1e-9; if (!ok) { bad=1; if (comm.rank==0) std::cout << c << "+" << r << "+" << s << ": iters " << itmin << ".." << itmax << " res " << rmin << ".." << rmax << " true " << tr << "   <-- PROBLEM" << std::endl; } }
  if (comm.rank==0) std::cout << "np=" << comm.size << " empty=" << empty << (bad?" problems found":" all combinations consistent") << std::endl; }
  MPI_Finalize(); return bad; }
