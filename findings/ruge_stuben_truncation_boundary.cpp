// Reproducer for the C04 finding: with do_trunc and eps_trunc > eps_strong an entry exactly ON the truncation threshold (here -0.2f against -1) was dropped
// but not compensated: row 1 of P summed to 0.8333 instead of 1 before the fix d-commit (see known-findings.txt).  g++ -std=c++17 -O1 -I<amgcl> this.cpp
#include <cstdio>
#include <vector>
#include <tuple>
#include <amgcl/backend/builtin.hpp>
#include <amgcl/adapter/crs_tuple.hpp>
#include <amgcl/coarsening/ruge_stuben.hpp>
int main() { typedef amgcl::backend::builtin<double> B; int n=4; double o01=-13421773.0/67108864, o12=-0.125, o13=-1, o23=-19;
  double A[4][4]={{-o01,o01,0,0},{o01,-(o01+o12+o13),o12,o13},{0,o12,-(o12+o23),o23},{0,o13,o23,-(o13+o23)}};
  std::vector<ptrdiff_t> ptr{0}, col; std::vector<double> val; for (int i=0;i<n;++i) { for (int j=0;j<n;++j) if (A[i][j]!=0) { col.push_back(j); val.push_back(A[i][j]); } ptr.push_back(col.size()); }
  auto M = std::make_shared<amgcl::backend::crs<double>>(std::tie(n,ptr,col,val));
  amgcl::coarsening::ruge_stuben<B>::params prm; prm.eps_strong=0.05f; prm.eps_trunc=0.2f; prm.do_trunc=true; amgcl::coarsening::ruge_stuben<B> rs(prm);
  auto PR = rs.transfer_operators(*M); auto &P=*std::get<0>(PR);
  for (size_t i=0;i<P.nrows;++i) { double s=0; printf("row %zu:", i); for (auto k=P.ptr[i];k<P.ptr[i+1];++k) { printf(" (%td, %.6g)", P.col[k], P.val[k]); s+=P.val[k]; } printf("  sum=%.10g  (A row: ", s); for (int j=0;j<n;++j) printf("%g ", A[i][j]); printf(")\n"); } }
