// Genuine defect (property C19; also the "no undefined behaviour on valid input" clause of C10): the readers take &vec[0] of an EMPTY vector and
// &col[beg] with beg == col.size().  That is undefined behaviour; with the hardened libstdc++ (-D_GLIBCXX_ASSERTIONS, the default of several
// distributions and of -fhardened) std::vector::operator[] aborts the process:
//   * io::read_crs on any VALID file whose last requested row is empty (or that holds no entries at all)      binary.hpp:128, :53
//   * io::mm_reader on any VALID coordinate file without entries in the requested rows                            mm.hpp:240
// build: g++ -std=c++17 -O1 -D_GLIBCXX_ASSERTIONS -I<repo> empty_rows_hardened_libstdcxx.cpp && ./a.out    aborts (SIGABRT) = defect present, prints ok otherwise
#include <iostream>
#include <fstream>
#include <vector>
#include <amgcl/backend/builtin.hpp>
#include <amgcl/io/binary.hpp>
#include <amgcl/io/mm.hpp>
int main() {
  { // binary CRS file: 3 rows, entries (0,0)=7 (1,1)=8, row 2 empty
    std::ofstream f("/tmp/verif_finding_empty.bin", std::ios::binary); size_t n=3; std::vector<ptrdiff_t> ptr{0,1,2,2}, col{0,1}; std::vector<double> val{7,8}; amgcl::io::write(f,n); amgcl::io::write(f,ptr); amgcl::io::write(f,col); amgcl::io::write(f,val); }
  { size_t n; std::vector<ptrdiff_t> ptr, col; std::vector<double> val; amgcl::io::read_crs("/tmp/verif_finding_empty.bin", n, ptr, col, val); std::cout << "read_crs: " << n << " rows, " << col.size() << " entries" << std::endl; }
  { std::ofstream f("/tmp/verif_finding_empty.mtx"); f << "%%MatrixMarket matrix coordinate real general\n3 3 0\n"; }
  { std::vector<ptrdiff_t> ptr, col; std::vector<double> val; size_t n, m; std::tie(n,m)=amgcl::io::mm_reader("/tmp/verif_finding_empty.mtx")(ptr,col,val); std::cout << "mm_reader: " << n << " x " << m << ", " << col.size() << " entries" << std::endl; }
  std::cout << "ok" << std::endl; return 0; }
