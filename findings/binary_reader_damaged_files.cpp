// Reproducer for the two C19 findings in amgcl/io/binary.hpp (found by ./check C19, engine X: lib/irsx.py on the clang IR of the readers).
//   g++ -std=c++17 -O1 -g -fsanitize=address -I<amgcl> findings/binary_reader_damaged_files.cpp -o /tmp/brd && /tmp/brd
// On the tree before the fixes e29de7e / 957f50f: case 1 and 2 crash (AddressSanitizer: SEGV in read_crs / sort_row), case 3 returns
// normally with a negative row count.  With the fixes every case throws std::runtime_error.
#include <vector>
#include <string>
#include <cstdio>
#include <amgcl/util.hpp>
#include <amgcl/io/binary.hpp>
static void put(const char *fn, const std::vector<int> &w) { FILE *f = fopen(fn, "wb"); fwrite(w.data(), 4, w.size(), f); fclose(f); }
int main() { const char *fn = "/tmp/amgcl_binary_reader_finding.bin"; int bad = 0;
    { // 1. valid 3-row file, but rows [4, end) requested (e.g. a distributed reader expecting more rows): row_beg > row_end -> ptr.front() of an empty vector
      put(fn, {3, 0, 0, 0, 0}); int n; std::vector<int> ptr, col, val;
      try { amgcl::io::read_crs(fn, n, ptr, col, val, 4, -1); printf("case 1: returned normally\n"); ++bad; } catch (const std::exception &e) { printf("case 1: threw '%s'\n", e.what()); } }
    { // 2. one corrupted row pointer (the counterexample of the check): n = 4, ptr = {-3, huge negative, ...}: sort_row() indexes col/val out of bounds
      put(fn, {4, -3, (int)0x83dffefa, (int)0x828ffffc, (int)0x808bfff8, -3}); int n; std::vector<int> ptr, col, val;
      try { amgcl::io::read_crs(fn, n, ptr, col, val); printf("case 2: returned normally\n"); ++bad; } catch (const std::exception &e) { printf("case 2: threw '%s'\n", e.what()); } }
    { // 3. dense file with a negative row count in the header
      put(fn, {-5, 0, 0, 0, 0}); int n, m; std::vector<int> v;
      try { amgcl::io::read_dense(fn, n, m, v, 64, -1); printf("case 3: returned normally with n = %d\n", n); ++bad; } catch (const std::exception &e) { printf("case 3: threw '%s'\n", e.what()); } }
    remove(fn); return bad ? 1 : 0; }
