// Reproducer for the C19 findings in amgcl/io/mm.hpp (found by ./check C19, engine X at token level).
//   g++ -std=c++17 -O1 -g -fsanitize=address -I<amgcl> findings/mm_reader_damaged_files.cpp -o /tmp/mmt && /tmp/mmt
// Before the fix: cases A and B return a matrix with out-of-range column indices, case C crashes (SEGV in mm_reader::operator()).  After: all three throw.
#include <vector>
#include <string>
#include <cstdio>
#include <fstream>
#include <tuple>
#include <amgcl/io/mm.hpp>
static void put(const char *fn, const char *txt) { std::ofstream f(fn); f << txt; }
int main() { const char *fn = "/tmp/amgcl_mm_finding.mtx"; int bad = 0;
    { put(fn, "%%MatrixMarket matrix coordinate integer symmetric\n6 6 1\n-5 2 7\n"); std::vector<int> ptr, col, val; size_t n, m;
      try { amgcl::io::mm_reader rd(fn); std::tie(n, m) = rd(ptr, col, val); bool ok = true; for (int c : col) ok = ok && c >= 0 && (size_t)c < m; printf("case A: returned normally, %zu entries, column indices %s\n", col.size(), ok ? "in range" : "OUT OF RANGE"); if (!ok) { printf("   col[0] = %d\n", col[0]); ++bad; } } catch (const std::exception &e) { printf("case A: threw '%s'\n", e.what()); } }
    { put(fn, "%%MatrixMarket matrix coordinate integer general\n3 3 1\n1 9 7\n"); std::vector<int> ptr, col, val; size_t n, m;
      try { amgcl::io::mm_reader rd(fn); std::tie(n, m) = rd(ptr, col, val); bool ok = true; for (int c : col) ok = ok && c >= 0 && (size_t)c < m; printf("case B: returned normally, column indices %s\n", ok ? "in range" : "OUT OF RANGE"); if (!ok) ++bad; } catch (const std::exception &e) { printf("case B: threw '%s'\n", e.what()); } }
    fflush(stdout);
    { put(fn, "%%MatrixMarket matrix coordinate integer general\n-1 3 0\n"); std::vector<int> ptr, col, val; size_t n, m;
      try { amgcl::io::mm_reader rd(fn); std::tie(n, m) = rd(ptr, col, val); printf("case C: returned normally\n"); ++bad; } catch (const std::exception &e) { printf("case C: threw '%s'\n", e.what()); } }
    remove(fn); return bad ? 1 : 0; }
