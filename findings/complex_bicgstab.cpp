// Genuine defect (property C05): solver::bicgstab on COMPLEX systems is not BiCGStab.
//   alpha = rho1 / inner_product(rh, v)      -- inner_product(a,b) = sum a_i conj(b_i), so this is rho1 / conj(rh^H v)
//   omega = inner_product(t, s) / <t,t>      -- conj(t^H s)/(t^H t): the conjugate of the minimiser of |s - omega t|
// (rho1 itself is inner_product(r, rh) = rh^H r, the correct orientation.)  For real data the two orientations coincide bit for bit,
// and the library's complex test keeps every vector on the ray (1+i)*R^n, where all inner products are real.
// On a general complex n x n system the method no longer terminates within n iterations (every other solver does).
// build: g++ -std=c++17 -O1 -I<repo> complex_bicgstab.cpp && ./a.out      exit 1 = defect present
#include <complex>
#include <iostream>
#include <vector>
#include <amgcl/backend/builtin.hpp>
#include <amgcl/value_type/complex.hpp>
#include <amgcl/solver/bicgstab.hpp>
#include <amgcl/preconditioner/dummy.hpp>
typedef std::complex<double> CX; typedef amgcl::backend::builtin<CX> BE;
int main() { int bad=0; for (int n=2;n<=5;++n) {
    std::vector<ptrdiff_t> ptr(n+1), col; std::vector<CX> val;
    for (int i=0;i<n;++i) { ptr[i]=col.size(); for (int j=0;j<n;++j) { col.push_back(j); val.push_back(i==j ? CX(4+i, 0.5*(i+1)) : CX(0.3*(i+1)-0.1*j, 0.2*(j+1)-0.15*i*i)); } } ptr[n]=col.size();
    auto A = std::make_shared<amgcl::backend::crs<CX>>(n,n,ptr,col,val);
    std::vector<CX> f(n), x(n, CX(0,0)); for (int i=0;i<n;++i) f[i]=CX(1+i, 0.5-i);
    amgcl::solver::bicgstab<BE>::params prm; prm.maxiter=n; prm.tol=1e-14; amgcl::solver::bicgstab<BE> s(n,prm); amgcl::preconditioner::dummy<BE> P(*A);
    size_t it; double res; std::tie(it,res)=s(*A,P,f,x);
    double r2=0; for (int i=0;i<n;++i) { CX t=f[i]; for (int j=0;j<n;++j) t-=val[i*n+j]*x[j]; r2+=std::norm(t); }
    std::cout << "bicgstab complex n=" << n << " iterations=" << it << " reported relative residual=" << res << " true |f-Ax|=" << std::sqrt(r2) << std::endl; if (std::sqrt(r2) > 1e-10) ++bad; }
  if (bad) { std::cout << "DEFECT: complex BiCGStab does not terminate with the solution within n iterations (" << bad << " of 4 systems)" << std::endl; return 1; } std::cout << "ok" << std::endl; return 0; }
