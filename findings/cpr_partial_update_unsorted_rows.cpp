// Genuine defect (properties C17 / C18): cpr::partial_update(K) copied the user matrix without sorting its rows (the constructor sorts).
// An update with the UNCHANGED matrix whose row entries are listed in reverse order changes the action of the preconditioner (max difference 3.9 here);
// with an ILU-type global stage it throws "No diagonal value in system matrix".   exit 1 = defect present
// build: g++ -std=c++17 -O1 -I<repo> cpr_partial_update_unsorted_rows.cpp && ./a.out
#include <iostream>
#include <vector>
#include <algorithm>
#include <amgcl/backend/builtin.hpp>
#include <amgcl/adapter/crs_tuple.hpp>
#include <amgcl/preconditioner/cpr.hpp>
#include <amgcl/relaxation/as_preconditioner.hpp>
#include <amgcl/relaxation/spai0.hpp>
#include <amgcl/relaxation/damped_jacobi.hpp>
typedef amgcl::backend::builtin<double> BE;
int main() { int nb=4, B=2, n=nb*B; std::vector<ptrdiff_t> ptr(1,0), col; std::vector<double> val;
  for (int i=0;i<n;++i) { for (int j=0;j<n;++j) if (std::abs(i/B-j/B)<=1) { col.push_back(j); val.push_back(i==j ? 8.0+i : -0.5-0.1*((i*3+j)%4)); } ptr.push_back(col.size()); }
  // the same matrix with every row's entries reversed
  std::vector<ptrdiff_t> col2=col; std::vector<double> val2=val; for (int i=0;i<n;++i) { std::reverse(col2.begin()+ptr[i],col2.begin()+ptr[i+1]); std::reverse(val2.begin()+ptr[i],val2.begin()+ptr[i+1]); }
  typedef amgcl::relaxation::as_preconditioner<BE,amgcl::relaxation::spai0> PP; typedef amgcl::relaxation::as_preconditioner<BE,amgcl::relaxation::damped_jacobi> SP; typedef amgcl::preconditioner::cpr<PP,SP> CPR; CPR::params prm; prm.block_size=B;
  auto K=std::tie(n,ptr,col,val); auto K2=std::tie(n,ptr,col2,val2);
  CPR C1(K,prm), C2(K,prm), C3(K2,prm); C2.partial_update(K2);   // unchanged matrix, rows listed in another order
  std::vector<double> f(n), x1(n), x2(n), x3(n); for (int i=0;i<n;++i) f[i]=1+0.3*i; C1.apply(f,x1); C2.apply(f,x2); C3.apply(f,x3);
  double d=0, d3=0; for (int i=0;i<n;++i) { d=std::max(d,std::abs(x1[i]-x2[i])); d3=std::max(d3,std::abs(x1[i]-x3[i])); } std::cout << "constructor, unsorted rows: max diff " << d3 << "\npartial_update, unsorted rows: max diff " << d << std::endl; return d>1e-12 || d3>1e-12; }
