// Genuine defect (property C11): backend::spectral_radius<scale>(mpi::distributed_matrix, power_iters = 0) -- the Gershgorin estimate --
// takes the maximum over the LOCAL rows only; there is no MPI_MAX reduction, so every rank returns its own value.  Smoothed aggregation
// (estimate_spectral_radius) and Chebyshev relaxation then use different omega / bounds on different ranks.
// build: mpicxx -std=c++17 -O1 -I<repo> mpi_gershgorin_not_reduced.cpp && mpirun --oversubscribe --allow-run-as-root -np 2 ./a.out     exit 1 = defect present
#include <iostream>
#include <vector>
#include <cmath>
#include <amgcl/backend/builtin.hpp>
#include <amgcl/adapter/crs_tuple.hpp>
#include <amgcl/mpi/util.hpp>
#include <amgcl/mpi/distributed_matrix.hpp>
typedef amgcl::backend::builtin<double> BE;
int main(int argc, char **argv) { MPI_Init(&argc,&argv); int bad=0; { amgcl::mpi::communicator comm(MPI_COMM_WORLD);
    int n=8, chunk=(n+comm.size-1)/comm.size, rb=std::min(n,comm.rank*chunk), re=std::min(n,rb+chunk), nl=re-rb;
    // tridiagonal matrix whose rows get heavier with the row index: serial Gershgorin value = weight of the last interior row
    std::vector<ptrdiff_t> ptr(1,0), col; std::vector<double> val; double serial=0, serial_scaled=0;
    for (int i=0;i<n;++i) { double s=0, d=2.0*(i+1); for (int j=std::max(0,i-1);j<=std::min(n-1,i+1);++j) { double v = i==j ? d : -0.5*(i+1)-0.25*j; s+=std::fabs(v); if (i>=rb && i<re) { col.push_back(j); val.push_back(v); } } if (i>=rb && i<re) ptr.push_back(col.size()); serial=std::max(serial,s); serial_scaled=std::max(serial_scaled,s/d); }
    amgcl::mpi::distributed_matrix<BE> A(comm, std::tie(nl,ptr,col,val), nl);
    double g=amgcl::backend::spectral_radius<false>(A,0), gs=amgcl::backend::spectral_radius<true>(A,0);
    std::cout << "rank " << comm.rank << ": Gershgorin " << g << " (serial " << serial << "), scaled " << gs << " (serial " << serial_scaled << ")" << std::endl;
    if (std::fabs(g-serial)>1e-12 || std::fabs(gs-serial_scaled)>1e-12) bad=1; bad=comm.reduce(MPI_MAX,bad);
    if (comm.rank==0) std::cout << (bad ? "DEFECT: the Gershgorin estimate differs between ranks / from the serial value" : "ok") << std::endl; }
  MPI_Finalize(); return bad; }
