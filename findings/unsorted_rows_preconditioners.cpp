// Demonstration for the C17 findings: relaxation::as_preconditioner and preconditioner::cpr handed a user matrix whose row
// entries are listed in arbitrary order to code that needs sorted rows (amg sorts its copy, these two did not).
// Build: g++ -std=c++17 -O1 -I/repo unsorted_rows_preconditioners.cpp ; exit 0: the preconditioners built from the shuffled
// matrix act like the ones built from the sorted matrix; exit 1: exception or different action.
#include <amgcl/backend/builtin.hpp>
#include <amgcl/adapter/crs_tuple.hpp>
#include <amgcl/relaxation/as_preconditioner.hpp>
#include <amgcl/relaxation/ilu0.hpp>
#include <amgcl/relaxation/spai0.hpp>
#include <amgcl/preconditioner/cpr.hpp>
#include <iostream>
#include <cmath>
typedef amgcl::backend::builtin<double> B;
template <class P, class Prm> static int compare(const char *name, const Prm &prm) {
    int n = 4; std::vector<int> ptr{0,3,6,9,12};
    std::vector<int>    cs{0,1,2,  0,1,3,  0,2,3,  1,2,3};  std::vector<double> vs{6,-1,-2,  -1,7,-1,  -2,8,-1,  -1,-1,9};      // sorted rows
    std::vector<int>    cu{2,0,1,  3,1,0,  3,0,2,  2,3,1};  std::vector<double> vu{-2,6,-1,  -1,7,-1,  -1,-2,8,  -1,9,-1};      // same matrix, shuffled rows
    std::vector<double> f{1,2,3,4}, xs(n,0.0), xu(n,0.0);
    try { P ps(std::tie(n,ptr,cs,vs), prm); ps.apply(f, xs); P pu(std::tie(n,ptr,cu,vu), prm); pu.apply(f, xu); }
    catch (const std::exception &e) { std::cout << name << ": exception: " << e.what() << "\n"; return 1; }
    double d = 0; for (int i = 0; i < n; ++i) d = std::max(d, std::fabs(xs[i]-xu[i])); std::cout << name << ": max difference " << d << "\n"; return (d < 1e-12 && d == d) ? 0 : 1;
}
int main(int argc, char **argv) {
    typedef amgcl::relaxation::as_preconditioner<B, amgcl::relaxation::ilu0> R; typedef amgcl::preconditioner::cpr<amgcl::relaxation::as_preconditioner<B, amgcl::relaxation::spai0>, R> C;
    int rc = 0; if (argc < 2 || argv[1][0]=='r') rc |= compare<R>("as_preconditioner<ilu0>", R::params());
    if (argc < 2 || argv[1][0]=='c') { C::params p; p.block_size = 2; rc |= compare<C>("cpr", p); }
    return rc;
}
