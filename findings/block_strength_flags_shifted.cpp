// Genuine defect (property C04): coarsening::pointwise_aggregates with block_size b > 1 lifts the pointwise strength flags to the scalar matrix, but tests
// the diagonal with (ia + k) AFTER ia has been advanced to the next block row: diagonal entries are flagged strong, the k-th entry of block column ip+1 weak.
// Smoothed aggregation on A (x) I_b with block_size b therefore does NOT equal the lifted coarsening of A (max difference 0.335 in P on a 6-node chain).
// build: g++ -std=c++17 -O1 -I<repo> block_strength_flags_shifted.cpp && ./a.out      exit 1 = defect present
#include <iostream>
#include <vector>
#include <cmath>
#include <amgcl/backend/builtin.hpp>
#include <amgcl/coarsening/smoothed_aggregation.hpp>
#include <amgcl/coarsening/pointwise_aggregates.hpp>
typedef amgcl::backend::builtin<double> BE; typedef amgcl::backend::crs<double> M;
int main() { int n=6, b=2; std::vector<ptrdiff_t> ptr(1,0), col; std::vector<double> val;
  // A: 1D Laplacian with a weak link between nodes 2 and 3
  std::vector<std::vector<double>> Ad(n,std::vector<double>(n,0)); for (int i=0;i<n;++i) { Ad[i][i]=2; if (i+1<n) { double w=(i==2)?-0.01:-1; Ad[i][i+1]=w; Ad[i+1][i]=w; } }
  for (int i=0;i<n;++i) { for (int j=0;j<n;++j) if (Ad[i][j]!=0) { col.push_back(j); val.push_back(Ad[i][j]); } ptr.push_back(col.size()); }
  M A(n,n,ptr,col,val);
  std::vector<ptrdiff_t> ptr2(1,0), col2; std::vector<double> val2; for (int i=0;i<n;++i) for (int k=0;k<b;++k) { for (int j=0;j<n;++j) if (Ad[i][j]!=0) { col2.push_back(j*b+k); val2.push_back(Ad[i][j]); } ptr2.push_back(col2.size()); }
  M A2(n*b,n*b,ptr2,col2,val2);
  amgcl::coarsening::pointwise_aggregates::params ap; amgcl::coarsening::pointwise_aggregates a1(A,ap,0); ap.block_size=b; amgcl::coarsening::pointwise_aggregates a2(A2,ap,0);
  int bad=0; // lifted strong connection flags: entry (i*b+k, j*b+k) of A (x) I_b is strong iff (i,j) is strong in A
  for (int i=0;i<n;++i) for (ptrdiff_t jj=A.ptr[i];jj<A.ptr[i+1];++jj) for (int k=0;k<b;++k) { ptrdiff_t j2=A2.ptr[i*b+k]+(jj-A.ptr[i]); bool s1=a1.strong_connection[jj], s2=a2.strong_connection[j2]; if (s1!=s2) { ++bad; std::cout << "entry (" << i*b+k << "," << A2.col[j2] << ") of A(x)I: strong=" << s2 << ", entry (" << i << "," << A.col[jj] << ") of A: strong=" << s1 << std::endl; } }
  amgcl::coarsening::smoothed_aggregation<BE>::params p1, p2; p2.aggr.block_size=b; amgcl::coarsening::smoothed_aggregation<BE> c1(p1), c2(p2); std::shared_ptr<M> P1,R1,P2,R2; std::tie(P1,R1)=c1.transfer_operators(A); std::tie(P2,R2)=c2.transfer_operators(A2);
  double d=0; for (int i=0;i<n;++i) for (int k=0;k<b;++k) { std::vector<double> r1(P1->ncols*b,0), r2(P2->ncols,0); for (ptrdiff_t j=P1->ptr[i];j<P1->ptr[i+1];++j) r1[P1->col[j]*b+k]+=P1->val[j]; for (ptrdiff_t j=P2->ptr[i*b+k];j<P2->ptr[i*b+k+1];++j) r2[P2->col[j]]+=P2->val[j]; if (r1.size()!=r2.size()) { std::cout<<"size mismatch"<<std::endl; return 1; } for (size_t c=0;c<r1.size();++c) d=std::max(d,std::abs(r1[c]-r2[c])); }
  std::cout << "smoothed aggregation: max |P(A (x) I_b, block_size b) - lifted P(A)| = " << d << "   mismatching strength flags: " << bad << std::endl; return bad>0 || d>1e-12; }
