// Demonstration for the C14 finding: deflated_solver<...>::params::get() exported the value parameters nvec and vec with
// AMGCL_PARAMS_EXPORT_CHILD, which does not compile once the member is instantiated, so the parameters of the deflated
// solver could not be written back at all.  Build: g++ -std=c++17 -O1 -I/repo deflated_solver_params_export.cpp
// (fails to COMPILE on the unfixed tree); exit 0: import followed by export is the identity.
#include <amgcl/backend/builtin.hpp>
#include <amgcl/deflated_solver.hpp>
#include <amgcl/amg.hpp>
#include <amgcl/coarsening/smoothed_aggregation.hpp>
#include <amgcl/relaxation/spai0.hpp>
#include <amgcl/solver/cg.hpp>
#include <iostream>
typedef amgcl::backend::builtin<double> B;
typedef amgcl::deflated_solver<amgcl::amg<B, amgcl::coarsening::smoothed_aggregation, amgcl::relaxation::spai0>, amgcl::solver::cg<B>> DS;
int main() {
    static double z[6] = {1,1,1,1,1,1};
    boost::property_tree::ptree in; in.put("nvec", 2); in.put("vec", (double*)z); in.put("solver.maxiter", 7); in.put("precond.npre", 3);
    DS::params prm(in); boost::property_tree::ptree out; prm.get(out, "");
    bool ok = out.get<int>("nvec") == 2 && out.get<double*>("vec") == z && out.get<int>("solver.maxiter") == 7 && out.get<int>("precond.npre") == 3;
    std::cout << (ok ? "ok: deflated_solver parameters round-trip\n" : "FAIL\n"); return ok ? 0 : 1;
}
