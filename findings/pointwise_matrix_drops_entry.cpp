// Demonstration for the C08 finding: backend::pointwise_matrix() skips, in every row, the first entry of each block column
// after the first one when it computes the block value (the entry that ends the scan of the previous block column is
// consumed by "++beg" before the "c >= col_end" test), so the result is not the largest norm in the block.
// Build: g++ -std=c++17 -O1 -I/repo pointwise_matrix_drops_entry.cpp ; exit 0: correct, exit 1: wrong value.
#include <amgcl/backend/builtin.hpp>
#include <amgcl/adapter/crs_tuple.hpp>
#include <iostream>
#include <vector>
#include <tuple>
#include <cmath>
int main() {
    // 2x4 scalar matrix = 1x2 block matrix with 2x2 blocks; the largest entry of block (0,1) is a(0,2) = 9
    int n = 2; std::vector<int> ptr{0,4,8}, col{0,1,2,3, 0,1,2,3}; std::vector<double> val{1,1,9,1,  1,1,1,1};
    amgcl::backend::crs<double> A(2, 4, ptr, col, val);
    auto P = amgcl::backend::pointwise_matrix(A, 2);
    double got = 0; for (ptrdiff_t k = P->ptr[0]; k < P->ptr[1]; ++k) if (P->col[k] == 1) got = P->val[k];
    std::cout << "block (0,1): pointwise value " << got << ", largest |a| in the block 9\n";
    return std::fabs(got - 9) < 1e-12 ? 0 : 1;
}
