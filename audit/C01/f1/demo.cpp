// C01 finding 1: solver::idrs on complex-valued systems.
// omega(t,s) (idrs.hpp:475-487) computes ts = inner_product(t, s) = s^H t, i.e. the complex
// CONJUGATE of the residual minimiser t^H s / t^H t, so the "minimal residual" step
// r <- r - om*t does not reduce (and usually increases) the residual whenever Im(t^H s) != 0.
// The residual-smoothing step (idrs.hpp:354, 392) has the same conjugation.
// Effect: IDR(s) stalls / diverges on complex systems that every other Krylov solver of the
// library solves in a few dozen iterations.
//
// exit 0 = IDR(s) reaches the requested tolerance inside the budget, exit 1 = it does not.
#include <iostream>
#include <vector>
#include <complex>
#include <cmath>
#include <tuple>
#include <random>
#include <amgcl/backend/builtin.hpp>
#include <amgcl/value_type/complex.hpp>
#include <amgcl/adapter/crs_tuple.hpp>
#include <amgcl/make_solver.hpp>
#include <amgcl/amg.hpp>
#include <amgcl/coarsening/smoothed_aggregation.hpp>
#include <amgcl/relaxation/spai0.hpp>
#include <amgcl/relaxation/damped_jacobi.hpp>
#include <amgcl/relaxation/as_preconditioner.hpp>
#include <amgcl/solver/bicgstab.hpp>
#include <amgcl/solver/gmres.hpp>
#include <amgcl/solver/idrs.hpp>

typedef std::complex<double> C;
typedef amgcl::backend::builtin<C> B;
static int n;
static std::vector<ptrdiff_t> ptr, col;
static std::vector<C> val;

template <class S, class F>
bool run(const char *name, F setp) {
    typename S::params prm; setp(prm);
    S solve(std::tie(n, ptr, col, val), prm);
    std::vector<C> f(n), x(n, C(0));
    std::mt19937 g(1); std::uniform_real_distribution<double> u(-1,1);
    for (int i = 0; i < n; ++i) f[i] = C(u(g), u(g));
    size_t it; double res;
    std::tie(it, res) = solve(f, x);
    double rr = 0, ff = 0;
    for (int i = 0; i < n; ++i) {
        C s = f[i];
        for (auto j = ptr[i]; j < ptr[i+1]; ++j) s -= val[j] * x[col[j]];
        rr += std::norm(s); ff += std::norm(f[i]);
    }
    double tr = std::sqrt(rr/ff);
    bool ok = tr < 1.5e-8;
    std::cout << (ok ? "  ok   " : "  FAIL ") << name << ": iters=" << it
              << " reported=" << res << " true=" << tr << std::endl;
    return ok;
}

int main() {
    using namespace amgcl;
    const int m = 64; n = m*m;
    // 5-point Laplacian plus a complex mass term: A = -Lap + (sr + i*si) I  (diagonal 4+sr+i*si)
    const double sr = -1.0, si = 0.5;
    ptr.push_back(0);
    for (int j = 0; j < m; ++j) for (int i = 0; i < m; ++i) {
        if (j)     { col.push_back((j-1)*m+i); val.push_back(C(-1,0)); }
        if (i)     { col.push_back(j*m+i-1);   val.push_back(C(-1,0)); }
        col.push_back(j*m+i); val.push_back(C(4+sr, si));
        if (i+1<m) { col.push_back(j*m+i+1);   val.push_back(C(-1,0)); }
        if (j+1<m) { col.push_back((j+1)*m+i); val.push_back(C(-1,0)); }
        ptr.push_back(col.size());
    }
    typedef relaxation::as_preconditioner<B, relaxation::damped_jacobi> J;
    typedef amg<B, coarsening::smoothed_aggregation, relaxation::spai0> AMG;

    bool ctl = true, ok = true;
    std::cout << "Jacobi preconditioner, maxiter=500:" << std::endl;
    ctl &= run<make_solver<J, solver::bicgstab<B>>>("bicgstab (control)", [](auto &p){p.solver.maxiter=500;});
    ctl &= run<make_solver<J, solver::gmres<B>>>   ("gmres    (control)", [](auto &p){p.solver.maxiter=500;});
    ok  &= run<make_solver<J, solver::idrs<B>>>    ("idrs s=4 (default)", [](auto &p){p.solver.maxiter=500;});
    ok  &= run<make_solver<J, solver::idrs<B>>>    ("idrs s=4 smoothing", [](auto &p){p.solver.maxiter=500;p.solver.smoothing=true;});
    ok  &= run<make_solver<J, solver::idrs<B>>>    ("idrs s=1          ", [](auto &p){p.solver.maxiter=500;p.solver.s=1;});
    std::cout << "AMG (smoothed_aggregation + spai0), all defaults (maxiter=100):" << std::endl;
    ctl &= run<make_solver<AMG, solver::bicgstab<B>>>("bicgstab (control)", [](auto &){});
    ok  &= run<make_solver<AMG, solver::idrs<B>>>    ("idrs s=4 (default)", [](auto &){});
    ok  &= run<make_solver<AMG, solver::idrs<B>>>    ("idrs s=1          ", [](auto &p){p.solver.s=1;});

    if (!ctl) { std::cout << "control solvers failed: test problem unsuitable" << std::endl; return 2; }
    if (!ok)  { std::cout << "VIOLATED: IDR(s) does not converge on a complex system the other solvers handle" << std::endl; return 1; }
    std::cout << "property holds" << std::endl;
    return 0;
}
