// C01 finding 3: solver::idrs with fewer unknowns than shadow vectors (n < s, default s = 4).
// The constructor (idrs.hpp:225-232) orthonormalises s random shadow vectors of length n with
// Gram-Schmidt. For n < s the vectors P[n..s-1] are (numerically) zero after the projections and
// are then scaled by math::inverse(norm_pj) = 1/0 (or 1/1e-17): P[j] becomes NaN/Inf or pure
// rounding noise. f[i] = <r, P[i]> and M(i,k) then poison v, U, G, x.
// A small nonsingular system (3x3 SPD tridiagonal, default parameters) returns a NaN solution /
// NaN residual or stops short of the tolerance, while every other solver returns the exact solution.
//
// exit 0 = returned x solves the system to the requested tolerance, exit 1 = it does not.
#include <iostream>
#include <vector>
#include <cmath>
#include <tuple>
#include <amgcl/backend/builtin.hpp>
#include <amgcl/adapter/crs_tuple.hpp>
#include <amgcl/make_solver.hpp>
#include <amgcl/relaxation/damped_jacobi.hpp>
#include <amgcl/relaxation/as_preconditioner.hpp>
#include <amgcl/solver/idrs.hpp>
#include <amgcl/solver/bicgstab.hpp>

typedef amgcl::backend::builtin<double> B;

template <class S>
bool run(const char *name, int n) {
    std::vector<ptrdiff_t> ptr(1, 0), col; std::vector<double> val;
    for (int i = 0; i < n; ++i) {
        if (i)     { col.push_back(i-1); val.push_back(-1); }
        col.push_back(i); val.push_back(2.5);
        if (i+1<n) { col.push_back(i+1); val.push_back(-1); }
        ptr.push_back(col.size());
    }
    S solve(std::tie(n, ptr, col, val));
    std::vector<double> f(n), x(n, 0.0);
    for (int i = 0; i < n; ++i) f[i] = 1 + i;
    size_t it; double res;
    std::tie(it, res) = solve(f, x);
    double rr = 0, ff = 0;
    for (int i = 0; i < n; ++i) {
        double s = f[i];
        for (auto j = ptr[i]; j < ptr[i+1]; ++j) s -= val[j] * x[col[j]];
        rr += s*s; ff += f[i]*f[i];
    }
    double tr = std::sqrt(rr/ff);
    bool ok = tr < 1.5e-8 && it <= 100;
    std::cout << (ok ? "  ok   " : "  FAIL ") << name << " n=" << n << ": iters=" << it
              << " reported=" << res << " true=" << tr << " x0=" << x[0] << std::endl;
    return ok;
}

int main() {
    using namespace amgcl;
    typedef relaxation::as_preconditioner<B, relaxation::damped_jacobi> J;
    bool ok = true;
    for (int n = 1; n <= 5; ++n) {
        run<make_solver<J, solver::bicgstab<B>>>("bicgstab (control)", n);
        ok &= run<make_solver<J, solver::idrs<B>>>("idrs (defaults)   ", n);
    }
    if (!ok) { std::cout << "VIOLATED: IDR(s) returns a wrong / NaN solution for n < s" << std::endl; return 1; }
    std::cout << "property holds" << std::endl;
    return 0;
}
