#include <vector>
#include <iostream>
#include <amgcl/backend/builtin.hpp>
#include <amgcl/value_type/static_matrix.hpp>
#include <amgcl/adapter/crs_tuple.hpp>
using namespace amgcl;
int main() {
    typedef static_matrix<double,2,2> block;
    backend::crs<block> A; A.set_size(0, 0, true); A.set_nonzeros(0);
    std::vector<double> x, y;
    backend::spmv(1.0, A, x, 0.0, y);
    std::cout << "spmv ok" << std::endl;
    backend::residual(y, A, x, y);
    std::cout << "residual ok" << std::endl;
    backend::numa_vector<block> d(0);
    backend::vmul(1.0, d, x, 0.0, y);
    std::cout << "vmul ok" << std::endl;
}
