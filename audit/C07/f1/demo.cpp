// C07 finding 1: math::inner_product for Eigen::Matrix value types
// (amgcl/value_type/eigen.hpp) conjugates the FIRST argument (x^H y), while
// every other value type (std::complex, static_matrix) and the Eigen backend
// conjugate the SECOND one (sum_i x_i conj(y_i)).  backend::inner_product on
// vectors of complex Eigen blocks therefore returns the complex conjugate of
// the defining formula.
//
// exit 0 = property holds, exit 1 = violated.
#include <complex>
#include <vector>
#include <iostream>
#include <cmath>

#include <amgcl/backend/builtin.hpp>
#include <amgcl/value_type/complex.hpp>
#include <amgcl/value_type/static_matrix.hpp>
#include <amgcl/value_type/eigen.hpp>

typedef std::complex<double> C;

int main() {
    const int n = 3, B = 2;
    typedef Eigen::Matrix<C, B, 1>       evec;
    typedef amgcl::static_matrix<C, B, 1> svec;

    std::vector<evec> xe(n), ye(n);
    std::vector<svec> xs(n), ys(n);
    std::vector<C>    xc(n * B), yc(n * B);

    C ref = 0; // sum_i x_i conj(y_i): conjugate-linear in the second argument
    for(int i = 0; i < n; ++i) {
        for(int k = 0; k < B; ++k) {
            C x(1.0 + i + k, 2.0 - k + 0.5 * i);
            C y(0.5 * i - k, 1.0 + 2 * i + k);
            xe[i](k) = x; ye[i](k) = y;
            xs[i](k) = x; ys[i](k) = y;
            xc[i*B+k] = x; yc[i*B+k] = y;
            ref += x * std::conj(y);
        }
    }

    C pc = amgcl::backend::inner_product(xc, yc);
    C ps = amgcl::backend::inner_product(xs, ys);
    C pe = amgcl::backend::inner_product(xe, ye);

    std::cout << "reference  sum x_i conj(y_i)            = " << ref << "\n"
              << "std::complex<double>                    = " << pc  << "\n"
              << "static_matrix<complex,2,1>              = " << ps  << "\n"
              << "Eigen::Matrix<complex,2,1>              = " << pe  << "\n";

    int bad = 0;
    if (std::abs(pc - ref) > 1e-12) { std::cout << "complex scalar differs\n"; ++bad; }
    if (std::abs(ps - ref) > 1e-12) { std::cout << "static_matrix differs\n"; ++bad; }
    if (std::abs(pe - ref) > 1e-12) {
        std::cout << "VIOLATION: Eigen value type returns "
                  << (std::abs(pe - std::conj(ref)) < 1e-12 ? "the complex conjugate of" : "something other than")
                  << " the defining formula\n";
        ++bad;
    }

    // Linearity in the first argument: <a x, y> == a <x, y>
    C a(0, 1);
    std::vector<evec> axe(n);
    for(int i = 0; i < n; ++i) axe[i] = a * xe[i];
    C lhs = amgcl::backend::inner_product(axe, ye);
    if (std::abs(lhs - a * pe) > 1e-12) {
        std::cout << "VIOLATION: <a x, y> = " << lhs << " but a <x, y> = " << a * pe
                  << " (not linear in the first argument)\n";
        ++bad;
    }

    // The block (N x M) variant has the same orientation problem:
    typedef Eigen::Matrix<C, B, B>        emat;
    typedef amgcl::static_matrix<C, B, B> smat;
    emat Xe, Ye; smat Xs, Ys;
    for(int i = 0; i < B; ++i) for(int j = 0; j < B; ++j) {
        C x(1 + i, 2 + j), y(3 - j, 1 + i * j);
        Xe(i,j) = x; Ye(i,j) = y; Xs(i,j) = x; Ys(i,j) = y;
    }
    emat Pe = amgcl::math::inner_product(Xe, Ye);
    smat Ps = amgcl::math::inner_product(Xs, Ys);
    double d = 0;
    for(int i = 0; i < B; ++i) for(int j = 0; j < B; ++j) d = std::max(d, std::abs(Pe(i,j) - Ps(i,j)));
    if (d > 1e-12) {
        std::cout << "VIOLATION: block inner product, Eigen vs static_matrix differ by " << d << "\n";
        ++bad;
    }

    std::cout << (bad ? "FAIL" : "OK") << std::endl;
    return bad ? 1 : 0;
}
