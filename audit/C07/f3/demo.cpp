// C07 finding 3: backend::numa_vector<T> (the vector type of the builtin,
// builtin_hybrid and block_crs backends) owns a new[]-allocated buffer and
// defines a destructor, but no copy constructor / copy assignment.  The
// templated "copy from any vector" constructor is never selected for a
// numa_vector argument (a template is never a copy constructor), so the
// implicitly generated SHALLOW copy is used:
//
//   * block_crs<T>::copy_vector(const vector &x, prm) ("Copy vector from
//     builtin backend", block_crs.hpp:188) returns a vector that ALIASES x,
//   * writing to the copy changes the original, and
//   * both destructors delete[] the same buffer (double free).
//
// exit 0 = property holds (copy is an independent vector with equal content),
// exit 1 = violated.
#include <iostream>
#include <cstdlib>
#include <memory>

#include <amgcl/backend/builtin.hpp>
#include <amgcl/backend/block_crs.hpp>

int main() {
    typedef amgcl::backend::block_crs<double> Backend;
    typedef Backend::vector vector; // = numa_vector<double>

    int bad = 0;

    {
        vector x(4);
        for(int i = 0; i < 4; ++i) x[i] = i + 1;

        std::shared_ptr<vector> y = Backend::copy_vector(x, Backend::params());

        bool equal = y->size() == x.size();
        for(int i = 0; equal && i < 4; ++i) equal = ((*y)[i] == x[i]);
        if (!equal) { std::cout << "copy_vector: content differs\n"; ++bad; }

        // Use the copy as an output vector: y = 0 * y + 0 (clear)
        amgcl::backend::clear(*y);

        std::cout << "block_crs::copy_vector(x): x = [" << x[0] << " " << x[1] << " " << x[2] << " " << x[3]
                  << "] after clear(copy); x.data()=" << (const void*)x.data()
                  << " copy.data()=" << (const void*)y->data() << "\n";

        if (y->data() == x.data() || x[0] != 1) {
            std::cout << "VIOLATION: the copy aliases the original (clearing the copy cleared x); "
                         "both destructors would delete[] the same buffer\n";
            ++bad;
        }

        // Leaving this scope normally would double free the buffer
        // (glibc: 'free(): double free detected', ASan: attempting double-free).
        // Set C07_RUN_DTORS=1 to see that.
        if (bad && !std::getenv("C07_RUN_DTORS")) {
            std::cout << "FAIL" << std::endl;
            std::_Exit(1);
        }
    }

    {
        // Plain copy construction / assignment of the backend vector type.
        vector a(3), c(2);
        a[0] = 1; a[1] = 2; a[2] = 3;
        vector b(a);
        c = a;
        if (b.data() == a.data() || c.data() == a.data()) {
            std::cout << "VIOLATION: numa_vector copy construction / assignment is shallow\n";
            std::cout << "FAIL" << std::endl;
            std::_Exit(1);
        }
        if (b.size() != 3 || c.size() != 3 || b[2] != 3 || c[2] != 3) { std::cout << "copy content differs\n"; ++bad; }
    }

    std::cout << (bad ? "FAIL" : "OK") << std::endl;
    return bad ? 1 : 0;
}
