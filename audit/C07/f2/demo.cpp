// C07 finding 2: the hybrid backend (builtin_hybrid<Block>::copy_matrix, via
// adapter::block_matrix) silently builds a WRONG block matrix when the
// entries of a scalar row are not sorted by column: spmv / residual on the
// hybrid matrix then differ from the scalar builtin backend for the same
// (valid, duplicate free) CRS matrix.
//
// exit 0 = property holds, exit 1 = violated.
#include <vector>
#include <iostream>
#include <cmath>
#include <memory>

#include <amgcl/backend/builtin.hpp>
#include <amgcl/backend/builtin_hybrid.hpp>
#include <amgcl/value_type/static_matrix.hpp>
#include <amgcl/adapter/block_matrix.hpp>

typedef amgcl::static_matrix<double, 2, 2> block;
typedef amgcl::backend::builtin<double>       SB;
typedef amgcl::backend::builtin_hybrid<block> HB;

static std::shared_ptr<SB::matrix> make(bool sorted) {
    // 4 x 4 matrix
    //   [ 1 0 2 0 ]
    //   [ 0 3 0 0 ]
    //   [ 0 0 4 0 ]
    //   [ 5 0 0 6 ]
    // Row 0 and row 3 list their entries in descending column order
    // in the unsorted variant.
    auto A = std::make_shared<SB::matrix>();
    A->set_size(4, 4);
    ptrdiff_t ptr[] = {0, 2, 3, 4, 6};
    for(int i = 0; i <= 4; ++i) A->ptr[i] = ptr[i];
    A->set_nonzeros(6);
    if (sorted) {
        ptrdiff_t col[] = {0, 2, 1, 2, 0, 3};
        double    val[] = {1, 2, 3, 4, 5, 6};
        for(int j = 0; j < 6; ++j) { A->col[j] = col[j]; A->val[j] = val[j]; }
    } else {
        ptrdiff_t col[] = {2, 0, 1, 2, 3, 0};
        double    val[] = {2, 1, 3, 4, 6, 5};
        for(int j = 0; j < 6; ++j) { A->col[j] = col[j]; A->val[j] = val[j]; }
    }
    return A;
}

static int check(bool sorted) {
    auto As = make(sorted);
    auto Ah = HB::copy_matrix(As, HB::params());

    std::vector<double> x = {1, 10, 100, 1000};
    std::vector<double> ys(4, std::nan("")), yh(4, std::nan(""));

    amgcl::backend::spmv(1.0, *As, x, 0.0, ys); // scalar builtin
    amgcl::backend::spmv(1.0, *Ah, x, 0.0, yh); // hybrid: block matrix, scalar vectors

    const double ref[] = {201, 30, 400, 6005};

    std::cout << (sorted ? "sorted rows:   " : "unsorted rows: ");
    int bad = 0;
    for(int i = 0; i < 4; ++i) {
        std::cout << " [ref " << ref[i] << " builtin " << ys[i] << " hybrid " << yh[i] << "]";
        if (!(std::abs(ys[i] - ref[i]) < 1e-12)) ++bad;
        if (!(std::abs(yh[i] - ref[i]) < 1e-12)) ++bad;
    }
    std::cout << "\n  hybrid matrix: " << Ah->nrows << " block rows, " << Ah->ptr[Ah->nrows] << " blocks\n";
    for(size_t i = 0; i < Ah->nrows; ++i)
        for(ptrdiff_t j = Ah->ptr[i]; j < Ah->ptr[i+1]; ++j)
            std::cout << "    block (" << i << "," << Ah->col[j] << ") = [" << Ah->val[j](0,0) << " " << Ah->val[j](0,1)
                      << "; " << Ah->val[j](1,0) << " " << Ah->val[j](1,1) << "]\n";
    return bad;
}

int main() {
    int bad_sorted   = check(true);
    int bad_unsorted = check(false);

    if (bad_sorted)   std::cout << "unexpected: sorted input differs\n";
    if (bad_unsorted) std::cout << "VIOLATION: hybrid spmv differs from A*x for a matrix with unsorted rows\n";

    std::cout << ((bad_sorted || bad_unsorted) ? "FAIL" : "OK") << std::endl;
    return (bad_sorted || bad_unsorted) ? 1 : 0;
}
