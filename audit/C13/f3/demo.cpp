// C13 / f3: make_block_solver ("may take scalar inputs for the system matrix")
// hands the user's scalar matrix straight to adapter::block_matrix, which
// requires rows sorted by column.  make_solver / amg accept rows in any order
// (they sort their own copy), so the same CRS arrays that work with
// make_solver<amg<builtin<double>>> silently give a DIFFERENT operator with
// make_block_solver<amg<builtin<static_matrix<double,2,2>>>>: entries are
// dropped / overwritten / duplicated when the blocks are gathered.
//
// Input: the common "diagonal entry first" CRS layout of a block-structured
// matrix.  exit 0 = block solver solves the scalar system, 1 = violated.
#include <iostream>
#include <vector>
#include <tuple>
#include <cmath>
#include <algorithm>

#include <amgcl/backend/builtin.hpp>
#include <amgcl/value_type/static_matrix.hpp>
#include <amgcl/adapter/crs_tuple.hpp>
#include <amgcl/make_solver.hpp>
#include <amgcl/make_block_solver.hpp>
#include <amgcl/amg.hpp>
#include <amgcl/coarsening/smoothed_aggregation.hpp>
#include <amgcl/relaxation/spai0.hpp>
#include <amgcl/solver/bicgstab.hpp>

static const int B = 2;
typedef amgcl::static_matrix<double, B, B> Block;

struct Sys { int n; std::vector<ptrdiff_t> ptr, col; std::vector<double> val, rhs; };

// 2D 5-point stencil (m x m) (x) dense 2x2 coupling, diagonally dominant.
// diag_first: the diagonal entry of every row is stored first, the rest in
// increasing column order (a valid CRS matrix with unsorted rows).
Sys make(int m, bool diag_first) {
    Sys s; s.n = m * m * B; s.ptr.push_back(0);
    for (int j = 0; j < m; ++j) for (int i = 0; i < m; ++i) {
        int I = j * m + i;
        for (int k = 0; k < B; ++k) {
            std::vector<std::pair<ptrdiff_t,double>> row;
            auto add = [&](int J, bool d) {
                for (int l = 0; l < B; ++l)
                    row.push_back({J * B + l, d ? (k == l ? 4.5 + k : 0.4 + 0.2 * k) : (k == l ? -1.0 : -0.15 - 0.1 * k)});
            };
            if (j > 0) add(I - m, false);
            if (i > 0) add(I - 1, false);
            add(I, true);
            if (i < m - 1) add(I + 1, false);
            if (j < m - 1) add(I + m, false);
            if (diag_first) {
                auto d = std::find_if(row.begin(), row.end(), [&](auto &e){ return e.first == I * B + k; });
                std::rotate(row.begin(), d, d + 1);
            }
            for (auto &e : row) { s.col.push_back(e.first); s.val.push_back(e.second); }
            s.ptr.push_back(s.col.size());
        }
    }
    s.rhs.resize(s.n);
    for (int i = 0; i < s.n; ++i) s.rhs[i] = 1 + 0.01 * (i % 17);
    return s;
}

double true_residual(const Sys &s, const std::vector<double> &x) {
    double rn = 0, fn = 0;
    for (int i = 0; i < s.n; ++i) {
        double r = s.rhs[i];
        for (auto j = s.ptr[i]; j < s.ptr[i + 1]; ++j) r -= s.val[j] * x[s.col[j]];
        rn += r * r; fn += s.rhs[i] * s.rhs[i];
    }
    return std::sqrt(rn / fn);
}

int bad = 0;
void check(const char *name, const Sys &s, size_t it, double res, const std::vector<double> &x) {
    double t = true_residual(s, x);
    bool ok = (t <= 1e-8) && std::abs(t - res) <= 0.05 * std::max(t, res);
    std::cout << (ok ? "ok   " : "FAIL ") << name << ": iters=" << it
              << " reported=" << res << " true=" << t << std::endl;
    if (!ok) ++bad;
}

template <class Solver>
void run(const char *name, Sys &s) {
    auto A = std::tie(s.n, s.ptr, s.col, s.val);
    typename Solver::params prm; prm.precond.coarse_enough = 20;
    Solver solve(A, prm);
    std::vector<double> x(s.n, 0.0);
    size_t it; double res;
    std::tie(it, res) = solve(s.rhs, x);
    check(name, s, it, res, x);
}

int main() {
    typedef amgcl::make_solver<
        amgcl::amg<amgcl::backend::builtin<double>, amgcl::coarsening::smoothed_aggregation, amgcl::relaxation::spai0>,
        amgcl::solver::bicgstab<amgcl::backend::builtin<double>>> Scalar;
    typedef amgcl::make_block_solver<
        amgcl::amg<amgcl::backend::builtin<Block>, amgcl::coarsening::smoothed_aggregation, amgcl::relaxation::spai0>,
        amgcl::solver::bicgstab<amgcl::backend::builtin<Block>>> Blk;

    Sys sorted = make(16, false), dfirst = make(16, true);   // the same matrix, two layouts

    run<Scalar>("scalar solver, sorted rows        ", sorted);
    run<Scalar>("scalar solver, diagonal-first rows", dfirst);
    run<Blk   >("block  solver, sorted rows        ", sorted);
    run<Blk   >("block  solver, diagonal-first rows", dfirst);

    if (bad) {
        std::cout << "VIOLATED: make_block_solver does not solve the scalar system it was given "
                     "(rows not sorted by column are mis-gathered into blocks)" << std::endl;
        return 1;
    }
    std::cout << "OK" << std::endl;
    return 0;
}
