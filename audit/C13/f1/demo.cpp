// C13 / f1: adapter::block_matrix_adapter::row_iterator is not copy-safe.
// The iterator keeps a raw pointer (base) into its OWN member buffer (buf);
// the implicitly generated copy constructor copies the pointer verbatim, so a
// copy reads (and advances) the per-row iterators of the object it was copied
// from.  Any adapter that stores its base iterator by value (reordered_matrix
// does: row_iterator(const base_iterator&, ...) : base(base)) therefore reads
// the stack of a destroyed temporary.
//
// Check: the block matrix seen through reorder(block_matrix<Block>(A)) must be
// P * blocked(A) * P^T, i.e. entry (i,j) == block (perm[i], perm[j]) of A.
//
// exit 0 = property holds, 1 = violated.
#include <iostream>
#include <vector>
#include <tuple>
#include <map>
#include <cmath>

#include <amgcl/backend/builtin.hpp>
#include <amgcl/value_type/static_matrix.hpp>
#include <amgcl/adapter/crs_tuple.hpp>
#include <amgcl/adapter/block_matrix.hpp>
#include <amgcl/adapter/reorder.hpp>

static const int B = 2;
typedef amgcl::static_matrix<double, B, B> Block;

// something that clobbers the stack between the construction of the iterator
// and its use (ordinary code does that all the time)
__attribute__((noinline)) double clobber(int k) {
    volatile double junk[64];
    for (int i = 0; i < 64; ++i) junk[i] = -1e300 + i + k;
    double s = 0; for (int i = 0; i < 64; ++i) s += junk[i];
    return s;
}

int main() {
    // Block tridiagonal (1D Poisson (x) dense 2x2 coupling), nb block rows.
    const int nb = 6, n = nb * B;
    std::vector<ptrdiff_t> ptr(1, 0), col;
    std::vector<double> val;
    for (int ib = 0; ib < nb; ++ib)
        for (int i = 0; i < B; ++i) {
            for (int jb = std::max(0, ib - 1); jb <= std::min(nb - 1, ib + 1); ++jb)
                for (int j = 0; j < B; ++j) {
                    col.push_back(jb * B + j);
                    val.push_back(100 * (ib * B + i) + (jb * B + j) + 1); // unique, encodes (row,col)
                }
            ptr.push_back(col.size());
        }
    auto A = std::tie(n, ptr, col, val);

    auto Ab = amgcl::adapter::block_matrix<Block>(A);

    // reference: the block matrix, read directly (no copy of the iterator)
    std::map<std::pair<ptrdiff_t,ptrdiff_t>, Block> ref;
    for (int i = 0; i < nb; ++i)
        for (auto a = amgcl::backend::row_begin(Ab, i); a; ++a)
            ref[{i, a.col()}] = a.value();

    // Part 1 (deterministic, both objects alive): a copy of a row iterator must
    // be an independent iterator over the same row.
    {
        auto a = amgcl::backend::row_begin(Ab, 1);   // block row 1: block columns 0,1,2
        auto b = a;                                  // copy
        std::vector<ptrdiff_t> cb, ca;
        for (; b; ++b) cb.push_back(b.col());        // walk the copy to the end
        for (; a; ++a) ca.push_back(a.col());        // the original must be unaffected
        std::cout << "copy yields " << cb.size() << " block columns, original afterwards yields "
                  << ca.size() << " (expected 3 and 3)" << std::endl;
        if (cb.size() != 3 || ca.size() != 3) {
            std::cout << "VIOLATED: a copied block_matrix_adapter::row_iterator shares (points into) "
                         "the per-row iterators of the object it was copied from" << std::endl;
            return 1;
        }
    }

    // Part 2: the same through the reorder adapter, which stores the base
    // iterator by value (copy of a temporary -> dangling pointer without the fix).
    amgcl::adapter::reorder<> perm(Ab);       // Cuthill-McKee on the block graph
    auto Ar = perm(Ab);                       // reordered_matrix<block_matrix_adapter<...>>

    std::vector<ptrdiff_t> id(nb), p(nb);
    for (int i = 0; i < nb; ++i) id[i] = i;
    perm.forward(id, p);                      // p[i] = perm[i]

    int bad = 0, seen = 0;
    double sink = 0;
    for (int i = 0; i < nb; ++i) {
        auto a = amgcl::backend::row_begin(Ar, i);
        sink += clobber(i);
        for (; a; ++a) {
            ++seen;
            ptrdiff_t j = a.col();
            Block v = a.value();
            bool ok = (j >= 0 && j < nb) && ref.count({p[i], (j >= 0 && j < nb) ? p[j] : 0});
            if (ok) {
                Block w = ref[{p[i], p[j]}];
                for (int k = 0; k < B * B; ++k) if (v(k) != w(k)) ok = false;
            }
            if (!ok) {
                if (bad < 5) std::cout << "row " << i << " (orig " << p[i] << "): entry col " << j
                                       << " does not match the block matrix" << std::endl;
                ++bad;
            }
            if (seen > 10 * nb * nb) { std::cout << "iteration does not terminate" << std::endl; return 1; }
        }
    }
    std::cout << "entries seen " << seen << " (expected " << ref.size() << "), mismatches " << bad
              << " [" << (sink != 0) << "]" << std::endl;

    if (bad || seen != (int)ref.size()) {
        std::cout << "VIOLATED: reorder(block_matrix(A)) is not the permuted block matrix" << std::endl;
        return 1;
    }
    std::cout << "OK" << std::endl;
    return 0;
}
