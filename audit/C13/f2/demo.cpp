// C13 / f2: mixed precision.  With a single-precision preconditioner backend
// and a double-precision solver backend, make_solver::operator()(rhs, x)
// (and make_block_solver::operator()(rhs, x), make_solver::apply()) run the
// Krylov iteration on P.system_matrix(), i.e. on the SINGLE-PRECISION copy of
// the system matrix kept by the preconditioner.  The returned "achieved
// residual" is the residual of the rounded system; for a matrix whose entries
// are not exactly representable in float the true relative residual of the
// user's system stays at ~1e-6, far above the default tolerance 1e-8 that the
// solver claims to have reached.
//
// exit 0 = reported residual is truthful and the tolerance is reached,
// exit 1 = violated.
#include <iostream>
#include <vector>
#include <tuple>
#include <cmath>

#include <amgcl/backend/builtin.hpp>
#include <amgcl/value_type/static_matrix.hpp>
#include <amgcl/adapter/crs_tuple.hpp>
#include <amgcl/make_solver.hpp>
#include <amgcl/make_block_solver.hpp>
#include <amgcl/amg.hpp>
#include <amgcl/coarsening/smoothed_aggregation.hpp>
#include <amgcl/relaxation/spai0.hpp>
#include <amgcl/solver/cg.hpp>

static const int B = 2;
struct Sys { int n; std::vector<ptrdiff_t> ptr, col; std::vector<double> val, rhs; };

// 2D Poisson stencil (x) 2x2 coupling; SPD; entries 4.1, 0.3, -1, -0.1
Sys make(int m) {
    Sys s; s.n = m * m * B; s.ptr.push_back(0);
    for (int j = 0; j < m; ++j) for (int i = 0; i < m; ++i) {
        int I = j * m + i;
        for (int k = 0; k < B; ++k) {
            auto add = [&](int J, bool d) {
                for (int l = 0; l < B; ++l) {
                    s.col.push_back(J * B + l);
                    s.val.push_back(d ? (k == l ? 4.1 : 0.3) : (k == l ? -1.0 : -0.1));
                }
            };
            if (j > 0) add(I - m, false);
            if (i > 0) add(I - 1, false);
            add(I, true);
            if (i < m - 1) add(I + 1, false);
            if (j < m - 1) add(I + m, false);
            s.ptr.push_back(s.col.size());
        }
    }
    s.rhs.resize(s.n);
    for (int i = 0; i < s.n; ++i) s.rhs[i] = 1 + 0.01 * (i % 17);
    return s;
}

double true_residual(const Sys &s, const std::vector<double> &x) {
    double rn = 0, fn = 0;
    for (int i = 0; i < s.n; ++i) {
        double r = s.rhs[i];
        for (auto j = s.ptr[i]; j < s.ptr[i + 1]; ++j) r -= s.val[j] * x[s.col[j]];
        rn += r * r; fn += s.rhs[i] * s.rhs[i];
    }
    return std::sqrt(rn / fn);
}

int bad = 0;
void check(const char *name, const Sys &s, size_t it, double res, const std::vector<double> &x) {
    double t = true_residual(s, x);
    bool ok = (t <= 1e-8) && std::abs(t - res) <= 0.05 * std::max(t, res);
    std::cout << (ok ? "ok   " : "FAIL ") << name << ": iters=" << it
              << " reported=" << res << " true=" << t << std::endl;
    if (!ok) ++bad;
}

int main() {
    Sys s = make(20);
    auto A = std::tie(s.n, s.ptr, s.col, s.val);

    {   // scalar value type: float AMG under a double CG
        typedef amgcl::make_solver<
            amgcl::amg<amgcl::backend::builtin<float>, amgcl::coarsening::smoothed_aggregation, amgcl::relaxation::spai0>,
            amgcl::solver::cg<amgcl::backend::builtin<double>>> S;
        S::params prm; prm.precond.coarse_enough = 20;
        S solve(A, prm);
        size_t it; double res;

        std::vector<double> x(s.n, 0.0);
        std::tie(it, res) = solve(A, s.rhs, x);
        check("scalar  solve(A, rhs, x)", s, it, res, x);

        std::fill(x.begin(), x.end(), 0.0);
        std::tie(it, res) = solve(s.rhs, x);
        check("scalar  solve(rhs, x)   ", s, it, res, x);
    }
    {   // block value type through make_block_solver
        typedef amgcl::static_matrix<float,  B, B> FB;
        typedef amgcl::static_matrix<double, B, B> DB;
        typedef amgcl::make_block_solver<
            amgcl::amg<amgcl::backend::builtin<FB>, amgcl::coarsening::smoothed_aggregation, amgcl::relaxation::spai0>,
            amgcl::solver::cg<amgcl::backend::builtin<DB>>> S;
        S::params prm; prm.precond.coarse_enough = 20;
        S solve(A, prm);
        size_t it; double res;

        std::vector<double> x(s.n, 0.0);
        std::tie(it, res) = solve(A, s.rhs, x);
        check("block   solve(A, rhs, x)", s, it, res, x);

        std::fill(x.begin(), x.end(), 0.0);
        std::tie(it, res) = solve(s.rhs, x);
        check("block   solve(rhs, x)   ", s, it, res, x);
    }

    if (bad) {
        std::cout << "VIOLATED: the residual returned by operator()(rhs, x) is the residual of the "
                     "float-rounded matrix; the 1e-8 tolerance is not reached for the user's system" << std::endl;
        return 1;
    }
    std::cout << "OK" << std::endl;
    return 0;
}
