// C20 / f1: lib/amgcl_mpi.cpp hands the user's deflation-vector callback its
// arguments in the wrong order: the callback is declared in lib/amgcl_mpi.h as
//     double f(int vec, ptrdiff_t coo, void *data)
// but it is called with vec = local row and coo = vector number.
//
// build: mpicxx -std=c++17 -O1 -I/tmp/hunt/C20 -I/tmp/hunt/C20/lib demo.cpp -o demo
// run:   OMP_NUM_THREADS=1 mpirun --oversubscribe --allow-run-as-root -np 2 ./demo
#include <vector>
#include <cstdio>
#include <cstring>
#include <algorithm>
#include "amgcl.cpp"      // the C library itself (params handles)
#define Backend Backend_mpi
#define Params  Params_mpi
#define Solver  Solver_mpi
#include "amgcl_mpi.cpp"  // the distributed part of the C library
#undef Backend
#undef Params
#undef Solver

struct probe { int max_vec = -1; ptrdiff_t max_coo = -1; long calls = 0; };

// Two deflation vectors per subdomain: constant and linear in the local row.
static double STDCALL defvec(int vec, ptrdiff_t coo, void *data) {
    probe *p = static_cast<probe*>(data);
    p->max_vec = std::max(p->max_vec, vec);
    p->max_coo = std::max(p->max_coo, coo);
    ++p->calls;
    return vec == 0 ? 1.0 : 0.01 * coo;
}

static int run() {
    int rank, size;
    MPI_Comm_rank(MPI_COMM_WORLD, &rank);
    MPI_Comm_size(MPI_COMM_WORLD, &size);

    // 1D Poisson strip, nloc rows per process, global column numbers.
    const ptrdiff_t nloc = 50, N = nloc * size, beg = rank * nloc;
    std::vector<ptrdiff_t> ptr(1, 0), col;
    std::vector<double> val, rhs(nloc, 1.0);
    for (ptrdiff_t i = beg; i < beg + nloc; ++i) {
        if (i > 0)     { col.push_back(i - 1); val.push_back(-1); }
        col.push_back(i); val.push_back(2);
        if (i + 1 < N) { col.push_back(i + 1); val.push_back(-1); }
        ptr.push_back(col.size());
    }

    const int ndv = 2;

    // --- C interface ----------------------------------------------------
    probe pr;
    amgclHandle prm = amgcl_params_create();
    amgcl_params_sets(prm, "isolver.type", "bicgstab");
    amgclHandle s = amgcl_mpi_create(MPI_COMM_WORLD, nloc, ptr.data(), col.data(),
            val.data(), ndv, defvec, &pr, prm);
    std::vector<double> x(nloc, 0.0);
    conv_info c = amgcl_mpi_solve(s, rhs.data(), x.data());
    amgcl_mpi_destroy(s);
    amgcl_params_destroy(prm);

    // --- the equivalent C++ call ------------------------------------------
    std::function<double(ptrdiff_t, unsigned)> dv = [](ptrdiff_t row, unsigned vec) {
        return vec == 0 ? 1.0 : 0.01 * row;
    };
    boost::property_tree::ptree p;
    p.put("isolver.type", "bicgstab");
    p.put("num_def_vec", ndv);
    p.put("def_vec", &dv);
    Solver_mpi S(MPI_COMM_WORLD, std::tie(nloc, ptr, col, val), p);
    std::vector<double> y(nloc, 0.0);
    size_t it; double res;
    std::tie(it, res) = S(rhs, y);

    int bad = 0;
    if (pr.max_vec >= ndv) {
        bad = 1;
        if (rank == 0) printf("callback received vec up to %d (only %d deflation vectors exist), "
                "coo up to %td (subdomain has %td rows): arguments are swapped\n",
                pr.max_vec, ndv, pr.max_coo, nloc);
    }
    if ((size_t)c.iterations != it || std::memcmp(&c.residual, &res, sizeof(double))
            || std::memcmp(x.data(), y.data(), nloc * sizeof(double))) {
        bad = 1;
        if (rank == 0) printf("C interface: %d iterations, residual %.17g;  C++: %zu iterations, residual %.17g\n",
                c.iterations, c.residual, it, res);
    }
    int allbad; MPI_Allreduce(&bad, &allbad, 1, MPI_INT, MPI_MAX, MPI_COMM_WORLD);
    if (rank == 0) printf(allbad ? "VIOLATED\n" : "property holds\n");
    return allbad;
}

int main(int argc, char *argv[]) {
    MPI_Init(&argc, &argv);
    int bad = run();   // all solvers are destroyed before MPI_Finalize
    MPI_Finalize();
    return bad;
}
