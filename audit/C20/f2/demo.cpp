// C20 / f2: lib/amgcl.h ("C wrapper interface to amgcl") is not valid C:
// `struct conv_info {...};` is followed by declarations that use the bare name
// `conv_info`, which names a type only in C++.  No C program can include it.
//
// build: g++ -std=c++17 -O1 demo.cpp -o demo ; run: ./demo [path-to-lib-dir]
#include <cstdio>
#include <cstdlib>
#include <string>
int main(int argc, char *argv[]) {
    std::string lib = argc > 1 ? argv[1] : "/tmp/hunt/C20/lib";
    const char *src = "/tmp/hunt/C20-out/f2/use_from_c.c";
    FILE *f = fopen(src, "w");
    fputs("#include \"amgcl.h\"\n"
          "int main(void) {\n"
          "    int ptr[] = {0, 1}; int col[] = {0}; double val[] = {2.0}, rhs[] = {1.0}, x[] = {0.0};\n"
          "    amgclHandle s = amgcl_solver_create(1, ptr, col, val, 0);\n"
          "    struct conv_info c = amgcl_solver_solve(s, rhs, x);\n"
          "    amgcl_solver_destroy(s);\n"
          "    return c.iterations < 0;\n"
          "}\n", f);
    fclose(f);
    std::string cmd = "cc -std=c99 -fsyntax-only -I" + lib + " " + src + " 2>&1";
    int rc = std::system(cmd.c_str());
    if (rc != 0) { printf("VIOLATED: a C compiler rejects lib/amgcl.h\n"); return 1; }
    printf("property holds: lib/amgcl.h is accepted by a C compiler\n");
    return 0;
}
