// C20 / f3: amgcl_params_setf() does not deliver the value it is given.
// The float is stored in the property tree as text with 9 significant digits
// (ptree::put<float>) and read back as a double: the solver receives the
// double nearest to that 9-digit decimal, not the value of the float.
//
// build: g++ -std=c++17 -O1 -I/tmp/hunt/C20 -I/tmp/hunt/C20/lib demo.cpp -o demo
#include <vector>
#include <cstdio>
#include <cstring>
#include "amgcl.cpp"                       // the C library under test
#include <amgcl/solver/richardson.hpp>
#include <amgcl/coarsening/smoothed_aggregation.hpp>
#include <amgcl/relaxation/spai0.hpp>

int main() {
    const int n = 64;
    std::vector<int> ptr(1, 0), col; std::vector<double> val, rhs(n, 1.0);
    for (int i = 0; i < n; ++i) {
        if (i > 0)     { col.push_back(i - 1); val.push_back(-1); }
        col.push_back(i); val.push_back(2.5);
        if (i + 1 < n) { col.push_back(i + 1); val.push_back(-1); }
        ptr.push_back(col.size());
    }
    const float damping = 0.8f, tol = 1e-6f;

    // C interface
    amgclHandle prm = amgcl_params_create();
    amgcl_params_sets(prm, "solver.type", "richardson");
    amgcl_params_setf(prm, "solver.damping", damping);
    amgcl_params_setf(prm, "solver.tol", tol);
    amgclHandle h = amgcl_solver_create(n, ptr.data(), col.data(), val.data(), prm);
    amgcl_params_destroy(prm);
    // what reached the solver (Solver is the type behind the handle, see lib/amgcl.cpp)
    double got_damping = static_cast<Solver*>(h)->prm.solver.get<double>("damping");
    double got_tol     = static_cast<Solver*>(h)->prm.solver.get<double>("tol");
    std::vector<double> x(n, 0.0);
    conv_info c = amgcl_solver_solve(h, rhs.data(), x.data());
    amgcl_solver_destroy(h);

    // The same solver with the same parameter values through the C++ interface
    typedef amgcl::make_solver<
        amgcl::amg<Backend, amgcl::coarsening::smoothed_aggregation, amgcl::relaxation::spai0>,
        amgcl::solver::richardson<Backend> > CxxSolver;
    CxxSolver::params p;
    p.solver.damping = damping;
    p.solver.tol     = tol;
    CxxSolver S(std::tie(n, ptr, col, val), p);
    std::vector<double> y(n, 0.0);
    size_t it; double res;
    std::tie(it, res) = S(rhs, y);

    int bad = 0;
    if (got_damping != (double)damping) { bad = 1;
        printf("damping: set %.17g, solver got %.17g\n", (double)damping, got_damping); }
    if (got_tol != (double)tol) { bad = 1;
        printf("tol:     set %.17g, solver got %.17g\n", (double)tol, got_tol); }
    if ((size_t)c.iterations != it || std::memcmp(&c.residual, &res, 8) || std::memcmp(x.data(), y.data(), 8 * n)) { bad = 1;
        printf("C: %d iterations, residual %.17g, x[0] = %.17g\nC++: %zu iterations, residual %.17g, x[0] = %.17g\n",
                c.iterations, c.residual, x[0], it, res, y[0]); }
    printf(bad ? "VIOLATED\n" : "property holds\n");
    return bad;
}
