// C14: a solver assembled through the run-time (property tree) interface must behave like the
// same components composed at compile time with the same parameter values -- also for a second
// call on the same object (rebuild).
//
// Near-nullspace vectors are passed as coarsening.nullspace.{cols,rows,B}; the parameter import
// COPIES the vectors (nullspace_params::B is a std::vector<double>), so with compile-time
// components the user's array may be released once the solver is constructed.
// With the run-time components amg::params::coarsening is the raw property tree, and
// amg::rebuild() constructs a new coarsening object from it: the stored pointer text is parsed
// again and rows*cols doubles are read from the user's array a second time -- after the user
// released it.
//
// The demo puts B into its own mmap'ed pages and unmaps them after the solver is constructed.
// compile-time composition: rebuild works.  run-time composition: SIGSEGV in rebuild.
// (with heap storage + -fsanitize=address the same read is reported as heap-use-after-free)
// exit 0 = property holds, exit 1 = violated.
#include <vector>
#include <iostream>
#include <cstring>
#include <csignal>
#include <unistd.h>
#include <sys/mman.h>

#include <amgcl/backend/builtin.hpp>
#include <amgcl/adapter/crs_tuple.hpp>
#include <amgcl/make_solver.hpp>
#include <amgcl/amg.hpp>
#include <amgcl/coarsening/smoothed_aggregation.hpp>
#include <amgcl/relaxation/spai0.hpp>
#include <amgcl/solver/cg.hpp>
#include <amgcl/coarsening/runtime.hpp>
#include <amgcl/relaxation/runtime.hpp>
#include <amgcl/solver/runtime.hpp>
#include <amgcl/preconditioner/runtime.hpp>

typedef amgcl::backend::builtin<double> B;
typedef amgcl::make_solver<
    amgcl::amg<B, amgcl::coarsening::smoothed_aggregation, amgcl::relaxation::spai0>,
    amgcl::solver::cg<B> > CT;
typedef amgcl::make_solver<
    amgcl::runtime::preconditioner<B>,
    amgcl::runtime::solver::wrapper<B> > RT;

static void on_segv(int) {
    const char msg[] =
        "  VIOLATED: run-time solver: rebuild() read the released nullspace array again (SIGSEGV)\n";
    (void)!write(1, msg, sizeof(msg) - 1);
    _exit(1);
}

template <class Solver, class Matrix>
bool run(const char *name, const Matrix &A, int n, const std::vector<double> &rhs) {
    size_t bytes = ((n * sizeof(double) + 4095) / 4096) * 4096;
    double *Z = static_cast<double*>(mmap(0, bytes, PROT_READ | PROT_WRITE, MAP_PRIVATE | MAP_ANONYMOUS, -1, 0));
    for(int i = 0; i < n; ++i) Z[i] = 1.0;

    boost::property_tree::ptree p;
    p.put("precond.coarse_enough", 50);
    p.put("precond.allow_rebuild", true);
    p.put("precond.coarsening.nullspace.cols", 1);
    p.put("precond.coarsening.nullspace.rows", n);
    p.put("precond.coarsening.nullspace.B", Z);
    if (std::is_same<Solver, RT>::value) {
        p.put("precond.class", "amg");
        p.put("precond.coarsening.type", "smoothed_aggregation");
        p.put("precond.relax.type", "spai0");
        p.put("solver.type", "cg");
    }

    Solver solve(A, p);
    munmap(Z, bytes);               // the user's array is gone; the parameters were imported

    std::vector<double> x(n, 0.0);
    size_t it; double err;
    std::tie(it, err) = solve(rhs, x);
    std::cout << name << ": first solve   it=" << it << " err=" << err << std::endl;

    solve.precond().rebuild(A);     // second call on the same object
    std::fill(x.begin(), x.end(), 0.0);
    std::tie(it, err) = solve(rhs, x);
    std::cout << name << ": after rebuild it=" << it << " err=" << err << std::endl;
    return true;
}

int main() {
    int m = 32, n = m * m;
    std::vector<ptrdiff_t> ptr(1, 0), col; std::vector<double> val, rhs(n, 1.0);
    for(int j = 0; j < m; ++j) for(int i = 0; i < m; ++i) {
        int r = j * m + i;
        if (j > 0)   { col.push_back(r - m); val.push_back(-1); }
        if (i > 0)   { col.push_back(r - 1); val.push_back(-1); }
        col.push_back(r); val.push_back(4);
        if (i < m-1) { col.push_back(r + 1); val.push_back(-1); }
        if (j < m-1) { col.push_back(r + m); val.push_back(-1); }
        ptr.push_back(col.size());
    }
    auto A = std::tie(n, ptr, col, val);

    signal(SIGSEGV, on_segv);
    signal(SIGBUS,  on_segv);

    run<CT>("compile-time", A, n, rhs);
    run<RT>("run-time    ", A, n, rhs);
    std::cout << "ok: both compositions survive rebuild" << std::endl;
    return 0;
}
