// C14 / schur_pressure_correction::params: the run-time key pmask_pattern = "%n:m"
// ("each (n+i*m)-th variable is pressure", examples/schur_pressure_correction.cpp --pmask)
// must give the same mask as the compile-time assignment pmask[n + i*m] = 1.
// exit 0 = property holds, exit 1 = violated.
#include <vector>
#include <string>
#include <iostream>
#include <csignal>
#include <unistd.h>

#include <amgcl/backend/builtin.hpp>
#include <amgcl/make_solver.hpp>
#include <amgcl/solver/cg.hpp>
#include <amgcl/relaxation/spai0.hpp>
#include <amgcl/relaxation/as_preconditioner.hpp>
#include <amgcl/preconditioner/schur_pressure_correction.hpp>

typedef amgcl::backend::builtin<double> B;
typedef amgcl::make_solver<
    amgcl::relaxation::as_preconditioner<B, amgcl::relaxation::spai0>,
    amgcl::solver::cg<B> > S;
typedef amgcl::preconditioner::schur_pressure_correction<S, S> SPC;

static const char *current = "";
static void on_alarm(int) {
    const char msg[] = "  VIOLATED: params constructor does not terminate (stride parsed as 0)\n";
    (void)!write(1, msg, sizeof(msg) - 1);
    _exit(1);
}

static int check(size_t n, int start, int stride) {
    std::string pattern = "%" + std::to_string(start) + ":" + std::to_string(stride);
    current = pattern.c_str();
    std::cout << "pmask_size=" << n << " pmask_pattern=" << pattern << std::endl;

    // compile-time configuration
    std::vector<char> expect(n, 0);
    for(size_t i = start; i < n; i += stride) expect[i] = 1;

    // run-time configuration
    boost::property_tree::ptree p;
    p.put("pmask_size", n);
    p.put("pmask_pattern", pattern);

    alarm(5);
    SPC::params prm(p);
    alarm(0);

    int bad = 0;
    for(size_t i = 0; i < n; ++i) {
        if (prm.pmask[i] != expect[i]) {
            if (bad < 5) std::cout << "  pmask[" << i << "] = " << int(prm.pmask[i])
                << ", expected " << int(expect[i]) << std::endl;
            ++bad;
        }
    }
    std::cout << (bad ? "  VIOLATED: " : "  ok: ") << bad << " wrong mask entries" << std::endl;
    return bad;
}

int main() {
    signal(SIGALRM, on_alarm);
    int bad = 0;
    bad += check(40, 2, 3);     // single-digit start: works
    bad += check(40, 2, 12);    // single-digit start, two-digit stride: works
    bad += check(40, 10, 3);    // two-digit start: stride read from ":3" -> 0
    return bad ? 1 : 0;
}
