// C14: "a key that no component understands is reported through the unknown-parameter hook
// instead of being silently dropped".
// amgcl::mpi::cpr has no parameter active_rows (only pprecond, sprecond, block_size), yet its
// params constructor whitelists the key: it is swallowed without any report and has no effect.
// Build: mpicxx -std=c++17 -O1 -I<amgcl> demo.cpp -o demo ; run ./demo (no MPI call is made)
// exit 0 = property holds, exit 1 = violated.
#include <vector>
#include <string>
#include <iostream>

static std::vector<std::string> unknown_keys;
#define AMGCL_PARAM_UNKNOWN(name) unknown_keys.push_back(std::string(name))

#include <amgcl/backend/builtin.hpp>
#include <amgcl/mpi/cpr.hpp>
#include <amgcl/mpi/relaxation/spai0.hpp>
#include <amgcl/mpi/relaxation/as_preconditioner.hpp>

typedef amgcl::backend::builtin<double> B;
typedef amgcl::mpi::relaxation::as_preconditioner< amgcl::mpi::relaxation::spai0<B> > R;
typedef amgcl::mpi::cpr<R, R> CPR;

static bool reported(const std::string &k) {
    for (auto &u : unknown_keys) if (u == k) return true;
    return false;
}

int main() {
    int bad = 0;

    // control: a key nobody knows is reported
    {
        boost::property_tree::ptree p;
        p.put("block_size", 3);
        p.put("no_such_key", 1);
        unknown_keys.clear();
        CPR::params prm(p);
        std::cout << "no_such_key reported: " << reported("no_such_key") << std::endl;
        if (!reported("no_such_key")) ++bad;
    }

    // active_rows is not a parameter of mpi::cpr
    {
        boost::property_tree::ptree p;
        p.put("block_size", 3);
        p.put("active_rows", 12);
        unknown_keys.clear();
        CPR::params prm(p);

        boost::property_tree::ptree out;
        prm.get(out, "");
        bool exported = out.count("active_rows") > 0;

        std::cout << "active_rows reported as unknown: " << reported("active_rows")
                  << ", written back by export: " << exported << std::endl;

        // Either the component understands the key (then it must survive import->export),
        // or it does not (then the hook must be called).
        if (!reported("active_rows") && !exported) {
            std::cout << "VIOLATED: mpi::cpr silently drops the key active_rows" << std::endl;
            ++bad;
        }
    }
    return bad ? 1 : 0;
}
