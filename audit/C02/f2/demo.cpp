// C02 finding 2: coarsening::smoothed_aggr_emin with a block value type
// (static_matrix<double,2,2>) builds a restriction R that is NOT the transpose
// of the prolongation P for a symmetric matrix; the preconditioner B is then
// neither symmetric nor positive definite, and for some smoothers the V-cycle
// is not even a contraction.
//
//   g++ -std=c++17 -O1 -I<amgcl> demo.cpp -o demo && OMP_NUM_THREADS=1 ./demo
//   exit 0: R == P^T, B symmetric positive definite;  exit 1: violated
#include <vector>
#include <iostream>
#include <cmath>
#include <tuple>
#include <amgcl/backend/builtin.hpp>
#include <amgcl/value_type/static_matrix.hpp>
#include <amgcl/adapter/crs_tuple.hpp>
#include <amgcl/adapter/block_matrix.hpp>
#include <amgcl/amg.hpp>
#include <amgcl/coarsening/smoothed_aggr_emin.hpp>
#include <amgcl/relaxation/damped_jacobi.hpp>
#include <amgcl/relaxation/gauss_seidel.hpp>

typedef amgcl::static_matrix<double,2,2> V;
typedef amgcl::static_matrix<double,2,1> RHS;
typedef amgcl::backend::builtin<V> Backend;

struct CRS { ptrdiff_t n; std::vector<ptrdiff_t> ptr, col; std::vector<double> val; };

// Random sparse weighted graph Laplacian + shift*I: symmetric, strictly
// diagonally dominant, off-diagonals <= 0 (an SPD M-matrix).
CRS random_laplacian(int n, int deg, unsigned seed, double shift) {
    unsigned long long s = seed * 2654435761ULL + 12345;
    auto rnd = [&]() { s = s * 6364136223846793005ULL + 1442695040888963407ULL; return double((s >> 11) & ((1ULL << 53) - 1)) / double(1ULL << 53); };
    std::vector<double> A(n*n, 0.0);
    auto edge = [&](int i, int j, double w) { A[i*n+j] -= w; A[j*n+i] -= w; };
    for (int i = 0; i + 1 < n; ++i) edge(i, i+1, 0.1 + 0.9 * rnd());
    for (int i = 0; i < n; ++i) for (int d = 0; d < deg; ++d) { int j = int(rnd() * n); if (j == i || j >= n) continue; edge(i, j, 0.1 + 0.9 * rnd()); }
    for (int i = 0; i < n; ++i) { double r = 0; for (int j = 0; j < n; ++j) if (j != i) r -= A[i*n+j]; A[i*n+i] = r + shift; }
    CRS m; m.n = n; m.ptr.push_back(0);
    for (int i = 0; i < n; ++i) {
        for (int j = 0; j < n; ++j) if (A[i*n+j] != 0) { m.col.push_back(j); m.val.push_back(A[i*n+j]); }
        m.ptr.push_back(m.col.size());
    }
    return m;
}

// smallest eigenvalue of a dense symmetric matrix (cyclic Jacobi)
double min_eig(std::vector<double> S, int n) {
    for (int sweep = 0; sweep < 60; ++sweep) {
        double off = 0;
        for (int p = 0; p < n; ++p) for (int q = p+1; q < n; ++q) off += S[p*n+q]*S[p*n+q];
        if (off < 1e-26) break;
        for (int p = 0; p < n; ++p) for (int q = p+1; q < n; ++q) {
            double apq = S[p*n+q]; if (apq == 0) continue;
            double th = (S[q*n+q] - S[p*n+p]) / (2*apq);
            double t = (th >= 0 ? 1 : -1) / (std::abs(th) + std::sqrt(th*th + 1));
            double c = 1/std::sqrt(t*t+1), s = t*c;
            for (int k = 0; k < n; ++k) { double a = S[k*n+p], b = S[k*n+q]; S[k*n+p] = c*a - s*b; S[k*n+q] = s*a + c*b; }
            for (int k = 0; k < n; ++k) { double a = S[p*n+k], b = S[q*n+k]; S[p*n+k] = c*a - s*b; S[q*n+k] = s*a + c*b; }
        }
    }
    double m = S[0]; for (int i = 1; i < n; ++i) m = std::min(m, S[i*n+i]);
    return m;
}

int bad = 0;

template <template <class> class Relax>
void check_B(const char *name, const CRS &M) {
    typedef amgcl::amg<Backend, amgcl::coarsening::smoothed_aggr_emin, Relax> AMG;
    typename AMG::params prm;
    prm.coarse_enough = 2;                      // everything else: defaults
    AMG amg(amgcl::adapter::block_matrix<V>(std::tie(M.n, M.ptr, M.col, M.val)), prm);
    int n = M.n, nb = n/2;
    std::vector<double> B(n*n);
    amgcl::backend::numa_vector<RHS> f(nb), x(nb);
    for (int k = 0; k < n; ++k) {
        for (int i = 0; i < nb; ++i) { f[i](0) = (2*i == k); f[i](1) = (2*i+1 == k); }
        amg.apply(f, x);
        for (int i = 0; i < nb; ++i) { B[(2*i)*n+k] = x[i](0); B[(2*i+1)*n+k] = x[i](1); }
    }
    double asym = 0, mx = 0;
    std::vector<double> S(n*n);
    for (int i = 0; i < n; ++i) for (int j = 0; j < n; ++j) {
        asym = std::max(asym, std::abs(B[i*n+j] - B[j*n+i])); mx = std::max(mx, std::abs(B[i*n+j]));
        S[i*n+j] = 0.5 * (B[i*n+j] + B[j*n+i]);
    }
    double lmin = min_eig(S, n);
    bool ok = asym <= 1e-10 * mx && lmin > 0;
    std::cout << name << ": max|B - B^T| / max|B| = " << asym / mx << ", smallest eigenvalue of (B+B^T)/2 = " << lmin
              << (ok ? "  ok" : "  ** NOT symmetric positive definite **") << std::endl;
    if (!ok) ++bad;
}

int main() {
    CRS M = random_laplacian(60, 2, 7, 1e-3);

    // 1. the transfer operators themselves
    {
        Backend::matrix A(amgcl::adapter::block_matrix<V>(std::tie(M.n, M.ptr, M.col, M.val)));
        amgcl::backend::sort_rows(A);
        amgcl::coarsening::smoothed_aggr_emin<Backend> C;
        auto PR = C.transfer_operators(A);
        auto Pt = amgcl::backend::transpose(*std::get<0>(PR));
        amgcl::backend::sort_rows(*Pt);
        auto &R = *std::get<1>(PR);
        amgcl::backend::sort_rows(R);
        double d = 0, m = 0;
        bool same_pattern = (R.nrows == Pt->nrows && R.nnz == Pt->nnz);
        for (size_t i = 0; same_pattern && i < R.nrows; ++i) {
            if (R.ptr[i+1] != Pt->ptr[i+1]) { same_pattern = false; break; }
            for (auto j = R.ptr[i]; j < R.ptr[i+1]; ++j) {
                if (R.col[j] != Pt->col[j]) { same_pattern = false; break; }
                for (int a = 0; a < 2; ++a) for (int b = 0; b < 2; ++b) {
                    d = std::max(d, std::abs(R.val[j](a,b) - Pt->val[j](a,b)));
                    m = std::max(m, std::abs(Pt->val[j](a,b)));
                }
            }
        }
        std::cout << "transfer operators for the symmetric 30x30 block matrix: same pattern = " << same_pattern
                  << ", max|R - P^T| = " << d << " (max|P| = " << m << ")" << (d <= 1e-12 * m && same_pattern ? "  ok" : "  ** R != P^T **") << std::endl;
        if (!(d <= 1e-12 * m) || !same_pattern) ++bad;
    }

    // 2. the resulting preconditioner
    check_B<amgcl::relaxation::damped_jacobi>("emin/damped_jacobi", M);
    check_B<amgcl::relaxation::gauss_seidel >("emin/gauss_seidel ", M);

    std::cout << (bad ? "C02 VIOLATED" : "C02 holds") << std::endl;
    return bad ? 1 : 0;
}
