// C02 finding 3: relaxation::chebyshev with power_iters > 0 takes the power
// method estimate of the spectral radius -- a LOWER bound of lambda_max for a
// symmetric matrix -- as the UPPER end of the Chebyshev interval (safety factor
// `higher` = 1.0 by default).  Eigenvalues above the estimate are amplified by
// the degree-5 polynomial: the smoother, and with it the whole AMG cycle, is
// neither positive definite nor a contraction.
//
//   g++ -std=c++17 -O1 -I<amgcl> demo.cpp -o demo && OMP_NUM_THREADS=1 ./demo
//   exit 0: B positive definite and rho(I - B A) < 1 for every power_iters
//   exit 1: violated
#include <vector>
#include <iostream>
#include <cmath>
#include <tuple>
#include <amgcl/backend/builtin.hpp>
#include <amgcl/adapter/crs_tuple.hpp>
#include <amgcl/amg.hpp>
#include <amgcl/coarsening/smoothed_aggregation.hpp>
#include <amgcl/relaxation/chebyshev.hpp>

struct CRS { ptrdiff_t n; std::vector<ptrdiff_t> ptr, col; std::vector<double> val; };

// 5-point Laplacian on an m x m grid + shift*I  (SPD M-matrix)
CRS poisson2d(int m, double shift) {
    CRS A; A.n = m*m; A.ptr.push_back(0);
    for (int j = 0; j < m; ++j) for (int i = 0; i < m; ++i) {
        int k = j*m+i;
        if (j)     { A.col.push_back(k-m); A.val.push_back(-1); }
        if (i)     { A.col.push_back(k-1); A.val.push_back(-1); }
        A.col.push_back(k); A.val.push_back(4 + shift);
        if (i+1<m) { A.col.push_back(k+1); A.val.push_back(-1); }
        if (j+1<m) { A.col.push_back(k+m); A.val.push_back(-1); }
        A.ptr.push_back(A.col.size());
    }
    return A;
}

// smallest eigenvalue of a dense symmetric matrix (cyclic Jacobi)
double min_eig(std::vector<double> S, int n) {
    for (int sweep = 0; sweep < 60; ++sweep) {
        double off = 0, dia = 0;
        for (int p = 0; p < n; ++p) { dia += S[p*n+p]*S[p*n+p]; for (int q = p+1; q < n; ++q) off += S[p*n+q]*S[p*n+q]; }
        if (off < 1e-26 * dia) break;
        for (int p = 0; p < n; ++p) for (int q = p+1; q < n; ++q) {
            double apq = S[p*n+q]; if (apq == 0) continue;
            double th = (S[q*n+q] - S[p*n+p]) / (2*apq);
            double t = (th >= 0 ? 1 : -1) / (std::abs(th) + std::sqrt(th*th + 1));
            double c = 1/std::sqrt(t*t+1), s = t*c;
            for (int k = 0; k < n; ++k) { double a = S[k*n+p], b = S[k*n+q]; S[k*n+p] = c*a - s*b; S[k*n+q] = s*a + c*b; }
            for (int k = 0; k < n; ++k) { double a = S[p*n+k], b = S[q*n+k]; S[p*n+k] = c*a - s*b; S[q*n+k] = s*a + c*b; }
        }
    }
    double m = S[0]; for (int i = 1; i < n; ++i) m = std::min(m, S[i*n+i]);
    return m;
}

int main() {
    typedef amgcl::backend::builtin<double> Backend;
    typedef amgcl::amg<Backend, amgcl::coarsening::smoothed_aggregation, amgcl::relaxation::chebyshev> AMG;

    CRS M = poisson2d(12, 1e-3);
    int n = M.n, bad = 0;

    for (int scale = 0; scale < 2; ++scale) for (int power_iters : {0, 1, 2, 5, 10, 20}) {
        AMG::params prm;
        prm.coarse_enough = 10;
        prm.relax.power_iters = power_iters;   // everything else: defaults
        prm.relax.scale = scale;
        AMG amg(std::tie(M.n, M.ptr, M.col, M.val), prm);

        // B column by column
        std::vector<double> B(n*n), S(n*n);
        amgcl::backend::numa_vector<double> f(n), x(n);
        for (int k = 0; k < n; ++k) {
            for (int i = 0; i < n; ++i) f[i] = (i == k);
            amg.apply(f, x);
            for (int i = 0; i < n; ++i) B[i*n+k] = x[i];
        }
        for (int i = 0; i < n; ++i) for (int j = 0; j < n; ++j) S[i*n+j] = 0.5 * (B[i*n+j] + B[j*n+i]);
        double lmin = min_eig(S, n);

        // error propagation e <- (I - B A) e
        std::vector<double> e(n), r(n);
        for (int i = 0; i < n; ++i) e[i] = std::sin(1.0 + 3.7 * i);
        double factor = 0;
        for (int it = 0; it < 100; ++it) {
            for (int i = 0; i < n; ++i) { double s = 0; for (auto j = M.ptr[i]; j < M.ptr[i+1]; ++j) s += M.val[j] * e[M.col[j]]; f[i] = s; }
            amg.apply(f, x);
            double n0 = 0, n1 = 0;
            for (int i = 0; i < n; ++i) { n0 += e[i]*e[i]; e[i] -= x[i]; n1 += e[i]*e[i]; }
            factor = std::sqrt(n1/n0);
            for (int i = 0; i < n; ++i) e[i] /= std::sqrt(n1);
        }
        bool ok = lmin > 0 && factor < 1;
        std::cout << "chebyshev scale=" << scale << " power_iters=" << power_iters
                  << ": smallest eigenvalue of B = " << lmin << ", error factor per V-cycle = " << factor
                  << (ok ? "  ok" : "  ** not positive definite / diverges **") << std::endl;
        if (!ok) ++bad;
    }
    std::cout << (bad ? "C02 VIOLATED" : "C02 holds") << std::endl;
    return bad ? 1 : 0;
}
