// C02 finding 1: the V-cycle of amg<..., coarsening::aggregation, ...> is NOT a
// contraction for SPD diagonally dominant M-matrices: the default
// over-interpolation (coarse operator scaled by 1/over_interp, 1.5 for scalar
// and 2.0 for block value types) is applied on EVERY level and compounds: on a
// vector that is represented exactly on k coarse levels the cycle corrects by
// the factor over_interp^k, i.e. I - B A has the eigenvalue 1 - over_interp^k.
//
// The demo runs the stationary iteration e <- (I - B A) e (x <- x + B (f - A x)
// with f = 0) and prints the error reduction factor per sweep.
//
//   g++ -std=c++17 -O1 -I<amgcl> demo.cpp -o demo && OMP_NUM_THREADS=1 ./demo
//   exit 0: all factors < 1 (property holds);  exit 1: some iteration diverges
#include <vector>
#include <iostream>
#include <cmath>
#include <tuple>
#include <amgcl/backend/builtin.hpp>
#include <amgcl/value_type/static_matrix.hpp>
#include <amgcl/adapter/crs_tuple.hpp>
#include <amgcl/adapter/block_matrix.hpp>
#include <amgcl/amg.hpp>
#include <amgcl/coarsening/aggregation.hpp>
#include <amgcl/relaxation/damped_jacobi.hpp>
#include <amgcl/relaxation/spai0.hpp>
#include <amgcl/relaxation/gauss_seidel.hpp>

struct CRS { ptrdiff_t n; std::vector<ptrdiff_t> ptr, col; std::vector<double> val; };

CRS from_dense(const std::vector<double> &A, int n) {
    CRS m; m.n = n; m.ptr.push_back(0);
    for (int i = 0; i < n; ++i) {
        for (int j = 0; j < n; ++j) if (A[i*n+j] != 0) { m.col.push_back(j); m.val.push_back(A[i*n+j]); }
        m.ptr.push_back(m.col.size());
    }
    return m;
}

// (a) Graph Laplacian of a three-level hierarchy of clusters of 3 (n = 3^L):
// weight 1 inside a cluster, delta between clusters of one super-cluster,
// delta^2 one level higher, ...; plus shift*I.  Symmetric, strictly diagonally
// dominant, off-diagonals <= 0: an SPD M-matrix.
CRS hierarchy(int L, double delta, double shift) {
    int n = 1; for (int l = 0; l < L; ++l) n *= 3;
    std::vector<double> A(n*n, 0.0);
    for (int i = 0; i < n; ++i) for (int j = 0; j < n; ++j) if (i != j) {
        int a = i, b = j, lev = 0;
        while (a != b) { a /= 3; b /= 3; ++lev; }
        double w = std::pow(delta, lev - 1);
        A[i*n+j] = -w; A[i*n+i] += w;
    }
    for (int i = 0; i < n; ++i) A[i*n+i] += shift;
    return from_dense(A, n);
}

// (b) Random sparse weighted graph Laplacian + shift*I (a chain plus `deg`
// random edges per node, weights in [0.1,1]); own LCG, so reproducible.
CRS random_laplacian(int n, int deg, unsigned seed, double shift) {
    unsigned long long s = seed * 2654435761ULL + 12345;
    auto rnd = [&]() { s = s * 6364136223846793005ULL + 1442695040888963407ULL; return double((s >> 11) & ((1ULL << 53) - 1)) / double(1ULL << 53); };
    std::vector<double> A(n*n, 0.0);
    auto edge = [&](int i, int j, double w) { A[i*n+j] -= w; A[j*n+i] -= w; };
    for (int i = 0; i + 1 < n; ++i) edge(i, i+1, 0.1 + 0.9 * rnd());
    for (int i = 0; i < n; ++i) for (int d = 0; d < deg; ++d) { int j = int(rnd() * n); if (j == i || j >= n) continue; edge(i, j, 0.1 + 0.9 * rnd()); }
    for (int i = 0; i < n; ++i) { double r = 0; for (int j = 0; j < n; ++j) if (j != i) r -= A[i*n+j]; A[i*n+i] = r + shift; }
    return from_dense(A, n);
}

void spmv(const CRS &M, const std::vector<double> &x, std::vector<double> &y) {
    for (ptrdiff_t i = 0; i < M.n; ++i) { double s = 0; for (ptrdiff_t j = M.ptr[i]; j < M.ptr[i+1]; ++j) s += M.val[j] * x[M.col[j]]; y[i] = s; }
}

// error propagation e <- e - B A e; returns the asymptotic growth factor
template <class Apply>
double iterate(const CRS &M, Apply apply, int iters) {
    ptrdiff_t n = M.n;
    std::vector<double> e(n), r(n), c(n);
    for (ptrdiff_t i = 0; i < n; ++i) e[i] = std::sin(1.0 + 3.7 * i);
    double factor = 0;
    for (int it = 0; it < iters; ++it) {
        spmv(M, e, r);
        apply(r, c);
        double n0 = 0, n1 = 0;
        for (ptrdiff_t i = 0; i < n; ++i) { n0 += e[i]*e[i]; e[i] -= c[i]; n1 += e[i]*e[i]; }
        factor = std::sqrt(n1 / n0);
        for (ptrdiff_t i = 0; i < n; ++i) e[i] /= std::sqrt(n1); // avoid overflow
    }
    return factor;
}

int bad = 0;
void verdict(const char *what, double f) {
    std::cout << what << ": error factor per V-cycle = " << f << (f < 1 ? "  (contracts)" : "  ** DIVERGES **") << std::endl;
    if (!(f < 1)) ++bad;
}

template <template <class> class Relax>
void scalar_case(const char *name, const CRS &M, float over_interp /* <=0: default */) {
    typedef amgcl::backend::builtin<double> Backend;
    typedef amgcl::amg<Backend, amgcl::coarsening::aggregation, Relax> AMG;
    typename AMG::params prm;
    prm.coarse_enough = 1;                       // everything else: defaults
    if (over_interp > 0) prm.coarsening.over_interp = over_interp;
    AMG amg(std::tie(M.n, M.ptr, M.col, M.val), prm);
    amgcl::backend::numa_vector<double> f(M.n), x(M.n);
    double fac = iterate(M, [&](const std::vector<double> &r, std::vector<double> &c) {
            for (ptrdiff_t i = 0; i < M.n; ++i) f[i] = r[i];
            amg.apply(f, x);
            for (ptrdiff_t i = 0; i < M.n; ++i) c[i] = x[i];
            }, 60);
    std::cout << amg;
    std::cout << "scalar, over_interp=" << prm.coarsening.over_interp << ", ";
    verdict(name, fac);
}

template <template <class> class Relax>
void block_case(const char *name, const CRS &M, float over_interp) {
    typedef amgcl::static_matrix<double,2,2> V; typedef amgcl::static_matrix<double,2,1> RHS;
    typedef amgcl::amg<amgcl::backend::builtin<V>, amgcl::coarsening::aggregation, Relax> AMG;
    typename AMG::params prm;
    prm.coarse_enough = 2;
    if (over_interp > 0) prm.coarsening.over_interp = over_interp;
    AMG amg(amgcl::adapter::block_matrix<V>(std::tie(M.n, M.ptr, M.col, M.val)), prm);
    ptrdiff_t nb = M.n / 2;
    amgcl::backend::numa_vector<RHS> f(nb), x(nb);
    double fac = iterate(M, [&](const std::vector<double> &r, std::vector<double> &c) {
            for (ptrdiff_t i = 0; i < nb; ++i) { f[i](0) = r[2*i]; f[i](1) = r[2*i+1]; }
            amg.apply(f, x);
            for (ptrdiff_t i = 0; i < nb; ++i) { c[2*i] = x[i](0); c[2*i+1] = x[i](1); }
            }, 60);
    std::cout << amg;
    std::cout << "2x2 blocks, over_interp=" << prm.coarsening.over_interp << ", ";
    verdict(name, fac);
}

int main(int argc, char **argv) {
    float oi = argc > 1 ? atof(argv[1]) : -1; // optional: override over_interp
    using namespace amgcl::relaxation;

    CRS H = hierarchy(4, 0.01, 1e-6);   // 81 unknowns
    scalar_case<damped_jacobi>("hierarchy(81)/aggregation/damped_jacobi", H, oi);
    scalar_case<spai0>        ("hierarchy(81)/aggregation/spai0",         H, oi);
    scalar_case<gauss_seidel> ("hierarchy(81)/aggregation/gauss_seidel",  H, oi);

    CRS G = random_laplacian(120, 2, 7, 1e-3);
    block_case<spai0>("random_laplacian(120)/aggregation/spai0", G, oi);

    std::cout << (bad ? "C02 VIOLATED: V-cycle is not a contraction" : "C02 holds") << std::endl;
    return bad ? 1 : 0;
}
