#include <vector>
#include <iostream>
#include <cmath>
#include <tuple>
#include <omp.h>
#include <amgcl/backend/builtin.hpp>
#include <amgcl/adapter/crs_tuple.hpp>
#include <amgcl/amg.hpp>
#include <amgcl/coarsening/smoothed_aggregation.hpp>
#include <amgcl/relaxation/ilu0.hpp>
int main() {
    int m = 20, n = m*m; std::vector<ptrdiff_t> ptr{0}, col; std::vector<double> val;
    for (int j = 0; j < m; ++j) for (int i = 0; i < m; ++i) { int k = j*m+i;
        if (j) { col.push_back(k-m); val.push_back(-1); } if (i) { col.push_back(k-1); val.push_back(-1); }
        col.push_back(k); val.push_back(4.001);
        if (i+1<m) { col.push_back(k+1); val.push_back(-1); } if (j+1<m) { col.push_back(k+m); val.push_back(-1); }
        ptr.push_back(col.size()); }
    typedef amgcl::amg<amgcl::backend::builtin<double>, amgcl::coarsening::smoothed_aggregation, amgcl::relaxation::ilu0> AMG;
    omp_set_num_threads(4);
    AMG::params prm; prm.coarse_enough = 10; prm.relax.solve.serial = false;
    ptrdiff_t N = n;
    AMG amg(std::tie(N, ptr, col, val), prm);
    amgcl::backend::numa_vector<double> f(n), x1(n), x2(n);
    for (int i = 0; i < n; ++i) f[i] = std::sin(1.0 + 3.7*i);
    amg.apply(f, x1);
    omp_set_num_threads(2);
    amg.apply(f, x2);
    double d = 0, s = 0; for (int i = 0; i < n; ++i) { d = std::max(d, std::abs(x1[i]-x2[i])); s = std::max(s, std::abs(x1[i])); }
    std::cout << "max|B f (4 threads) - B f (2 threads)| / max|B f| = " << d/s << std::endl;
    return d > 1e-10*s;
}
