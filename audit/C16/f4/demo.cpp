// C16 / QR: "A = Q*R with orthonormal Q ... to backward-stable accuracy in
// floating point".  gen_reflector() is a port of LAPACK's ZLARFG but forms the
// column norm as sqrt(|alpha|^2 + sum |x_i|^2) with plain squares; the scaling
// of the original (DZNRM2 / DLAPY3 and the safmin rescaling loop) was dropped.
// For a perfectly representable, well conditioned matrix whose entries are
// below sqrt(min) the squares underflow to 0, the column is taken for a zero
// column (tau = 0, H = I) and the sub-diagonal part of A is silently
// discarded: A != Q*R by 100%, the least-squares solution is wrong.  Above
// sqrt(max) the squares overflow and R = inf / NaN.  In single precision the
// window is narrow: |a_ij| ~ 1e-23 or ~ 1e+20 fails (bicgstabl feeds QR<float> with inner
// products of residuals, i.e. squares of residual norms).
//
// Scaling a matrix by a power of two changes neither Q nor the least-squares
// solution, and scales R exactly, so the oracle is exact up to rounding.
//
// exit 0 = property holds, exit 1 = violated.
#include <iostream>
#include <vector>
#include <complex>
#include <cmath>
#include <amgcl/value_type/interface.hpp>
#include <amgcl/value_type/complex.hpp>
#include <amgcl/detail/qr.hpp>

using namespace amgcl;

template <class V> V entry(int i, int j);
template <> float  entry<float >(int i, int j) { return (i == j ? 3.f : 0.f) + std::cos(1.f + 2*i + 5*j); }
template <> double entry<double>(int i, int j) { return (i == j ? 3.0 : 0.0) + std::cos(1.0 + 2*i + 5*j); }
template <> std::complex<double> entry< std::complex<double> >(int i, int j) {
    return std::complex<double>(entry<double>(i,j), std::sin(2.0 + i - 3*j));
}

template <class V>
int run(const char *name, int m, int n, typename math::scalar_of<V>::type s, double tol) {
    typedef typename math::scalar_of<V>::type S;
    std::vector<V> A0(m * n), A;
    for(int i = 0; i < m; ++i) for(int j = 0; j < n; ++j) A0[i*n + j] = s * entry<V>(i, j);
    A = A0;

    detail::QR<V> qr;
    qr.factorize(m, n, A.data());

    int k = std::min(m, n);
    double eA = 0, eQ = 0;
    for(int i = 0; i < m; ++i) for(int j = 0; j < n; ++j) {
        V t = math::zero<V>();
        for(int l = 0; l < k; ++l) t += qr.Q(i,l) * qr.R(l,j);
        double d = std::abs(t - A0[i*n+j]) / s;
        if (!(d <= eA)) eA = d;               // also catches NaN
    }
    for(int a = 0; a < k; ++a) for(int b = 0; b < k; ++b) {
        V t = math::zero<V>();
        for(int i = 0; i < m; ++i) t += math::adjoint(qr.Q(i,a)) * qr.Q(i,b);
        double d = std::abs(t - V(S(a == b)));
        if (!(d <= eQ)) eQ = d;
    }

    // least squares: x(s*A, s*b) must equal x(A, b)
    std::vector<V> B1(m*n), B2(m*n), f1(m), f2(m), x1(n), x2(n);
    for(int i = 0; i < m; ++i) { f1[i] = V(S(1 + i)); f2[i] = s * f1[i]; for(int j = 0; j < n; ++j) { B1[i*n+j] = entry<V>(i,j); B2[i*n+j] = s * B1[i*n+j]; } }
    detail::QR<V> q1, q2;
    q1.solve(m, n, B1.data(), f1.data(), x1.data());
    q2.solve(m, n, B2.data(), f2.data(), x2.data());
    double eX = 0;
    for(int j = 0; j < n; ++j) { double d = std::abs(x1[j] - x2[j]); if (!(d <= eX)) eX = d; }

    bool ok = eA < tol && eQ < tol && eX < 100 * tol;
    std::cout << name << " " << m << "x" << n << " scaled by " << s
              << ": |QR - A|/s = " << eA << ", |Q'Q - I| = " << eQ
              << ", |x(sA,sb) - x(A,b)| = " << eX << (ok ? "" : "   VIOLATED") << std::endl;
    return ok ? 0 : 1;
}

int main() {
    int bad = 0;
    bad += run<double>("double         ", 4, 3, 1.0,                    1e-12);
    bad += run<double>("double         ", 4, 3, std::ldexp(1.0, -565),  1e-12);   // ~ 8e-171
    bad += run<double>("double         ", 4, 3, std::ldexp(1.0,  565),  1e-12);   // ~ 1e+170
    bad += run< std::complex<double> >("complex<double>", 4, 3, std::ldexp(1.0, -565), 1e-12);
    bad += run<float >("float          ", 4, 3, 1.0f,                   1e-5);
    bad += run<float >("float          ", 4, 3, std::ldexp(1.0f, -75),  1e-5);    // ~ 2.6e-23
    bad += run<float >("float          ", 4, 3, std::ldexp(1.0f,  66),  1e-5);    // ~ 7e+19
    std::cout << (bad ? "FAIL" : "OK") << std::endl;
    return bad ? 1 : 0;
}
