// C16 / QR: the block-valued (static_matrix) QR ignores the meaning of
// `computed = true` in solve(): it re-copies the caller's (unfactorized) A over
// its factorized scalar buffer and then skips the factorization, so the second
// solve with the same factorization returns garbage.  The scalar QR handles the
// same call sequence correctly (that is how bicgstabl uses it).
//
// exit 0 = property holds, exit 1 = violated.
#include <iostream>
#include <vector>
#include <cmath>
#include <amgcl/value_type/interface.hpp>
#include <amgcl/value_type/static_matrix.hpp>
#include <amgcl/detail/qr.hpp>

using namespace amgcl;

template <class V> struct fill;
template <> struct fill<double> {
    static double get(int i, int j) { return (i == j ? 4.0 : 0.0) + std::sin(1.0 + 3 * i + 7 * j); }
};
template <int N> struct fill< static_matrix<double,N,N> > {
    static static_matrix<double,N,N> get(int i, int j) {
        static_matrix<double,N,N> v;
        for(int a = 0; a < N; ++a)
            for(int b = 0; b < N; ++b)
                v(a,b) = fill<double>::get(N * i + a, N * j + b);
        return v;
    }
};
template <class R> R make_rhs(double s);
template <> double make_rhs<double>(double s) { return s; }
template <> static_matrix<double,2,1> make_rhs< static_matrix<double,2,1> >(double s) {
    static_matrix<double,2,1> v; v(0) = s; v(1) = -0.5 * s; return v;
}

// Solve A x1 = f1, then A x2 = f2 re-using the factorization (computed = true).
// Returns the largest residual of the second solve.
template <class V>
double run(int n, detail::storage_order order) {
    typedef typename math::rhs_of<V>::type R;
    int rs = order == detail::row_major ? n : 1;
    int cs = order == detail::row_major ? 1 : n;

    std::vector<V> A0(n * n);
    for(int i = 0; i < n; ++i)
        for(int j = 0; j < n; ++j)
            A0[i * rs + j * cs] = fill<V>::get(i, j);
    std::vector<V> A = A0;

    std::vector<R> f1(n), f2(n), x1(n), x2(n);
    for(int i = 0; i < n; ++i) { f1[i] = make_rhs<R>(1.0 + i); f2[i] = make_rhs<R>(2.0 - 3.0 * i); }

    detail::QR<V> qr;
    qr.solve(n, n, A.data(), f1.data(), x1.data(), order);
    qr.solve(n, n, A.data(), f2.data(), x2.data(), order, /*computed=*/true);

    double e1 = 0, e2 = 0;
    for(int i = 0; i < n; ++i) {
        R s1 = math::zero<R>(), s2 = math::zero<R>();
        for(int j = 0; j < n; ++j) { s1 += A0[i*rs+j*cs] * x1[j]; s2 += A0[i*rs+j*cs] * x2[j]; }
        e1 = std::max<double>(e1, math::norm(s1 - f1[i]));
        e2 = std::max<double>(e2, math::norm(s2 - f2[i]));
    }
    std::cout << "   first solve residual " << e1 << ", second solve (computed=true) residual " << e2 << std::endl;
    return std::max(e1, e2);
}

int main() {
    int bad = 0;
    for(int o = 0; o < 2; ++o) {
        detail::storage_order order = o ? detail::col_major : detail::row_major;
        std::cout << "scalar double, 3x3, " << (o ? "col_major" : "row_major") << std::endl;
        if (!(run<double>(3, order) < 1e-10)) { ++bad; std::cout << "   VIOLATED" << std::endl; }
        std::cout << "static_matrix<double,2,2>, 3x3 blocks, " << (o ? "col_major" : "row_major") << std::endl;
        if (!(run< static_matrix<double,2,2> >(3, order) < 1e-10)) { ++bad; std::cout << "   VIOLATED" << std::endl; }
    }
    std::cout << (bad ? "FAIL" : "OK") << std::endl;
    return bad ? 1 : 0;
}
