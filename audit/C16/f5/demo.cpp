// C16 / default_direct_solver: the constructor calls an unqualified
// inverse(*A) on a backend::crs matrix.  No such function exists anywhere in
// the library (amgcl::detail::inverse works on raw dense arrays,
// amgcl::math::inverse on values; neither is reachable by ADL for a crs), so
// the class cannot be instantiated: this program does not compile against the
// unchanged headers ("'inverse' was not declared in this scope",
// default_direct_solver.hpp:56).  With the patch it compiles and must solve
// exactly.
//
// (does not compile) = violated; exit 0 = property holds, exit 1 = wrong solution.
#include <iostream>
#include <vector>
#include <cmath>
#include <memory>
#include <amgcl/backend/builtin.hpp>
#include <amgcl/backend/detail/default_direct_solver.hpp>

int main() {
    typedef amgcl::backend::builtin<double> B;
    const int n = 4;
    // structurally non-symmetric, rows not sorted, a zero on the diagonal (needs the pivoted inverse)
    double D[n][n] = {
        {0, 2, 0, 1},
        {3, 0, 0, 0},
        {0, 1, 4, 0},
        {1, 0, 2, 5}};
    auto A = std::make_shared<B::matrix>();
    size_t nnz = 0; for(auto &r : D) for(double v : r) if (v != 0) ++nnz;
    A->set_size(n, n); A->set_nonzeros(nnz); A->ptr[0] = 0;
    size_t h = 0;
    for(int i = 0; i < n; ++i) { for(int j = n - 1; j >= 0; --j) if (D[i][j] != 0) { A->col[h] = j; A->val[h] = D[i][j]; ++h; } A->ptr[i+1] = h; }

    amgcl::backend::detail::default_direct_solver<B> S(A, B::params());

    std::vector<double> x0 = {1, -2, 0.5, 3}, f(n, 0.0), x(n, 0.0);
    for(int i = 0; i < n; ++i) for(int j = 0; j < n; ++j) f[i] += D[i][j] * x0[j];
    double e = 0;
    for(int rep = 0; rep < 2; ++rep) { S(f, x); for(int i = 0; i < n; ++i) e = std::max(e, std::abs(x[i] - x0[i])); }
    std::cout << "max error " << e << std::endl;
    std::cout << (e < 1e-12 ? "OK" : "FAIL") << std::endl;
    return e < 1e-12 ? 0 : 1;
}
