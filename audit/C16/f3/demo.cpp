// C16 / skyline LU + small inverse: "reports a zero pivot by an exception".
// With a block value type (static_matrix) the pivot test of skyline_lu is
// math::is_zero(block), which is true only when EVERY entry of the block is
// zero; a singular, non-zero pivot block goes on to math::inverse() ->
// detail::inverse(), whose only guard is  assert(!math::is_zero(d))  on
// d = inverse(pivot) = inf (never zero, so the assert cannot fire even in a
// debug build).  The constructor returns normally and the solve yields
// NaN/inf -- while the very same matrix given with scalar values throws
// "Zero sum in skyline_lu factorization".
//
// exit 0 = property holds (exception for the singular matrix in both
// representations), exit 1 = violated.
#include <iostream>
#include <vector>
#include <cmath>
#include <tuple>
#include <amgcl/backend/builtin.hpp>
#include <amgcl/adapter/crs_tuple.hpp>
#include <amgcl/value_type/static_matrix.hpp>
#include <amgcl/solver/skyline_lu.hpp>

typedef amgcl::static_matrix<double,2,2> blk;
typedef amgcl::static_matrix<double,2,1> vec;

static blk B(double a, double b, double c, double d) { blk m; m(0,0)=a; m(0,1)=b; m(1,0)=c; m(1,1)=d; return m; }

// Dense 2nb x 2nb scalar matrix -> scalar CRS and block CRS of the same matrix.
static int run(const char *name, int nb, const std::vector<double> &M) {
    int n = 2 * nb, bad = 0;

    // scalar representation
    {
        std::vector<int> ptr(1, 0), col; std::vector<double> val;
        for(int i = 0; i < n; ++i) { for(int j = 0; j < n; ++j) if (M[i*n+j] != 0) { col.push_back(j); val.push_back(M[i*n+j]); } ptr.push_back(col.size()); }
        try {
            amgcl::solver::skyline_lu<double, amgcl::reorder::cuthill_mckee<false> > S(std::tie(n, ptr, col, val));
            std::cout << name << " scalar values : NO exception" << std::endl; ++bad;
        } catch (const std::exception &e) {
            std::cout << name << " scalar values : exception '" << e.what() << "'" << std::endl;
        }
    }
    // block representation
    {
        std::vector<int> ptr(1, 0), col; std::vector<blk> val;
        for(int i = 0; i < nb; ++i) {
            for(int j = 0; j < nb; ++j) {
                blk b = B(M[(2*i)*n+2*j], M[(2*i)*n+2*j+1], M[(2*i+1)*n+2*j], M[(2*i+1)*n+2*j+1]);
                if (!amgcl::math::is_zero(b)) { col.push_back(j); val.push_back(b); }
            }
            ptr.push_back(col.size());
        }
        try {
            amgcl::solver::skyline_lu<blk> S(std::tie(nb, ptr, col, val));
            std::vector<vec> f(nb), x(nb);
            for(int i = 0; i < nb; ++i) { f[i](0) = 1; f[i](1) = 1; }
            S(f, x);
            std::cout << name << " 2x2 block values: NO exception, solution =";
            for(int i = 0; i < nb; ++i) std::cout << " " << x[i](0) << " " << x[i](1);
            std::cout << std::endl;
            ++bad;
        } catch (const std::exception &e) {
            std::cout << name << " 2x2 block values: exception '" << e.what() << "'" << std::endl;
        }
    }
    return bad;
}

int main() {
    int bad = 0;

    // (1) one block row: the singular matrix [[1,2],[2,4]]
    bad += run("(1) [[1,2],[2,4]]          ", 1, {1,2, 2,4});

    // (2) two block rows, first pivot fine, the Schur complement
    //     A22 - A21 A11^-1 A12 = [[3,2],[2,5]] - [[2,0],[0,1]] = [[1,2],[2,4]] is singular
    bad += run("(2) 4x4, singular 2nd pivot", 2, {
            1,0, 1,0,
            0,1, 0,1,
            2,0, 3,2,
            0,1, 2,5});

    // control: a nonsingular block matrix must still be solved
    {
        int nb = 2; std::vector<int> ptr = {0,2,4}, col = {0,1,0,1};
        std::vector<blk> val = { B(0,1,1,0), B(1,0,0,1), B(2,0,0,1), B(3,2,2,9) };   // zero-diagonal pivot block: needs the pivoted inverse
        amgcl::solver::skyline_lu<blk> S(std::tie(nb, ptr, col, val));
        std::vector<vec> x0(2), f(2), x(2);
        x0[0](0)=1; x0[0](1)=-2; x0[1](0)=3; x0[1](1)=0.5;
        f[0] = val[0]*x0[0] + val[1]*x0[1]; f[1] = val[2]*x0[0] + val[3]*x0[1];
        S(f, x);
        double e = 0; for(int i = 0; i < 2; ++i) e = std::max<double>(e, amgcl::math::norm(x[i] - x0[i]));
        std::cout << "control (nonsingular, pivot block [[0,1],[1,0]]): error " << e << std::endl;
        if (!(e < 1e-12)) ++bad;
    }

    std::cout << (bad ? "FAIL" : "OK") << std::endl;
    return bad ? 1 : 0;
}
