// C16 / QR: QR::compute() ("in-place QR factorization", the ZGEQR2 port) does
// not record the strides of the matrix it has just factorized: its parameters
// row_stride / col_stride shadow the members of the same name, which are only
// assigned in factorize().  The public accessor R(i,j) ("Returns element of
// the matrix R") indexes r[] with the members, so
//   (a) after a plain compute() every R(i,j), j >= i, returns r[0]
//       (the strides are still the 0 of the constructor), and
//   (b) after factorize() of one matrix followed by compute() of a matrix of
//       another shape / storage order, R(i,j) addresses the new array with the
//       OLD strides (wrong elements; out of bounds when the old strides are larger).
// The block (static_matrix) QR inherits (a) through base.R().
//
// Oracle: R must be the upper triangle the documentation of compute() promises
// (stored on and above the diagonal of A), and R^H R = A^H A.
//
// exit 0 = property holds, exit 1 = violated.
#include <iostream>
#include <vector>
#include <cmath>
#include <amgcl/value_type/interface.hpp>
#include <amgcl/value_type/static_matrix.hpp>
#include <amgcl/detail/qr.hpp>

using namespace amgcl;

static double a0(int i, int j) { return (i == j ? 3.0 : 0.0) + std::cos(1.0 + 2 * i + 5 * j); }

// max |(R^H R - A^H A)(i,j)| using the accessor R()
template <class QRt>
double gram_error(const QRt &qr, const std::vector<double> &A0, int m, int n, int rs, int cs) {
    int k = std::min(m, n);
    double e = 0;
    for(int i = 0; i < n; ++i) for(int j = 0; j < n; ++j) {
        double s = 0, t = 0;
        for(int l = 0; l < k; ++l) s += qr.R(l, i) * qr.R(l, j);
        for(int l = 0; l < m; ++l) t += A0[l*rs + i*cs] * A0[l*rs + j*cs];
        e = std::max(e, std::abs(s - t));
    }
    return e;
}

int main() {
    int bad = 0;

    // (a) compute() then R(), 4x3, both storage orders
    for(int o = 0; o < 2; ++o) {
        detail::storage_order order = o ? detail::col_major : detail::row_major;
        const int m = 4, n = 3;
        int rs = o ? 1 : n, cs = o ? m : 1;
        std::vector<double> A0(m * n);
        for(int i = 0; i < m; ++i) for(int j = 0; j < n; ++j) A0[i*rs + j*cs] = a0(i, j);
        std::vector<double> A = A0;

        detail::QR<double> qr;
        qr.compute(m, n, A.data(), order);

        // what compute() documents: R is on and above the diagonal of A
        double e_inplace = 0, e_acc = 0;
        {
            // check the in-place result is a valid R (so compute itself is right)
            double e = 0;
            for(int i = 0; i < n; ++i) for(int j = 0; j < n; ++j) {
                double s = 0, t = 0;
                for(int l = 0; l <= std::min(i,j); ++l) s += A[l*rs + i*cs] * A[l*rs + j*cs];
                for(int l = 0; l < m; ++l) t += A0[l*rs + i*cs] * A0[l*rs + j*cs];
                e = std::max(e, std::abs(s - t));
            }
            e_inplace = e;
        }
        for(int i = 0; i < n; ++i) for(int j = i; j < n; ++j)
            e_acc = std::max(e_acc, std::abs(qr.R(i, j) - A[i*rs + j*cs]));

        double eg = gram_error(qr, A0, m, n, rs, cs);
        std::cout << "(a) compute() 4x3 " << (o ? "col_major" : "row_major")
                  << ": in-place R gram error " << e_inplace
                  << ", max |R(i,j) - A[i][j]| = " << e_acc
                  << ", gram error through R() = " << eg << std::endl;
        if (!(e_acc < 1e-12 && eg < 1e-10)) { ++bad; std::cout << "    VIOLATED: R(0,0)=" << qr.R(0,0) << " R(0,1)=" << qr.R(0,1) << " R(1,1)=" << qr.R(1,1) << " R(2,2)=" << qr.R(2,2) << std::endl; }
    }

    // (b) factorize() of a 2x2 row-major matrix, then compute() of a 4x3 col-major one
    {
        std::vector<double> B = {2, 1, 1, 3};
        detail::QR<double> qr;
        qr.factorize(2, 2, B.data(), detail::row_major);

        const int m = 4, n = 3; int rs = 1, cs = m;
        std::vector<double> A0(m * n);
        for(int i = 0; i < m; ++i) for(int j = 0; j < n; ++j) A0[i*rs + j*cs] = a0(i, j);
        std::vector<double> A = A0;
        qr.compute(m, n, A.data(), detail::col_major);
        double e_acc = 0;
        for(int i = 0; i < n; ++i) for(int j = i; j < n; ++j)
            e_acc = std::max(e_acc, std::abs(qr.R(i, j) - A[i*rs + j*cs]));
        std::cout << "(b) factorize(2x2 row_major) then compute(4x3 col_major): max |R(i,j) - A[i][j]| = " << e_acc << std::endl;
        if (!(e_acc < 1e-12)) { ++bad; std::cout << "    VIOLATED (stale strides of the previous factorization)" << std::endl; }
    }

    // (c) block QR: compute() then R()
    {
        typedef static_matrix<double,2,2> V;
        const int m = 3, n = 2; int rs = n, cs = 1; // row-major blocks
        std::vector<V> A(m * n);
        std::vector<double> S0(2*m * 2*n); // scalar copy, row-major (2m x 2n)
        for(int i = 0; i < m; ++i) for(int j = 0; j < n; ++j)
            for(int a = 0; a < 2; ++a) for(int b = 0; b < 2; ++b) {
                double v = a0(2*i + a, 2*j + b);
                A[i*rs + j*cs](a, b) = v;
                S0[(2*i + a) * 2*n + 2*j + b] = v;
            }
        detail::QR<V> qr;
        qr.compute(m, n, rs, cs, A.data());
        // gram check on the scalar level
        double e = 0;
        for(int i = 0; i < 2*n; ++i) for(int j = 0; j < 2*n; ++j) {
            double s = 0, t = 0;
            for(int l = 0; l < 2*n; ++l) s += qr.R(l/2, i/2)(l%2, i%2) * qr.R(l/2, j/2)(l%2, j%2);
            for(int l = 0; l < 2*m; ++l) t += S0[l*2*n + i] * S0[l*2*n + j];
            e = std::max(e, std::abs(s - t));
        }
        std::cout << "(c) block compute() 3x2 of 2x2 blocks: gram error through R() = " << e << std::endl;
        if (!(e < 1e-10)) { ++bad; std::cout << "    VIOLATED" << std::endl; }
    }

    std::cout << (bad ? "FAIL" : "OK") << std::endl;
    return bad ? 1 : 0;
}
