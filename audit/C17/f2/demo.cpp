// C17 / f2: adapter::block_matrix_adapter::row_iterator keeps a pointer (base) into
// its OWN inline buffer (buf) but has the implicit copy constructor: a copy's
// `base` still points into the source object.  Every adapter that stores the
// wrapped row iterator by value copies it -- adapter::reordered_matrix does
// (reorder.hpp:76 `base(base)`), so  reorder(block_matrix(A))  iterates through a
// dangling pointer into a destroyed temporary (ASan: stack-use-after-scope) and
// the copy's destructor destroys the source's sub-iterators a second time.
//
// exit 0 = the reordered block matrix equals P^T B P, exit 1 = it does not.
#include <vector>
#include <iostream>
#include <cmath>
#include <cstring>
#include <csignal>
#include <unistd.h>
#include <amgcl/backend/builtin.hpp>
#include <amgcl/adapter/crs_tuple.hpp>
#include <amgcl/adapter/crs_builder.hpp>
#include <amgcl/adapter/block_matrix.hpp>
#include <amgcl/adapter/reorder.hpp>
#include <amgcl/value_type/static_matrix.hpp>

typedef amgcl::static_matrix<double,2,2> blk;

// 6x6 scalar = 3x3 blocks, block-tridiagonal, all 2x2 blocks full
static const int n = 6, nb = 3;
static double dense[n][n];

struct builder { // row-builder callback: its row iterator owns std::vectors
    typedef double val_type; typedef ptrdiff_t col_type;
    size_t rows() const { return n; }
    size_t nonzeros() const { return 28; }
    void operator()(size_t i, std::vector<col_type> &c, std::vector<val_type> &v) const {
        for(int j = 0; j < n; ++j) if (dense[i][j] != 0) { c.push_back(j); v.push_back(dense[i][j]); }
    }
};

struct fixed_order { // identity-reversing ordering, no dependence on the matrix
    template <class M, class V> static void get(const M&, V &perm) {
        for(int i = 0; i < nb; ++i) perm[i] = nb - 1 - i;
    }
};

// clobber the stack region where destroyed temporaries lived
// and re-use the heap blocks their destructors released
static std::vector<std::vector<char>> keep;
static void __attribute__((noinline)) scribble() {
    volatile char junk[2048]; for(size_t i = 0; i < sizeof(junk); ++i) junk[i] = 0x5a;
    for(int rep = 0; rep < 16; ++rep) for(size_t sz = 8; sz <= 128; sz += 8) keep.emplace_back(sz, 0x5a);
}

static void on_segv(int) {
    const char m[] = "VIOLATED: SIGSEGV while iterating reorder(block_matrix(A)) (dangling row_iterator::base)\n";
    if (write(1, m, sizeof(m) - 1)) {}
    _exit(1);
}

int main() {
    std::signal(SIGSEGV, on_segv);
    for(int i = 0; i < n; ++i) for(int j = 0; j < n; ++j)
        if (std::abs(i/2 - j/2) <= 1) dense[i][j] = (i == j ? 10 : 0) + 1 + i + 0.1 * j;

    auto A  = amgcl::adapter::make_matrix(builder());
    auto B  = amgcl::adapter::block_matrix<blk>(A);
    amgcl::adapter::reorder<fixed_order> perm(B);
    auto RB = perm(B);                       // reordered view of the block view

    int bad = 0;
    for(int i = 0; i < nb; ++i) {
        double got[nb][2][2]; std::memset(got, 0, sizeof(got)); int cnt = 0;
        auto a = amgcl::backend::row_begin(RB, i);
        scribble();
        for(; a; ++a, ++cnt) {
            if (cnt > nb) { std::cout << "row " << i << ": runaway iteration" << std::endl; break; }
            ptrdiff_t c = a.col(); blk v = a.value();
            if (c < 0 || c >= nb) { std::cout << "row " << i << ": column " << c << " out of range" << std::endl; ++bad; continue; }
            for(int k = 0; k < 2; ++k) for(int l = 0; l < 2; ++l) got[c][k][l] = v(k,l);
        }
        int oi = nb - 1 - i;
        for(int j = 0; j < nb; ++j) { int oj = nb - 1 - j;
            for(int k = 0; k < 2; ++k) for(int l = 0; l < 2; ++l) {
                double want = dense[2*oi+k][2*oj+l];
                if (want != got[j][k][l]) { ++bad;
                    std::cout << "block (" << i << "," << j << ")[" << k << l << "] want " << want << " got " << got[j][k][l] << std::endl; }
            }
        }
    }
    std::cout << (bad ? "VIOLATED: reorder(block_matrix(A)) != P^T B P" : "property holds") << std::endl;
    return bad ? 1 : 0;
}
