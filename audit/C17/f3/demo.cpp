// C17 / f3: backend::map(ublas::compressed_matrix) hands out the raw index1_data()
// array as the CRS row-pointer range.  uBlas fills that array lazily: entries
// beyond filled1() (all rows after the last non-empty one, and the closing
// ptr[n]) are NOT written until complete_index1_data() is called, and
// unbounded_array<size_t> does not value-initialise.  For a matrix whose last
// row(s) are empty the adapter therefore reads indeterminate row pointers:
// nonzeros() is garbage, the rows after the last non-empty one are garbage ranges.
//
// exit 0 = rows/nnz/entries/mat-vec through the adapter agree with uBlas, exit 1 = not.
#include <vector>
#include <iostream>
#include <cstring>
#include <cstdlib>
#include <stdexcept>
#include <boost/numeric/ublas/matrix_sparse.hpp>
#include <boost/numeric/ublas/vector.hpp>
#include <boost/numeric/ublas/operation.hpp>
#include <amgcl/adapter/ublas.hpp>

namespace ublas = boost::numeric::ublas;

template <class M, class UM>
static int compare(const M &M_, const UM &A, size_t n) {
    int bad = 0;
    if (amgcl::backend::rows(M_) != n) { ++bad; std::cout << "rows " << amgcl::backend::rows(M_) << std::endl; }
    if (amgcl::backend::nonzeros(M_) != A.nnz()) {
        ++bad; std::cout << "nonzeros(map(A)) = " << amgcl::backend::nonzeros(M_) << ", want " << A.nnz() << std::endl;
    }
    for(size_t i = 0; i < n; ++i) {
        size_t want = 0; for(size_t j = 0; j < n; ++j) if (A(i,j) != 0) ++want;
        size_t w = amgcl::backend::row_nonzeros(M_, i);
        if (w != want) { ++bad; std::cout << "row " << i << ": row_nonzeros = " << w << ", want " << want
            << "  (ptr[" << i << "]=" << std::get<1>(M_)[i] << ", ptr[" << i+1 << "]=" << std::get<1>(M_)[i+1] << ")" << std::endl; }
    }
    if (!bad) { // only safe to iterate when the pointers are sane
        ublas::vector<double> x(n), y(n), z(n);
        for(size_t i = 0; i < n; ++i) x[i] = i + 1;
        amgcl::backend::spmv(1.0, M_, x, 0.0, y);
        ublas::axpy_prod(A, x, z, true);
        for(size_t i = 0; i < n; ++i) if (y[i] != z[i]) { ++bad; std::cout << "spmv row " << i << ": " << y[i] << " vs " << z[i] << std::endl; }
    }
    return bad;
}

static int check(bool through_const_ref) {
    const size_t n = 6;
    // 6x6, the last two rows have no entries (e.g. constrained / padding unknowns)
    ublas::compressed_matrix<double, ublas::row_major> U(n, n, 8);
    U(0,0) = 2; U(0,1) = -1;
    U(1,0) = -1; U(1,1) = 2; U(1,2) = -1;
    U(2,1) = -1; U(2,2) = 2;
    U(3,3) = 1;
    std::cout << (through_const_ref ? "[const ref] " : "[mutable]   ")
        << "uBlas: nnz = " << U.nnz() << ", filled1 = " << U.filled1() << " (size1+1 = " << n + 1 << ")" << std::endl;
    if (through_const_ref) {
        const ublas::compressed_matrix<double, ublas::row_major> &A = U;
        try {
            return compare(amgcl::backend::map(A), A, n);
        } catch (const std::exception &e) {
            // refusing loudly is acceptable: the adapter cannot complete a const matrix
            std::cout << "refused: " << e.what() << std::endl;
            return 0;
        }
    }
    return compare(amgcl::backend::map(U), U, n);
}

int main() {
    // make "fresh" heap memory visibly non-zero (as it is in any long-running program)
    { std::vector<void*> p; for(size_t sz = 8; sz <= 256; sz += 8) for(int k = 0; k < 8; ++k) { void *q = std::malloc(sz); std::memset(q, 0x7f, sz); p.push_back(q); }
      for(void *q : p) std::free(q); }

    int bad = 0;
    bad += check(false); // the usual call: map(A) with the user's (mutable) matrix
    bad += check(true);  // the same through a const reference

    std::cout << (bad ? "VIOLATED: map(ublas matrix) is not the source operator" : "property holds") << std::endl;
    return bad ? 1 : 0;
}
