// C17 / f4: preconditioner::cpr_drs copies the user matrix WITHOUT sorting its rows
// (constructor cpr_drs.hpp:142 and partial_update cpr_drs.hpp:193), while its
// block-merging passes (first_scalar_pass / init) and the inner preconditioners,
// which receive the copy through the shared_ptr constructors (no sorting there),
// require column-sorted rows.  The sibling class preconditioner::cpr was repaired
// (it calls backend::sort_rows), cpr_drs was not.
//
// The same matrix is handed over twice: rows sorted / row entries shuffled.
// exit 0 = both preconditioners act identically, exit 1 = they do not (or one throws).
#include <vector>
#include <iostream>
#include <cmath>
#include <random>
#include <algorithm>
#include <tuple>
#include <csignal>
#include <unistd.h>
#include <amgcl/backend/builtin.hpp>
#include <amgcl/adapter/crs_tuple.hpp>
#include <amgcl/amg.hpp>
#include <amgcl/coarsening/smoothed_aggregation.hpp>
#include <amgcl/relaxation/spai0.hpp>
#include <amgcl/relaxation/ilu0.hpp>
#include <amgcl/relaxation/as_preconditioner.hpp>
#include <amgcl/preconditioner/cpr_drs.hpp>

typedef amgcl::backend::builtin<double> B;
typedef amgcl::amg<B, amgcl::coarsening::smoothed_aggregation, amgcl::relaxation::spai0> PPrecond;
typedef amgcl::relaxation::as_preconditioner<B, amgcl::relaxation::ilu0> SPrecond;
typedef amgcl::preconditioner::cpr_drs<PPrecond, SPrecond> CPR;

struct sys { int n; std::vector<ptrdiff_t> ptr, col; std::vector<double> val; };

// m x m grid, two unknowns (pressure, saturation) per cell, 5-point coupling
static sys make(int m) {
    sys s; int nc = m*m; s.n = 2*nc; s.ptr.push_back(0);
    for(int c = 0; c < nc; ++c) for(int k = 0; k < 2; ++k) {
        int i = c % m, j = c / m;
        auto add = [&](int cc, double w){ for(int l = 0; l < 2; ++l) { s.col.push_back(2*cc+l); s.val.push_back(k==l ? w : 0.1*w*(k+1)); } };
        if (j>0) add(c-m,-1); if (i>0) add(c-1,-1); add(c, 4.5+k); if (i+1<m) add(c+1,-1); if (j+1<m) add(c+m,-1);
        s.ptr.push_back(s.col.size());
    }
    return s;
}
static sys shuffled(const sys &a, unsigned seed) {
    sys s = a; std::mt19937 g(seed);
    for(int i = 0; i < s.n; ++i) {
        std::vector<int> p(s.ptr[i+1]-s.ptr[i]); for(size_t k=0;k<p.size();++k) p[k]=k; std::shuffle(p.begin(),p.end(),g);
        for(size_t k=0;k<p.size();++k){ s.col[s.ptr[i]+k]=a.col[a.ptr[i]+p[k]]; s.val[s.ptr[i]+k]=a.val[a.ptr[i]+p[k]]; }
    }
    return s;
}

static int compare(const char *what, const std::vector<double> &x1, const std::vector<double> &x2) {
    double d = 0, nrm = 0;
    for(size_t i = 0; i < x1.size(); ++i) { d = std::max(d, std::abs(x1[i]-x2[i])); nrm = std::max(nrm, std::abs(x1[i])); }
    bool bad = !(d <= 1e-12 * nrm);
    std::cout << what << ": max |x_sorted - x_unsorted| = " << d << " (|x| = " << nrm << ")" << (bad ? "  <-- DIFFERENT" : "") << std::endl;
    return bad;
}

static void on_segv(int) {
    const char m[] = "partial_update(sorted matrix, update_transfer_ops = true): SIGSEGV (first_scalar_pass dereferences the null App, cpr_drs.hpp:328)\nVIOLATED\n";
    if (write(1, m, sizeof(m) - 1)) {}
    _exit(1);
}

int main() {
    sys a = make(6), u = shuffled(a, 42);
    CPR::params prm; prm.block_size = 2;

    std::vector<double> f(a.n), x1(a.n, 0.0), x2(a.n, 0.0);
    for(int i = 0; i < a.n; ++i) f[i] = std::sin(0.3*i) + 1;
    int bad = 0;

    // (a) constructor
    CPR p1(std::tie(a.n, a.ptr, a.col, a.val), prm);
    p1.apply(f, x1);
    try {
        CPR p2(std::tie(u.n, u.ptr, u.col, u.val), prm);
        p2.apply(f, x2);
        bad += compare("constructor", x1, x2);
    } catch (const std::exception &e) {
        ++bad; std::cout << "constructor: the matrix with shuffled row entries is rejected: " << e.what() << std::endl;
    }

    // (b) partial_update with the (unchanged) matrix in another entry order
    try {
        CPR p3(std::tie(a.n, a.ptr, a.col, a.val), prm);
        p3.partial_update(std::tie(u.n, u.ptr, u.col, u.val), true);
        std::fill(x2.begin(), x2.end(), 0.0);
        p3.apply(f, x2);
        bad += compare("partial_update", x1, x2);
    } catch (const std::exception &e) {
        ++bad; std::cout << "partial_update: the matrix with shuffled row entries is rejected: " << e.what() << std::endl;
    }

    // (c) second defect met on the way: even with the SORTED matrix a partial update
    //     that refreshes the transfer operator dereferences a null pointer
    //     (scalar value type: first_scalar_pass(K, get_app = false) -> App->set_nonzeros)
    {
        std::signal(SIGSEGV, on_segv);
        CPR p4(std::tie(a.n, a.ptr, a.col, a.val), prm);
        p4.partial_update(std::tie(a.n, a.ptr, a.col, a.val), true);
        std::fill(x2.begin(), x2.end(), 0.0);
        p4.apply(f, x2);
        bad += compare("partial_update(sorted, same matrix)", x1, x2);
    }

    std::cout << (bad ? "VIOLATED: cpr_drs depends on the order of the entries within a row" : "property holds") << std::endl;
    return bad ? 1 : 0;
}
