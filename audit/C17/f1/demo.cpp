// C17 / f1: adapter::scaled_matrix (scale_diagonal(...).matrix(A)) can only wrap
// matrices whose row iterator happens to be constructible from (Matrix, row):
// std::tuple CRS and Eigen.  For backend::crs (shared internal CRS, zero_copy),
// adapter::matrix_builder, adapter::reordered_matrix, adapter::block_matrix_adapter
// the code does not compile; and spmv()/residual() on a scaled_matrix are
// "SPMV_NOT_IMPLEMENTED" although every other adapter supports them.
//
// Unpatched library: this file does NOT COMPILE  (= property violated).
// Patched library  : compiles, checks S*A*S entry by entry, exit 0.
#include <vector>
#include <iostream>
#include <cmath>
#include <tuple>
#include <amgcl/backend/builtin.hpp>
#include <amgcl/adapter/crs_tuple.hpp>
#include <amgcl/adapter/zero_copy.hpp>
#include <amgcl/adapter/crs_builder.hpp>
#include <amgcl/adapter/reorder.hpp>
#include <amgcl/adapter/block_matrix.hpp>
#include <amgcl/adapter/scaled_problem.hpp>
#include <amgcl/value_type/static_matrix.hpp>

typedef amgcl::backend::builtin<double> Backend;

static const int n = 4;
// non-symmetric, diagonally dominant, diag 4,9,16,25
static const ptrdiff_t P[] = {0, 2, 5, 8, 10};
static const ptrdiff_t C[] = {0,1, 0,1,2, 1,2,3, 2,3};
static const double    V[] = {4,-1, -2,9,-3, -1,16,-2, -5,25};

struct builder {
    typedef double val_type; typedef ptrdiff_t col_type;
    size_t rows() const { return n; }
    size_t nonzeros() const { return P[n]; }
    void operator()(size_t i, std::vector<col_type> &c, std::vector<val_type> &v) const {
        for(ptrdiff_t j = P[i]; j < P[i+1]; ++j) { c.push_back(C[j]); v.push_back(V[j]); }
    }
};

static double dense[n][n];

template <class M>
int check(const char *name, const M &S, const std::vector<double> &s, const ptrdiff_t *iperm = 0, const ptrdiff_t *perm = 0) {
    int bad = 0;
    double got[n][n] = {};
    for(int i = 0; i < n; ++i)
        for(auto a = amgcl::backend::row_begin(S, i); a; ++a) got[i][a.col()] += a.value();
    for(int i = 0; i < n; ++i) for(int j = 0; j < n; ++j) {
        int oi = perm ? perm[i] : i, oj = perm ? perm[j] : j;
        double want = s[oi] * dense[oi][oj] * s[oj];
        if (std::abs(want - got[i][j]) > 1e-14) { ++bad;
            std::cout << name << ": (" << i << "," << j << ") want " << want << " got " << got[i][j] << std::endl; }
    }
    std::cout << name << (bad ? ": MISMATCH" : ": ok") << std::endl;
    return bad;
}

int main() {
    for(int i = 0; i < n; ++i) for(ptrdiff_t j = P[i]; j < P[i+1]; ++j) dense[i][C[j]] = V[j];
    std::vector<double> s(n); for(int i = 0; i < n; ++i) s[i] = 1 / std::sqrt(dense[i][i]);
    int bad = 0;

    // (a) shared internal CRS / zero-copy matrix
    auto Z = amgcl::adapter::zero_copy(n, P, C, V);
    auto scale_z = amgcl::adapter::scale_diagonal<Backend>(*Z);
    bad += check("scaled(zero_copy crs)", scale_z.matrix(*Z), s);

    // (b) row-builder callback
    auto B = amgcl::adapter::make_matrix(builder());
    auto scale_b = amgcl::adapter::scale_diagonal<Backend>(B);
    bad += check("scaled(matrix_builder)", scale_b.matrix(B), s);

    // (c) matrix-vector product through the adapter (all other adapters support it)
    {
        auto SM = scale_z.matrix(*Z);
        std::vector<double> x(n), y(n, 0.0);
        for(int i = 0; i < n; ++i) x[i] = i + 1;
        amgcl::backend::spmv(1.0, SM, x, 0.0, y);
        for(int i = 0; i < n; ++i) {
            double w = 0; for(int j = 0; j < n; ++j) w += s[i] * dense[i][j] * s[j] * x[j];
            if (std::abs(w - y[i]) > 1e-13) { ++bad; std::cout << "spmv row " << i << " want " << w << " got " << y[i] << std::endl; }
        }
        std::cout << "spmv(scaled) checked" << std::endl;
    }

    // (d) block adapter underneath
    {
        typedef amgcl::static_matrix<double,2,2> blk;
        auto Bm = amgcl::adapter::block_matrix<blk>(*Z);
        auto sc = amgcl::adapter::scale_diagonal<amgcl::backend::builtin<blk>>(Bm);
        auto SB = sc.matrix(Bm);
        int cnt = 0; for(int i = 0; i < n/2; ++i) for(auto a = amgcl::backend::row_begin(SB, i); a; ++a) ++cnt;
        if (cnt != 4) { ++bad; std::cout << "scaled(block) has " << cnt << " blocks, want 4" << std::endl; }
        else std::cout << "scaled(block_matrix): ok" << std::endl;
    }

    std::cout << (bad ? "VIOLATED" : "property holds") << std::endl;
    return bad ? 1 : 0;
}
