// C03 / finding 3 (low severity): for plain aggregation the coarse matrix is NOT
// (1/alpha) * R*A*P in the working precision.  coarsening::aggregation::coarse_operator
// computes 1/over_interp in float and detail::scaled_galerkin takes the factor as `float s`,
// so a double (or complex<double>) hierarchy gets R*A*P * float(1/alpha): relative error
// 3e-8 ( = 2^-25) in every entry of every coarse level for the default alpha = 1.5.
//
// Input: 1D Laplacian tridiag(-1, 2, -1), n = 12, double, default parameters; only the public
// coarsening interface is used (transfer_operators + coarse_operator), P has entries 1 so
// R*A*P is a small-integer matrix and the exact answer is (integer)/1.5 correctly rounded.
//
// exit 0: every entry of the coarse operator equals (R*A*P)_ij / alpha to 1e-15 relative
// exit 1: otherwise
#include <iostream>
#include <iomanip>
#include <vector>
#include <cmath>
#include <complex>
#include <amgcl/backend/builtin.hpp>
#include <amgcl/value_type/complex.hpp>
#include <amgcl/value_type/static_matrix.hpp>
#include <amgcl/coarsening/aggregation.hpp>

using namespace amgcl;

template <class M>
std::vector<double> dense(const M &A) {
    std::vector<double> d(A.nrows * A.ncols, 0.0);
    for(size_t i = 0; i < A.nrows; ++i)
        for(auto j = A.ptr[i]; j < A.ptr[i+1]; ++j) d[i * A.ncols + A.col[j]] += A.val[j];
    return d;
}

// compile-only check that the other value types still work
template <class V> void instantiate() {
    typedef backend::builtin<V> B; typedef typename B::matrix M;
    M A; A.set_size(2, 2, true); A.ptr[1] = 2; A.ptr[2] = 2; A.scan_row_sizes(); A.set_nonzeros();
    A.col[0]=0; A.col[1]=1; A.col[2]=0; A.col[3]=1;
    A.val[0]=A.val[3]=math::identity<V>(); A.val[1]=A.val[2]=math::constant<V>(-0.5);
    coarsening::aggregation<B> C; auto PR = C.transfer_operators(A);
    auto Ac = C.coarse_operator(A, *std::get<0>(PR), *std::get<1>(PR)); (void)Ac;
}

int main() {
    instantiate<float>(); instantiate<std::complex<double>>();
    instantiate<static_matrix<float,2,2>>(); instantiate<static_matrix<double,2,2>>();

    typedef backend::builtin<double> B;
    typedef B::matrix M;
    const int n = 12;
    std::vector<ptrdiff_t> ptr(1, 0), col; std::vector<double> val;
    for(int i = 0; i < n; ++i) {
        if (i > 0)     { col.push_back(i-1); val.push_back(-1); }
        col.push_back(i); val.push_back(2);
        if (i + 1 < n) { col.push_back(i+1); val.push_back(-1); }
        ptr.push_back(col.size());
    }
    M A(n, n, ptr, col, val);

    coarsening::aggregation<B> C;              // over_interp = 1.5
    std::shared_ptr<M> P, R;
    std::tie(P, R) = C.transfer_operators(A);
    auto Ac = C.coarse_operator(A, *P, *R);

    const double alpha = C.prm.over_interp;
    auto dA = dense(A), dP = dense(*P), dR = dense(*R), dC = dense(*Ac);
    size_t nc = P->ncols;
    double worst = 0; size_t wi = 0, wj = 0; double wexp = 0, wgot = 0;
    for(size_t i = 0; i < nc; ++i) for(size_t j = 0; j < nc; ++j) {
        double s = 0;
        for(int k = 0; k < n; ++k) for(int l = 0; l < n; ++l) s += dR[i*n+k] * dA[k*n+l] * dP[l*nc+j];
        double expect = s / alpha, got = dC[i*nc+j];
        double e = expect != 0 ? std::abs(got - expect) / std::abs(expect) : std::abs(got);
        if (e > worst) { worst = e; wi = i; wj = j; wexp = expect; wgot = got; }
    }
    std::cout << std::setprecision(17) << "coarse size " << nc << ", alpha = " << alpha
              << "\nworst entry (" << wi << "," << wj << "): expected (R*A*P)/alpha = " << wexp
              << ", coarse_operator gives " << wgot << "\nrelative error " << worst << std::endl;
    if (worst > 1e-15) {
        std::cout << "VIOLATED: coarse operator is R*A*P times float(1/alpha), not (1/alpha) R*A*P in double precision" << std::endl;
        return 1;
    }
    std::cout << "OK" << std::endl;
    return 0;
}
