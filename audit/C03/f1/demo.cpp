// C03 / finding 1: a coarsening step that produces ZERO aggregates (all of them
// dropped by pointwise_aggregates::remove_small_aggregates) does not raise
// error::empty_level; amg::do_init then appends a 0 x 0 "direct solver" level and
// skyline_lu / cuthill_mckee store through a null pointer (perm[0] of an empty vector).
//
// Input: 8 x 8 block-diagonal matrix made of four decoupled 2 x 2 blocks
// [2.5 -1; -1 2.5], plain aggregation with 3 near-nullspace vectors (1, i, i^2),
// coarse_enough = 1.  Every aggregate has 2 < 3 points and is removed.
//
// exit 0: hierarchy is built (coarsest level = smoother, as amg.hpp promises for a
//         zero-sized coarse level), apply() gives finite numbers, rebuild() works.
// exit 1: construction crashed / produced a zero-sized level.
#include <iostream>
#include <vector>
#include <cmath>
#include <cstdlib>
#include <unistd.h>
#include <sys/wait.h>

#include <amgcl/amg.hpp>
#include <amgcl/backend/builtin.hpp>
#include <amgcl/coarsening/aggregation.hpp>
#include <amgcl/coarsening/pointwise_aggregates.hpp>
#include <amgcl/relaxation/damped_jacobi.hpp>
#include <amgcl/adapter/crs_tuple.hpp>

using namespace amgcl;
typedef backend::builtin<double> B;
typedef amg<B, coarsening::aggregation, relaxation::damped_jacobi> AMG;

static void system_matrix(int n, std::vector<ptrdiff_t> &ptr, std::vector<ptrdiff_t> &col, std::vector<double> &val) {
    ptr.assign(1, 0); col.clear(); val.clear();
    for(int i = 0; i < n; ++i) {
        int j = i ^ 1;
        if (j < i) { col.push_back(j); val.push_back(-1.0); }
        col.push_back(i); val.push_back(2.5);
        if (j > i) { col.push_back(j); val.push_back(-1.0); }
        ptr.push_back(col.size());
    }
}

static int child() {
    const int n = 8, cols = 3;
    std::vector<ptrdiff_t> ptr, col; std::vector<double> val;
    system_matrix(n, ptr, col, val);

    AMG::params prm;
    prm.coarse_enough = 1;
    prm.coarsening.nullspace.cols = cols;
    prm.coarsening.nullspace.B.resize(n * cols);
    for(int i = 0; i < n; ++i) {
        prm.coarsening.nullspace.B[i*cols+0] = 1;
        prm.coarsening.nullspace.B[i*cols+1] = i;
        prm.coarsening.nullspace.B[i*cols+2] = i * i;
    }

    AMG amg(std::tie(n, ptr, col, val), prm);
    std::cout << amg << std::endl;

    backend::numa_vector<double> f(n), x(n);
    for(int i = 0; i < n; ++i) f[i] = 1;
    amg.apply(f, x);
    for(int i = 0; i < n; ++i) if (!std::isfinite(x[i])) { std::cout << "apply() gave a non-finite value" << std::endl; return 1; }
    amg.rebuild(std::tie(n, ptr, col, val));
    amg.apply(f, x);
    std::cout << "hierarchy built, apply/rebuild fine, x[0] = " << x[0] << std::endl;
    return 0;
}

int main() {
    // Part (a): the aggregates object itself.
    {
        const int n = 8;
        std::vector<ptrdiff_t> ptr, col; std::vector<double> val;
        system_matrix(n, ptr, col, val);
        backend::crs<double> A(n, n, ptr, col, val);
        coarsening::pointwise_aggregates::params ap;
        try {
            coarsening::pointwise_aggregates aggr(A, ap, /*min_aggregate=*/3);
            std::cout << "pointwise_aggregates(min_aggregate=3): count = " << aggr.count
                      << " and no error::empty_level was raised" << std::endl;
        } catch (const error::empty_level&) {
            std::cout << "pointwise_aggregates(min_aggregate=3): error::empty_level raised (good)" << std::endl;
        }
    }

    // Part (b): the hierarchy, in a child process because the defect is a crash.
    std::cout.flush();
    pid_t pid = fork();
    if (pid == 0) { int r = child(); std::cout.flush(); _exit(r); }
    int status = 0;
    waitpid(pid, &status, 0);
    if (WIFSIGNALED(status)) {
        std::cout << "VIOLATED: amg constructor killed by signal " << WTERMSIG(status)
                  << " (zero-sized coarse level handed to the direct solver)" << std::endl;
        return 1;
    }
    if (WEXITSTATUS(status) != 0) { std::cout << "VIOLATED (child exit " << WEXITSTATUS(status) << ")" << std::endl; return 1; }
    std::cout << "OK" << std::endl;
    return 0;
}
