// C03 / finding 2: amg::rebuild() constructs a NEW coarsening object from the stored
// parameters (amg.hpp:264) although it only needs coarse_operator().  With the run-time
// coarsening wrapper the stored parameters are a property tree that carries the raw
// user pointer "nullspace.B"; nullspace_params(ptree) copies rows*cols doubles through
// that pointer AGAIN on every rebuild().  The constructor copied the vectors already
// (B.assign), the transfer operators are kept, so nothing in rebuild() needs them -- but
// a user who released the near-nullspace array after the setup gets a read of freed
// memory in rebuild().
//
// To make the read visible without a sanitizer the array lives in its own mmap()ed
// pages which are unmapped after the hierarchy is built.  rebuild() runs in a child.
//
// exit 0: rebuild() does not touch the user array, coarse matrices are rebuilt
// exit 1: rebuild() read the released array (child killed by SIGSEGV)
#include <iostream>
#include <vector>
#include <cmath>
#include <unistd.h>
#include <sys/mman.h>
#include <sys/wait.h>

#include <boost/property_tree/ptree.hpp>
#include <amgcl/amg.hpp>
#include <amgcl/backend/builtin.hpp>
#include <amgcl/coarsening/runtime.hpp>
#include <amgcl/relaxation/damped_jacobi.hpp>
#include <amgcl/adapter/crs_tuple.hpp>

using namespace amgcl;

int main() {
    typedef backend::builtin<double> B;
    typedef amg<B, runtime::coarsening::wrapper, relaxation::damped_jacobi> AMG;

    const int n = 64, cols = 2;
    std::vector<ptrdiff_t> ptr(1, 0), col; std::vector<double> val;
    for(int i = 0; i < n; ++i) {
        if (i > 0)     { col.push_back(i-1); val.push_back(-1); }
        col.push_back(i); val.push_back(2);
        if (i + 1 < n) { col.push_back(i+1); val.push_back(-1); }
        ptr.push_back(col.size());
    }

    const size_t bytes = 4096; // n * cols * 8 = 1024 bytes fit
    double *ns = static_cast<double*>(mmap(0, bytes, PROT_READ | PROT_WRITE, MAP_PRIVATE | MAP_ANONYMOUS, -1, 0));
    if (ns == MAP_FAILED) { std::cout << "mmap failed" << std::endl; return 2; }
    for(int i = 0; i < n; ++i) { ns[cols*i] = 1; ns[cols*i+1] = i; }

    boost::property_tree::ptree p;
    p.put("coarse_enough", 4);
    p.put("coarsening.type", "aggregation");
    p.put("coarsening.nullspace.cols", cols);
    p.put("coarsening.nullspace.rows", n);
    p.put("coarsening.nullspace.B", ns);

    AMG amg(std::tie(n, ptr, col, val), p);
    std::cout << amg << std::endl;

    // Setup is finished, the transfer operators exist: release the near-nullspace vectors.
    munmap(ns, bytes);

    std::vector<double> val2(val);
    for(auto &v : val2) v *= 2;

    std::cout.flush();
    pid_t pid = fork();
    if (pid == 0) {
        amg.rebuild(std::tie(n, ptr, col, val2));
        backend::numa_vector<double> f(n), x(n);
        for(int i = 0; i < n; ++i) f[i] = 1;
        amg.apply(f, x);
        _exit(std::isfinite(x[0]) ? 0 : 3);
    }
    int status = 0;
    waitpid(pid, &status, 0);
    if (WIFSIGNALED(status)) {
        std::cout << "VIOLATED: rebuild() killed by signal " << WTERMSIG(status)
                  << ": it read the near-nullspace array the user released after the setup" << std::endl;
        return 1;
    }
    if (WEXITSTATUS(status)) { std::cout << "VIOLATED: child exit " << WEXITSTATUS(status) << std::endl; return 1; }
    std::cout << "OK: rebuild() reused the transfer operators without touching the user array" << std::endl;
    return 0;
}
