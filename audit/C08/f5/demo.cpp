// C08 / block-to-pointwise reduction: backend::pointwise_matrix(A, block_size)
// checks that the number of ROWS is divisible by block_size but silently
// truncates the number of COLUMNS (mp = m / block_size).  For a rectangular
// matrix (e.g. a transfer operator or an off-diagonal coupling block) with
// ncols % block_size != 0 the result declares mp columns and stores the
// column index mp: an out-of-range column in the returned CRS matrix.
#include <cstdio>
#include <vector>
#include <stdexcept>
#include <amgcl/backend/builtin.hpp>

using namespace amgcl;

int main() {
    // 2x3 matrix, A(0,2) = 1, A(1,0) = 1; block_size = 2
    std::vector<ptrdiff_t> ptr = {0, 1, 2}, col = {2, 0};
    std::vector<double>    val = {1, 1};
    backend::crs<double> A(2, 3, ptr, col, val);

    try {
        auto Ap = backend::pointwise_matrix(A, 2);
        std::printf("pointwise matrix is %zu x %zu, row 0 =", Ap->nrows, Ap->ncols);
        int bad = 0;
        for (ptrdiff_t j = Ap->ptr[0]; j < Ap->ptr[1]; ++j) {
            std::printf(" (%td: %g)", Ap->col[j], Ap->val[j]);
            if (Ap->col[j] < 0 || Ap->col[j] >= (ptrdiff_t)Ap->ncols) ++bad;
        }
        std::printf("\n");
        if (bad) { std::printf("VIOLATED: %d column indices are outside [0, ncols)\n", bad); return 1; }
    } catch (const std::exception &e) {
        std::printf("refused: %s\n", e.what());
    }
    std::printf("OK\n");
    return 0;
}
