// C08 / diagonal extraction: backend::diagonal(A, invert) must equal the dense
// definition d_i = A(i,i) (0 when the entry is not stored; the inverted
// variant maps a zero diagonal to the identity, as the code itself does for a
// STORED zero).  For a row without a stored diagonal entry (an empty row, or a
// row with off-diagonal entries only) the library leaves dia[i] uninitialised.
//
// To make the indeterminate value visible without valgrind/MSan the demo
// replaces the global allocation functions and fills every new block with 0xAB.
#include <cstdlib>
#include <cstring>
#include <cstdio>
#include <new>
#include <vector>
#include <complex>

void* operator new  (std::size_t n) { void *p = std::malloc(n ? n : 1); if (!p) throw std::bad_alloc(); std::memset(p, 0xAB, n); return p; }
void* operator new[](std::size_t n) { void *p = std::malloc(n ? n : 1); if (!p) throw std::bad_alloc(); std::memset(p, 0xAB, n); return p; }
void operator delete  (void *p) noexcept { std::free(p); }
void operator delete[](void *p) noexcept { std::free(p); }
void operator delete  (void *p, std::size_t) noexcept { std::free(p); }
void operator delete[](void *p, std::size_t) noexcept { std::free(p); }

#include <amgcl/backend/builtin.hpp>
#include <amgcl/value_type/complex.hpp>
#include <amgcl/value_type/static_matrix.hpp>

using namespace amgcl;

template <class V>
int check(const char *name) {
    typedef backend::crs<V> M;
    // 3x3:  row 0 = { (0,0)=2 }, row 1 = { (1,0)=1, (1,2)=1 } (no diagonal),
    //       row 2 = {} (empty row)
    std::vector<ptrdiff_t> ptr = {0, 1, 3, 3};
    std::vector<ptrdiff_t> col = {0, 0, 2};
    std::vector<V> val(3);
    val[0] = 2.0 * math::identity<V>();
    val[1] = math::identity<V>();
    val[2] = math::identity<V>();
    M A(3, 3, ptr, col, val);

    int bad = 0;
    for (int invert = 0; invert < 2; ++invert) {
        auto d = backend::diagonal(A, invert != 0);
        for (int i = 0; i < 3; ++i) {
            V expect;
            if (i == 0) expect = (invert ? 0.5 : 2.0) * math::identity<V>();
            else        expect = invert ? math::identity<V>() : math::zero<V>();
            V diff = (*d)[i]; diff -= expect;
            double err = math::norm(diff);
            if (!(err == 0)) {
                ++bad;
                std::printf("%s: diagonal(A, invert=%d)[%d]: |got - dense definition| = %g (first scalar as bytes:",
                        name, invert, i, err);
                const unsigned char *b = reinterpret_cast<const unsigned char*>(&(*d)[i]);
                for (int k = 0; k < 8; ++k) std::printf(" %02x", b[k]);
                std::printf(")\n");
            }
        }
    }
    return bad;
}

int main() {
    int bad = 0;
    bad += check<double>("double");
    bad += check< std::complex<double> >("complex<double>");
    bad += check< static_matrix<double,2,2> >("static_matrix<double,2,2>");
    if (bad) { std::printf("VIOLATED: %d diagonal entries are not what the dense definition prescribes (uninitialised memory)\n", bad); return 1; }
    std::printf("OK\n");
    return 0;
}
