// C08 / matrix-matrix product: backend::product(A, B, sort) picks the row-merge
// algorithm (spgemm_rmerge) when more than 16 OpenMP threads are available and
// the marker algorithm (spgemm_saad) otherwise.  The row-merge algorithm
//   (a) silently ignores the 'sort' argument, and
//   (b) merges the rows of B as if they were sorted by column.
// With a B whose rows are stored in another order (a legal CRS matrix, which
// the marker algorithm multiplies correctly) the SAME call returns a different
// CRS structure depending on the thread count: rows that are not sorted
// although sort = true was requested, and rows holding the same column twice
// (nnz larger than the number of structural nonzeros of A*B), so that
// consumers that look an entry up (diagonal(), relaxation, ILU) see only a
// part of the value.
//
// Build with -fopenmp. The demo sets the thread count itself.
#include <cstdio>
#include <vector>
#include <map>
#include <omp.h>
#include <amgcl/backend/builtin.hpp>

using namespace amgcl;
typedef backend::crs<double> M;

static int inspect(const char *tag, const M &C, bool want_sorted) {
    int bad = 0;
    // dense reference of A*B, A = [1 1], B = [[1,2],[3,4]]  ->  [4 6]
    const double ref[2] = {4, 6};
    std::printf("%s: nnz = %td, row 0 =", tag, (ptrdiff_t)C.ptr[1]);
    std::map<ptrdiff_t,int> seen;
    for (ptrdiff_t j = C.ptr[0]; j < C.ptr[1]; ++j) {
        std::printf(" (%td: %g)", C.col[j], C.val[j]);
        if (++seen[C.col[j]] > 1) ++bad;                                 // duplicate column
        if (want_sorted && j > C.ptr[0] && C.col[j-1] >= C.col[j]) ++bad; // not strictly sorted
    }
    std::printf("\n");
    if (C.ptr[1] != 2) ++bad;                                            // structural nnz of A*B is 2
    auto d = backend::diagonal(C);                                       // consumer: looks C(0,0) up
    if ((*d)[0] != ref[0]) {
        std::printf("   diagonal(C)[0] = %g, dense (A*B)(0,0) = %g\n", (*d)[0], ref[0]);
        ++bad;
    }
    return bad;
}

int main() {
    // A is 1x2 (sorted row), B is 2x2 with every row stored as (col 1, col 0).
    std::vector<ptrdiff_t> aptr = {0, 2},    acol = {0, 1};       std::vector<double> aval = {1, 1};
    std::vector<ptrdiff_t> bptr = {0, 2, 4}, bcol = {1, 0, 0, 1}; std::vector<double> bval = {2, 1, 3, 4};
    // row 0 of B: (1:2)(0:1)  -- unsorted;  row 1 of B: (0:3)(1:4) -- sorted
    M A(1, 2, aptr, acol, aval), B(2, 2, bptr, bcol, bval);

    int bad = 0;

    omp_set_num_threads(1);
    auto C1 = backend::product(A, B, /*sort*/true);
    bad += inspect(" 1 thread  (spgemm_saad)  ", *C1, true);

    omp_set_num_threads(17);
    auto C17 = backend::product(A, B, /*sort*/true);
    bad += inspect("17 threads (spgemm_rmerge)", *C17, true);

    if (bad) { std::printf("VIOLATED: product(A, B, sort=true) is not a well formed, sorted CRS of A*B (%d problems)\n", bad); return 1; }
    std::printf("OK\n");
    return 0;
}
