// C08 / CRS copy: copy assignment of backend::crs must leave the target equal
// to the source.  crs::operator=(const crs&) frees the target's arrays first
// and then copies from 'other'; when other is the same object (A = A, or an
// assignment through a second reference/pointer, e.g. levels[i] = levels[j]
// with i == j) the matrix destroys itself: ptr/col/val are reset to null while
// nrows/ncols/nnz keep their values, so every later kernel dereferences null.
#include <cstdio>
#include <vector>
#include <amgcl/backend/builtin.hpp>

using namespace amgcl;
typedef backend::crs<double> M;

int main() {
    std::vector<ptrdiff_t> ptr = {0, 1, 2}, col = {0, 1};
    std::vector<double>    val = {1, 2};
    M A(2, 2, ptr, col, val);

    const M &same = A;   // e.g. reached through another reference
    A = same;            // must be a no-op

    std::printf("after A = A: nrows=%zu ncols=%zu nnz=%zu ptr=%p col=%p val=%p\n",
            A.nrows, A.ncols, A.nnz, (void*)A.ptr, (void*)A.col, (void*)A.val);

    bool ok = A.ptr && A.col && A.val
        && A.ptr[0] == 0 && A.ptr[1] == 1 && A.ptr[2] == 2
        && A.col[0] == 0 && A.col[1] == 1
        && A.val[0] == 1 && A.val[1] == 2;

    if (!ok) {
        std::printf("VIOLATED: the copy-assigned matrix is not equal to its source "
                "(arrays are gone, nnz still %zu); transpose(A)/product(A,A) would now dereference null\n", A.nnz);
        return 1;
    }
    std::printf("OK\n");
    return 0;
}
