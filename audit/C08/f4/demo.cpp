// C08 / CRS convert constructor through adapter::block_matrix: converting a
// scalar matrix to a block-valued one must give the blocks of the dense matrix.
// The adapter's row iterator walks the BlockSize scalar rows as if they were
// sorted by column.  For a (legal) CRS matrix whose row entries are stored in
// another order it neither sorts nor refuses: entries of an earlier block
// column are written into the block that is currently being gathered.
#include <cstdio>
#include <vector>
#include <stdexcept>
#include <amgcl/backend/builtin.hpp>
#include <amgcl/adapter/block_matrix.hpp>
#include <amgcl/value_type/static_matrix.hpp>

using namespace amgcl;
typedef static_matrix<double,2,2> Blk;

int main() {
    // 4x4 scalar matrix, only row 0 is populated: A(0,3) = 7 and A(0,0) = 5,
    // stored in this order (column 3 first).
    std::vector<ptrdiff_t> ptr = {0, 2, 2, 2, 2}, col = {3, 0};
    std::vector<double>    val = {7, 5};
    backend::crs<double> A(4, 4, ptr, col, val);

    double D[4][4] = {{0}}; D[0][3] = 7; D[0][0] = 5;   // dense definition

    try {
        backend::crs<Blk> B(adapter::block_matrix<Blk>(A));

        double R[4][4] = {{0}};
        for (size_t i = 0; i < B.nrows; ++i)
            for (ptrdiff_t j = B.ptr[i]; j < B.ptr[i+1]; ++j) {
                std::printf("block row %zu, block col %td: [%g %g; %g %g]\n", i, B.col[j],
                        B.val[j](0,0), B.val[j](0,1), B.val[j](1,0), B.val[j](1,1));
                for (int a = 0; a < 2; ++a) for (int b = 0; b < 2; ++b)
                    R[2*i+a][2*B.col[j]+b] += B.val[j](a,b);
            }

        int bad = 0;
        for (int i = 0; i < 4; ++i) for (int j = 0; j < 4; ++j) if (R[i][j] != D[i][j]) {
            std::printf("  entry (%d,%d): block matrix has %g, scalar matrix has %g\n", i, j, R[i][j], D[i][j]);
            ++bad;
        }
        if (bad) { std::printf("VIOLATED: the block matrix is not the scalar matrix (%d entries differ), no error was raised\n", bad); return 1; }
    } catch (const std::exception &e) {
        std::printf("refused: %s\n", e.what());   // acceptable: input rejected loudly
    }
    std::printf("OK\n");
    return 0;
}
