#!/bin/bash
# usage: runcases.sh <binary> <per-case-timeout> case...   (prints one summary line per case)
bin=$1; to=$2; shift 2
for c in "$@"; do
  o=$(mktemp /verif/build/t/rc.XXXXXX.json)
  /usr/bin/time -f "%e s %M KB" -o $o.time timeout $to $bin --case "$c" --out $o >/dev/null 2>&1
  python3 - "$c" $o <<'PY'
import json,sys
try:
    d=json.load(open(sys.argv[2]))
    print(sys.argv[1], {k:d[k] for k in ['paths','paths_pruned','paths_unexplored','paths_stopped','obligations','discharged','trivial','queries','q_unknown','nf_mismatch']}, 'solver_s=%.1f'%d['solver_s'], d['stops'], d['inconclusive'][:2], [ (v['obligation'],v['detail'][:200]) for v in d['violations'][:3]], open(sys.argv[2]+'.time').read().strip())
except Exception as e: print(sys.argv[1], 'FAILED', e, open(sys.argv[2]+'.time').read().strip())
PY
  rm -f $o $o.time
done
