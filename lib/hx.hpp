// hx: harness support.  A harness body is written once, generically over
// hx::scalar, and compiled twice:
//   -DHX_SYM : scalar = symx::sym   (symbolic exploration, or exact-rational concrete run)
//   -DHX_DBL : scalar = double      (the ordinary build of the real code: validation + replay)
#pragma once
#ifdef HX_SYM
#include "symx.hpp"
#else
#include <cmath>
#include <cstring>
#include <cstdint>
#include <vector>
#include <map>
#include <set>
#include <string>
#include <sstream>
#include <iostream>
#include <fstream>
#include <algorithm>
#include <stdexcept>
#include <functional>
#include <chrono>
#include <random>
#include <tuple>
#endif

#include <sys/resource.h>
#include <new>
namespace hx {
#ifdef HX_SYM
typedef symx::sym scalar;
typedef symx::F F;
#else
typedef double scalar;
struct F { bool v; };
#endif

struct Args { std::string tier="quick", mode="explore", out, replay, only_case, case_prefix, dump_dir; long seed=1; int shard_i=0, shard_n=1; bool list=false; int solver_timeout_ms=20000; size_t dump_max=0; };
inline Args &args() { static Args a; return a; }
inline bool thorough() { return args().tier=="thorough"; }

struct State {
    std::map<std::string,std::string> replay_vals;    // var name -> "p/q"
    std::string current_case; size_t case_idx=0, cases_run=0; std::vector<std::string> case_names;
    std::vector<std::pair<std::string,double>> obs;   // concrete mode observations
    struct Fail { std::string casename, obligation, detail; }; std::vector<Fail> fails;   // dbl / concrete mode failures
    size_t dbl_obligations=0; double tol=1e-7; std::set<std::string> assumptions; std::vector<std::string> functions;
    std::chrono::steady_clock::time_point t0=std::chrono::steady_clock::now();
    std::map<std::string,size_t> counters;
};
inline State &st() { static State s; return s; }
inline bool concrete() { return args().mode!="explore"; }

inline double qtod(const std::string &q) { size_t s=q.find('/'); if (s==std::string::npos) return atof(q.c_str()); return atof(q.substr(0,s).c_str())/atof(q.substr(s+1).c_str()); }

// a symbolic input (explore mode), or its replay / hint value (concrete modes)
inline scalar var(const std::string &name, double hint=1.0) {
#ifdef HX_SYM
    if (!concrete()) return symx::sym::var(name,hint);
    auto it=st().replay_vals.find(name); if (it!=st().replay_vals.end()) return symx::sym::q(mpq_class(it->second));
    return symx::sym(hint);
#else
    auto it=st().replay_vals.find(name); if (it!=st().replay_vals.end()) return qtod(it->second);
    return hint;
#endif
}
inline double to_double(scalar x) {
#ifdef HX_SYM
    x=symx::sym::checked(x); return (double)symx::ctx().ev(x.nf);
#else
    return x;
#endif
}
inline void observe(const std::string &name, scalar x) { if (concrete()) st().obs.push_back({st().current_case+"/"+name, to_double(x)}); }

#ifdef HX_SYM
using symx::ne; using symx::eq; using symx::lt; using symx::le; using symx::all_of; using symx::any_of; using symx::implies;
inline F tt() { return F::tt(); }
inline void fail_concrete(const std::string &name, const std::string &detail) { st().fails.push_back({st().current_case,name,detail}); }
inline void prove(const std::string &name, const F &f) {
    if (concrete()) { st().dbl_obligations++; if (!symx::eval_f_tol(f, st().tol)) fail_concrete(name,"formula false at the replay point (exact-rational run of the real templates)"); return; }
    symx::s_prove(name,f); }
inline void prove_all(const std::string &name, const std::vector<F> &fs) {
    if (concrete()) { for (size_t i=0;i<fs.size();++i) prove(name+"["+std::to_string(i)+"]",fs[i]); return; }
    symx::s_prove_all(name,fs); }
inline void require(const std::string &name, bool ok, const std::string &detail="") {
    if (concrete()) { st().dbl_obligations++; if (!ok) fail_concrete(name,detail); return; }
    symx::s_require(name,ok,detail); if (symx::ctx().infeasible_now) throw symx::infeasible(); }
#else
inline F eq(scalar a, scalar b) { double sc=std::max(1.0,std::max(std::fabs(a),std::fabs(b))); return F{ std::fabs(a-b) <= st().tol*sc }; }
inline F ne(scalar a, scalar b) { return F{ a!=b }; }
inline F lt(scalar a, scalar b) { double sc=std::max(1.0,std::max(std::fabs(a),std::fabs(b))); return F{ a < b + st().tol*sc }; }
inline F le(scalar a, scalar b) { double sc=std::max(1.0,std::max(std::fabs(a),std::fabs(b))); return F{ a <= b + st().tol*sc }; }
inline F operator!(const F &a) { return F{!a.v}; }
inline F all_of(const std::vector<F> &v) { for (auto &f : v) if (!f.v) return F{false}; return F{true}; }
inline F any_of(const std::vector<F> &v) { for (auto &f : v) if (f.v) return F{true}; return F{false}; }
inline F operator&&(const F &a, const F &b) { return F{a.v&&b.v}; }
inline F operator||(const F &a, const F &b) { return F{a.v||b.v}; }
inline F implies(const F &a, const F &b) { return F{!a.v||b.v}; }
inline F tt() { return F{true}; }
inline void fail_concrete(const std::string &name, const std::string &detail) { st().fails.push_back({st().current_case,name,detail}); }
inline void prove(const std::string &name, const F &f) { st().dbl_obligations++; if (!f.v) fail_concrete(name,"formula false in the double build at the replay point"); }
inline void prove_all(const std::string &name, const std::vector<F> &fs) { for (size_t i=0;i<fs.size();++i) prove(name+"["+std::to_string(i)+"]",fs[i]); }
inline void require(const std::string &name, bool ok, const std::string &detail="") { st().dbl_obligations++; if (!ok) fail_concrete(name,detail); }
#endif
inline scalar sabs(scalar x) {
#ifdef HX_SYM
    return symx::abs(x);
#else
    return std::fabs(x);
#endif
}
struct outside_precondition {};
// stated precondition of a property: assumed on symbolic paths; a concrete point violating it is skipped
inline void assume(const F &f) {
#ifdef HX_SYM
    if (concrete()) { if (!symx::eval_f_tol(f,0)) throw outside_precondition(); return; }
    symx::s_assume(f);
#else
    if (!f.v) throw outside_precondition();
#endif
}
// cut points: while on, every division by a non-constant yields a fresh variable (its definition is remembered)
inline void cuts(bool on) {
#ifdef HX_SYM
    if (!concrete()) symx::ctx().havoc_div=on;
#endif
}
inline scalar unfold(scalar x) {
#ifdef HX_SYM
    if (!concrete()) return symx::unfold(x);
#endif
    return x; }
inline void validate(scalar x) {
#ifdef HX_SYM
    if (!concrete()) symx::validate_nf(x);
#endif
}
// under the stated precondition no division performed so far on this path has a zero divisor (breakdown would silently make the
// path "infeasible" for the other obligations).  Concrete modes: a breakdown shows up as a non-finite / failing result anyway.
inline void no_breakdown(const std::string &name, const F &pre) {
#ifdef HX_SYM
    if (!concrete()) symx::s_no_breakdown(name,pre);
#endif
}
inline void prove_eq(const std::string &name, scalar a, scalar b) { validate(a); validate(b); observe(name+".lhs",a); observe(name+".rhs",b); prove(name,eq(a,b)); }
template<class VA, class VB> inline void prove_eq_vec(const std::string &name, const VA &a, const VB &b) {
    if (a.size()!=b.size()) { require(name+" sizes", false, "size mismatch"); return; }
    std::vector<F> fs; for (size_t i=0;i<a.size();++i) { validate(a[i]); validate(b[i]); observe(name+"["+std::to_string(i)+"].lhs",a[i]); observe(name+"["+std::to_string(i)+"].rhs",b[i]); fs.push_back(eq(a[i],b[i])); } prove_all(name,fs); }

// the value is the constant zero (normal form; in the double build: compares equal to 0)
inline bool is_zero_value(scalar a) {
#ifdef HX_SYM
    return a.nf==scalar(0).nf;
#else
    return a==0;
#endif
}
// raw-handle identity: the two values were produced by the same operations on the same operands in the same order
// (implies bitwise equality at any IEEE type).  In the double build: bitwise equality.
inline bool same_handle(scalar a, scalar b) {
#ifdef HX_SYM
    if (concrete()) return a.nf==b.nf; return a.raw==b.raw;
#else
    return std::memcmp(&a,&b,sizeof a)==0 || (a!=a && b!=b);
#endif
}

struct CaseOptions { size_t max_paths=64, max_depth=60; bool check_reach=true; size_t max_undecided=2; double budget_s=40; };
// run one named case (subject to sharding / --case filter)
template<class Body> inline void run_case(const std::string &name, Body body, const CaseOptions &co=CaseOptions()) {
    State &s=st(); size_t idx=s.case_idx++;
    if (args().list) { std::cout<<name<<"\n"; return; }
    if (!args().case_prefix.empty() && name.compare(0,args().case_prefix.size(),args().case_prefix)!=0) return;   // development filter
    if (!args().only_case.empty()) { if (args().only_case!=name) return; }
    else if ((int)(idx % args().shard_n) != args().shard_i) return;
    s.current_case=name; s.cases_run++; if (s.case_names.size()<4) s.case_names.push_back(name);
    auto guarded=[&]() {
        try { body(); }
        catch (const std::bad_alloc &) {
#ifdef HX_SYM
            throw symx::blowup("harness memory budget (6 GB address space) exhausted");
#else
            throw;
#endif
        }
        catch (const outside_precondition &) { st().counters["concrete points outside the stated precondition (skipped)"]++; }
        catch (const std::exception &e) { require("no unexpected exception", false, std::string("uncaught std::exception: ")+e.what()); }
    };
#ifdef HX_SYM
    if (!concrete()) { symx::Report &r=symx::report(); size_t v0=r.violations.size(), i0=r.inconclusive.size();
        symx::Options o; o.max_paths=co.max_paths; o.max_depth=co.max_depth; o.check_reach=co.check_reach; o.max_undecided = thorough() ? co.max_undecided*2 : co.max_undecided; o.budget_s = thorough() ? co.budget_s*3 : co.budget_s;
        symx::explore(name,guarded,o);
        for (size_t i=v0;i<r.violations.size();++i) r.violations[i].casename=name;
        for (size_t i=i0;i<r.inconclusive.size();++i) r.inconclusive[i]=name+": "+r.inconclusive[i];
        return; }
    { symx::Ctx &c=symx::ctx(); c.reset_path(); c.prefix.clear(); c.work.clear(); c.concrete_mode=true; c.havocs.clear(); c.havoc_of_var.clear(); c.havoc_raw.clear(); c.nhavoc=0; c.havoc_div=false; c.stage=name;
      try { guarded(); } catch (const symx::engine_stop &e) { if (args().replay.empty()) st().counters["concrete validation points with exact breakdown (skipped): "+e.why]++; else fail_concrete("engine stop", e.why); } }
#else
    guarded();
#endif
}

// GMP aborts the process when an allocation fails; turn that into std::bad_alloc so that a case that exhausts the address-space budget is
// stopped and reported ("harness memory budget exhausted") instead of taking the whole shard down
inline void *gmp_alloc_throw(size_t n) { void *p=std::malloc(n); if (!p) throw std::bad_alloc(); return p; }
inline void *gmp_realloc_throw(void *q, size_t, size_t n) { void *p=std::realloc(q,n); if (!p) throw std::bad_alloc(); return p; }
inline void gmp_free_plain(void *p, size_t) { std::free(p); }
inline void parse_args(int argc, char **argv) { Args &a=args();
#ifdef HX_SYM
    mp_set_memory_functions(gmp_alloc_throw,gmp_realloc_throw,gmp_free_plain);
#endif
#ifndef __SANITIZE_ADDRESS__
    { struct rlimit rl; rl.rlim_cur=rl.rlim_max=(rlim_t)9<<30; setrlimit(RLIMIT_AS,&rl); }   // address space; the resident set is guarded at 3.5 GB in Ctx::poly
#endif
    for (int i=1;i<argc;++i) { std::string k=argv[i]; auto nxt=[&]() { if (i+1>=argc) { std::cerr<<"missing value for "<<k<<"\n"; exit(2); } return std::string(argv[++i]); };
        if (k=="--tier") a.tier=nxt(); else if (k=="--seed") a.seed=atol(nxt().c_str()); else if (k=="--shard") { std::string s=nxt(); a.shard_i=atoi(s.c_str()); a.shard_n=atoi(s.substr(s.find('/')+1).c_str()); }
        else if (k=="--mode") a.mode=nxt(); else if (k=="--out") a.out=nxt(); else if (k=="--case") a.only_case=nxt(); else if (k=="--case-prefix") a.case_prefix=nxt(); else if (k=="--list") a.list=true;
        else if (k=="--timeout-ms") a.solver_timeout_ms=atoi(nxt().c_str()); else if (k=="--dump") { a.dump_dir=nxt(); a.dump_max=40; }
        else if (k=="--replay") { a.replay=nxt(); a.mode="concrete"; std::ifstream f(a.replay); std::string w; while (f>>w) { if (w=="case") { f>>std::ws; std::getline(f,a.only_case); } else if (w=="var") { std::string n,v; f>>n>>v; st().replay_vals[n]=v; } } }
        else { std::cerr<<"unknown argument "<<k<<"\n"; exit(2); } }
#ifdef HX_SYM
    symx::solver().timeout_ms=a.solver_timeout_ms; symx::solver().dump_dir=a.dump_dir; symx::solver().dump_max=a.dump_max;
#endif
}

inline std::string jesc(const std::string &s) { std::string r; for (char ch : s) { if (ch=='"' || ch=='\\') { r+='\\'; r+=ch; } else if (ch=='\n') r+="\\n"; else if ((unsigned char)ch<32) r+=' '; else r+=ch; } return r; }
inline void assume_note(const std::string &s) { st().assumptions.insert(s); }
inline void encodes(const std::string &fn) { if (std::find(st().functions.begin(),st().functions.end(),fn)==st().functions.end()) st().functions.push_back(fn); }
inline void count(const std::string &k, size_t n=1) { st().counters[k]+=n; }

inline int finish() { State &s=st(); if (args().list) return 0; std::ostringstream o; o.precision(17);
    double wall=std::chrono::duration<double>(std::chrono::steady_clock::now()-s.t0).count();
    o<<"{\"mode\":\""<<args().mode<<"\",\"scalar\":\""<<
#ifdef HX_SYM
        "sym"
#else
        "double"
#endif
        <<"\",\"tier\":\""<<args().tier<<"\",\"seed\":"<<args().seed<<",\"shard\":\""<<args().shard_i<<"/"<<args().shard_n<<"\",\"cases_run\":"<<s.cases_run<<",\"cases_total\":"<<s.case_idx<<",\"wall_s\":"<<wall;
    o<<",\"case_names\":["; for (size_t i=0;i<s.case_names.size();++i) o<<(i?",":"")<<"\""<<jesc(s.case_names[i])<<"\""; o<<"]";
    o<<",\"functions\":["; for (size_t i=0;i<s.functions.size();++i) o<<(i?",":"")<<"\""<<jesc(s.functions[i])<<"\""; o<<"]";
    o<<",\"assumptions\":["; { bool f=true; for (auto &a : s.assumptions) { o<<(f?"":",")<<"\""<<jesc(a)<<"\""; f=false; } } o<<"]";
    o<<",\"counters\":{"; { bool f=true; for (auto &kv : s.counters) { o<<(f?"":",")<<"\""<<jesc(kv.first)<<"\":"<<kv.second; f=false; } } o<<"}";
    o<<",\"concrete_obligations\":"<<s.dbl_obligations;
    o<<",\"concrete_fails\":["; for (size_t i=0;i<s.fails.size();++i) o<<(i?",":"")<<"{\"case\":\""<<jesc(s.fails[i].casename)<<"\",\"obligation\":\""<<jesc(s.fails[i].obligation)<<"\",\"detail\":\""<<jesc(s.fails[i].detail)<<"\"}"; o<<"]";
    o<<",\"obs\":["; for (size_t i=0;i<s.obs.size();++i) { double v=s.obs[i].second; o<<(i?",":"")<<"[\""<<jesc(s.obs[i].first)<<"\","; if (v!=v || std::isinf(v)) o<<"null"; else o<<v; o<<"]"; } o<<"]";
#ifdef HX_SYM
    { symx::Report &r=symx::report(); symx::Ctx &c=symx::ctx();
      o<<",\"obligations\":"<<r.obligations<<",\"discharged\":"<<r.discharged<<",\"trivial\":"<<r.trivial<<",\"queries\":"<<r.queries<<",\"q_unsat\":"<<r.q_unsat<<",\"q_sat\":"<<r.q_sat<<",\"q_unknown\":"<<r.q_unknown
       <<",\"solver_errors\":"<<r.solver_errors<<",\"last_error\":\""<<jesc(r.last_error)<<"\",\"solver_s\":"<<symx::solver().total_s<<",\"paths\":"<<r.paths<<",\"paths_pruned\":"<<r.paths_pruned<<",\"paths_unexplored\":"<<r.paths_unexplored<<",\"paths_undecided_skipped\":"<<r.paths_undecided_skipped<<",\"paths_stopped\":"<<r.paths_stopped
       <<",\"reach_sat\":"<<r.reach_sat<<",\"reach_unsat\":"<<r.reach_unsat<<",\"reach_unknown\":"<<r.reach_unknown<<",\"witness_unknown\":"<<r.witness_unknown<<",\"witness_refuted\":"<<r.witness_refuted<<",\"forks\":"<<c.nforks_total<<",\"max_query_bytes\":"<<r.max_query_bytes
       <<",\"nf_checks\":"<<c.nf_checks<<",\"nf_mismatch\":"<<c.nf_mismatch<<",\"nf_skipped\":"<<c.nf_skipped<<",\"terms\":{\"raw\":"<<(c.terms_total_raw+c.rn.size())<<",\"vals\":"<<(c.terms_total_vals+c.vals.size())<<",\"polys\":"<<c.polys.size()<<",\"atoms\":"<<c.atoms.size()<<"}";
      o<<",\"stops\":{"; { bool f=true; for (auto &kv : r.stops) { o<<(f?"":",")<<"\""<<jesc(kv.first)<<"\":"<<kv.second; f=false; } } o<<"}";
      o<<",\"unexplored_cases\":["; { bool f=true; for (auto &a : r.unexplored_cases) { o<<(f?"":",")<<"\""<<jesc(a)<<"\""; f=false; } } o<<"]";
      o<<",\"samples\":["; for (size_t i=0;i<r.samples.size();++i) o<<(i?",":"")<<"\""<<jesc(r.samples[i])<<"\""; o<<"]";
      o<<",\"inconclusive\":["; for (size_t i=0;i<r.inconclusive.size();++i) o<<(i?",":"")<<"\""<<jesc(r.inconclusive[i])<<"\""; o<<"]";
      o<<",\"events\":["; for (size_t i=0;i<c.events.size() && i<50;++i) o<<(i?",":"")<<"{\"kind\":\""<<jesc(c.events[i].kind)<<"\",\"stage\":\""<<jesc(c.events[i].stage)<<"\"}"; o<<"],\"n_events\":"<<c.events.size();
      o<<",\"violations\":["; for (size_t i=0;i<r.violations.size();++i) { auto &v=r.violations[i]; o<<(i?",":"")<<"{\"case\":\""<<jesc(v.casename)<<"\",\"obligation\":\""<<jesc(v.obligation)<<"\",\"detail\":\""<<jesc(v.detail)<<"\",\"have_model\":"<<(v.have_model?"true":"false")<<",\"prefix\":\""; for (bool b : v.prefix) o<<(b?'1':'0'); o<<"\",\"model\":{"; bool f=true; for (auto &kv : v.model) { o<<(f?"":",")<<"\""<<jesc(kv.first)<<"\":\""<<jesc(kv.second)<<"\""; f=false; } o<<"}}"; } o<<"]"; }
#endif
    o<<"}\n";
    if (args().out.empty()) std::cout<<o.str(); else { std::ofstream f(args().out); f<<o.str(); }
    return 0; }

// ------------------------------------------------------------------ small deterministic RNG for seeded case generation
struct Rng { uint64_t s; explicit Rng(uint64_t seed) : s(seed*0x9E3779B97F4A7C15ull+0x1234567) {} uint64_t next() { s^=s<<13; s^=s>>7; s^=s<<17; return s; } int below(int n) { return (int)(next()%(uint64_t)n); } double dyadic(int lo, int hi, int den=8) { return lo + (double)below((hi-lo)*den+1)/den; } };

// ------------------------------------------------------------------ CRS test matrices
struct Pattern { int n, m; std::vector<ptrdiff_t> ptr, col; std::string name;
    size_t nnz() const { return col.size(); }
    bool has(int i, int j) const { for (ptrdiff_t k=ptr[i];k<ptr[i+1];++k) if (col[k]==j) return true; return false; } };
inline Pattern dense_pattern(int n, int m) { Pattern p; p.n=n; p.m=m; p.ptr.push_back(0); for (int i=0;i<n;++i) { for (int j=0;j<m;++j) p.col.push_back(j); p.ptr.push_back(p.col.size()); } p.name="dense"+std::to_string(n)+"x"+std::to_string(m); return p; }
inline Pattern band_pattern(int n, int bw) { Pattern p; p.n=p.m=n; p.ptr.push_back(0); for (int i=0;i<n;++i) { for (int j=0;j<n;++j) if (std::abs(i-j)<=bw) p.col.push_back(j); p.ptr.push_back(p.col.size()); } p.name="band"+std::to_string(n)+"w"+std::to_string(bw); return p; }
inline Pattern grid_pattern(int mx, int my) { Pattern p; p.n=p.m=mx*my; p.ptr.push_back(0); for (int j=0;j<my;++j) for (int i=0;i<mx;++i) { int k=j*mx+i; if (j>0) p.col.push_back(k-mx); if (i>0) p.col.push_back(k-1); p.col.push_back(k); if (i<mx-1) p.col.push_back(k+1); if (j<my-1) p.col.push_back(k+mx); p.ptr.push_back(p.col.size()); } p.name="grid"+std::to_string(mx)+"x"+std::to_string(my); return p; }
inline Pattern arrow_pattern(int n) { Pattern p; p.n=p.m=n; p.ptr.push_back(0); for (int i=0;i<n;++i) { for (int j=0;j<n;++j) if (i==j || i==n-1 || j==n-1) p.col.push_back(j); p.ptr.push_back(p.col.size()); } p.name="arrow"+std::to_string(n); return p; }
// pattern from a bit mask over the n*m positions (row major); diag forces the diagonal in
inline Pattern mask_pattern(int n, int m, uint64_t mask, bool diag) { Pattern p; p.n=n; p.m=m; p.ptr.push_back(0); for (int i=0;i<n;++i) { for (int j=0;j<m;++j) if (((mask>>(i*m+j))&1) || (diag && i==j)) p.col.push_back(j); p.ptr.push_back(p.col.size()); } std::ostringstream s; s<<"mask"<<n<<"x"<<m<<"_"<<std::hex<<mask<<(diag?"d":""); p.name=s.str(); return p; }
// symmetric pattern from a mask over the strict upper triangle
inline Pattern sym_mask_pattern(int n, uint64_t mask) { std::vector<std::vector<int>> a(n,std::vector<int>(n,0)); int b=0; for (int i=0;i<n;++i) { a[i][i]=1; for (int j=i+1;j<n;++j,++b) if ((mask>>b)&1) a[i][j]=a[j][i]=1; }
    Pattern p; p.n=p.m=n; p.ptr.push_back(0); for (int i=0;i<n;++i) { for (int j=0;j<n;++j) if (a[i][j]) p.col.push_back(j); p.ptr.push_back(p.col.size()); } std::ostringstream s; s<<"symmask"<<n<<"_"<<std::hex<<mask; p.name=s.str(); return p; }
inline bool connected(const Pattern &p) { if (p.n==0) return true; std::vector<int> seen(p.n,0), stk{0}; seen[0]=1; int cnt=1; while (!stk.empty()) { int i=stk.back(); stk.pop_back(); for (int j=0;j<p.n;++j) if (!seen[j] && (p.has(i,j) || p.has(j,i))) { seen[j]=1; cnt++; stk.push_back(j); } } return cnt==p.n; }
inline Pattern random_pattern(int n, int m, Rng &r, int extra_per_row, bool diag) { Pattern p; p.n=n; p.m=m; p.ptr.push_back(0); for (int i=0;i<n;++i) { std::set<int> cs; if (diag && i<m) cs.insert(i); for (int k=0;k<extra_per_row;++k) cs.insert(r.below(m)); for (int c : cs) p.col.push_back(c); p.ptr.push_back(p.col.size()); } p.name="rand"+std::to_string(n)+"x"+std::to_string(m)+"_"+std::to_string(r.next()%100000); return p; }
inline Pattern random_sym_pattern(int n, Rng &r, int extra) { std::vector<std::set<int>> rows(n); for (int i=0;i<n;++i) { rows[i].insert(i); if (i>0) { int j=r.below(i); rows[i].insert(j); rows[j].insert(i); } } for (int k=0;k<extra;++k) { int i=r.below(n), j=r.below(n); rows[i].insert(j); rows[j].insert(i); }
    Pattern p; p.n=p.m=n; p.ptr.push_back(0); for (int i=0;i<n;++i) { for (int c : rows[i]) p.col.push_back(c); p.ptr.push_back(p.col.size()); } p.name="randsym"+std::to_string(n)+"_"+std::to_string(r.next()%100000); return p; }

template<class T> struct Crs { int n, m; std::vector<ptrdiff_t> ptr, col; std::vector<T> val;
    T at(int i, int j) const { T s=T(0); bool first=true; for (ptrdiff_t k=ptr[i];k<ptr[i+1];++k) if (col[k]==j) { s = first ? val[k] : s+val[k]; first=false; } return s; }
    std::vector<std::vector<T>> dense() const { std::vector<std::vector<T>> d(n,std::vector<T>(m,T(0))); for (int i=0;i<n;++i) for (ptrdiff_t k=ptr[i];k<ptr[i+1];++k) d[i][col[k]]=d[i][col[k]]+val[k]; return d; } };
typedef Crs<scalar> SCrs;
// fully symbolic values on a pattern; hints make the default witness a diagonally dominant M-matrix
inline SCrs symbolic_matrix(const Pattern &p, const std::string &pre="a", bool mhint=true) { SCrs A; A.n=p.n; A.m=p.m; A.ptr=p.ptr; A.col=p.col;
    for (int i=0;i<p.n;++i) for (ptrdiff_t k=p.ptr[i];k<p.ptr[i+1];++k) { int j=p.col[k]; double h = !mhint ? 0.5+0.125*((i*7+j*3)%9) : (i==j ? 4.0+0.25*(i%3) + (double)(p.ptr[i+1]-p.ptr[i]) : -1.0-0.125*((i+2*j)%4)); A.val.push_back(var(pre+"_"+std::to_string(i)+"_"+std::to_string(j),h)); } return A; }
// concrete dyadic SPD M-matrix (weakly diagonally dominant + positive shift) on a symmetric pattern
inline SCrs mmatrix(const Pattern &p, Rng &r, double shift=0.5) { SCrs A; A.n=p.n; A.m=p.m; A.ptr=p.ptr; A.col=p.col; A.val.assign(p.col.size(),scalar(0)); std::vector<std::vector<double>> w(p.n,std::vector<double>(p.n,0));
    for (int i=0;i<p.n;++i) for (ptrdiff_t k=p.ptr[i];k<p.ptr[i+1];++k) { int j=p.col[k]; if (j>i) { double v=-(1+r.below(8))/4.0; w[i][j]=w[j][i]=v; } }
    for (int i=0;i<p.n;++i) { double d=shift; for (int j=0;j<p.n;++j) if (j!=i) d-=w[i][j]; w[i][i]=d; }
    for (int i=0;i<p.n;++i) for (ptrdiff_t k=p.ptr[i];k<p.ptr[i+1];++k) A.val[k]=scalar(w[i][p.col[k]]); return A; }
// concrete dyadic nonsymmetric diagonally dominant matrix (convection-diffusion like)
inline SCrs ddmatrix(const Pattern &p, Rng &r) { SCrs A; A.n=p.n; A.m=p.m; A.ptr=p.ptr; A.col=p.col; A.val.assign(p.col.size(),scalar(0));
    for (int i=0;i<p.n;++i) { double s=0; ptrdiff_t dk=-1; std::vector<double> v(p.ptr[i+1]-p.ptr[i]); for (ptrdiff_t k=p.ptr[i];k<p.ptr[i+1];++k) { if (p.col[k]==i) { dk=k; continue; } double x=-(1+r.below(12))/8.0; if (r.below(5)==0) x=-x/2; v[k-p.ptr[i]]=x; s+=std::fabs(x); }
        for (ptrdiff_t k=p.ptr[i];k<p.ptr[i+1];++k) A.val[k]=scalar(k==dk ? s+0.5+r.below(4)/4.0 : v[k-p.ptr[i]]); } return A; }
template<class T> inline std::vector<T> dense_mv(const Crs<T> &A, const std::vector<T> &x) { std::vector<T> y(A.n,T(0)); for (int i=0;i<A.n;++i) { T s=T(0); for (ptrdiff_t k=A.ptr[i];k<A.ptr[i+1];++k) s=s+A.val[k]*x[A.col[k]]; y[i]=s; } return y; }
inline std::vector<scalar> sym_vector(const std::string &pre, int n, double h0=1.0) { std::vector<scalar> v; for (int i=0;i<n;++i) v.push_back(var(pre+std::to_string(i), h0+0.25*((i*5)%7)-0.5*(i%2))); return v; }
template<class V> inline std::vector<scalar> to_vec(const V &v) { std::vector<scalar> r; for (size_t i=0;i<(size_t)v.size();++i) r.push_back(v[i]); return r; }
} // namespace hx
