// glue between hx/symx and amgcl: trait specialisations a user of a custom value type would write
#pragma once
#include "hx.hpp"
#include <amgcl/backend/builtin.hpp>
#include <amgcl/value_type/static_matrix.hpp>
#include <amgcl/adapter/crs_tuple.hpp>
#include <memory>

#ifdef HX_SYM
namespace amgcl { namespace backend {
template<> struct is_builtin_vector< std::vector<symx::sym> > : std::true_type {};
} }
#endif

namespace hx {
template<class T> using ACrs = amgcl::backend::crs<T, ptrdiff_t, ptrdiff_t>;
// amgcl matrix from a harness matrix
template<class T> inline std::shared_ptr<ACrs<T>> to_amgcl(const Crs<T> &A) { return std::make_shared<ACrs<T>>((size_t)A.n, (size_t)A.m, A.ptr, A.col, A.val); }
template<class T> inline Crs<T> from_amgcl(const ACrs<T> &A) { Crs<T> B; B.n=A.nrows; B.m=A.ncols; B.ptr.assign(A.ptr, A.ptr+A.nrows+1); B.col.assign(A.col, A.col+A.ptr[A.nrows]); B.val.assign(A.val, A.val+A.ptr[A.nrows]); return B; }
template<class T> inline amgcl::backend::numa_vector<T> to_numa(const std::vector<T> &v) { amgcl::backend::numa_vector<T> r(v.size(), false); for (size_t i=0;i<v.size();++i) r[i]=v[i]; return r; }

#ifdef HX_SYM
// set of input variable names the raw operation DAG of x depends on
inline void raw_support(symx::id_t r, std::set<symx::id_t> &seen, std::set<std::string> &vars) { symx::Ctx &c=symx::ctx(); if (r==symx::POISON || r>=c.rn.size()) { vars.insert("<poison>"); return; } if (!seen.insert(r).second) return; const symx::RNode x=c.rn[r];
    switch (x.op) { case symx::R_CONST: return; case symx::R_VAR: case symx::R_POISON: vars.insert(c.vars[x.a]); return; case symx::R_SQRT: case symx::R_ABS: raw_support(x.a,seen,vars); return; default: raw_support(x.a,seen,vars); raw_support(x.b,seen,vars); } }
#endif
// "x was computed without ever using any of the inputs whose names start with prefix" (raw operation log);
// in the double build: x is finite although those inputs were NaN.
inline bool independent_of(scalar x, const std::string &prefix) {
#ifdef HX_SYM
    std::set<symx::id_t> seen; std::set<std::string> vars; raw_support(x.raw,seen,vars); for (auto &v : vars) if (v.compare(0,prefix.size(),prefix)==0 || v=="<poison>") return false; return true;
#else
    (void)prefix; return x==x;
#endif
}
// an "old content" value for outputs that must be overwritten: a named symbolic input in the sym build, NaN in the double build
inline scalar junk(const std::string &name) {
#ifdef HX_SYM
    if (concrete()) return symx::sym::var("junk_"+name, 1e9); return symx::sym::var("junk_"+name, 1e9);
#else
    (void)name; return std::nan("");
#endif
}
// does the current path condition force a == b ?  (solver query; concrete modes: numeric)
inline bool path_forces_eq(scalar a, scalar b) {
#ifdef HX_SYM
    if (concrete()) return symx::eval_rel_tol(symx::EQ,a.nf,b.nf,0);
    symx::Emit e; std::vector<std::string> as; as.push_back("(not "+symx::smt_rel(symx::EQ,a.nf,b.nf,e)+")"); auto q=symx::run_query(as,e,false); return q.verdict=="unsat";
#else
    return a==b;
#endif
}
}
