// stand-in for <omp.h> used by harness translation units that are compiled WITHOUT -fopenmp but with -D_OPENMP:
// the library's "#pragma omp parallel" regions then execute once, for the thread id the harness selects.
#pragma once
extern "C" { extern int hx_omp_threads, hx_omp_tid; }
static inline int omp_get_max_threads() { return hx_omp_threads; }
static inline int omp_get_num_threads() { return hx_omp_threads; }
static inline int omp_get_thread_num() { return hx_omp_tid; }
static inline int omp_in_parallel() { return 0; }
static inline void omp_set_num_threads(int) {}
static inline double omp_get_wtime() { return 0; }
