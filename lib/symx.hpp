// symx: a symbolic scalar type.  The real amgcl templates are instantiated at
// symx::sym; every arithmetic operation is recorded twice:
//   * raw operation log  (hash-consed DAG of exactly the operations performed)
//   * factored-sum normal form  num/den  (num: sparse polynomial over Q in
//     atoms, den: monomial in atoms), used for SMT emission.
// Comparisons yield symbool; converting a symbool to bool is a fork point that
// is explored by decision-prefix replay with solver-decided feasibility.
#pragma once
#include <gmpxx.h>
#include <cstdint>
#include <cmath>
#include <cstring>
#include <vector>
#include <deque>
#include <map>
#include <set>
#include <unordered_map>
#include <string>
#include <sstream>
#include <iostream>
#include <fstream>
#include <limits>
#include <tuple>
#include <algorithm>
#include <stdexcept>
#include <type_traits>
#include <random>
#include <functional>
#include <complex>
#include <chrono>
#include <unistd.h>
#include <signal.h>
#include <poll.h>
#include <sys/wait.h>

namespace symx {
typedef uint32_t id_t;
static const id_t POISON = 0xAAAAAAAAu;

// control-flow exceptions of the engine: deliberately NOT derived from
// std::exception so that code under test cannot swallow them by accident.
struct engine_stop { std::string why; };
struct blowup      : engine_stop { blowup(const std::string &w) : engine_stop{w} {} };
struct div_by_zero : engine_stop { div_by_zero() : engine_stop{"division by constant zero"} {} };
struct too_deep    : engine_stop { too_deep() : engine_stop{"fork depth bound"} {} };
struct nonconst_conversion : engine_stop { nonconst_conversion() : engine_stop{"symbolic value converted to builtin number"} {} };

typedef std::vector<std::pair<id_t,int>> MonoV;        // (atom, exp>0) sorted by atom
typedef std::vector<std::pair<id_t,mpq_class>> PolyV;  // (mono, coeff!=0) sorted by mono

struct Atom { enum K {VAR, SUM, SQRT, ABS} k; id_t arg; bool nonneg; };
enum ROp : uint8_t { R_CONST, R_VAR, R_ADD, R_SUB, R_MUL, R_DIV, R_SQRT, R_ABS, R_POISON };
struct RNode { ROp op; id_t a, b; };
struct RKey { uint64_t k1; uint32_t k2; bool operator==(const RKey&o) const { return k1==o.k1 && k2==o.k2; } };
struct RKeyH { size_t operator()(const RKey&k) const { return std::hash<uint64_t>()(k.k1 * 0x9E3779B97F4A7C15ull ^ k.k2); } };

enum Cmp { EQ=0, LT=1, LE=2 };
struct Cond { int cmp; id_t a, b; bool truth; };      // over nf value ids

// rational reconstruction of a double literal: smallest-denominator p/q that
// converts back to exactly the same double (q <= 10^6), else the exact dyadic.
inline mpq_class literal(double v) {
    if (v != v || std::isinf(v)) throw engine_stop{"non-finite literal"};
    double av = std::fabs(v), x = av; long p0=0,q0=1,p1=1,q1=0;
    for (int it=0; it<40; ++it) {
        double fl = std::floor(x); if (fl > 1e15) break; long a=(long)fl;
        long p2=a*p1+p0, q2=a*q1+q0; if (q2 > 1000000 || q2 <= 0) break;
        p0=p1;q0=q1;p1=p2;q1=q2;
        if ((double)p1/(double)q1 == av) { mpq_class r(p1,q1); r.canonicalize(); return v<0 ? mpq_class(-r) : r; }
        double fr = x-fl; if (fr == 0) break; x = 1.0/fr;
    }
    return mpq_class(v);
}

struct Ctx {
    // ------------------------------------------------------------- variables
    std::vector<std::string> vars; std::map<std::string,id_t> var_ix; std::vector<double> var_hint;
    // ------------------------------------------------------------- raw log
    std::deque<RNode> rn; std::unordered_map<RKey,id_t,RKeyH> rn_hc; std::vector<mpq_class> rconsts; std::map<std::string,id_t> rconst_ix;
    id_t rnode(ROp op, id_t a, id_t b) { RKey k{ (uint64_t(a)<<32)|b, (uint32_t)op }; auto it=rn_hc.find(k); if (it!=rn_hc.end()) return it->second; rn.push_back({op,a,b}); id_t r=rn.size()-1; rn_hc.emplace(k,r); return r; }
    id_t rconst(const mpq_class &c) { std::string s=c.get_str(); auto it=rconst_ix.find(s); id_t ci; if (it==rconst_ix.end()) { rconsts.push_back(c); ci=rconsts.size()-1; rconst_ix[s]=ci; } else ci=it->second; return rnode(R_CONST,ci,0); }
    // ------------------------------------------------------------- normal form
    std::deque<Atom> atoms; std::map<std::pair<int,id_t>,id_t> atom_hc;
    std::deque<MonoV> monos; std::map<MonoV,id_t> mono_hc;
    std::deque<PolyV> polys; std::map<std::vector<std::pair<id_t,std::string>>,id_t> poly_hc;
    struct Val { id_t n, d; }; std::deque<Val> vals; std::map<std::pair<id_t,id_t>,id_t> val_hc;
    size_t expand_limit = 6000;      // product of two sums is expanded only below this many term pairs
    size_t max_poly_terms = 20000;  // guard against term explosion
    id_t mono1, poly0, poly1;
    Ctx() {
        mono1 = mono(MonoV{}); poly0 = poly(PolyV{}); poly1 = poly(PolyV{{mono1,mpq_class(1)}});
        id_t z = val(poly0, mono1); (void)z;            // value id 0 == constant 0 (value-initialised sym)
        id_t rz = rconst(mpq_class(0)); (void)rz;       // raw id 0  == constant 0
        vconst(mpq_class(1)); rconst(mpq_class(1));     // 0 and 1 keep fixed ids: the library keeps them in function-local statics (`static const coef_type one, zero`) across cases
    }
    // forget every term of the previous case (handles of 0 and 1 stay valid, see the constructor); counters and the path epoch carry over
    size_t terms_total_raw=0, terms_total_vals=0, terms_total_polys=0, terms_total_atoms=0;
    void reset_store();
    id_t mono(const MonoV &m) { auto it=mono_hc.find(m); if (it!=mono_hc.end()) return it->second; monos.push_back(m); return mono_hc[m]=monos.size()-1; }
    size_t poly_calls=0, max_coef_bits=2000000;
    static size_t rss_bytes() { FILE *f=fopen("/proc/self/statm","r"); if (!f) return 0; long a=0,b=0; if (fscanf(f,"%ld %ld",&a,&b)!=2) b=0; fclose(f); return (size_t)b*4096; }
    id_t poly(const PolyV &p) {
        if (p.size() > max_poly_terms) throw blowup("polynomial with " + std::to_string(p.size()) + " terms");
        // memory guard: the process has a 9 GB address-space limit and GMP cannot recover from a failed allocation; stop the path well before that
        if ((++poly_calls & 0xfff) == 0 && rss_bytes() > (size_t)3500 << 20) throw blowup("harness memory budget (3.5 GB resident) reached");
        // size guard (deterministic): exact rationals whose numerator or denominator passes 2 million bits are beyond any solver query; stop the path
        if (!p.empty() && (mpz_sizeinbase(p.back().second.get_num_mpz_t(),2) > max_coef_bits || mpz_sizeinbase(p.back().second.get_den_mpz_t(),2) > max_coef_bits)) throw blowup("rational coefficient with more than " + std::to_string(max_coef_bits) + " bits");
        std::vector<std::pair<id_t,std::string>> key; key.reserve(p.size()); for (auto &t : p) key.push_back({t.first, t.second.get_str(62)});
        auto it=poly_hc.find(key); if (it!=poly_hc.end()) return it->second; polys.push_back(p); return poly_hc[key]=polys.size()-1; }
    id_t val(id_t n, id_t d) { auto k=std::make_pair(n,d); auto it=val_hc.find(k); if (it!=val_hc.end()) return it->second; vals.push_back({n,d}); return val_hc[k]=vals.size()-1; }
    id_t var(const std::string &n, double hint) { auto it=var_ix.find(n); if (it!=var_ix.end()) return it->second; vars.push_back(n); var_hint.push_back(hint); return var_ix[n]=vars.size()-1; }
    id_t atom(Atom::K k, id_t arg, bool nn) { auto key=std::make_pair((int)k,arg); auto it=atom_hc.find(key); if (it!=atom_hc.end()) { if (nn) atoms[it->second].nonneg=true; return it->second; } atoms.push_back({k,arg,nn}); return atom_hc[key]=atoms.size()-1; }
    // ---- polynomial helpers
    bool is_const(id_t p, mpq_class &c) const { const PolyV &v=polys[p]; if (v.empty()) { c=0; return true; } if (v.size()==1 && v[0].first==mono1) { c=v[0].second; return true; } return false; }
    id_t pconst(const mpq_class &c) { if (c==0) return poly0; return poly(PolyV{{mono1,c}}); }
    id_t padd(id_t a, id_t b, int sgn=1) { const PolyV &x=polys[a], &y=polys[b]; PolyV r; r.reserve(x.size()+y.size()); size_t i=0,j=0;
        while (i<x.size() || j<y.size()) {
            if (j==y.size() || (i<x.size() && x[i].first<y[j].first)) r.push_back(x[i++]);
            else if (i==x.size() || y[j].first<x[i].first) { r.push_back({y[j].first, sgn>0 ? y[j].second : mpq_class(-y[j].second)}); j++; }
            else { mpq_class c=x[i].second; if (sgn>0) c+=y[j].second; else c-=y[j].second; if (c!=0) r.push_back({x[i].first,c}); i++; j++; } }
        return poly(r); }
    id_t pscale(id_t a, const mpq_class &c) { if (c==0) return poly0; if (c==1) return a; PolyV r=polys[a]; for (auto &t : r) t.second*=c; return poly(r); }
    // mono*mono with sqrt folding: returns mono and the radicand polys to multiply in
    id_t mmul(id_t a, id_t b, std::vector<id_t> *rad) { const MonoV &x=monos[a], &y=monos[b]; MonoV r; size_t i=0,j=0;
        while (i<x.size() || j<y.size()) { std::pair<id_t,int> t;
            if (j==y.size() || (i<x.size() && x[i].first<y[j].first)) t=x[i++]; else if (i==x.size() || y[j].first<x[i].first) t=y[j++]; else { t={x[i].first, x[i].second+y[j].second}; i++; j++; }
            if (atoms[t.first].k==Atom::SQRT && t.second>=2 && rad) { for (int k=0;k<t.second/2;++k) rad->push_back(atoms[t.first].arg); t.second%=2; }
            if (atoms[t.first].k==Atom::ABS && t.second>=2 && rad) { for (int k=0;k<t.second/2;++k) { rad->push_back(atoms[t.first].arg); rad->push_back(atoms[t.first].arg); } t.second%=2; }
            if (t.second) r.push_back(t); }
        return mono(r); }
    id_t pmul_mono(id_t p, id_t m, const mpq_class &c) { if (m==mono1) return pscale(p,c); const PolyV x=polys[p]; id_t acc=poly0;
        std::map<id_t,mpq_class> simple;
        for (auto &t : x) { std::vector<id_t> rad; id_t mm=mmul(t.first,m,&rad); mpq_class cc=t.second*c;
            if (rad.empty()) simple[mm]+=cc; else { id_t q=poly(PolyV{{mm,cc}}); for (id_t r : rad) q=pmul(q,r); acc=padd(acc,q); } }
        PolyV r; for (auto &kv : simple) if (kv.second!=0) r.push_back(kv); return padd(acc,poly(r)); }
    id_t sumatom_mono(id_t p) { bool nn=poly_nonneg(p); id_t a=atom(Atom::SUM,p,nn); return mono(MonoV{{a,1}}); }
    id_t pmul(id_t a, id_t b) { const PolyV x=polys[a], y=polys[b]; if (x.empty() || y.empty()) return poly0;
        if (x.size()==1) return pmul_mono(b,x[0].first,x[0].second); if (y.size()==1) return pmul_mono(a,y[0].first,y[0].second);
        if (x.size()*y.size() <= expand_limit) { id_t acc=poly0; for (auto &t : x) acc=padd(acc,pmul_mono(b,t.first,t.second)); return acc; }
        id_t m=mmul(sumatom_mono(a),sumatom_mono(b),nullptr); return poly(PolyV{{m,mpq_class(1)}}); }
    bool mono_nonneg(id_t m) { for (auto &t : monos[m]) if ((t.second&1) && !atoms[t.first].nonneg) return false; return true; }
    bool poly_nonneg(id_t p) { for (auto &t : polys[p]) if (t.second<0 || !mono_nonneg(t.first)) return false; return true; }
    // cancel the monomial gcd of all monomials of n with d
    void reduce(id_t &n, id_t &d) { if (d==mono1) return; const PolyV &x=polys[n]; if (x.empty()) { d=mono1; return; }
        MonoV g=monos[d];
        for (auto &t : x) { const MonoV &m=monos[t.first]; MonoV ng; size_t i=0,j=0;
            while (i<g.size() && j<m.size()) { if (g[i].first<m[j].first) i++; else if (m[j].first<g[i].first) j++; else { ng.push_back({g[i].first, std::min(g[i].second,m[j].second)}); i++; j++; } }
            g=ng; if (g.empty()) return; }
        auto divm=[&](const MonoV &m) { MonoV r; size_t j=0; for (auto &t : m) { while (j<g.size() && g[j].first<t.first) j++; int e=t.second; if (j<g.size() && g[j].first==t.first) e-=g[j].second; if (e) r.push_back({t.first,e}); } return mono(r); };
        PolyV r; for (auto &t : x) r.push_back({divm(monos[t.first]), t.second});
        std::sort(r.begin(), r.end(), [](const std::pair<id_t,mpq_class> &a, const std::pair<id_t,mpq_class> &b) { return a.first<b.first; });
        MonoV dd=monos[d]; n=poly(r); d=divm(dd); }
    id_t mkval(id_t n, id_t d) { // fold sqrt^2 / abs^2 in the denominator
        std::vector<id_t> rad; id_t d2=mmul(d,mono1,&rad);
        for (id_t r : rad) { const PolyV pr=polys[r]; if (pr.size()==1) { d2=mmul(d2,pr[0].first,nullptr); n=pscale(n,mpq_class(1)/pr[0].second); } else d2=mmul(d2,sumatom_mono(r),nullptr); }
        if (!rad.empty()) { std::vector<id_t> rad2; id_t d3=mmul(d2,mono1,&rad2); if (!rad2.empty()) return mkval(n,d2); d2=d3; }
        reduce(n,d2); return val(n,d2); }
    id_t mlcm(id_t a, id_t b, id_t &fa, id_t &fb) { const MonoV &x=monos[a], &y=monos[b]; MonoV l,ra,rb; size_t i=0,j=0;
        while (i<x.size() || j<y.size()) {
            if (j==y.size() || (i<x.size() && x[i].first<y[j].first)) { l.push_back(x[i]); rb.push_back(x[i]); i++; }
            else if (i==x.size() || y[j].first<x[i].first) { l.push_back(y[j]); ra.push_back(y[j]); j++; }
            else { int e=std::max(x[i].second,y[j].second); l.push_back({x[i].first,e}); if (e>x[i].second) ra.push_back({x[i].first,e-x[i].second}); if (e>y[j].second) rb.push_back({x[i].first,e-y[j].second}); i++; j++; } }
        fa=mono(ra); fb=mono(rb); return mono(l); }
    // semantic facts about values, valid for the value whatever its representation: non-negative by construction, and a
    // sum-of-squares decomposition (value = sum v_i^2) used to strengthen "value <= 0" facts into v_i = 0
    std::set<id_t> nn_vals; std::map<id_t,std::vector<id_t>> sos;
    bool is_nn(id_t v) { mpq_class k; if (nn_vals.count(v)) return true; if (vis_const(v,k)) return k>=0; return poly_nonneg(vals[v].n) && mono_nonneg(vals[v].d); }
    id_t vadd_raw(id_t a, id_t b, int sgn) { Val x=vals[a], y=vals[b]; if (x.d==y.d) return mkval(padd(x.n,y.n,sgn), x.d);
        id_t fa,fb; id_t L=mlcm(x.d,y.d,fa,fb); id_t n=padd(pmul_mono(x.n,fa,1), pmul_mono(y.n,fb,1), sgn); return mkval(n,L); }
    id_t vadd(id_t a, id_t b, int sgn) { id_t r=vadd_raw(a,b,sgn);
        if (sgn>0 && r!=a && r!=b && is_nn(a) && is_nn(b)) { nn_vals.insert(r); auto ia=sos.find(a), ib=sos.find(b); mpq_class k;
            bool za=vis_const(a,k)&&k==0, zb=vis_const(b,k)&&k==0;
            if ((ia!=sos.end()||za) && (ib!=sos.end()||zb) && !sos.count(r)) { std::vector<id_t> v; if (ia!=sos.end()) v=ia->second; if (ib!=sos.end()) v.insert(v.end(),ib->second.begin(),ib->second.end()); if (v.size()<=64) sos[r]=v; } }
        return r; }
    // if polynomial p is the definition of an opaque SUM atom that occurs in monomial d, cancel one power of it
    bool cancel_sum(id_t p, id_t &d) { if (d==mono1 || polys[p].size()<2) return false; auto it=atom_hc.find(std::make_pair((int)Atom::SUM,p)); if (it==atom_hc.end()) return false; id_t at=it->second; MonoV m=monos[d]; for (size_t i=0;i<m.size();++i) if (m[i].first==at) { if (--m[i].second==0) m.erase(m.begin()+i); d=mono(m); return true; } return false; }
    id_t vmul(id_t a, id_t b) { Val x=vals[a], y=vals[b];
        id_t r;
        if (cancel_sum(y.n,x.d)) r=mkval(x.n, mmul(x.d,y.d,nullptr));       // (n/(S d)) * (S/e)  with S the sum atom of y.n
        else if (cancel_sum(x.n,y.d)) r=mkval(y.n, mmul(x.d,y.d,nullptr));
        else r=mkval(pmul(x.n,y.n), mmul(x.d,y.d,nullptr));
        if (a==b) { nn_vals.insert(r); if (!sos.count(r)) sos[r]=std::vector<id_t>{a}; } else if (is_nn(a) && is_nn(b)) nn_vals.insert(r);
        return r; }
    // ---- cut points
    bool havoc_div=false; int nhavoc=0; struct Havoc { id_t var_val, a, b; }; std::vector<Havoc> havocs;
    std::vector<id_t> nz;      // nf value ids assumed non-zero on this path (every non-constant divisor)
    std::set<id_t> nz_set;
    void assume_nz(id_t v);
    id_t vdiv(id_t a, id_t b) { mpq_class cb;
        if (vis_const(b,cb)) { if (cb==0) throw div_by_zero(); Val x=vals[a]; return mkval(pscale(x.n, mpq_class(1)/cb), x.d); }
        assume_nz(b);
        if (havoc_div) { nhavoc++; std::string hn="h!"+std::to_string(a)+"_"+std::to_string(b); /* keyed by the operands: identical computations get identical cut variables */ id_t h=vvar(hn, 1.0); havocs.push_back({h,a,b}); havoc_of_var[var(hn,1.0)]=havocs.size()-1; return h; }
        Val x=vals[a], y=vals[b]; const PolyV yn=polys[y.n];
        id_t n=pmul_mono(x.n,y.d,1); id_t d=x.d;
        if (yn.size()==1) { d=mmul(d,yn[0].first,nullptr); n=pscale(n,mpq_class(1)/yn[0].second); } else d=mmul(d,sumatom_mono(y.n),nullptr);
        return mkval(n,d); }
    id_t vconst(const mpq_class &c) { return val(pconst(c),mono1); }
    id_t vvar(const std::string &n, double hint) { id_t v=var(n,hint); id_t a=atom(Atom::VAR,v,false); return val(poly(PolyV{{mono(MonoV{{a,1}}),mpq_class(1)}}),mono1); }
    bool vis_const(id_t v, mpq_class &c) { return vals[v].d==mono1 && is_const(vals[v].n,c); }
    id_t vsqrt(id_t a) { Val x=vals[a]; mpq_class c;
        if (vis_const(a,c)) { if (c<0) throw engine_stop{"sqrt of negative constant"}; mpz_class nn=c.get_num(), dd=c.get_den(); if (mpz_perfect_square_p(nn.get_mpz_t()) && mpz_perfect_square_p(dd.get_mpz_t())) { mpz_class rn,rd; mpz_sqrt(rn.get_mpz_t(),nn.get_mpz_t()); mpz_sqrt(rd.get_mpz_t(),dd.get_mpz_t()); return vconst(mpq_class(rn,rd)); } }
        id_t nd = pmul_mono(x.n,x.d,1);          // sqrt(n/d) = sqrt(n*d)/|d|
        // pull out a constant perfect-square content so that sqrt(4 p) and 2 sqrt(p) coincide
        id_t at=atom(Atom::SQRT,nd,true); id_t n=poly(PolyV{{mono(MonoV{{at,1}}),mpq_class(1)}});
        if (!mono_nonneg(x.d)) { id_t ab=atom(Atom::ABS, poly(PolyV{{x.d,mpq_class(1)}}), true); return mkval(n, mono(MonoV{{ab,1}})); }
        return mkval(n,x.d); }
    id_t vabs(id_t a) { Val x=vals[a]; mpq_class c; if (vis_const(a,c)) return vconst(::abs(c)); if (nn_vals.count(a)) return a;
        if (poly_nonneg(x.n) && mono_nonneg(x.d)) return a;
        PolyV neg=polys[x.n]; for (auto &t : neg) t.second=-t.second; id_t pn=poly(neg); if (poly_nonneg(pn) && mono_nonneg(x.d)) return val(pn,x.d);
        id_t full = x.d==mono1 ? x.n : pmul_mono(x.n,x.d,1);    // |n/d| = |n*d|/d^2
        id_t at=atom(Atom::ABS,full,true); id_t n=poly(PolyV{{mono(MonoV{{at,1}}),mpq_class(1)}});
        if (x.d==mono1) return val(n,mono1); return mkval(n, mmul(x.d,x.d,nullptr)); }
    // ------------------------------------------------------------- evaluation (witness)
    std::vector<double> wit;               // per variable; NaN = use hint
    std::unordered_map<id_t,long double> ev_memo;
    long double var_value(id_t v) { if (v<wit.size() && wit[v]==wit[v]) return wit[v]; return var_hint[v]; }
    void set_witness(const std::vector<double> &w) { wit=w; ev_memo.clear(); rev_memo.clear(); }
    long double ev_atom(id_t a) { auto it=ev_memo.find(a); if (it!=ev_memo.end()) return it->second; const Atom x=atoms[a]; long double r;
        switch (x.k) { case Atom::VAR: r=ev_var_atom(x.arg); break; case Atom::SUM: r=ev_poly(x.arg); break; case Atom::SQRT: r=std::sqrt(ev_poly(x.arg)); break; default: r=std::fabs(ev_poly(x.arg)); }
        return ev_memo[a]=r; }
    std::map<id_t,size_t> havoc_of_var;   // var index -> index in havocs
    std::map<id_t,id_t> havoc_raw;        // raw DIV node -> cut variable index (this path)
    long double ev_var_atom(id_t v) { auto it=havoc_of_var.find(v); if (it!=havoc_of_var.end() && !(v<wit.size() && wit[v]==wit[v])) { const Havoc &h=havocs[it->second]; return ev(h.a)/ev(h.b); } return var_value(v); }
    long double ev_mono(id_t m) { long double r=1; for (auto &t : monos[m]) r*=std::pow(ev_atom(t.first),(long double)t.second); return r; }
    long double ev_poly(id_t p) { long double r=0; for (auto &t : polys[p]) r+=(long double)t.second.get_d()*ev_mono(t.first); return r; }
    long double ev(id_t v) { return ev_poly(vals[v].n)/ev_mono(vals[v].d); }
    // raw log evaluation (validation of the normaliser)
    std::unordered_map<id_t,long double> rev_memo;
    long double rev(id_t r) { auto it=rev_memo.find(r); if (it!=rev_memo.end()) return it->second; const RNode x=rn[r]; long double v;
        switch (x.op) { case R_CONST: v=rconsts[x.a].get_d(); break; case R_VAR: v=ev_var_atom(x.a); break;
            case R_ADD: v=rev(x.a)+rev(x.b); break; case R_SUB: v=rev(x.a)-rev(x.b); break; case R_MUL: v=rev(x.a)*rev(x.b); break; case R_DIV: v=rev(x.a)/rev(x.b); break;
            case R_SQRT: v=std::sqrt(rev(x.a)); break; case R_ABS: v=std::fabs(rev(x.a)); break; default: v=var_value(x.a); }
        return rev_memo[r]=v; }
    // ------------------------------------------------------------- path state
    std::vector<bool> prefix; size_t pos=0, pc_from=0; bool prove_all_top=false; std::set<size_t> refuted_idx; std::vector<Cond> pc; size_t nforks_total=0, max_depth=200;
    struct Work { std::vector<bool> prefix; }; std::vector<Work> work;
    size_t undecided_budget=2;   // flipped prefixes whose feasibility the solver cannot decide in time are explored only this many times per case
    bool infeasible_now=false;   // set when a structural check found the current path condition unsatisfiable
    bool need_witness=false; void acquire_witness();   // defined after the solver
    bool concrete_mode=false;          // replay: every variable is a constant, no forking expected
    // events
    struct Event { std::string kind, stage; }; std::vector<Event> events; std::string stage; size_t npoison=0;
    size_t nf_checks=0, nf_mismatch=0, nf_skipped=0; size_t havoc_epoch=0;
    std::map<id_t,mpq_class> lower_bounds;   // value -> assumed constant lower bound (hx::assume(le(const, value)))
    std::vector<std::string> assumed;  // extra SMT assumptions of this path (hx::assume), already emitted text + their atoms
    std::set<id_t> assumed_atoms;
    void reset_path() { lower_bounds.clear(); infeasible_now=false; pos=0; pc.clear(); nz.clear(); nz_set.clear(); assumed.clear(); assumed_atoms.clear(); }
};
inline Ctx &ctx() { static Ctx c; return c; }
inline void Ctx::reset_store() { size_t ep=havoc_epoch, a=nf_checks, b=nf_mismatch, d=nf_skipped, nf=nforks_total, np=npoison; bool cm=concrete_mode; std::vector<Event> ev=events;
    size_t t1=terms_total_raw+rn.size(), t2=terms_total_vals+vals.size(), t3=terms_total_polys+polys.size(), t4=terms_total_atoms+atoms.size();
    this->~Ctx(); new (this) Ctx();
    havoc_epoch=ep; nf_checks=a; nf_mismatch=b; nf_skipped=d; nforks_total=nf; npoison=np; concrete_mode=cm; events=ev; terms_total_raw=t1; terms_total_vals=t2; terms_total_polys=t3; terms_total_atoms=t4; }

struct sym;
struct symbool { int cmp; id_t a, b; bool neg; operator bool() const; symbool operator!() const { symbool r=*this; r.neg=!r.neg; return r; } };

struct sym {
    id_t raw, nf;
    sym() = default;
    template<class T, class=typename std::enable_if<std::is_arithmetic<T>::value>::type>
    sym(T v) { mpq_class k; if (std::is_integral<T>::value) { if (std::is_signed<T>::value) k=mpq_class((long)v); else k=mpq_class((unsigned long)v); } else k=literal((double)v); Ctx &c=ctx(); raw=c.rconst(k); nf=c.vconst(k); }
    template<class T, class=typename std::enable_if<std::is_arithmetic<T>::value>::type>
    explicit operator T() const { mpq_class c; sym s=checked(*this); if (!ctx().vis_const(s.nf,c)) throw nonconst_conversion(); return (T)c.get_d(); }
    static sym mk(id_t raw, id_t nf) { sym s; s.raw=raw; s.nf=nf; return s; }
    static sym var(const std::string &n, double hint=1.0) { Ctx &c=ctx(); id_t nf=c.vvar(n,hint); id_t v=c.var(n,hint); return mk(c.rnode(R_VAR,v,0), nf); }
    static sym rat(long p, long q) { mpq_class k(p,q); k.canonicalize(); Ctx &c=ctx(); return mk(c.rconst(k), c.vconst(k)); }
    static sym q(const mpq_class &k) { Ctx &c=ctx(); return mk(c.rconst(k), c.vconst(k)); }
    bool valid() const { Ctx &c=ctx(); return raw!=POISON && raw<c.rn.size() && nf<c.vals.size(); }
    bool is_const(mpq_class &k) const { return valid() && ctx().vis_const(nf,k); }
    bool is_const() const { mpq_class k; return is_const(k); }
    // operands are checked for poison (never-written memory)
    static sym checked(sym a) { if (a.valid()) return a; Ctx &c=ctx(); c.events.push_back({"uninitialised-read", c.stage}); std::string n="poison!"+std::to_string(c.npoison++); id_t v=c.var(n,1.0); return mk(c.rnode(R_POISON,v,0), c.vvar(n,1.0)); }
};
static_assert(std::is_trivially_copyable<sym>::value && sizeof(sym)==8, "sym must be a POD handle");

inline sym binop(ROp op, sym a, sym b) { Ctx &c=ctx(); a=sym::checked(a); b=sym::checked(b); id_t nf;
    switch (op) { case R_ADD: nf=c.vadd(a.nf,b.nf,1); break; case R_SUB: nf=c.vadd(a.nf,b.nf,-1); break; case R_MUL: nf=c.vmul(a.nf,b.nf); break; default: nf=c.vdiv(a.nf,b.nf); }
    id_t raw=c.rnode(op,a.raw,b.raw);
    if (op==R_DIV && c.havoc_div && !c.havocs.empty() && c.havocs.back().var_val==nf) c.havoc_raw[raw]=c.atoms[c.monos[c.polys[c.vals[nf].n][0].first][0].first].arg;   // raw division node -> cut variable
    return sym::mk(raw, nf); }
inline sym operator+(sym a, sym b) { return binop(R_ADD,a,b); }
inline sym operator-(sym a, sym b) { return binop(R_SUB,a,b); }
inline sym operator*(sym a, sym b) { return binop(R_MUL,a,b); }
inline sym operator/(sym a, sym b) { return binop(R_DIV,a,b); }
inline sym operator-(sym a) { return binop(R_SUB, sym(0), a); }
inline sym operator+(sym a) { return a; }
inline sym &operator+=(sym &a, sym b) { a=a+b; return a; }
inline sym &operator-=(sym &a, sym b) { a=a-b; return a; }
inline sym &operator*=(sym &a, sym b) { a=a*b; return a; }
inline sym &operator/=(sym &a, sym b) { a=a/b; return a; }
#define SYMX_ARITH_T template<class T, class=typename std::enable_if<std::is_arithmetic<T>::value>::type>
#define SYMX_MIX(op) SYMX_ARITH_T inline sym operator op(sym a, T b) { return a op sym(b); } SYMX_ARITH_T inline sym operator op(T a, sym b) { return sym(a) op b; }
SYMX_MIX(+) SYMX_MIX(-) SYMX_MIX(*) SYMX_MIX(/)
#define SYMX_MIXA(op) SYMX_ARITH_T inline sym &operator op(sym &a, T b) { return a op sym(b); }
SYMX_MIXA(+=) SYMX_MIXA(-=) SYMX_MIXA(*=) SYMX_MIXA(/=)
// k*sqrt(p) with k>0 rational: returns the value k^2 p
inline bool pure_sqrt(id_t v, id_t &sq) { Ctx &c=ctx(); Ctx::Val x=c.vals[v]; if (x.d!=c.mono1) return false; const PolyV &p=c.polys[x.n]; if (p.size()!=1 || p[0].second<=0) return false; const MonoV &m=c.monos[p[0].first]; if (m.size()!=1 || m[0].second!=1 || c.atoms[m[0].first].k!=Atom::SQRT) return false;
    mpq_class k2=p[0].second*p[0].second; id_t arg=c.atoms[m[0].first].arg; sq=c.val(c.pscale(arg,k2),c.mono1); return true; }
// comparisons of norms with constants / other norms are rewritten without the radical:  sqrt(p) cmp c  <=>  p cmp c^2  (c >= 0, p >= 0)
inline bool simplify_cmp(int cmp, id_t &a, id_t &b, bool &constant, bool &value) { Ctx &c=ctx(); id_t sa, sb; mpq_class k; constant=false;
    bool pa=pure_sqrt(a,sa), pb=pure_sqrt(b,sb);
    if (pa && pb) { a=sa; b=sb; return true; }
    if (pa && c.vis_const(b,k)) { if (k<0) { constant=true; value=false; return true; } a=sa; b=c.vconst(k*k); return true; }          // sqrt >= 0 > k : a<b, a<=b, a==b all false
    if (pb && c.vis_const(a,k)) { if (k<0) { constant=true; value=(cmp!=EQ); return true; } b=sb; a=c.vconst(k*k); return true; }     // k < 0 <= sqrt : k<b, k<=b true, k==b false
    return false; }
inline void Ctx::assume_nz(id_t v) { id_t sq; if (nz_set.insert(v).second) { if (pure_sqrt(v,sq)) { nz_set.insert(sq); nz.push_back(sq); } else nz.push_back(v); } }
inline symbool mkcmp(int C, sym a, sym b, bool ng) { a=sym::checked(a); b=sym::checked(b); id_t x=a.nf, y=b.nf; bool cst=false, val=false; if (simplify_cmp(C,x,y,cst,val) && cst) { Ctx &c=ctx(); id_t z=c.vconst(0), o=c.vconst(1); return val ? symbool{LT,z,o,ng} : symbool{LT,o,z,ng}; } return symbool{C,x,y,ng}; }
#define SYMX_CMP(op,C,swap,ng) \
  inline symbool operator op(sym a, sym b) { return swap ? mkcmp(C,b,a,ng) : mkcmp(C,a,b,ng); } \
  SYMX_ARITH_T inline symbool operator op(sym a, T b) { return a op sym(b); } \
  SYMX_ARITH_T inline symbool operator op(T a, sym b) { return sym(a) op b; }
SYMX_CMP(==,EQ,false,false) SYMX_CMP(!=,EQ,false,true) SYMX_CMP(<,LT,false,false) SYMX_CMP(>,LT,true,false) SYMX_CMP(<=,LE,false,false) SYMX_CMP(>=,LE,true,false)
inline sym abs(sym a) { Ctx &c=ctx(); a=sym::checked(a); id_t v=c.vabs(a.nf); c.nn_vals.insert(v); return sym::mk(c.rnode(R_ABS,a.raw,0), v); }
inline sym fabs(sym a) { return abs(a); }
inline sym sqrt(sym a) { Ctx &c=ctx(); a=sym::checked(a); id_t v=c.vsqrt(a.nf); c.nn_vals.insert(v); return sym::mk(c.rnode(R_SQRT,a.raw,0), v); }
inline sym real(sym a) { return a; }
inline sym imag(sym) { return sym(0); }
inline sym conj(sym a) { return a; }
inline bool isnan(sym) { return false; }
inline bool isinf(sym) { return false; }
inline bool isfinite(sym) { return true; }
// stream operators round-trip the handle (boost::property_tree carries parameters as strings)
inline std::ostream &operator<<(std::ostream &o, sym a) { mpq_class k; if (a.is_const(k) && k.get_den()==1 && ::abs(k) < 1000000) return o << k.get_num().get_str(); return o << "<s" << a.raw << "_" << a.nf << ">"; }
inline std::istream &operator>>(std::istream &i, sym &a) { i >> std::ws; if (i.peek()=='<') { char ch; i>>ch>>ch; id_t r,n; i>>r>>ch>>n>>ch; a=sym::mk(r,n); } else { double d; i>>d; a=sym(d); } return i; }

// ------------------------------------------------------------------ forks
inline bool decide(int cmp, id_t a, id_t b, bool &out) { // constant folding
    Ctx &c=ctx(); mpq_class x,y;
    if (a==b) { out = (cmp!=LT); return true; }
    if (c.vis_const(a,x) && c.vis_const(b,y)) { out = cmp==EQ ? x==y : cmp==LT ? x<y : x<=y; return true; }
    id_t d=c.vadd(a,b,-1); if (c.vis_const(d,x)) { out = cmp==EQ ? x==0 : cmp==LT ? x<0 : x<=0; return true; }
    if (cmp==EQ && c.nz_set.count(d)) { out=false; return true; }
    { auto lb=c.lower_bounds.find(a); if (lb!=c.lower_bounds.end() && c.vis_const(b,y)) { if (cmp==LT && lb->second>=y) { out=false; return true; } if (cmp!=LT && lb->second>y) { out=false; return true; } } }   // assumed  lb <= a                  // a divisor / assumed non-zero value
    // syntactic sign: d = n/den with all-nonneg (or all-nonpos) terms
    Ctx::Val v=c.vals[d];
    if (c.mono_nonneg(v.d)) {
        if (c.poly_nonneg(v.n)) { if (cmp==LT) { out=false; return true; } }          // d>=0  ->  not (a<b)
        else { bool allneg=true; for (auto &t : c.polys[v.n]) if (t.second>0 || !c.mono_nonneg(t.first)) { allneg=false; break; } if (allneg && cmp==LE) { out=true; return true; } }
    }
    return false; }
inline symbool::operator bool() const { Ctx &c=ctx(); bool r;
    if (decide(cmp,a,b,r)) return r^neg;
    if (c.concrete_mode) { long double u=c.ev(a), v=c.ev(b); bool at = cmp==EQ ? u==v : cmp==LT ? u<v : u<=v; c.pc.push_back({cmp,a,b,at}); return at^neg; }
    for (auto &p : c.pc) if (p.cmp==cmp && p.a==a && p.b==b) return p.truth^neg;     // already decided on this path
    bool at;   // truth of the un-negated relation on this path
    if (c.pos < c.prefix.size()) { at=c.prefix[c.pos]; c.pos++; c.pc.push_back({cmp,a,b,at}); if (c.pos==c.prefix.size() && c.need_witness) c.acquire_witness(); return at^neg; }
    else { if (c.pos >= c.max_depth) throw too_deep();
        if (c.need_witness) c.acquire_witness();
        long double u=c.ev(a), v=c.ev(b); at = cmp==EQ ? u==v : cmp==LT ? u<v : u<=v; if (u!=u || v!=v) at=false;
        c.prefix.push_back(at); Ctx::Work w; w.prefix=c.prefix; w.prefix.back()=!at; c.work.push_back(w); c.nforks_total++; }
    c.pos++; c.pc.push_back({cmp,a,b,at}); return at^neg; }

// ------------------------------------------------------------------ SMT emission
struct Emit { std::set<id_t> done; std::vector<id_t> order; };
inline std::string qstr(const mpq_class &k) { mpq_class a=::abs(k); std::string s = a.get_den()==1 ? a.get_num().get_str()+".0" : "(/ "+a.get_num().get_str()+".0 "+a.get_den().get_str()+".0)"; return k<0 ? "(- "+s+")" : s; }
inline void need_atom(id_t a, Emit &e);
inline void need_poly(id_t p, Emit &e) { Ctx &c=ctx(); for (auto &t : c.polys[p]) for (auto &f : c.monos[t.first]) need_atom(f.first,e); }
inline void need_mono(id_t m, Emit &e) { Ctx &c=ctx(); for (auto &f : c.monos[m]) need_atom(f.first,e); }
inline void need_atom(id_t a, Emit &e) { if (e.done.count(a)) return; e.done.insert(a); Ctx &c=ctx(); if (c.atoms[a].k!=Atom::VAR) need_poly(c.atoms[a].arg,e); e.order.push_back(a); }
inline std::string smt_mono(id_t m) { const MonoV &v=ctx().monos[m]; if (v.empty()) return "1.0"; std::string s; int cnt=0; for (auto &t : v) for (int k=0;k<t.second;++k) { s+=" a"+std::to_string(t.first); cnt++; } return cnt==1 ? s.substr(1) : "(*"+s+")"; }
inline std::string smt_poly(id_t p) { Ctx &c=ctx(); const PolyV &v=c.polys[p]; if (v.empty()) return "0.0"; std::string s;
    for (auto &t : v) { std::string m = t.first==c.mono1 ? qstr(t.second) : (t.second==1 ? smt_mono(t.first) : "(* "+qstr(t.second)+" "+smt_mono(t.first)+")"); s+=" "+m; }
    return v.size()==1 ? s.substr(1) : "(+"+s+")"; }
inline void emit_defs(std::ostream &o, Emit &e) { Ctx &c=ctx();
    for (id_t a : e.order) { const Atom &x=c.atoms[a]; std::string A="a"+std::to_string(a);
        switch (x.k) {
            case Atom::VAR:  o<<"(declare-fun "<<A<<" () Real) ; "<<c.vars[x.arg]<<"\n"; break;
            case Atom::SUM:  o<<"(define-fun "<<A<<" () Real "<<smt_poly(x.arg)<<")\n"; break;
            case Atom::SQRT: o<<"(declare-fun "<<A<<" () Real)\n(assert (and (>= "<<A<<" 0.0) (= (* "<<A<<" "<<A<<") "<<smt_poly(x.arg)<<")))\n"; break;
            case Atom::ABS:  o<<"(define-fun "<<A<<" () Real (let ((z "<<smt_poly(x.arg)<<")) (ite (>= z 0.0) z (- z))))\n"; break; } } }
// relation between two values (cross-multiplied, division free; denominators are assumed non-zero, see smt_side)
inline std::string smt_rel(int cmp, id_t a, id_t b, Emit &e) { Ctx &c=ctx(); Ctx::Val x=c.vals[a], y=c.vals[b]; need_poly(x.n,e); need_poly(y.n,e); need_mono(x.d,e); need_mono(y.d,e);
    const char *op = cmp==EQ ? "=" : cmp==LT ? "<" : "<="; std::string xn=smt_poly(x.n), yn=smt_poly(y.n), xd=smt_mono(x.d), yd=smt_mono(y.d);
    if (x.d==c.mono1 && y.d==c.mono1) return std::string("(")+op+" "+xn+" "+yn+")";
    if (x.d==y.d) { if (cmp==EQ) return "(= "+xn+" "+yn+")"; return std::string("(")+op+" (* "+xn+" "+xd+") (* "+yn+" "+xd+"))"; }
    if (cmp==EQ) return "(= (* "+xn+" "+yd+") (* "+yn+" "+xd+"))";
    return std::string("(")+op+" (* "+xn+" "+xd+" "+yd+" "+yd+") (* "+yn+" "+yd+" "+xd+" "+xd+"))"; }
inline std::string smt_nonzero(id_t v, Emit &e) { Ctx &c=ctx(); Ctx::Val x=c.vals[v]; need_poly(x.n,e); need_mono(x.d,e); std::string s="(not (= "+smt_poly(x.n)+" 0.0))"; if (x.d!=c.mono1) s="(and "+s+" (not (= "+smt_mono(x.d)+" 0.0)))"; return s; }
inline std::string smt_den_nz(id_t v, Emit &e) { Ctx &c=ctx(); Ctx::Val x=c.vals[v]; if (x.d==c.mono1) return "true"; need_mono(x.d,e); return "(not (= "+smt_mono(x.d)+" 0.0))"; }

// formula AST over nf values
struct F { enum K {REL, AND, OR, NOT, TRUE_} k; int cmp; id_t a, b; std::vector<F> kids;
    static F rel(int cmp, sym a, sym b);
    static F tt() { F f; f.k=TRUE_; f.cmp=0; f.a=f.b=0; return f; } };
inline F F::rel(int cmp, sym a, sym b) { symbool sb=mkcmp(cmp,a,b,false); F f; f.k=REL; f.cmp=sb.cmp; f.a=sb.a; f.b=sb.b; return f; }
inline F eq(sym a, sym b) { return F::rel(EQ,a,b); }
inline F lt(sym a, sym b) { return F::rel(LT,a,b); }
inline F le(sym a, sym b) { return F::rel(LE,a,b); }
inline F ne(sym a, sym b) { F f; f.k=F::NOT; f.cmp=0; f.a=f.b=0; f.kids.push_back(eq(a,b)); return f; }
inline F operator!(const F &x) { F f; f.k=F::NOT; f.cmp=0; f.a=f.b=0; f.kids.push_back(x); return f; }
inline F all_of(const std::vector<F> &v) { F f; f.k=F::AND; f.cmp=0; f.a=f.b=0; f.kids=v; return f; }
inline F any_of(const std::vector<F> &v) { F f; f.k=F::OR; f.cmp=0; f.a=f.b=0; f.kids=v; return f; }
inline F operator&&(const F &x, const F &y) { return all_of({x,y}); }
inline F operator||(const F &x, const F &y) { return any_of({x,y}); }
inline F implies(const F &x, const F &y) { return any_of({!x,y}); }
inline void f_dens(const F &f, std::set<id_t> &vs) { if (f.k==F::REL) { vs.insert(f.a); vs.insert(f.b); } for (auto &k : f.kids) f_dens(k,vs); }
inline std::string smt_f(const F &f, Emit &e) { switch (f.k) {
    case F::REL: return smt_rel(f.cmp,f.a,f.b,e); case F::TRUE_: return "true";
    case F::NOT: return "(not "+smt_f(f.kids[0],e)+")";
    default: { if (f.kids.empty()) return f.k==F::AND ? "true" : "false"; std::string s = f.k==F::AND ? "(and" : "(or"; for (auto &k : f.kids) s+=" "+smt_f(k,e); return s+")"; } } }
inline bool eval_f(const F &f) { Ctx &c=ctx(); switch (f.k) {
    case F::REL: { long double u=c.ev(f.a), v=c.ev(f.b); return f.cmp==EQ ? u==v : f.cmp==LT ? u<v : u<=v; } case F::TRUE_: return true;
    case F::NOT: return !eval_f(f.kids[0]); case F::AND: for (auto &k : f.kids) if (!eval_f(k)) return false; return true;
    default: for (auto &k : f.kids) if (eval_f(k)) return true; return false; } }

inline bool eval_rel_tol(int cmp, id_t a, id_t b, double tol) { Ctx &c=ctx(); bool r; if (decide(cmp,a,b,r)) return r; long double u=c.ev(a), v=c.ev(b); long double sc=std::max<long double>(1,std::max(std::fabs(u),std::fabs(v)));
    return cmp==EQ ? std::fabs(u-v)<=tol*sc : cmp==LT ? u<v+tol*sc : u<=v+tol*sc; }
inline bool eval_f_tol(const F &f, double tol) { switch (f.k) {
    case F::REL: return eval_rel_tol(f.cmp,f.a,f.b,tol); case F::TRUE_: return true;
    case F::NOT: return !eval_f_tol(f.kids[0],tol); case F::AND: for (auto &k : f.kids) if (!eval_f_tol(k,tol)) return false; return true;
    default: for (auto &k : f.kids) if (eval_f_tol(k,tol)) return true; return false; } }

// ------------------------------------------------------------------ solver process (z3 -in), one per harness process
struct Solver {
    pid_t pid=-1; int wfd=-1, rfd=-1; std::string buf; double total_s=0; size_t nq=0; std::string cmd="z3"; int timeout_ms=20000; int feas_timeout_ms=600; long rlimit_per_ms=1000; int wall_factor=5;
    std::string dump_dir; size_t dump_max=0, dumped=0;
    void start() { int in[2], out[2]; if (pipe(in) || pipe(out)) throw std::runtime_error("pipe"); pid=fork();
        if (pid==0) { dup2(in[0],0); dup2(out[1],1); dup2(out[1],2); close(in[1]); close(out[0]); execlp(cmd.c_str(), cmd.c_str(), "-in", "-smt2", "-memory:3500", (char*)0); _exit(127); }
        close(in[0]); close(out[1]); wfd=in[1]; rfd=out[0]; buf.clear();
        send("(set-option :pp.decimal false)\n"); }
    void stop() { if (pid>0) { close(wfd); close(rfd); kill(pid,SIGKILL); int st; waitpid(pid,&st,0); pid=-1; } }
    void send(const std::string &s) { size_t off=0; while (off<s.size()) { ssize_t w=write(wfd,s.data()+off,s.size()-off); if (w<=0) throw std::runtime_error("solver write"); off+=w; } }
    // returns everything printed up to the sentinel; "" + timed_out on watchdog expiry
    std::string ask(const std::string &script, bool &timed_out) { if (pid<0) start(); timed_out=false;
        if (!dump_dir.empty() && dumped<dump_max) { std::ofstream d(dump_dir+"/q"+std::to_string(getpid())+"_"+std::to_string(dumped++)+".smt2"); d<<script; }
        auto t0=std::chrono::steady_clock::now(); nq++;
        // one fresh solver context per query: after (push) z3 switches to its incremental core, which is far weaker on non-linear real arithmetic
        // the budget is z3's deterministic resource counter (measured here: 150 k to 2.4 M units per second depending on the query; nominal 1000 per 'millisecond' of budget), so that verdicts do not depend on machine load;
        // the wall-clock timeout is only a backstop at wall_factor (5) times the nominal budget
        send("(set-option :pp.decimal false)\n(set-option :timeout "+std::to_string((long)timeout_ms*wall_factor)+")\n(set-option :rlimit "+std::to_string((long)timeout_ms*rlimit_per_ms)+")\n"+script+"\n(reset)\n(echo \"<<done>>\")\n");
        std::string out; double limit = timeout_ms/1000.0*wall_factor*1.25 + 3;
        for (;;) { size_t p=buf.find("<<done>>"); if (p!=std::string::npos) { out=buf.substr(0,p); size_t q=buf.find('\n',p); buf = q==std::string::npos ? "" : buf.substr(q+1); break; }
            double el=std::chrono::duration<double>(std::chrono::steady_clock::now()-t0).count(); if (el>limit) { timed_out=true; stop(); break; }
            struct pollfd pf{rfd,POLLIN,0}; int pr=poll(&pf,1,1000); if (pr>0) { char tmp[65536]; ssize_t r=read(rfd,tmp,sizeof tmp); if (r<=0) { timed_out=true; stop(); break; } buf.append(tmp,r); } }
        total_s += std::chrono::duration<double>(std::chrono::steady_clock::now()-t0).count(); return out; }
    ~Solver() { stop(); }
};
inline Solver &solver() { static Solver s; return s; }

// parse "((a1 (/ 1.0 2.0)) (a2 (- 3.0)) ...)" into doubles + exact strings
struct ModelVal { double d; std::string exact; bool rational; };
inline bool parse_num(const std::string &s, size_t &i, mpq_class &out) { // s-expression numeral
    while (i<s.size() && isspace(s[i])) i++; if (i>=s.size()) return false;
    if (s[i]=='(') { i++; while (i<s.size() && isspace(s[i])) i++; char op=s[i++]; mpq_class a,b;
        if (op=='-') { if (!parse_num(s,i,a)) return false; while (i<s.size() && isspace(s[i])) i++; if (s[i]==')') { i++; out=-a; return true; } if (!parse_num(s,i,b)) return false; while (i<s.size() && isspace(s[i])) i++; if (s[i]!=')') return false; i++; out=a-b; return true; }
        if (op=='/') { if (!parse_num(s,i,a) || !parse_num(s,i,b)) return false; while (i<s.size() && isspace(s[i])) i++; if (s[i]!=')' || b==0) return false; i++; out=a/b; return true; }
        return false; }
    size_t j=i; while (j<s.size() && (isdigit(s[j]) || s[j]=='.')) j++; if (j==i) return false; std::string t=s.substr(i,j-i); i=j;
    size_t dot=t.find('.'); if (dot==std::string::npos) { out=mpq_class(t); return true; }
    std::string ip=t.substr(0,dot), fp=t.substr(dot+1); while (!fp.empty() && fp.back()=='0') fp.pop_back(); if (fp.size() && fp.back()=='?') return false;
    std::string den="1"; for (size_t k=0;k<fp.size();++k) den+="0"; out=mpq_class(ip+fp, 10)/mpq_class(den,10); out.canonicalize(); return true; }
inline std::map<std::string,ModelVal> parse_values(const std::string &txt) { std::map<std::string,ModelVal> m; size_t i=txt.find("(("); if (i==std::string::npos) return m; i++;
    while (i<txt.size()) { while (i<txt.size() && isspace(txt[i])) i++; if (i>=txt.size() || txt[i]!='(') break; i++; size_t j=i; while (j<txt.size() && !isspace(txt[j])) j++; std::string name=txt.substr(i,j-i); i=j;
        size_t save=i; mpq_class q; ModelVal mv; if (parse_num(txt,i,q)) { mv.d=q.get_d(); mv.exact=q.get_str(); mv.rational=true; while (i<txt.size() && txt[i]!=')') i++; i++; }
        else { i=save; int depth=1; size_t st=i; while (i<txt.size() && depth>0) { if (txt[i]=='(') depth++; else if (txt[i]==')') depth--; i++; } mv.d=std::nan(""); mv.exact=txt.substr(st,i-st-1); mv.rational=false; }
        m[name]=mv; }
    return m; }

// ------------------------------------------------------------------ report
inline std::string jesc(const std::string &s) { std::string r; for (char ch : s) { if (ch=='"' || ch=='\\') { r+='\\'; r+=ch; } else if (ch=='\n') r+="\\n"; else if ((unsigned char)ch<32) r+=' '; else r+=ch; } return r; }
struct Violation { std::string casename, obligation, detail; std::map<std::string,std::string> model; std::vector<bool> prefix; bool have_model; };
struct Report {
    size_t obligations=0, discharged=0, queries=0, q_unsat=0, q_sat=0, q_unknown=0, paths=0, paths_pruned=0, paths_unexplored=0, paths_stopped=0, reach_sat=0, reach_unsat=0, reach_unknown=0, trivial=0;
    size_t solver_errors=0; std::string last_error; size_t witness_refuted=0, witness_unknown=0, paths_undecided_skipped=0; std::set<std::string> unexplored_cases;
    std::vector<Violation> violations; std::vector<std::string> inconclusive; std::vector<std::string> samples; std::set<std::string> assumptions; std::map<std::string,size_t> stops;
    size_t max_query_bytes=0;
};
inline Report &report() { static Report r; return r; }

// assemble and run one query:  PC /\ side conditions /\ extra  ; returns "sat"/"unsat"/"unknown"
struct QueryResult { std::string verdict; std::map<std::string,ModelVal> model; std::string raw; };
inline QueryResult run_query(const std::vector<std::string> &asserts_in, Emit &e, bool want_model, const std::vector<std::string> &bool_names = {}, bool use_nz=true) {
    Ctx &c=ctx(); std::ostringstream o; std::vector<std::string> asserts=asserts_in;
    for (id_t a : c.assumed_atoms) need_atom(a,e); for (auto &a : c.assumed) asserts.push_back(a);
    // path condition and non-zero divisors
    for (size_t pi=c.pc_from; pi<c.pc.size(); ++pi) { auto &p=c.pc[pi]; std::string r=smt_rel(p.cmp,p.a,p.b,e); asserts.push_back(p.truth ? r : "(not "+r+")"); asserts.push_back(smt_den_nz(p.a,e)); asserts.push_back(smt_den_nz(p.b,e));
        // implied lemmas (sound strengthening): values non-negative by construction; a sum of squares that is <= 0 has all components zero
        id_t zero=c.vconst(0); mpq_class k;
        for (id_t side : {p.a,p.b}) if (c.nn_vals.count(side) && !c.vis_const(side,k)) asserts.push_back(smt_rel(LE,zero,side,e));
        id_t sv=(id_t)-1; if (p.cmp==EQ && p.truth) { if (p.b==zero) sv=p.a; else if (p.a==zero) sv=p.b; } else if (p.cmp==LE && p.truth && p.b==zero) sv=p.a; else if (p.cmp==LT && !p.truth && p.a==zero) sv=p.b;
        if (sv!=(id_t)-1) { auto it=c.sos.find(sv); if (it!=c.sos.end()) for (id_t comp : it->second) asserts.push_back(smt_rel(EQ,comp,zero,e)); } }
    if (use_nz) for (id_t v : c.nz) asserts.push_back(smt_nonzero(v,e));
    emit_defs(o,e);
    for (auto &b : bool_names) o<<"(declare-fun "<<b<<" () Bool)\n";
    for (auto &a : asserts) if (a!="true") o<<"(assert "<<a<<")\n";
    o<<"(check-sat)\n";
    std::vector<id_t> vars; for (id_t a : e.order) if (c.atoms[a].k==Atom::VAR) vars.push_back(a);
    if (want_model && (!vars.empty() || !bool_names.empty())) { o<<"(get-value ("; for (id_t a : vars) o<<" a"<<a; for (auto &b : bool_names) o<<" "<<b; o<<"))\n"; }
    std::string script=o.str(); report().max_query_bytes=std::max(report().max_query_bytes,script.size());
    QueryResult qr; bool to=false; std::string out=solver().ask(script,to); report().queries++;
    auto first_tok=[&](const std::string &s) { std::istringstream is(s); std::string t; is>>t; return t; };
    qr.raw=out; std::string v = to ? "unknown" : first_tok(out);
    { std::string chk; std::istringstream is(out); std::string ln; while (std::getline(is,ln)) if (ln.find("model is not available")==std::string::npos) chk+=ln+"\n"; if (chk.find("(error")!=std::string::npos) { report().solver_errors++; report().last_error=chk.substr(0,300); v="unknown"; } }
    if (v!="sat" && v!="unsat") v="unknown";
    qr.verdict=v; if (v=="sat") report().q_sat++; else if (v=="unsat") report().q_unsat++; else report().q_unknown++;
    if (v=="sat" && want_model && (!vars.empty() || !bool_names.empty())) { size_t p0=out.find("(("); std::string out2 = p0==std::string::npos ? "" : out.substr(p0);
        auto mv=parse_values(out2); for (id_t a : vars) { auto it=mv.find("a"+std::to_string(a)); if (it!=mv.end()) qr.model[c.vars[c.atoms[a].arg]]=it->second; }
        for (auto &b : bool_names) { size_t p=out2.find("("+b+" "); if (p!=std::string::npos) { ModelVal m; m.rational=true; m.exact = out2.compare(p+b.size()+2,4,"true")==0 ? "true" : "false"; m.d = m.exact=="true"; qr.model[b]=m; } } }
    return qr; }

inline bool witness_refutes(const F &f, Violation &v);
// post a proof obligation under the current path condition
inline bool s_prove(const std::string &name, const F &f) {
    Ctx &c=ctx(); Report &r=report(); r.obligations++; if (f.k==F::REL && f.cmp==EQ && f.a==f.b) r.trivial++;
    else if (getenv("SYMX_DEBUG") && f.k==F::REL) { id_t d=c.vadd(f.a,f.b,-1); Emit e; std::cerr<<"nontrivial "<<name<<" prefix="; for (size_t i=0;i<c.pos&&i<c.prefix.size();++i) std::cerr<<(c.prefix[i]?'1':'0'); std::cerr<<" lhs terms="<<c.polys[c.vals[f.a].n].size()<<" den="<<smt_mono(c.vals[f.a].d)<<" rhs terms="<<c.polys[c.vals[f.b].n].size()<<" den="<<smt_mono(c.vals[f.b].d)<<" LHS="<<smt_poly(c.vals[f.a].n).substr(0,200)<<" diff terms="<<c.polys[c.vals[d].n].size()<<" diff="<<smt_poly(c.vals[d].n).substr(0,300)<<"\n"; }
    if (!(f.k==F::REL && f.cmp==EQ && f.a==f.b)) { Violation wv; if (witness_refutes(f,wv)) { wv.obligation=name; r.witness_refuted++; r.violations.push_back(wv); return false; } }
    Emit e; std::vector<std::string> as; std::set<id_t> vs; f_dens(f,vs); for (id_t v : vs) as.push_back(smt_den_nz(v,e));
    as.push_back("(not "+smt_f(f,e)+")");
    if (r.samples.size()<6) { Emit e2; std::string s=smt_f(f,e2); if (s.size()>600) s=s.substr(0,600)+"..."; r.samples.push_back(name+": "+s); }
    QueryResult q=run_query(as,e,true);
    if (q.verdict=="unsat") { r.discharged++; return true; }
    if (q.verdict=="unknown") { r.inconclusive.push_back(name+" (solver: unknown/timeout)"); return false; }
    Violation v; v.obligation=name; v.prefix=std::vector<bool>(c.prefix.begin(), c.prefix.begin()+std::min(c.pos,c.prefix.size())); v.have_model=true;
    for (auto &kv : q.model) { v.model[kv.first]=kv.second.exact; if (!kv.second.rational) v.have_model=false; }
    r.violations.push_back(v); return false; }
// many equalities at once: one query, bisected on unknown; on sat the failing ones are identified by evaluation under the model
inline void s_prove_all(const std::string &name, const std::vector<F> &fs, size_t lo=0, size_t hi=(size_t)-1) {
    if (hi==(size_t)-1) { ctx().prove_all_top=true; hi=fs.size(); report().obligations+=fs.size(); size_t pick=0; for (size_t i=0;i<fs.size();++i) if (!(fs[i].k==F::REL && fs[i].a==fs[i].b)) { pick=i; break; }
        if (!fs.empty() && report().samples.size()<6 && (!(fs[pick].k==F::REL && fs[pick].a==fs[pick].b) || report().obligations>400)) { Emit e2; std::string s=smt_f(fs[pick],e2); if (s.size()>600) s=s.substr(0,600)+"..."; report().samples.push_back(name+"["+std::to_string(pick)+"]: "+s); } }
    if (lo>=hi) return; Ctx &c=ctx(); Report &r=report();
    Emit e; std::vector<std::string> as; std::set<id_t> vs; std::string disj="(or"; bool alltriv=true;
    for (size_t i=lo;i<hi;++i) { f_dens(fs[i],vs); if (!(fs[i].k==F::REL && fs[i].cmp==EQ && fs[i].a==fs[i].b)) alltriv=false; disj+=" (not "+smt_f(fs[i],e)+")"; } disj+=")";
    for (id_t v : vs) as.push_back(smt_den_nz(v,e)); as.push_back(disj);
    if (alltriv) r.trivial+=hi-lo;
    bool top_=c.prove_all_top; c.prove_all_top=false;
    if (!alltriv && top_) {     // concolic pre-pass: an obligation that already fails at the path's own witness point needs no solver search
        for (size_t i=lo;i<hi;++i) if (!(fs[i].k==F::REL && fs[i].cmp==EQ && fs[i].a==fs[i].b)) { Violation wv; if (witness_refutes(fs[i],wv)) { wv.obligation=name+"["+std::to_string(i)+"]"; r.witness_refuted++; r.violations.push_back(wv); c.refuted_idx.insert(i); } }
        if (!c.refuted_idx.empty()) { std::vector<F> rest; std::vector<size_t> keep; for (size_t i=lo;i<hi;++i) if (!c.refuted_idx.count(i)) rest.push_back(fs[i]); c.refuted_idx.clear(); r.obligations-=rest.size(); int keep_to=solver().timeout_ms; solver().timeout_ms=std::min(keep_to,3000); /* the obligation is already violated: its other components get a short budget only */ s_prove_all(name+" (remaining)",rest); solver().timeout_ms=keep_to; return; } }
    int full_to=solver().timeout_ms; if (hi-lo>1) solver().timeout_ms=std::min(full_to, std::max(1500, full_to/6));   // batches get a short budget, singles the full one
    QueryResult q=run_query(as,e,true); solver().timeout_ms=full_to;
    if (q.verdict=="unsat") { r.discharged+=hi-lo; return; }
    if (hi-lo>1) { size_t mid=(lo+hi)/2; s_prove_all(name,fs,lo,mid); s_prove_all(name,fs,mid,hi); return; }
    if (q.verdict=="unknown") { r.inconclusive.push_back(name+"["+std::to_string(lo)+"] (solver: unknown/timeout)"); return; }
    Violation v; v.obligation=name+"["+std::to_string(lo)+"]"; v.prefix=std::vector<bool>(c.prefix.begin(), c.prefix.begin()+std::min(c.pos,c.prefix.size())); v.have_model=true;
    for (auto &kv : q.model) { v.model[kv.first]=kv.second.exact; if (!kv.second.rational) v.have_model=false; }
    r.violations.push_back(v); }
inline void s_prove_eq_vec(const std::string &name, const std::vector<sym> &a, const std::vector<sym> &b) {
    if (a.size()!=b.size()) { Violation v; v.obligation=name+" (size mismatch "+std::to_string(a.size())+" vs "+std::to_string(b.size())+")"; v.have_model=false; report().obligations++; report().violations.push_back(v); return; }
    std::vector<F> fs; for (size_t i=0;i<a.size();++i) fs.push_back(eq(a[i],b[i])); s_prove_all(name,fs); }
// assume a formula for the rest of this path (a stated precondition of the property)
inline std::vector<std::pair<size_t,F>> &assumed_fs() { static std::vector<std::pair<size_t,F>> v; return v; }   // (path epoch, assumption) for exact evaluation at a witness
inline void s_assume(const F &f) { Ctx &c=ctx(); { auto &af=assumed_fs(); if (!af.empty() && af.back().first!=c.havoc_epoch) af.clear(); af.push_back({c.havoc_epoch,f}); } Emit e; std::string t=smt_f(f,e); std::set<id_t> vs; f_dens(f,vs); for (id_t v : vs) { std::string d=smt_den_nz(v,e); if (d!="true") c.assumed.push_back(d); } c.assumed.push_back(t); for (id_t a : e.done) c.assumed_atoms.insert(a);
    { mpq_class k; if (f.k==F::REL && f.cmp==LE && c.vis_const(f.a,k)) { auto it=c.lower_bounds.find(f.b); if (it==c.lower_bounds.end() || it->second<k) c.lower_bounds[f.b]=k; } }
    if (f.k==F::NOT && f.kids[0].k==F::REL && f.kids[0].cmp==EQ) { id_t d=c.vadd(f.kids[0].a,f.kids[0].b,-1); c.nz_set.insert(d); }   // known non-zero: avoids a spurious fork
    if (!c.need_witness && !eval_f(f)) c.need_witness=true; }   // default witness violates the assumption: fetch a model at the next fork
// every division performed so far on this path is guarded: the path condition alone implies divisor != 0
inline size_t unguarded_divisions(std::string *which=nullptr) { Ctx &c=ctx(); size_t bad=0; for (id_t v : c.nz) { Emit e; std::vector<std::string> as; as.push_back("(not "+smt_nonzero(v,e)+")"); QueryResult q=run_query(as,e,false,{},false); if (q.verdict!="unsat") { bad++; if (which && which->empty()) { Emit e2; *which=smt_nonzero(v,e2); } } } return bad; }
// coefficients of a value that is an affine form in input variables (denominator 1, every monomial a single variable): false otherwise
inline bool linear_form(sym x, std::map<std::string,mpq_class> &coef, mpq_class &c0) { Ctx &c=ctx(); x=sym::checked(x); Ctx::Val v=c.vals[x.nf]; if (v.d!=c.mono1) return false; coef.clear(); c0=0;
    for (auto &t : c.polys[v.n]) { const MonoV &m=c.monos[t.first]; if (m.empty()) { c0=t.second; continue; } if (m.size()!=1 || m[0].second!=1 || c.atoms[m[0].first].k!=Atom::VAR) return false; coef[c.vars[c.atoms[m[0].first].arg]]=t.second; } return true; }
// replace a cut (havoc) variable by its definition a/b (one level); other values are returned unchanged
inline sym unfold(sym s) { Ctx &c=ctx(); for (auto &h : c.havocs) if (h.var_val==s.nf) { bool hv=c.havoc_div; c.havoc_div=false; id_t nf=c.vdiv(h.a,h.b); c.havoc_div=hv; return sym::mk(s.raw,nf); } return s; }
// no division on this path may have a zero divisor when the stated precondition holds:  PC /\ pre /\ divisor = 0  must be unsat
// (the non-zero-divisor side conditions are NOT assumed in these queries)
inline void s_no_breakdown(const std::string &name, const F &pre) { Ctx &c=ctx(); Report &r=report(); std::vector<id_t> divs=c.nz;
    for (id_t v : divs) { r.obligations++; Emit e; std::vector<std::string> as; std::set<id_t> vs; f_dens(pre,vs); for (id_t d : vs) as.push_back(smt_den_nz(d,e)); as.push_back(smt_f(pre,e)); as.push_back("(not "+smt_nonzero(v,e)+")");
        QueryResult q=run_query(as,e,true,{},false);
        if (q.verdict=="unsat") { r.discharged++; continue; }
        if (q.verdict=="unknown") { r.inconclusive.push_back(name+" (solver: unknown/timeout)"); continue; }
        Violation vi; vi.obligation=name; vi.detail="a divisor of the computation is zero although the precondition holds"; vi.prefix=std::vector<bool>(c.prefix.begin(), c.prefix.begin()+std::min(c.pos,c.prefix.size())); vi.have_model=true; for (auto &kv : q.model) { vi.model[kv.first]=kv.second.exact; if (!kv.second.rational) vi.have_model=false; } r.violations.push_back(vi); return; } }
// structural (non-solver) check that must hold on every explored path
inline void s_require(const std::string &name, bool ok, const std::string &detail="") { Report &r=report(); r.obligations++; if (ok) { r.discharged++; return; }
    Ctx &c=ctx(); Violation v; v.obligation=name; v.detail=detail; v.prefix=std::vector<bool>(c.prefix.begin(), c.prefix.begin()+std::min(c.pos,c.prefix.size())); v.have_model=false;
    // a model of the path condition makes the failure replayable
    Emit e; QueryResult q=run_query({},e,true); if (q.verdict=="sat") { v.have_model=true; for (auto &kv : q.model) { v.model[kv.first]=kv.second.exact; if (!kv.second.rational) v.have_model=false; } }
    if (q.verdict=="unsat") { r.discharged++; c.infeasible_now=true; return; }     // path infeasible: vacuous; the caller may stop the path
    r.violations.push_back(v); }
// normaliser validation: raw operation log vs normal form at the current witness
inline size_t &q_epoch() { static size_t e=0; return e; }
// exact-rational evaluation (fails on irrational sqrt / division by zero)
struct QEval { std::unordered_map<id_t,std::pair<bool,mpq_class>> rmemo, amemo; std::vector<double> wit_snapshot; bool force_defs=false;   // force_defs: cut variables take the value of the division they stand for (the real semantics)
    bool var_q(id_t v, mpq_class &o) { Ctx &c=ctx(); auto it=c.havoc_of_var.find(v); if (it!=c.havoc_of_var.end() && (force_defs || !(v<c.wit.size() && c.wit[v]==c.wit[v]))) { const Ctx::Havoc h=c.havocs[it->second]; mpq_class a,b; if (!val_q(h.a,a) || !val_q(h.b,b) || b==0) return false; o=a/b; return true; } double d=(double)c.var_value(v); if (d!=d || std::isinf(d)) return false; o=mpq_class(d); return true; }
    static bool qsqrt(const mpq_class &x, mpq_class &o) { if (x<0) return false; mpz_class n=x.get_num(), d=x.get_den(); if (!mpz_perfect_square_p(n.get_mpz_t()) || !mpz_perfect_square_p(d.get_mpz_t())) return false; mpz_class rn,rd; mpz_sqrt(rn.get_mpz_t(),n.get_mpz_t()); mpz_sqrt(rd.get_mpz_t(),d.get_mpz_t()); o=mpq_class(rn,rd); return true; }
    bool raw_q(id_t r, mpq_class &o) { auto it=rmemo.find(r); if (it!=rmemo.end()) { o=it->second.second; return it->second.first; } Ctx &c=ctx(); const RNode x=c.rn[r]; mpq_class a,b; bool ok=true;
        auto hr=c.havoc_raw.find(r); if (hr!=c.havoc_raw.end()) { ok=var_q(hr->second,o); rmemo[r]={ok,o}; return ok; }
        switch (x.op) { case R_CONST: o=c.rconsts[x.a]; break; case R_VAR: case R_POISON: ok=var_q(x.a,o); break;
            case R_SQRT: ok=raw_q(x.a,a) && qsqrt(a,o); break; case R_ABS: ok=raw_q(x.a,a); if (ok) o=::abs(a); break;
            default: ok=raw_q(x.a,a) && raw_q(x.b,b); if (ok) { if (x.op==R_ADD) o=a+b; else if (x.op==R_SUB) o=a-b; else if (x.op==R_MUL) o=a*b; else { if (b==0) ok=false; else o=a/b; } } }
        if (ok && mpz_sizeinbase(o.get_num().get_mpz_t(),2)+mpz_sizeinbase(o.get_den().get_mpz_t(),2) > 200000) ok=false;
        rmemo[r]={ok,o}; return ok; }
    bool atom_q(id_t a, mpq_class &o) { auto it=amemo.find(a); if (it!=amemo.end()) { o=it->second.second; return it->second.first; } Ctx &c=ctx(); const Atom x=c.atoms[a]; mpq_class t; bool ok=true;
        switch (x.k) { case Atom::VAR: ok=var_q(x.arg,o); break; case Atom::SUM: ok=poly_q(x.arg,o); break; case Atom::SQRT: ok=poly_q(x.arg,t) && qsqrt(t,o); break; default: ok=poly_q(x.arg,t); if (ok) o=::abs(t); }
        amemo[a]={ok,o}; return ok; }
    bool mono_q(id_t m, mpq_class &o) { Ctx &c=ctx(); o=1; for (auto &t : c.monos[m]) { mpq_class a; if (!atom_q(t.first,a)) return false; for (int k=0;k<t.second;++k) o*=a; } return true; }
    bool poly_q(id_t p, mpq_class &o) { Ctx &c=ctx(); o=0; for (auto &t : c.polys[p]) { mpq_class m; if (!mono_q(t.first,m)) return false; o+=t.second*m; } return true; }
    bool val_q(id_t v, mpq_class &o) { Ctx &c=ctx(); mpq_class n,d; if (!poly_q(c.vals[v].n,n) || !mono_q(c.vals[v].d,d) || d==0) return false; o=n/d; return true; }
};
inline QEval &qeval() { static QEval q; return q; }
// normaliser validation: the raw operation log and the normal form are evaluated in exact rational arithmetic at the current witness
inline void validate_nf(sym s) { Ctx &c=ctx(); if (!s.valid()) return; QEval &q=qeval(); if (q.wit_snapshot.size()!=c.wit.size() || !std::equal(q.wit_snapshot.begin(),q.wit_snapshot.end(),c.wit.begin(),[](double a,double b){ return a==b || (a!=a && b!=b); }) || c.havoc_epoch!=q_epoch()) { q.rmemo.clear(); q.amemo.clear(); q.wit_snapshot=c.wit; q_epoch()=c.havoc_epoch; }
    mpq_class a,b; if (!q.raw_q(s.raw,a) || !q.val_q(s.nf,b)) { c.nf_skipped++; return; } c.nf_checks++; if (a!=b) { c.nf_mismatch++; if (getenv("SYMX_DEBUG")) std::cerr<<"nf mismatch raw="<<a.get_d()<<" nf="<<b.get_d()<<" pos="<<c.pos<<"\n"; } }

// concolic refutation: exact rational evaluation at the current path's witness point (the solver's model of the path prefix, or the
// hint point on the first path), with every cut variable bound to the division it stands for.  Only if the whole path condition, the
// stated assumptions and the non-zero-divisor conditions hold EXACTLY at that point and the obligation is false there, it is reported.
// exact rational evaluation where possible; where a value is irrational (square root of a non-square) a long-double evaluation with a clear margin
// (1e-9 relative) is accepted instead -- a point found this way is only a CANDIDATE: it is reported only after the concrete replay on both builds confirms it
inline bool q_rel(int cmp, id_t a, id_t b, bool &ok) { QEval &q=qeval(); mpq_class x,y; if (q.val_q(a,x) && q.val_q(b,y)) return cmp==EQ ? x==y : cmp==LT ? x<y : x<=y;
    Ctx &c=ctx(); long double u=c.ev(a), v=c.ev(b); if (u!=u || v!=v || std::isinf((double)u) || std::isinf((double)v)) { ok=false; return false; }
    long double sc=std::max<long double>(1,std::max(std::fabs(u),std::fabs(v))), d=(u-v)/sc; if (std::fabs(d) < 1e-9L) { ok=false; return false; }     // too close to call
    return cmp==EQ ? false : d<0; }
inline bool q_f(const F &f, bool &ok) { switch (f.k) { case F::REL: return q_rel(f.cmp,f.a,f.b,ok); case F::TRUE_: return true; case F::NOT: return !q_f(f.kids[0],ok);
    case F::AND: { bool r=true; for (auto &k : f.kids) { bool v=q_f(k,ok); if (!ok) return false; r=r&&v; } return r; } default: { bool r=false; for (auto &k : f.kids) { bool v=q_f(k,ok); if (!ok) return false; r=r||v; } return r; } } }
inline bool witness_refutes(const F &f, Violation &v) { Ctx &c=ctx(); if (c.concrete_mode) return false; QEval &q=qeval(); q.rmemo.clear(); q.amemo.clear(); q.wit_snapshot.clear(); q.force_defs=true; bool ok=true, res=false;
    // the floating fallback must use the same semantics (cut variables = their divisions): hide the solver's values of cut variables for the duration
    std::vector<double> saved_wit=c.wit; for (auto &kv : c.havoc_of_var) if (kv.first<c.wit.size()) c.wit[kv.first]=std::nan(""); c.ev_memo.clear(); c.rev_memo.clear();
    struct Restore { Ctx &c; std::vector<double> w; ~Restore() { c.wit=w; c.ev_memo.clear(); c.rev_memo.clear(); } } restore{c,saved_wit};
    bool dbg=getenv("SYMX_DEBUG")!=nullptr;
    do { bool fv=q_f(f,ok); if (dbg) std::cerr<<"witness_refutes: obligation value="<<fv<<" ok="<<ok<<"\n"; if (!ok || fv) break;
        bool pcok=true; size_t pi=0; for (auto &p : c.pc) { bool r=q_rel(p.cmp,p.a,p.b,ok); if (!ok || r!=p.truth) { pcok=false; if (dbg) std::cerr<<"witness_refutes: path condition "<<pi<<" of "<<c.pc.size()<<" not confirmed (ok="<<ok<<" value="<<r<<" wanted="<<p.truth<<" lhs="<<(double)c.ev(p.a)<<" rhs="<<(double)c.ev(p.b)<<")\n"; break; } ++pi; } if (!pcok) break;
        for (auto &a : assumed_fs()) if (a.first==c.havoc_epoch) { bool r=q_f(a.second,ok); if (!ok || !r) { pcok=false; if (dbg) std::cerr<<"witness_refutes: an assumption is not confirmed\n"; break; } } if (!pcok) break;
        for (id_t d : c.nz) { mpq_class x; if (q.val_q(d,x)) { if (x==0) { pcok=false; break; } continue; } long double u=c.ev(d); if (u!=u || std::fabs(u)<1e-12L) { pcok=false; if (dbg) std::cerr<<"witness_refutes: a divisor is not confirmed non-zero\n"; break; } } if (!pcok) break;
        res=true; } while (false);
    q.force_defs=false; q.rmemo.clear(); q.amemo.clear(); q.wit_snapshot.clear();
    if (!res) return false;
    v.prefix=std::vector<bool>(c.prefix.begin(), c.prefix.begin()+std::min(c.pos,c.prefix.size())); v.have_model=true; v.detail="fails at the path's witness point (exact rational evaluation)";
    for (size_t i=0;i<c.vars.size();++i) if (!c.havoc_of_var.count(i)) { double d=(double)c.var_value(i); if (d==d && !std::isinf(d)) v.model[c.vars[i]]=mpq_class(d).get_str(); }
    return true; }

// ------------------------------------------------------------------ exploration driver
struct infeasible : engine_stop { infeasible() : engine_stop{"infeasible prefix"} {} };
struct undecided : engine_stop { undecided() : engine_stop{"undecided prefix"} {} };
inline void Ctx::acquire_witness() { need_witness=false; int full=solver().timeout_ms; solver().timeout_ms=std::min(full,solver().feas_timeout_ms);
    // cheap local refutation first: the newest decision against the stated assumptions only (dropping conjuncts weakens the formula, so unsat carries over to the full path condition)
    if (!pc.empty() && pc.size()>4) { Emit e0; pc_from=pc.size()-1; QueryResult q0=run_query({},e0,false,{},false); pc_from=0; if (q0.verdict=="unsat") { solver().timeout_ms=full; throw infeasible(); } }
    Emit e; QueryResult q=run_query({},e,true); solver().timeout_ms=full;
    if (q.verdict=="unsat") throw infeasible();
    if (q.verdict=="sat") { std::vector<double> w(vars.size(), std::nan("")); for (auto &kv : q.model) if (kv.second.rational) { auto it=var_ix.find(kv.first); if (it!=var_ix.end()) w[it->second]=kv.second.d; } set_witness(w); }
    else { report().witness_unknown++; if (undecided_budget==0) throw undecided(); --undecided_budget; } }
struct Options { size_t max_paths=64; size_t max_depth=60; bool check_reach=true; size_t max_undecided=2; double budget_s=40; };
template<class Body> inline void explore(const std::string &casename, Body body, const Options &opt=Options()) {
    // NOTE: the term store is NOT reset between cases: the library keeps scalar constants in function-local statics (one, zero, ruge_stuben's eps),
    // whose handles would dangle (tried: a later Ruge-Stuben case then computed with a stale constant).  Memory is bounded by sharding instead.
    Ctx &c=ctx(); Report &r=report(); c.max_depth=opt.max_depth; c.undecided_budget=opt.max_undecided; size_t npaths=0;
    std::vector<Ctx::Work> todo; todo.push_back(Ctx::Work{}); std::vector<double> nowit;
    auto t_case=std::chrono::steady_clock::now();
    while (!todo.empty()) {
        if (npaths>0 && std::chrono::duration<double>(std::chrono::steady_clock::now()-t_case).count() > opt.budget_s) { r.paths_unexplored+=todo.size(); r.unexplored_cases.insert(casename+" (time budget)"); break; }
        if (npaths>=opt.max_paths) { r.paths_unexplored+=todo.size(); r.unexplored_cases.insert(casename); break; }
        Ctx::Work w=todo.back(); todo.pop_back();
        c.reset_path(); c.havoc_epoch++; c.prefix=w.prefix; c.work.clear(); c.set_witness(nowit); c.havocs.clear(); c.havoc_of_var.clear(); c.havoc_raw.clear(); c.nhavoc=0; c.havoc_div=false; c.stage=casename;
        c.need_witness=!w.prefix.empty();
        bool stopped=false; std::string why;
        try { body(); }
        catch (const engine_stop &s) { stopped=true; why=s.why; }
        if (stopped && why=="infeasible prefix") { r.paths_pruned++; continue; }   // nothing was queued beyond the prefix
        if (stopped && why=="undecided prefix") { r.paths_undecided_skipped++; continue; }
        npaths++; r.paths++;
        if (stopped) { r.paths_stopped++; r.stops[why]++; }
        if (opt.check_reach && w.prefix.empty()) { Emit e; int full=solver().timeout_ms; solver().timeout_ms=std::min(full,solver().feas_timeout_ms); QueryResult q=run_query({},e,false); solver().timeout_ms=full; if (q.verdict=="sat") r.reach_sat++; else if (q.verdict=="unsat") r.reach_unsat++; else r.reach_unknown++; }
        for (auto &nw : c.work) todo.push_back(nw);
    }
}
} // namespace symx

// ---------------------------------------------------------------------- std:: shims
namespace std {
inline symx::sym real(symx::sym a) { return a; }
inline symx::sym imag(symx::sym) { return symx::sym(0); }
inline symx::sym conj(symx::sym a) { return a; }
inline symx::sym abs(symx::sym a) { return symx::abs(a); }
inline symx::sym fabs(symx::sym a) { return symx::abs(a); }
inline symx::sym sqrt(symx::sym a) { return symx::sqrt(a); }
inline bool isnan(symx::sym) { return false; }
inline bool isinf(symx::sym) { return false; }
inline bool isfinite(symx::sym) { return true; }
template<> struct numeric_limits<symx::sym> {
    static constexpr bool is_specialized=true, is_integer=false, is_signed=true, is_exact=true, has_infinity=false, has_quiet_NaN=false;
    static symx::sym epsilon() { return symx::sym::q(mpq_class(1)/mpq_class("4503599627370496")); }   // 2^-52, as for double
    static symx::sym min() { return symx::sym::q(mpq_class(1)/(mpq_class("4503599627370496")*mpq_class("4503599627370496")*mpq_class("4503599627370496")*mpq_class("4503599627370496"))); }  // a tiny positive number (2^-208)
    static symx::sym max() { return symx::sym(1e300); }
    static symx::sym lowest() { return symx::sym(-1e300); } };
template<> class uniform_real_distribution<symx::sym> { std::uniform_real_distribution<double> d; public:
    typedef symx::sym result_type;
    uniform_real_distribution(double a=0, double b=1) : d(a,b) {}
    uniform_real_distribution(symx::sym a, symx::sym b) : d((double)a,(double)b) {}
    template<class G> symx::sym operator()(G &g) { return symx::sym::q(mpq_class(d(g))); } };   // exactly the double the real build draws
}
