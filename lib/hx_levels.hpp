// Level-scheduled ("parallel") sweeps of the real library code, executed without concurrency.
// Used by harnesses compiled with -D_OPENMP -Ilib/fakeomp and WITHOUT -fopenmp: omp_get_max_threads()/omp_get_thread_num() are
// controlled by the harness (hx_omp_threads / hx_omp_tid) and every "#pragma omp parallel" region executes once for the selected
// thread id.  The per-thread task tables a T-thread run would build are assembled by constructing the real object once per thread
// id; the real sweep()/solve() code is then executed task by task: level by level, threads in a chosen order inside a level.
#pragma once
#include "hx_amgcl.hpp"
#include <amgcl/relaxation/gauss_seidel.hpp>
#include <amgcl/relaxation/detail/ilu_solve.hpp>
extern "C" { extern int hx_omp_threads, hx_omp_tid; }
namespace hxl {
typedef amgcl::backend::builtin<hx::scalar> BE; typedef amgcl::backend::numa_vector<hx::scalar> NV; typedef hx::ACrs<hx::scalar> M;

template<class PS> inline void merge_thread(PS &all, const PS &o, int t) { all.tasks[t]=o.tasks[t]; all.ptr[t]=o.ptr[t]; all.col[t]=o.col[t]; all.val[t]=o.val[t]; all.ord[t]=o.ord[t]; }
template<class PS> inline size_t nlevels(const PS &s) { size_t m=0; for (auto &t : s.tasks) m=std::max(m,t.size()); return m; }

// Gauss-Seidel parallel_sweep<fwd>: schedule of a T-thread run
template<class PS, class Mx> inline std::shared_ptr<PS> gs_schedule(const Mx &A, int T) { hx_omp_threads=T; std::shared_ptr<PS> all; for (int t=0;t<T;++t) { hx_omp_tid=t; auto o=std::make_shared<PS>(A); if (!all) all=o; else merge_thread(*all,*o,t); } hx_omp_tid=0; return all; }
template<class PS, class V> inline void gs_run(const PS &s, const NV &rhs, V &x, bool reverse_threads) { int T=s.nthreads; size_t L=nlevels(s);
    for (size_t lev=0; lev<L; ++lev) for (int k=0;k<T;++k) { int t = reverse_threads ? T-1-k : k; if (lev>=s.tasks[t].size()) continue; PS one=s; auto task=s.tasks[t][lev]; one.tasks[t].clear(); one.tasks[t].push_back(task); hx_omp_tid=t; one.sweep(rhs,x); } hx_omp_tid=0; }

// ILU triangular solves: sptr_solve<lower>(L) then sptr_solve<upper>(U,D) of a T-thread run, applied in place to x
struct IluLevels { typedef amgcl::relaxation::detail::ilu_solve<BE> IS; typedef IS::sptr_solve<true> LO; typedef IS::sptr_solve<false> UP; std::shared_ptr<LO> lo; std::shared_ptr<UP> up; int T;
    IluLevels(const M &L, const M &U, const NV &D, int T) : T(T) { hx_omp_threads=T;
        for (int t=0;t<T;++t) { hx_omp_tid=t; auto a=std::make_shared<LO>(L); auto b=std::make_shared<UP>(U,D.data()); if (!lo) { lo=a; up=b; } else { merge_thread(*lo,*a,t); merge_thread(*up,*b,t); up->D[t]=b->D[t]; } } hx_omp_tid=0; }
    void solve(NV &X, bool rev) const { for (int pass=0;pass<2;++pass) { size_t Ln = pass==0 ? nlevels(*lo) : nlevels(*up);
        for (size_t lev=0;lev<Ln;++lev) for (int k=0;k<T;++k) { int t=rev?T-1-k:k; hx_omp_tid=t;
            if (pass==0) { if (lev>=lo->tasks[t].size()) continue; LO one=*lo; auto tk=lo->tasks[t][lev]; one.tasks[t].clear(); one.tasks[t].push_back(tk); one.solve(X); }
            else { if (lev>=up->tasks[t].size()) continue; UP one=*up; auto tk=up->tasks[t][lev]; one.tasks[t].clear(); one.tasks[t].push_back(tk); one.solve(X); } } } hx_omp_tid=0; }
};

inline hx::Pattern reversed(const hx::Pattern &p) { hx::Pattern q=p; for (int i=0;i<p.n;++i) std::reverse(q.col.begin()+p.ptr[i], q.col.begin()+p.ptr[i+1]); q.name=p.name+"_unsorted"; return q; }
// diagonal entry stored first, the rest of the row descending
inline hx::Pattern diag_first(const hx::Pattern &p) { hx::Pattern q=reversed(p); for (int i=0;i<p.n;++i) for (ptrdiff_t k=q.ptr[i];k<q.ptr[i+1];++k) if (q.col[k]==i) { std::rotate(q.col.begin()+q.ptr[i], q.col.begin()+k, q.col.begin()+k+1); break; } q.name=p.name+"_diagfirst"; return q; }
}
