# property table: which harnesses decide which property, with stated bounds
PROPS = {}

PROPS["C07"] = {
    "S": [{"name": "c07", "src": "c07.cpp", "shards": 16}],
    "explanation": "The real backend primitives (spmv, residual, axpby, axpbypcz, vmul, copy, clear, inner_product, lin_comb) are instantiated at a symbolic scalar with ALL matrix values, vector values and coefficients symbolic; z3 decides, per sparsity pattern and per solver-decided branch (beta==0 / beta!=0), that every output entry equals its defining formula for all real values. The NaN clause is decided on the raw operation log (old output never an operand when its coefficient is zero).",
    "bounds": {"quick": "patterns: all n x m masks for (n,m) in {1x1,1x2,2x1,2x2,2x3,3x2}, 24 seeded 3x3, 8 seeded up to 6x6; vectors n<=4; 2x2 blocks on patterns <=2x2 exhaustive + sampled 2x3/3x2; complex <=2x2 exhaustive + sampled; block_crs block sizes 2,3 on 8 seeded shapes <=6x6; hybrid 4 seeded",
               "thorough": "all masks up to 3x3, 40 seeded up to 6x6, vectors n<=6, all block/complex masks up to 3x2/3x3, 30 block_crs, 12 hybrid"},
    "out": "floating-point rounding; Eigen backend and Eigen value types; float/long double as distinct IEEE formats; OpenMP execution (see C09)",
}
