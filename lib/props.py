# property table: which harnesses decide which property, with stated bounds
PROPS = {}

PROPS["C07"] = {
    "S": [{"name": "c07", "src": "c07.cpp", "shards": 16}],
    "explanation": "The real backend primitives (spmv, residual, axpby, axpbypcz, vmul, copy, clear, inner_product, lin_comb) are instantiated at a symbolic scalar with ALL matrix values, vector values and coefficients symbolic; z3 decides, per sparsity pattern and per solver-decided branch (beta==0 / beta!=0), that every output entry equals its defining formula for all real values. The NaN clause is decided on the raw operation log (old output never an operand when its coefficient is zero).",
    "bounds": {"quick": "patterns: all n x m masks for (n,m) in {1x1,1x2,2x1,2x2,2x3,3x2}, 24 seeded 3x3, 8 seeded up to 6x6; vectors n<=4; 2x2 blocks on patterns <=2x2 exhaustive + sampled 2x3/3x2; complex <=2x2 exhaustive + sampled; block_crs block sizes 2,3 on 8 seeded shapes <=6x6; hybrid 4 seeded",
               "thorough": "all masks up to 3x3, 40 seeded up to 6x6, vectors n<=6, all block/complex masks up to 3x2/3x3, 30 block_crs, 12 hybrid"},
    "out": "floating-point rounding; Eigen backend and Eigen value types; float/long double as distinct IEEE formats; OpenMP execution (see C09)",
}

PROPS["C16"] = {
    "S": [{"name": "c16", "src": "c16.cpp", "shards": 16, "solver_timeout_ms": {"quick": 20000, "thorough": 120000}}],
    "explanation": "skyline LU, the pivoted small inverse, Householder QR and static_matrix algebra are executed at a symbolic scalar with ALL matrix/vector entries symbolic. Pivot tests, explicit-zero tests and pivot-choice comparisons are solver-decided forks; per feasible path z3 proves the exactness identities (A*solve(f)=f, A*inv(A)=I, A=QR, Q'Q=I, normal equations) as polynomial identities over the reals under the listed non-zero-divisor side conditions, and proves that every division of the LU factorisation is guarded by a zero test (zero pivot => exception).",
    "bounds": {"quick": "skyline LU: all patterns with full diagonal n<=3 (entries non-zero), all patterns n<=2 with explicit zeros allowed, tridiagonal/arrow n<=6, band(5,2), 2x2 grid, 6 seeded 4x4..5x4; inverse n<=3 (all pivot orders, <=600 paths); QR shapes 1x1,2x1,1x2,3x1,1x3,4x1 and zero-column 2x2/3x2 in both storage orders; QR solve 1x1,2x1,3x1,1x2,1x3; static_matrix N<=3; solver timeout 20 s/query",
               "thorough": "LU n<=4 sampled 1/16 + dense 4x4, explicit zeros n<=3, QR 2x2 full, static_matrix N<=4, 120 s/query"},
    "out": "rounding / backward stability; QR with two or more non-trivial reflectors beyond 2x2 (nested radicals: z3 timeouts measured at 3x2); complex and block skyline LU; solver/eigen.hpp; Cuthill-McKee for symbolic graphs is decided by engine C",
}

PROPS["C06"] = {
    "S": [{"name": "c06", "src": "c06.cpp", "shards": 16, "flags": ["-fno-access-control"], "solver_timeout_ms": {"quick": 20000, "thorough": 60000}}],
    "explanation": "Each relaxation (damped Jacobi, SPAI-0, Gauss-Seidel, ILU(0), ILU(k), ILUP, ILUT; Chebyshev and SPAI-1 on concrete matrices) is constructed and applied by the real templates at a symbolic scalar. With the matrix entries, right-hand side, iterate and damping symbolic, z3 proves per pattern and per feasible path: the sweep equals x + M^-1(f - A x) for the documented splitting (triangular-solve identities for Gauss-Seidel, (LU)(x'-x) = damping*(f-Ax) with the factors read from the object), (LU)_ij = a_ij on the admitted pattern (pattern of A / level-of-fill<=k / pattern of A^(k+1)), LU = A whenever the exact factors fit, the exact solution is a fixed point of pre- and post-sweep, level-scheduled = serial triangular solve, and apply() ignores old output content.",
    "bounds": {"quick": "all patterns with full diagonal n<=3 (entries non-zero, rows sorted) for Jacobi/SPAI-0/GS/ILU0; ILU(k=1) and ILUP(1) on all 3x3, ILU(2),ILU(3) sampled 1/4, ILUT(tau=0,p>n) n<=2 + 1/8 of 3x3; tridiagonal 4,5, arrow 4, 2x2 grid, band(4,2) incl. ILU(k=n); Chebyshev degree 1..3 (plain and scaled, Gershgorin) on 4 seeded SPD M-matrices n<=6, vectors symbolic; SPAI-1 on bidiagonal matrices n<=4 (rows with <=2 entries); <=48 paths per case",
               "thorough": "adds dense 4x4, arrow 5, 3x2 grid, 10 seeded 4x4, ILUP(2), Chebyshev degree<=5 on 12 matrices, SPAI-1 on 20"},
    "out": "rounding; ILUT with tau>0 (threshold dropping is value dependent: only the exact-LU limit and triangularity are decided); Chebyshev with power-iteration bounds; SPAI-1 rows with three or more entries (nested radicals of the row QR: no verdict in 20 s); complex and block value types (see C13); level-scheduled solves with more than one thread (see C09)",
}

PROPS["C01"] = {
    "S": [{"name": "c01", "src": "c01.cpp", "shards": 16, "solver_timeout_ms": {"quick": 20000, "thorough": 60000}}],
    "explanation": "Each of the 8 iterative solvers is executed by the real templates on a symbolic system. M-mode: matrix entries, right-hand side and initial guess symbolic, preconditioner either the identity or an ARBITRARY dense linear operator with symbolic entries; L-mode: concrete SPD M-matrix with the real AMG hierarchy as preconditioner, vectors symbolic. All inner coefficients are cut to fresh variables (truthfulness may not depend on them); the exits of the iteration are solver-decided forks. Per feasible path z3 proves res^2 <f,f> = ||f - A x||^2 (||P(f - A x)||^2 for left preconditioning) for the returned (x, res), the iteration bound, and with symbolic tol/abstol that an early exit implies the carried norm is below max(tol|f|, abstol).",
    "bounds": {"quick": "maxiter k<=2 (k<=3 configs enumerated, M-mode runs k<=2; idrs/bicgstabl/lgmres k=1 on 3x3), patterns dense 2x2 and tridiagonal 3x3, restart M in {1,2}, BiCGStab(L) only L=1, k=1 on the dense 2x2 system (its inner QR leaves radicals that make larger cases inconclusive; L=2 and L-mode in the thorough tier), IDR(s) k=2 only for s=1, s in {1,2}, K=1, both sides; arbitrary-P cases k=1; L-mode AMG (smoothed aggregation+spai0 on a 3x2 grid k<=2; aggregation+gauss_seidel 3x3 grid, smoothed aggregation+damped_jacobi n=7 for k=1); <=16 paths and 40 s per case; feasibility queries 1 s (at most 2 undecided prefixes per case are explored, the rest is counted as skipped)",
               "thorough": "k<=4 enumerated, M-mode k<=3 on tridiagonal 3x3, dense 3x3 k<=2, arbitrary P k<=2, L-mode k<=3, 48 paths per case"},
    "out": "rounding drift of the recursively carried residual; right-hand sides with |f| < 2^-50 (documented trivial-solution exit, see C15); convergence of every combination within 100 iterations on model problems and Richardson's asymptotic rate (floating-point long-run behaviour: not decidable by this technique); complex / block value types",
}

PROPS["C03"] = {
    "S": [{"name": "c03", "src": "c03.cpp", "shards": 16, "flags": ["-fno-access-control"]}],
    "explanation": "The real amg constructor, level::step_down, rebuild() and the real coarsening policies run at a symbolic scalar. (a) One coarsening step with ALL matrix entries symbolic: every strong/weak decision is a solver-decided fork; per path z3 proves R = P^T and, with P and R cut to fresh variables on their pattern, coarse = (1/over_interp) R A P as a degree-3 polynomial identity. (b) Whole hierarchies on concrete dyadic M-matrices: every stored level matrix equals the exact Galerkin product of the level above, sizes strictly decrease, the coarsest level uses the direct solver iff rows<=coarse_enough and direct_coarse, and the direct solver solves the Galerkin system for a symbolic right-hand side. (c) rebuild(A') with a symbolic perturbation: transfer operators handle-identical, every level = R A' P, the action equals a fresh hierarchy assembled from A' with the recorded operators (for all f and all perturbations), 4A gives B/4, and rebuilding with A restores the original term vector.",
    "bounds": {"quick": "step: tridiagonal 3,4 and dense 3x3, 4 coarsenings (+ over_interp 1.5, 2.0), <=24 paths; hierarchies: 3x3 and 4x3 grids, tridiagonal 8, coarse_enough in {1,2,3,5}, direct_coarse on/off, max_levels in {1,2,inf}, nonsymmetric variant; rebuild: 3x3 grid and tridiagonal 8, sequences A'|4A|A',A, perturbation symbolic on first and last row, 5 coarsening/relaxation pairs",
               "thorough": "adds tridiagonal 5, 2x2 grid, arrow 4 (step); 4x4 grid, random n=10, band(12,2) (hierarchy, rebuild), 64 paths"},
    "out": "rounding; row-merge SpGEMM (thread count > 16; see C08/C09); block value types; n beyond the bound",
}

PROPS["C02"] = {
    "S": [{"name": "c02", "src": "c02.cpp", "shards": 16, "solver_timeout_ms": {"quick": 30000, "thorough": 120000}}],
    "explanation": "The real amg::apply/cycle runs on concrete dyadic SPD M-matrices with SYMBOLIC right-hand sides. z3 (linear real arithmetic) proves B(af+bg) = aBf + bBg for all f, g; a repeated application performs the same operations as the first (raw operation log identical => bitwise) and contains no variable of earlier right-hand sides; apply() never reads the old output; amg(4A) = B/4 exactly (ILUT excepted). The operator matrix B is extracted exactly from the linear forms and z3 decides over a free vector v: B symmetric, v'Bv > 0 and v'(2B - BAB)v > 0 for all v != 0 (quadratic forms, QF_NRA), i.e. SPD and rho(I - BA) < 1.",
    "bounds": {"quick": "matrices: 3x2 grid, tridiagonal 7, 3x3 grid (SPD/contraction queries for n<=9; Chebyshev n<=6); cycles: V, W, npre/npost in {1,2,3}, pre_cycles 2, smoother on the coarsest level, max_levels 2, coarse_enough in {1,2,4}; smoothed_aggregation+spai0 / aggregation+damped_jacobi / smoothed_aggregation+gauss_seidel on all 8 cycle settings; ruge_stuben+spai0, emin+damped_jacobi, ilu0, iluk, ilup, chebyshev, ilut on V and W",
               "thorough": "adds 4x3 grid, random n=9, 4x4 grid and all cycle settings for every pair"},
    "out": "rounding; n beyond the bound (B is extracted for n<=16 only); SPAI-1 inside AMG (nested radicals of the QR: no verdict within 120 s / 10 GB); block value types; non-symmetric smoothers and unequal npre/npost are checked for linearity/history/scaling only",
}

C_BASIC = {"name": "k_basic", "wrapper": "k_basic.cpp", "harness": "h_basic.c", "driver": "d_basic.c",
    "stub_regex": ["_Sp_counted_base.*release", "__shared_ptr.*D2Ev", "__shared_count.*D2Ev"],
    "assumptions": ["engine C: allocation failure is out of scope (operator new never returns null); values are integer tags that are moved, never computed on",
                    "engine C: generated C validated against the g++ build of the same wrapper on seeded random inputs each run"],
    "harnesses": [
        {"fn": "h_sort_row", "unwind": 8, "defines": ["NNZ=6"], "timeout": 900},
        {"fn": "h_sort_rows", "unwind": 7, "defines": ["N=3", "NNZ=5"], "timeout": 1200, "thorough": {"defines": ["N=3", "NNZ=6"], "unwind": 8, "timeout": 3000}},
    ]}

PROPS["C08"] = {
    "S": [{"name": "c08", "src": "c08.cpp", "shards": 16}],
    "C": [C_BASIC],
    "explanation": "Engine S: transpose, both SpGEMM algorithms (marker-based via product(), row-merge called directly), sum, scale, sort_rows, diagonal (+inverted), pointwise_matrix, the CRS copy/convert constructors and the Gershgorin spectral-radius estimate are executed by the real templates with ALL values symbolic; per sparsity pattern z3 proves every output entry equals its dense definition, structure is well formed (monotone row pointers, in-range columns, no duplicate column in a product/sum row, pattern = union), pointwise entry = largest |a| of the block (max decided by solver forks), Gershgorin value = max row sum and -- for n<=2 with symbolic entries -- that no real or complex eigenpair exceeds it. Engine C: detail::sort_row and backend::sort_rows are lowered from clang IR to C and CBMC proves sortedness, pair preservation, permutation and row confinement for EVERY CRS structure within the bound (symbolic sizes, row pointers, columns).",
    "bounds": {"quick": "engine S patterns: transpose all 2x2, 2x3, 1/8 of 3x3 + 6 seeded unsorted <=5x5; product all 2x2*2x2, 120 seeded 2x3*3x2 / 3x2*2x3, 40 seeded 3x3*3x3, sorted and unsorted output; sum all 2x2+2x2 and 80 seeded; misc all 2x2, 24 of 3x3, 8 of 2x3 (rows stored in reverse order); Gershgorin 2x2 patterns, tridiagonal 3 (plain and scaled), eigenvalue bound n<=2; pointwise block sizes 2,3 on 2x2 / 2x3 block patterns with structurally incomplete blocks (<=96 paths). engine C: sort_row n<=6 (unwind 8), sort_rows n<=3 rows, nnz<=5 (unwind 7)",
               "thorough": "all 3x3 transposes, 800 2x3/3x2 products, 300 3x3 products and sums, Gershgorin dense 3x3; engine C sort_rows nnz<=6"},
    "out": "rounding; the >16-thread dispatch between the SpGEMM algorithms (both are called directly); power-method estimate vs largest singular value; symbolic-structure quantification for kernels that allocate (transpose, product, sum): CBMC gave no verdict within 400 s even at 2 rows / 3 non-zeros on the IR-derived C (shared_ptr control blocks, std::rotate), so their structure is enumerated, not solved",
}

PROPS["C15"] = {
    "S": [{"name": "c15", "src": "c15.cpp", "shards": 16, "no_validate": True}],   # exact-rational concrete runs of whole solves exhaust the 6 GB budget (rational growth); the obligations here are raw-log identities, validated in C01/C05
    "explanation": "For each of the 9 solver classes coupled to real preconditioners (two AMG hierarchies, ILU(0), identity) on concrete SPD matrices with SYMBOLIC vectors, a call on a used object is compared with the same call on a freshly constructed object: the raw operation logs must be identical (hence bitwise-equal results) and the result may not mention any variable of earlier calls, also after a call with junk (NaN-like) inputs; exits of the iteration are solver-decided forks. Zero right-hand side => zero vector in zero iterations; a guess that solves the system => zero iterations and x unchanged (z3); right-hand side and matrix arrays unmodified. LGMRES without always_reset is the documented exception and is only observed. skyline_lu: second solve on a used object equals a fresh solve with the matrix fully symbolic.",
    "bounds": {"quick": "matrices 3x2 grid (all solvers, k=1) and tridiagonal 6 (cg/bicgstab/richardson), k=2 for cg/bicgstab/richardson; tol=1e-8; restart 1-2, L in {1,2}, s in {1,2}; <=24 paths and 40 s per case; call scripts: solve, solve | solve, junk solve, solve | zero rhs | converged guess",
               "thorough": "adds 3x3 grid, random n=7, k<=3 for every solver"},
    "out": "rounding; deflated_solver and rebuild in the call script (rebuild is decided in C03); alternative system matrices passed to the solver; longer call sequences",
}

PROPS["C14"] = {
    "S": [{"name": "c14", "src": "c14.cpp", "shards": 16}],
    "explanation": "For every coarsening (4), relaxation (9) and solver (9) name the solver assembled through the run-time property-tree interface and the compile-time composition with the same parameter values run on the same symbolic vectors; the raw operation logs of x, the iteration count and the residual must be identical (bitwise equality), with the scalar-typed parameters (tol, damping, omega, delta) SYMBOLIC and carried through the tree as strings, so the equality holds for all their values; a compile-time params object imported from the same tree must agree as well. For 23 parameter structures (solvers, relaxations, coarsenings, amg, make_solver, deflated_solver) every exported key is mutated to a non-default value, imported and exported again: identity; an extra unknown key reaches the AMGCL_PARAM_UNKNOWN hook; the five invalid enumeration values raise exceptions.",
    "bounds": {"quick": "matrix: 3x2 grid (tridiagonal 4 for spai1), maxiter 2 (1 for bicgstabl), 21 component triples varying one component at a time, <=12 paths per case",
               "thorough": "adds tridiagonal 7"},
    "out": "integer/bool/float parameters are not symbolic (one non-default value each); mpi::amg parameters; combinations varying several components at once",
}

PROPS["C05"] = {
    "S": [{"name": "c05", "src": "c05.cpp", "shards": 16, "solver_timeout_ms": {"quick": 20000, "thorough": 90000}}],
    "explanation": "The real solvers run with maxiter = k and NO cuts on concrete dyadic systems with dense preconditioners, the right-hand side and initial guess lying on seeded lines in one symbolic parameter t, so every coefficient is the true rational function of t. z3 proves for all t: Richardson returns x + omega P(f - A x) repeated k times (omega symbolic too); CG satisfies the Galerkin characterisation of the A-norm error minimiser (x_k - x_0 in K_k(PA, P r0) by a vanishing Gram determinant, r_k orthogonal to K_k) and agrees with a dense textbook CG; BiCGStab (both sides) agrees with a dense textbook BiCGStab on the preconditioned operator; GMRES (both sides), FGMRES and LGMRES in the first cycle satisfy the Petrov-Galerkin condition of the residual minimiser and their residual is non-increasing in k; with an exact or the identity preconditioner CG, BiCGStab, GMRES, FGMRES, LGMRES, IDR(1), BiCGStab(1) reach A x = f within n (+n/s) iterations.",
    "bounds": {"quick": "n in {2,3} dense systems (SPD M-matrices for CG, nonsymmetric diagonally dominant otherwise), preconditioner identity / diagonal / dense, k<=n (k<=2), restart M=2, BiCGStab reference k=2 only for n=2, monotonicity for n=2; termination n=2; <=8-12 paths per case",
               "thorough": "n<=4 for CG/BiCGStab with k<=3, termination n<=3, LGMRES left"},
    "out": "rounding; claims are for all t on the seeded lines, not for all right-hand sides; BiCGStab(L>1), IDR(s>1) and LGMRES beyond the first cycle against an independent reference (nested radicals / degree growth: measured timeouts); complex systems; restart lengths other than 2",
}

PROPS["C09"] = {
    "S": [{"name": "c09", "src": "c09.cpp", "shards": 16, "flags": ["-D_OPENMP=201511", "-I{ROOT}/lib/fakeomp", "-fno-access-control"]}],
    "explanation": "The real constructors of gauss_seidel::parallel_sweep<fwd/bwd> and ilu_solve::sptr_solve<lower/upper> are executed for T threads (stand-in omp.h, no concurrency: one construction per thread id assembles the per-thread task tables of a T-thread run) on enumerated sparsity patterns, symmetric and non-symmetric, with symbolic values. Decided per pattern: every row scheduled exactly once; no two rows of one level read or write each other's unknown and the schedule respects the serial order (true and anti-dependencies) -- which discharges ALL interleavings between barriers; per-thread matrix copies equal the original rows; the REAL sweep/solve code executed level by level in two opposite thread orders yields the raw operation log of the serial sweep (bitwise) for Gauss-Seidel and a z3-proved equal value for the triangular solves (summation order differs, as the property allows). Both SpGEMM algorithms give bitwise the single-thread result for every thread id of a T-thread run (thread-private work arrays).",
    "bounds": {"quick": "patterns: all 2x2 and 3x3 with full diagonal, 40 seeded 4x4, 12 seeded 5x5, tridiagonal 5, 3x2 grid, arrow 5; thread counts T in {2,4,5} (T > rows included); SpGEMM T in 2..4 and 17..19 on 20 seeded pairs",
               "thorough": "200 seeded 4x4, 60 seeded 5x5, ILU schedules for all T"},
    "out": "real concurrent execution (no thread is run concurrently; the OpenMP barrier after each level is assumed); thread counts above 19; cross-thread reductions (inner product, spectral radius, emin) and thread-seeded random vectors, which the property itself only requires to agree up to summation order; data races in '#pragma omp parallel for' loops over disjoint rows",
}

PROPS["C04"] = {
    "S": [{"name": "c04", "src": "c04.cpp", "shards": 16}],
    "explanation": "plain_aggregates, pointwise_aggregates, tentative_prolongation, smoothed_aggregation and ruge_stuben run at a symbolic scalar with ALL matrix values symbolic, so every strong/weak, C/F and truncation decision is a solver-decided fork and all strength graphs on a pattern are covered. Per feasible path: every node with a strong neighbour lies in exactly one non-empty aggregate, isolated nodes in none, ids contiguous; strong flag <=> eps^2 a_ii a_cc < a_ic^2 (z3); coarsening A (x) I_b with block_size b is the lifted coarsening of A; the tentative prolongation has one unit entry per aggregated row in its aggregate's column (disjoint supports, orthogonal columns, constant reproduced); smoothed aggregation returns exactly (I - omega D_F^-1 A_F) P_tent (fixed and Gershgorin-estimated omega) and R = P^T; on symmetric zero-row-sum matrices the smoothed-aggregation and Ruge-Stuben interpolation rows sum to one (with and without truncation).",
    "bounds": {"quick": "all connected and disconnected symmetric graphs on 2 and 3 nodes, 1/4 of the 4-node graphs, path 5, 3x2 grid; eps_strong 0.08 and 0.5; 10 seeded non-symmetric 3x3/4x4 patterns; block sizes 2 and 3; <=48-64 paths per case",
               "thorough": "all 4-node graphs, 3x3 grid, arrow 5, 40 non-symmetric patterns"},
    "out": "reproduction of user-supplied near-null-space vectors (that branch of tentative_prolongation is hard-wired double-precision QR, floating-point code a symbolic scalar never reaches: not decidable here); emin energy minimality; graphs beyond 6 nodes; Ruge-Stuben on entries below the library's absolute zero threshold",
}

PROPS["C13"] = {
    "S": [{"name": "c13", "src": "c13.cpp", "shards": 16}],
    "explanation": "adapter::block_matrix / unblock_matrix with ALL scalar entries symbolic (full and structurally incomplete blocks): the block matrix expands entry by entry to the scalar matrix, block pattern = blocks with a stored entry, block spmv (block vectors and scalar vectors) = scalar spmv, unblock(block(S)) = S. make_block_solver, the block value type through the adapter, relaxation::as_block, coarsening::as_scalar and builtin_hybrid solve a concrete block-structured SPD system with symbolic vectors (coefficients cut): z3 proves the returned (x, res) truthful for the SCALAR system. adapter::complex_matrix: the real 2n x 2n form maps interleaved (Re x, Im x) to (Re Ax, Im Ax) for symbolic complex entries, hence the same solution; complex_range exposes the vector without arithmetic.",
    "bounds": {"quick": "block sizes 2 and 3; block patterns 1x1, dense 2x2, tridiagonal 3, two non-symmetric patterns; formulations on tridiagonal-3 and 2x2-grid block patterns (block size 2) and a 2-block system with block size 3, one solver iteration; complex adapter on 5 patterns n<=3",
               "thorough": "block size 4, formulations with 2 iterations and block size 3"},
    "out": "a single-precision preconditioner under a double-precision solver reaching 1e-8 on model problems (a rounding statement: not decidable by this technique); Eigen block types; solves with more than one or two iterations",
}

PROPS["C18"] = {
    "S": [{"name": "c18", "src": "c18.cpp", "shards": 16, "flags": ["-fno-access-control"]}],
    "explanation": "schur_pressure_correction with exact inner solvers (skyline LU for the flow block; an exact dense solve of the very operator the preconditioner exposes as its Schur complement for the pressure block) on concrete non-symmetric matrices and SYMBOLIC right-hand sides: for every pressure mask, adjust_p in {0,1,2} and both diagonal approximations z3 proves type 1 is the exact inverse (K*apply(f) = f), type 2 solves the block upper-triangular system, the extracted Kuu/Kup/Kpu/Kpp reassemble to K, and apply() ignores the old output. CPR: weighting row times diagonal block = e_1^T, the pressure matrix equals the weighted first-unknown columns of A, x = S f + Scatter P(Fpp(f - A S f)) with the real sub-preconditioners, Scatter/Fpp structure, and partial_update with an unchanged matrix leaves the action unchanged (transfer operators updated or kept). deflated_solver: after projection Z^T(f - A x) = 0 and the solve is truthful for the original system.",
    "bounds": {"quick": "Schur: dense 3x3 and tridiagonal 4 with all 2^n-2 masks, dense 4x4 with a third of the masks, types 1/2, adjust_p 0/1/2; CPR: block sizes 2,3 on 2- and 3-block systems, active_rows full and partial; deflation: 3x2 grid and tridiagonal 7 with 1-2 deflation vectors, one CG iteration",
               "thorough": "5x5 Schur with all masks, CPR block size 4, 3 deflation vectors"},
    "out": "cpr_drs; CPR with block-valued input versus scalar input with block_size (separate code path); pmask pattern strings; inexact inner solves; rounding",
}

PROPS["C17"] = {
    "S": [{"name": "c17", "src": "c17.cpp", "shards": 16, "flags": ["-fno-access-control"]}],
    "explanation": "Every adapter is driven by the real templates on matrices with ALL values symbolic: the CRS-tuple adapter with index types int/long/unsigned/size_t/ptrdiff_t and iterator ranges, zero_copy / zero_copy_direct (the matrix aliases the user arrays, does not own them, arrays intact afterwards), the row-builder adapter and the internal CRS built from each reproduce rows, columns, non-zero count and values exactly and give the source matrix-vector product (z3). adapter::reorder: permutation property, reordered matrix = P A P^T, and with an exact inner solve the back-permuted solution solves the original system for all values; scaled_problem: unit diagonal and the post-scaled solution solves the original system. Row order: amg (3 variants), as_preconditioner (ILU0, Gauss-Seidel), dummy, cpr and schur_pressure_correction built from matrices whose row entries are reversed / rotated / shuffled act like the ones built from the sorted matrix (concrete matrices with symbolic vectors, and fully symbolic 3x3 matrices).",
    "bounds": {"quick": "adapter patterns: all 2x2, 16 seeded 3x3, tridiagonal 4; reorder / scaled: all 2x2, 1/6 of the 3x3 patterns with full diagonal, tridiagonal 4, arrow 4; row order: 3x2 grid, tridiagonal 6, 2x2 grid with three shufflings each, symbolic tridiagonal 3 and dense 3x3",
               "thorough": "60 seeded 3x3 adapter patterns, all 3x3 patterns for reorder / scaled"},
    "out": "Eigen, uBlas and Epetra adapters (not instantiable at a symbolic scalar in the time available / not installed); the shared_ptr (internal CRS) constructors, which document sorted input; cpr_drs",
}

PROPS["C20"] = {
    "S": [{"name": "c20", "src": "c20.cpp", "shards": 9, "flags": ["-I{REPO}"]}],
    "explanation": "lib/amgcl.cpp is compiled unmodified inside the harness translation unit with `double` renamed to the symbolic scalar, so the amgclHandle functions build and run the real objects at the symbolic type. On concrete SPD systems with symbolic vectors and a symbolic tolerance: solve through the C API = solve through the C++ run-time interface with the same parameters (identical raw operation log: bitwise x, iteration count, residual); the Fortran-style 1-based entry points on the shifted arrays = the 0-based ones; both also with a replacement system matrix; preconditioner handles likewise; the arrays are embedded between guard elements (junk values, absurd indices) and no result may depend on them; the typed setters and read_json deliver the parameters unchanged to the parameter tree.",
    "bounds": {"quick": "matrices: 3x2 grid and tridiagonal 5; 4 (coarsening, relaxation, solver) triples with maxiter 1-2; <=8 paths per case",
               "thorough": "6 triples"},
    "out": "rounding; the formation of the end iterator col + ptr[n] in the 1-based entry points (a pointer two past the end is formed, never dereferenced: not flagged); amgcl_*_report output; larger systems",
}
