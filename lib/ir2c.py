#!/usr/bin/env python3
"""ir2c: translate a textual LLVM-14 module (clang -O1 -S -emit-llvm, typed pointers) into one C file for CBMC.

Model: every LLVM pointer is a C `char*`; integers are uintN_t (signed operations through casts); first-class
aggregates (only the flat two-member kind clang emits: {iN,i1} of *.with.overflow, {i8*,i32} of landingpad) are
split into component variables; struct layout is computed from the module's type definitions (natural alignment,
packed structs honoured) so GEPs become byte offsets.  Exceptions: __cxa_throw sets the global __ir_exc; after every
call the flag is tested and control goes to the invoke's unwind label or returns to the caller.  Unknown external
functions become nondet stubs and are listed (stubs are part of the claim)."""
import re, sys

class T:  # type
    def __init__(s, k, **kw): s.k = k; s.__dict__.update(kw)
    def __repr__(s): return "T(%s)" % s.k

class Parser:
    def __init__(s, text):
        s.named = {}      # struct name -> T
        s.text = text

    # ---------------------------------------------------------------- types
    def parse_type(s, t, i=0):
        """returns (T, next index) parsing from t[i:]"""
        i = s.skip(t, i)
        if t.startswith('void', i) and not re.match(r'[\w.]', t[i+4:i+5] or ' '): ty = T('void'); i += 4
        elif t.startswith('float', i): ty = T('float'); i += 5
        elif t.startswith('double', i): ty = T('double'); i += 6
        elif t.startswith('x86_fp80', i): ty = T('fp80'); i += 8
        elif t.startswith('metadata', i): ty = T('metadata'); i += 8
        elif t.startswith('label', i): ty = T('label'); i += 5
        elif t.startswith('...', i): ty = T('vararg'); i += 3
        elif t[i] == 'i' and t[i+1].isdigit():
            m = re.match(r'i(\d+)', t[i:]); ty = T('int', bits=int(m.group(1))); i += m.end()
        elif t[i] == '%':
            name, i = s.parse_name(t, i); ty = T('named', name=name)
        elif t[i] == '[':
            m = re.match(r'\[\s*(\d+)\s+x\s+', t[i:]); n = int(m.group(1)); el, j = s.parse_type(t, i + m.end()); j = s.skip(t, j); assert t[j] == ']', t[i:i+80]; ty = T('array', n=n, el=el); i = j + 1
        elif t[i] == '<' and t[i+1] == '{':
            els, i = s.parse_struct_body(t, i + 1); i = s.skip(t, i); assert t[i] == '>'; i += 1; ty = T('struct', els=els, packed=True)
        elif t[i] == '<':
            m = re.match(r'<\s*(\d+)\s+x\s+', t[i:]); n = int(m.group(1)); el, j = s.parse_type(t, i + m.end()); j = s.skip(t, j); assert t[j] == '>'; ty = T('vector', n=n, el=el); i = j + 1
        elif t[i] == '{':
            els, i = s.parse_struct_body(t, i); ty = T('struct', els=els, packed=False)
        elif t.startswith('opaque', i): ty = T('opaque'); i += 6
        else: raise ValueError("type? " + t[i:i+60])
        while True:
            i = s.skip(t, i)
            if i < len(t) and t[i] == '*': ty = T('ptr', to=ty); i += 1
            elif i < len(t) and t[i] == '(':    # function type
                args = []; i += 1
                while True:
                    i = s.skip(t, i)
                    if t[i] == ')': i += 1; break
                    a, i = s.parse_type(t, i); args.append(a); i = s.skip(t, i)
                    if t[i] == ',': i += 1
                ty = T('func', ret=ty, args=args)
            elif t.startswith('addrspace', i): i = t.index(')', i) + 1
            else: break
        return ty, i
    def parse_struct_body(s, t, i):
        assert t[i] == '{'; i += 1; els = []
        while True:
            i = s.skip(t, i)
            if t[i] == '}': return els, i + 1
            e, i = s.parse_type(t, i); els.append(e); i = s.skip(t, i)
            if t[i] == ',': i += 1
    def skip(s, t, i):
        while i < len(t) and t[i] in ' \t': i += 1
        return i
    def parse_name(s, t, i):
        """%name / @name incl. quoted; returns (name-with-sigil, next)"""
        sig = t[i]; i += 1
        if t[i] == '"':
            j = t.index('"', i + 1); return sig + t[i:j+1], j + 1
        m = re.match(r'[-\w.$]+', t[i:]); return sig + m.group(0), i + m.end()

    def resolve(s, ty):
        while ty.k == 'named': ty = s.named[ty.name]
        return ty
    def size_align(s, ty):
        ty = s.resolve(ty)
        if ty.k == 'int': b = max(1, (ty.bits + 7) // 8); p = 1
        if ty.k == 'int':
            while p < b: p *= 2
            return p, min(p, 8) if p <= 8 else 16
        if ty.k == 'float': return 4, 4
        if ty.k == 'double': return 8, 8
        if ty.k == 'fp80': return 16, 16
        if ty.k in ('ptr', 'func'): return 8, 8
        if ty.k == 'array':
            sz, al = s.size_align(ty.el); return sz * ty.n, al
        if ty.k == 'vector':
            sz, al = s.size_align(ty.el); return sz * ty.n, sz * ty.n
        if ty.k == 'struct':
            off = 0; mal = 1
            for e in ty.els:
                sz, al = s.size_align(e)
                if ty.packed: al = 1
                off = (off + al - 1) // al * al + sz; mal = max(mal, al)
            return ((off + mal - 1) // mal * mal if not ty.packed else off), mal
        if ty.k == 'opaque': return 0, 1
        raise ValueError("size of " + ty.k)
    def field_offset(s, ty, idx):
        ty = s.resolve(ty); off = 0
        for n, e in enumerate(ty.els):
            sz, al = s.size_align(e)
            if ty.packed: al = 1
            off = (off + al - 1) // al * al
            if n == idx: return off, e
            off += sz
        raise IndexError

def cname(n):
    """C identifier for an LLVM name"""
    n = n[1:] if n[0] in '%@' else n
    if n.startswith('"'): n = n[1:-1]
    return re.sub(r'[^A-Za-z0-9_]', lambda m: '_%02x' % ord(m.group(0)), n)

def ctype(ty):
    if ty.k == 'int': return 'uint%d_t' % (8 if ty.bits <= 8 else 16 if ty.bits <= 16 else 32 if ty.bits <= 32 else 64) if ty.bits <= 64 else '__uint128_t'
    if ty.k == 'float': return 'float'
    if ty.k == 'double': return 'double'
    if ty.k == 'void': return 'void'
    return 'char*'
def sctype(ty): return ctype(ty).replace('uint', 'int') if ty.k == 'int' else ctype(ty)

class Translator:
    def __init__(s, text, stub_regex=None, arena=0):
        s.stub_regex = [re.compile(r) for r in (stub_regex or [])]; s.arena = arena; s.stubbed = []
        s.P = Parser(text); s.lines = text.split('\n'); s.out = []; s.globals_c = []; s.funcs = {}; s.decls = {}; s.stub_list = []; s.gtypes = {}
        s.parse_module()

    # ---------------------------------------------------------------- module level
    def parse_module(s):
        P = s.P; i = 0; L = s.lines
        # named types first
        for ln in L:
            m = re.match(r'(%(?:"[^"]*"|[-\w.$]+)) = type (.*)$', ln)
            if m:
                P.named[m.group(1)] = T('opaque') if m.group(2).strip() == 'opaque' else None
        for ln in L:
            m = re.match(r'(%(?:"[^"]*"|[-\w.$]+)) = type (.*)$', ln)
            if m and m.group(2).strip() != 'opaque': P.named[m.group(1)], _ = P.parse_type(m.group(2))
        while i < len(L):
            ln = L[i]
            if ln.startswith('define '):
                j = i
                while L[j] != '}': j += 1
                s.parse_function(L[i:j+1]); i = j + 1; continue
            if ln.startswith('declare '):
                m = re.search(r'(@(?:"[^"]*"|[-\w.$]+))\s*\(', ln); name = m.group(1)
                head = ln[len('declare '):ln.index(name)]
                ret = s.parse_ret_type(head); s.decls[name] = ret
            elif ln.startswith('@'):
                s.parse_global(ln)
            i += 1
    def parse_ret_type(s, head):
        toks = head.strip()
        # strip attributes / linkage words in front of the type
        words = toks.split(' ')
        for k in range(len(words)):
            cand = ' '.join(words[k:])
            try:
                ty, e = s.P.parse_type(cand)
                if cand[e:].strip() == '': return ty
            except Exception: pass
        raise ValueError("ret type? " + head)
    def parse_global(s, ln):
        m = re.match(r'(@(?:"[^"]*"|[-\w.$]+)) = (.*)$', ln); name = m.group(1); rest = m.group(2)
        rest = re.sub(r'^(?:private|internal|linkonce_odr|weak_odr|external|dso_local|local_unnamed_addr|unnamed_addr|hidden|weak|common|thread_local(?:\([^)]*\))?|available_externally|extern_weak)\s+', '', rest)
        while True:
            r2 = re.sub(r'^(?:private|internal|linkonce_odr|weak_odr|external|dso_local|local_unnamed_addr|unnamed_addr|hidden|weak|common|thread_local(?:\([^)]*\))?|available_externally|extern_weak)\s+', '', rest)
            if r2 == rest: break
            rest = r2
        ext = ln.find(' external ') >= 0 or ln.find(' extern_weak ') >= 0
        m2 = re.match(r'(global|constant)\s+', rest)
        if not m2: return
        body = rest[m2.end():]
        ty, e = s.P.parse_type(body); init = body[e:].strip()
        init = re.sub(r',\s*(comdat|align|section|!dbg).*$', '', init).strip()
        s.gtypes[name] = ty
        if ext: ty = T('array', n=256, el=T('int', bits=8)); init = ''     # external object of unknown size
        s.globals_c.append((name, ty, init))

    # ---------------------------------------------------------------- values
    def value(s, ty, tok, fn=None):
        """C expression for operand token of type ty"""
        tok = tok.strip(); r = s.P.resolve(ty) if ty is not None else None
        if tok[0] == '%': return 'v_' + cname(tok)
        if tok[0] == '@':
            if tok in s.funcs or tok in s.decls: return '((char*)&%s)' % s.fname(tok)
            return '((char*)&g_%s)' % cname(tok) if not s.is_array_global(tok) else '((char*)g_%s)' % cname(tok)
        if tok in ('null', 'zeroinitializer'): return '((char*)0)' if r and r.k in ('ptr', 'func') else '0'
        if tok in ('undef', 'poison'): return '((char*)0)' if r and r.k in ('ptr', 'func') else '0'
        if tok == 'true': return '1'
        if tok == 'false': return '0'
        if re.match(r'-?\d+$', tok):
            if r and r.k in ('float', 'double'): return tok + '.0'
            v = int(tok); bits = r.bits if r and r.k == 'int' else 64
            if v < 0: v += 1 << bits
            return '((%s)%dULL)' % (ctype(r), v) if r and r.k == 'int' else str(v)
        if re.match(r'-?\d+\.\d*(e[+-]?\d+)?$', tok): return tok
        if tok.startswith('0x'):   # double as hex bits
            import struct
            bits = int(tok[2:], 16); d = struct.unpack('<d', struct.pack('<Q', bits))[0]
            if d != d: return '__builtin_nan("")'
            if d in (float('inf'), float('-inf')): return ('-' if d < 0 else '') + '__builtin_inf()'
            return repr(d)
        m = re.match(r'(getelementptr|bitcast|inttoptr|ptrtoint|addrspacecast)\b', tok)
        if m: return s.constexpr(tok)
        raise ValueError("value? %s" % tok)
    def is_array_global(s, name): return False
    def constexpr(s, tok):
        tok = tok.strip()
        m = re.match(r'(bitcast|inttoptr|ptrtoint|addrspacecast)\s*\((.*)\)$', tok)
        if m:
            inner = m.group(2); k = inner.rindex(' to '); src = inner[:k]; dst, _ = s.P.parse_type(inner[k+4:])
            sty, e = s.P.parse_type(src); v = s.value(sty, src[e:])
            return '((%s)%s)' % (ctype(s.P.resolve(dst)), v)
        m = re.match(r'getelementptr\s*(inbounds\s*)?\((.*)\)$', tok)
        if m:
            parts = s.split_commas(m.group(2)); base_ty, _ = s.P.parse_type(parts[0]); pty, e = s.P.parse_type(parts[1]); base = s.value(pty, parts[1][e:])
            return s.gep_expr(base_ty, base, parts[2:])
        raise ValueError("constexpr? " + tok)
    def split_commas(s, t):
        out = []; depth = 0; cur = ''; q = False
        for ch in t:
            if ch == '"': q = not q
            if not q:
                if ch in '([{<': depth += 1
                elif ch in ')]}>': depth -= 1
                elif ch == ',' and depth == 0: out.append(cur.strip()); cur = ''; continue
            cur += ch
        if cur.strip(): out.append(cur.strip())
        return out
    def gep_expr(s, base_ty, base, idx_ops):
        """idx_ops: list of 'type value' strings"""
        P = s.P; expr = base; cur = base_ty; first = True; const_off = 0; terms = []
        for op in idx_ops:
            op = re.sub(r'^inrange\s+', '', op)
            ity, e = P.parse_type(op); tok = op[e:].strip()
            if first:
                sz, _ = P.size_align(cur); first = False
                if re.match(r'-?\d+$', tok): const_off += int(tok) * sz
                else: terms.append('(int64_t)(%s)%s*%d' % (sctype(P.resolve(ity)), s.value(ity, tok), sz))
                continue
            r = P.resolve(cur)
            if r.k == 'struct':
                off, cur = P.field_offset(r, int(tok)); const_off += off
            elif r.k in ('array', 'vector'):
                sz, _ = P.size_align(r.el); cur = r.el
                if re.match(r'-?\d+$', tok): const_off += int(tok) * sz
                else: terms.append('(int64_t)(%s)%s*%d' % (sctype(P.resolve(ity)), s.value(ity, tok), sz))
            else: raise ValueError("gep into " + r.k)
        e = '(%s' % expr
        for t in terms: e += ' + ' + t
        if const_off: e += ' + %d' % const_off
        return e + ')'

    def fname(s, n): return 'f_' + cname(n) if not re.match(r'@(k_|h_)', n) else cname(n)

    # ---------------------------------------------------------------- functions
    def parse_function(s, L):
        head = L[0]
        m = re.search(r'(@(?:"[^"]*"|[-\w.$]+))\s*\(', head); name = m.group(1)
        ret = s.parse_ret_type(re.sub(r'^define\s+', '', head[:head.index(name)]))
        # parameters
        j = head.index(name) + len(name); depth = 0; k = j
        while True:
            if head[k] == '(': depth += 1
            elif head[k] == ')':
                depth -= 1
                if depth == 0: break
            k += 1
        params = []
        for p in s.split_commas(head[j+1:k]):
            if p == '...': continue
            ty, e = s.P.parse_type(p); rest = p[e:]
            # strip attributes incl. sret(...), byval(...), align N, dereferenceable(N)
            nm = re.search(r'(%(?:"[^"]*"|[-\w.$]+))\s*$', rest)
            params.append((ty, nm.group(1) if nm else None))
        s.funcs[name] = dict(ret=ret, params=params, body=L[1:-1])

    def emit(s):
        o = []; P = s.P
        o.append('#include <stdint.h>\n#include <stdlib.h>\n#include <string.h>\n#include <assert.h>')
        o.append('int __ir_exc = 0;  /* pending C++ exception */')
        o.append('char nondet_char(void); unsigned char nondet_uchar(void); uint64_t nondet_u64(void); double nondet_dbl(void); float nondet_flt(void);')
        if s.arena:
            o.append('/* heap model: bump allocator over one static arena (per-object bounds are not checked in this mode) */')
            o.append('static char IR_ARENA[%d] __attribute__((aligned(16))); static uint64_t ir_top = 0;' % s.arena)
            o.append('static char *ir_new(uint64_t n) { __CPROVER_assume(n <= %d); uint64_t a = (n + 15) & ~(uint64_t)15; char *p = IR_ARENA + ir_top; ir_top += a; __CPROVER_assume(ir_top <= sizeof IR_ARENA); return p; }' % (s.arena // 4))
            o.append('static void ir_free(char *p) { (void)p; }')
        else:
            o.append('static char *ir_new(uint64_t n) { char *p = malloc(n ? n : 1); __CPROVER_assume(p != 0); return p; }   /* allocation failure is out of scope; fresh memory is nondet */')
            o.append('static void ir_free(char *p) { free(p); }')
        o.append('char g___libc_single_threaded = 1;')
        # prototypes
        for n, f in s.funcs.items():
            o.append('%s %s(%s);' % (ctype(P.resolve(f['ret'])), s.fname(n), ', '.join(ctype(P.resolve(t)) for t, _ in f['params']) or 'void'))
        for n in s.decls:
            if n not in s.funcs and not n.startswith('@llvm.'): o.append('/* external */ char %s;' % s.fname(n))
        # globals
        for name, ty, init in s.globals_c:
            if name == '@__libc_single_threaded': continue
            sz, al = P.size_align(ty)
            o.append('char g_%s[%d] __attribute__((aligned(%d)));' % (cname(name), max(sz, 1), max(al, 1)))
        o.append('static void ir_init_globals(void) {')
        for name, ty, init in s.globals_c:
            if name == '@__libc_single_threaded': continue
            o += s.init_global('g_' + cname(name), ty, init, 0)
        o.append('}')
        o.append('#ifndef __CPROVER__\n__attribute__((constructor)) static void ir_ctor(void) { ir_init_globals(); }   /* native (differential) build */\n#endif')
        for n, f in s.funcs.items():
            o += s.emit_function(n, f)
        return '\n'.join(o) + '\n'
    def init_global(s, base, ty, init, off):
        P = s.P; r = P.resolve(ty); out = []
        init = init.strip()
        if init in ('zeroinitializer', 'undef', '') or init.startswith('zeroinitializer'): return out   # static storage is zero
        if r.k == 'array' and init.startswith('c"'):
            body = init[2:init.rindex('"')]; b = []; i = 0
            while i < len(body):
                if body[i] == '\\': b.append(int(body[i+1:i+3], 16)); i += 3
                else: b.append(ord(body[i])); i += 1
            for k, v in enumerate(b):
                if v: out.append('  %s[%d] = %d;' % (base, off + k, v if v < 128 else v - 256))
            return out
        if r.k == 'array' and init.startswith('['):
            els = s.split_commas(init[1:init.rindex(']')]); sz, _ = P.size_align(r.el)
            for k, e in enumerate(els):
                ety, ee = P.parse_type(e); out += s.init_global(base, ety, e[ee:], off + k * sz)
            return out
        if r.k == 'struct' and (init.startswith('{') or init.startswith('<{')):
            inner = init[init.index('{')+1:init.rindex('}')]; els = s.split_commas(inner)
            for k, e in enumerate(els):
                fo, fty = P.field_offset(r, k); ety, ee = P.parse_type(e); out += s.init_global(base, ety, e[ee:], off + fo)
            return out
        v = s.value(ty, init)
        out.append('  *(%s*)(%s + %d) = %s;' % (ctype(r), base, off, v)); return out

    def builtin(s, n):
        return n.startswith('@llvm.') or n in ('@_Znwm', '@_Znam', '@_ZdlPv', '@_ZdaPv', '@_ZdlPvm', '@_ZdaPvm', '@__cxa_allocate_exception', '@__cxa_throw', '@__cxa_free_exception', '@__cxa_begin_catch', '@__cxa_end_catch',
                     '@__cxa_rethrow', '@__cxa_pure_virtual', '@__cxa_atexit', '@__gxx_personality_v0', '@strcmp', '@strlen', '@memcmp', '@memcpy', '@memmove', '@memset', '@_ZSt9terminatev', '@__clang_call_terminate', '@abort', '@malloc', '@free',
                     '@_ZSt20__throw_length_errorPKc', '@_ZSt17__throw_bad_allocv', '@_ZSt28__throw_bad_array_new_lengthv', '@_ZSt24__throw_out_of_range_fmtPKcz', '@_ZSt19__throw_logic_errorPKc', '@_ZSt20__throw_out_of_rangePKc')

    def emit_function(s, name, f):
        P = s.P; o = []; body = f['body']; ret = P.resolve(f['ret'])
        if any(r.search(name) for r in s.stub_regex):
            s.stubbed.append(name)
            return ['%s %s(%s) { /* stubbed out (listed in the evidence) */ %s }' % (ctype(ret), s.fname(name), ', '.join('%s v_%s' % (ctype(P.resolve(t)), cname(n) if n else 'u%d' % k) for k, (t, n) in enumerate(f['params'])) or 'void', s.ret_default(ret))]
        # collect blocks
        blocks = []; cur = None; first_label = None
        for ln in body:
            t = ln.strip()
            if not t or t.startswith(';'): continue
            m = re.match(r'([-\w.$"]+):', ln)
            if m and not ln.startswith(' '):
                cur = [m.group(1).strip('"'), []]; blocks.append(cur); continue
            if cur is None:
                # entry block label = next unnamed number (count of unnamed params)
                nparam = sum(1 for _, n in f['params'] if n and re.match(r'%\d+$', n)); cur = [str(nparam), []]; blocks.append(cur)
            if t.startswith('to label') and cur[1]: cur[1][-1] += ' ' + t; continue
            if (t.startswith('cleanup') or t.startswith('catch ') or t.startswith('filter ')) and cur[1]: continue   # landingpad clauses
            cur[1].append(t)
        # handle multi-line switch
        for b in blocks:
            merged = []; acc = None
            for t in b[1]:
                if acc is not None:
                    acc += ' ' + t
                    if t.endswith(']'): merged.append(acc); acc = None
                    continue
                if t.startswith('switch ') and not t.endswith(']'): acc = t; continue
                merged.append(t)
            b[1] = merged
        s.vtypes = {}
        for ty, n in f['params']:
            if n: s.vtypes[n] = ty
        decl = []; code = []
        phis = {}   # block -> list of (dst, ty, [(val, pred)])
        for lbl, ins in blocks:
            for t in ins:
                m = re.match(r'(%(?:"[^"]*"|[-\w.$]+)) = phi (.*)$', t)
                if m:
                    ty, e = P.parse_type(m.group(2)); s.vtypes[m.group(1)] = ty
                    pairs = re.findall(r'\[\s*(.+?),\s*(%(?:"[^"]*"|[-\w.$]+))\s*\]', m.group(2)[e:])
                    phis.setdefault(lbl, []).append((m.group(1), ty, pairs))
        s.cur_fn = name; s.phis = phis; s.agg = {}
        for lbl, ins in blocks:
            code.append('L_%s: ;' % cname(lbl))
            for t in ins:
                if ' = phi ' in t: continue
                code += s.instr(t, lbl, ret)
        o.append('%s %s(%s) {' % (ctype(ret), s.fname(name), ', '.join('%s v_%s' % (ctype(P.resolve(t)), cname(n)) for t, n in f['params']) or 'void'))
        pn = set(n for _, n in f['params'])
        for n, ty in s.vtypes.items():
            if n in pn: continue
            r = P.resolve(ty)
            if r.k == 'struct':
                for k, e in enumerate(r.els): o.append('  %s v_%s_%d = 0;' % (ctype(P.resolve(e)), cname(n), k))
            elif r.k != 'void': o.append('  %s v_%s = 0;' % (ctype(r), cname(n)))
        for n, ty in s.vtypes.items():
            if n in [d for d, _, _ in sum(phis.values(), [])]:
                r = P.resolve(ty)
                if r.k == 'struct':
                    for k, e in enumerate(r.els): o.append('  %s t_%s_%d = 0;' % (ctype(P.resolve(e)), cname(n), k))
                else: o.append('  %s t_%s = 0;' % (ctype(r), cname(n)))
        o += ['  ' + c for c in code]
        o.append('}')
        return o

    def ret_default(s, ret): return 'return;' if ret.k == 'void' else 'return 0;'
    def goto(s, frm, to):
        """phi copies for edge frm->to then goto"""
        to = to.lstrip('%').strip('"'); out = []
        ph = s.phis.get(to, [])
        for dst, ty, pairs in ph:
            r = s.P.resolve(ty)
            for val, pred in pairs:
                if pred.lstrip('%').strip('"') == frm:
                    if r.k == 'struct':    # first-class aggregate (landingpad pair, *.with.overflow pair): component-wise
                        for k, e in enumerate(r.els): out.append('t_%s_%d = %s;' % (cname(dst), k, ('v_%s_%d' % (cname(val.strip()), k)) if val.strip().startswith('%') else '0'))
                    else: out.append('t_%s = %s;' % (cname(dst), s.value(ty, val)))
        for dst, ty, pairs in ph:
            r = s.P.resolve(ty)
            if r.k == 'struct':
                for k, e in enumerate(r.els): out.append('v_%s_%d = t_%s_%d;' % (cname(dst), k, cname(dst), k))
            else: out.append('v_%s = t_%s;' % (cname(dst), cname(dst)))
        out.append('goto L_%s;' % cname(to)); return ' '.join(out)

    def operand(s, txt):
        """'type value' -> (T, C expr)"""
        txt = re.sub(r'\b(noundef|nonnull|nocapture|readonly|writeonly|noalias|signext|zeroext|inreg|returned|nofree|immarg|swiftself|nest)\b', '', txt)
        txt = re.sub(r'\b(align|dereferenceable|dereferenceable_or_null)\s*\(?\d+\)?', '', txt)
        txt = re.sub(r'\b(sret|byval|inalloca|preallocated|elementtype)\s*\((?:[^()]|\([^()]*\))*\)', '', txt).strip()
        ty, e = s.P.parse_type(txt); return ty, s.value(ty, txt[e:])

    def instr(s, t, lbl, fret):
        P = s.P; out = []
        t = re.sub(r',\s*!\w+\s*!\d+', '', t); t = re.sub(r',\s*![\w.]+\s+!\d+', '', t); t = re.sub(r'\s+#\d+$', '', t)
        m = re.match(r'(%(?:"[^"]*"|[-\w.$]+)) = (.*)$', t); dst = None
        if m: dst = m.group(1); t = m.group(2)
        op = t.split(' ')[0]
        def setv(ty, expr):
            s.vtypes[dst] = ty; return ['v_%s = %s;' % (cname(dst), expr)]
        if op in ('add', 'sub', 'mul', 'and', 'or', 'xor', 'shl', 'lshr', 'ashr', 'udiv', 'sdiv', 'urem', 'srem'):
            rest = re.sub(r'^\w+\s+(nuw\s+|nsw\s+|exact\s+)*', '', t); ty, e = P.parse_type(rest); a, b = s.split_commas(rest[e:]); r = P.resolve(ty); ct = ctype(r); st = sctype(r); A = s.value(ty, a); B = s.value(ty, b)
            sym = {'add': '+', 'sub': '-', 'mul': '*', 'and': '&', 'or': '|', 'xor': '^', 'shl': '<<', 'lshr': '>>', 'udiv': '/', 'urem': '%'}
            if op in sym: ex = '(%s)((%s)%s %s (%s)%s)' % (ct, ct, A, sym[op], ct, B)
            elif op == 'ashr': ex = '(%s)((%s)%s >> %s)' % (ct, st, A, B)
            elif op == 'sdiv': ex = '(%s)((%s)%s / (%s)%s)' % (ct, st, A, st, B)
            else: ex = '(%s)((%s)%s %% (%s)%s)' % (ct, st, A, st, B)
            if r.bits == 1 and op in ('add', 'sub', 'mul'): ex = '(%s & 1)' % ex
            if r.bits not in (8, 16, 32, 64, 1): ex = '(%s & ((((%s)1) << %d) - 1))' % (ex, ct, r.bits)
            return setv(ty, ex)
        if op in ('fadd', 'fsub', 'fmul', 'fdiv', 'frem'):
            rest = re.sub(r'^\w+\s+((nnan|ninf|nsz|arcp|contract|afn|reassoc|fast)\s+)*', '', t); ty, e = P.parse_type(rest); a, b = s.split_commas(rest[e:])
            sym = {'fadd': '+', 'fsub': '-', 'fmul': '*', 'fdiv': '/'}[op]; return setv(ty, '(%s %s %s)' % (s.value(ty, a), sym, s.value(ty, b)))
        if op == 'fneg':
            rest = re.sub(r'^\w+\s+((nnan|ninf|nsz|arcp|contract|afn|reassoc|fast)\s+)*', '', t); ty, e = P.parse_type(rest); return setv(ty, '(-%s)' % s.value(ty, rest[e:]))
        if op == 'icmp':
            mm = re.match(r'icmp (\w+) (.*)$', t); ty, e = P.parse_type(mm.group(2)); a, b = s.split_commas(mm.group(2)[e:]); r = P.resolve(ty); A = s.value(ty, a); B = s.value(ty, b); pr = mm.group(1)
            sym = {'eq': '==', 'ne': '!=', 'ugt': '>', 'uge': '>=', 'ult': '<', 'ule': '<=', 'sgt': '>', 'sge': '>=', 'slt': '<', 'sle': '<='}[pr]
            if r.k == 'int' and pr[0] == 's': ex = '((%s)%s %s (%s)%s)' % (sctype(r), A, sym, sctype(r), B)
            elif r.k == 'int': ex = '(%s %s %s)' % (A, sym, B)
            else: ex = '(%s %s %s)' % (A, sym, B)
            return setv(T('int', bits=1), ex)
        if op == 'fcmp':
            mm = re.match(r'fcmp\s+((?:nnan|ninf|nsz|arcp|contract|afn|reassoc|fast)\s+)*(\w+) (.*)$', t); ty, e = P.parse_type(mm.group(3)); a, b = s.split_commas(mm.group(3)[e:]); A = s.value(ty, a); B = s.value(ty, b); pr = mm.group(2)
            un = '(%s != %s || %s != %s)' % (A, A, B, B)
            base = {'eq': '==', 'ne': '!=', 'gt': '>', 'ge': '>=', 'lt': '<', 'le': '<='}
            if pr == 'ord': ex = '(!%s)' % un
            elif pr == 'uno': ex = un
            elif pr == 'true': ex = '1'
            elif pr == 'false': ex = '0'
            elif pr[0] == 'o': ex = '(!%s && %s %s %s)' % (un, A, base[pr[1:]], B)
            else: ex = '(%s || %s %s %s)' % (un, A, base[pr[1:]], B)
            return setv(T('int', bits=1), ex)
        if op in ('zext', 'sext', 'trunc', 'bitcast', 'ptrtoint', 'inttoptr', 'fpext', 'fptrunc', 'sitofp', 'uitofp', 'fptosi', 'fptoui', 'addrspacecast'):
            rest = t[len(op):].strip(); k = rest.rindex(' to '); sty, e = P.parse_type(rest[:k]); dty, _ = P.parse_type(rest[k+4:]); v = s.value(sty, rest[:k][e:]); sr = P.resolve(sty); dr = P.resolve(dty)
            if op == 'sext':
                if sr.bits == 1: ex = '(%s)(%s ? -1 : 0)' % (ctype(dr), v)
                else: ex = '(%s)(%s)(%s)%s' % (ctype(dr), sctype(dr), sctype(sr), v)
            elif op == 'trunc': ex = '(%s)%s' % (ctype(dr), v) + (' & 1' if dr.bits == 1 else '')
            elif op == 'sitofp': ex = '(%s)(%s)%s' % (ctype(dr), sctype(sr), v)
            elif op == 'fptosi': ex = '(%s)(%s)%s' % (ctype(dr), sctype(dr), v)
            elif op == 'bitcast' and sr.k in ('float', 'double') != dr.k in ('float', 'double'): raise ValueError('fp bitcast')
            else: ex = '(%s)%s' % (ctype(dr), v)
            return setv(dty, '(' + ex + ')')
        if op == 'freeze':
            ty, ex = s.operand(t[len(op):]); return setv(ty, ex)
        if op == 'select':
            parts = s.split_commas(t[len('select'):]); cty, c = s.operand(parts[0]); ty, a = s.operand(parts[1]); _, b = s.operand(parts[2]); return setv(ty, '(%s ? %s : %s)' % (c, a, b))
        if op == 'getelementptr':
            rest = re.sub(r'^getelementptr\s+(inbounds\s+)?', '', t); parts = s.split_commas(rest); bty, _ = P.parse_type(parts[0]); pty, base = s.operand(parts[1])
            return setv(T('ptr', to=T('int', bits=8)), s.gep_expr(bty, base, parts[2:]))
        if op == 'load':
            rest = re.sub(r'^load\s+(atomic\s+)?(volatile\s+)?', '', t); rest = re.sub(r'\s+(syncscope\("[^"]*"\)\s+)?(unordered|monotonic|acquire|release|acq_rel|seq_cst)\b', '', rest); parts = s.split_commas(rest); ty, _ = P.parse_type(parts[0]); pty, p = s.operand(parts[1]); r = P.resolve(ty)
            return setv(ty, '*(%s*)(%s)' % (ctype(r), p))
        if op == 'store':
            rest = re.sub(r'^store\s+(atomic\s+)?(volatile\s+)?', '', t); rest = re.sub(r'\s+(syncscope\("[^"]*"\)\s+)?(unordered|monotonic|acquire|release|acq_rel|seq_cst)\b', '', rest); parts = s.split_commas(rest); ty, v = s.operand(parts[0]); pty, p = s.operand(parts[1]); return ['*(%s*)(%s) = %s;' % (ctype(P.resolve(ty)), p, v)]
        if op == 'alloca':
            parts = s.split_commas(t[len('alloca'):]); ty, _ = P.parse_type(parts[0]); sz, al = P.size_align(ty); cnt = '1'
            for p in parts[1:]:
                if not p.startswith('align'): _, cnt = s.operand(p)
            s.vtypes[dst] = T('ptr', to=ty)
            return ['v_%s = ir_new((uint64_t)%d * %s); /* alloca */' % (cname(dst), max(sz, 1), cnt)]
        if op == 'br':
            mm = re.match(r'br label (%\S+)$', t)
            if mm: return [s.goto(lbl, mm.group(1))]
            mm = re.match(r'br i1 (.+?), label (%\S+), label (%\S+)$', t); c = s.value(T('int', bits=1), mm.group(1))
            return ['if (%s) { %s } else { %s }' % (c, s.goto(lbl, mm.group(2)), s.goto(lbl, mm.group(3)))]
        if op == 'switch':
            mm = re.match(r'switch (.+?), label (%\S+) \[(.*)\]$', t); ty, v = s.operand(mm.group(1)); cases = re.findall(r'(\w+) (-?\d+), label (%[-\w.$"]+)', mm.group(3)); o2 = []
            for cty, cv, cl in cases: o2.append('if (%s == %s) { %s }' % (v, s.value(ty, cv), s.goto(lbl, cl)))
            o2.append(s.goto(lbl, mm.group(2))); return o2
        if op == 'ret':
            if t.strip() == 'ret void': return ['return;']
            ty, v = s.operand(t[3:]); return ['return %s;' % v]
        if op == 'unreachable': return ['__CPROVER_assume(0); ' + s.ret_default(fret)]
        if op == 'resume': return [s.ret_default(fret)]          # __ir_exc stays set
        if op == 'landingpad':
            s.vtypes[dst] = T('struct', els=[T('ptr', to=T('int', bits=8)), T('int', bits=32)], packed=False); return ['/* landingpad */']
        if op == 'extractvalue':
            parts = s.split_commas(t[len('extractvalue'):]); aty, e = P.parse_type(parts[0]); src = parts[0][e:].strip(); idx = int(parts[1]); r = P.resolve(aty)
            return setv(r.els[idx], 'v_%s_%d' % (cname(src), idx) if src[0] == '%' else '0')
        if op == 'insertvalue':
            parts = s.split_commas(t[len('insertvalue'):]); aty, e = P.parse_type(parts[0]); src = parts[0][e:].strip(); ety, v = s.operand(parts[1]); idx = int(parts[2]); r = P.resolve(aty); s.vtypes[dst] = aty; o2 = []
            for k in range(len(r.els)):
                o2.append('v_%s_%d = %s;' % (cname(dst), k, v if k == idx else ('v_%s_%d' % (cname(src), k) if src[0] == '%' else '0')))
            return o2
        if op == 'atomicrmw':
            mm = re.match(r'atomicrmw\s+(volatile\s+)?(\w+)\s+(.*)$', t); parts = s.split_commas(mm.group(3)); pty, p = s.operand(parts[0]); vpart = re.sub(r'\s+(acq_rel|seq_cst|monotonic|acquire|release).*$', '', parts[1]); ty, v = s.operand(vpart); ct = ctype(P.resolve(ty))
            sym = {'add': '+', 'sub': '-', 'and': '&', 'or': '|', 'xor': '^', 'xchg': None}[mm.group(2)]; s.vtypes[dst] = ty
            return ['v_%s = *(%s*)(%s); *(%s*)(%s) = %s;' % (cname(dst), ct, p, ct, p, ('(%s)(v_%s %s %s)' % (ct, cname(dst), sym, v)) if sym else v)]
        if op == 'cmpxchg':
            mm = re.match(r'cmpxchg\s+(weak\s+)?(volatile\s+)?(.*)$', t); parts = s.split_commas(mm.group(3)); pty, p = s.operand(parts[0]); ty, cmpv = s.operand(parts[1]); newp = re.sub(r'\s+(acq_rel|seq_cst|monotonic|acquire|release).*$', '', parts[2]); _, nv = s.operand(newp); ct = ctype(P.resolve(ty))
            s.vtypes[dst] = T('struct', els=[ty, T('int', bits=1)], packed=False); d = cname(dst)
            return ['v_%s_0 = *(%s*)(%s); v_%s_1 = (v_%s_0 == %s); if (v_%s_1) *(%s*)(%s) = %s;' % (d, ct, p, d, d, cmpv, d, ct, p, nv)]
        if op == 'fence': return []
        if op in ('call', 'invoke', 'tail', 'musttail', 'notail'):
            return s.call(t, dst, lbl, fret)
        raise ValueError("instruction? " + t)

    def call(s, t, dst, lbl, fret):
        P = s.P
        t2 = re.sub(r'^(tail |musttail |notail )?', '', t); inv = t2.startswith('invoke'); t2 = re.sub(r'^(call|invoke)\s+', '', t2)
        t2 = re.sub(r'^((fastcc|ccc|coldcc|nnan|ninf|nsz|arcp|contract|afn|reassoc|fast|noundef|nonnull|zeroext|signext|noalias|dereferenceable\(\d+\)|dereferenceable_or_null\(\d+\)|align \d+)\s+)*', '', t2)
        rty, e = P.parse_type(t2); rest = t2[e:].strip()
        # callee
        if rest[0] in '@%': callee, k = P.parse_name(rest, 0)
        else: raise ValueError("callee? " + rest)
        # args: matching parenthesis
        k = rest.index('(', k); depth = 0; j = k
        while True:
            if rest[j] == '(': depth += 1
            elif rest[j] == ')':
                depth -= 1
                if depth == 0: break
            j += 1
        args_txt = rest[k+1:j]; tail = rest[j+1:]
        rr = P.resolve(rty)
        if rr.k == 'func': rr = P.resolve(rr.ret); rty = rr
        args = []
        for a in s.split_commas(args_txt):
            if a.startswith('metadata'): args.append((T('metadata'), '0')); continue
            args.append(s.operand(a))
        normal = unwind = None
        if inv:
            mm = re.search(r'to label (%\S+) unwind label (%\S+)', tail); normal, unwind = mm.group(1), mm.group(2)
        out = []; av = [v for _, v in args]
        def assign(expr):
            if dst is None or rr.k == 'void': return [expr + ';']
            s.vtypes[dst] = rty; return ['v_%s = %s;' % (cname(dst), expr)]
        may_throw = False
        n = callee
        if n.startswith('@llvm.'):
            base = n[6:]
            if base.startswith(('lifetime', 'dbg', 'experimental.noalias', 'assume', 'invariant', 'prefetch', 'stackrestore', 'donothing')): out = []
            elif base.startswith('stacksave'): out = assign('(char*)0')
            elif base.startswith('memcpy'): out = ['memcpy(%s, %s, %s);' % (av[0], av[1], av[2])]
            elif base.startswith('memmove'): out = ['memmove(%s, %s, %s);' % (av[0], av[1], av[2])]
            elif base.startswith('memset'): out = ['memset(%s, (int)%s, %s);' % (av[0], av[1], av[2])]
            elif base.startswith('trap'): out = ['__CPROVER_assert(0, "llvm.trap reached"); __CPROVER_assume(0);']
            elif re.match(r'(s|u)(min|max)\.', base):
                ct = ctype(P.resolve(args[0][0])); st = sctype(P.resolve(args[0][0])) if base[0] == 's' else ct; cmp = '<' if 'min' in base else '>'
                out = assign('(((%s)%s %s (%s)%s) ? %s : %s)' % (st, av[0], cmp, st, av[1], av[0], av[1]))
            elif base.startswith('abs.'):
                st = sctype(P.resolve(args[0][0])); out = assign('(%s)(((%s)%s < 0) ? -(%s)%s : (%s)%s)' % (ctype(P.resolve(args[0][0])), st, av[0], st, av[0], st, av[0]))
            elif re.match(r'(u|s)(mul|add|sub)\.with\.overflow', base):
                ity = P.resolve(args[0][0]); ct = ctype(ity); d = cname(dst); s.vtypes[dst] = T('struct', els=[args[0][0], T('int', bits=1)], packed=False)
                bi = {'mul': '__builtin_mul_overflow', 'add': '__builtin_add_overflow', 'sub': '__builtin_sub_overflow'}[re.match(r'(u|s)(mul|add|sub)', base).group(2)]
                ct2 = ct if base[0] == 'u' else sctype(ity)
                out = ['{ %s __r; v_%s_1 = %s((%s)%s, (%s)%s, &__r); v_%s_0 = (%s)__r; }' % (ct2, d, bi, ct2, av[0], ct2, av[1], d, ct)]
            elif base.startswith(('fabs.', 'sqrt.', 'fmuladd.', 'floor.', 'ceil.', 'copysign.', 'maxnum.', 'minnum.')):
                fn = base.split('.')[0]; suf = 'f' if P.resolve(rty).k == 'float' else ''
                if fn == 'fmuladd': out = assign('(%s * %s + %s)' % (av[0], av[1], av[2]))
                elif fn in ('maxnum', 'minnum'): out = assign('__builtin_f%s%s(%s, %s)' % (fn[:3], suf, av[0], av[1]))
                else: out = assign('__builtin_%s%s(%s)' % (fn, suf, ', '.join(av)))
            elif base.startswith(('ctlz', 'cttz', 'ctpop', 'bswap', 'fshl', 'fshr', 'expect', 'is.constant', 'objectsize', 'umul', 'usub')):
                if base.startswith('expect'): out = assign(av[0])
                elif base.startswith('is.constant'): out = assign('0')
                elif base.startswith('objectsize'): out = assign('(%s)-1' % ctype(rr))
                else: raise ValueError("intrinsic " + base)
            else: raise ValueError("intrinsic " + base)
        elif n in ('@_Znwm', '@_Znam', '@malloc', '@__cxa_allocate_exception'): out = assign('ir_new(%s)' % av[0])
        elif n in ('@_ZdlPv', '@_ZdaPv', '@_ZdlPvm', '@_ZdaPvm', '@free', '@__cxa_free_exception'): out = ['ir_free(%s);' % av[0]]
        elif n == '@__cxa_throw' or n == '@__cxa_rethrow' or n.startswith('@_ZSt') and '__throw' in n: out = ['__ir_exc = 1;']; may_throw = True
        elif n == '@__cxa_begin_catch': out = ['__ir_exc = 0;'] + (assign('(char*)0') if dst else [])
        elif n == '@__cxa_end_catch': out = []
        elif n in ('@__cxa_atexit',): out = assign('0') if dst else []
        elif n in ('@__cxa_pure_virtual', '@_ZSt9terminatev', '@__clang_call_terminate', '@abort'): out = ['__CPROVER_assert(0, "%s reached"); __CPROVER_assume(0);' % n[1:]]
        elif n == '@strcmp': out = assign('(uint32_t)strcmp(%s, %s)' % (av[0], av[1]))
        elif n == '@strlen': out = assign('(uint64_t)strlen(%s)' % av[0])
        elif n == '@memcmp': out = assign('(uint32_t)memcmp(%s, %s, %s)' % (av[0], av[1], av[2]))
        elif n in ('@memcpy', '@memmove'): out = assign('(char*)%s(%s, %s, %s)' % (n[1:], av[0], av[1], av[2]))
        elif n == '@memset': out = assign('(char*)memset(%s, (int)%s, %s)' % (av[0], av[1], av[2]))
        elif n[0] == '@' and n in s.funcs:
            f = s.funcs[n]; cargs = ', '.join('(%s)%s' % (ctype(P.resolve(pt)), v) for (pt, _), v in zip(f['params'], av)); out = assign('%s(%s)' % (s.fname(n), cargs)); may_throw = True
        elif n[0] == '@':   # unknown external: nondet stub, no side effects
            if n not in s.stub_list: s.stub_list.append(n)
            if dst and rr.k != 'void':
                nd = {'float': 'nondet_flt()', 'double': 'nondet_dbl()'}.get(rr.k, '(%s)nondet_u64()' % ctype(rr)); out = assign(nd)
            else: out = ['/* stub %s */' % n]
        else:   # indirect call
            fty = '%s (*)(%s)' % (ctype(rr), ', '.join(ctype(P.resolve(ty)) for ty, _ in args) or 'void')
            out = assign('((%s)%s)(%s)' % (fty, s.value(None, n), ', '.join(av))); may_throw = True
        if may_throw:
            if inv: out.append('if (__ir_exc) { %s }' % s.goto(lbl, unwind))
            else: out.append('if (__ir_exc) { %s }' % s.ret_default(fret))
        if inv: out.append(s.goto(lbl, normal))
        return out

def translate(ll_path, stub_regex=None, arena=0):
    tr = Translator(open(ll_path).read(), stub_regex, arena); c = tr.emit(); return c, tr

if __name__ == '__main__':
    c, tr = translate(sys.argv[1], sys.argv[3].split(',') if len(sys.argv) > 3 and sys.argv[3] else None, int(sys.argv[4]) if len(sys.argv) > 4 else 0); open(sys.argv[2], 'w').write(c)
    print("functions: %d  stubs: %s" % (len(tr.funcs), tr.stub_list))
