# engine X: extern "C" wrappers around the real amgcl templates -> clang-14 IR -> lib/irsx.py (own symbolic executor on z3 bit-vectors)
# Used where the IR -> C -> CBMC route of engine C gives no verdict (pointer-rich std::vector / stream code): the binary file readers of C19.
import os, re, json, subprocess, time
from concurrent.futures import ThreadPoolExecutor
import enginec

PY = "python3-vt"      # the tooling venv interpreter (z3-solver 5.1); the driver itself runs on the system python

def sh(cmd, timeout=None, cwd=None):
    t0 = time.time()
    try:
        p = subprocess.run(cmd, stdout=subprocess.PIPE, stderr=subprocess.STDOUT, timeout=timeout, cwd=cwd)
        return p.returncode, p.stdout.decode(errors="replace"), time.time() - t0
    except subprocess.TimeoutExpired as e:
        return 124, (e.stdout or b"").decode(errors="replace") + "\n<timeout>", time.time() - t0

KEYS = ("fcap", "len", "n", "nnz", "m", "range")
def tasks_for(unit, tier):
    T = tier == "thorough"; out = []; q = "thorough" if T else "quick"
    if unit["kind"] == "io":
        fc = unit["fcap"][q]
        for L in range(0, fc + 1): out.append(dict(harness="read_crs_robust", fcap=fc, len=L, fn="h_read_crs_robust", defines=["FCAP=%d" % fc]))
        fd = unit["fcap_dense"][q]
        for L in range(0, fd + 1, 1 if T else 2): out.append(dict(harness="read_dense_robust", fcap=fd, len=L, fn="h_read_dense_robust", defines=["FCAP=%d" % fd]))
        N, Z = unit["roundtrip"][q]
        for n in range(0, N + 1):
            for z in range(0, Z + 1):
                if n == 0 and z > 0: continue
                out.append(dict(harness="crs_roundtrip", n=n, nnz=z, fn="h_crs_roundtrip", defines=["N=%d" % max(n, 1), "NNZ=%d" % max(z, 1)]))
        for (n, z) in unit["roundtrip8"][q]: out.append(dict(harness="crs_roundtrip8", n=n, nnz=z, fn="h_crs_roundtrip8", defines=["N=%d" % max(n, 1), "NNZ=%d" % max(z, 1)]))
        D = unit["dense"][q]
        for n in range(0, D + 1):
            for m in range(0, D + 1): out.append(dict(harness="dense_roundtrip", n=n, m=m, fn="h_dense_roundtrip", defines=["N=%d" % max(n, m, 1)]))
    else:   # MatrixMarket reader at token level: n = number of lines, m = 1 valid banner / 0 any banner
        for nl in unit["header_lines"][q]: out.append(dict(harness="mm_sparse_robust", n=nl, m=0, range=(-1, -1), fn="h_mm_sparse_robust", defines=[]))
        for nl, rng in unit["body"][q]: out.append(dict(harness="mm_sparse_robust", n=nl, m=1, range=rng, fn="h_mm_sparse_robust", defines=[]))
        for nl, rng in unit["dense"][q]: out.append(dict(harness="mm_dense_robust", n=nl, range=rng, fn="h_mm_dense_robust", defines=[]))
        for nl, size, rng in unit["slice"][q]: out.append(dict(harness="mm_slice", n=nl, m=size, range=rng, fn="h_mm_slice", defines=[]))
    return out

def run(pid, units, tier, seed, bdir, repo, root, jobs):
    res = dict(broken=[], inconclusive=[], violations=[], functions=[], assumptions=set(), samples=[], obligations=0, discharged=0, evaluations=0, solver_s=0.0, summary={})
    for unit in units:
        base = os.path.join(bdir, unit["name"]); src = os.path.join(root, "cwrap", unit["wrapper"])
        flags = [f.replace("{ROOT}", root) for f in unit.get("clang_flags", [])]
        rc, out, dt = sh(enginec.CLANG + flags + ["-I" + repo, "-I" + os.path.join(root, "cwrap")] + [src, "-o", base + ".ll"], timeout=600)
        if rc != 0: res["broken"].append("clang failed on %s:\n%s" % (unit["wrapper"], out[-2000:])); continue
        ir_lines = sum(1 for _ in open(base + ".ll")); fns = re.findall(r"^define [^@]*(@[\w.$]+)", open(base + ".ll").read(), re.M)
        # ---- translator validation: the executor in concrete mode against the native g++ build (real files, real std::fstream) on the driver's script
        # the native build uses the hardened libstdc++ (-D_GLIBCXX_ASSERTIONS, as several distributions build everything): operator[] on an empty vector,
        # front()/back() of an empty container etc. abort there although they have no observable effect otherwise
        cmds = [["g++", "-std=c++17", "-O1", "-w", "-DNDEBUG", "-D_GLIBCXX_ASSERTIONS", "-DAMGCL_NO_BOOST", "-I" + repo, "-c", src, "-o", base + "_real.o"], ["gcc", "-O1", "-w", "-c", os.path.join(root, "cwrap", unit["driver"]), "-o", base + "_drv.o"], ["g++", base + "_drv.o", base + "_real.o", "-o", base + "_drv_real"]]
        ok = True
        for c in cmds:
            rc, out, dt = sh(c, timeout=600)
            if rc != 0: res["broken"].append("native driver build failed: %s\n%s" % (" ".join(c), out[-1500:])); ok = False; break
        if not ok: continue
        a = sh([base + "_drv_real", str(seed)], timeout=300); iters = unit.get("diff_iters", 30)
        if a[0] in (-6, 134) and "ssertion" in a[1]:
            m = re.search(r"[^\n]*Assertion[^\n]*", a[1]); last = [l for l in a[1].split("\n") if l and "ssertion" not in l][-1:]
            res["violations"].append(dict(engine="X", harness=unit["name"], case="native driver script of %s (valid files and truncations), hardened libstdc++ build" % unit["driver"], obligation="library assertion aborts the real reader/writer: " + (m.group(0)[:300] if m else "abort"),
                detail="g++ -D_GLIBCXX_ASSERTIONS build of the real templates, seed %s; last completed script line: %s" % (seed, (last[0][:200] if last else "-")), model={}, prefix="", trace=None, unit=unit["name"], fn="native", defines=[], replayed=True, native_cmd=[base + "_drv_real", str(seed)]))
            res["evaluations"] += 1; continue
        b = sh([PY, os.path.join(root, "lib", "c19x.py"), "--ll", base + ".ll", unit.get("diff_opt", "--diff"), str(iters), str(seed)], timeout=1800)
        la = a[1].split("\n"); lb = [x for x in b[1].split("\n") if x.strip()]
        if a[0] != 0 or b[0] != 0 or not lb or la[:len(lb)] != lb:
            k = next((i for i in range(min(len(la), len(lb))) if la[i] != lb[i]), -1)
            res["broken"].append("translator validation (%s): the executor's concrete run and the native build disagree (rc %d/%d, first differing line %d: %r vs %r)" % (unit["name"], a[0], b[0], k, la[k][:200] if k >= 0 else "", lb[k][:200] if k >= 0 else b[1][-300:])); continue
        difftxt = "%d output lines of the driver script identical (executor in concrete mode vs native g++ build reading real temporary files)" % len(lb)
        res["functions"].append("%s: clang-14 -O1 IR of %s (%d IR lines, %d functions: %s) interpreted by lib/irsx.py" % (unit["name"], unit["wrapper"], ir_lines, len(fns), ", ".join(f for f in fns if "GLOBAL" not in f)[:900]))
        for x in unit.get("assumptions", []): res["assumptions"].add(x)
        tasks = tasks_for(unit, tier); budget = unit["budget_s"][tier if tier == "thorough" else "quick"]
        def work(t):
            outp = base + "_%s_%s.json" % (t["harness"], "_".join("%s%s" % (k, "x".join(map(str, t[k])) if k == "range" else t[k]) for k in KEYS if k in t))
            cmd = [PY, os.path.join(root, "lib", "c19x.py"), "--ll", base + ".ll", "--harness", t["harness"], "--budget", str(budget), "--timeout-ms", str(unit.get("solver_timeout_ms", 30000)), "--out", outp]
            for k in KEYS:
                if k in t: cmd += ["--" + k] + ([str(x) for x in t[k]] if k == "range" else [str(t[k])])
            rc, out, dt = sh(cmd, timeout=budget * 2 + 120)
            try: data = json.load(open(outp))
            except Exception: data = None
            return t, rc, out, dt, data
        with ThreadPoolExecutor(max_workers=max(1, jobs)) as ex: results = list(ex.map(work, tasks))
        S = res["summary"].setdefault(unit["name"], dict(ir_lines=ir_lines, differential=difftxt, tasks=len(tasks), harnesses={}))
        for t, rc, out, dt, data in results:
            key = t["harness"]; H = S["harnesses"].setdefault(key, dict(tasks=0, paths=0, forks=0, instructions=0, bounds_checks=0, path_end_checks=0, queries=0, solver_s=0.0, incomplete=0, findings=0, max_task_s=0.0))
            H["tasks"] += 1; res["evaluations"] += 1
            label = "%s(%s)" % (key, ", ".join("%s=%s" % (k, t[k]) for k in KEYS if k in t))
            if data is None:
                H["incomplete"] += 1; res["inconclusive"].append("engine X: %s gave no result (rc=%d): %s" % (label, rc, out[-300:].replace("\n", " "))); continue
            for k, src_k in (("paths", "paths"), ("forks", "forks"), ("instructions", "instructions"), ("bounds_checks", "bounds_checks"), ("path_end_checks", "path_ends_checked"), ("queries", "queries")): H[k] += data[src_k]
            H["solver_s"] = round(H["solver_s"] + data["solver_s"], 2); H["max_task_s"] = max(H["max_task_s"], data["wall_s"]); res["solver_s"] += data["solver_s"]; res["evaluations"] += data["queries"]
            ob = data["bounds_checks"] + data["path_ends_checked"]; res["obligations"] += ob
            if not data["complete"]:
                H["incomplete"] += 1; res["inconclusive"].append("engine X: %s did not finish inside its bounds (paths left %d, unsupported: %s)" % (label, data["stopped"], "; ".join(data["unsupported"])[:300]))
            if data["n_findings"] == 0:
                if data["complete"]: res["discharged"] += ob
                continue
            H["findings"] += data["n_findings"]; res["discharged"] += max(ob - data["n_findings"], 0)
            for f in data["findings"][:2]:
                tr = dict((k, int(v)) for k, v in f.get("inputs", {}).items())
                v = dict(engine="X", harness=unit["name"], case=label, obligation="%s: %s" % (f["kind"], f["detail"][:300]), detail="counterexample of the IR symbolic executor (file bytes and arguments in the replay file)", model=dict((k, str(x)) for k, x in tr.items()), prefix="", trace=tr, unit=unit["name"], fn=t["fn"], defines=t["defines"])
                v["replayed"] = enginec.replay_trace(unit, dict(fn=t["fn"], defines=t["defines"]), tr, bdir, repo, root) if tr else False
                res["violations"].append(v)
        for key, H in S["harnesses"].items():
            if H["findings"] == 0 and H["incomplete"] == 0: res["samples"].append("%s: %d tasks, %d paths, %d solver-checked memory accesses in bounds, %d path-end postconditions proved, %d queries, %.0f s solver" % (key, H["tasks"], H["paths"], H["bounds_checks"], H["path_end_checks"], H["queries"], H["solver_s"]))
    res["assumptions"] = sorted(res["assumptions"])
    return res

def replay(R, bdir, repo, root):
    import props
    unit = [u for u in props.PROPS[R["property"]]["X"] if u["name"] == R["harness"]][0]
    if R.get("fn") == "native":
        print(R.get("obligation")); print(R.get("detail")); print("VIOLATION property=%s replay=%s" % (R["property"], "replays/")); return 1
    ok = enginec.replay_trace(unit, dict(fn=R["fn"], defines=R.get("defines", [])), dict((k, int(v)) for k, v in R["model"].items()), bdir, repo, root)
    log = os.path.join(bdir, unit["name"] + "_replay_" + R["fn"] + ".log")
    if os.path.exists(log): print(open(log).read()[-3000:])
    if ok: print("VIOLATION property=%s replay=%s" % (R["property"], "replays/")); return 1
    print("replay did not reproduce a violation on the real code"); return 0
