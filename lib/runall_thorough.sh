#!/bin/bash
# development helper: thorough tier of every check, one after another, 8 jobs each
cd /verif; out=build/thor; mkdir -p $out
for id in "$@"; do s=$(date +%s); timeout 10800 ./check $id --tier thorough --jobs 8 > $out/$id.log 2>&1; rc=$?; e=$(date +%s); cp evidence/$id.json $out/$id.evidence.json 2>/dev/null; echo "$id rc=$rc wall=$((e-s))s $(grep -cE '^UNDECIDED' $out/$id.log) undecided" | tee -a $out/summary.txt; done
