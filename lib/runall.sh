#!/bin/bash
# usage: lib/runall.sh <tier> <outdir> [ids...]   : runs the registered checks one after another (development helper)
tier=$1; out=$2; shift 2; mkdir -p $out; cd /verif
ids="$@"; [ -z "$ids" ] && ids="C01 C02 C03 C04 C05 C06 C07 C08 C09 C10 C11 C12 C13 C14 C15 C16 C17 C18 C20"
for id in $ids; do s=$(date +%s); timeout 7200 ./check $id --tier $tier > $out/$id.log 2>&1; rc=$?; e=$(date +%s); echo "$id rc=$rc wall=$((e-s))s $(grep -cE '^UNDECIDED' $out/$id.log) undecided" | tee -a $out/summary.txt; done
