#!/usr/bin/env python3
"""C19 harnesses for the IR symbolic executor (lib/irsx.py) over the clang-14 IR of cwrap/k_io.cpp
   (the real amgcl/io/binary.hpp readers + the writer sequence of examples/mm2bin.cpp, compiled against the in-memory <fstream> stand-in).
   One task = one harness at one concrete file length / shape; the file CONTENTS, row range and matrix data are symbolic.
   Usage: python3-vt lib/c19x.py --ll k_io.ll --harness <name> [--fcap N --len L | --n N --nnz Z | --n N --m M] --budget S --out res.json
          python3-vt lib/c19x.py --ll k_io.ll --diff ITER SEED        (concrete run of the differential driver's script, prints its lines)"""
import sys, os, time, json, argparse, z3
sys.path.insert(0, os.path.dirname(os.path.abspath(__file__)))
import irsx
from irsx import bvv

def rd32(o, k): return z3.simplify(z3.Concat(o.bytes[4*k+3], o.bytes[4*k+2], o.bytes[4*k+1], o.bytes[4*k]))
def wr32(o, k, v):
    for b in range(4): o.bytes[4*k+b] = z3.simplify(z3.Extract(8*b+7, 8*b, v))
def gobj(eng, st, name): return st.objs[(eng.global_ptr[name].as_long() >> 32) - 1]
def set_len(eng, st, L):
    vl = gobj(eng, st, '@vfile_len'); L = bvv(L, 64) if isinstance(L, int) else L
    for k in range(8): vl.bytes[k] = z3.simplify(z3.Extract(8*k+7, 8*k, L))
def sval(m, e):
    v = m.eval(e, model_completion=True).as_long(); b = e.size(); return v - (1 << b) if v >> (b - 1) else v
def sel(arr, idx, n):
    """arr[idx] for a python list of BV32 and a symbolic BV32 index (0 <= idx < n assumed by the caller)"""
    e = arr[n - 1]
    for k in range(n - 2, -1, -1): e = z3.If(idx == k, arr[k], e)
    return e

class Task:
    def __init__(s, ll, timeout_ms): s.eng = irsx.Engine(ll, timeout_ms=timeout_ms); s.st = irsx.State(); s.eng.init_globals(s.st); s.findings = []; s.inputs = {}; s.ends = 0; s.post_checks = 0
    def out(s, name, nbytes): o, p = s.eng.new_obj(s.st, "out_" + name, nbytes, 'heap'); return o.id, p
    def start(s): ok, s.st.model = s.eng.check(s.st, []); assert ok
    def post(s, s2, formula, what):
        s.post_checks += 1
        bad, m = s.eng.check(s2, [z3.Not(formula)])
        if bad: s.findings.append(irsx.Violation("postcondition", what(m), m))
    def result(s, name, params, wall):
        e = s.eng; fl = []
        for v in s.findings[:8]:
            d = dict(kind=v.kind, detail=v.detail)
            if v.model is not None: d['inputs'] = dict((k, sval(v.model, x) if not isinstance(x, int) else x) for k, x in s.inputs.items())
            fl.append(d)
        return dict(harness=name, params=params, paths=e.stats['paths'], path_ends_checked=s.post_checks, forks=e.stats['forks'], instructions=e.stats['instructions'], bounds_checks=e.stats['oob_checks'], queries=e.queries, solver_s=round(e.solver_s, 2), wall_s=round(wall, 2),
                    stopped=e.stats['stopped'], unsupported=sorted(set(e.stats['unsupported']))[:8], findings=fl, n_findings=len(s.findings), complete=(e.stats['stopped'] == 0 and not e.stats['unsupported']))

def file_task(ll, fcap, flen, timeout_ms):
    t = Task(ll, timeout_ms); vd = gobj(t.eng, t.st, '@vfile_data')
    for i in range(fcap): vd.bytes[i] = z3.BitVec('byte_%d' % i, 8); t.inputs['byte[%d]' % i] = vd.bytes[i]
    set_len(t.eng, t.st, flen); t.inputs['len'] = flen
    rb = z3.BitVec('row_beg', 32); re_ = z3.BitVec('row_end', 32); t.inputs['row_beg'] = rb; t.inputs['row_end'] = re_
    # the defaults (-1,-1) or any range; (an inverted or too large range must be REJECTED by the reader, it is not assumed away)
    t.st.pc += [rb >= -1, re_ >= -1, rb <= 64, re_ <= 64]
    return t, rb, re_

def h_read_crs_robust(ll, fcap, flen, budget, timeout_ms):
    t, rb, re_ = file_task(ll, fcap, flen, timeout_ms); wcap = fcap // 4 + 2
    n_, ptr_, col_, val_, pl_, cl_, vl_ = t.out('n', 4), t.out('ptr', 4*wcap), t.out('col', 4*wcap), t.out('val', 4*wcap), t.out('pl', 4), t.out('cl', 4), t.out('vl', 4); t.start()
    def on_done(s2):
        if s2.retval is None: t.findings.append(irsx.Violation("escaped-exception", "an exception left the wrapper", s2.model)); return
        r = s2.retval; O = lambda x: s2.objs[x[0]]
        n = rd32(O(n_), 0); pl = rd32(O(pl_), 0); cl = rd32(O(cl_), 0); vl = rd32(O(vl_), 0); P = [rd32(O(ptr_), i) for i in range(wcap)]
        b = z3.If(rb < 0, bvv(0, 32), rb); e = z3.If(re_ < 0, n, re_)
        conds = [n >= 0, b <= e, e <= n, pl == e - b + 1, P[0] == 0, vl == cl]
        for i in range(wcap - 1): conds.append(z3.Implies(bvv(i + 1, 32) < pl, P[i] <= P[i + 1]))
        conds.append(cl == sel(P, pl - 1, wcap))
        t.post(s2, z3.And(z3.Or(r == 0, r == 1), z3.Implies(r == 0, z3.And(*conds))), lambda m: "read_crs returned normally with a structurally invalid matrix: rc=%s n=%s ptr_len=%s col_len=%s val_len=%s" % (m.eval(r), m.eval(n), m.eval(pl), m.eval(cl), m.eval(vl)))
    t.findings = t.eng.run(t.st, '@k_read_crs', [rb, re_, n_[1], ptr_[1], bvv(wcap, 32), col_[1], val_[1], bvv(wcap, 32), pl_[1], cl_[1], vl_[1]], on_done, budget) + t.findings
    return t

def h_read_dense_robust(ll, fcap, flen, budget, timeout_ms):
    t, rb, re_ = file_task(ll, fcap, flen, timeout_ms); wcap = fcap // 4 + 2
    # bound of this harness: the two header fields (rows, columns) lie in [-4, 8] -- the reader multiplies them, and a product of two
    # unconstrained 64-bit symbolic values is out of reach of the bit-vector solver (measured: unknown after 30 s); contents, length, row range stay arbitrary
    vd = gobj(t.eng, t.st, '@vfile_data'); hn = z3.Concat(vd.bytes[3], vd.bytes[2], vd.bytes[1], vd.bytes[0]); hm = z3.Concat(vd.bytes[7], vd.bytes[6], vd.bytes[5], vd.bytes[4]); t.st.pc += [hn >= -4, hn <= 8, hm >= -4, hm <= 8]
    n_, m_, v_, vl_ = t.out('n', 4), t.out('m', 4), t.out('v', 4*wcap), t.out('vl', 4); t.start()
    def on_done(s2):
        if s2.retval is None: t.findings.append(irsx.Violation("escaped-exception", "an exception left the wrapper", s2.model)); return
        r = s2.retval; O = lambda x: s2.objs[x[0]]; n = rd32(O(n_), 0); m = rd32(O(m_), 0); vl = rd32(O(vl_), 0)
        b = z3.If(rb < 0, bvv(0, 32), rb); e = z3.If(re_ < 0, n, re_)
        ok = z3.And(n >= 0, b <= e, e <= n, z3.Or(m >= 0, e == b), z3.SignExt(32, vl) == z3.SignExt(32, e - b) * z3.SignExt(32, m))
        t.post(s2, z3.And(z3.Or(r == 0, r == 1), z3.Implies(r == 0, ok)), lambda mo: "read_dense returned normally with inconsistent sizes: rc=%s n=%s m=%s len=%s" % (mo.eval(r), mo.eval(n), mo.eval(m), mo.eval(vl)))
    t.findings = t.eng.run(t.st, '@k_read_dense', [rb, re_, n_[1], m_[1], v_[1], bvv(wcap, 32), vl_[1]], on_done, budget) + t.findings
    return t

def h_crs_roundtrip(ll, n, nnz, budget, timeout_ms, vbytes=4):
    """n rows (concrete), exactly nnz stored entries (concrete), row pointers / columns / values symbolic; rows sorted (the reader sorts rows)"""
    t = Task(ll, timeout_ms); st = t.st; t.inputs['n'] = n
    ptr = [bvv(0, 32)] + [z3.BitVec('ptr_%d' % (i + 1), 32) for i in range(n)]
    if n > 0: ptr[n] = bvv(nnz, 32)       # the total is concrete (it fixes the file length); the interior row pointers are symbolic
    col = [z3.BitVec('col_%d' % j, 32) for j in range(nnz)]; val = [z3.BitVec('val_%d' % j, 8 * vbytes) for j in range(nnz)]
    def wrv(o, k, v):
        for b in range(vbytes): o.bytes[vbytes*k+b] = z3.simplify(z3.Extract(8*b+7, 8*b, v))
    def rdv(o, k): return z3.simplify(z3.Concat(*[o.bytes[vbytes*k+b] for b in range(vbytes - 1, -1, -1)]))
    sfx = '8' if vbytes == 8 else ''
    for i in range(n): st.pc += [ptr[i] <= ptr[i + 1]]; t.inputs['ptr[%d]' % (i + 1)] = ptr[i + 1] if not z3.is_bv_value(ptr[i + 1]) else ptr[i + 1].as_long()
    if n == 0 and nnz > 0: raise SystemExit("n = 0 needs nnz = 0")
    for j in range(nnz):
        t.inputs['col[%d]' % j] = col[j]
        if vbytes == 4: t.inputs['val[%d]' % j] = val[j]
        else: t.inputs['val_lo[%d]' % j] = z3.Extract(31, 0, val[j]); t.inputs['val_hi[%d]' % j] = z3.Extract(63, 32, val[j])
    for i in range(n):
        for j in range(nnz - 1): st.pc.append(z3.Implies(z3.And(ptr[i] <= j, j + 1 < ptr[i + 1]), col[j] <= col[j + 1]))
    po, pp = t.eng.new_obj(st, "in_ptr", 4 * (n + 1), 'heap'); co, cp = t.eng.new_obj(st, "in_col", max(4 * nnz, 4), 'heap'); vo, vp = t.eng.new_obj(st, "in_val", max(vbytes * nnz, vbytes), 'heap')
    for i in range(n + 1): wr32(po, i, ptr[i])
    for j in range(nnz): wr32(co, j, col[j]); wrv(vo, j, val[j])
    rb = z3.BitVec('row_beg', 32); re_ = z3.BitVec('row_end', 32); t.inputs['row_beg'] = rb; t.inputs['row_end'] = re_
    st.pc.append(z3.Or(z3.And(rb == -1, re_ == -1), z3.And(rb >= 0, rb <= re_, re_ <= n)))
    n_, ptr_, col_, val_, pl_, cl_, vl_ = t.out('n', 4), t.out('ptr', 4*(n+2)), t.out('col', 4*(nnz+1)), t.out('val', vbytes*(nnz+1)), t.out('pl', 4), t.out('cl', 4), t.out('vl', 4); t.start()
    def after_write(s1):
        if s1.retval is None: t.findings.append(irsx.Violation("escaped-exception", "an exception left the writer wrapper", s1.model)); return
        t.post(s1, s1.retval == 0, lambda m: "writing a valid matrix failed")
        s1.pc.append(s1.retval == 0); s1.done = False
        def after_read(s2):
            if s2.retval is None: t.findings.append(irsx.Violation("escaped-exception", "an exception left the reader wrapper", s2.model)); return
            r = s2.retval; O = lambda x: s2.objs[x[0]]; rn = rd32(O(n_), 0); pl = rd32(O(pl_), 0); cl = rd32(O(cl_), 0); vl = rd32(O(vl_), 0)
            b = z3.If(rb < 0, bvv(0, 32), rb); e = z3.If(re_ < 0, bvv(n, 32), re_); pb = sel(ptr, b, n + 1); pe = sel(ptr, e, n + 1)
            conds = [r == 0, rn == n, pl == e - b + 1, cl == pe - pb, vl == cl]
            for i in range(n + 1): conds.append(z3.Implies(bvv(i, 32) < pl, rd32(O(ptr_), i) == sel(ptr, b + i, n + 1) - pb))
            for j in range(nnz): conds.append(z3.Implies(bvv(j, 32) < cl, z3.And(rd32(O(col_), j) == sel(col, pb + j, nnz), rdv(O(val_), j) == sel(val, pb + j, nnz))))
            t.post(s2, z3.And(*conds), lambda m: "write + read does not return the written matrix (slice): rc=%s n=%s ptr_len=%s col_len=%s" % (m.eval(r), m.eval(rn), m.eval(pl), m.eval(cl)))
        t.findings += t.eng.run(s1, '@k_read_crs' + sfx, [rb, re_, n_[1], ptr_[1], bvv(n + 2, 32), col_[1], val_[1], bvv(nnz + 1, 32), pl_[1], cl_[1], vl_[1]], after_read, budget)
    t.findings = t.eng.run(st, '@k_write_crs' + sfx, [bvv(n, 32), pp, cp, vp], after_write, budget) + t.findings
    return t

def h_dense_roundtrip(ll, n, m, budget, timeout_ms):
    t = Task(ll, timeout_ms); st = t.st; t.inputs['n'] = n; t.inputs['m'] = m; v = [z3.BitVec('v_%d' % i, 32) for i in range(n * m)]
    vo, vp = t.eng.new_obj(st, "in_v", max(4 * n * m, 4), 'heap')
    for i in range(n * m): wr32(vo, i, v[i]); t.inputs['v[%d]' % i] = v[i]
    rb = z3.BitVec('row_beg', 32); re_ = z3.BitVec('row_end', 32); t.inputs['row_beg'] = rb; t.inputs['row_end'] = re_
    st.pc.append(z3.Or(z3.And(rb == -1, re_ == -1), z3.And(rb >= 0, rb <= re_, re_ <= n)))
    n_, m_, v_, vl_ = t.out('n', 4), t.out('m', 4), t.out('v', 4 * (n * m + 1)), t.out('vl', 4); t.start()
    def after_write(s1):
        if s1.retval is None: t.findings.append(irsx.Violation("escaped-exception", "an exception left the writer wrapper", s1.model)); return
        t.post(s1, s1.retval == 0, lambda mo: "writing a dense array failed"); s1.pc.append(s1.retval == 0); s1.done = False
        def after_read(s2):
            if s2.retval is None: t.findings.append(irsx.Violation("escaped-exception", "an exception left the reader wrapper", s2.model)); return
            r = s2.retval; O = lambda x: s2.objs[x[0]]; rn = rd32(O(n_), 0); rm = rd32(O(m_), 0); vl = rd32(O(vl_), 0); b = z3.If(rb < 0, bvv(0, 32), rb); e = z3.If(re_ < 0, bvv(n, 32), re_)
            conds = [r == 0, rn == n, rm == m, vl == (e - b) * m]
            for i in range(n * m): conds.append(z3.Implies(bvv(i, 32) < vl, rd32(O(v_), i) == sel(v, b * m + i, n * m)))
            t.post(s2, z3.And(*conds), lambda mo: "write + read does not return the written array (slice): rc=%s n=%s m=%s len=%s" % (mo.eval(r), mo.eval(rn), mo.eval(rm), mo.eval(vl)))
        t.findings += t.eng.run(s1, '@k_read_dense', [rb, re_, n_[1], m_[1], v_[1], bvv(n * m + 1, 32), vl_[1]], after_read, budget)
    t.findings = t.eng.run(st, '@k_write_dense', [bvv(n, 32), bvv(m, 32), vp], after_write, budget) + t.findings
    return t

# ------------------------------------------------------------------ concrete differential script (mirrors cwrap/d_io.c line by line)
def diff(ll, iters, seed):
    eng = irsx.Engine(ll, timeout_ms=10000); st = irsx.State(); eng.init_globals(st); ok, st.model = eng.check(st, [])
    S = [seed & (2**64 - 1)]
    def rnd(n): S[0] = (S[0] * 6364136223846793005 + 1442695040888963407) & (2**64 - 1); return (S[0] >> 33) % n
    def alloc(words, vals=None):
        o, p = eng.new_obj(st_box[0], "drv", 4 * max(words, 1), 'heap')
        for i in range(words): wr32(o, i, bvv(vals[i] if vals else 0xfffffff9, 32))
        return o.id, p
    st_box = [st]
    def call(fn, args):
        res = []
        f = eng.run(st_box[0], fn, args, lambda s2: res.append(s2))
        if f or len(res) != 1: raise RuntimeError("concrete run did not complete on one path: %s %s" % ([x.kind + ' ' + x.detail for x in f], eng.stats['unsupported'][-2:]))
        st_box[0] = res[0]; st_box[0].done = False; return res[0].retval
    def geti(oid, k): v = z3.simplify(rd32(st_box[0].objs[oid], k)).as_long(); return v - (1 << 32) if v >> 31 else v
    lines = []
    for it in range(iters):
        n = rnd(5); ptr = [0]
        for i in range(n): ptr.append(ptr[-1] + rnd(4))
        nnz = ptr[n]; col = [0] * 32; val = [0] * 32
        for i in range(n):
            c = 0
            for j in range(ptr[i], ptr[i + 1]): c += 1 + rnd(3); col[j] = c; val[j] = 1000 * it + j
        P = alloc(8, ptr + [0] * (8 - len(ptr))); C = alloc(32, col); V = alloc(32, val)
        w = call('@k_write_crs', [bvv(n, 32), P[1], C[1], V[1]]).as_long()
        F = eng.new_obj(st_box[0], "drv_f", 96, 'heap'); flen = call('@k_get_file', [F[1], bvv(96, 64)]).as_long()
        fb = [z3.simplify(F[0].bytes[i]).as_long() if i < flen else 0 for i in range(96)]; fobj = F[0].id
        lines.append("W %d len %d:" % (w, flen) + "".join(" %02x" % fb[i] for i in range(min(flen, 96))))
        for t in range(4):
            cut = flen if t == 0 else rnd(flen + 1); rb = re_ = -1
            if t == 1 and n > 0: rb = rnd(n + 1); re_ = rb + rnd(n - rb + 1); cut = flen
            call('@k_set_file', [bvv((fobj + 1) << 32, 64), bvv(cut, 64)])
            N_ = alloc(1); RP = alloc(16); RC = alloc(32); RV = alloc(32); PL = alloc(1); CL = alloc(1); VL = alloc(1)
            r = call('@k_read_crs', [bvv(rb, 32), bvv(re_, 32), N_[1], RP[1], bvv(16, 32), RC[1], RV[1], bvv(32, 32), PL[1], CL[1], VL[1]]).as_long()
            ln = "R cut %d rows [%d,%d) -> %d" % (cut, rb, re_, r)
            if r == 0: ln += " n %d ptr" % geti(N_[0], 0) + "".join(" %d" % geti(RP[0], i) for i in range(geti(PL[0], 0))) + " entries" + "".join(" (%d,%d)" % (geti(RC[0], j), geti(RV[0], j)) for j in range(geti(CL[0], 0)))
            lines.append(ln)
        dn = rnd(4); dm = rnd(4); dv = [77 * it + i for i in range(dn * dm)] + [0] * (16 - dn * dm); DV = alloc(16, dv)
        w = call('@k_write_dense', [bvv(dn, 32), bvv(dm, 32), DV[1]]).as_long(); flen = call('@k_get_file', [bvv((fobj + 1) << 32, 64), bvv(96, 64)]).as_long()
        for t in range(3):
            cut = flen if t == 0 else rnd(flen + 1); rb = re_ = -1
            if t == 1 and dn > 0: rb = rnd(dn + 1); re_ = rb + rnd(dn - rb + 1); cut = flen
            call('@k_set_file', [bvv((fobj + 1) << 32, 64), bvv(cut, 64)]); N_ = alloc(1); M_ = alloc(1); RV = alloc(16); VL = alloc(1)
            r = call('@k_read_dense', [bvv(rb, 32), bvv(re_, 32), N_[1], M_[1], RV[1], bvv(16, 32), VL[1]]).as_long()
            ln = "D w %d cut %d rows [%d,%d) -> %d" % (w, cut, rb, re_, r)
            if r == 0: ln += " %d x %d:" % (geti(N_[0], 0), geti(M_[0], 0)) + "".join(" %d" % geti(RV[0], i) for i in range(geti(VL[0], 0)))
            lines.append(ln)
        # drop the driver's scratch objects of this iteration (keeps states small)
        for oid in [k for k, o in st_box[0].objs.items() if o.name.startswith('drv')]: del st_box[0].objs[oid]
    return lines

# ------------------------------------------------------------------ MatrixMarket reader at token level (cwrap/k_mm.cpp + cwrap/stub_mm)
VT_LINES, VT_TOKS = 8, 6
def mm_setup(ll, nlines, timeout_ms, body=False, sizes=None):
    """file = nlines lines (concrete count); line 0 = banner with symbolic words; one optional comment line; all numeric tokens symbolic.
       body tasks: valid banner of an integer coordinate file, general or symmetric; otherwise every word is the expected one or an unknown one"""
    t = Task(ll, timeout_ms); e = t.eng; st = t.st
    def seti(name, idx, val, width):
        o = gobj(e, st, name); nb = width // 8
        for b in range(nb): o.bytes[idx * nb + b] = z3.simplify(z3.Extract(8 * b + 7, 8 * b, val))
    seti('@vt_open_fails', 0, bvv(0, 32), 32); seti('@vt_nlines', 0, bvv(nlines, 32), 32); t.inputs['nlines'] = nlines
    for L in range(VT_LINES):
        c = z3.BitVec('comment_%d' % L, 32) if (L == 1 and sizes is None) else bvv(0, 32)      # only the line after the banner may be a comment (the reader skips comments only there)
        if L == 1 and sizes is None: st.pc.append(z3.Or(c == 0, c == 1)); t.inputs['comment[1]'] = c
        seti('@vt_comment', L, c, 32)
        nt = z3.BitVec('ntok_%d' % L, 32); st.pc += [nt >= 0, nt <= VT_TOKS]; seti('@vt_ntok', L, nt, 32); t.inputs['ntok[%d]' % L] = nt
        for k in range(VT_TOKS):
            v = z3.BitVec('tok_%d_%d' % (L, k), 64)
            if sizes is not None and L == 1 and k < 3: v = bvv(sizes[k], 64)        # concrete size line 'n m nnz' (no comment line)
            seti('@vt_tok', L * VT_TOKS + k, v, 64); t.inputs['tok[%d][%d]' % (L, k)] = v if not z3.is_bv_value(v) else sizes[k]
            if L == 0 and k < 5:
                w = z3.BitVec('word_%d' % k, 32); allowed = [(0,), (1,), (2,), (6,), (7, 8)][k] if body else [(0, 9), (1, 9), (2, 3, 9), (4, 5, 6, 9), (7, 8, 9)][k]; st.pc.append(z3.Or(*[w == a for a in allowed])); t.inputs['word[0][%d]' % k] = w
            else: w = bvv(9, 32)
            seti('@vt_word', L * VT_TOKS + k, w, 32)
    return t

def h_mm_sparse_robust(ll, nlines, budget, timeout_ms, body=False, rng=None):
    t = mm_setup(ll, nlines, timeout_ms, body); st = t.st; cap = 2 * VT_LINES + 2
    if rng is None: rb = z3.BitVec('row_beg', 64); re_ = z3.BitVec('row_end', 64); st.pc += [rb >= -1, re_ >= -1, rb <= 4, re_ <= 4]
    else: rb = bvv(rng[0], 64); re_ = bvv(rng[1], 64)       # one task per requested row range
    t.inputs['row_beg'] = rb if rng is None else rng[0]; t.inputs['row_end'] = re_ if rng is None else rng[1]
    # bound of this harness: the row count on the sizes line (line 1, or line 2 after a comment) is at most 3 -- the reader fills ptr[0..n] in a loop; negative counts are NOT excluded
    st.pc += [z3.BitVec('tok_1_0', 64) <= 3, z3.BitVec('tok_2_0', 64) <= 3]
    rows_, cols_, ptr_, col_, val_, pl_, cl_, vl_, sy_ = t.out('rows', 8), t.out('cols', 8), t.out('ptr', 4 * cap), t.out('col', 4 * cap), t.out('val', 4 * cap), t.out('pl', 4), t.out('cl', 4), t.out('vl', 4), t.out('sym', 4); t.start()
    def rd64(o): return z3.simplify(z3.Concat(*[o.bytes[k] for k in range(7, -1, -1)]))
    def on_done(s2):
        if s2.retval is None: t.findings.append(irsx.Violation("escaped-exception", "an exception left the wrapper", s2.model)); return
        r = s2.retval; O = lambda x: s2.objs[x[0]]; rows = rd64(O(rows_)); cols = rd64(O(cols_)); pl = rd32(O(pl_), 0); cl = rd32(O(cl_), 0); vl = rd32(O(vl_), 0); P = [rd32(O(ptr_), i) for i in range(cap)]; C = [rd32(O(col_), i) for i in range(cap)]
        conds = [rows >= 0, z3.SignExt(32, pl) == rows + 1, P[0] == 0, vl == cl, cl == sel(P, pl - 1, cap)]
        for i in range(cap - 1): conds.append(z3.Implies(bvv(i + 1, 32) < pl, P[i] <= P[i + 1]))
        for j in range(cap): conds.append(z3.Implies(bvv(j, 32) < cl, z3.And(C[j] >= 0, z3.SignExt(32, C[j]) < cols)))        # column indices inside the matrix
        t.post(s2, z3.And(z3.Or(r == 0, r == 1), z3.Implies(r == 0, z3.And(*conds))), lambda m: "mm_reader returned normally with a structurally invalid matrix: rc=%s rows=%s cols=%s ptr_len=%s col_len=%s" % (m.eval(r), m.eval(rows), m.eval(cols), m.eval(pl), m.eval(cl)))
    t.findings = t.eng.run(st, '@k_mm_read_sparse', [rb, re_, rows_[1], cols_[1], ptr_[1], bvv(cap, 32), col_[1], val_[1], bvv(cap, 32), pl_[1], cl_[1], vl_[1], sy_[1]], on_done, budget) + t.findings
    return t

def diff_mm(ll, iters, seed):
    """concrete run of cwrap/d_mm.c's script through the executor"""
    eng = irsx.Engine(ll, timeout_ms=10000); st = irsx.State(); eng.init_globals(st); ok, st.model = eng.check(st, []); box = [st]
    S = [seed & (2**64 - 1)]
    def rnd(n): S[0] = (S[0] * 6364136223846793005 + 1442695040888963407) & (2**64 - 1); return (S[0] >> 33) % n
    def seti(name, idx, val, width):
        o = gobj(eng, box[0], name); nb = width // 8
        for b in range(nb): o.bytes[idx * nb + b] = bvv((val >> (8 * b)) & 255, 8)
    def alloc(nbytes): o, p = eng.new_obj(box[0], "drv", nbytes, 'heap', init=[bvv(0xf9 if k % 4 == 0 else 0xff, 8) for k in range(nbytes)]); return o.id, p
    def geti(oid, k, bits=32):
        o = box[0].objs[oid]; nb = bits // 8; v = 0
        for b in range(nb): v |= z3.simplify(o.bytes[k * nb + b]).as_long() << (8 * b)
        return v - (1 << bits) if v >> (bits - 1) else v
    lines = []
    for it in range(iters):
        n = rnd(4); m = 1 + rnd(3); nnz = rnd(4); sym = rnd(3) == 0; cm = rnd(4) == 0
        com = [0] * VT_LINES; ntok = [0] * VT_LINES; tok = [[0] * VT_TOKS for _ in range(VT_LINES)]; word = [[9] * VT_TOKS for _ in range(VT_LINES)]
        ntok[0] = 5; word[0][0:5] = [0, 1, 2, 6, 8 if sym else 7]
        if rnd(12) == 0: word[0][rnd(5)] = 9
        if rnd(15) == 0: ntok[0] = rnd(5)
        l = 1
        if cm: com[l] = 1; l += 1
        if sym: m = n
        ntok[l] = 3; tok[l][0:3] = [n, m, nnz]
        if rnd(10) == 0: tok[l][0] = -1 - rnd(2)
        if rnd(12) == 0: ntok[l] = rnd(3)
        l += 1
        e = 0
        while e < nnz and l < VT_LINES:
            ntok[l] = 3; tok[l][0] = 1 + rnd(n if n else 1); tok[l][1] = 1 + rnd(m if m else 1); tok[l][2] = 100 * it + e
            if rnd(8) == 0: k_ = rnd(2); tok[l][k_] = rnd(7) - 1
            if rnd(14) == 0: ntok[l] = rnd(3)
            e += 1; l += 1
        nl = l
        if rnd(6) == 0: nl = rnd(l + 1)
        seti('@vt_nlines', 0, nl, 32)
        for L in range(VT_LINES):
            seti('@vt_comment', L, com[L], 32); seti('@vt_ntok', L, ntok[L], 32)
            for k in range(VT_TOKS): seti('@vt_tok', L * VT_TOKS + k, tok[L][k] & (2**64 - 1), 64); seti('@vt_word', L * VT_TOKS + k, word[L][k], 32)
        for t in range(2):
            rb = re_ = -1
            if t == 1: rb = rnd(n + 2) - 1; re_ = rnd(n + 2) - 1
            R_, C_, P_, CO, VA, PL, CL, VL, SY = alloc(8), alloc(8), alloc(96), alloc(96), alloc(96), alloc(4), alloc(4), alloc(4), alloc(4)
            res = []; f = eng.run(box[0], '@k_mm_read_sparse', [bvv(rb, 64), bvv(re_, 64), R_[1], C_[1], P_[1], bvv(24, 32), CO[1], VA[1], bvv(24, 32), PL[1], CL[1], VL[1], SY[1]], lambda s2: res.append(s2))
            if f or len(res) != 1: raise RuntimeError("concrete run did not complete on one path: %s %s" % ([x.kind + ' ' + x.detail for x in f], eng.stats['unsupported'][-2:]))
            box[0] = res[0]; box[0].done = False; r = res[0].retval.as_long()
            ln = "M it %d lines %d rows [%d,%d) -> %d" % (it, nl, rb, re_, r)
            if r == 0: ln += " %d x %d sym %d ptr" % (geti(R_[0], 0, 64), geti(C_[0], 0, 64), geti(SY[0], 0)) + "".join(" %d" % geti(P_[0], i) for i in range(geti(PL[0], 0))) + " entries" + "".join(" (%d,%d)" % (geti(CO[0], j), geti(VA[0], j)) for j in range(geti(CL[0], 0)))
            lines.append(ln)
            for oid in [k for k, o in box[0].objs.items() if o.name == 'drv' or (o.kind in ('heap', 'stack') and not o.alive)]: del box[0].objs[oid]
    return lines

def h_mm_slice(ll, nlines, budget, timeout_ms, rng, n=2):
    """the same (symbolic token) file read completely and by the row range rng: the range read is exactly the slice of the full read
       (symmetric expansion included).  valid banner; the range must be valid for the file (0 <= rb <= re <= rows), otherwise nothing is claimed"""
    # concrete size line: n x n matrix with nlines-2 entry lines (so the reader's floating-point capacity estimate is concrete and computed exactly); entries symbolic
    t = mm_setup(ll, nlines, timeout_ms, True, sizes=(n, n, max(nlines - 2, 0))); st = t.st; cap = 2 * VT_LINES + 2; rb, re_ = rng; t.inputs['row_beg'] = rb; t.inputs['row_end'] = re_
    def outs(tag): return [t.out(tag + n, s) for n, s in (('rows', 8), ('cols', 8), ('ptr', 4 * cap), ('col', 4 * cap), ('val', 4 * cap), ('pl', 4), ('cl', 4), ('vl', 4), ('sym', 4))]
    A = outs('full_'); B = outs('part_'); t.start()
    def rd64(o): return z3.simplify(z3.Concat(*[o.bytes[k] for k in range(7, -1, -1)]))
    def args(O, a, b): return [bvv(a, 64), bvv(b, 64), O[0][1], O[1][1], O[2][1], bvv(cap, 32), O[3][1], O[4][1], bvv(cap, 32), O[5][1], O[6][1], O[7][1], O[8][1]]
    def after_full(s1):
        if s1.retval is None or not z3.is_true(z3.simplify(s1.retval == 0)): return          # the full read threw: nothing to compare
        s1.done = False
        def after_part(s2):
            if s2.retval is None: t.findings.append(irsx.Violation("escaped-exception", "an exception left the wrapper", s2.model)); return
            O = lambda x: s2.objs[x[0]]; rows = rd64(O(A[0])); r2 = s2.retval
            P1 = [rd32(O(A[2]), i) for i in range(cap)]; C1 = [rd32(O(A[3]), i) for i in range(cap)]; V1 = [rd32(O(A[4]), i) for i in range(cap)]
            P2 = [rd32(O(B[2]), i) for i in range(cap)]; C2 = [rd32(O(B[3]), i) for i in range(cap)]; V2 = [rd32(O(B[4]), i) for i in range(cap)]; pl2 = rd32(O(B[5]), 0); cl2 = rd32(O(B[6]), 0)
            valid = z3.And(rows >= re_, rb <= re_)
            base = P1[rb] if rb < cap else bvv(0, 32); conds = [r2 == 0, rd64(O(B[0])) == re_ - rb, pl2 == re_ - rb + 1, cl2 == (P1[re_] if re_ < cap else bvv(0, 32)) - base]
            for i in range(re_ - rb + 1): conds.append(P2[i] == P1[rb + i] - base)
            for j in range(cap): conds.append(z3.Implies(bvv(j, 32) < cl2, z3.And(C2[j] == sel(C1, base + j, cap), V2[j] == sel(V1, base + j, cap))))
            t.post(s2, z3.Implies(valid, z3.And(*conds)), lambda m: "reading rows [%d,%d) is not the slice of the full read: rc=%s, %s entries against %s in the slice" % (rb, re_, m.eval(r2), m.eval(cl2), m.eval(conds[3].arg(1))))
        t.findings += t.eng.run(s1, '@k_mm_read_sparse', args(B, rb, re_), after_part, budget)
    t.findings = t.eng.run(st, '@k_mm_read_sparse', args(A, -1, -1), after_full, budget) + t.findings
    return t


def h_mm_dense_robust(ll, nlines, budget, timeout_ms, rng):
    """dense ('array') MatrixMarket files: valid integer banner, symbolic size line and value lines; row range concrete per task"""
    t = mm_setup(ll, nlines, timeout_ms, True); st = t.st; cap = 64; rb, re_ = rng; t.inputs['row_beg'] = rb; t.inputs['row_end'] = re_
    st.pc = [c for c in st.pc if 'word_2' not in str(c) and 'word_4' not in str(c)] + [z3.BitVec('word_2', 32) == 3, z3.BitVec('word_4', 32) == 7]     # 'array ... general'
    # bound: rows and columns on the size line at most 3 each (the reader resizes to rows*cols and loops over both); negative values are not excluded
    st.pc += [z3.BitVec('tok_1_0', 64) <= 3, z3.BitVec('tok_2_0', 64) <= 3, z3.BitVec('tok_1_1', 64) <= 3, z3.BitVec('tok_2_1', 64) <= 3, z3.BitVec('tok_1_1', 64) >= -3, z3.BitVec('tok_2_1', 64) >= -3, z3.BitVec('tok_1_0', 64) >= -3, z3.BitVec('tok_2_0', 64) >= -3]
    rows_, cols_, val_, vl_ = t.out('rows', 8), t.out('cols', 8), t.out('val', 4 * cap), t.out('vl', 4); t.start()
    def rd64(o): return z3.simplify(z3.Concat(*[o.bytes[k] for k in range(7, -1, -1)]))
    def on_done(s2):
        if s2.retval is None: t.findings.append(irsx.Violation("escaped-exception", "an exception left the wrapper", s2.model)); return
        r = s2.retval; O = lambda x: s2.objs[x[0]]; rows = rd64(O(rows_)); cols = rd64(O(cols_)); vl = rd32(O(vl_), 0)
        t.post(s2, z3.And(z3.Or(r == 0, r == 1), z3.Implies(r == 0, z3.And(rows >= 0, z3.Or(cols >= 0, rows == 0), z3.SignExt(32, vl) == rows * cols))), lambda m: "dense mm_reader returned normally with inconsistent sizes: rc=%s rows=%s cols=%s len=%s" % (m.eval(r), m.eval(rows), m.eval(cols), m.eval(vl)))
    t.findings = t.eng.run(st, '@k_mm_read_dense', [bvv(rb, 64), bvv(re_, 64), rows_[1], cols_[1], val_[1], bvv(cap, 32), vl_[1]], on_done, budget) + t.findings
    return t

if __name__ == '__main__':
    ap = argparse.ArgumentParser(); ap.add_argument('--ll', required=True); ap.add_argument('--harness'); ap.add_argument('--fcap', type=int, default=24); ap.add_argument('--len', type=int, default=0); ap.add_argument('--n', type=int, default=1); ap.add_argument('--nnz', type=int, default=1); ap.add_argument('--m', type=int, default=1)
    ap.add_argument('--budget', type=float, default=600); ap.add_argument('--timeout-ms', type=int, default=30000); ap.add_argument('--out'); ap.add_argument('--diff', nargs=2, type=int); ap.add_argument('--diff-mm', nargs=2, type=int); ap.add_argument('--range', nargs=2, type=int)
    a = ap.parse_args()
    if a.diff_mm:
        for ln in diff_mm(a.ll, a.diff_mm[0], a.diff_mm[1]): print(ln)
        sys.exit(0)
    if a.diff:
        for ln in diff(a.ll, a.diff[0], a.diff[1]): print(ln)
        sys.exit(0)
    t0 = time.time()
    if a.harness == 'read_crs_robust': t = h_read_crs_robust(a.ll, a.fcap, a.len, a.budget, a.timeout_ms); params = dict(fcap=a.fcap, len=a.len)
    elif a.harness == 'read_dense_robust': t = h_read_dense_robust(a.ll, a.fcap, a.len, a.budget, a.timeout_ms); params = dict(fcap=a.fcap, len=a.len)
    elif a.harness == 'crs_roundtrip': t = h_crs_roundtrip(a.ll, a.n, a.nnz, a.budget, a.timeout_ms); params = dict(n=a.n, nnz=a.nnz)
    elif a.harness == 'crs_roundtrip8': t = h_crs_roundtrip(a.ll, a.n, a.nnz, a.budget, a.timeout_ms, vbytes=8); params = dict(n=a.n, nnz=a.nnz, payload_bytes=8)
    elif a.harness == 'dense_roundtrip': t = h_dense_roundtrip(a.ll, a.n, a.m, a.budget, a.timeout_ms); params = dict(n=a.n, m=a.m)
    elif a.harness == 'mm_dense_robust': t = h_mm_dense_robust(a.ll, a.n, a.budget, a.timeout_ms, tuple(a.range)); params = dict(nlines=a.n, row_range=list(a.range))
    elif a.harness == 'mm_slice': t = h_mm_slice(a.ll, a.n, a.budget, a.timeout_ms, tuple(a.range), n=a.m); params = dict(nlines=a.n, row_range=list(a.range), size=a.m)
    elif a.harness == 'mm_sparse_robust': t = h_mm_sparse_robust(a.ll, a.n, a.budget, a.timeout_ms, body=(a.m == 1), rng=(tuple(a.range) if a.range else None)); params = dict(nlines=a.n, banner=('valid' if a.m == 1 else 'any'), row_range=(a.range or 'symbolic in [-1,4]^2'))
    else: sys.exit("unknown harness")
    res = t.result(a.harness, params, time.time() - t0)
    if a.out: json.dump(res, open(a.out, 'w'), indent=1)
    print(json.dumps(dict((k, v) for k, v in res.items() if k != 'findings'))); [print("FINDING", json.dumps(f)) for f in res['findings'][:3]]



