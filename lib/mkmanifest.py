#!/usr/bin/env python3
# regenerates MANIFEST.json from lib/props.py (claimed checks) and lib/not_applicable.json
import json, os, sys
ROOT = os.path.dirname(os.path.dirname(os.path.abspath(__file__))); sys.path.insert(0, os.path.join(ROOT, "lib"))
import props
ids = [json.loads(l)["id"] for l in open(os.path.join(ROOT, "properties.jsonl"))]
na = json.load(open(os.path.join(ROOT, "lib", "not_applicable.json")))
checks = []
for pid in ids:
    if pid not in props.PROPS or pid in na: continue
    P = props.PROPS[pid]; eng = "+".join((["S"] if P.get("S") else []) + (["C"] if P.get("C") else []) + (["X"] if P.get("X") else []))
    checks.append({
        "property_id": pid,
        "quick_cmd": "./check %s --tier quick" % pid,
        "thorough_cmd": "./check %s --tier thorough" % pid,
        "evidence_file": "evidence/%s.json" % pid,
        "replay_cmd_template": "./check %s --replay {path}" % pid,
        "engine": eng,
        "level_claimed": {"category": "other", "design_ref": "DESIGN.md section 3 (%s)" % pid,
            "text": "Bounded solver-based checking of the real code: " + P["explanation"] + " Bound (quick): " + P["bounds"]["quick"] + ". A pass means: for every value of the symbolic inputs inside this bound the obligation holds (z3 unsat" + (", CBMC successful with unwinding assertions" if P.get("C") else "") + "); a counterexample is replayed " + ("on the real code (native build, real files, AddressSanitizer)" if not P.get("S") else "on the exact-rational and on the double build of the same real templates") + " before it is reported."},
        "level_note": ("Trusted base: z3 4.8.12, g++ 12, lib/symx.hpp (term store / normal form / SMT emission, cross-checked against the raw operation log in exact rational arithmetic and against the double build on every run)" + ("; clang-14 IR, lib/ir2c.py, cbmc 6.11" if P.get("C") else "") + ". Assumed: real arithmetic (no rounding), non-zero divisors listed as side conditions, OpenMP pragmas compiled out." if P.get("S") else "Trusted base: clang-14 -O1 IR of the wrapper, lib/irsx.py (IR interpreter and memory model, compared on every run with the native g++ build on a script of valid and truncated files), z3 5.1 bit-vector solver, the in-memory <fstream> stand-in. Assumed: see the evidence file (allocation threshold, header-field range of the dense harness).") + " Outside the claim: " + P.get("out", ""),
        "technique": ("symbolic execution of the real amgcl templates at a symbolic scalar (decision-prefix path exploration with concolic witness points) + z3 (QF_NRA/QF_LRA) on normal-form obligations" if P.get("S") else "") + ("; clang IR -> C -> CBMC bounded model checking with unwinding assertions" if P.get("C") else "") + ("symbolic execution of the clang-14 LLVM IR of the real readers/writers by an own executor (lib/irsx.py: forking on branches, byte-precise object memory with solver-checked bounds) + z3 bit-vector queries (QF_BV); counterexample files replayed on the native build under AddressSanitizer" if P.get("X") else ""),
    })
M = {
    "version": 1,
    "setup_cmd": "true",
    "hooks": {"guard": "AMGCL_VERIF", "enable": "harness translation units are compiled against /repo with -DAMGCL_VERIF; no hook patch is needed (private state is read with -fno-access-control, policies are template arguments)",
              "baseline_off_cmd": "cd /repo && cmake -G Ninja -B _build -DAMGCL_BUILD_TESTS=ON -DCMAKE_BUILD_TYPE=RelWithDebInfo -DCMAKE_CXX_FLAGS=-Wno-error >/dev/null && cmake --build _build && OMP_NUM_THREADS=2 ctest --test-dir _build -j8 --timeout 900",
              "source_commits": [], "add_only": True},
    "engines": [
        {"name": "S (symx)", "path": "lib/symx.hpp, lib/hx.hpp, lib/hx_amgcl.hpp, harness/*.cpp", "serves_properties": [c["property_id"] for c in checks if "S" in c["engine"]], "kind_free_text": "symbolic execution of the real C++ templates by instantiation at a symbolic scalar; z3 decides path feasibility and proof obligations"},
        {"name": "X (irsx)", "path": "lib/irsx.py, lib/c19x.py, lib/enginex.py, cwrap/k_io.cpp, cwrap/stub_io/fstream, cwrap/h_io.c, cwrap/d_io.c", "serves_properties": [c["property_id"] for c in checks if "X" in c["engine"]], "kind_free_text": "own symbolic executor for clang-14 LLVM IR on z3 bit-vectors (fork on branches, object/offset pointers, solver-checked bounds of every access, exceptions, operator new)"},
        {"name": "C (irbmc)", "path": "lib/ir2c.py, lib/enginec.py, cwrap/*", "serves_properties": [c["property_id"] for c in checks if "C" in c["engine"]], "kind_free_text": "clang-14 IR of extern-C wrappers around the real kernels -> C -> CBMC (symbolic CRS structure)"},
    ],
    "checks": checks,
    "not_applicable": [{"property_id": k, "reason": v} for k, v in na.items() if k in ids],
    "notes": "Fixes of genuine defects found by the checks are 'fix:' commits in /repo, recorded in known-findings.txt. Exit codes of ./check: 0 ok, 1 VIOLATION, 2 check broken on this tree (harness does not build), 3 INCONCLUSIVE (solver unknown / counterexample not reproduced).",
}
json.dump(M, open(os.path.join(ROOT, "MANIFEST.json"), "w"), indent=1)
print("checks:", [c["property_id"] for c in checks], "not_applicable:", sorted(na))
