#!/bin/bash
# usage: lib/run_seeded.sh <seeded-dir-name>...   : applies each seeded change to a scratch worktree of /repo, runs the check of the
# property it targets against that worktree (VERIF_REPO), stores the outcome in seeded/<name>/result.txt, removes the worktree.
cd /verif
for name in "$@"; do
  d=seeded/$name; pid=${name%%-*}
  wt=/tmp/seedwt_$name; git -C /repo worktree remove --force $wt 2>/dev/null; git -C /repo worktree add -q --detach $wt HEAD || continue
  if ! git -C $wt apply $PWD/$d/patch.diff 2>$d/apply.err; then echo "$name: patch does not apply: $(head -2 $d/apply.err)" | tee $d/result.txt; git -C /repo worktree remove --force $wt; continue; fi
  rm -f $d/apply.err
  start=$(date +%s)
  VERIF_REPO=$wt ./check $pid --tier quick --jobs ${SEED_JOBS:-8} > $d/check.log 2>&1; rc=$?
  end=$(date +%s)
  { echo "check: VERIF_REPO=<worktree with patch.diff applied> ./check $pid --tier quick"; echo "exit code: $rc   wall: $((end-start)) s"; grep -E "VIOLATION|violated|INCONCLUSIVE|BROKEN|OK property" $d/check.log | head -12; } > $d/result.txt
  echo "$name rc=$rc $(grep -c VIOLATION $d/check.log) violation lines"
  git -C /repo worktree remove --force $wt
done
