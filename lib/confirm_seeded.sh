#!/bin/bash
# confirms each seeded change independently: demo passes on the clean tree, fails with the change, and the repository's own
# test suite still passes with the change.  Uses one scratch worktree of /repo's pinned base commit with its own build directory.
cd /verif; BASE=$(git -C /repo rev-parse HEAD); WT=/tmp/confirm_wt     # the current /repo HEAD (pinned commit + the 'fix:' commits): the seeded patches were written against it
if [ ! -d $WT ]; then git -C /repo worktree add -q --detach $WT $BASE; else (cd $WT && git checkout -q -- . && git checkout -q --detach $BASE); fi
(cd $WT && cmake -G Ninja -B _build -DAMGCL_BUILD_TESTS=ON -DCMAKE_BUILD_TYPE=RelWithDebInfo -DCMAKE_CXX_FLAGS=-Wno-error >/dev/null && nice cmake --build _build -j6 > /tmp/confirm_build0.log 2>&1)
for name in "$@"; do d=/verif/seeded/$name; [ -f $d/patch.diff ] || continue
  flags=""; grep -q "omp.h\|omp_set_num_threads" $d/demo.cpp && flags="-fopenmp"
  CXX=g++; RUN=""; if grep -q "mpi.h\|amgcl/mpi/" $d/demo.cpp; then CXX=mpicxx; RUN="mpirun --oversubscribe --allow-run-as-root -np 3"; fi
  (cd $WT && git checkout -q -- . )
  $CXX -std=c++17 -O1 -w $flags -I$WT $d/demo.cpp -o /tmp/confirm_demo_clean 2>/tmp/confirm_cc.log; cc0=$?; OMP_NUM_THREADS=4 timeout 900 $RUN /tmp/confirm_demo_clean >/tmp/confirm_clean.out 2>&1; rc_clean=$?
  if ! git -C $WT apply $PWD/$d/patch.diff 2>/dev/null && ! git -C $WT apply $d/patch.diff; then echo "$name: patch does not apply to /repo HEAD" > $d/confirm.txt; continue; fi
  $CXX -std=c++17 -O1 -w $flags -I$WT $d/demo.cpp -o /tmp/confirm_demo_mut 2>>/tmp/confirm_cc.log; cc1=$?; OMP_NUM_THREADS=4 timeout 900 $RUN /tmp/confirm_demo_mut >/tmp/confirm_mut.out 2>&1; rc_mut=$?
  (cd $WT && nice cmake --build _build -j6 > /tmp/confirm_build.log 2>&1); rc_build=$?
  (cd $WT && OMP_NUM_THREADS=2 ctest --test-dir _build -j4 --timeout 1800 > /tmp/confirm_ctest.log 2>&1); rc_test=$?
  { echo "demo on clean base tree: compile rc=$cc0, exit $rc_clean (expected 0)"; echo "demo with patch.diff applied: compile rc=$cc1, exit $rc_mut (expected non-zero)"; echo "repository test suite with patch.diff applied: build rc=$rc_build, ctest rc=$rc_test: $(grep 'tests passed' /tmp/confirm_ctest.log)"; echo "demo output with the change (tail):"; tail -3 /tmp/confirm_mut.out; } > $d/confirm.txt
  echo "$name clean=$rc_clean mut=$rc_mut build=$rc_build ctest=$rc_test"
  (cd $WT && git checkout -q -- .)
done
