#!/bin/bash
# usage: runshards.sh <binary> <timeout-s> [extra args]   : 16 shards in parallel, aggregated summary (development helper)
bin=$1; to=$2; shift 2; d=$(mktemp -d /verif/build/t/sh.XXXXXX)
for i in $(seq 0 15); do ( /usr/bin/time -f "%e" -o $d/$i.time timeout $to $bin --shard $i/16 --out $d/$i.json "$@" >/dev/null 2>$d/$i.err; echo $? > $d/$i.rc ) & done; wait
python3 - $d <<'PY'
import json,sys,glob,os
d=sys.argv[1]; tot={}; inc=[]; vio=[]; stops={}; unexp=set()
for i in range(16):
    rc=open('%s/%d.rc'%(d,i)).read().strip(); t=open('%s/%d.time'%(d,i)).read().strip().split('\n')[-1]
    try: j=json.load(open('%s/%d.json'%(d,i)))
    except Exception as e: print('shard',i,'rc',rc,'NO JSON',t, open('%s/%d.err'%(d,i)).read()[-300:]); continue
    for k in ['cases_run','paths','paths_pruned','paths_unexplored','paths_stopped','obligations','discharged','trivial','queries','q_unknown','nf_mismatch','solver_s','concrete_obligations']: tot[k]=tot.get(k,0)+j.get(k,0)
    inc+=j['inconclusive']; vio+=[(v.get('case'),v['obligation'],v.get('detail','')[:150]) for v in j['violations']]
    for k,v in j['stops'].items(): stops[k]=stops.get(k,0)+v
    print('shard',i,'rc',rc,t,'s', end='; ')
print(); print(tot); print('stops',stops); print('inconclusive',len(inc),inc[:6]); print('violations',len(vio)); [print('  ',v) for v in vio[:12]]
PY
rm -rf $d
