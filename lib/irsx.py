#!/usr/bin/env python3
"""irsx: a small symbolic executor for textual LLVM-14 IR (clang -O1 -S -emit-llvm, typed pointers) on top of z3 bit-vectors.
   Built for the pointer-rich std::vector / stream code of the file readers, where the IR -> C -> CBMC route gave no verdict (18 GB).

   Model
     * integers iN are z3 BitVec(N); pointers are BitVec(64) = (object number + 1) << 32 | offset, null = 0
     * an object has a size (concrete or SYMBOLIC, e.g. operator new(n) with n read from a file), a liveness flag and a concrete backing
       store of at most CAP bytes (z3 BitVec(8) each); every load/store/memcpy is bounds-checked against the size BY THE SOLVER:
       'path condition and (offset + width > size)' satisfiable => reported as an out-of-bounds access with the model (the input file)
     * loads/stores with a symbolic offset become if-then-else chains over the backing store (no forking); memcpy/memset/memmove with
       symbolic length and offsets are applied byte-wise under a guard
     * branches on symbolic conditions fork (depth-first work list); feasibility is decided by z3; every state carries a model of its
       path condition so that only the 'other' side of a branch needs a query
     * exceptions: __cxa_throw / std::__throw_* set the unwinding flag; calls return to the nearest enclosing invoke's landing pad
     * operator new with a possibly huge size forks into 'throws std::bad_alloc' (size > ALLOC_MAX) and 'succeeds' (size <= ALLOC_MAX)
   Everything outside this (floating point, indirect calls, inline asm, vectors) raises Unsupported and is reported, never ignored."""
import re, sys, time, struct
import z3
from ir2c import Translator, T

CAP = 160            # backing-store bytes per object with symbolic size
ALLOC_MAX = 1 << 16  # larger allocation requests are modelled as throwing std::bad_alloc (stated in the evidence)

class Unsupported(Exception): pass
FPANY = object()    # a double that depends on symbolic data: any value (see the floating-point note in Engine.instr)
class Violation(Exception):
    def __init__(s, kind, detail, model): s.kind = kind; s.detail = detail; s.model = model

def bvv(v, bits): return z3.BitVecVal(v & ((1 << bits) - 1), bits)
def is_c(e): return z3.is_bv_value(e)
def simp(e): return z3.simplify(e)

class Obj:
    __slots__ = ('id', 'name', 'size', 'cap', 'bytes', 'alive', 'kind', 'const')
    def __init__(s, id, name, size, cap, kind): s.id = id; s.name = name; s.size = size; s.cap = cap; s.kind = kind; s.alive = True; s.bytes = []; s.const = False
    def copy(s): o = Obj(s.id, s.name, s.size, s.cap, s.kind); o.alive = s.alive; o.bytes = list(s.bytes); o.const = s.const; return o

class Frame:
    __slots__ = ('fn', 'regs', 'label', 'prev', 'ip', 'ret_dst', 'unwind', 'normal', 'allocas')
    def __init__(s, fn): s.fn = fn; s.regs = {}; s.label = None; s.prev = None; s.ip = 0; s.ret_dst = None; s.unwind = None; s.normal = None; s.allocas = []
    def copy(s): f = Frame(s.fn); f.regs = dict(s.regs); f.label = s.label; f.prev = s.prev; f.ip = s.ip; f.ret_dst = s.ret_dst; f.unwind = s.unwind; f.normal = s.normal; f.allocas = list(s.allocas); return f

class State:
    def __init__(s): s.frames = []; s.objs = {}; s.pc = []; s.exc = False; s.model = None; s.next_id = 0; s.steps = 0; s.retval = None; s.done = False; s.notes = []; s.ptr_cache = {}; s.safe_cache = {}; s.keep = []
    def copy(s):
        t = State(); t.frames = [f.copy() for f in s.frames]; t.objs = dict((k, o.copy()) for k, o in s.objs.items()); t.pc = list(s.pc); t.exc = s.exc; t.model = s.model; t.next_id = s.next_id; t.steps = s.steps; t.notes = list(s.notes); t.ptr_cache = dict(s.ptr_cache); t.safe_cache = dict(s.safe_cache); t.keep = list(s.keep); return t

class Engine:
    def __init__(s, ll_path, timeout_ms=20000, max_paths=20000, max_steps=400000, log=None):
        s.tr = Translator(open(ll_path).read()); s.P = s.tr.P; s.funcs = {}; s.solver = z3.Solver(); s.solver.set("timeout", timeout_ms)
        s.queries = 0; s.solver_s = 0.0; s.max_paths = max_paths; s.max_steps = max_steps; s.fresh = 0; s.global_ptr = {}; s.log = log or (lambda *a: None)
        s.stats = dict(paths=0, forks=0, instructions=0, oob_checks=0, unsupported=[], stopped=0)
        for name, f in s.tr.funcs.items(): s.funcs[name] = s.split_blocks(f)
        s.icache = {}

    # ------------------------------------------------------------------ module structure
    def split_blocks(s, f):
        blocks = {}; order = []; cur = None
        for ln in f['body']:
            t = ln.strip()
            if not t or t.startswith(';'): continue
            m = re.match(r'([-\w.$"]+):', ln)
            if m and not ln.startswith(' '):
                cur = m.group(1).strip('"'); blocks[cur] = []; order.append(cur); continue
            if cur is None:
                nparam = sum(1 for _, n in f['params'] if n and re.match(r'%\d+$', n)); cur = str(nparam); blocks[cur] = []; order.append(cur)
            if t.startswith('to label') and blocks[cur]: blocks[cur][-1] += ' ' + t; continue
            if (t.startswith('cleanup') or t.startswith('catch ') or t.startswith('filter ')) and blocks[cur]: continue
            blocks[cur].append(t)
        for lbl in blocks:      # a switch spans several lines
            merged = []; acc = None
            for t in blocks[lbl]:
                if acc is not None:
                    acc += ' ' + t
                    if t.endswith(']'): merged.append(acc); acc = None
                    continue
                if t.startswith('switch ') and not t.endswith(']'): acc = t; continue
                merged.append(t)
            blocks[lbl] = merged
        return dict(ret=f['ret'], params=f['params'], blocks=blocks, entry=order[0])

    def new_obj(s, st, name, size, kind, init=None, cap=None):
        oid = st.next_id; st.next_id += 1
        if isinstance(size, int): c = size; size_e = bvv(size, 64)
        else:
            size_e = simp(size)
            c = size_e.as_long() if is_c(size_e) else CAP
        if cap is not None: c = cap
        if c > 1 << 20: raise Unsupported("object of %d bytes" % c)
        o = Obj(oid, name, size_e, c, kind)
        if init is not None: o.bytes = list(init) + [bvv(0, 8)] * (c - len(init))
        else:
            o.bytes = []
            for k in range(c): s.fresh += 1; o.bytes.append(z3.BitVec('uninit_%d' % s.fresh, 8))
        st.objs[oid] = o
        return o, bvv((oid + 1) << 32, 64)

    def init_globals(s, st):
        P = s.P; pending = []
        # phase 1: addresses (functions and unknown externals get distinct non-null addresses without storage)
        k = 0
        for name in list(s.tr.funcs) + list(s.tr.decls): k += 1; s.global_ptr[name] = bvv((0x7000 + k) << 32, 64)
        for name, ty, init in s.tr.globals_c:
            if name.startswith('@llvm.'): continue
            try: size, _ = P.size_align(ty)
            except Exception: size = 16
            o, p = s.new_obj(st, name, max(size, 1), 'global', init=[bvv(0, 8)] * max(size, 1)); s.global_ptr[name] = p; pending.append((o, ty, init, size))
        # phase 2: contents
        for o, ty, init, size in pending:
            try: data = s.const_bytes(st, ty, init.strip())
            except Unsupported as u: s.stats['unsupported_globals'] = s.stats.get('unsupported_globals', 0) + 1; data = [bvv(0, 8)] * size
            o.bytes = list(data) + [bvv(0, 8)] * (o.cap - len(data))

    def const_bytes(s, st, ty, init):
        """bytes of a constant initializer of type ty"""
        P = s.P; r = P.resolve(ty); size, _ = P.size_align(r) if r.k != 'opaque' else (0, 1)
        if init in ('', 'zeroinitializer', 'undef', 'poison') or (init == 'null'): return [bvv(0, 8)] * size
        m = re.match(r'c"(.*)"$', init, re.S)
        if m:
            out = []; t = m.group(1); i = 0
            while i < len(t):
                if t[i] == '\\': out.append(int(t[i+1:i+3], 16)); i += 3
                else: out.append(ord(t[i])); i += 1
            return [bvv(b, 8) for b in out] + [bvv(0, 8)] * (size - len(out))
        if r.k == 'int' or r.k in ('ptr', 'func'):
            v = s.value(st, r, init) if not re.match(r'-?\d+$', init) else bvv(int(init), 8 * size)
            v = s.resize(v, 8 * size, False); return [simp(z3.Extract(8 * k + 7, 8 * k, v)) for k in range(size)]
        if r.k == 'array':
            if not (init.startswith('[') and init.endswith(']')): raise Unsupported("array initializer " + init[:40])
            out = []; esz, _ = P.size_align(r.el)
            for part in s.tr.split_commas(init[1:-1]):
                ety, e = P.parse_type(part); out += s.const_bytes(st, ety, part[e:].strip())
            return out + [bvv(0, 8)] * (size - len(out))
        if r.k == 'struct':
            body = init
            if body.startswith('<{') and body.endswith('}>'): body = body[2:-2]
            elif body.startswith('{') and body.endswith('}'): body = body[1:-1]
            else: raise Unsupported("struct initializer " + init[:40])
            out = [bvv(0, 8)] * size
            for idx, part in enumerate(s.tr.split_commas(body)):
                ety, e = P.parse_type(part); off, _ = P.field_offset(r, idx); b = s.const_bytes(st, ety, part[e:].strip()); out[off:off + len(b)] = b
            return out
        raise Unsupported("initializer of type " + r.k)

    # ------------------------------------------------------------------ solver
    def check(s, st, extra):
        t0 = time.time(); s.queries += 1
        s.solver.push()
        try:
            for c in st.pc: s.solver.add(c)
            for c in extra: s.solver.add(c)
            r = s.solver.check(); m = s.solver.model() if r == z3.sat else None
        finally:
            s.solver.pop(); s.solver_s += time.time() - t0
        if r == z3.unknown: raise Unsupported("solver returned unknown")
        return r == z3.sat, m

    def truth(s, st, cond):
        """cond: z3 Bool. returns list of (bool value, model-or-None) that are feasible under the path condition"""
        cond = simp(cond)
        if z3.is_true(cond): return [(True, st.model)]
        if z3.is_false(cond): return [(False, st.model)]
        out = []
        known = None
        if st.model is not None:
            v = st.model.eval(cond, model_completion=True)
            if z3.is_true(v): known = True
            elif z3.is_false(v): known = False
        for side in (True, False):
            if known is side: out.append((side, st.model)); continue
            ok, m = s.check(st, [cond if side else z3.Not(cond)])
            if ok: out.append((side, m))
        return out

    # ------------------------------------------------------------------ memory
    def resolve(s, st, p, what):
        p = simp(p)
        if is_c(p):
            v = p.as_long(); oid = (v >> 32) - 1; off = v & 0xffffffff
            if oid < 0: raise Violation("null-dereference", what, st.model)
            if oid not in st.objs: raise Violation("wild-pointer", "%s through %#x" % (what, v), st.model)
            return st.objs[oid], bvv(off, 64)
        if st.model is None:
            ok, m = s.check(st, []); st.model = m
            if not ok: raise Unsupported("infeasible state reached")
        pid = p.get_id()
        if pid in st.ptr_cache: oid = st.ptr_cache[pid]      # proven under a weaker path condition: still holds
        else:
            v = st.model.eval(p, model_completion=True).as_long(); oid = (v >> 32) - 1
            hi = z3.LShR(p, 32)
            ok, m = s.check(st, [hi != bvv(oid + 1, 64)])
            if ok: raise Violation("out-of-bounds", "%s: the address can leave its object (offset beyond +-2 GB or a different object)" % what, m)
            st.ptr_cache[pid] = oid; st.keep.append(p)
        if oid < 0: raise Violation("null-dereference", what, st.model)
        if oid not in st.objs: raise Violation("wild-pointer", what, st.model)
        return st.objs[oid], simp(p - bvv((oid + 1) << 32, 64))

    def bounds(s, st, o, off, width, what):
        """width: z3 BV64 or int. proves off + width <= size (unsigned, no wrap) or raises Violation with a model"""
        s.stats['oob_checks'] += 1
        w = bvv(width, 64) if isinstance(width, int) else width
        if not o.alive: raise Violation("use-after-free", "%s of freed object %s" % (what, o.name), st.model)
        ok_c = simp(z3.And(z3.ULE(off, o.size), z3.ULE(w, o.size - off)))
        if z3.is_true(ok_c): return
        key = ok_c.get_id()
        if key in st.safe_cache: return
        bad, m = s.check(st, [z3.Not(ok_c)])
        if bad: raise Violation("out-of-bounds", "%s: offset %s width %s in object %s of size %s" % (what, m.eval(off, model_completion=True), m.eval(w, model_completion=True), o.name, m.eval(o.size, model_completion=True)), m)
        st.safe_cache[key] = True; st.keep.append(ok_c)

    def within_store(s, st, o, off, width, what):
        """an access with a symbolic offset is expanded over the backing store only: make sure it cannot fall behind it"""
        if is_c(o.size) and o.size.as_long() <= o.cap: return
        w = bvv(width, 64) if isinstance(width, int) else width
        beyond, m = s.check(st, [z3.UGT(off + w, bvv(o.cap, 64))])
        if beyond: raise Unsupported("%s may touch byte %s of %s, behind its %d-byte backing store" % (what, m.eval(off, model_completion=True), o.name, o.cap))

    def read_byte(s, o, off):
        if is_c(off):
            k = off.as_long()
            if k >= o.cap: raise Unsupported("read beyond the %d-byte backing store of %s" % (o.cap, o.name))
            return o.bytes[k]
        e = o.bytes[o.cap - 1]
        for k in range(o.cap - 2, -1, -1): e = z3.If(off == bvv(k, 64), o.bytes[k], e)
        return e

    def load(s, st, p, nbytes, what="load"):
        o, off = s.resolve(st, p, what); s.bounds(st, o, off, nbytes, what)
        if not is_c(off): s.within_store(st, o, off, nbytes, what)
        bs = [s.read_byte(o, simp(off + bvv(k, 64))) for k in range(nbytes)]
        return simp(z3.Concat(*reversed(bs))) if nbytes > 1 else bs[0]

    def store(s, st, p, val, nbytes, what="store"):
        o, off = s.resolve(st, p, what); s.bounds(st, o, off, nbytes, what)
        if o.const: raise Violation("write-to-constant", what, st.model)
        bs = [simp(z3.Extract(8 * k + 7, 8 * k, val)) for k in range(nbytes)]
        if is_c(off):
            k0 = off.as_long()
            if k0 + nbytes > o.cap: raise Unsupported("write beyond the backing store of " + o.name)
            for k in range(nbytes): o.bytes[k0 + k] = bs[k]
        else:
            s.within_store(st, o, off, nbytes, what)
            for j in range(o.cap):
                e = o.bytes[j]
                for k in range(nbytes): e = z3.If(off + bvv(k, 64) == bvv(j, 64), bs[k], e)
                o.bytes[j] = simp(e)

    def memop(s, st, kind, dst, src, n, fill=None):
        n = simp(n)
        if is_c(n) and n.as_long() == 0: return
        od, offd = s.resolve(st, dst, kind + " destination"); s.bounds(st, od, offd, n, kind + " destination")
        if kind != 'memset':
            os_, offs = s.resolve(st, src, kind + " source"); s.bounds(st, os_, offs, n, kind + " source"); snap = list(os_.bytes); scap = os_.cap
            if not (is_c(offs) and is_c(n)): s.within_store(st, os_, offs, n, kind + " source")
        def src_byte(k):   # k: BV64 index from the start of the copy
            if kind == 'memset': return fill
            a = simp(offs + k)
            if is_c(a):
                if a.as_long() >= scap:
                    # the copy was proven in bounds (offset + length <= size); for an object whose size is concrete (= its backing store)
                    # this byte position is therefore outside the copied range on every feasible path: the destination byte is kept
                    if is_c(os_.size) and os_.size.as_long() <= scap: return None
                    raise Unsupported("copy reads beyond the backing store")
                return snap[a.as_long()]
            e = snap[scap - 1]
            for q in range(scap - 2, -1, -1): e = z3.If(a == bvv(q, 64), snap[q], e)
            return e
        if is_c(n) and is_c(offd):
            nn = n.as_long(); d0 = offd.as_long()
            if d0 + nn > od.cap: raise Unsupported("copy writes beyond the backing store of " + od.name)
            for k in range(nn):
                b = src_byte(bvv(k, 64))
                if b is not None: od.bytes[d0 + k] = simp(b)
            return
        for j in range(od.cap):
            k = simp(bvv(j, 64) - offd)
            if is_c(k) and k.as_long() >= (1 << 32): continue     # before the start of the copy (the proven bound offset + n <= size keeps n below 2^32)
            inr = simp(z3.ULT(k, n))
            if z3.is_false(inr): continue
            b = src_byte(k)
            if b is not None: od.bytes[j] = simp(z3.If(inr, b, od.bytes[j]))

    # ------------------------------------------------------------------ operands
    ATTR = re.compile(r'\b(noundef|nonnull|nocapture|readonly|writeonly|noalias|signext|zeroext|inreg|returned|nofree|immarg|swiftself|nest)\b')
    def operand(s, st, txt):
        txt = s.ATTR.sub('', txt); txt = re.sub(r'\b(align|dereferenceable|dereferenceable_or_null)\s*\(?\d+\)?', '', txt)
        txt = re.sub(r'\b(sret|byval|inalloca|preallocated|elementtype)\s*\((?:[^()]|\([^()]*\))*\)', '', txt).strip()
        ty, e = s.P.parse_type(txt); return ty, s.value(st, ty, txt[e:].strip())
    def bits_of(s, ty):
        r = s.P.resolve(ty)
        if r.k == 'int': return r.bits
        if r.k in ('ptr', 'func'): return 64
        if r.k == 'double': return 64
        raise Unsupported("value of type " + r.k)
    def value(s, st, ty, tok):
        r = s.P.resolve(ty)
        if tok[0] == '%':
            fr = st.frames[-1]
            if tok not in fr.regs: raise Unsupported("use of undefined value " + tok)
            return fr.regs[tok]
        if tok[0] == '@':
            if tok in s.global_ptr: return s.global_ptr[tok]
            raise Unsupported("unknown global " + tok)
        if r.k == 'struct':
            if tok in ('undef', 'zeroinitializer', 'poison'): return tuple(bvv(0, s.bits_of(e)) for e in r.els)
            raise Unsupported("aggregate constant " + tok)
        if r.k == 'double':     # IEEE binary64 values are z3 floating-point terms
            if tok in ('undef', 'poison', 'zeroinitializer'): return z3.FPVal(0.0, z3.Float64())
            if tok.startswith('0x'): return z3.fpBVToFP(bvv(int(tok[2:], 16), 64), z3.Float64())
            return z3.FPVal(float(tok), z3.Float64())
        b = s.bits_of(ty)
        if tok in ('null', 'zeroinitializer', 'undef', 'poison', 'false'): return bvv(0, b)
        if tok == 'true': return bvv(1, b)
        if re.match(r'-?\d+$', tok): return bvv(int(tok), b)
        m = re.match(r'(bitcast|inttoptr|ptrtoint|addrspacecast)\s*\((.*)\)$', tok)
        if m:
            inner = m.group(2); k = inner.rindex(' to '); sty, e = s.P.parse_type(inner[:k]); v = s.value(st, sty, inner[:k][e:].strip()); return s.resize(v, b, False)
        m = re.match(r'getelementptr\s*(inbounds\s*)?\((.*)\)$', tok)
        if m:
            parts = s.tr.split_commas(m.group(2)); base_ty, _ = s.P.parse_type(parts[0]); pty, e = s.P.parse_type(parts[1]); base = s.value(st, pty, parts[1][e:].strip())
            return s.gep(st, base_ty, base, parts[2:])
        raise Unsupported("operand " + tok)
    def resize(s, v, bits, signed):
        w = v.size()
        if w == bits: return v
        if w > bits: return simp(z3.Extract(bits - 1, 0, v))
        return simp(z3.SignExt(bits - w, v) if signed else z3.ZeroExt(bits - w, v))
    def gep(s, st, base_ty, base, idx_ops):
        P = s.P; cur = base_ty; first = True; off = bvv(0, 64)
        for op in idx_ops:
            op = re.sub(r'^inrange\s+', '', op); ity, v = s.operand(st, op); v = s.resize(v, 64, True)
            if first:
                sz, _ = P.size_align(cur); first = False; off = off + v * bvv(sz, 64); continue
            r = P.resolve(cur)
            if r.k == 'struct':
                if not is_c(v): raise Unsupported("symbolic struct index")
                o, cur = P.field_offset(r, v.as_long()); off = off + bvv(o, 64)
            elif r.k in ('array', 'vector'):
                sz, _ = P.size_align(r.el); cur = r.el; off = off + v * bvv(sz, 64)
            else: raise Unsupported("gep into " + r.k)
        return simp(base + off)

    # ------------------------------------------------------------------ execution
    def run(s, st, fn, args, on_done, budget_s=None):
        """explores every path of a call fn(args) from state st; on_done(state) is called for each completed path. returns list of findings"""
        f = s.funcs[fn]; fr = Frame(fn); fr.label = f['entry']
        for (ty, name), a in zip(f['params'], args):
            if name: fr.regs[name] = a
        st.frames.append(fr)
        work = [st]; findings = []; t0 = time.time()
        while work:
            if s.stats['paths'] >= s.max_paths or (budget_s and time.time() - t0 > budget_s): s.stats['stopped'] += len(work); break
            cur = work.pop()
            try:
                new = s.advance(cur)
                for n in new:
                    if n.done: s.stats['paths'] += 1; on_done(n)
                    else: work.append(n)
            except Violation as v:
                s.stats['paths'] += 1; findings.append(v)
            except Unsupported as u:
                s.stats['paths'] += 1; s.stats['unsupported'].append(str(u))
        return findings

    def advance(s, st):
        """run st until it forks or finishes; returns list of successor states"""
        while True:
            if not st.frames: st.done = True; return [st]
            st.steps += 1; s.stats['instructions'] += 1
            if st.steps > s.max_steps: raise Unsupported("step budget of one path exhausted")
            fr = st.frames[-1]; blk = s.funcs[fr.fn]['blocks'][fr.label]
            if fr.ip == 0 and fr.prev is not None:
                # phis of this block, evaluated simultaneously
                vals = {}
                for t in blk:
                    m = re.match(r'(%(?:"[^"]*"|[-\w.$]+)) = phi (.*)$', t)
                    if not m: break
                    ty, e = s.P.parse_type(m.group(2))
                    for val, pred in re.findall(r'\[\s*(.+?),\s*(%(?:"[^"]*"|[-\w.$]+))\s*\]', m.group(2)[e:]):
                        if pred.lstrip('%').strip('"') == fr.prev: vals[m.group(1)] = s.value(st, ty, val.strip()); break
                    else: raise Unsupported("phi without incoming edge")
                    fr.ip += 1
                fr.regs.update(vals)
            t = blk[fr.ip]; fr.ip += 1
            res = s.instr(st, fr, t)
            if res is not None: return res

    def goto(s, fr, lbl): fr.prev = fr.label; fr.label = lbl.lstrip('%').strip('"'); fr.ip = 0

    def unwind(s, st):
        """exception in flight: pop frames up to the nearest invoke"""
        while st.frames:
            fr = st.frames[-1]
            if fr.unwind is not None:
                lbl = fr.unwind; fr.unwind = None; fr.normal = None; fr.ret_dst = None; s.goto(fr, lbl); return
            for oid in fr.allocas: st.objs[oid].alive = False
            st.frames.pop()
        st.retval = None   # escaped the entry function

    def instr(s, st, fr, t):
        m = re.match(r'(%(?:"[^"]*"|[-\w.$]+)) = (.*)$', t); dst = None
        if m: dst = m.group(1); t = m.group(2)
        op = t.split(' ', 1)[0]; P = s.P
        def setv(v): fr.regs[dst] = v
        if op in ('add', 'sub', 'mul', 'shl', 'lshr', 'ashr', 'and', 'or', 'xor', 'udiv', 'sdiv', 'urem', 'srem'):
            rest = re.sub(r'^\w+\s+((nuw|nsw|exact)\s+)*', '', t); parts = s.tr.split_commas(rest); ty, a = s.operand(st, parts[0]); b = s.value(st, ty, parts[1].strip())
            if op in ('udiv', 'sdiv', 'urem', 'srem'):
                for side, m2 in s.truth(st, b == bvv(0, b.size())):
                    if side: raise Violation("division-by-zero", t, m2)
            v = {'add': lambda: a + b, 'sub': lambda: a - b, 'mul': lambda: a * b, 'shl': lambda: a << b, 'lshr': lambda: z3.LShR(a, b), 'ashr': lambda: a >> b, 'and': lambda: a & b, 'or': lambda: a | b, 'xor': lambda: a ^ b,
                 'udiv': lambda: z3.UDiv(a, b), 'sdiv': lambda: a / b, 'urem': lambda: z3.URem(a, b), 'srem': lambda: z3.SRem(a, b)}[op]()
            setv(simp(v)); return None
        # floating point: concrete values are computed exactly (z3 FP terms); a value that depends on symbolic data is OVER-APPROXIMATED:
        # it becomes 'any double' (FPANY) and converting it to an integer yields a fresh unconstrained integer -- sound for safety properties
        if op in ('sitofp', 'uitofp'):
            mm = re.match(r'\w+\s+(.*)\s+to\s+(.*)$', t); ty, v = s.operand(st, mm.group(1))
            if not is_c(simp(v)): setv(FPANY); return None
            setv(z3.simplify(z3.fpSignedToFP(z3.RNE(), v, z3.Float64()) if op == 'sitofp' else z3.fpUnsignedToFP(z3.RNE(), v, z3.Float64()))); return None
        if op in ('fadd', 'fsub', 'fmul', 'fdiv'):
            rest = re.sub(r'^\w+\s+((fast|nnan|ninf|nsz|arcp|contract|afn|reassoc)\s+)*', '', t); parts = s.tr.split_commas(rest); ty, a = s.operand(st, parts[0]); b = s.value(st, ty, parts[1].strip())
            if a is FPANY or b is FPANY: setv(FPANY); return None
            f = {'fadd': z3.fpAdd, 'fsub': z3.fpSub, 'fmul': z3.fpMul, 'fdiv': z3.fpDiv}[op]; setv(z3.simplify(f(z3.RNE(), a, b))); return None
        if op in ('fptosi', 'fptoui'):
            mm = re.match(r'\w+\s+(.*)\s+to\s+(.*)$', t); ty, v = s.operand(st, mm.group(1)); dty, _ = P.parse_type(mm.group(2)); b = s.bits_of(dty)
            if v is FPANY: s.fresh += 1; setv(z3.BitVec('fp2int_%d' % s.fresh, b)); s.stats['fp_overapprox'] = s.stats.get('fp_overapprox', 0) + 1; return None
            # x86-64 cvttsd2si semantics for the values LLVM leaves undefined (NaN, infinities, out of range): the 'integer indefinite' value 0x80..0
            lim = z3.FPVal(2.0 ** (b - 1), z3.Float64()); inr = z3.And(z3.Not(z3.fpIsNaN(v)), z3.fpLT(v, lim), z3.fpGEQ(v, z3.fpNeg(lim)))
            setv(z3.simplify(z3.If(inr, z3.fpToSBV(z3.RTZ(), v, z3.BitVecSort(b)), bvv(1 << (b - 1), b)))); return None
        if op == 'icmp':
            mm = re.match(r'icmp\s+(\w+)\s+(.*)$', t); parts = s.tr.split_commas(mm.group(2)); ty, a = s.operand(st, parts[0]); b = s.value(st, ty, parts[1].strip()); pr = mm.group(1)
            c = {'eq': lambda: a == b, 'ne': lambda: a != b, 'ult': lambda: z3.ULT(a, b), 'ule': lambda: z3.ULE(a, b), 'ugt': lambda: z3.UGT(a, b), 'uge': lambda: z3.UGE(a, b), 'slt': lambda: a < b, 'sle': lambda: a <= b, 'sgt': lambda: a > b, 'sge': lambda: a >= b}[pr]()
            setv(simp(z3.If(c, bvv(1, 1), bvv(0, 1)))); return None
        if op == 'select':
            parts = s.tr.split_commas(t[len('select'):]); _, c = s.operand(st, parts[0]); ty, a = s.operand(st, parts[1]); _, b = s.operand(st, parts[2])
            setv(simp(z3.If(c == bvv(1, 1), a, b))); return None
        if op in ('bitcast', 'ptrtoint', 'inttoptr', 'trunc', 'zext', 'sext', 'addrspacecast'):
            mm = re.match(r'\w+\s+(.*)\s+to\s+(.*)$', t); ty, v = s.operand(st, mm.group(1)); dty, _ = P.parse_type(mm.group(2)); setv(s.resize(v, s.bits_of(dty), op == 'sext')); return None
        if op == 'getelementptr':
            rest = re.sub(r'^getelementptr\s+(inbounds\s+)?', '', t); parts = s.tr.split_commas(rest); base_ty, _ = P.parse_type(parts[0]); pty, base = s.operand(st, parts[1]); setv(s.gep(st, base_ty, base, parts[2:])); return None
        if op == 'load':
            rest = re.sub(r'^load\s+(volatile\s+)?', '', t); parts = s.tr.split_commas(rest); ty, _ = P.parse_type(parts[0]); pty, p = s.operand(st, parts[1]); r = P.resolve(ty)
            if r.k not in ('int', 'ptr', 'func', 'double'): raise Unsupported("load of " + r.k)
            nb = (s.bits_of(ty) + 7) // 8; v = s.load(st, p, nb, "load in " + fr.fn); v = s.resize(v, s.bits_of(ty), False); setv(z3.fpBVToFP(v, z3.Float64()) if r.k == 'double' else v); return None
        if op == 'store':
            rest = re.sub(r'^store\s+(volatile\s+)?', '', t); parts = s.tr.split_commas(rest); ty, v = s.operand(st, parts[0]); pty, p = s.operand(st, parts[1]); b = s.bits_of(ty); nb = (b + 7) // 8
            if v is FPANY: raise Unsupported("store of a symbolic floating-point value")
            if z3.is_fp(v): v = z3.fpToIEEEBV(v)
            s.store(st, p, s.resize(v, nb * 8, False), nb, "store in " + fr.fn); return None
        if op == 'alloca':
            mm = re.match(r'alloca\s+(.*)$', t); parts = s.tr.split_commas(mm.group(1)); ty, _ = P.parse_type(parts[0]); cnt = 1
            for q in parts[1:]:
                if not q.strip().startswith('align'):
                    _, cv = s.operand(st, q)
                    if not is_c(cv): raise Unsupported("alloca with symbolic count")
                    cnt = cv.as_long()
            sz, _ = P.size_align(ty); o, p = s.new_obj(st, "%s:%s" % (fr.fn[:40], dst), max(sz * cnt, 1), 'stack'); fr.allocas.append(o.id); setv(p); return None
        if op == 'br':
            mm = re.match(r'br\s+label\s+(%\S+)$', t)
            if mm: s.goto(fr, mm.group(1)); return None
            mm = re.match(r'br\s+i1\s+(.+?),\s*label\s+(%(?:"[^"]*"|[-\w.$]+)),\s*label\s+(%(?:"[^"]*"|[-\w.$]+))', t); c = s.value(st, T('int', bits=1), mm.group(1).strip())
            sides = s.truth(st, c == bvv(1, 1))
            if not sides: raise Unsupported("infeasible state at a branch")
            outs = []
            for k, (side, model) in enumerate(sides):
                n = st if k == len(sides) - 1 else st.copy()
                if len(sides) > 1: n.pc.append(simp(c == bvv(1 if side else 0, 1))); n.model = model; s.stats['forks'] += 1
                s.goto(n.frames[-1], mm.group(2) if side else mm.group(3)); outs.append(n)
            return outs if len(outs) > 1 else None
        if op == 'switch':
            mm = re.match(r'switch\s+(.+?),\s*label\s+(%\S+)\s*\[(.*)\]', t); ty, v = s.operand(st, mm.group(1)); cases = re.findall(r'i\d+\s+(-?\d+),\s*label\s+(%(?:"[^"]*"|[-\w.$]+))', mm.group(3)); outs = []; rest_c = []
            for cv, lbl in cases:
                c = v == bvv(int(cv), v.size())
                for side, model in s.truth(st, c):
                    if side: n = st.copy(); n.pc.append(c); n.model = model; s.goto(n.frames[-1], lbl); outs.append(n)
                rest_c.append(z3.Not(c))
            ok, model = s.check(st, rest_c)
            if ok: n = st.copy(); n.pc += rest_c; n.model = model; s.goto(n.frames[-1], mm.group(2)); outs.append(n)
            return outs
        if op == 'ret':
            v = None
            if t.strip() != 'ret void': _, v = s.operand(st, t[3:])
            for oid in fr.allocas: st.objs[oid].alive = False
            st.frames.pop()
            if not st.frames: st.retval = v; st.done = True; return [st]
            caller = st.frames[-1]
            if caller.ret_dst and v is not None: caller.regs[caller.ret_dst] = v
            caller.ret_dst = None
            if caller.normal is not None: lbl = caller.normal; caller.normal = None; caller.unwind = None; s.goto(caller, lbl)
            return None
        if op == 'unreachable': raise Unsupported("'unreachable' executed in " + fr.fn)
        if op == 'resume': st.exc = True; s.unwind_from(st); return s.after_unwind(st)
        if op == 'landingpad': setv((bvv(0, 64), bvv(0, 32))); return None
        if op == 'extractvalue':
            parts = s.tr.split_commas(t[len('extractvalue'):]); aty, e = P.parse_type(parts[0]); v = s.value(st, aty, parts[0][e:].strip()); setv(v[int(parts[1])]); return None
        if op == 'insertvalue':
            parts = s.tr.split_commas(t[len('insertvalue'):]); aty, e = P.parse_type(parts[0]); v = list(s.value(st, aty, parts[0][e:].strip())); _, x = s.operand(st, parts[1]); v[int(parts[2])] = x; setv(tuple(v)); return None
        if op == 'fence': return None
        if op in ('call', 'invoke', 'tail', 'musttail', 'notail'): return s.call(st, fr, t, dst)
        raise Unsupported("instruction " + t[:60])

    def unwind_from(s, st):
        fr = st.frames[-1]
        for oid in fr.allocas: st.objs[oid].alive = False
        st.frames.pop(); s.unwind(st)
    def after_unwind(s, st):
        if not st.frames: st.done = True; st.retval = None; return [st]
        return None

    def call(s, st, fr, t, dst):
        t2 = re.sub(r'^(tail |musttail |notail )?', '', t); inv = t2.startswith('invoke'); t2 = re.sub(r'^(call|invoke)\s+', '', t2)
        normal = unwind = None
        if inv:
            mm = re.search(r'\)\s*(#\d+\s*)?to label (%(?:"[^"]*"|[-\w.$]+)) unwind label (%(?:"[^"]*"|[-\w.$]+))\s*$', t2); normal, unwind = mm.group(2), mm.group(3); t2 = t2[:mm.start() + 1]
        mm = re.search(r'(@(?:"[^"]*"|[-\w.$]+))\s*\(', t2)
        if not mm: raise Unsupported("indirect call " + t[:60])
        n = mm.group(1); j = mm.end() - 1; depth = 0; k = j
        while True:
            if t2[k] == '(': depth += 1
            elif t2[k] == ')':
                depth -= 1
                if depth == 0: break
            k += 1
        args = [s.operand(st, a)[1] for a in s.tr.split_commas(t2[j+1:k]) if a.strip() and not a.strip().startswith('metadata')]
        def done(v=None):
            if dst is not None and v is not None: fr.regs[dst] = v
            if inv: s.goto(fr, normal)
            return None
        def throw():
            st.exc = True
            if inv: s.goto(fr, unwind); return None
            s.unwind_from(st); return s.after_unwind(st)
        base = n[1:]
        if n in s.funcs:
            f = s.funcs[n]; nf = Frame(n); nf.label = f['entry']
            for (ty, name), a in zip(f['params'], args):
                if name: nf.regs[name] = a
            fr.ret_dst = dst; fr.normal = normal; fr.unwind = unwind; st.frames.append(nf); return None
        if base.startswith('llvm.lifetime') or base.startswith('llvm.dbg') or base in ('llvm.assume', 'llvm.experimental.noalias.scope.decl') or base.startswith('llvm.invariant'): return done()
        if base.startswith('llvm.memcpy') or base.startswith('llvm.memmove'): s.memop(st, 'memcpy', args[0], args[1], s.resize(args[2], 64, False)); return done()
        if base.startswith('llvm.memset'): s.memop(st, 'memset', args[0], None, s.resize(args[2], 64, False), fill=s.resize(args[1], 8, False)); return done()
        if base.startswith('llvm.umax'): return done(simp(z3.If(z3.UGE(args[0], args[1]), args[0], args[1])))
        if base.startswith('llvm.umin'): return done(simp(z3.If(z3.ULE(args[0], args[1]), args[0], args[1])))
        if base.startswith('llvm.smax'): return done(simp(z3.If(args[0] >= args[1], args[0], args[1])))
        if base.startswith('llvm.smin'): return done(simp(z3.If(args[0] <= args[1], args[0], args[1])))
        if base in ('_Znwm', '_Znam', 'malloc'):
            size = simp(args[0])
            big = s.truth(st, z3.UGT(size, bvv(ALLOC_MAX, 64))); outs = []
            for k, (side, model) in enumerate(big):
                nst = st if k == len(big) - 1 else st.copy(); nfr = nst.frames[-1]
                if len(big) > 1: nst.pc.append(simp(z3.UGT(size, bvv(ALLOC_MAX, 64)) if side else z3.ULE(size, bvv(ALLOC_MAX, 64)))); nst.model = model; s.stats['forks'] += 1
                if side:   # std::bad_alloc
                    nst.exc = True
                    if inv: s.goto(nfr, unwind)
                    else:
                        s.unwind_from(nst)
                        if not nst.frames: nst.done = True
                else:
                    o, p = s.new_obj(nst, "heap#%d" % nst.next_id, size, 'heap')
                    if dst is not None: nfr.regs[dst] = p
                    if inv: s.goto(nfr, normal)
                outs.append(nst)
            return outs if len(outs) > 1 else (outs if outs[0].done else None)
        if base in ('_ZdlPv', '_ZdaPv', '_ZdlPvm', '_ZdaPvm', 'free'):
            p = simp(args[0])
            if is_c(p) and p.as_long() == 0: return done()
            o, off = s.resolve(st, p, "operator delete")
            if not o.alive: raise Violation("double-free", o.name, st.model)
            if o.kind != 'heap' or not (is_c(off) and off.as_long() == 0): raise Violation("invalid-free", o.name, st.model)
            o.alive = False; return done()
        if base == '__cxa_allocate_exception': o, p = s.new_obj(st, "exception", 64, 'heap'); return done(p)
        if base in ('__cxa_free_exception', '__cxa_end_catch', '_ZNSt13runtime_errorC1EPKc', '_ZNSt13runtime_errorD1Ev', '_ZNSt8ios_base4InitC1Ev', '_ZNSt8ios_base4InitD1Ev', '_ZNSt9bad_allocD1Ev', '_ZNSt12length_errorD1Ev'): return done()
        if base == '__cxa_begin_catch': st.exc = False; return done(args[0])
        if base == '__cxa_atexit': return done(bvv(0, 32))
        if base in ('__cxa_throw', '__cxa_rethrow') or (base.startswith('_ZSt') and '__throw' in base): return throw()
        if base in ('memcmp', 'bcmp'):
            n = simp(s.resize(args[2], 64, False))
            if not is_c(n): raise Unsupported("memcmp with symbolic length")
            nn = n.as_long(); r = bvv(0, 32)
            if nn:
                oa, offa = s.resolve(st, args[0], "memcmp"); s.bounds(st, oa, offa, nn, "memcmp"); ob, offb = s.resolve(st, args[1], "memcmp"); s.bounds(st, ob, offb, nn, "memcmp")
                for k in range(nn - 1, -1, -1):
                    x = s.read_byte(oa, simp(offa + bvv(k, 64))); y = s.read_byte(ob, simp(offb + bvv(k, 64))); r = z3.If(x == y, r, z3.If(z3.ULT(x, y), bvv(-1, 32), bvv(1, 32)))
            return done(simp(r))
        if base in ('_ZNSt8ios_baseC2Ev', '_ZNSt8ios_baseD2Ev', '_ZNSt8ios_baseC1Ev', '_ZNSt8ios_baseD1Ev', '_ZNSt13runtime_errorC1ERKNSt7__cxx1112basic_stringIcSt11char_traitsIcESaIcEEE', '_ZNSt13runtime_errorC2ERKNSt7__cxx1112basic_stringIcSt11char_traitsIcESaIcEEE', '_ZNSt13runtime_errorC2EPKc', '_ZNSt13runtime_errorD2Ev'): return done()
        if base == 'strlen':
            o, off = s.resolve(st, args[0], "strlen")
            if not is_c(off): raise Unsupported("strlen with symbolic pointer")
            k = off.as_long()
            while True:
                b = simp(o.bytes[k]) if k < o.cap else None
                if b is None or not is_c(b): raise Unsupported("strlen over symbolic bytes")
                if b.as_long() == 0: break
                k += 1
            return done(bvv(k - off.as_long(), 64))
        raise Unsupported("call to external " + n)
