#!/bin/bash
# usage: trymut.sh <seeded-name> <harness.cpp> <case-prefix> [extra g++ flags...]   (development helper: one harness against one seeded change)
name=$1; src=$2; pre=$3; shift 3
wt=/tmp/seedwt_try_$name; git -C /repo worktree remove --force $wt 2>/dev/null; git -C /repo worktree add -q --detach $wt HEAD || exit 1
git -C $wt apply /verif/seeded/$name/patch.diff || { echo "patch does not apply"; git -C /repo worktree remove --force $wt; exit 1; }
g++ -std=c++17 -O1 -w -DNDEBUG -DHX_SYM -DAMGCL_VERIF -I$wt -I/verif/lib "$@" /verif/harness/$src -o /verif/build/t/mut_$name -lgmpxx -lgmp 2>&1 | grep -E "error" | head
timeout 1200 /verif/lib/runshards.sh /verif/build/t/mut_$name 900 ${pre:+--case-prefix $pre} | tail -12
git -C /repo worktree remove --force $wt; rm -f /verif/build/t/mut_$name
