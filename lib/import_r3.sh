#!/bin/bash
# usage: lib/import_r3.sh <ID>...   : copies the round-3 sub-agent deliverables /tmp/mut/<ID>r3-out/{A,B} to seeded/<ID>-{C,D}, removes the agent's worktree
for id in "$@"; do
  for x in A:C B:D; do src=/tmp/mut/${id}r3-out/${x%%:*}; dst=/verif/seeded/$id-${x##*:}; [ -f $src/patch.diff ] || { echo "$id ${x%%:*}: no patch"; continue; }
    mkdir -p $dst; cp $src/patch.diff $src/demo.cpp $src/notes.md $dst/ 2>/dev/null; ls $src | tr '\n' ' '; echo "-> $dst"; done
  git -C /repo worktree remove --force /tmp/mut/${id}r3 2>/dev/null
done
