# engine C: extern "C" wrappers around the real amgcl templates -> clang-14 IR -> lib/ir2c.py -> C -> CBMC
import os, re, json, subprocess, time, shutil
from concurrent.futures import ThreadPoolExecutor
import ir2c

CLANG = ["clang++-14", "-std=c++17", "-O1", "-fno-vectorize", "-fno-slp-vectorize", "-fno-unroll-loops", "-ffp-contract=off", "-DNDEBUG", "-DAMGCL_NO_BOOST", "-DAMGCL_VERIF", "-S", "-emit-llvm"]
CBMC_FLAGS = ["--unwinding-assertions", "--pointer-overflow-check", "--signed-overflow-check", "--undefined-shift-check", "--drop-unused-functions", "--no-malloc-may-fail"]

def sh(cmd, timeout=None, cwd=None):
    t0 = time.time()
    try:
        p = subprocess.run(cmd, stdout=subprocess.PIPE, stderr=subprocess.STDOUT, timeout=timeout, cwd=cwd)
        return p.returncode, p.stdout.decode(errors="replace"), time.time() - t0
    except subprocess.TimeoutExpired as e:
        return 124, (e.stdout or b"").decode(errors="replace") + "\n<timeout>", time.time() - t0

def build_unit(unit, bdir, repo, root):
    """wrapper .cpp -> .ll -> .c ; returns dict(c=path, ll=path, funcs=[...], stubs=[...], ir_lines=int) or error string"""
    src = os.path.join(root, "cwrap", unit["wrapper"]); base = os.path.join(bdir, unit["name"])
    rc, out, dt = sh(CLANG + ["-I" + repo, "-I" + os.path.join(root, "cwrap")] + unit.get("clang_flags", []) + [src, "-o", base + ".ll"], timeout=600)
    if rc != 0: return "clang failed on %s:\n%s" % (unit["wrapper"], out[-2000:])
    try:
        c, tr = ir2c.translate(base + ".ll", unit.get("stub_regex"), unit.get("arena", 0))
    except Exception as e:
        return "ir2c failed on %s: %r" % (unit["wrapper"], e)
    open(base + ".c", "w").write(c)
    return dict(c=base + ".c", ll=base + ".ll", funcs=[n for n in tr.funcs], stubs=tr.stub_list + ["(body removed) " + x for x in tr.stubbed], ir_lines=sum(1 for _ in open(base + ".ll")))

def differential(unit, built, bdir, repo, root, seed):
    """generated C (gcc) vs the real wrapper (g++) on random inputs through the unit's driver; returns (ok, text)"""
    drv = unit.get("driver")
    if not drv: return True, "no driver"
    base = os.path.join(bdir, unit["name"]); d = os.path.join(root, "cwrap", drv)
    cmds = [
        ["gcc", "-O1", "-w", "-c", "-D__CPROVER_assume(x)=", "-D__CPROVER_assert(x,y)=", built["c"], "-o", base + "_gen.o"],
        ["g++", "-std=c++17", "-O1", "-w", "-DNDEBUG", "-DAMGCL_NO_BOOST", "-I" + repo, "-c", os.path.join(root, "cwrap", unit["wrapper"]), "-o", base + "_real.o"],
        ["gcc", "-O1", "-w", "-c", d, "-o", base + "_drv.o"],
        ["gcc", base + "_drv.o", base + "_gen.o", "-o", base + "_drv_gen", "-lm"],
        ["g++", base + "_drv.o", base + "_real.o", "-o", base + "_drv_real"],
    ]
    for c in cmds:
        rc, out, dt = sh(c, timeout=600)
        if rc != 0: return False, "differential build failed: %s\n%s" % (" ".join(c), out[-1500:])
    a = sh([base + "_drv_gen", str(seed)], timeout=300); b = sh([base + "_drv_real", str(seed)], timeout=300)
    if a[0] != 0 or b[0] != 0: return False, "differential run failed rc=%d/%d %s %s" % (a[0], b[0], a[1][-500:], b[1][-500:])
    if a[1] != b[1]:
        la = a[1].split("\n"); lb = b[1].split("\n")
        for i in range(min(len(la), len(lb))):
            if la[i] != lb[i]: return False, "generated C and real code differ at output line %d: %r vs %r" % (i, la[i], lb[i])
        return False, "generated C and real code outputs differ in length"
    return True, "%d output lines identical" % a[1].count("\n")

def run_cbmc(unit, built, h, bdir, root, witness):
    harness = os.path.join(root, "cwrap", unit["harness"])
    cmd = ["cbmc", "-DGEN=\"%s\"" % built["c"]] + ["-D" + d for d in h.get("defines", [])] + (["-DWITNESS"] if witness else []) + [harness, "--function", h["fn"], "--unwind", str(h["unwind"])] + CBMC_FLAGS + h.get("backend", []) + (["--trace"] if not witness else [])
    rc, out, dt = sh(cmd, timeout=h.get("timeout", 900))
    return rc, out, dt, " ".join(cmd)

def classify(out, rc):
    if rc == 124: return "timeout", []
    fails = re.findall(r"^\[([^\]]+)\] (.*): FAILURE$", out, re.M)
    if "VERIFICATION SUCCESSFUL" in out: return "success", []
    if "VERIFICATION FAILED" in out: return "failed", fails
    return "error", []

def parse_trace(out):
    """input values from a CBMC --trace: last assignment to each harness variable / array element"""
    vals = {}
    for m in re.finditer(r"^  ([A-Za-z_]\w*(?:\[\d+l?\])?)=(-?\d+)(?:l|ul|u)?(?: |$)", out, re.M):
        k = re.sub(r"l\]", "]", m.group(1)); vals[k] = int(m.group(2))
    return vals

def run(pid, items, tier, seed, bdir, repo, root, jobs):
    res = dict(broken=[], inconclusive=[], violations=[], functions=[], assumptions=set(), samples=[], obligations=0, discharged=0, evaluations=0, solver_s=0.0, summary={})
    units = {}
    for unit in items:
        b = build_unit(unit, bdir, repo, root)
        if isinstance(b, str): res["broken"].append(b); continue
        units[unit["name"]] = b
        ok, txt = differential(unit, b, bdir, repo, root, seed)
        if not ok: res["broken"].append("translator validation (%s): %s" % (unit["name"], txt))
        res["summary"][unit["name"]] = dict(ir_lines=b["ir_lines"], functions_translated=len(b["funcs"]), stubs=b["stubs"], differential=txt, harnesses={})
        res["functions"].append("%s: clang-14 -O1 IR of %s (%d IR lines, %d functions translated to C; external stubs: %s)" % (unit["name"], unit["wrapper"], b["ir_lines"], len(b["funcs"]), ", ".join(b["stubs"]) or "none"))
        for a in unit.get("assumptions", []): res["assumptions"].add(a)
    if res["broken"]: return res
    tasks = []
    for unit in items:
        for h in unit["harnesses"]:
            if h.get("tier", "quick") == "thorough" and tier != "thorough": continue
            hh = dict(h)
            if tier == "thorough" and "thorough" in h: hh.update(h["thorough"])
            tasks.append((unit, hh, False)); tasks.append((unit, hh, True))
    def work(t):
        unit, h, wit = t
        return t, run_cbmc(unit, units[unit["name"]], h, bdir, root, wit)
    with ThreadPoolExecutor(max_workers=max(1, jobs // 2)) as ex:
        results = list(ex.map(work, tasks))
    for (unit, h, wit), (rc, out, dt, cmd) in results:
        st, fails = classify(out, rc); key = h["fn"] + (" [" + " ".join(h.get("defines", [])) + "]" if h.get("defines") else "")
        res["solver_s"] += dt; res["evaluations"] += 1
        S = res["summary"][unit["name"]]["harnesses"].setdefault(key, {})
        nprops = len(re.findall(r": (SUCCESS|FAILURE)$", out, re.M))
        if wit:
            # reachability witness: the final assert(0) must be the (only) failing property
            S["witness"] = st; S["witness_s"] = round(dt, 1)
            if st != "failed" or not any("assertion 0" in f[1] or "assert(0)" in f[1] or "assertion false" in f[1].lower() for f in fails):
                if st == "timeout": res["inconclusive"].append("engine C: witness twin of %s timed out" % key)
                else: res["broken"].append("engine C: harness %s is vacuous or broken (witness twin: %s)" % (key, st))
            continue
        S.update(dict(result=st, seconds=round(dt, 1), unwind=h["unwind"], properties=nprops, cmd=cmd.replace(bdir, "<build>")))
        res["obligations"] += max(nprops, 1)
        if st == "success": res["discharged"] += max(nprops, 1); res["samples"].append("%s: %d CBMC properties (assertions, bounds, overflow, unwinding) all SUCCESS at unwind %d in %.1fs" % (key, nprops, h["unwind"], dt))
        elif st == "timeout": res["inconclusive"].append("engine C: %s no verdict within %ds" % (key, h.get("timeout", 900)))
        elif st == "error": res["broken"].append("engine C: cbmc error on %s: %s" % (key, out[-800:]))
        else:
            res["discharged"] += max(nprops - len(fails), 0)
            unw = [f for f in fails if "unwinding assertion" in f[1]]; real = [f for f in fails if "unwinding assertion" not in f[1]]
            if unw and not real: res["inconclusive"].append("engine C: %s unwinding bound %d too small (%s)" % (key, h["unwind"], unw[0][0])); continue
            tr = parse_trace(out)
            only_ptr = all("pointer arithmetic" in f[1] or "pointer_arithmetic" in f[0] for f in real)
            v = dict(engine="C", harness=unit["name"], case=key, obligation="; ".join("%s %s" % f for f in real[:4]), detail="CBMC counterexample", model=dict((k, str(x)) for k, x in tr.items()), prefix="", trace=tr, unit=unit["name"], fn=h["fn"], defines=h.get("defines", []))
            v["replayed"] = replay_trace(unit, h, tr, bdir, repo, root, only_ptr)
            if only_ptr and not v["replayed"]: res["inconclusive"].append("engine C: %s reports only pointer-arithmetic (out-of-bounds pointer formation) failures, which no sanitizer confirms: %s" % (key, v["obligation"])); continue
            res["violations"].append(v)
    res["assumptions"] = sorted(res["assumptions"])
    return res

def replay_trace(unit, h, tr, bdir, repo, root, only_ptr=False):
    """run the REAL wrapper (g++ -fsanitize=address,undefined) under the harness with the counterexample inputs; True if an assertion or sanitizer fires"""
    base = os.path.join(bdir, unit["name"] + "_replay_" + h["fn"]); tab = base + "_inputs.h"
    with open(tab, "w") as f:
        f.write("static const struct { const char *name; long value; } REPLAY_INPUTS[] = {\n")
        for k, v in tr.items(): f.write('  {"%s", %dL},\n' % (k, v))
        f.write('  {0, 0} };\n')
    harness = os.path.join(root, "cwrap", unit["harness"])
    san = "-fsanitize=" + unit.get("replay_sanitize", "address,undefined")
    cmds = [["g++", "-std=c++17", "-O1", "-g", "-w", san, "-fno-sanitize-recover=all", "-DNDEBUG", "-DAMGCL_NO_BOOST", "-I" + repo, "-c", os.path.join(root, "cwrap", unit["wrapper"]), "-o", base + "_real.o"],
            ["gcc", "-O0", "-g", "-w", san, "-fno-sanitize-recover=all", "-DREPLAY", "-DREPLAY_TABLE=\"%s\"" % tab, "-DREPLAY_FN=%s" % h["fn"]] + ["-D" + d for d in h.get("defines", [])] + ["-c", harness, "-o", base + "_h.o"],
            ["g++", san, base + "_h.o", base + "_real.o", "-o", base]]
    for c in cmds:
        rc, out, dt = sh(c, timeout=600)
        if rc != 0: open(base + ".log", "w").write(out); return False
    rc, out, dt = sh([base], timeout=120)
    open(base + ".log", "w").write(out)
    return rc != 0

def replay(R, bdir, repo, root):
    import props
    unit = [u for u in props.PROPS[R["property"]]["C"] if u["name"] == R["harness"]][0]
    h = [x for x in unit["harnesses"] if x["fn"] == R.get("fn", R["case"].split(" ")[0])][0]; h = dict(h); h["defines"] = R.get("defines", h.get("defines", []))
    ok = replay_trace(unit, h, dict((k, int(v)) for k, v in R["model"].items()), bdir, repo, root)
    log = os.path.join(bdir, unit["name"] + "_replay_" + h["fn"] + ".log")
    if os.path.exists(log): print(open(log).read()[-3000:])
    if ok: print("VIOLATION property=%s replay=%s" % (R["property"], "replays/")); return 1
    print("replay did not reproduce a violation on the real code"); return 0
