# engine C: clang IR -> C -> CBMC (filled in below)
def run(pid, items, tier, seed, bdir, repo, root, jobs):
    raise NotImplementedError
def replay(R, bdir, repo, root):
    raise NotImplementedError
