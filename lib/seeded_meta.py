#!/usr/bin/env python3
"""Writes seeded/<name>/meta.json and seeded/RESULTS.md from the hand-written table below plus the recorded outcomes
   (confirm.txt: my own confirmation run in a scratch worktree; result.txt: ./check <property> against a worktree with the patch)."""
import json, os, re, sys
ROOT = os.path.dirname(os.path.dirname(os.path.abspath(__file__)))
NEEDS = {
 "C19-A": ("amgcl/io/binary.hpp", "read_crs seeks into the value block of a row range with the column-index size instead of the value size", "binary CRS file, a row range with row_beg > 0 and at least one stored entry before it, sizeof(Col) != sizeof(Val) (e.g. int columns with 8-byte values)"),
 "C19-B": ("amgcl/io/mm.hpp", "the mirrored entry (j,i) of a symmetric MatrixMarket file is only added when row i itself is in the requested row range", "a 'coordinate ... symmetric' file read by a proper row range, with a stored off-diagonal entry (i,j) whose row i is outside and whose column j is inside the range"),

 "C01-A": ("amgcl/solver/bicgstabl.hpp", "BiCGStab(L) reliable update no longer re-bases the reference right-hand side B after flushing X into x",
           "bicgstabl with the non-default delta > 0; a flush (zeta < delta*zeta0) followed by a later residual refresh inside one solve"),
 "C01-B": ("amgcl/solver/bicgstab.hpp", "left-preconditioned BiCGStab starts from P*rhs instead of P*(rhs - A x0)", "bicgstab with pside=left and a non-zero initial guess"),
 "C02-A": ("amgcl/amg.hpp", "coarse-level solution vector not cleared on the last level", "last level without direct solver (direct_coarse=false or max_levels cut), >= 2 levels, a second visit of the coarse level (second apply(), W-cycle or pre_cycles=2)"),
 "C02-B": ("amgcl/backend/builtin.hpp", "transpose() no longer takes the adjoint of the values", "block-valued (static_matrix) or complex matrices whose value blocks are not symmetric; scalar real matrices unaffected"),
 "C03-A": ("amgcl/amg.hpp", "coarsening stops at rows >= coarse_enough instead of rows > coarse_enough", "a level with exactly coarse_enough rows"),
 "C03-B": ("amgcl/amg.hpp", "rebuild() constructs the coarsening with default parameters", "plain aggregation with a non-default over_interp and a rebuild() call"),
 "C04-A": ("amgcl/coarsening/plain_aggregates.hpp", "aggregate count not updated after an aggregate vanishes in the renumbering pass", "non-symmetric strength graph in which a later seed absorbs an earlier seed and all of its members (3x3 pattern 0:{0,1} 1:{0,1} 2:{0,1,2})"),
 "C04-B": ("amgcl/coarsening/ruge_stuben.hpp", "Ruge-Stuben truncation threshold taken over all strong neighbours, F points included", "do_trunc with eps_trunc > eps_strong (non-default) and an F row whose largest coupling is to another F point"),
 "C05-A": ("amgcl/solver/gmres.hpp", "GMRES inner loop runs one iteration past maxiter", "maxiter not a multiple of the restart length M / not reached by convergence: iteration count and Krylov dimension exceed the budget"),
 "C05-B": ("amgcl/solver/bicgstab.hpp", "left-preconditioned BiCGStab updates x with t instead of s", "bicgstab with pside=left; visible in the returned x only"),
 "C06-A": ("amgcl/relaxation/gauss_seidel.hpp", "level assignment of the parallel forward sweep stops scanning a row at the first entry with col >= row", "level-scheduled (parallel) forward Gauss-Seidel on rows NOT stored in ascending column order"),
 "C06-B": ("amgcl/relaxation/ilu0.hpp", "ILU(0) multiplier computed as D^-1 * a instead of a * D^-1", "block values (static_matrix, N > 1) that do not commute with the inverted pivot blocks"),
 "C07-A": ("amgcl/value_type/static_matrix.hpp", "block inner product conjugates the wrong factor", "blocks of complex numbers, two different vectors with a non-real product"),
 "C07-B": ("amgcl/backend/block_crs.hpp", "block_crs spmv advances the coefficient pointer by nx instead of dim in a truncated last block column", "backend block_crs with ncols % block_size != 0 and a coefficient in a row of that block other than its first"),
 "C08-A": ("amgcl/detail/spgemm.hpp", "row-merge SpGEMM scales the unpaired last entry of a row of A with the previous coefficient", "spgemm_rmerge (more than 16 threads, or called directly), a row of A with an odd number (>= 3) of entries whose last two coefficients differ"),
 "C08-B": ("amgcl/backend/builtin.hpp", "diagonal(A, invert=true) leaves a stored zero diagonal entry zero instead of the identity", "invert=true and an explicitly stored zero diagonal entry"),
 "C09-A": ("amgcl/relaxation/detail/ilu_solve.hpp", "level computation of the upper triangular solve skips row 0", "level-scheduled ILU solve (>= 4 threads or solve.serial=false), row 0 with an entry right of the diagonal"),
 "C09-B": ("amgcl/detail/spgemm.hpp", "row-merge SpGEMM copies B's row without the coefficient when the row of A has one entry", "more than 16 threads (row-merge algorithm), a single-entry row of A with a value other than 1"),
 "C01-C": ("amgcl/solver/idrs.hpp", "IDR(s) with residual smoothing no longer updates the smoothed solution x_s in the omega step", "idrs with smoothing=true and at least s+1 iterations; the reported (smoothed) residual no longer belongs to the returned x"),
 "C01-D": ("amgcl/solver/lgmres.hpp", "LGMRES inner loop runs one iteration past maxiter", "the iteration budget (not convergence) stops the solve inside a restart cycle: iters == maxiter + 1"),
 "C02-C": ("amgcl/solver/skyline_lu.hpp", "skyline LU multiplies the inverse pivot from the wrong side in factorize()", "block values with non-commuting blocks and a direct coarse solve with >= 3 block rows: the cycle operator B is no longer symmetric"),
 "C02-D": ("amgcl/relaxation/chebyshev.hpp", "Chebyshev with relax.scale=true takes the spectral radius of the unscaled matrix", "non-default scale=true: B(2^k A) != 2^-k B(A); with small diagonals B is indefinite"),
 "C03-C": ("amgcl/amg.hpp", "level::rebuild() rebuilds the smoother only on levels that store transfer operators", "allow_rebuild, rebuild(A') with A' != A and a hierarchy whose last level is handled by the smoother (direct_coarse=false / max_levels)"),
 "C03-D": ("amgcl/backend/builtin.hpp", "transpose() drops the adjoint of the values (same site as C02-B)", "block or complex values with non-self-adjoint prolongation entries (smoothed aggregation): R != adjoint(P)"),
 "C05-C": ("amgcl/solver/bicgstabl.hpp", "the reset of X and U[0] is moved from operator() into the constructor", "a second solve on the same bicgstabl object: the iterate contains the corrections of earlier solves while the reported residual looks converged"),
 "C05-D": ("amgcl/solver/idrs.hpp", "the bi-orthogonalisation inner product of IDR(s) has its arguments swapped (conjugated result)", "complex value type, s >= 2, data with genuinely complex inner products"),
 "C06-C": ("amgcl/relaxation/chebyshev.hpp", "the statements computing the lower and upper spectrum bound are swapped (lo = rho*higher*lower)", "non-default relax.higher != 1"),
 "C06-D": ("amgcl/relaxation/iluk.hpp", "sparse_vector::add no longer lowers the level of an existing fill entry", "ILU(k) with k >= 2 and a fill position reachable through two pivots where the earlier pivot gives the higher level"),
 "C07-C": ("amgcl/backend/detail/matrix_ops.hpp", "spmv skips empty rows in the beta != 0 branch (y[i] is left instead of beta*y[i])", "a matrix with an empty row and beta not in {0, 1}"),
 "C07-D": ("amgcl/adapter/block_matrix.hpp", "the block adapter takes the next block column from the first non-exhausted scalar row instead of the minimum", "hybrid backend / block adapter on a staggered scalar pattern (>= 3 block columns, scalar rows of one block row reaching different block columns)"),
 "C08-C": ("amgcl/backend/builtin.hpp", "pointwise_matrix takes the column count from the row count", "non-square input (wide or tall)"),
 "C08-D": ("amgcl/backend/builtin.hpp", "the scaled power method normalises with the norm of the unscaled iterate", "spectral_radius<scale=true> with power_iters >= 2 and diagonal magnitudes below 1: the estimate exceeds the largest singular value"),
 "C13-C": ("amgcl/backend/detail/matrix_ops.hpp", "spmv accumulates row sums in the matrix's precision instead of the vectors'", "mixed precision (float preconditioner matrix under a double Krylov solver): products rounded to float, true residual stalls at 1e-6 while 1e-9 is reported"),
 "C13-D": ("amgcl/coarsening/as_scalar.hpp", "as_scalar no longer sorts the rows of the scalar transfer operators before converting them to blocks", "block values with as_scalar<smoothed_aggregation> (unsorted P rows): misplaced entries in the block P, R != P^T"),
 "C14-C": ("amgcl/preconditioner/runtime.hpp", "the run-time 'nested' preconditioner calls operator() instead of apply(), so the inner solve starts from stale data", "precond.class=nested with an outer solver that hands a non-zero vector to apply (bicgstab, gmres)"),
 "C14-D": ("amgcl/relaxation/ilut.hpp", "ILUT's fill factor p is imported with an integer default, so fractional text falls back to 2", "relaxation ilut with a fractional p (1.5, 2.5, 0.75) through the run-time interface"),
 "C16-C": ("amgcl/solver/skyline_lu.hpp", "the zero-pivot test of skyline LU looks at the original diagonal coefficient instead of the pivot after elimination", "a zero diagonal entry whose pivot comes from fill-in (spurious exception), or a non-zero diagonal whose pivot cancels exactly (no exception, inf/NaN)"),
 "C16-D": ("amgcl/detail/qr.hpp", "QR::factorize no longer zeroes the upper part of Q before applying the reflectors", "a second factorize() on the same QR object with >= 2 columns (tentative_prolongation reuses one QR per thread)"),
 "C10-A": ("amgcl/coarsening/ruge_stuben.hpp", "connect() no longer initialises the strength flags of rows without a negative off-diagonal (re-introduces the defect fixed by d83d7e2)", "ruge_stuben coarsening, a row whose off-diagonals are all positive (or a diagonal-only row), non-zero heap contents"),
 "C10-B": ("amgcl/util.hpp", "circular_buffer::push_back loses the wrap-around of its start index (used only by LGMRES)", "LGMRES storing more than 2K augmentation vectors without a reset: small K/M with several restart cycles, or always_reset=false and repeated solves"),
 "C11-A": ("amgcl/mpi/distributed_matrix.hpp", "an explicit local column count of 0 is treated as 'not specified'", "strip constructor with an explicit column count on a rank that owns rows but no columns (rectangular operator or differing row/column partitions)"),
 "C11-B": ("amgcl/mpi/distributed_matrix.hpp", "mul() skips the local SpMV (which also applies beta) when the diagonal block has no stored entries", "a rank whose own-rows x own-columns block is structurally empty, beta != 1 and non-zero previous content of y"),
 "C12-A": ("amgcl/mpi/distributed_matrix.hpp", "one accumulate site of the distributed product multiplies the value blocks in the wrong order", "block values with non-commuting blocks, >= 2 ranks, a row with two contributions to the same remote column (smoothed aggregation across a rank boundary)"),
 "C12-B": ("amgcl/mpi/coarsening/pmis.hpp", "the 'lonely node' test of the distributed aggregation ignores remote strong connections", "a rank owning an unknown with no strong neighbour on its own rank (e.g. a one-row rank) none of whose remote neighbours becomes a root"),
 "C17-A": ("amgcl/amg.hpp", "amg::rebuild(M) no longer sorts the rows of the user matrix", "allow_rebuild, an existing hierarchy, rebuild() with unsorted rows and an order-sensitive smoother (ilu0)"),
 "C17-B": ("amgcl/adapter/block_matrix.hpp", "the block adapter does not zero the current block when advancing (same site as C13-A)", "structurally incomplete blocks after the first block of a block row"),
 "C18-A": ("amgcl/preconditioner/schur_pressure_correction.hpp", "the matrix-free Schur operator applies the adjust_p=1 diagonal term with coefficient 1 instead of alpha", "adjust_p = 1 and the operator applied with alpha != 1 to a non-zero vector (a pressure solver that recomputes true residuals)"),
 "C18-B": ("amgcl/preconditioner/cpr.hpp", "update_transfer for block values inverts the diagonal block instead of its adjoint", "block-valued CPR, construct then partial_update(K) with update_transfer_ops, non-symmetric diagonal blocks, an inexact global stage"),
 "C20-A": ("lib/amgcl.cpp", "amgcl_precond_apply clears x and runs one cycle instead of calling apply()", "a stand-alone preconditioner handle with pre_cycles != 1"),
 "C20-B": ("lib/amgcl.cpp", "amgcl_params_seti appends a duplicate key instead of overwriting", "the same integer parameter set twice on one parameter handle with different values"),
 "C13-A": ("amgcl/adapter/block_matrix.hpp", "block_matrix adapter does not zero the current block when advancing to the next block column", "a block row with >= 2 block columns and a structurally incomplete block that is not the first of its row"),
 "C13-B": ("amgcl/make_block_solver.hpp", "three-argument make_block_solver::operator() ignores the caller's matrix and uses the stored one", "three-argument call with a matrix different from the one used for setup (e.g. mixed precision with non-float-exact coefficients)"),
 "C14-A": ("amgcl/util.hpp", "check_params() reports only unknown LEAF keys", "an unknown key that has children (a misspelled section such as precond.relaxation.type)"),
 "C14-B": ("amgcl/solver/precond_side.hpp", "operator>> for preconditioner::side sets failbit instead of throwing", "an invalid pside string for bicgstab/bicgstabl/gmres/lgmres: silently becomes the default"),
 "C15-A": ("amgcl/solver/bicgstabl.hpp", "the partial-solution vector X is cleared at exit instead of at entry", "an earlier call on the same bicgstabl object that throws after at least one BiCG step, then another call"),
 "C15-B": ("amgcl/backend/detail/matrix_ops.hpp", "spmv with beta == 0 computes alpha*A*x + 0*y instead of overwriting y", "a non-finite value left in a persistent work vector by an earlier call (NaN * 0 = NaN)"),
 "C16-A": ("amgcl/solver/skyline_lu.hpp", "first-row update of skyline LU multiplies by D^-1 from the right", "block values (B >= 2) where A(0,0)^-1 and A(0,j) do not commute"),
 "C16-B": ("amgcl/detail/inverse.hpp", "pivot search of the dense inverse skips the last row", "a block whose only non-zero pivot candidate in some column is in the last row (e.g. [[0,1],[1,0]])"),

 # ---- round 3
 "C04-C": ("amgcl/coarsening/pointwise_aggregates.hpp", "minimum aggregate size test uses a truncating division (count < min_aggregate / block_size)", "near-null-space vectors with nullspace.cols > 1, block_size > 1, cols % block_size != 0 and an aggregate of exactly floor(cols/block_size) nodes: its local QR has fewer rows than columns, P^T P != I"),
 "C04-D": ("amgcl/coarsening/smoothed_aggregation.hpp", "relax is dropped from omega when the spectral radius is estimated (omega = (4/3)/rho instead of omega *= ...)", "estimate_spectral_radius = true together with relax != 1 (both non-default)"),
 "C09-C": ("amgcl/relaxation/gauss_seidel.hpp", "the two passes of the level computation of parallel_sweep are fused: anti-dependencies use a level that is not final yet", ">= 4 threads, a structurally non-symmetric entry and the later-swept column stored before an earlier-swept one (backward sweep with sorted rows, forward sweep with unsorted rows)"),
 "C09-D": ("amgcl/coarsening/smoothed_aggr_emin.hpp", "a 'skip zero' shortcut in the critical-section accumulation also skips the reset of the thread-private column marker", "smoothed_aggr_emin with an exact cancellation in a row of A D^-1 A P: omega, P and R depend on how rows are split over threads"),
 "C10-C": ("amgcl/coarsening/plain_aggregates.hpp", "the renumbering pass after vanished aggregates only visits the first 'count' points", "an aggregate that loses all its members (non-symmetric strength graph): ids >= count survive, P gets column indices >= ncols, heap overruns in transpose / spgemm / spmv"),
 "C10-D": ("amgcl/adapter/block_matrix.hpp", "the row iterator of the block adapter no longer zeroes its first block value", "adapter::block_matrix (make_block_solver, as_block, as_scalar) on a matrix whose first block of a block row is structurally incomplete: missing entries come from uninitialised stack memory"),
 "C11-C": ("amgcl/mpi/distributed_matrix.hpp", "finish_exchange copies the received ghost values only when the rank also SENDS something", "a rank that receives ghost values but sends none (structurally non-symmetric rank coupling: upper bidiagonal / arrow matrices, rectangular operators)"),
 "C11-D": ("amgcl/mpi/distributed_matrix.hpp", "remote_rows shifts local column numbers with the column offset of the LEFT factor's pattern", "product A*B with B rectangular or B's column partition different from its row partition, on a rank that ships rows with diagonal-block entries"),
 "C12-C": ("amgcl/mpi/coarsening/smoothed_aggregation.hpp", "weak REMOTE connections are no longer added to the filtered diagonal", "distributed smoothed aggregation, >= 2 ranks, a weak connection whose column lives on another rank (anisotropic problems): row sums of P next to a rank boundary != 1, hierarchy depends on the partition"),
 "C12-D": ("amgcl/mpi/distributed_matrix.hpp", "transpose(): the row sizes of the transposed remote part are assigned instead of accumulated", ">= 3 ranks and a column referenced from two different remote ranks (an aggregate with members on three ranks: a very thin slice in the partition): R != P^T"),
 "C15-C": ("amgcl/solver/bicgstab.hpp", "the first-iteration copy p = r is folded into the general update with beta = 0: (-0)*v reads the work vector of the previous call", "the same object called at least twice and an earlier call that left a non-finite value in v: every later call returns NaN"),
 "C15-D": ("amgcl/amg.hpp", "the coarse-level solution vector is no longer cleared when the next level is the coarsest", "a smoothed coarsest level (direct_coarse=false, or an empty next coarsening step) and a second apply() on the same object"),
 "C17-C": ("amgcl/backend/builtin.hpp", "the move constructor of crs claims ownership (own_data = true) of the moved-from matrix' arrays", "zero_copy()/zero_copy_direct() wrapping user arrays, then move-construction of a crs from the result: the user arrays are delete[]d on destruction"),
 "C17-D": ("amgcl/reorder/cuthill_mckee.hpp", "the search for the start node of a new connected component begins at i = next instead of i = 0", "a disconnected graph whose still unnumbered nodes all have indices below the count of nodes numbered so far (decoupled Dirichlet rows at low indices): the ordering is no permutation"),
 "C18-C": ("amgcl/preconditioner/cpr.hpp", "the thread-local diagonal-block buffer of first_scalar_pass is no longer zeroed per block row", "scalar input and a diagonal block with a structurally missing entry in a block row other than the first one handled by its thread"),
 "C18-D": ("amgcl/deflated_solver.hpp", "project() applies E^-T instead of E^-1 (index order of the small dense solve)", "a non-symmetric matrix and at least two deflation vectors"),
 "C19-C": ("amgcl/io/mm.hpp", "the range check of a coordinate entry compares the column index with the ROW count", "rectangular coordinate files: wide matrices are rejected, tall files may return column indices beyond the column count"),
 "C19-D": ("amgcl/io/binary.hpp", "the monotonicity check of the row pointers read from the file skips the last pair of the requested range", "a damaged file whose pointer of the last requested row exceeds the range's end pointer: decreasing ptr, sort_row out of bounds"),
 "C20-C": ("lib/amgcl.cpp", "amgcl_params_setf stores the float through a fixed 6-decimal string", "float parameters below 5e-7 (tol = 1e-8f becomes 0) or non-dyadic values (0.72f changes in the last bits)"),
 "C20-D": ("lib/amgcl.cpp", "amgcl_solver_solve_mtx_f copies the 1-based column/value arrays up front and reads one element past them", "1-based entry point with a replacement matrix; results are bitwise unchanged, only the out-of-bounds read of col[nnz] is observable"),
}
def read(p):
    try: return open(p).read()
    except OSError: return ""
rows = []
for name in sorted(NEEDS):
    d = os.path.join(ROOT, "seeded", name)
    if not os.path.isdir(d): continue
    f, what, needs = NEEDS[name]
    conf = read(os.path.join(d, "confirm.txt")).strip(); res = read(os.path.join(d, "result.txt")).strip()
    m = re.search(r"exit code: (\d+)", res); rc = int(m.group(1)) if m else None
    caught = (rc == 1 and "VIOLATION" in res)
    viol = [l for l in res.splitlines() if l.strip().startswith("violated:")][:3]
    meta = {"property": name.split("-")[0], "file": f, "change": what, "needs_to_manifest": needs,
            "artifacts": {"patch": "patch.diff", "demonstration": "demo.cpp (exit 0 on the unchanged tree, 1 on the changed tree)", "author_notes": "notes.md"},
            "confirmed_by_me": {"how": "lib/confirm_seeded.sh: scratch worktree of /repo at the base commit, demo built and run on the clean and on the patched tree, the pinned test suite rebuilt and run on the patched tree (OMP_NUM_THREADS=2)", "outcome": conf or "not yet run"},
            "check_run": {"how": "lib/run_seeded.sh: scratch worktree of /repo HEAD + patch.diff, VERIF_REPO=<worktree> ./check %s --tier quick" % name.split("-")[0], "exit_code": rc, "caught": caught, "first_violations": viol}}
    json.dump(meta, open(os.path.join(d, "meta.json"), "w"), indent=1)
    rows.append((name, f, what, needs, conf, rc, caught, viol))
with open(os.path.join(ROOT, "seeded", "RESULTS.md"), "w") as o:
    o.write("# Seeded changes and what the checks do with them\n\nEach change was written by a fresh sub-agent that saw only the property text and a scratch worktree; each compiles, passes the pinned test suite and\nis demonstrated by its demo.cpp (confirmed by me, see meta.json).  `caught` = `./check <property> --tier quick` against a worktree with the patch exits 1 with a VIOLATION line.\n\n")
    o.write("| change | file | what it does | needs | quick check |\n|---|---|---|---|---|\n")
    for name, f, what, needs, conf, rc, caught, viol in rows:
        o.write("| %s | %s | %s | %s | %s |\n" % (name, f, what, needs, "caught (exit 1)" if caught else ("not run" if rc is None else "MISSED (exit %s)" % rc)))
    o.write("\n%d of %d caught by the quick tier of the property they target.\n" % (sum(1 for r in rows if r[6]), len(rows)))
print("%d meta.json written, %d caught" % (len(rows), sum(1 for r in rows if r[6])))
