// symmpi: an in-process stand-in for <mpi.h> (only on the include path of the MPI harness translation units).
// R ranks run as threads that hold ONE global baton mutex while they execute and release it only inside blocking MPI calls
// (cooperative scheduling), so the symbolic term store needs no locking.  Point-to-point messages are buffered and matched by
// (source, destination, tag) in FIFO order (MPI's non-overtaking rule); collectives are rendezvous over all ranks and reduce in
// rank order.  Only MPI_COMM_WORLD-sized communicators exist (no Comm_split).  This is the documented contract assumed of MPI.
#pragma once
#include <mutex>
#include <condition_variable>
#include <thread>
#include <vector>
#include <deque>
#include <map>
#include <cstring>
#include <functional>
#include <stdexcept>
#include <string>
#include <algorithm>
#define MPI_VERSION 3
#define MPI_SUBVERSION 1
typedef int MPI_Comm; typedef int MPI_Datatype; typedef int MPI_Op; typedef int MPI_Request; struct MPI_Status { int MPI_SOURCE, MPI_TAG, MPI_ERROR; };
#define MPI_COMM_WORLD 0
#define MPI_COMM_NULL (-1)
#define MPI_COMM_SELF (-2)
#define MPI_UNDEFINED (-32766)
#define MPI_STATUSES_IGNORE ((MPI_Status*)0)
#define MPI_STATUS_IGNORE ((MPI_Status*)0)
#define MPI_SUCCESS 0
#define MPI_THREAD_MULTIPLE 3
#define MPI_REQUEST_NULL (-1)
enum { MPI_CHAR=1, MPI_INT, MPI_UNSIGNED, MPI_LONG_LONG_INT, MPI_UNSIGNED_LONG_LONG, MPI_FLOAT, MPI_DOUBLE, MPI_LONG_DOUBLE, MPI_CXX_FLOAT_COMPLEX, MPI_CXX_DOUBLE_COMPLEX, MPI_SYMX, MPI_LONG, MPI_UNSIGNED_LONG, MPI_FIRST_DERIVED };
enum { MPI_SUM=1, MPI_PROD, MPI_MAX, MPI_MIN, MPI_LOR, MPI_LAND };
namespace symmpi {
struct DT { size_t size; int base; int count; };
struct Msg { int src, dst, tag, comm; std::vector<char> data; };
struct Req { bool recv; void *buf; size_t bytes; int peer, tag; bool done; };
struct World { int R=1; std::mutex G; std::condition_variable cv; std::deque<Msg> queue; std::vector<DT> derived; std::map<std::pair<int,long>,std::vector<std::vector<char>>> coll; std::map<std::pair<int,long>,int> coll_left; std::map<std::pair<int,int>,long> coll_seq; std::vector<std::vector<int>> comms; std::map<std::vector<int>,int> comm_ids; std::vector<std::vector<Req>> reqs; bool failed=false; std::string failure; };
inline World &world() { static World w; return w; }
inline int &my_rank() { static thread_local int r=0; return r; }
inline std::unique_lock<std::mutex> *&my_lock() { static thread_local std::unique_lock<std::mutex> *l=nullptr; return l; }
inline size_t dt_size(MPI_Datatype t) { switch (t) { case MPI_CHAR: return 1; case MPI_INT: case MPI_UNSIGNED: case MPI_FLOAT: return 4; case MPI_LONG_LONG_INT: case MPI_UNSIGNED_LONG_LONG: case MPI_DOUBLE: case MPI_SYMX: case MPI_LONG: case MPI_UNSIGNED_LONG: case MPI_CXX_FLOAT_COMPLEX: return 8; case MPI_LONG_DOUBLE: case MPI_CXX_DOUBLE_COMPLEX: return 16; default: return world().derived.at(t-MPI_FIRST_DERIVED).size; } }
inline int dt_base(MPI_Datatype t, size_t &n) { if (t<MPI_FIRST_DERIVED) return t; const DT &d=world().derived.at(t-MPI_FIRST_DERIVED); n*=d.count; return dt_base(d.base,n); }
// element-wise reduction hook for the symbolic scalar (set by the harness)
inline std::function<void(int op, void *acc, const void *in)> &symx_reduce() { static std::function<void(int,void*,const void*)> f; return f; }
template<class T> inline void red(int op, T &a, const T &b) { switch (op) { case MPI_SUM: a=a+b; break; case MPI_PROD: a=a*b; break; case MPI_MAX: a = a<b ? b : a; break; case MPI_MIN: a = b<a ? b : a; break; case MPI_LOR: a = (a||b); break; case MPI_LAND: a = (a&&b); break; } }
inline void reduce_elem(int op, int base, char *acc, const char *in) { switch (base) {
    case MPI_INT: { int a,b; memcpy(&a,acc,4); memcpy(&b,in,4); red(op,a,b); memcpy(acc,&a,4); break; } case MPI_UNSIGNED: { unsigned a,b; memcpy(&a,acc,4); memcpy(&b,in,4); red(op,a,b); memcpy(acc,&a,4); break; }
    case MPI_LONG_LONG_INT: case MPI_LONG: { long long a,b; memcpy(&a,acc,8); memcpy(&b,in,8); red(op,a,b); memcpy(acc,&a,8); break; } case MPI_UNSIGNED_LONG_LONG: case MPI_UNSIGNED_LONG: { unsigned long long a,b; memcpy(&a,acc,8); memcpy(&b,in,8); red(op,a,b); memcpy(acc,&a,8); break; }
    case MPI_DOUBLE: { double a,b; memcpy(&a,acc,8); memcpy(&b,in,8); red(op,a,b); memcpy(acc,&a,8); break; } case MPI_FLOAT: { float a,b; memcpy(&a,acc,4); memcpy(&b,in,4); red(op,a,b); memcpy(acc,&a,4); break; }
    case MPI_CHAR: { char a=*acc,b=*in; red(op,a,b); *acc=a; break; } case MPI_SYMX: symx_reduce()(op,acc,in); break; default: throw std::runtime_error("symmpi: reduction on unsupported datatype"); } }
inline void wait_until(const std::function<bool()> &ready) { World &w=world(); auto &lk=*my_lock(); while (!ready()) { if (w.failed) throw std::runtime_error("symmpi: another rank failed: "+w.failure); w.cv.wait(lk); } }
// generic collective: every rank deposits `bytes` bytes; returns all contributions in rank order
inline int comm_rank(int comm) { World &w=world(); if (comm==MPI_COMM_SELF) return 0; const auto &g=w.comms.at(comm); for (size_t i=0;i<g.size();++i) if (g[i]==my_rank()) return (int)i; throw std::runtime_error("symmpi: rank is not a member of the communicator"); }
inline int comm_size(int comm) { return comm==MPI_COMM_SELF ? 1 : (int)world().comms.at(comm).size(); }
inline int to_world(int comm, int r) { return comm==MPI_COMM_SELF ? my_rank() : world().comms.at(comm).at(r); }
inline std::vector<std::vector<char>> exchange(const void *buf, size_t bytes, int comm=0) { World &w=world(); if (comm==MPI_COMM_SELF) return {std::vector<char>((const char*)buf,(const char*)buf+bytes)}; int r=comm_rank(comm), n=comm_size(comm); long seq=w.coll_seq[{comm,my_rank()}]++; auto key=std::make_pair(comm,seq); auto &slot=w.coll[key]; if (slot.empty()) { slot.resize(n); w.coll_left[key]=n; } slot[r].assign((const char*)buf,(const char*)buf+bytes); slot[r].push_back(1); w.cv.notify_all();
    wait_until([&]{ for (auto &s : w.coll[key]) if (s.empty()) return false; return true; }); std::vector<std::vector<char>> all=w.coll[key]; for (auto &s : all) s.pop_back(); if (--w.coll_left[key]==0) { w.coll.erase(key); w.coll_left.erase(key); } return all; }
// run fn on R ranks; rethrows the first failure
inline void run(int R, const std::function<void(int)> &fn) { World &w=world(); w.R=R; w.queue.clear(); w.coll.clear(); w.coll_left.clear(); w.coll_seq.clear(); w.reqs.assign(R,{}); w.comms.clear(); w.comm_ids.clear(); { std::vector<int> all; for (int r=0;r<R;++r) all.push_back(r); w.comms.push_back(all); w.comm_ids[all]=0; } w.failed=false; w.failure.clear(); std::vector<std::thread> th;
    for (int r=0;r<R;++r) th.emplace_back([&,r]{ std::unique_lock<std::mutex> lk(w.G); my_rank()=r; my_lock()=&lk; try { fn(r); } catch (const std::exception &e) { if (!w.failed) { w.failed=true; w.failure=e.what(); } } catch (...) { if (!w.failed) { w.failed=true; w.failure="engine stop / unknown exception in a rank"; } } w.cv.notify_all(); my_lock()=nullptr; });
    for (auto &t : th) t.join(); if (w.failed) throw std::runtime_error("symmpi: "+w.failure); }
}
inline int MPI_Init(int*, char***) { return 0; } inline int MPI_Init_thread(int*, char***, int, int *p) { if (p) *p=MPI_THREAD_MULTIPLE; return 0; } inline int MPI_Finalize() { return 0; } inline int MPI_Initialized(int *f) { *f=1; return 0; }
inline int MPI_Comm_rank(MPI_Comm c, int *r) { *r=symmpi::comm_rank(c); return 0; } inline int MPI_Comm_size(MPI_Comm c, int *s) { *s=symmpi::comm_size(c); return 0; } inline double MPI_Wtime() { return 0; } inline int MPI_Abort(MPI_Comm, int) { throw std::runtime_error("MPI_Abort"); }
inline int MPI_Type_contiguous(int count, MPI_Datatype base, MPI_Datatype *t) { auto &w=symmpi::world(); w.derived.push_back({symmpi::dt_size(base)*count, base, count}); *t=MPI_FIRST_DERIVED+(int)w.derived.size()-1; return 0; } inline int MPI_Type_commit(MPI_Datatype*) { return 0; } inline int MPI_Type_free(MPI_Datatype*) { return 0; }
inline int MPI_Isend(const void *buf, int count, MPI_Datatype dt, int dest, int tag, MPI_Comm cm, MPI_Request *req) { auto &w=symmpi::world(); symmpi::Msg m; m.src=symmpi::my_rank(); m.dst=symmpi::to_world(cm,dest); m.tag=tag+1000003*cm; m.comm=cm; size_t b=symmpi::dt_size(dt)*count; m.data.assign((const char*)buf,(const char*)buf+b); w.queue.push_back(m); w.cv.notify_all(); auto &rq=w.reqs[symmpi::my_rank()]; rq.push_back({false,nullptr,0,dest,tag,true}); *req=(int)rq.size()-1; return 0; }
inline int MPI_Irecv(void *buf, int count, MPI_Datatype dt, int source, int tag, MPI_Comm cm, MPI_Request *req) { auto &rq=symmpi::world().reqs[symmpi::my_rank()]; rq.push_back({true,buf,symmpi::dt_size(dt)*count,symmpi::to_world(cm,source),tag+1000003*cm,false}); *req=(int)rq.size()-1; return 0; }
inline int MPI_Wait(MPI_Request *req, MPI_Status*) { if (*req<0) return 0; auto &w=symmpi::world(); int me=symmpi::my_rank(); symmpi::Req &r=w.reqs[me][*req]; if (r.recv && !r.done) { symmpi::wait_until([&]{ for (auto &m : w.queue) if (m.dst==me && m.src==r.peer && m.tag==r.tag) return true; return false; });
        for (auto it=w.queue.begin(); it!=w.queue.end(); ++it) if (it->dst==me && it->src==r.peer && it->tag==r.tag) { if (it->data.size()>r.bytes) throw std::runtime_error("symmpi: message longer than the receive buffer"); memcpy(r.buf,it->data.data(),it->data.size()); w.queue.erase(it); break; } r.done=true; } *req=MPI_REQUEST_NULL; return 0; }
inline int MPI_Waitall(int n, MPI_Request *reqs, MPI_Status*) { for (int i=0;i<n;++i) MPI_Wait(&reqs[i],0); return 0; }
inline int MPI_Send(const void *buf, int count, MPI_Datatype dt, int dest, int tag, MPI_Comm c) { MPI_Request r; return MPI_Isend(buf,count,dt,dest,tag,c,&r); }
inline int MPI_Recv(void *buf, int count, MPI_Datatype dt, int src, int tag, MPI_Comm c, MPI_Status *s) { MPI_Request r; MPI_Irecv(buf,count,dt,src,tag,c,&r); return MPI_Wait(&r,s); }
inline int MPI_Barrier(MPI_Comm cm) { char c=0; symmpi::exchange(&c,1,cm); return 0; }
inline int MPI_Allgather(const void *sb, int sc, MPI_Datatype st, void *rb, int rc, MPI_Datatype rt, MPI_Comm cm) { auto all=symmpi::exchange(sb,symmpi::dt_size(st)*sc,cm); size_t rbs=symmpi::dt_size(rt)*rc; for (size_t r=0;r<all.size();++r) memcpy((char*)rb+r*rbs,all[r].data(),all[r].size()); return 0; }
inline int MPI_Gather(const void *sb, int sc, MPI_Datatype st, void *rb, int rc, MPI_Datatype rt, int root, MPI_Comm cm) { auto all=symmpi::exchange(sb,symmpi::dt_size(st)*sc,cm); if (symmpi::comm_rank(cm)==root) { size_t rbs=symmpi::dt_size(st)*sc; for (size_t r=0;r<all.size();++r) memcpy((char*)rb+r*rbs,all[r].data(),all[r].size()); } (void)rc; (void)rt; return 0; }
inline int MPI_Alltoall(const void *sb, int sc, MPI_Datatype st, void *rb, int rc, MPI_Datatype rt, MPI_Comm cm) { int R=symmpi::comm_size(cm); size_t sbs=symmpi::dt_size(st)*sc, rbs=symmpi::dt_size(rt)*rc; auto all=symmpi::exchange(sb,sbs*R,cm); int me=symmpi::comm_rank(cm); for (int r=0;r<R;++r) memcpy((char*)rb+r*rbs,all[r].data()+me*sbs,sbs); return 0; }
inline int MPI_Allreduce(const void *sb, void *rb, int count, MPI_Datatype dt, MPI_Op op, MPI_Comm cm) { size_t n=count; int base=symmpi::dt_base(dt,n); size_t es=symmpi::dt_size(base); auto all=symmpi::exchange(sb,es*n,cm); std::vector<char> acc=all[0]; for (size_t r=1;r<all.size();++r) for (size_t i=0;i<n;++i) symmpi::reduce_elem(op,base,acc.data()+i*es,all[r].data()+i*es); memcpy(rb,acc.data(),es*n); return 0; }
inline int MPI_Exscan(const void *sb, void *rb, int count, MPI_Datatype dt, MPI_Op op, MPI_Comm cm) { size_t n=count; int base=symmpi::dt_base(dt,n); size_t es=symmpi::dt_size(base); auto all=symmpi::exchange(sb,es*n,cm); int me=symmpi::comm_rank(cm); if (me>0) { std::vector<char> acc=all[0]; for (int r=1;r<me;++r) for (size_t i=0;i<n;++i) symmpi::reduce_elem(op,base,acc.data()+i*es,all[r].data()+i*es); memcpy(rb,acc.data(),es*n); } return 0; }
inline int MPI_Bcast(void *buf, int count, MPI_Datatype dt, int root, MPI_Comm cm) { size_t b=symmpi::dt_size(dt)*count; auto all=symmpi::exchange(buf,b,cm); memcpy(buf,all[root].data(),b); return 0; }
inline int MPI_Ialltoall(const void *sb, int sc, MPI_Datatype st, void *rb, int rc, MPI_Datatype rt, MPI_Comm cm, MPI_Request *req) { MPI_Alltoall(sb,sc,st,rb,rc,rt,cm); *req=MPI_REQUEST_NULL; return 0; }
inline int MPI_Comm_split(MPI_Comm cm, int color, int key, MPI_Comm *out) { int ck[2]={color,key}; auto all=symmpi::exchange(ck,sizeof ck,cm); if (color==MPI_UNDEFINED) { *out=MPI_COMM_NULL; return 0; } std::vector<std::pair<int,int>> mem; for (size_t r=0;r<all.size();++r) { int c2[2]; memcpy(c2,all[r].data(),sizeof c2); if (c2[0]==color) mem.push_back({c2[1],symmpi::to_world(cm,(int)r)}); }
    std::stable_sort(mem.begin(),mem.end(),[](const std::pair<int,int>&a,const std::pair<int,int>&b){ return a.first<b.first; }); std::vector<int> g; for (auto &m : mem) g.push_back(m.second); auto &w=symmpi::world(); auto it=w.comm_ids.find(g); if (it==w.comm_ids.end()) { w.comms.push_back(g); it=w.comm_ids.insert({g,(int)w.comms.size()-1}).first; } *out=it->second; return 0; }
inline int MPI_Comm_free(MPI_Comm *c) { *c=MPI_COMM_NULL; return 0; }
inline int MPI_Comm_dup(MPI_Comm c, MPI_Comm *o) { *o=c; return 0; }
