// CBMC harnesses over the C generated from the clang IR of the real amgcl kernels (k_basic.cpp)
// Under CBMC the kernels come from the generated C (GEN); in REPLAY mode the same harness is linked against the REAL
// g++ -fsanitize=address,undefined build of the wrapper and the inputs are taken from the CBMC counterexample.
#include <assert.h>
#ifndef REPLAY
#include GEN
int nondet_int(void); long nondet_long(void);
#define IN(var, ...) var = nondet_int()
#else
#include <stdio.h>
#include <string.h>
#include <stdlib.h>
#include REPLAY_TABLE
#define __CPROVER_assume(c) do { if (!(c)) { printf("replay input violates a harness assumption: %s\n", #c); exit(0); } } while (0)
static int __ir_exc = 0; static void ir_init_globals(void) {}
static long replay_get(const char *name) { for (int i = 0; REPLAY_INPUTS[i].name; ++i) if (!strcmp(REPLAY_INPUTS[i].name, name)) return REPLAY_INPUTS[i].value; return 0; }
static char replay_nm[64];
#define IN(var, ...) (snprintf(replay_nm, sizeof replay_nm, __VA_ARGS__), var = (int)replay_get(replay_nm))
void k_sort_row(char*, char*, int); int k_transpose(int, int, char*, char*, char*, char*, char*, char*, int); void k_sort_rows(int, int, char*, char*, char*);
#endif
#ifndef N
#define N 3
#endif
#ifndef NNZ
#define NNZ 5
#endif
// arbitrary well-formed CRS with n<=N rows, m<=N cols, nnz<=NNZ; values are distinct tags
static void crs_input(int *n, int *m, int *ptr, int *col, long *val, int sorted) {
    IN(*n, "n"); IN(*m, "m"); __CPROVER_assume(*n >= 0 && *n <= N && *m >= 0 && *m <= N);
    ptr[0] = 0; for (int i = 0; i < N; ++i) { IN(ptr[i+1], "ptr[%d]", i+1); __CPROVER_assume(ptr[i+1] >= ptr[i] && ptr[i+1] <= NNZ); if (i >= *n) __CPROVER_assume(ptr[i+1] == ptr[i]); }
    for (int j = 0; j < NNZ; ++j) { IN(col[j], "col[%d]", j); __CPROVER_assume(col[j] >= 0 && col[j] < *m); val[j] = 1000 + j; }
    if (sorted) for (int i = 0; i < N; ++i) for (int j = ptr[i]; j + 1 < ptr[i+1]; ++j) __CPROVER_assume(col[j] < col[j+1]);
}
void h_sort_row(void) {
    ir_init_globals();
    int n; IN(n, "n"); __CPROVER_assume(n >= 0 && n <= NNZ); int col[NNZ], c0[NNZ]; long val[NNZ];
    for (int i = 0; i < NNZ; ++i) { IN(col[i], "col[%d]", i); c0[i] = col[i]; val[i] = 1000 + i; }
    k_sort_row((char*)col, (char*)val, n);
    for (int i = 0; i + 1 < n; ++i) assert(col[i] <= col[i+1]);                       // sorted
    for (int i = 0; i < n; ++i) { long t = val[i] - 1000; assert(t >= 0 && t < n && c0[t] == col[i]); }   // (col,val) pairs travel together
    int k; IN(k, "k"); __CPROVER_assume(k >= 0 && k < n); int cnt = 0; for (int i = 0; i < n; ++i) cnt += (val[i] == 1000 + k); assert(cnt == 1);   // permutation
    for (int i = n; i < NNZ; ++i) assert(col[i] == c0[i] && val[i] == 1000 + i);     // nothing outside the row is touched
#ifdef WITNESS
    assert(0);
#endif
}
void h_transpose(void) {
    ir_init_globals();
    int n, m, ptr[N+1], col[NNZ]; long val[NNZ]; crs_input(&n, &m, ptr, col, val, 0);
    int tptr[N+1], tcol[NNZ]; long tval[NNZ];
    int nnz = k_transpose(n, m, (char*)ptr, (char*)col, (char*)val, (char*)tptr, (char*)tcol, (char*)tval, NNZ);
    assert(!__ir_exc); assert(nnz == ptr[n]);
    assert(tptr[0] == 0); for (int i = 0; i < m; ++i) assert(tptr[i] <= tptr[i+1]); assert(tptr[m] == nnz);
    for (int j = 0; j < nnz; ++j) assert(tcol[j] >= 0 && tcol[j] < n);
    // every transposed entry is an original entry with row/column swapped (tags identify entries) ...
    int r; IN(r, "r"); __CPROVER_assume(r >= 0 && r < m); int j; IN(j, "j"); __CPROVER_assume(j >= tptr[r] && j < tptr[r+1]);
    long t = tval[j] - 1000; assert(t >= 0 && t < nnz && col[t] == r); assert(ptr[tcol[j]] <= t && t < ptr[tcol[j]+1]);
    // ... and every original entry appears exactly once
    int k; IN(k, "k"); __CPROVER_assume(k >= 0 && k < nnz); int cnt = 0; for (int q = 0; q < nnz; ++q) cnt += (tval[q] == 1000 + k); assert(cnt == 1);
    // rows of the transpose are ordered by original row (stable): columns non-decreasing
    for (int i = 0; i < m; ++i) for (int q = tptr[i]; q + 1 < tptr[i+1]; ++q) assert(tcol[q] <= tcol[q+1]);
#ifdef WITNESS
    assert(0);
#endif
}
void h_sort_rows(void) {
    ir_init_globals();
    int n, m, ptr[N+1], col[NNZ], c0[NNZ]; long val[NNZ]; crs_input(&n, &m, ptr, col, val, 0); for (int j = 0; j < NNZ; ++j) c0[j] = col[j];
    k_sort_rows(n, m, (char*)ptr, (char*)col, (char*)val);
    for (int i = 0; i < n; ++i) for (int j = ptr[i]; j + 1 < ptr[i+1]; ++j) assert(col[j] <= col[j+1]);
    int k; IN(k, "k"); __CPROVER_assume(k >= 0 && k < ptr[n]); long t = val[k] - 1000; assert(t >= 0 && t < ptr[n] && c0[t] == col[k]);
    int i; IN(i, "i"); __CPROVER_assume(i >= 0 && i < n && ptr[i] <= k && k < ptr[i+1]); assert(ptr[i] <= t && t < ptr[i+1]);   // entries stay in their row
#ifdef WITNESS
    assert(0);
#endif
}

#ifdef REPLAY
int main(void) { REPLAY_FN(); printf("replay: all harness assertions hold on the real code\n"); return 0; }
#endif
