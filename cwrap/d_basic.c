// differential driver: same inputs through the generated C and through the real (g++) wrapper; output must be identical
#include <stdio.h>
#include <stdlib.h>
void k_sort_row(int *col, long *val, int n); void k_sort_rows(int n, int m, int *ptr, int *col, long *val);
int k_transpose(int n, int m, int *ptr, int *col, long *val, int *tptr, int *tcol, long *tval, int cap);
static unsigned long long S; static int rnd(int n) { S = S * 6364136223846793005ULL + 1442695040888963407ULL; return (int)((S >> 33) % (unsigned)n); }
int main(int argc, char **argv) { S = argc > 1 ? atoll(argv[1]) : 1;
    for (int it = 0; it < 300; ++it) { int n = rnd(6), m = 1 + rnd(6), ptr[8], col[64], tptr[8], tcol[64]; long val[64], tval[64]; ptr[0] = 0; for (int i = 0; i < n; ++i) ptr[i+1] = ptr[i] + rnd(5); int nnz = ptr[n]; for (int j = 0; j < nnz; ++j) { col[j] = rnd(m); val[j] = 100 + j; }
        int r = k_transpose(n, m, ptr, col, val, tptr, tcol, tval, 64); printf("T %d:", r); for (int i = 0; i <= m; ++i) printf(" %d", tptr[i]); for (int j = 0; j < r; ++j) printf(" (%d,%ld)", tcol[j], tval[j]); printf("\n");
        k_sort_rows(n, m, ptr, col, val); printf("S:"); for (int j = 0; j < nnz; ++j) printf(" (%d,%ld)", col[j], val[j]); printf("\n");
        int k = rnd(10); for (int j = 0; j < k; ++j) { col[j] = rnd(7) - 3; val[j] = j; } k_sort_row(col, val, k); printf("R:"); for (int j = 0; j < k; ++j) printf(" (%d,%ld)", col[j], val[j]); printf("\n"); }
    return 0; }
