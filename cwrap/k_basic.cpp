// extern "C" wrappers over raw arrays calling the real amgcl templates (engine C: clang IR -> C -> CBMC)
#include <amgcl/backend/builtin.hpp>
#include <amgcl/detail/sort_row.hpp>
typedef amgcl::backend::crs<long, int, int> M;     // values are integer TAGS: moved, never computed on
extern "C" __attribute__((noinline))
void k_sort_row(int *col, long *val, int n) { amgcl::detail::sort_row(col, val, n); }

static void view(M &A, int n, int m, int *ptr, int *col, long *val) { A.own_data=false; A.nrows=n; A.ncols=m; A.ptr=ptr; A.col=col; A.val=val; A.nnz=ptr[n]; }

extern "C" __attribute__((noinline))
int k_transpose(int n, int m, int *ptr, int *col, long *val, int *tptr, int *tcol, long *tval, int cap) {
    M A; view(A,n,m,ptr,col,val);
    auto T = amgcl::backend::transpose(A);
    if ((int)T->nrows != m || (int)T->ncols != n) return -1;
    for (int i = 0; i <= m; ++i) tptr[i] = T->ptr[i];
    if (T->ptr[m] > cap) return -2;
    for (int j = 0; j < T->ptr[m]; ++j) { tcol[j] = T->col[j]; tval[j] = T->val[j]; }
    return T->ptr[m];
}
extern "C" __attribute__((noinline))
void k_sort_rows(int n, int m, int *ptr, int *col, long *val) { M A; view(A,n,m,ptr,col,val); amgcl::backend::sort_rows(A); }
