// CBMC harnesses over the C generated from the clang IR of the real amgcl binary readers/writers (k_io.cpp, in-memory <fstream> stand-in).
// In REPLAY mode the same harness is linked against the REAL g++ -fsanitize=address,undefined build of the wrapper, which reads a real
// temporary file through the real std::ifstream, with the inputs of the CBMC counterexample.
#include <assert.h>
#ifndef REPLAY
#include GEN
int nondet_int(void);
#define IN(var, ...) var = nondet_int()
#define P(x) ((char*)(x))
#else
#include <stdio.h>
#include <string.h>
#include <stdlib.h>
#include REPLAY_TABLE
#define __CPROVER_assume(c) do { if (!(c)) { printf("replay input violates a harness assumption: %s\n", #c); exit(0); } } while (0)
static int __ir_exc = 0; static void ir_init_globals(void) {}
static long replay_get(const char *name) { for (int i = 0; REPLAY_INPUTS[i].name; ++i) if (!strcmp(REPLAY_INPUTS[i].name, name)) return REPLAY_INPUTS[i].value; return 0; }
static char replay_nm[64];
#define IN(var, ...) (snprintf(replay_nm, sizeof replay_nm, __VA_ARGS__), var = (int)replay_get(replay_nm))
#define P(x) ((void*)(x))
void k_set_file(void*, long); long k_get_file(void*, long); int k_read_crs(int, int, void*, void*, int, void*, void*, int, void*, void*, void*); int k_write_crs(int, void*, void*, void*);
int k_read_dense(int, int, void*, void*, void*, int, void*); int k_write_dense(int, int, void*); int k_read_crs8(int, int, void*, void*, int, void*, void*, int, void*, void*, void*); int k_write_crs8(int, void*, void*, void*);
#endif
#ifndef FCAP
#define FCAP 40          /* bytes of file */
#endif
#define WCAP (FCAP/4+2)  /* 4-byte words that can come out of such a file */
#ifndef N
#define N 2
#endif
#ifndef NNZ
#define NNZ 3
#endif
// an arbitrary file: any length 0..FCAP, any contents (covers every truncation and every corruption of every valid file of that size)
static void any_file(void) { unsigned char f[FCAP]; int len; IN(len, "len"); __CPROVER_assume(len >= 0 && len <= FCAP); for (int i = 0; i < FCAP; ++i) { int b; IN(b, "byte[%d]", i); __CPROVER_assume(b >= 0 && b <= 255); f[i] = (unsigned char)b; } k_set_file(P(f), len); }
// row range argument: the defaults (-1,-1) or an ordered range; an inverted range is a caller error outside the property
static void any_range(int *rb, int *re) { IN(*rb, "row_beg"); IN(*re, "row_end"); __CPROVER_assume(*rb >= -1 && *re >= -1 && *rb <= 64 && *re <= 64); __CPROVER_assume(*re < 0 || *rb <= *re); }

// no damaged file makes read_crs read/write out of bounds (CBMC's pointer checks on every access of the generated C), and whenever
// it returns normally the result is a structurally valid CRS slice
void h_read_crs_robust(void) {
    ir_init_globals(); any_file(); int rb, re; any_range(&rb, &re);
    int n = -7, ptr[WCAP], col[WCAP], val[WCAP], pl = -7, cl = -7, vl = -7;
    int r = k_read_crs(rb, re, P(&n), P(ptr), WCAP, P(col), P(val), WCAP, P(&pl), P(&cl), P(&vl));
    assert(r == 0 || r == 1);                                  // never more data than the file can hold
    if (r == 0) { int b = rb < 0 ? 0 : rb, e = re < 0 ? n : re;
        assert(n >= 0 && b <= e && e <= n); assert(pl == e - b + 1); assert(ptr[0] == 0);
        for (int i = 0; i + 1 < WCAP; ++i) if (i + 1 < pl) assert(ptr[i] <= ptr[i+1]);        // monotone row pointers
        assert(cl == ptr[pl-1] && vl == cl); }                   // arrays sized by the last row pointer
#ifdef WITNESS
    assert(0);
#endif
}
void h_read_dense_robust(void) {
    ir_init_globals(); any_file(); int rb, re; any_range(&rb, &re);
    int n = -7, m = -7, v[WCAP], vl = -7; int r = k_read_dense(rb, re, P(&n), P(&m), P(v), WCAP, P(&vl));
    assert(r == 0 || r == 1);
    if (r == 0) { int b = rb < 0 ? 0 : rb, e = re < 0 ? n : re; assert(n >= 0 && b <= e && e <= n); assert(m >= 0 || e == b); assert((long)vl == (long)(e - b) * m); }
#ifdef WITNESS
    assert(0);
#endif
}
// write (the sequence of examples/mm2bin.cpp) then read returns bitwise the same structure and payload; a row range returns the slice
void h_crs_roundtrip(void) {
    ir_init_globals(); int n; IN(n, "n"); __CPROVER_assume(n >= 0 && n <= N); int ptr[N+1], col[NNZ], val[NNZ]; ptr[0] = 0;
    for (int i = 0; i < N; ++i) { IN(ptr[i+1], "ptr[%d]", i+1); __CPROVER_assume(ptr[i+1] >= ptr[i] && ptr[i+1] <= NNZ); if (i >= n) __CPROVER_assume(ptr[i+1] == ptr[i]); }
    for (int j = 0; j < NNZ; ++j) { IN(col[j], "col[%d]", j); IN(val[j], "val[%d]", j); }
    for (int i = 0; i < N; ++i) for (int j = 0; j + 1 < NNZ; ++j) if (j >= ptr[i] && j + 1 < ptr[i+1]) __CPROVER_assume(col[j] <= col[j+1]);   // rows sorted (the reader sorts rows; sorted input must come back unchanged)
    int w = k_write_crs(n, P(ptr), P(col), P(val)); assert(w == 0);
    int rb, re; IN(rb, "row_beg"); IN(re, "row_end"); __CPROVER_assume((rb == -1 && re == -1) || (rb >= 0 && rb <= re && re <= n));
    int rn = -7, rp[N+2], rc[NNZ+1], rv[NNZ+1], pl = -7, cl = -7, vl = -7;
    int r = k_read_crs(rb, re, P(&rn), P(rp), N+2, P(rc), P(rv), NNZ+1, P(&pl), P(&cl), P(&vl));
    int b = rb < 0 ? 0 : rb, e = re < 0 ? n : re;
    assert(r == 0); assert(rn == n); assert(pl == e - b + 1); assert(cl == ptr[e] - ptr[b] && vl == cl);
    for (int i = 0; i <= N; ++i) if (i < pl) assert(rp[i] == ptr[b+i] - ptr[b]);
    for (int j = 0; j < NNZ; ++j) if (j < cl) { assert(rc[j] == col[ptr[b]+j]); assert(rv[j] == val[ptr[b]+j]); }
#ifdef WITNESS
    assert(0);
#endif
}
void h_crs_roundtrip8(void) {      // 8-byte payload
    ir_init_globals(); int n; IN(n, "n"); __CPROVER_assume(n >= 0 && n <= N); int ptr[N+1], col[NNZ]; long long val[NNZ]; ptr[0] = 0;
    for (int i = 0; i < N; ++i) { IN(ptr[i+1], "ptr[%d]", i+1); __CPROVER_assume(ptr[i+1] >= ptr[i] && ptr[i+1] <= NNZ); if (i >= n) __CPROVER_assume(ptr[i+1] == ptr[i]); }
    for (int j = 0; j < NNZ; ++j) { int lo, hi; IN(col[j], "col[%d]", j); IN(lo, "val_lo[%d]", j); IN(hi, "val_hi[%d]", j); val[j] = ((long long)hi << 32) | (unsigned)lo; }
    for (int i = 0; i < N; ++i) for (int j = 0; j + 1 < NNZ; ++j) if (j >= ptr[i] && j + 1 < ptr[i+1]) __CPROVER_assume(col[j] <= col[j+1]);
    int w = k_write_crs8(n, P(ptr), P(col), P(val)); assert(w == 0);
    int rb, re; IN(rb, "row_beg"); IN(re, "row_end"); __CPROVER_assume((rb == -1 && re == -1) || (rb >= 0 && rb <= re && re <= n));
    int rn = -7, rp[N+2], rc[NNZ+1], pl = -7, cl = -7, vl = -7; long long rv[NNZ+1];
    int r = k_read_crs8(rb, re, P(&rn), P(rp), N+2, P(rc), P(rv), NNZ+1, P(&pl), P(&cl), P(&vl)); int b = rb < 0 ? 0 : rb, e = re < 0 ? n : re;
    assert(r == 0); assert(rn == n); assert(pl == e - b + 1); assert(cl == ptr[e] - ptr[b] && vl == cl);
    for (int i = 0; i <= N; ++i) if (i < pl) assert(rp[i] == ptr[b+i] - ptr[b]);
    for (int j = 0; j < NNZ; ++j) if (j < cl) { assert(rc[j] == col[ptr[b]+j]); assert(rv[j] == val[ptr[b]+j]); }
#ifdef WITNESS
    assert(0);
#endif
}
void h_dense_roundtrip(void) {
    ir_init_globals(); int n, m; IN(n, "n"); IN(m, "m"); __CPROVER_assume(n >= 0 && n <= N && m >= 0 && m <= N); int v[N*N]; for (int i = 0; i < N*N; ++i) IN(v[i], "v[%d]", i);
    int w = k_write_dense(n, m, P(v)); assert(w == 0);
    int rb, re; IN(rb, "row_beg"); IN(re, "row_end"); __CPROVER_assume((rb == -1 && re == -1) || (rb >= 0 && rb <= re && re <= n));
    int rn = -7, rm = -7, rv[N*N+1], vl = -7; int r = k_read_dense(rb, re, P(&rn), P(&rm), P(rv), N*N+1, P(&vl)); int b = rb < 0 ? 0 : rb, e = re < 0 ? n : re;
    assert(r == 0); assert(rn == n && rm == m); assert(vl == (e - b) * m); for (int i = 0; i < N*N; ++i) if (i < vl) assert(rv[i] == v[b*m+i]);
#ifdef WITNESS
    assert(0);
#endif
}
#ifdef REPLAY
int main(void) { REPLAY_FN(); printf("replay: all harness assertions hold on the real code\n"); return 0; }
#endif
