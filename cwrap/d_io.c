// differential driver for the binary I/O wrappers: the same valid and truncated files through the generated C (in-memory stand-in for
// <fstream>) and through the real g++ build (real temporary files, real std::ifstream / std::ofstream); the outputs must be identical.
// Only valid files and truncations of valid files are used here: they are handled without undefined behaviour by the readers.
#include <stdio.h>
#include <stdlib.h>
void k_set_file(const unsigned char *src, long len); long k_get_file(unsigned char *dst, long cap);
int k_read_crs(int rb, int re, int *n, int *ptr, int pcap, int *col, int *val, int zcap, int *plen, int *clen, int *vlen);
int k_write_crs(int n, const int *ptr, const int *col, const int *val);
int k_read_dense(int rb, int re, int *n, int *m, int *v, int vcap, int *vlen); int k_write_dense(int n, int m, const int *v);
static unsigned long long S; static int rnd(int n) { S = S * 6364136223846793005ULL + 1442695040888963407ULL; return (int)((S >> 33) % (unsigned)n); }
int main(int argc, char **argv) { S = argc > 1 ? atoll(argv[1]) : 1;
    for (int it = 0; it < 200; ++it) { int n = rnd(5), ptr[8], col[32], val[32]; ptr[0] = 0; for (int i = 0; i < n; ++i) ptr[i+1] = ptr[i] + rnd(4); int nnz = ptr[n]; for (int i = 0; i < n; ++i) { int c = 0; for (int j = ptr[i]; j < ptr[i+1]; ++j) { c += 1 + rnd(3); col[j] = c; val[j] = 1000 * it + j; } }
        int w = k_write_crs(n, ptr, col, val); unsigned char f[96]; long len = k_get_file(f, 96); printf("W %d len %ld:", w, len); for (long i = 0; i < len && i < 96; ++i) printf(" %02x", f[i]); printf("\n");
        for (int t = 0; t < 4; ++t) { long cut = t == 0 ? len : rnd((int)len + 1); int rb = -1, re = -1; if (t == 1 && n > 0) { rb = rnd(n + 1); re = rb + rnd(n - rb + 1); cut = len; }
            k_set_file(f, cut); int rn = -7, rp[16], rc_[32], rv[32], pl = -7, cl = -7, vl = -7; int r = k_read_crs(rb, re, &rn, rp, 16, rc_, rv, 32, &pl, &cl, &vl);
            printf("R cut %ld rows [%d,%d) -> %d", cut, rb, re, r); if (r == 0) { printf(" n %d ptr", rn); for (int i = 0; i < pl; ++i) printf(" %d", rp[i]); printf(" entries"); for (int j = 0; j < cl; ++j) printf(" (%d,%d)", rc_[j], rv[j]); } printf("\n"); }
        int dn = rnd(4), dm = rnd(4), dv[16]; for (int i = 0; i < dn * dm; ++i) dv[i] = 77 * it + i; w = k_write_dense(dn, dm, dv); len = k_get_file(f, 96);
        for (int t = 0; t < 3; ++t) { long cut = t == 0 ? len : rnd((int)len + 1); int rb = -1, re = -1; if (t == 1 && dn > 0) { rb = rnd(dn + 1); re = rb + rnd(dn - rb + 1); cut = len; } k_set_file(f, cut); int rn = -7, rm = -7, rv[16], vl = -7; int r = k_read_dense(rb, re, &rn, &rm, rv, 16, &vl);
            printf("D w %d cut %ld rows [%d,%d) -> %d", w, cut, rb, re, r); if (r == 0) { printf(" %d x %d:", rn, rm); for (int i = 0; i < vl; ++i) printf(" %d", rv[i]); } printf("\n"); } }
    return 0; }
