// differential driver for the MatrixMarket wrapper: the same token files through the executor (token-level stream stand-ins) and through the
// native g++ build (the tokens written out as a real text file, read by the real libstdc++ streams); the printed lines must be identical.
#include <stdio.h>
#include <stdlib.h>
#include "stub_mm/vtok.h"
int k_mm_read_sparse(long, long, long*, long*, int*, int, int*, int*, int, int*, int*, int*, int*);
static unsigned long long S; static int rnd(int n) { S = S * 6364136223846793005ULL + 1442695040888963407ULL; return (int)((S >> 33) % (unsigned)n); }
int main(int argc, char **argv) { S = argc > 1 ? atoll(argv[1]) : 1;
    for (int it = 0; it < 120; ++it) { int n = rnd(4), m = 1 + rnd(3), nnz = rnd(4), sym = rnd(3) == 0, cm = rnd(4) == 0;
        for (int l = 0; l < VT_LINES; ++l) { vt_comment[l] = 0; vt_ntok[l] = 0; for (int k = 0; k < VT_TOKS; ++k) { vt_tok[l][k] = 0; vt_word[l][k] = 9; } }
        vt_ntok[0] = 5; vt_word[0][0] = 0; vt_word[0][1] = 1; vt_word[0][2] = 2; vt_word[0][3] = 6; vt_word[0][4] = sym ? 8 : 7; if (rnd(12) == 0) vt_word[0][rnd(5)] = 9; if (rnd(15) == 0) vt_ntok[0] = rnd(5);
        int l = 1; if (cm) vt_comment[l++] = 1; if (sym) m = n;
        vt_ntok[l] = 3; vt_tok[l][0] = n; vt_tok[l][1] = m; vt_tok[l][2] = nnz; if (rnd(10) == 0) vt_tok[l][0] = -1 - rnd(2); if (rnd(12) == 0) vt_ntok[l] = rnd(3); ++l;
        for (int e = 0; e < nnz && l < VT_LINES; ++e, ++l) { vt_ntok[l] = 3; vt_tok[l][0] = 1 + rnd(n ? n : 1); vt_tok[l][1] = 1 + rnd(m ? m : 1); vt_tok[l][2] = 100 * it + e; if (rnd(8) == 0) { int kk = rnd(2); vt_tok[l][kk] = rnd(7) - 1; } if (rnd(14) == 0) vt_ntok[l] = rnd(3); }
        vt_nlines = l; if (rnd(6) == 0) vt_nlines = rnd(l + 1);
        for (int t = 0; t < 2; ++t) { long rb = -1, re = -1; if (t == 1) { rb = rnd(n + 2) - 1; re = rnd(n + 2) - 1; }
            long rows = -7, cols = -7; int ptr[24], col[24], val[24], pl = -7, cl = -7, vl = -7, sy = -7; int r = k_mm_read_sparse(rb, re, &rows, &cols, ptr, 24, col, val, 24, &pl, &cl, &vl, &sy);
            printf("M it %d lines %d rows [%ld,%ld) -> %d", it, vt_nlines, rb, re, r); if (r == 0) { printf(" %ld x %ld sym %d ptr", rows, cols, sy); for (int i = 0; i < pl; ++i) printf(" %d", ptr[i]); printf(" entries"); for (int j = 0; j < cl; ++j) printf(" (%d,%d)", col[j], val[j]); } printf("\n"); } }
    return 0; }
