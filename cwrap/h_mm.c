// REPLAY harness for the MatrixMarket reader findings of engine X: the token model of the counterexample is written out as a real text
// file (cwrap/k_mm.cpp, native build) and read by the real mm_reader through the real libstdc++ streams under AddressSanitizer.
#include <assert.h>
#include <stdio.h>
#include <string.h>
#include <stdlib.h>
#include REPLAY_TABLE
#include "stub_mm/vtok.h"
static long replay_get(const char *name, long dflt) { for (int i = 0; REPLAY_INPUTS[i].name; ++i) if (!strcmp(REPLAY_INPUTS[i].name, name)) return REPLAY_INPUTS[i].value; return dflt; }
int k_mm_read_sparse(long, long, long*, long*, int*, int, int*, int*, int, int*, int*, int*, int*);
#define CAP (2 * VT_LINES + 2)
void h_mm_sparse_robust(void) { char nm[64];
    vt_open_fails = 0; vt_nlines = (int)replay_get("nlines", 0);
    for (int l = 0; l < VT_LINES; ++l) { snprintf(nm, sizeof nm, "comment[%d]", l); vt_comment[l] = (int)replay_get(nm, 0); snprintf(nm, sizeof nm, "ntok[%d]", l); vt_ntok[l] = (int)replay_get(nm, 0);
        for (int k = 0; k < VT_TOKS; ++k) { snprintf(nm, sizeof nm, "tok[%d][%d]", l, k); vt_tok[l][k] = replay_get(nm, 0); snprintf(nm, sizeof nm, "word[%d][%d]", l, k); vt_word[l][k] = (int)replay_get(nm, 9); } }
    long rb = replay_get("row_beg", -1), re = replay_get("row_end", -1), rows = -7, cols = -7; int ptr[CAP], col[CAP], val[CAP], pl = -7, cl = -7, vl = -7, sym = -7;
    int r = k_mm_read_sparse(rb, re, &rows, &cols, ptr, CAP, col, val, CAP, &pl, &cl, &vl, &sym);
    assert(r == 0 || r == 1);
    if (r == 0) { assert(rows >= 0 && pl == rows + 1 && ptr[0] == 0 && vl == cl && cl == ptr[pl-1]); for (int i = 0; i + 1 < pl; ++i) assert(ptr[i] <= ptr[i+1]); for (int j = 0; j < cl; ++j) assert(col[j] >= 0 && col[j] < cols); }
}
static void load_tokens(void) { char nm[64]; vt_open_fails = 0; vt_nlines = (int)replay_get("nlines", 0);
    for (int l = 0; l < VT_LINES; ++l) { snprintf(nm, sizeof nm, "comment[%d]", l); vt_comment[l] = (int)replay_get(nm, 0); snprintf(nm, sizeof nm, "ntok[%d]", l); vt_ntok[l] = (int)replay_get(nm, 0);
        for (int k = 0; k < VT_TOKS; ++k) { snprintf(nm, sizeof nm, "tok[%d][%d]", l, k); vt_tok[l][k] = replay_get(nm, 0); snprintf(nm, sizeof nm, "word[%d][%d]", l, k); vt_word[l][k] = (int)replay_get(nm, 9); } } }
// the range read is the slice of the full read (same file)
void h_mm_slice(void) { load_tokens(); long rb = replay_get("row_beg", 0), re = replay_get("row_end", 0);
    long rows = -7, cols = -7, rows2 = -7, cols2 = -7; int p1[CAP], c1[CAP], v1[CAP], p2[CAP], c2[CAP], v2[CAP], pl = -7, cl = -7, vl = -7, pl2 = -7, cl2 = -7, vl2 = -7, sym = -7;
    int r1 = k_mm_read_sparse(-1, -1, &rows, &cols, p1, CAP, c1, v1, CAP, &pl, &cl, &vl, &sym); if (r1 != 0) { printf("full read threw: nothing to compare\n"); return; }
    if (!(0 <= rb && rb <= re && re <= rows)) { printf("row range not valid for this file: nothing to compare\n"); return; }
    int r2 = k_mm_read_sparse(rb, re, &rows2, &cols2, p2, CAP, c2, v2, CAP, &pl2, &cl2, &vl2, &sym);
    assert(r2 == 0); assert(rows2 == re - rb && pl2 == re - rb + 1); assert(cl2 == p1[re] - p1[rb]);
    for (int i = 0; i <= re - rb; ++i) assert(p2[i] == p1[rb + i] - p1[rb]); for (int j = 0; j < cl2; ++j) assert(c2[j] == c1[p1[rb] + j] && v2[j] == v1[p1[rb] + j]);
}
int k_mm_read_dense(long, long, long*, long*, int*, int, int*);
void h_mm_dense_robust(void) { load_tokens(); long rb = replay_get("row_beg", -1), re = replay_get("row_end", -1), rows = -7, cols = -7; int val[64], vl = -7;
    int r = k_mm_read_dense(rb, re, &rows, &cols, val, 64, &vl); assert(r == 0 || r == 1); if (r == 0) { assert(rows >= 0); assert(cols >= 0 || rows == 0); assert((long)vl == rows * cols); } }
int main(void) { REPLAY_FN(); printf("replay: all harness assertions hold on the real code\n"); return 0; }
