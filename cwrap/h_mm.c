// REPLAY harness for the MatrixMarket reader findings of engine X: the token model of the counterexample is written out as a real text
// file (cwrap/k_mm.cpp, native build) and read by the real mm_reader through the real libstdc++ streams under AddressSanitizer.
#include <assert.h>
#include <stdio.h>
#include <string.h>
#include <stdlib.h>
#include REPLAY_TABLE
#include "stub_mm/vtok.h"
static long replay_get(const char *name, long dflt) { for (int i = 0; REPLAY_INPUTS[i].name; ++i) if (!strcmp(REPLAY_INPUTS[i].name, name)) return REPLAY_INPUTS[i].value; return dflt; }
int k_mm_read_sparse(long, long, long*, long*, int*, int, int*, int*, int, int*, int*, int*, int*);
#define CAP (2 * VT_LINES + 2)
void h_mm_sparse_robust(void) { char nm[64];
    vt_open_fails = 0; vt_nlines = (int)replay_get("nlines", 0);
    for (int l = 0; l < VT_LINES; ++l) { snprintf(nm, sizeof nm, "comment[%d]", l); vt_comment[l] = (int)replay_get(nm, 0); snprintf(nm, sizeof nm, "ntok[%d]", l); vt_ntok[l] = (int)replay_get(nm, 0);
        for (int k = 0; k < VT_TOKS; ++k) { snprintf(nm, sizeof nm, "tok[%d][%d]", l, k); vt_tok[l][k] = replay_get(nm, 0); snprintf(nm, sizeof nm, "word[%d][%d]", l, k); vt_word[l][k] = (int)replay_get(nm, 9); } }
    long rb = replay_get("row_beg", -1), re = replay_get("row_end", -1), rows = -7, cols = -7; int ptr[CAP], col[CAP], val[CAP], pl = -7, cl = -7, vl = -7, sym = -7;
    int r = k_mm_read_sparse(rb, re, &rows, &cols, ptr, CAP, col, val, CAP, &pl, &cl, &vl, &sym);
    assert(r == 0 || r == 1);
    if (r == 0) { assert(rows >= 0 && pl == rows + 1 && ptr[0] == 0 && vl == cl && cl == ptr[pl-1]); for (int i = 0; i + 1 < pl; ++i) assert(ptr[i] <= ptr[i+1]); for (int j = 0; j < cl; ++j) assert(col[j] >= 0 && col[j] < cols); }
}
int main(void) { REPLAY_FN(); printf("replay: all harness assertions hold on the real code\n"); return 0; }
