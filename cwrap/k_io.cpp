// extern "C" wrappers around the real amgcl::io binary readers / writers (amgcl/io/binary.hpp).
// The "file" is the byte buffer vfile_data[0 .. vfile_len).  Two builds of this one source:
//   -DVERIF_STUB_IO -Icwrap/stub_io  (the clang-IR build that CBMC analyses): <fstream> is the in-memory stand-in of cwrap/stub_io/fstream
//   otherwise                         (the native differential and replay builds): the buffer is written to a real temporary file and
//                                      the library reads it through the real std::ifstream
// Payload types of this instantiation: SizeT = Ptr = Col = int (4 bytes), Val = int (a 4-byte payload that is moved, never computed on).
#include <vector>
#include <string>
#include <fstream>
#include <cstdio>
#include <cstdlib>
#include <unistd.h>
#include <amgcl/util.hpp>
#include <amgcl/detail/sort_row.hpp>
#include <amgcl/io/binary.hpp>
#define VFILE_CAP 96
extern "C" { unsigned char vfile_data[VFILE_CAP]; long vfile_len = 0; long vfile_cap = VFILE_CAP; }
#ifdef VERIF_STUB_IO
static inline std::string file_for_reading() { return std::string("m"); }
static inline std::string file_for_writing() { return std::string("m"); }
static inline void after_writing(const std::string &) {}
#else
static std::string tmpname() { char b[64]; snprintf(b, sizeof b, "/tmp/verif_io_%d.bin", (int)getpid()); return b; }
static inline std::string file_for_reading() { std::string n = tmpname(); FILE *f = fopen(n.c_str(), "wb"); if (f) { if (vfile_len > 0) fwrite(vfile_data, 1, (size_t)vfile_len, f); fclose(f); } return n; }
static inline std::string file_for_writing() { return tmpname(); }
static inline void after_writing(const std::string &n) { FILE *f = fopen(n.c_str(), "rb"); vfile_len = 0; if (f) { vfile_len = (long)fread(vfile_data, 1, VFILE_CAP, f); fclose(f); } remove(n.c_str()); }
#endif

// the harness / driver side of the in-memory file
extern "C" __attribute__((noinline)) void k_set_file(const unsigned char *src, long len) { if (len < 0) len = 0; if (len > VFILE_CAP) len = VFILE_CAP; for (long i = 0; i < len; ++i) vfile_data[i] = src[i]; vfile_len = len; }
extern "C" __attribute__((noinline)) long k_get_file(unsigned char *dst, long cap) { long n = vfile_len < cap ? vfile_len : cap; for (long i = 0; i < n; ++i) dst[i] = vfile_data[i]; return vfile_len; }

// read_crs(file, n, ptr, col, val, row_beg, row_end).  returns 0: returned normally (outputs copied), 1: the reader threw, 2: outputs exceed the harness capacities
extern "C" __attribute__((noinline))
int k_read_crs(int row_beg, int row_end, int *n_out, int *ptr_out, int ptr_cap, int *col_out, int *val_out, int nz_cap, int *ptr_len, int *col_len, int *val_len) {
    std::string name = file_for_reading(); int rc = 0;
    try { int n = 0; std::vector<int> ptr, col, val; amgcl::io::read_crs(name, n, ptr, col, val, row_beg, row_end);
        *n_out = n; *ptr_len = (int)ptr.size(); *col_len = (int)col.size(); *val_len = (int)val.size();
        if ((long)ptr.size() > ptr_cap || (long)col.size() > nz_cap || (long)val.size() > nz_cap) rc = 2;
        else { for (size_t i = 0; i < ptr.size(); ++i) ptr_out[i] = ptr[i]; for (size_t i = 0; i < col.size(); ++i) col_out[i] = col[i]; for (size_t i = 0; i < val.size(); ++i) val_out[i] = val[i]; } }
    catch (...) { rc = 1; }
#ifndef VERIF_STUB_IO
    remove(name.c_str());
#endif
    return rc;
}
// the writer sequence of examples/mm2bin.cpp: rows, ptr, col, val.  returns 0 ok, 1 on failure
extern "C" __attribute__((noinline))
int k_write_crs(int n, const int *ptr, const int *col, const int *val) {
    std::string name = file_for_writing(); int rc = 0;
    try { std::vector<int> p(ptr, ptr + n + 1), c(col, col + ptr[n]), v(val, val + ptr[n]); std::ofstream f(name.c_str(), std::ios::binary);
        if (!amgcl::io::write(f, n) || !amgcl::io::write(f, p)) rc = 1; if (!rc && ptr[n] > 0 && (!amgcl::io::write(f, c) || !amgcl::io::write(f, v))) rc = 1; }
    catch (...) { rc = 1; }
    after_writing(name); return rc;
}
// read_dense(file, n, m, v, row_beg, row_end) and crs_size / dense_size
extern "C" __attribute__((noinline))
int k_read_dense(int row_beg, int row_end, int *n_out, int *m_out, int *v_out, int v_cap, int *v_len) {
    std::string name = file_for_reading(); int rc = 0;
    try { int n = 0, m = 0; std::vector<int> v; amgcl::io::read_dense(name, n, m, v, row_beg, row_end); *n_out = n; *m_out = m; *v_len = (int)v.size();
        if ((long)v.size() > v_cap) rc = 2; else for (size_t i = 0; i < v.size(); ++i) v_out[i] = v[i]; }
    catch (...) { rc = 1; }
#ifndef VERIF_STUB_IO
    remove(name.c_str());
#endif
    return rc;
}
extern "C" __attribute__((noinline))
int k_write_dense(int n, int m, const int *v) {
    std::string name = file_for_writing(); int rc = 0;
    try { std::vector<int> vv(v, v + (long)n * m); std::ofstream f(name.c_str(), std::ios::binary); if (!amgcl::io::write(f, n) || !amgcl::io::write(f, m)) rc = 1; if (!rc && n * m > 0 && !amgcl::io::write(f, vv)) rc = 1; }
    catch (...) { rc = 1; }
    after_writing(name); return rc;
}

// the same reader / writer sequence with an 8-byte payload (sizeof(Val) != sizeof(Col)): offsets into the value block are scaled differently from the column block
extern "C" __attribute__((noinline))
int k_read_crs8(int row_beg, int row_end, int *n_out, int *ptr_out, int ptr_cap, int *col_out, long long *val_out, int nz_cap, int *ptr_len, int *col_len, int *val_len) {
    std::string name = file_for_reading(); int rc = 0;
    try { int n = 0; std::vector<int> ptr, col; std::vector<long long> val; amgcl::io::read_crs(name, n, ptr, col, val, row_beg, row_end);
        *n_out = n; *ptr_len = (int)ptr.size(); *col_len = (int)col.size(); *val_len = (int)val.size();
        if ((long)ptr.size() > ptr_cap || (long)col.size() > nz_cap || (long)val.size() > nz_cap) rc = 2;
        else { for (size_t i = 0; i < ptr.size(); ++i) ptr_out[i] = ptr[i]; for (size_t i = 0; i < col.size(); ++i) col_out[i] = col[i]; for (size_t i = 0; i < val.size(); ++i) val_out[i] = val[i]; } }
    catch (...) { rc = 1; }
#ifndef VERIF_STUB_IO
    remove(name.c_str());
#endif
    return rc;
}
extern "C" __attribute__((noinline))
int k_write_crs8(int n, const int *ptr, const int *col, const long long *val) {
    std::string name = file_for_writing(); int rc = 0;
    try { std::vector<int> p(ptr, ptr + n + 1), c(col, col + ptr[n]); std::vector<long long> v(val, val + ptr[n]); std::ofstream f(name.c_str(), std::ios::binary);
        if (!amgcl::io::write(f, n) || !amgcl::io::write(f, p)) rc = 1; if (!rc && ptr[n] > 0 && (!amgcl::io::write(f, c) || !amgcl::io::write(f, v))) rc = 1; }
    catch (...) { rc = 1; }
    after_writing(name); return rc;
}
