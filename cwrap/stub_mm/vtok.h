// token-level model of a text file for the MatrixMarket reader (cwrap/stub_mm): the file is a sequence of lines, a line is either a
// comment ('%...') or a sequence of tokens; numeric tokens are arbitrary 64-bit integers, the tokens of the banner line are chosen
// from the words the reader knows plus one unknown word.  All arrays are set by the symbolic harness (every entry symbolic).
#pragma once
#define VT_LINES 8
#define VT_TOKS 6
#ifdef __cplusplus
extern "C" {
#endif
extern int  vt_open_fails;               // the file cannot be opened
extern int  vt_nlines;                   // number of lines before end of file (0..VT_LINES)
extern int  vt_comment[VT_LINES];        // line is a comment line
extern int  vt_ntok[VT_LINES];           // number of tokens on the line (0..VT_TOKS)
extern long vt_tok[VT_LINES][VT_TOKS];   // numeric value of a token
extern int  vt_word[VT_LINES][VT_TOKS];  // word of a token when it is read as a string (index into vt_words)
#ifdef __cplusplus
}
#endif
