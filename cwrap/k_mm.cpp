// extern "C" wrapper around the real amgcl::io::mm_reader (amgcl/io/mm.hpp).  Two builds of this one source:
//   -DVERIF_STUB_MM -Icwrap/stub_mm -std=c++20  (the clang-IR build the executor analyses): <istream>/<sstream>/<fstream> are the TOKEN-level
//        stand-ins of cwrap/stub_mm (a file is a sequence of lines of tokens, see vtok.h); C++20 so that std::string is instantiated in this unit
//   otherwise (native differential and replay builds): the token model is written out as a real text file and read through the real libstdc++ streams
#include <vector>
#include <string>
#include <tuple>
#include <algorithm>   // amgcl/io/mm.hpp uses std::rotate and relies on a transitive include
#include <numeric>
#include <cstdio>
#include <unistd.h>
#ifdef VERIF_STUB_MM
#include <amgcl/io/mm.hpp>
extern "C" { int vt_open_fails = 0; int vt_nlines = 0; int vt_comment[VT_LINES]; int vt_ntok[VT_LINES]; long vt_tok[VT_LINES][VT_TOKS]; int vt_word[VT_LINES][VT_TOKS]; }
namespace std { ostream cout, cerr, clog; istream cin; }
static inline std::string mm_file() { return std::string("m"); }
static inline void mm_done(const std::string &) {}
#else
#include "stub_mm/vtok.h"
#include <amgcl/io/mm.hpp>
extern "C" { int vt_open_fails = 0; int vt_nlines = 0; int vt_comment[VT_LINES]; int vt_ntok[VT_LINES]; long vt_tok[VT_LINES][VT_TOKS]; int vt_word[VT_LINES][VT_TOKS]; }
static const char *const vt_words[] = { "%%MatrixMarket", "matrix", "coordinate", "array", "real", "complex", "integer", "general", "symmetric", "pattern" };
static inline std::string mm_file() { char b[64]; snprintf(b, sizeof b, "/tmp/verif_mm_%d.mtx", (int)getpid()); if (vt_open_fails) { remove(b); return b; }
    FILE *f = fopen(b, "w"); for (int l = 0; l < vt_nlines && l < VT_LINES; ++l) { if (vt_comment[l]) { fprintf(f, "%%\n"); continue; }
        for (int k = 0; k < vt_ntok[l] && k < VT_TOKS; ++k) { if (k) fputc(' ', f); if (l == 0 && k < 5) { int w = vt_word[l][k]; fputs(vt_words[(w < 0 || w > 9) ? 9 : w], f); } else fprintf(f, "%ld", vt_tok[l][k]); } fputc('\n', f); }
    fclose(f); return b; }
static inline void mm_done(const std::string &n) { remove(n.c_str()); }
#endif
// sparse reader, integer payload.  returns 0 ok (outputs copied), 1 threw, 2 outputs exceed the harness capacities
extern "C" __attribute__((noinline))
int k_mm_read_sparse(long row_beg, long row_end, long *rows_out, long *cols_out, int *ptr_out, int ptr_cap, int *col_out, int *val_out, int nz_cap, int *ptr_len, int *col_len, int *val_len, int *symmetric) {
    int rc = 0;
    std::string name = mm_file();
    try { amgcl::io::mm_reader rd(name); *symmetric = rd.is_symmetric(); std::vector<int> ptr, col, val; size_t n, m; std::tie(n, m) = rd(ptr, col, val, row_beg, row_end);
        *rows_out = (long)n; *cols_out = (long)m; *ptr_len = (int)ptr.size(); *col_len = (int)col.size(); *val_len = (int)val.size();
        if ((long)ptr.size() > ptr_cap || (long)col.size() > nz_cap || (long)val.size() > nz_cap) rc = 2;
        else { for (size_t i = 0; i < ptr.size(); ++i) ptr_out[i] = ptr[i]; for (size_t i = 0; i < col.size(); ++i) col_out[i] = col[i]; for (size_t i = 0; i < val.size(); ++i) val_out[i] = val[i]; } }
    catch (...) { rc = 1; }
    mm_done(name); return rc;
}

// dense reader, integer payload.  returns 0 ok, 1 threw, 2 outputs exceed the harness capacity
extern "C" __attribute__((noinline))
int k_mm_read_dense(long row_beg, long row_end, long *rows_out, long *cols_out, int *val_out, int val_cap, int *val_len) {
    std::string name = mm_file(); int rc = 0;
    try { amgcl::io::mm_reader rd(name); std::vector<int> val; size_t n, m; std::tie(n, m) = rd(val, row_beg, row_end);
        *rows_out = (long)n; *cols_out = (long)m; *val_len = (int)val.size();
        if ((long)val.size() > val_cap) rc = 2; else for (size_t i = 0; i < val.size(); ++i) val_out[i] = val[i]; }
    catch (...) { rc = 1; }
    mm_done(name); return rc;
}
