#include "nd.hpp"
#include <amgcl/backend/builtin.hpp>
#include <amgcl/solver/skyline_lu.hpp>
#include <amgcl/adapter/crs_tuple.hpp>
#include <fstream>
using symx::sym;
int main(int argc, char**argv){
  int n=atoi(argv[1]); int bw=atoi(argv[2]);
  std::vector<int> ptr{0}, col; std::vector<sym> val;
  for(int i=0;i<n;++i){ for(int j=0;j<n;++j){ if (abs(i-j)<=bw){ col.push_back(j); val.push_back(sym::var("a"+std::to_string(i)+std::to_string(j))); } } ptr.push_back(col.size()); }
  amgcl::backend::crs<sym,int,int> A(std::tie(n,ptr,col,val));
  amgcl::solver::skyline_lu<sym> S(A);
  std::vector<sym> f(n), x(n);
  for(int i=0;i<n;++i){ f[i]= sym::var("f"+std::to_string(i)); x[i]=sym(0);}
  S(f,x);
  symx::ND nd; std::vector<uint32_t> roots; std::vector<std::string> props;
  for(int i=0;i<n;++i){ sym ax=0; for(int j=ptr[i];j<ptr[i+1];++j) ax += val[j]*x[col[j]];
    auto L=nd.get(ax.id), R=nd.get(f[i].id); uint32_t LD=symx::ND::prod(L.d), RD=symx::ND::prod(R.d);
    sym P1=sym::mk(L.n)*sym::mk(RD), P2=sym::mk(R.n)*sym::mk(LD); roots.push_back(P1.id); roots.push_back(P2.id); roots.push_back(LD);
    props.push_back("(and (not (= t"+std::to_string(LD)+" 0.0)) (not (= t"+std::to_string(P1.id)+" t"+std::to_string(P2.id)+")))"); }
  std::cerr<<" terms="<<symx::ctx().t.size()<<" forks="<<symx::ctx().nforks<<" sqrts="<<nd.sqrts.size()<<"\n";
  std::ofstream o("q4.smt2");
  symx::emit_defs(o, roots);
  o<<"(assert (or"; for(auto&p:props) o<<" "<<p; o<<"))\n(check-sat)\n";
}
