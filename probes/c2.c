#include <assert.h>
int nondet_int(void); double nondet_double(void); unsigned char nondet_uc(void);
void spmv(int n,const int*ptr,const int*col,const double*val,double alpha,const double*x,double beta,double*y){
  if(beta!=0.0){ for(int i=0;i<n;++i){ double s=0; for(int j=ptr[i];j<ptr[i+1];++j) s+=val[j]*x[col[j]]; y[i]=alpha*s+beta*y[i]; } }
  else { for(int i=0;i<n;++i){ double s=0; for(int j=ptr[i];j<ptr[i+1];++j) s+=val[j]*x[col[j]]; y[i]=alpha*s; } } }
static double pick(void){ unsigned char k=nondet_uc(); switch(k&7){case 0:return 0.0;case 1:return -0.0;case 2:return 1.0;case 3:return -1.0;case 4:return 0.5;case 5:return 1.0/0.0;case 6:return -1.0/0.0;default:return 0.0/0.0;} }
#define N 2
#define NNZ 2
void h_spmv(void){ int n=nondet_int(); __CPROVER_assume(n>=0&&n<=N); int ptr[N+1]; int col[NNZ]; double val[NNZ],x[N],y1[N],y2[N];
  ptr[0]=0; for(int i=0;i<N;++i){ ptr[i+1]=nondet_int(); __CPROVER_assume(ptr[i+1]>=ptr[i]&&ptr[i+1]<=NNZ); }
  for(int j=0;j<NNZ;++j){ col[j]=nondet_int(); __CPROVER_assume(col[j]>=0&&col[j]<n); val[j]=pick(); }
  for(int i=0;i<N;++i){ x[i]=pick(); y1[i]=nondet_double(); y2[i]=nondet_double(); }
  double a=pick(); spmv(n,ptr,col,val,a,x,0.0,y1); spmv(n,ptr,col,val,a,x,0.0,y2);
  for(int i=0;i<n;++i) assert(*(long long*)&y1[i]==*(long long*)&y2[i]);
#ifdef WITNESS
  assert(0);
#endif
}
