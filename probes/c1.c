#include <assert.h>
#include <stdlib.h>
int nondet_int(void); double nondet_double(void);
// mirrors amgcl::detail::sort_row<int,double>
void sort_row(int *col, double *val, int n){ for(int j=1;j<n;++j){ int c=col[j]; double v=val[j]; int i=j-1; while(i>=0 && col[i]>c){ col[i+1]=col[i]; val[i+1]=val[i]; i--; } col[i+1]=c; val[i+1]=v; } }
void spmv(int n,const int*ptr,const int*col,const double*val,double alpha,const double*x,double beta,double*y){
  if(beta!=0.0){ for(int i=0;i<n;++i){ double s=0; for(int j=ptr[i];j<ptr[i+1];++j) s+=val[j]*x[col[j]]; y[i]=alpha*s+beta*y[i]; } }
  else { for(int i=0;i<n;++i){ double s=0; for(int j=ptr[i];j<ptr[i+1];++j) s+=val[j]*x[col[j]]; y[i]=alpha*s; } } }
#define N 3
#define NNZ 5
void h_sort(void){ int n=nondet_int(); __CPROVER_assume(n>=0&&n<=NNZ); int col[NNZ]; double val[NNZ]; int c0[NNZ]; 
  for(int i=0;i<NNZ;++i){ col[i]=nondet_int(); c0[i]=col[i]; val[i]=(double)(col[i]&7); }
  sort_row(col,val,n);
  for(int i=0;i+1<n;++i) assert(col[i]<=col[i+1]);
  for(int i=0;i<n;++i) assert(val[i]==(double)(col[i]&7));
  int k=nondet_int(); __CPROVER_assume(k>=0&&k<n); int cnt0=0,cnt1=0; for(int i=0;i<n;++i){ cnt0+=(c0[i]==c0[k]); cnt1+=(col[i]==c0[k]); } assert(cnt0==cnt1);
}
void h_spmv(void){ int n=nondet_int(); __CPROVER_assume(n>=0&&n<=N); int ptr[N+1]; int col[NNZ]; double val[NNZ],x[N],y1[N],y2[N];
  ptr[0]=0; for(int i=0;i<N;++i){ ptr[i+1]=nondet_int(); __CPROVER_assume(ptr[i+1]>=ptr[i]&&ptr[i+1]<=NNZ); }
  for(int j=0;j<NNZ;++j){ col[j]=nondet_int(); __CPROVER_assume(col[j]>=0&&col[j]<n); val[j]=nondet_double(); }
  for(int i=0;i<N;++i){ x[i]=nondet_double(); y1[i]=nondet_double(); y2[i]=nondet_double(); }
  double a=nondet_double(); spmv(n,ptr,col,val,a,x,0.0,y1); spmv(n,ptr,col,val,a,x,0.0,y2);
  for(int i=0;i<n;++i) assert(*(long long*)&y1[i]==*(long long*)&y2[i]); }
