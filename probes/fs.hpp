// PROTOTYPE 2: symbolic scalar with factored-sum normal form (probe only)
#pragma once
#include <gmpxx.h>
#include <cstdint>
#include <cmath>
#include <vector>
#include <map>
#include <set>
#include <string>
#include <sstream>
#include <iostream>
#include <fstream>
#include <limits>
#include <tuple>
#include <algorithm>
#include <stdexcept>
#include <type_traits>
#include <random>
#include <functional>

namespace symx {
typedef uint32_t id_t;
typedef std::vector<std::pair<id_t,int>> MonoV;          // (atom, exp>0) sorted by atom
typedef std::vector<std::pair<id_t,mpq_class>> PolyV;    // (mono, coeff!=0) sorted by mono

struct Atom { enum K {VAR, SUM, SQRT, ABS} k; id_t arg; std::string name; bool nonneg; };

struct Ctx {
    std::vector<Atom> atoms; std::map<std::pair<int,id_t>,id_t> atom_hc; std::map<std::string,id_t> var_hc;
    std::vector<MonoV> monos; std::map<MonoV,id_t> mono_hc;
    std::vector<PolyV> polys; std::map<std::vector<std::pair<id_t,std::string>>,id_t> poly_hc;
    struct Val { id_t n, d; }; std::vector<Val> vals; std::map<std::pair<id_t,id_t>,id_t> val_hc;
    size_t expand_limit = 400;
    id_t mono1, poly0, poly1;
    Ctx(){ mono1 = mono(MonoV{}); poly0 = poly(PolyV{}); poly1 = poly(PolyV{{mono1,mpq_class(1)}}); }
    id_t mono(const MonoV &m){ auto it=mono_hc.find(m); if(it!=mono_hc.end()) return it->second; monos.push_back(m); return mono_hc[m]=monos.size()-1; }
    id_t poly(const PolyV &p){ std::vector<std::pair<id_t,std::string>> key; for(auto &t:p) key.push_back({t.first,t.second.get_str()});
        auto it=poly_hc.find(key); if(it!=poly_hc.end()) return it->second; polys.push_back(p); return poly_hc[key]=polys.size()-1; }
    id_t val(id_t n,id_t d){ auto k=std::make_pair(n,d); auto it=val_hc.find(k); if(it!=val_hc.end()) return it->second; vals.push_back({n,d}); return val_hc[k]=vals.size()-1; }
    id_t var(const std::string&n){ auto it=var_hc.find(n); if(it!=var_hc.end()) return it->second; atoms.push_back({Atom::VAR,0,n,false}); return var_hc[n]=atoms.size()-1; }
    id_t atom(Atom::K k,id_t arg,bool nn){ auto key=std::make_pair((int)k,arg); auto it=atom_hc.find(key); if(it!=atom_hc.end()){ if(nn) atoms[it->second].nonneg=true; return it->second;} atoms.push_back({k,arg,"",nn}); return atom_hc[key]=atoms.size()-1; }
    // ---- poly helpers
    bool is_const(id_t p, mpq_class &c) const { const PolyV&v=polys[p]; if(v.empty()){c=0;return true;} if(v.size()==1&&v[0].first==mono1){c=v[0].second;return true;} return false; }
    id_t pconst(const mpq_class&c){ if(c==0) return poly0; return poly(PolyV{{mono1,c}}); }
    id_t padd(id_t a,id_t b,int sgn=1){ const PolyV&x=polys[a],&y=polys[b]; PolyV r; size_t i=0,j=0;
        while(i<x.size()||j<y.size()){ if(j==y.size()||(i<x.size()&&x[i].first<y[j].first)) r.push_back(x[i++]);
            else if(i==x.size()||y[j].first<x[i].first){ r.push_back({y[j].first, sgn>0? y[j].second : mpq_class(-y[j].second)}); j++; }
            else { mpq_class c = x[i].second; if(sgn>0) c+=y[j].second; else c-=y[j].second; if(c!=0) r.push_back({x[i].first,c}); i++; j++; } }
        return poly(r); }
    id_t pscale(id_t a,const mpq_class&c){ if(c==0) return poly0; PolyV r=polys[a]; for(auto&t:r) t.second*=c; return poly(r); }
    // mono*mono with sqrt folding: returns mono and list of radicand polys to multiply in
    id_t mmul(id_t a,id_t b,std::vector<id_t>*rad){ const MonoV&x=monos[a],&y=monos[b]; MonoV r; size_t i=0,j=0;
        while(i<x.size()||j<y.size()){ std::pair<id_t,int> t; if(j==y.size()||(i<x.size()&&x[i].first<y[j].first)) t=x[i++]; else if(i==x.size()||y[j].first<x[i].first) t=y[j++]; else { t={x[i].first,x[i].second+y[j].second}; i++; j++; }
            if(atoms[t.first].k==Atom::SQRT && t.second>=2 && rad){ for(int k=0;k<t.second/2;++k) rad->push_back(atoms[t.first].arg); t.second%=2; }
            if(t.second) r.push_back(t); }
        return mono(r); }
    id_t pmul_mono(id_t p,id_t m,const mpq_class&c){ if(m==mono1) return pscale(p,c); const PolyV x=polys[p]; id_t acc=poly0;
        std::map<id_t,mpq_class> simple;
        for(auto&t:x){ std::vector<id_t> rad; id_t mm=mmul(t.first,m,&rad); mpq_class cc=t.second*c;
            if(rad.empty()){ simple[mm]+=cc; } else { id_t q=poly(PolyV{{mm,cc}}); for(id_t r:rad) q=pmul(q,r); acc=padd(acc,q); } }
        PolyV r; for(auto&kv:simple) if(kv.second!=0) r.push_back(kv); return padd(acc,poly(r)); }
    id_t sumatom_mono(id_t p){ // monomial consisting of atom for poly p (p multi-term)
        bool nn = poly_nonneg(p); id_t a=atom(Atom::SUM,p,nn); return mono(MonoV{{a,1}}); }
    id_t pmul(id_t a,id_t b){ const PolyV x=polys[a], y=polys[b]; if(x.empty()||y.empty()) return poly0;
        if(x.size()==1) return pmul_mono(b,x[0].first,x[0].second); if(y.size()==1) return pmul_mono(a,y[0].first,y[0].second);
        if(x.size()*y.size()<=expand_limit){ id_t acc=poly0; const PolyV xx=x; for(auto&t:xx) acc=padd(acc,pmul_mono(b,t.first,t.second)); return acc; }
        id_t m=mmul(sumatom_mono(a),sumatom_mono(b),nullptr); return poly(PolyV{{m,mpq_class(1)}}); }
    bool mono_nonneg(id_t m){ for(auto&t:monos[m]) if((t.second&1) && !atoms[t.first].nonneg) return false; return true; }
    bool poly_nonneg(id_t p){ for(auto&t:polys[p]) if(t.second<0||!mono_nonneg(t.first)) return false; return true; }
    // monomial gcd of all monomials of poly with d; divide out
    void reduce(id_t &n,id_t &d){ if(d==mono1) return; const PolyV&x=polys[n]; if(x.empty()){ d=mono1; return; }
        MonoV g=monos[d]; for(auto&t:x){ const MonoV&m=monos[t.first]; MonoV ng; size_t i=0,j=0; while(i<g.size()&&j<m.size()){ if(g[i].first<m[j].first) i++; else if(m[j].first<g[i].first) j++; else { ng.push_back({g[i].first,std::min(g[i].second,m[j].second)}); i++; j++; } } g=ng; if(g.empty()) return; }
        auto divm=[&](const MonoV&m){ MonoV r; size_t j=0; for(auto&t:m){ while(j<g.size()&&g[j].first<t.first) j++; int e=t.second; if(j<g.size()&&g[j].first==t.first) e-=g[j].second; if(e) r.push_back({t.first,e}); } return mono(r); };
        PolyV r; for(auto&t:x) r.push_back({divm(monos[t.first]),t.second}); std::sort(r.begin(),r.end(),[](auto&a,auto&b){return a.first<b.first;}); n=poly(r); d=divm(monos[d]); }
    id_t mkval(id_t n,id_t d){ // fold sqrt^2 in den
        std::vector<id_t> rad; id_t d2=mmul(d,mono1,&rad);
        for(id_t r:rad){ const PolyV&pr=polys[r]; if(pr.size()==1){ d2=mmul(d2,pr[0].first,nullptr); n=pscale(n,mpq_class(1)/pr[0].second);} else d2=mmul(d2,sumatom_mono(r),nullptr); }
        reduce(n,d2); return val(n,d2); }
    id_t mlcm(id_t a,id_t b,id_t&fa,id_t&fb){ const MonoV&x=monos[a],&y=monos[b]; MonoV l,ra,rb; size_t i=0,j=0;
        while(i<x.size()||j<y.size()){ if(j==y.size()||(i<x.size()&&x[i].first<y[j].first)){ l.push_back(x[i]); rb.push_back(x[i]); i++; }
            else if(i==x.size()||y[j].first<x[i].first){ l.push_back(y[j]); ra.push_back(y[j]); j++; }
            else { int e=std::max(x[i].second,y[j].second); l.push_back({x[i].first,e}); if(e>x[i].second) ra.push_back({x[i].first,e-x[i].second}); if(e>y[j].second) rb.push_back({x[i].first,e-y[j].second}); i++; j++; } }
        fa=mono(ra); fb=mono(rb); return mono(l); }
    id_t vadd(id_t a,id_t b,int sgn){ Val x=vals[a],y=vals[b]; id_t fa,fb; id_t L=mlcm(x.d,y.d,fa,fb); id_t n=padd(pmul_mono(x.n,fa,1),pmul_mono(y.n,fb,1),sgn); return mkval(n,L); }
    id_t vmul(id_t a,id_t b){ Val x=vals[a],y=vals[b]; return mkval(pmul(x.n,y.n), mmul(x.d,y.d,nullptr)); }
    bool div0=false; bool havoc_div=false; int nhavoc=0; std::vector<std::tuple<id_t,id_t,id_t>> havocs;
    id_t vdiv(id_t a,id_t b){ mpq_class ca,cb; if(havoc_div && !(vis_const(b,cb))) { id_t h=vvar("h"+std::to_string(nhavoc++)); havocs.push_back(std::make_tuple(h,a,b)); return h; }
 Val x=vals[a],y=vals[b]; const PolyV&yn=polys[y.n]; if(yn.empty()){ div0=true; throw std::runtime_error("symx: division by constant zero"); }
        id_t n=pmul_mono(x.n,y.d,1); id_t d=x.d;
        if(yn.size()==1){ d=mmul(d,yn[0].first,nullptr); n=pscale(n,mpq_class(1)/yn[0].second); } else d=mmul(d,sumatom_mono(y.n),nullptr);
        return mkval(n,d); }
    id_t vconst(const mpq_class&c){ return val(pconst(c),mono1); }
    id_t vvar(const std::string&n){ id_t a=var(n); return val(poly(PolyV{{mono(MonoV{{a,1}}),mpq_class(1)}}),mono1); }
    bool vis_const(id_t v,mpq_class&c){ return vals[v].d==mono1 && is_const(vals[v].n,c); }
    id_t vsqrt(id_t a){ Val x=vals[a]; mpq_class c; if(vis_const(a,c)&&(c==0||c==1)) return a;
        // sqrt(n/d) = sqrt(n*d)/d  (d>0 assumed when nonneg(d));
        id_t nd = pmul_mono(x.n,x.d,1);
        // perfect-square const?
        id_t at=atom(Atom::SQRT,nd,true); id_t n=poly(PolyV{{mono(MonoV{{at,1}}),mpq_class(1)}});
        if(!mono_nonneg(x.d)) { id_t ab=atom(Atom::ABS, poly(PolyV{{x.d,mpq_class(1)}}), true); return mkval(n, mono(MonoV{{ab,1}})); }
        return mkval(n,x.d); }
    id_t vabs(id_t a){ Val x=vals[a]; mpq_class c; if(vis_const(a,c)) return vconst(::abs(c));
        if(poly_nonneg(x.n)&&mono_nonneg(x.d)) return a;
        PolyV neg=polys[x.n]; for(auto&t:neg) t.second=-t.second; if(poly_nonneg(poly(neg))&&mono_nonneg(x.d)) return val(poly(neg),x.d);
        id_t full = x.d==mono1 ? x.n : pmul_mono(x.n,x.d,1); // |n/d| = |n*d|/d^2
        id_t at=atom(Atom::ABS,full,true); id_t n=poly(PolyV{{mono(MonoV{{at,1}}),mpq_class(1)}});
        if(x.d==mono1) return val(n,mono1); return mkval(n, mmul(x.d,x.d,nullptr)); }
    // ---- witness evaluation (double)
    std::map<id_t,double> wit;
    double ev_atom(id_t a){ auto it=wit.find(a); if(it!=wit.end()) return it->second; const Atom&x=atoms[a]; double r;
        switch(x.k){ case Atom::VAR: r=0.5+(double)(std::hash<std::string>()(x.name)%1000)/1000.0; break; case Atom::SUM: r=ev_poly(x.arg); break; case Atom::SQRT: r=std::sqrt(ev_poly(x.arg)); break; default: r=std::fabs(ev_poly(x.arg)); }
        return wit[a]=r; }
    double ev_mono(id_t m){ double r=1; for(auto&t:monos[m]) r*=std::pow(ev_atom(t.first),t.second); return r; }
    double ev_poly(id_t p){ double r=0; for(auto&t:polys[p]) r+=t.second.get_d()*ev_mono(t.first); return r; }
    double ev(id_t v){ return ev_poly(vals[v].n)/ev_mono(vals[v].d); }
    // ---- path state
    std::vector<bool> prefix; size_t pos=0; std::vector<std::vector<bool>> work; size_t nforks=0;
    struct Cond { int cmp; id_t a,b; bool truth; }; std::vector<Cond> pc;
    // ---- SMT emission
    std::string q(const mpq_class&k){ mpq_class a=::abs(k); std::string s = a.get_den()==1 ? a.get_num().get_str()+".0" : "(/ "+a.get_num().get_str()+".0 "+a.get_den().get_str()+".0)"; return k<0? "(- "+s+")":s; }
    struct Emit { std::set<id_t> atoms_done; std::vector<id_t> order; };
    void need_poly(id_t p,Emit&e){ for(auto&t:polys[p]) for(auto&f:monos[t.first]) need_atom(f.first,e); }
    void need_atom(id_t a,Emit&e){ if(e.atoms_done.count(a)) return; e.atoms_done.insert(a); if(atoms[a].k!=Atom::VAR) need_poly(atoms[a].arg,e); e.order.push_back(a); }
    std::string smt_mono(id_t m){ const MonoV&v=monos[m]; if(v.empty()) return "1.0"; std::string s; int cnt=0; for(auto&t:v) for(int k=0;k<t.second;++k){ s+=" a"+std::to_string(t.first); cnt++; } return cnt==1? s.substr(1) : "(*"+s+")"; }
    std::string smt_poly(id_t p){ const PolyV&v=polys[p]; if(v.empty()) return "0.0"; std::string s; for(auto&t:v){ std::string m = t.first==mono1 ? q(t.second) : (t.second==1 ? smt_mono(t.first) : "(* "+q(t.second)+" "+smt_mono(t.first)+")"); s+=" "+m; } return v.size()==1? s.substr(1) : "(+"+s+")"; }
    void emit_defs(std::ostream&o,Emit&e){ for(id_t a:e.order){ const Atom&x=atoms[a]; std::string A="a"+std::to_string(a);
        switch(x.k){ case Atom::VAR: o<<"(declare-fun "<<A<<" () Real) ; "<<x.name<<"\n"; break;
            case Atom::SUM: o<<"(define-fun "<<A<<" () Real "<<smt_poly(x.arg)<<")\n"; break;
            case Atom::SQRT: o<<"(declare-fun "<<A<<" () Real)\n(assert (and (>= "<<A<<" 0.0) (= (* "<<A<<" "<<A<<") "<<smt_poly(x.arg)<<")))\n"; break;
            case Atom::ABS: o<<"(define-fun "<<A<<" () Real (let ((z "<<smt_poly(x.arg)<<")) (ite (>= z 0.0) z (- z))))\n"; break; } } }
    // relation between two vals as SMT (cross-multiplied); cmp: 0 EQ,1 LT,2 LE
    std::string smt_rel(int cmp,id_t a,id_t b,Emit&e){ Val x=vals[a],y=vals[b]; need_poly(x.n,e); need_poly(y.n,e); need_poly(poly(PolyV{{x.d,mpq_class(1)}}),e); need_poly(poly(PolyV{{y.d,mpq_class(1)}}),e);
        const char*op= cmp==0?"=":cmp==1?"<":"<="; std::string xn=smt_poly(x.n), yn=smt_poly(y.n), xd=smt_mono(x.d), yd=smt_mono(y.d);
        if(x.d==mono1&&y.d==mono1) return std::string("(")+op+" "+xn+" "+yn+")";
        if(cmp==0) return "(= (* "+xn+" "+yd+") (* "+yn+" "+xd+"))";
        return std::string("(")+op+" (* "+xn+" "+xd+" "+yd+" "+yd+") (* "+yn+" "+yd+" "+xd+" "+xd+"))"; }
    std::string smt_den_nz(id_t a,Emit&e){ Val x=vals[a]; if(x.d==mono1) return "true"; need_poly(poly(PolyV{{x.d,mpq_class(1)}}),e); return "(not (= "+smt_mono(x.d)+" 0.0))"; }
};
inline Ctx& ctx(){ static Ctx c; return c; }

enum Cmp { EQ=0, LT=1, LE=2 };
struct symbool { int cmp; id_t a,b; bool neg; operator bool() const; symbool operator!() const { symbool r=*this; r.neg=!r.neg; return r; } };
struct sym { id_t id; sym()=default;
    template<class T,class=typename std::enable_if<std::is_arithmetic<T>::value>::type> sym(T v){ mpq_class k; if(std::is_integral<T>::value) k=(long)v; else k=mpq_class((double)v); id=ctx().vconst(k); }
    template<class T,class=typename std::enable_if<std::is_arithmetic<T>::value>::type> explicit operator T() const { mpq_class c; if(!ctx().vis_const(id,c)) throw std::runtime_error("symx: symbolic value converted to number"); return (T)c.get_d(); }
    static sym mk(id_t i){ sym s; s.id=i; return s; } static sym var(const std::string&n){ return mk(ctx().vvar(n)); } };
inline sym operator+(sym a,sym b){return sym::mk(ctx().vadd(a.id,b.id,1));} inline sym operator-(sym a,sym b){return sym::mk(ctx().vadd(a.id,b.id,-1));}
inline sym operator*(sym a,sym b){return sym::mk(ctx().vmul(a.id,b.id));} inline sym operator/(sym a,sym b){return sym::mk(ctx().vdiv(a.id,b.id));}
inline sym operator-(sym a){return sym(0)-a;} inline sym operator+(sym a){return a;}
inline sym& operator+=(sym&a,sym b){a=a+b;return a;} inline sym& operator-=(sym&a,sym b){a=a-b;return a;} inline sym& operator*=(sym&a,sym b){a=a*b;return a;} inline sym& operator/=(sym&a,sym b){a=a/b;return a;}
#define SYMX_MIX(op) \
 template<class T,class=typename std::enable_if<std::is_arithmetic<T>::value>::type> inline sym operator op(sym a,T b){return a op sym(b);} \
 template<class T,class=typename std::enable_if<std::is_arithmetic<T>::value>::type> inline sym operator op(T a,sym b){return sym(a) op b;}
SYMX_MIX(+) SYMX_MIX(-) SYMX_MIX(*) SYMX_MIX(/)
#define SYMX_CMP(op,C,swap,ng) \
 inline symbool operator op(sym a,sym b){ return symbool{C, swap?b.id:a.id, swap?a.id:b.id, ng}; } \
 template<class T,class=typename std::enable_if<std::is_arithmetic<T>::value>::type> inline symbool operator op(sym a,T b){return a op sym(b);} \
 template<class T,class=typename std::enable_if<std::is_arithmetic<T>::value>::type> inline symbool operator op(T a,sym b){return sym(a) op b;}
SYMX_CMP(==,EQ,false,false) SYMX_CMP(!=,EQ,false,true) SYMX_CMP(<,LT,false,false) SYMX_CMP(>,LT,true,false) SYMX_CMP(<=,LE,false,false) SYMX_CMP(>=,LE,true,false)
inline sym abs(sym a){return sym::mk(ctx().vabs(a.id));} inline sym fabs(sym a){return abs(a);} inline sym sqrt(sym a){return sym::mk(ctx().vsqrt(a.id));}
inline sym real(sym a){return a;} inline sym imag(sym){return sym(0);} inline sym conj(sym a){return a;}
inline bool isnan(sym){return false;} inline bool isinf(sym){return false;}
inline std::ostream& operator<<(std::ostream&o,sym a){return o<<"<v"<<a.id<<">";}
inline std::istream& operator>>(std::istream&i,sym&a){double d;i>>d;a=sym(d);return i;}
inline symbool::operator bool() const { Ctx&c=ctx(); mpq_class x,y;
    if(a==b) return (cmp==LT) ? neg : !neg;
    if(c.vis_const(a,x)&&c.vis_const(b,y)){ bool r= cmp==EQ? x==y : cmp==LT? x<y : x<=y; return r^neg; }
    bool d; if(c.pos<c.prefix.size()) d=c.prefix[c.pos]; else { double u=c.ev(a),v=c.ev(b); bool at= cmp==EQ? u==v : cmp==LT? u<v : u<=v; d=at^neg; c.prefix.push_back(d); auto alt=c.prefix; alt.back()=!d; c.work.push_back(alt); c.nforks++; }
    c.pos++; c.pc.push_back({cmp,a,b,(bool)(d^neg)}); return d; }
} // namespace symx
namespace std {
inline symx::sym real(symx::sym a){return a;} inline symx::sym imag(symx::sym){return symx::sym(0);} inline symx::sym conj(symx::sym a){return a;}
inline symx::sym abs(symx::sym a){return symx::abs(a);} inline symx::sym fabs(symx::sym a){return symx::abs(a);} inline symx::sym sqrt(symx::sym a){return symx::sqrt(a);}
template<> struct numeric_limits<symx::sym> { static constexpr bool is_specialized=true; static symx::sym epsilon(){return symx::sym(0);} static symx::sym min(){return symx::sym(0);} static symx::sym max(){return symx::sym(1e300);} static symx::sym lowest(){return symx::sym(-1e300);} static constexpr bool is_integer=false,is_signed=true,is_exact=true; };
template<> class uniform_real_distribution<symx::sym> { std::uniform_real_distribution<double> d; public: uniform_real_distribution(double a,double b):d(a,b){} template<class G> symx::sym operator()(G&g){return symx::sym(std::round(d(g)*64)/64);} };
}
