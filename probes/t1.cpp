#include "symx.hpp"
#include <amgcl/backend/builtin.hpp>
#include <amgcl/make_solver.hpp>
#include <amgcl/amg.hpp>
#include <amgcl/coarsening/smoothed_aggregation.hpp>
#include <amgcl/coarsening/aggregation.hpp>
#include <amgcl/relaxation/spai0.hpp>
#include <amgcl/relaxation/damped_jacobi.hpp>
#include <amgcl/solver/cg.hpp>
#include <amgcl/adapter/crs_tuple.hpp>
using symx::sym;
typedef amgcl::backend::builtin<sym> B;
int main(){
  int n=4;
  std::vector<int> ptr{0}, col; std::vector<sym> val;
  for(int i=0;i<n;++i){ for(int j=0;j<n;++j){ if (abs(i-j)<=1){ col.push_back(j); val.push_back(sym::var("a"+std::to_string(i)+std::to_string(j))); } } ptr.push_back(col.size()); }
  typedef amgcl::make_solver<amgcl::amg<B, amgcl::coarsening::aggregation, amgcl::relaxation::damped_jacobi>, amgcl::solver::cg<B>> S;
  S::params prm; prm.precond.coarse_enough=2; prm.solver.maxiter=2; prm.solver.tol=0; prm.solver.abstol=0;
  S s(std::tie(n,ptr,col,val), prm);
  amgcl::backend::numa_vector<sym> f(n), x(n);
  for(int i=0;i<n;++i){ f[i]=sym::var("f"+std::to_string(i)); x[i]=sym(0);}
  size_t it; sym res; std::tie(it,res)=s(f,x);
  std::cout<<it<<" "<<res<<" terms="<<symx::ctx().t.size()<<" forks="<<symx::ctx().nforks<<"\n";
  for(auto &p: symx::ctx().pc) std::cout<<p.substr(0,150)<<"\n";
}
