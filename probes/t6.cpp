// L-mode: concrete matrix, symbolic rhs: AMG apply linearity + fixed-point ; M-mode ILU0
#include "fs.hpp"
#include <amgcl/backend/builtin.hpp>
#include <amgcl/amg.hpp>
#include <amgcl/coarsening/smoothed_aggregation.hpp>
#include <amgcl/coarsening/ruge_stuben.hpp>
#include <amgcl/relaxation/gauss_seidel.hpp>
#include <amgcl/relaxation/ilu0.hpp>
#include <amgcl/relaxation/spai0.hpp>
#include <amgcl/adapter/crs_tuple.hpp>
using symx::sym;
typedef amgcl::backend::builtin<sym> B;
int main(int argc, char**argv){
  int m=atoi(argv[1]); int n=m*m; 
  std::vector<int> ptr{0}, col; std::vector<sym> val;
  for(int i=0;i<m;++i) for(int j=0;j<m;++j){ int k=i*m+j; 
     if(i>0){col.push_back(k-m); val.push_back(-1.0-0.125*(k%3));}
     if(j>0){col.push_back(k-1); val.push_back(-1.0-0.25*(k%2));}
     col.push_back(k); val.push_back(5.0+0.5*(k%4));
     if(j<m-1){col.push_back(k+1); val.push_back(-1.0-0.25*((k+1)%2));}
     if(i<m-1){col.push_back(k+m); val.push_back(-1.0-0.125*((k+m)%3));}
     ptr.push_back(col.size()); }
  typedef amgcl::amg<B, amgcl::coarsening::smoothed_aggregation, amgcl::relaxation::gauss_seidel> P;
  P::params prm; prm.coarse_enough=3; prm.npre=2; prm.ncycle=2;
  P p(std::tie(n,ptr,col,val), prm);
  std::cout<<p<<std::endl;
  amgcl::backend::numa_vector<sym> f(n), g(n), fg(n), x(n), y(n), z(n);
  sym a=sym(3)/sym(7), b=sym(-5)/sym(3);
  for(int i=0;i<n;++i){ f[i]=sym::var("f"+std::to_string(i)); g[i]=sym::var("g"+std::to_string(i)); fg[i]=a*f[i]+b*g[i]; }
  p.apply(f,x); p.apply(g,y); p.apply(fg,z);
  auto &c=symx::ctx(); int same=0;
  for(int i=0;i<n;++i){ sym e=a*x[i]+b*y[i]; same += (e.id==z[i].id); }
  std::cerr<<"n="<<n<<" atoms="<<c.atoms.size()<<" monos="<<c.monos.size()<<" polys="<<c.polys.size()<<" vals="<<c.vals.size()<<" forks="<<c.nforks<<" canonical-equal="<<same<<"/"<<n<<"\n";
  symx::Ctx::Emit e; std::vector<std::string> props;
  for(int i=0;i<n;++i){ sym ee=a*x[i]+b*y[i]; props.push_back("(not "+c.smt_rel(0,ee.id,z[i].id,e)+")"); }
  std::ofstream o("q6.smt2"); o<<"(set-logic QF_LRA)\n"; c.emit_defs(o,e); o<<"(assert (or"; for(auto&s:props) o<<" "<<s; o<<"))\n(check-sat)\n";
}
