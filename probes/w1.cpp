#include <amgcl/backend/builtin.hpp>
typedef amgcl::backend::crs<double,int,int> M;
extern "C" __attribute__((noinline))
void k_sort_row(int *col, double *val, int n){ amgcl::detail::sort_row(col,val,n); }

extern "C" __attribute__((noinline))
int k_transpose(int n, int m, int *ptr, int *col, double *val, int *tptr, int *tcol, double *tval){
  M A; A.own_data=false; A.nrows=n; A.ncols=m; A.ptr=ptr; A.col=col; A.val=val; A.nnz=ptr[n];
  auto T = amgcl::backend::transpose(A);
  for(int i=0;i<=m;++i) tptr[i]=T->ptr[i];
  for(int j=0;j<T->ptr[m];++j){ tcol[j]=T->col[j]; tval[j]=T->val[j]; }
  return (int)T->nrows;
}
extern "C" __attribute__((noinline))
void k_spmv(int n, int *ptr, int *col, double *val, double a, const double *x, double b, double *y){
  M A; A.own_data=false; A.nrows=n; A.ncols=n; A.ptr=ptr; A.col=col; A.val=val; A.nnz=ptr[n];
  auto X = amgcl::make_iterator_range(x, x+n);
  auto Y = amgcl::make_iterator_range(y, y+n);
  amgcl::backend::spmv(a, A, X, b, Y);
}
