#include "fs.hpp"
#include <amgcl/backend/builtin.hpp>
#include <amgcl/amg.hpp>
#include <amgcl/coarsening/ruge_stuben.hpp>
#include <amgcl/relaxation/spai0.hpp>
#include <amgcl/adapter/crs_tuple.hpp>
using symx::sym;
typedef amgcl::backend::builtin<sym> B;
int main(){
  int n=getenv("N")?atoi(getenv("N")):5; std::vector<int> ptr{0}, col; std::vector<sym> val;
  for(int i=0;i<n;++i){ for(int j=0;j<n;++j){ if (abs(i-j)<=1){ col.push_back(j); val.push_back(getenv("SYMA") ? sym::var("a"+std::to_string(i)+std::to_string(j)) : (i==j? sym(2.5+0.25*i) : sym(-1.0-0.125*j))); } } ptr.push_back(col.size()); }
  typedef amgcl::amg<B, amgcl::coarsening::ruge_stuben, amgcl::relaxation::spai0> P;
  P::params prm; prm.coarse_enough=2;
  try { P p(std::tie(n,ptr,col,val), prm); std::cout<<p<<std::endl; } catch(std::exception&e){ std::cout<<"exc "<<e.what()<<"\n"; }
  auto&c=symx::ctx(); std::cerr<<"atoms="<<c.atoms.size()<<" polys="<<c.polys.size()<<" forks="<<c.nforks<<"\n";
}
