// division-free emission v2: term -> numerator id + sorted multiset of denominator atom ids
#pragma once
#include "symx.hpp"
#include <algorithm>
namespace symx {
typedef std::vector<uint32_t> MS; // sorted multiset of atom ids
struct Frac { uint32_t n; MS d; };
struct ND { std::map<uint32_t,Frac> memo; std::vector<std::pair<uint32_t,uint32_t>> sqrts; int nsq=0;
  static uint32_t M(uint32_t a,uint32_t b){ return binop(MUL,sym::mk(a),sym::mk(b)).id; }
  static uint32_t prod(const MS&m){ uint32_t r=ctx().cst(1); for(auto a:m) r=M(r,a); return r; }
  static MS msdiff(const MS&a,const MS&b){ MS r; std::set_difference(a.begin(),a.end(),b.begin(),b.end(),std::back_inserter(r)); return r; } // a \ b
  static MS msunion(const MS&a,const MS&b){ MS r; std::set_union(a.begin(),a.end(),b.begin(),b.end(),std::back_inserter(r)); return r; } // lcm
  static MS mssum(const MS&a,const MS&b){ MS r; std::merge(a.begin(),a.end(),b.begin(),b.end(),std::back_inserter(r)); return r; }
  // nonneg syntactic analysis
  std::map<uint32_t,bool> nn;
  bool nonneg(uint32_t i){ auto it=nn.find(i); if(it!=nn.end()) return it->second; Ctx&c=ctx(); const Term x=c.t[i]; bool r=false;
    switch(x.op){ case CONST: r = x.k>=0; break; case MUL: r = (x.a==x.b) || (nonneg(x.a)&&nonneg(x.b)); break; case ADD: r = nonneg(x.a)&&nonneg(x.b); break; case DIV: r=nonneg(x.a)&&nonneg(x.b); break; case SQRT: case ABS: r=true; break; default: r=false; }
    nn[i]=r; return r; }
  Frac get(uint32_t i){ auto it=memo.find(i); if(it!=memo.end()) return it->second; Ctx&c=ctx(); Term x=c.t[i]; Frac r;
    switch(x.op){
      case CONST: case VAR: r={i,{}}; break;
      case ADD: case SUB: { Frac A=get(x.a), B=get(x.b); MS L=msunion(A.d,B.d); uint32_t na=M(A.n,prod(msdiff(L,A.d))), nb=M(B.n,prod(msdiff(L,B.d))); r={binop(x.op,sym::mk(na),sym::mk(nb)).id, L}; break; }
      case MUL: { Frac A=get(x.a), B=get(x.b); r={M(A.n,B.n), mssum(A.d,B.d)}; break; }
      case DIV: { Frac A=get(x.a), B=get(x.b); // (An/Ad)/(Bn/Bd) = An*Bd/(Ad*Bn): Bn becomes an atom
                  MS num_atoms=B.d; MS den=A.d; den.insert(std::upper_bound(den.begin(),den.end(),B.n),B.n);
                  // cancel common atoms between num_atoms and den
                  MS common; std::set_intersection(num_atoms.begin(),num_atoms.end(),den.begin(),den.end(),std::back_inserter(common));
                  r={M(A.n,prod(msdiff(num_atoms,common))), msdiff(den,common)}; break; }
      case ABS: if(nonneg(x.a)) { r=get(x.a); break; } /* fallthrough to opaque */
      case SQRT: { uint32_t v=c.var((x.op==SQRT?"sq":"ab")+std::to_string(nsq++)); sqrts.push_back({v,i}); r={v,{}}; break; }
      default: r={i,{}};
    }
    memo[i]=r; return r; }
};
}
