#include "fs.hpp"
#include <amgcl/backend/builtin.hpp>
#include <amgcl/make_solver.hpp>
#include <amgcl/amg.hpp>
#include <amgcl/coarsening/runtime.hpp>
#include <amgcl/relaxation/runtime.hpp>
#include <amgcl/solver/runtime.hpp>
#include <amgcl/preconditioner/runtime.hpp>
#include <amgcl/adapter/crs_tuple.hpp>
using symx::sym;
typedef amgcl::backend::builtin<sym> B;
int main(int argc,char**argv){
  int n=5; std::vector<int> ptr{0}, col; std::vector<sym> val;
  for(int i=0;i<n;++i){ for(int j=0;j<n;++j){ if (abs(i-j)<=1){ col.push_back(j); val.push_back(i==j? sym(2.5+0.25*i) : sym(-1.0)); } } ptr.push_back(col.size()); }
  typedef amgcl::make_solver<amgcl::runtime::preconditioner<B>, amgcl::runtime::solver::wrapper<B>> S;
  boost::property_tree::ptree prm;
  prm.put("precond.class","amg"); prm.put("precond.coarsening.type", argv[1]); prm.put("precond.relax.type", argv[2]); prm.put("solver.type", argv[3]); prm.put("solver.maxiter", 2); prm.put("precond.coarse_enough",2);
  S s(std::tie(n,ptr,col,val), prm);
  amgcl::backend::numa_vector<sym> f(n), x(n);
  for(int i=0;i<n;++i){ f[i]=sym::var("f"+std::to_string(i)); x[i]=sym(0);}
  size_t it; sym res; std::tie(it,res)=s(f,x);
  auto&c=symx::ctx(); std::cerr<<argv[1]<<" "<<argv[2]<<" "<<argv[3]<<" it="<<it<<" atoms="<<c.atoms.size()<<" polys="<<c.polys.size()<<" forks="<<c.nforks<<"\n";
}
