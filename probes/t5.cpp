#include "fs.hpp"
#include <amgcl/backend/builtin.hpp>
#include <amgcl/make_solver.hpp>
#include <amgcl/amg.hpp>
#include <amgcl/coarsening/aggregation.hpp>
#include <amgcl/relaxation/damped_jacobi.hpp>
#include <amgcl/solver/cg.hpp>
#include <amgcl/adapter/crs_tuple.hpp>
using symx::sym;
typedef amgcl::backend::builtin<sym> B;
int main(int argc, char**argv){
  int n=atoi(argv[1]); int maxiter=atoi(argv[2]); int mode=atoi(argv[3]); int fmode=atoi(argv[4]); sym T = sym::var("T");
  std::vector<int> ptr{0}, col; std::vector<sym> val;
  for(int i=0;i<n;++i){ for(int j=0;j<n;++j){ if (abs(i-j)<=1){ col.push_back(j); val.push_back(mode==0 ? sym::var("a"+std::to_string(i)+std::to_string(j)) : mode==1 ? sym(i==j? 2.0+0.25*i : -1.0+0.125*std::min(i,j)) : (i==j? sym(2.0+0.25*i)+T : sym(-1.0+0.125*std::min(i,j)))); } } ptr.push_back(col.size()); }
  typedef amgcl::make_solver<amgcl::amg<B, amgcl::coarsening::aggregation, amgcl::relaxation::damped_jacobi>, amgcl::solver::cg<B>> S;
  S::params prm; prm.precond.coarse_enough=2; prm.solver.maxiter=maxiter; prm.solver.tol=0; prm.solver.abstol=0;
  S s(std::tie(n,ptr,col,val), prm);
  symx::ctx().havoc_div = argc>5;
  amgcl::backend::numa_vector<sym> f(n), x(n);
  for(int i=0;i<n;++i){ f[i]= fmode==0 ? sym::var("f"+std::to_string(i)) : sym(1.0+0.5*i); x[i]=sym(0);}
  size_t it; sym res; std::tie(it,res)=s(f,x);
  sym ff=0, rr=0;
  for(int i=0;i<n;++i){ sym ax=0; for(int j=ptr[i];j<ptr[i+1];++j) ax += val[j]*x[col[j]]; sym r=f[i]-ax; rr+=r*r; ff+=f[i]*f[i]; }
  sym lhs = res*res*ff;
  auto &c=symx::ctx();
  std::cerr<<it<<" atoms="<<c.atoms.size()<<" monos="<<c.monos.size()<<" polys="<<c.polys.size()<<" vals="<<c.vals.size()<<" forks="<<c.nforks<<" lhs==rr? "<<(lhs.id==rr.id)<<"\n";
  symx::Ctx::Emit e; std::vector<std::string> as;
  for(auto&p:c.pc){ std::string r=c.smt_rel(p.cmp,p.a,p.b,e); as.push_back(p.truth? r : "(not "+r+")"); as.push_back(c.smt_den_nz(p.a,e)); as.push_back(c.smt_den_nz(p.b,e)); }
  std::string prop=c.smt_rel(0,lhs.id,rr.id,e); as.push_back(c.smt_den_nz(lhs.id,e)); as.push_back(c.smt_den_nz(rr.id,e));
  std::ofstream o("q5.smt2"); c.emit_defs(o,e); for(auto&a:as) o<<"(assert "<<a<<")\n"; o<<"(assert (not "<<prop<<"))\n(check-sat)\n";
}
