// PROTOTYPE symbolic scalar (feasibility probe only)
#pragma once
#include <gmpxx.h>
#include <cstdint>
#include <cmath>
#include <vector>
#include <map>
#include <string>
#include <sstream>
#include <iostream>
#include <limits>
#include <tuple>
#include <stdexcept>
#include <type_traits>
#include <random>

namespace symx {

enum Op : uint8_t { CONST, VAR, ADD, SUB, MUL, DIV, NEG, SQRT, ABS, ITE };
enum Cmp : uint8_t { EQ, NE, LT, LE };

struct Term { Op op; uint32_t a, b, c; mpq_class k; std::string name; };

struct Ctx {
    std::vector<Term> t;
    std::map<std::tuple<int,uint32_t,uint32_t,uint32_t>, uint32_t> hc;
    std::map<std::string, uint32_t> consts;
    // path state
    std::vector<bool> prefix; size_t pos = 0;
    std::vector<std::vector<bool>> work;
    std::vector<uint32_t> pcroots; std::vector<std::string> pc; // path condition in SMT text
    size_t nforks = 0;
    std::map<std::string,double> wit; std::vector<double> wv; std::vector<char> wk;
    double ev(uint32_t i){ if(wk.size()<t.size()){wk.resize(t.size(),0);wv.resize(t.size(),0);} if(wk[i]) return wv[i];
        const Term&x=t[i]; double r=0; switch(x.op){case CONST:r=x.k.get_d();break;case VAR:{ auto it=wit.find(x.name); if(it==wit.end()){ r = 0.5+ (double)((std::hash<std::string>()(x.name)%1000))/1000.0; wit[x.name]=r;} else r=it->second; break;}
        case ADD:r=ev(x.a)+ev(x.b);break;case SUB:r=ev(x.a)-ev(x.b);break;case MUL:r=ev(x.a)*ev(x.b);break;case DIV:r=ev(x.a)/ev(x.b);break;case NEG:r=-ev(x.a);break;case SQRT:r=std::sqrt(ev(x.a));break;case ABS:r=std::fabs(ev(x.a));break;default:;}
        wk[i]=1;wv[i]=r;return r;}
    uint32_t mk(Op op, uint32_t a=0, uint32_t b=0, uint32_t c=0) {
        auto key = std::make_tuple((int)op,a,b,c);
        auto it = hc.find(key); if (it!=hc.end()) return it->second;
        t.push_back(Term{op,a,b,c,0,""}); return hc[key] = t.size()-1;
    }
    uint32_t cst(const mpq_class &k) {
        std::string s = k.get_str();
        auto it = consts.find(s); if (it!=consts.end()) return it->second;
        t.push_back(Term{CONST,0,0,0,k,""}); return consts[s]=t.size()-1;
    }
    uint32_t var(const std::string &n) { t.push_back(Term{VAR,0,0,0,0,n}); return t.size()-1; }
    bool isc(uint32_t i) const { return t[i].op==CONST; }
    std::string smt(uint32_t i) const {
        const Term &x = t[i];
        switch(x.op) {
            case CONST: { std::ostringstream o; mpq_class k=x.k; bool neg = k<0; if(neg) k=-k;
                          std::string s = "(/ "+k.get_num().get_str()+".0 "+k.get_den().get_str()+".0)";
                          return neg ? "(- "+s+")" : s; }
            case VAR: return x.name;
            case ADD: return "(+ "+smt(x.a)+" "+smt(x.b)+")";
            case SUB: return "(- "+smt(x.a)+" "+smt(x.b)+")";
            case MUL: return "(* "+smt(x.a)+" "+smt(x.b)+")";
            case DIV: return "(/ "+smt(x.a)+" "+smt(x.b)+")";
            case NEG: return "(- "+smt(x.a)+")";
            case ABS: return "(let ((z "+smt(x.a)+")) (ite (>= z 0.0) z (- z)))";
            case SQRT: return "(sqrt_"+std::to_string(i)+")";
            default: return "?";
        }
    }
};
struct Ctx; Ctx& ctx();
// emit SMT-LIB for a set of root terms: define-funs in id order (ids are topologically ordered)
inline void emit_defs(std::ostream &o, const std::vector<uint32_t> &roots) {
    Ctx &c = ctx(); std::vector<char> need(c.t.size(),0); std::vector<uint32_t> st(roots.begin(),roots.end());
    while(!st.empty()){ uint32_t i=st.back(); st.pop_back(); if(need[i]) continue; need[i]=1; const Term&x=c.t[i];
        if(x.op>=ADD){ st.push_back(x.a); if(x.op!=NEG&&x.op!=SQRT&&x.op!=ABS) st.push_back(x.b);} }
    for(uint32_t i=0;i<c.t.size();++i){ if(!need[i]) continue; const Term&x=c.t[i]; auto T=[&](uint32_t j){return "t"+std::to_string(j);};
        switch(x.op){
        case CONST:{ mpq_class k=x.k; bool ng=k<0; if(ng)k=-k; std::string s="(/ "+k.get_num().get_str()+".0 "+k.get_den().get_str()+".0)"; o<<"(define-fun "<<T(i)<<" () Real "<<(ng?"(- "+s+")":s)<<")\n"; break;}
        case VAR: o<<"(declare-fun "<<x.name<<" () Real)\n(define-fun "<<T(i)<<" () Real "<<x.name<<")\n"; break;
        case ADD: o<<"(define-fun "<<T(i)<<" () Real (+ "<<T(x.a)<<" "<<T(x.b)<<"))\n"; break;
        case SUB: o<<"(define-fun "<<T(i)<<" () Real (- "<<T(x.a)<<" "<<T(x.b)<<"))\n"; break;
        case MUL: o<<"(define-fun "<<T(i)<<" () Real (* "<<T(x.a)<<" "<<T(x.b)<<"))\n"; break;
        case DIV: o<<"(define-fun "<<T(i)<<" () Real (/ "<<T(x.a)<<" "<<T(x.b)<<"))\n(assert (not (= "<<T(x.b)<<" 0.0)))\n"; break;
        case ABS: o<<"(define-fun "<<T(i)<<" () Real (ite (>= "<<T(x.a)<<" 0.0) "<<T(x.a)<<" (- "<<T(x.a)<<")))\n"; break;
        case SQRT: o<<"(declare-fun "<<T(i)<<" () Real)\n(assert (and (>= "<<T(i)<<" 0.0) (= (* "<<T(i)<<" "<<T(i)<<") "<<T(x.a)<<")))\n"; break;
        default:; }
    }
}
inline void dump_slp(std::ostream &o){ Ctx&c=ctx(); static const char*nm[]={"CONST","VAR","ADD","SUB","MUL","DIV","NEG","SQRT","ABS","ITE"};
  for(uint32_t i=0;i<c.t.size();++i){ const Term&x=c.t[i]; o<<i<<" "<<nm[x.op]<<" "; if(x.op==CONST) o<<x.k.get_str(); else if(x.op==VAR) o<<x.name; else o<<x.a<<" "<<x.b; o<<"\n"; } }
inline Ctx& ctx() { static Ctx c; return c; }

struct sym;
struct symbool {
    Cmp cmp; uint32_t a, b; bool neg=false;
    operator bool() const;
    symbool operator!() const { symbool r=*this; r.neg=!r.neg; return r; }
};

struct sym {
    uint32_t id;
    sym() = default;
    template <class T, class = typename std::enable_if<std::is_arithmetic<T>::value>::type>
    sym(T v) { mpq_class k; if (std::is_integral<T>::value) k = (long)v; else k = mpq_class((double)v); id = ctx().cst(k); }
    static sym mk(uint32_t i) { sym s; s.id=i; return s; }
    static sym var(const std::string &n) { return mk(ctx().var(n)); }
};

inline sym binop(Op op, sym x, sym y) {
    Ctx &c = ctx();
    if (c.isc(x.id) && c.isc(y.id)) {
        const mpq_class &a=c.t[x.id].k, &b=c.t[y.id].k;
        switch(op){case ADD: return sym::mk(c.cst(a+b)); case SUB: return sym::mk(c.cst(a-b));
            case MUL: return sym::mk(c.cst(a*b)); case DIV: if (b!=0) return sym::mk(c.cst(a/b)); break; default:;}
    }
    if (op==ADD) { if (c.isc(x.id)&&c.t[x.id].k==0) return y; if (c.isc(y.id)&&c.t[y.id].k==0) return x; }
    if (op==SUB) { if (c.isc(y.id)&&c.t[y.id].k==0) return x; }
    if (op==MUL) { if (c.isc(x.id)&&c.t[x.id].k==1) return y; if (c.isc(y.id)&&c.t[y.id].k==1) return x;
                   if (c.isc(x.id)&&c.t[x.id].k==0) return x; if (c.isc(y.id)&&c.t[y.id].k==0) return y; }
    if (op==DIV) { if (c.isc(y.id)&&c.t[y.id].k==1) return x; }
    if (op==MUL && x.id==y.id && c.t[x.id].op==SQRT) return sym::mk(c.t[x.id].a);
    return sym::mk(c.mk(op,x.id,y.id));
}
inline sym operator+(sym a, sym b){return binop(ADD,a,b);} inline sym operator-(sym a, sym b){return binop(SUB,a,b);}
inline sym operator*(sym a, sym b){return binop(MUL,a,b);} inline sym operator/(sym a, sym b){return binop(DIV,a,b);}
inline sym operator-(sym a){ return sym(0)-a; }
inline sym operator+(sym a){ return a; }
inline sym& operator+=(sym &a, sym b){a=a+b;return a;} inline sym& operator-=(sym &a, sym b){a=a-b;return a;}
inline sym& operator*=(sym &a, sym b){a=a*b;return a;} inline sym& operator/=(sym &a, sym b){a=a/b;return a;}
#define SYMX_MIX(op) \
 template<class T, class = typename std::enable_if<std::is_arithmetic<T>::value>::type> inline sym operator op(sym a, T b){return a op sym(b);} \
 template<class T, class = typename std::enable_if<std::is_arithmetic<T>::value>::type> inline sym operator op(T a, sym b){return sym(a) op b;}
SYMX_MIX(+) SYMX_MIX(-) SYMX_MIX(*) SYMX_MIX(/)
#define SYMX_CMP(op, C, swap, ng) \
 inline symbool operator op(sym a, sym b){ symbool r{C, swap? b.id : a.id, swap? a.id : b.id, ng}; return r;} \
 template<class T, class = typename std::enable_if<std::is_arithmetic<T>::value>::type> inline symbool operator op(sym a, T b){return a op sym(b);} \
 template<class T, class = typename std::enable_if<std::is_arithmetic<T>::value>::type> inline symbool operator op(T a, sym b){return sym(a) op b;}
SYMX_CMP(==, EQ, false, false) SYMX_CMP(!=, EQ, false, true)
SYMX_CMP(<, LT, false, false) SYMX_CMP(>, LT, true, false)
SYMX_CMP(<=, LE, false, false) SYMX_CMP(>=, LE, true, false)

inline bool nonneg_(uint32_t i){ Ctx&c=ctx(); const Term&x=c.t[i]; switch(x.op){case CONST: return x.k>=0; case MUL: return x.a==x.b || (nonneg_(x.a)&&nonneg_(x.b)); case ADD: return nonneg_(x.a)&&nonneg_(x.b); case SQRT: case ABS: return true; default: return false;} }
inline sym abs(sym a){ Ctx&c=ctx(); if(nonneg_(a.id)) return a; if(c.isc(a.id)) return sym::mk(c.cst(::abs(c.t[a.id].k))); return sym::mk(c.mk(ABS,a.id)); }
inline sym fabs(sym a){ return abs(a); }
inline sym sqrt(sym a){ Ctx&c=ctx(); if(c.isc(a.id)&&c.t[a.id].k==0) return a; if(c.isc(a.id)&&c.t[a.id].k==1) return a; return sym::mk(c.mk(SQRT,a.id)); }
inline bool isnan(sym){return false;} inline bool isinf(sym){return false;}
inline std::ostream& operator<<(std::ostream &o, sym a){ return o << "<t" << a.id << ">"; }
inline std::istream& operator>>(std::istream &i, sym &a){ double d; i >> d; a = sym(d); return i; }

inline symbool::operator bool() const {
    Ctx &c = ctx();
    // concrete?
    if (c.isc(a) && c.isc(b)) {
        const mpq_class &x=c.t[a].k, &y=c.t[b].k;
        bool r = cmp==EQ ? x==y : cmp==LT ? x<y : x<=y; return r ^ neg;
    }
    if (cmp==EQ && a==b) return !neg;
    bool d;
    if (c.pos < c.prefix.size()) d = c.prefix[c.pos];
    else { double x=c.ev(a), y=c.ev(b); bool at = cmp==EQ ? x==y : cmp==LT ? x<y : x<=y; d = at ^ neg; c.prefix.push_back(d); auto alt = c.prefix; alt.back()=!d; c.work.push_back(alt); c.nforks++; }
    c.pos++;
    const char *ops = cmp==EQ ? "=" : cmp==LT ? "<" : "<=";
    std::string s = std::string("(")+ops+" t"+std::to_string(a)+" t"+std::to_string(b)+")"; c.pcroots.push_back(a); c.pcroots.push_back(b);
    bool holds = d; // decision d is the value returned => atom value = d ^ neg
    bool atom = d ^ neg;
    c.pc.push_back(atom ? s : "(not "+s+")");
    return holds;
}
} // namespace symx

namespace std {
inline symx::sym abs(symx::sym a){ return symx::abs(a); }
inline symx::sym fabs(symx::sym a){ return symx::abs(a); }
inline symx::sym sqrt(symx::sym a){ return symx::sqrt(a); }
template<> struct numeric_limits<symx::sym> {
    static constexpr bool is_specialized = true;
    static symx::sym epsilon(){ return symx::sym(0); }
    static symx::sym min(){ return symx::sym(0); }
    static symx::sym max(){ return symx::sym(1e300); }
    static symx::sym lowest(){ return symx::sym(-1e300); }
    static constexpr bool is_integer=false, is_signed=true, is_exact=true;
};
template<> class uniform_real_distribution<symx::sym> {
    std::uniform_real_distribution<double> d;
  public:
    uniform_real_distribution(double a, double b): d(a,b) {}
    template<class G> symx::sym operator()(G &g){ return symx::sym(std::round(d(g)*64)/64); }
};
}
