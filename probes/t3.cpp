#include "nd.hpp"
#include <amgcl/backend/builtin.hpp>
#include <amgcl/make_solver.hpp>
#include <amgcl/amg.hpp>
#include <amgcl/coarsening/aggregation.hpp>
#include <amgcl/relaxation/damped_jacobi.hpp>
#include <amgcl/solver/cg.hpp>
#include <amgcl/adapter/crs_tuple.hpp>
#include <fstream>
using symx::sym;
typedef amgcl::backend::builtin<sym> B;
struct plain_ip { template<class V1,class V2> sym operator()(const V1&x,const V2&y) const { sym s=0; for(size_t i=0;i<x.size();++i) s+=x[i]*y[i]; return s; } };
int main(int argc, char**argv){
  int n=atoi(argv[1]); int maxiter=atoi(argv[2]); int mode=atoi(argv[3]); int fmode=atoi(argv[4]); sym T = sym::var("T");
  std::vector<int> ptr{0}, col; std::vector<sym> val;
  for(int i=0;i<n;++i){ for(int j=0;j<n;++j){ if (abs(i-j)<=1){ col.push_back(j); val.push_back(mode==0 ? sym::var("a"+std::to_string(i)+std::to_string(j)) : mode==1 ? sym(i==j? 2.0+0.25*i : -1.0+0.125*j) : (i==j? sym(2.0+0.25*i)+T : sym(-1.0+0.125*j))); } } ptr.push_back(col.size()); }
  typedef amgcl::make_solver<amgcl::amg<B, amgcl::coarsening::aggregation, amgcl::relaxation::damped_jacobi>, amgcl::solver::cg<B,plain_ip>> S;
  S::params prm; prm.precond.coarse_enough=2; prm.solver.maxiter=maxiter; prm.solver.tol=0; prm.solver.abstol=0;
  S s(std::tie(n,ptr,col,val), prm);
  amgcl::backend::numa_vector<sym> f(n), x(n);
  for(int i=0;i<n;++i){ f[i]= fmode==0 ? sym::var("f"+std::to_string(i)) : sym(1.0+0.5*i); x[i]=sym(0);}
  size_t it; sym res; std::tie(it,res)=s(f,x);
  sym ff=0, rr=0;
  for(int i=0;i<n;++i){ sym ax=0; for(int j=ptr[i];j<ptr[i+1];++j) ax += val[j]*x[col[j]]; sym r=f[i]-ax; rr+=r*r; ff+=f[i]*f[i]; }
  sym lhs = res*res*ff;
  { std::ofstream d("slp.txt"); symx::dump_slp(d); d<<"ROOT "<<lhs.id<<" "<<rr.id<<"\n"; }
  symx::ND nd; auto L=nd.get(lhs.id), R=nd.get(rr.id);
  uint32_t LD=symx::ND::prod(L.d), RD=symx::ND::prod(R.d);
  sym P1 = sym::mk(L.n)*sym::mk(RD), P2 = sym::mk(R.n)*sym::mk(LD);
  std::vector<uint32_t> roots{P1.id,P2.id,LD,RD};
  std::vector<std::string> asserts;
  for(size_t k=0;k<nd.sqrts.size();++k){ auto sq=nd.sqrts[k]; const symx::Term x=symx::ctx().t[sq.second]; auto A=nd.get(x.a); uint32_t AD=symx::ND::prod(A.d);
     sym e1=sym::mk(sq.first)*sym::mk(sq.first)*sym::mk(AD); roots.push_back(e1.id); roots.push_back(A.n); roots.push_back(AD); roots.push_back(sq.first);
     if (x.op==symx::SQRT) asserts.push_back("(and (>= t"+std::to_string(sq.first)+" 0.0) (= t"+std::to_string(e1.id)+" t"+std::to_string(A.n)+") (not (= t"+std::to_string(AD)+" 0.0)))");
     else { sym e2=e1*sym::mk(AD), e3=sym::mk(A.n)*sym::mk(A.n); roots.push_back(e2.id); roots.push_back(e3.id); asserts.push_back("(and (>= t"+std::to_string(sq.first)+" 0.0) (= t"+std::to_string(e2.id)+" t"+std::to_string(e3.id)+"))"); } }
  std::cerr<<it<<" terms="<<symx::ctx().t.size()<<" forks="<<symx::ctx().nforks<<" sqrts="<<nd.sqrts.size()<<"\n";
  std::ofstream o("q3.smt2");
  symx::emit_defs(o, roots);
  for(auto &a: asserts) o<<"(assert "<<a<<")\n";
  o<<"(assert (not (= t"<<LD<<" 0.0)))\n(assert (not (= t"<<RD<<" 0.0)))\n";
  o<<"(assert (not (= t"<<P1.id<<" t"<<P2.id<<")))\n(check-sat)\n";
}
