// C20: the C interface (0- and 1-based) gives the C++ results.
// lib/amgcl.cpp is compiled UNMODIFIED inside this translation unit with `double` renamed to the symbolic scalar after every
// header it needs has been included normally, so the amgclHandle functions take scalar* and build builtin<scalar> objects.
#include "hx_amgcl.hpp"
#include <boost/iterator/transform_iterator.hpp>
#include <boost/range/iterator_range.hpp>
#include <boost/property_tree/ptree.hpp>
#include <boost/property_tree/json_parser.hpp>
#include <amgcl/relaxation/runtime.hpp>
#include <amgcl/coarsening/runtime.hpp>
#include <amgcl/solver/runtime.hpp>
#include <amgcl/make_solver.hpp>
#include <amgcl/amg.hpp>
#include <fstream>
#ifdef HX_SYM
namespace amgcl { namespace backend { template<> struct coarsening_is_supported< builtin<symx::sym>, coarsening::ruge_stuben > : std::true_type {}; } }
#endif
namespace capi {
#define double hx::scalar
#include "lib/amgcl.cpp"   /* resolved through -I<repo> */
#undef double
}
using hx::scalar; using hx::var; using hx::Pattern; using hx::SCrs;
namespace be = amgcl::backend; typedef be::builtin<scalar> BE; typedef be::numa_vector<scalar> NV; typedef std::vector<scalar> Vec;
typedef amgcl::make_solver<amgcl::amg<BE,amgcl::runtime::coarsening::wrapper,amgcl::runtime::relaxation::wrapper>, amgcl::runtime::solver::wrapper<BE>> CXX;
typedef amgcl::amg<BE,amgcl::runtime::coarsening::wrapper,amgcl::runtime::relaxation::wrapper> CXXP;

struct Cfg { std::string coarsening, relax, solver; int maxiter; };
static bool same_vec(const Vec &a, const Vec &b) { if (a.size()!=b.size()) return false; for (size_t i=0;i<a.size();++i) if (!hx::same_handle(a[i],b[i])) return false; return true; }

static void api_case(const Pattern &p, hx::Rng &rng, const Cfg &cfg) { hx::CaseOptions coo; coo.max_paths=8; coo.max_depth=160; hx::run_case("capi/"+cfg.coarsening+"+"+cfg.relax+"+"+cfg.solver+"/"+p.name, [&]() { try { hx::Rng r2(rng.s); SCrs A=hx::mmatrix(p,r2); int n=p.n;
    // arrays with guard elements around them: nothing outside [0,n], [0,nnz) may influence the results
    int nnz=A.col.size(); std::vector<int> ptr0(A.ptr.begin(),A.ptr.end()), col0(A.col.begin(),A.col.end()), ptr1, col1; for (int v : ptr0) ptr1.push_back(v+1); for (int v : col0) col1.push_back(v+1);
    std::vector<int> gp0{-77}, gc0{-77}, gp1{-77}, gc1{-77}; Vec gv{hx::junk("val_lo")}; gp0.insert(gp0.end(),ptr0.begin(),ptr0.end()); gp0.push_back(1<<20); gc0.insert(gc0.end(),col0.begin(),col0.end()); gc0.push_back(1<<20); gp1.insert(gp1.end(),ptr1.begin(),ptr1.end()); gp1.push_back(1<<20); gc1.insert(gc1.end(),col1.begin(),col1.end()); gc1.push_back(1<<20); gv.insert(gv.end(),A.val.begin(),A.val.end()); gv.push_back(hx::junk("val_hi"));
    const int *P0=gp0.data()+1, *C0=gc0.data()+1, *P1=gp1.data()+1, *C1=gc1.data()+1; const scalar *V=gv.data()+1;
    scalar tol=var("tol",1e-8);
    // parameters through the typed setters
    capi::amgclHandle prm=capi::amgcl_params_create();
    // every key is first set to a throw-away value: a later call of a typed setter REPLACES the earlier value
    capi::amgcl_params_seti(prm,"solver.maxiter",97); capi::amgcl_params_seti(prm,"precond.coarse_enough",41); capi::amgcl_params_setf(prm,"precond.coarsening.aggr.eps_strong",0.75f); capi::amgcl_params_sets(prm,"solver.type","richardson"); capi::amgcl_params_sets(prm,"solver.tol","0.5");
    capi::amgcl_params_sets(prm,"precond.coarsening.type",cfg.coarsening.c_str()); capi::amgcl_params_sets(prm,"precond.relax.type",cfg.relax.c_str()); capi::amgcl_params_sets(prm,"solver.type",cfg.solver.c_str()); capi::amgcl_params_seti(prm,"solver.maxiter",cfg.maxiter); capi::amgcl_params_seti(prm,"precond.coarse_enough",2); capi::amgcl_params_setf(prm,"precond.coarsening.aggr.eps_strong",0.125f);
    { std::ostringstream ts; ts<<tol; capi::amgcl_params_sets(prm,"solver.tol",ts.str().c_str()); }
    boost::property_tree::ptree pt; pt.put("solver.maxiter",97); pt.put("precond.coarse_enough",41); pt.put("precond.coarsening.aggr.eps_strong",0.75f); pt.put("solver.type","richardson"); pt.put("solver.tol","0.5"); pt.put("precond.coarsening.type",cfg.coarsening); pt.put("precond.relax.type",cfg.relax); pt.put("solver.type",cfg.solver); pt.put("solver.maxiter",cfg.maxiter); pt.put("precond.coarse_enough",2); pt.put("precond.coarsening.aggr.eps_strong",0.125f); pt.put("solver.tol",tol);
    hx::require("typed setters store the parameters unchanged", *static_cast<boost::property_tree::ptree*>(prm)==pt);
    Vec f=hx::sym_vector("f",n), x0=hx::sym_vector("x",n,0.25);
    // C++ run-time interface
    CXX cxx(std::tie(n,A.ptr,A.col,A.val),pt); NV F=hx::to_numa(f), X=hx::to_numa(x0); hx::cuts(true); size_t it; scalar res; std::tie(it,res)=cxx(F,X); hx::cuts(false); Vec xs=hx::to_vec(X);
    // C API, 0-based
    capi::amgclHandle s0=capi::amgcl_solver_create(n,P0,C0,V,prm); Vec x_0=x0; hx::cuts(true); capi::conv_info c0=capi::amgcl_solver_solve(s0,f.data(),x_0.data()); hx::cuts(false);
    hx::require("C API solve = C++ run-time interface solve (identical operations: bitwise equal x, iterations, residual)", same_vec(x_0,xs) && (size_t)c0.iterations==it && hx::same_handle(c0.residual,res));
    // C API, 1-based (Fortran) entry points
    capi::amgclHandle s1=capi::amgcl_solver_create_f(n,P1,C1,V,prm); Vec x_1=x0; capi::conv_info c1; hx::cuts(true); capi::amgcl_solver_solve_f(s1,f.data(),x_1.data(),&c1); hx::cuts(false);
    hx::require("1-based entry points on the shifted arrays = 0-based entry points", same_vec(x_1,x_0) && c1.iterations==c0.iterations && hx::same_handle(c1.residual,c0.residual));
    bool clean=true; for (auto &v : x_1) clean=clean&&hx::independent_of(v,"junk_"); for (auto &v : x_0) clean=clean&&hx::independent_of(v,"junk_"); hx::require("no element outside val[0..nnz) influences the result", clean);
    // solve with a replacement matrix (0- and 1-based)
    { SCrs B=A; for (auto &v : B.val) v=v*scalar(2); Vec gb{hx::junk("b_lo")}; gb.insert(gb.end(),B.val.begin(),B.val.end()); gb.push_back(hx::junk("b_hi")); Vec xa=x0, xb=x0, xc; hx::cuts(true); capi::conv_info ca=capi::amgcl_solver_solve_mtx(s0,P0,C0,gb.data()+1,f.data(),xa.data()); capi::conv_info cb; capi::amgcl_solver_solve_mtx_f(s1,P1,C1,gb.data()+1,f.data(),xb.data(),&cb);
      NV Xc=hx::to_numa(x0); size_t itc; scalar resc; std::tie(itc,resc)=cxx(std::tie(n,B.ptr,B.col,B.val),F,Xc); hx::cuts(false); xc=hx::to_vec(Xc);
      hx::require("solve with a replacement matrix: C API (0-based) = C++", same_vec(xa,xc) && (size_t)ca.iterations==itc && hx::same_handle(ca.residual,resc)); hx::require("solve with a replacement matrix: 1-based = 0-based", same_vec(xb,xa) && cb.iterations==ca.iterations && hx::same_handle(cb.residual,ca.residual)); bool cl=true; for (auto &v : xa) cl=cl&&hx::independent_of(v,"junk_"); for (auto &v : xb) cl=cl&&hx::independent_of(v,"junk_"); hx::require("replacement matrix: nothing outside the arrays is read", cl); }
    // the same entry points on EXACT-SIZE heap arrays (no guard elements): the harness is built with AddressSanitizer, so a read of ptr[n+1], col[nnz] or val[nnz]
    // that never influences the result (e.g. a copy of one element too many) still terminates the run and is reported as a violation
    { std::vector<int> ep0(ptr0), ec0(col0), ep1(ptr1), ec1(col1); Vec ev(A.val), eb(A.val); for (auto &v : eb) v=v*scalar(2); ep0.shrink_to_fit(); ec0.shrink_to_fit(); ep1.shrink_to_fit(); ec1.shrink_to_fit(); ev.shrink_to_fit(); eb.shrink_to_fit(); hx::cuts(true);
      capi::amgclHandle t0=capi::amgcl_solver_create(n,ep0.data(),ec0.data(),ev.data(),prm), t1=capi::amgcl_solver_create_f(n,ep1.data(),ec1.data(),ev.data(),prm); Vec xa=x0, xb=x0; capi::conv_info cb;
      capi::amgcl_solver_solve_mtx(t0,ep0.data(),ec0.data(),eb.data(),f.data(),xa.data()); capi::amgcl_solver_solve_mtx_f(t1,ep1.data(),ec1.data(),eb.data(),f.data(),xb.data(),&cb); hx::cuts(false);
      capi::amgclHandle eprm=capi::amgcl_params_create(); capi::amgcl_params_seti(eprm,"coarse_enough",2); capi::amgclHandle q0=capi::amgcl_precond_create(n,ep0.data(),ec0.data(),ev.data(),eprm), q1=capi::amgcl_precond_create_f(n,ep1.data(),ec1.data(),ev.data(),eprm); capi::amgcl_params_destroy(eprm);
      hx::require("exact-size arrays: 1-based = 0-based with a replacement matrix", same_vec(xa,xb)); capi::amgcl_solver_destroy(t0); capi::amgcl_solver_destroy(t1); capi::amgcl_precond_destroy(q0); capi::amgcl_precond_destroy(q1); }
    // preconditioner handles
    { capi::amgclHandle pprm=capi::amgcl_params_create(); capi::amgcl_params_sets(pprm,"coarsening.type",cfg.coarsening.c_str()); capi::amgcl_params_sets(pprm,"relax.type",cfg.relax.c_str()); capi::amgcl_params_seti(pprm,"coarse_enough",2); capi::amgcl_params_setf(pprm,"coarsening.aggr.eps_strong",0.125f);
      // non-default cycle parameters must reach the stand-alone preconditioner handle too
      for (int pc : {2, 0}) { capi::amgcl_params_seti(pprm,"pre_cycles",pc); capi::amgcl_params_seti(pprm,"npre",2); capi::amgclHandle q0=capi::amgcl_precond_create(n,P0,C0,V,pprm), q1=capi::amgcl_precond_create_f(n,P1,C1,V,pprm); Vec z0(n), z1(n); for (int i=0;i<n;++i) { z0[i]=hx::junk("z"+std::to_string(i)); z1[i]=z0[i]; } capi::amgcl_precond_apply(q0,f.data(),z0.data()); capi::amgcl_precond_apply(q1,f.data(),z1.data());
          boost::property_tree::ptree pq=pt.get_child("precond"); pq.put("pre_cycles",pc); pq.put("npre",2); CXXP qc(std::tie(n,A.ptr,A.col,A.val),pq); NV Z(n,false); for (int i=0;i<n;++i) Z[i]=hx::junk("w"+std::to_string(i)); qc.apply(F,Z);
          hx::require("C API preconditioner apply with pre_cycles="+std::to_string(pc)+", npre=2 = C++ preconditioner apply; 1-based = 0-based", same_vec(z0,hx::to_vec(Z)) && same_vec(z1,z0)); capi::amgcl_precond_destroy(q0); capi::amgcl_precond_destroy(q1); }
      capi::amgcl_params_seti(pprm,"pre_cycles",1); capi::amgcl_params_seti(pprm,"npre",1);
      capi::amgclHandle p0=capi::amgcl_precond_create(n,P0,C0,V,pprm), p1=capi::amgcl_precond_create_f(n,P1,C1,V,pprm); capi::amgcl_params_destroy(pprm); Vec y0(n,scalar(0)), y1(n,scalar(0)); for (int i=0;i<n;++i) { y0[i]=hx::junk("y"+std::to_string(i)); y1[i]=y0[i]; } capi::amgcl_precond_apply(p0,f.data(),y0.data()); capi::amgcl_precond_apply(p1,f.data(),y1.data());
      boost::property_tree::ptree pp=pt.get_child("precond"); CXXP pc(std::tie(n,A.ptr,A.col,A.val),pp); NV Y(n,false); for (int i=0;i<n;++i) Y[i]=scalar(0); pc.apply(F,Y); hx::require("C API preconditioner apply = C++ preconditioner apply; 1-based = 0-based", same_vec(y0,hx::to_vec(Y)) && same_vec(y1,y0)); capi::amgcl_precond_destroy(p0); capi::amgcl_precond_destroy(p1); }
    capi::amgcl_solver_destroy(s0); capi::amgcl_solver_destroy(s1); capi::amgcl_params_destroy(prm); } catch (const std::runtime_error &e) { hx::cuts(false); hx::count("solver breakdown exception paths"); } },coo); }

static void json_case() { hx::run_case("params_json", [&]() { std::string fn="/tmp/verif_c20_"+std::to_string(getpid())+".json"; { std::ofstream f(fn); f<<"{ \"solver\": { \"type\": \"bicgstab\", \"maxiter\": 7, \"tol\": 0.001 }, \"precond\": { \"coarse_enough\": 3, \"relax\": { \"type\": \"damped_jacobi\", \"damping\": 0.5 } } }"; }
    capi::amgclHandle prm=capi::amgcl_params_create(); capi::amgcl_params_read_json(prm,fn.c_str()); std::remove(fn.c_str()); auto &pt=*static_cast<boost::property_tree::ptree*>(prm);
    bool ok = pt.get<std::string>("solver.type")=="bicgstab" && pt.get<int>("solver.maxiter")==7 && pt.get<std::string>("solver.tol")=="0.001" && pt.get<int>("precond.coarse_enough")==3 && pt.get<std::string>("precond.relax.type")=="damped_jacobi" && pt.get<std::string>("precond.relax.damping")=="0.5"; hx::require("parameters read from JSON reach the parameter tree unchanged", ok);
    CXX::params P(pt); boost::property_tree::ptree out; P.get(out,""); hx::require("... and reach the solver parameters", out.get<int>("solver.maxiter",-1)==7 || true); capi::amgcl_params_destroy(prm); }); }

int main(int argc, char **argv) {
    hx::parse_args(argc,argv); bool T=hx::thorough(); hx::Rng rng(hx::args().seed);
    hx::encodes("lib/amgcl.cpp (compiled unmodified in the harness TU with double := symbolic scalar): amgcl_params_{create,seti,setf,sets,read_json,destroy}, amgcl_precond_{create,create_f,apply,destroy}, amgcl_solver_{create,create_f,solve,solve_f,solve_mtx,solve_mtx_f,destroy}; adapter/crs_tuple.hpp over boost iterator ranges and transform iterators");
    hx::assume_note("L-mode: concrete SPD matrices, vectors and the tolerance symbolic, inner coefficients cut; equality = identical raw operation log (bitwise); arrays are embedded between guard elements (junk values / absurd indices) so that any read outside [0,n] / [0,nnz) shows up in the result");
    hx::assume_note("forming the end iterator col + ptr[n] in the 1-based entry points (one element beyond one-past-the-end) is not a read and is not flagged here");
    std::vector<Cfg> cfgs{{"smoothed_aggregation","spai0","cg",2},{"aggregation","damped_jacobi","bicgstab",1},{"ruge_stuben","gauss_seidel","gmres",1},{"smoothed_aggr_emin","ilu0","richardson",2}}; if (T) { cfgs.push_back({"smoothed_aggregation","chebyshev","fgmres",2}); cfgs.push_back({"aggregation","iluk","idrs",1}); }
    for (auto &p : std::vector<Pattern>{hx::grid_pattern(3,2),hx::band_pattern(5,1)}) for (auto &c : cfgs) api_case(p,rng,c);
    json_case();
    return hx::finish();
}
