// C09: results do not depend on the number of threads or their interleaving.
// Compiled with -D_OPENMP -Ilib/fakeomp and WITHOUT -fopenmp: omp_get_max_threads()/omp_get_thread_num() are controlled by the
// harness, every "#pragma omp parallel" region of the library executes once for the selected thread id.  The per-thread schedule
// tables of the real constructors are assembled by constructing the object once per thread id; the real sweep()/solve() code is
// then executed task by task (level by level, thread by thread) in two different thread orders.
#include "hx_amgcl.hpp"
int hx_omp_threads = 1, hx_omp_tid = 0;
#include <amgcl/relaxation/gauss_seidel.hpp>
#include <amgcl/relaxation/ilu0.hpp>
#include <amgcl/relaxation/detail/ilu_solve.hpp>
#include <amgcl/detail/spgemm.hpp>
#include <amgcl/coarsening/pointwise_aggregates.hpp>
#include <amgcl/coarsening/tentative_prolongation.hpp>
#include <amgcl/coarsening/smoothed_aggr_emin.hpp>
using hx::scalar; using hx::var; using hx::Pattern; using hx::SCrs;
namespace be = amgcl::backend; namespace rx = amgcl::relaxation; typedef be::builtin<scalar> BE; typedef be::numa_vector<scalar> NV; typedef hx::ACrs<scalar> M;

// assemble the schedule a T-thread run would build: object t contributes the tables of thread t
template<class PS, class Mx> static std::shared_ptr<PS> build_schedule(const Mx &A, int T) { hx_omp_threads=T; std::shared_ptr<PS> all; for (int t=0;t<T;++t) { hx_omp_tid=t; auto o=std::make_shared<PS>(A); if (!all) all=o; else { all->tasks[t]=o->tasks[t]; all->ptr[t]=o->ptr[t]; all->col[t]=o->col[t]; all->val[t]=o->val[t]; all->ord[t]=o->ord[t]; } } hx_omp_tid=0; return all; }
template<class PS> static size_t nlevels(const PS &s) { size_t m=0; for (auto &t : s.tasks) m=std::max(m,t.size()); return m; }
// run the REAL sweep code of the schedule, one task at a time: level by level, threads in the given order
template<class PS, class V> static void run_levels(const PS &s, const NV &rhs, V &x, bool reverse_threads) { int T=s.nthreads; size_t L=nlevels(s);
    for (size_t lev=0; lev<L; ++lev) for (int k=0;k<T;++k) { int t = reverse_threads ? T-1-k : k; if (lev>=s.tasks[t].size()) continue; PS one=s; auto task=s.tasks[t][lev]; one.tasks[t].clear(); one.tasks[t].push_back(task); hx_omp_tid=t; one.sweep(rhs,x); } hx_omp_tid=0; }

static Pattern reversed(const Pattern &p) { Pattern q=p; for (int i=0;i<p.n;++i) std::reverse(q.col.begin()+p.ptr[i], q.col.begin()+p.ptr[i+1]); q.name=p.name+"_unsorted"; return q; }
template<bool fwd> static void gs_case(const Pattern &p, int T) { hx::run_case(std::string("gauss_seidel/")+(fwd?"fwd":"bwd")+"/T"+std::to_string(T)+"/"+p.name, [&]() {
    SCrs A=hx::symbolic_matrix(p,"a"); for (auto &v : A.val) hx::assume(hx::ne(v,scalar(0))); auto Am=hx::to_amgcl(A); int n=p.n; typedef typename rx::gauss_seidel<BE>::template parallel_sweep<fwd> PS;
    auto S=build_schedule<PS>(*Am,T); std::vector<scalar> f=hx::sym_vector("f",n), x0=hx::sym_vector("x",n,0.25);
    // (1) the tasks of one level partition that level: every row appears in exactly one task
    { std::vector<int> seen(n,0); bool cover=true; for (int t=0;t<T;++t) { for (auto &tk : S->tasks[t]) for (ptrdiff_t r=tk.beg;r<tk.end;++r) { ptrdiff_t i=S->ord[t][r]; if (i<0||i>=n) cover=false; else seen[i]++; } } for (int i=0;i<n;++i) cover=cover&&seen[i]==1; hx::require("every row is scheduled exactly once over all threads and levels", cover); }
    // (2) no two rows of one level read or write each other's unknown
    { std::vector<ptrdiff_t> lev(n,-1); for (int t=0;t<T;++t) for (size_t l=0;l<S->tasks[t].size();++l) for (ptrdiff_t r=S->tasks[t][l].beg;r<S->tasks[t][l].end;++r) lev[S->ord[t][r]]=l; bool indep=true; std::string bad; for (int i=0;i<n;++i) for (ptrdiff_t k=p.ptr[i];k<p.ptr[i+1];++k) { int c=p.col[k]; if (c!=i && lev[c]==lev[i]) { indep=false; if (bad.empty()) bad="rows "+std::to_string(i)+" and "+std::to_string(c)+" share level "+std::to_string(lev[i]); } }
      hx::require("no two rows of one level read or write each other's unknown", indep, bad);
      // serial order is respected: a row reads NEW values of rows swept earlier and OLD values of rows swept later
      bool ord=true; for (int i=0;i<n;++i) for (ptrdiff_t k=p.ptr[i];k<p.ptr[i+1];++k) { int c=p.col[k]; if (c==i) continue; bool earlier = fwd ? c<i : c>i; if (earlier && !(lev[c]<lev[i])) { ord=false; if (bad.empty()) bad="row "+std::to_string(i)+" needs the new value of row "+std::to_string(c); } if (!earlier && !(lev[c]>lev[i])) { ord=false; if (bad.empty()) bad="row "+std::to_string(i)+" (level "+std::to_string(lev[i])+") needs the OLD value of row "+std::to_string(c)+" (level "+std::to_string(lev[c])+")"; } }
      hx::require("level schedule respects the serial sweep order (true and anti-dependencies)", ord, bad); }
    // (3) per-thread copies reproduce the original rows
    { bool same=true; for (int t=0;t<T;++t) for (size_t r=0;r<S->ord[t].size();++r) { ptrdiff_t i=S->ord[t][r]; ptrdiff_t b=S->ptr[t][r], e=S->ptr[t][r+1]; same=same&&(e-b==p.ptr[i+1]-p.ptr[i]); for (ptrdiff_t j=b;j<e&&same;++j) same=same&&S->col[t][j]==p.col[p.ptr[i]+j-b]&&hx::same_handle(S->val[t][j],A.val[p.ptr[i]+j-b]); } hx::require("per-thread matrix copies reproduce the original rows", same); }
    // (4) executing the real sweep level by level in two different thread orders gives the serial sweep (identical operations)
    NV F=hx::to_numa(f); NV Xs=hx::to_numa(x0); rx::gauss_seidel<BE>::serial_sweep(*Am,F,Xs,fwd); NV X1=hx::to_numa(x0), X2=hx::to_numa(x0); run_levels(*S,F,X1,false); run_levels(*S,F,X2,true);
    bool b1=true, b2=true; for (int i=0;i<n;++i) { b1=b1&&hx::same_handle(X1[i],Xs[i]); b2=b2&&hx::same_handle(X2[i],Xs[i]); } hx::require("level-scheduled sweep (threads in order) performs the serial sweep's operations: bitwise identical", b1); hx::require("level-scheduled sweep (threads in reverse order) performs the serial sweep's operations: bitwise identical", b2);
    hx::prove_eq_vec("level-scheduled sweep = serial sweep (values)", hx::to_vec(X1), hx::to_vec(Xs)); }); }

// ILU triangular solves: sptr_solve<lower/upper> schedule + solve equal the serial solve
static void ilu_case(const Pattern &p, int T) { hx::CaseOptions co; co.max_paths=16; hx::run_case("ilu_solve/T"+std::to_string(T)+"/"+p.name, [&]() {
    SCrs A=hx::symbolic_matrix(p,"a"); for (auto &v : A.val) hx::assume(hx::ne(v,scalar(0))); auto Am=hx::to_amgcl(A); int n=p.n; typedef rx::detail::ilu_solve<BE> IS;
    // split A into strict lower L, strict upper U, inverted diagonal D (an arbitrary triangular pair with the pattern of A)
    auto L=std::make_shared<M>(), U=std::make_shared<M>(); L->set_size(n,n,true); U->set_size(n,n,true); for (int i=0;i<n;++i) for (ptrdiff_t k=p.ptr[i];k<p.ptr[i+1];++k) { if (p.col[k]<i) L->ptr[i+1]++; else if (p.col[k]>i) U->ptr[i+1]++; } L->set_nonzeros(L->scan_row_sizes()); U->set_nonzeros(U->scan_row_sizes());
    auto D=std::make_shared<NV>(n,false); { std::vector<ptrdiff_t> lh(L->ptr,L->ptr+n), uh(U->ptr,U->ptr+n); for (int i=0;i<n;++i) for (ptrdiff_t k=p.ptr[i];k<p.ptr[i+1];++k) { int c=p.col[k]; if (c<i) { L->col[lh[i]]=c; L->val[lh[i]++]=A.val[k]; } else if (c>i) { U->col[uh[i]]=c; U->val[uh[i]++]=A.val[k]; } else (*D)[i]=scalar(1)/A.val[k]; } }
    std::vector<scalar> f=hx::sym_vector("f",n);
    IS::params ps; ps.serial=true; hx_omp_threads=1; hx_omp_tid=0; IS serial(L,U,D,ps); NV Xs=hx::to_numa(f); serial.solve(Xs);
    // schedule for T threads
    typedef IS::sptr_solve<true> LO; typedef IS::sptr_solve<false> UP; hx_omp_threads=T; std::shared_ptr<LO> lo; std::shared_ptr<UP> up;
    for (int t=0;t<T;++t) { hx_omp_tid=t; auto a=std::make_shared<LO>(*L); auto b=std::make_shared<UP>(*U,D->data()); if (!lo) { lo=a; up=b; } else { lo->tasks[t]=a->tasks[t]; lo->ptr[t]=a->ptr[t]; lo->col[t]=a->col[t]; lo->val[t]=a->val[t]; lo->ord[t]=a->ord[t]; up->tasks[t]=b->tasks[t]; up->ptr[t]=b->ptr[t]; up->col[t]=b->col[t]; up->val[t]=b->val[t]; up->ord[t]=b->ord[t]; up->D[t]=b->D[t]; } } hx_omp_tid=0;
    auto check_sched=[&](auto &S, const M &Tm, const char *nm) { std::vector<ptrdiff_t> lev(n,-1); std::vector<int> seen(n,0); for (int t=0;t<T;++t) for (size_t l=0;l<S.tasks[t].size();++l) for (ptrdiff_t r=S.tasks[t][l].beg;r<S.tasks[t][l].end;++r) { lev[S.ord[t][r]]=l; seen[S.ord[t][r]]++; } bool ok=true; for (int i=0;i<n;++i) { ok=ok&&seen[i]==1; for (ptrdiff_t k=Tm.ptr[i];k<Tm.ptr[i+1];++k) ok=ok&&lev[Tm.col[k]]<lev[i]; } hx::require(std::string(nm)+": every row scheduled once; every row it reads is in an earlier level", ok); };
    check_sched(*lo,*L,"lower triangular solve"); check_sched(*up,*U,"upper triangular solve");
    auto run=[&](bool rev) { NV X=hx::to_numa(f); for (int pass=0;pass<2;++pass) { size_t Ln=0; if (pass==0) { for (auto &t : lo->tasks) Ln=std::max(Ln,t.size()); } else { for (auto &t : up->tasks) Ln=std::max(Ln,t.size()); }
        for (size_t lev=0;lev<Ln;++lev) for (int k=0;k<T;++k) { int t=rev?T-1-k:k; hx_omp_tid=t; if (pass==0) { if (lev>=lo->tasks[t].size()) continue; LO one=*lo; auto tk=lo->tasks[t][lev]; one.tasks[t].clear(); one.tasks[t].push_back(tk); one.solve(X); } else { if (lev>=up->tasks[t].size()) continue; UP one=*up; auto tk=up->tasks[t][lev]; one.tasks[t].clear(); one.tasks[t].push_back(tk); one.solve(X); } } } hx_omp_tid=0; return X; };
    NV X1=run(false), X2=run(true); bool same=true; for (int i=0;i<n;++i) same=same&&hx::same_handle(X1[i],X2[i]); hx::require("level-scheduled triangular solves: result independent of the thread order inside a level (identical operations)", same);
    hx::prove_eq_vec("level-scheduled triangular solves = serial solves (equal up to summation order: proved over the reals)", hx::to_vec(X1), hx::to_vec(Xs)); },co); }

// SpGEMM: each row's result does not depend on the thread count (marker arrays are thread private): rows computed under T threads by
// thread t equal the single-thread result
static void spgemm_case(const Pattern &pa, const Pattern &pb, int T) { hx::run_case("spgemm/T"+std::to_string(T)+"/"+pa.name+"*"+pb.name, [&]() { SCrs A=hx::symbolic_matrix(pa,"a",false), B=hx::symbolic_matrix(pb,"b",false); auto Am=hx::to_amgcl(A), Bm=hx::to_amgcl(B);
    hx_omp_threads=1; hx_omp_tid=0; M C1; amgcl::backend::spgemm_saad(*Am,*Bm,C1,true); M R1; amgcl::backend::spgemm_rmerge(*Am,*Bm,R1);
    bool same=true; for (int t=0;t<T;++t) { hx_omp_threads=T; hx_omp_tid=t; M C2; amgcl::backend::spgemm_saad(*Am,*Bm,C2,true); M R2; amgcl::backend::spgemm_rmerge(*Am,*Bm,R2);
        for (const std::pair<const M*,const M*> pr : {std::make_pair(&C1,&C2),std::make_pair(&R1,&R2)}) { same=same&&pr.first->nrows==pr.second->nrows; for (size_t i=0;i<pr.first->nrows&&same;++i) { same=same&&pr.first->ptr[i+1]==pr.second->ptr[i+1]; for (ptrdiff_t k=pr.first->ptr[i];k<pr.first->ptr[i+1]&&same;++k) same=same&&pr.first->col[k]==pr.second->col[k]&&hx::same_handle(pr.first->val[k],pr.second->val[k]); } } }
    hx_omp_threads=1; hx_omp_tid=0; hx::require("SpGEMM (both algorithms): the result computed with per-thread work arrays under T threads is bitwise the single-thread result", same);
    // product() switches from the marker algorithm to the row-merge algorithm above 16 threads: both must give the same matrix (entry values over the reals; the column order inside a row may differ)
    { std::vector<scalar> l, r; std::vector<std::vector<scalar>> d1(C1.nrows,std::vector<scalar>(C1.ncols,scalar(0))), d2=d1; for (size_t i=0;i<C1.nrows;++i) { for (ptrdiff_t k=C1.ptr[i];k<C1.ptr[i+1];++k) d1[i][C1.col[k]]=d1[i][C1.col[k]]+C1.val[k]; for (ptrdiff_t k=R1.ptr[i];k<R1.ptr[i+1];++k) d2[i][R1.col[k]]=d2[i][R1.col[k]]+R1.val[k]; }
      for (size_t i=0;i<C1.nrows;++i) for (size_t j=0;j<C1.ncols;++j) { l.push_back(d1[i][j]); r.push_back(d2[i][j]); } hx::require("both SpGEMM algorithms return the same shape", R1.nrows==C1.nrows && R1.ncols==C1.ncols); hx::prove_eq_vec("the row-merge product (more than 16 threads) equals the marker-based product (up to 16 threads)", r, l); } }); }

namespace co = amgcl::coarsening; typedef std::vector<std::vector<scalar>> Dense;
static Dense dense_of(const M &A) { Dense d(A.nrows,std::vector<scalar>(A.ncols,scalar(0))); for (size_t i=0;i<A.nrows;++i) for (ptrdiff_t k=A.ptr[i];k<A.ptr[i+1];++k) d[i][A.col[k]]=d[i][A.col[k]]+A.val[k]; return d; }
// the unordered critical-section accumulation of smoothed_aggr_emin (thread-private column markers, shared omega / denominator sums): the transfer operators equal
// their thread-free definition, so no split of the rows over threads can change them beyond summation order
// smoothed_aggr_emin against its definition, concrete matrices (uniform Laplacians: exact cancellations in A D^-1 A P do occur), exact rationals:
//   A_f = strong part of A with the weak entries lumped into the diagonal D;  AP = A_f P_t;  ADAP = A_f D^-1 AP;
//   omega_c = <AP_c, ADAP_c> / <ADAP_c, ADAP_c> (column-wise);  P = P_t - D^-1 AP Omega;  R = P_t^T - Omega P_t^T A_f D^-1
static void emin_case(const Pattern &p, bool uniform, hx::Rng &rng) { hx::run_case(std::string("emin/")+(uniform?"uniform/":"mmatrix/")+p.name, [&]() { hx::Rng r2(rng.s); SCrs A=hx::mmatrix(p,r2); int n=p.n;
    if (uniform) for (int i=0;i<n;++i) for (ptrdiff_t k=p.ptr[i];k<p.ptr[i+1];++k) A.val[k] = p.col[k]==i ? scalar(4) : scalar(-1);
    auto Am=hx::to_amgcl(A); typedef co::smoothed_aggr_emin<BE> EM; EM::params prm; EM em(prm); std::shared_ptr<M> P, R; try { std::tie(P,R)=em.transfer_operators(*Am); } catch (const amgcl::error::empty_level&) { hx::count("empty level paths"); return; }
    co::pointwise_aggregates ag(*Am,prm.aggr,0); co::nullspace_params ns; auto Pt=co::tentative_prolongation<M>(n,ag.count,ag.id,ns,1); Dense pt=dense_of(*Pt); size_t nc=ag.count;
    Dense Af(n,std::vector<scalar>(n,scalar(0))); std::vector<scalar> D(n,scalar(0)); for (int i=0;i<n;++i) for (ptrdiff_t k=p.ptr[i];k<p.ptr[i+1];++k) { int c=p.col[k]; if (c==i || !ag.strong_connection[k]) D[i]+=A.val[k]; else Af[i][c]=A.val[k]; } for (int i=0;i<n;++i) Af[i][i]=D[i];
    Dense AP(n,std::vector<scalar>(nc,scalar(0))), ADAP(n,std::vector<scalar>(nc,scalar(0))); for (int i=0;i<n;++i) for (int k=0;k<n;++k) if (!hx::is_zero_value(Af[i][k])) for (size_t c=0;c<nc;++c) AP[i][c]+=Af[i][k]*pt[k][c]; for (int i=0;i<n;++i) for (int k=0;k<n;++k) if (!hx::is_zero_value(Af[i][k])) for (size_t c=0;c<nc;++c) ADAP[i][c]+=Af[i][k]*AP[k][c]/D[k];
    std::vector<scalar> om(nc); for (size_t c=0;c<nc;++c) { scalar a=0, b=0; for (int i=0;i<n;++i) { a+=AP[i][c]*ADAP[i][c]; b+=ADAP[i][c]*ADAP[i][c]; } om[c]=a/b; }
    Dense pd=dense_of(*P), rd=dense_of(*R); std::vector<scalar> gp, rp, gr, rr; for (int i=0;i<n;++i) for (size_t c=0;c<nc;++c) { gp.push_back(pd[i][c]); rp.push_back(pt[i][c]-AP[i][c]*om[c]/D[i]); }
    for (size_t c=0;c<nc;++c) for (int j=0;j<n;++j) { scalar t=0; for (int k=0;k<n;++k) t+=pt[k][c]*Af[k][j]; gr.push_back(rd[c][j]); rr.push_back(pt[j][c]-om[c]*t/D[j]); }
    hx::prove_eq_vec("smoothed_aggr_emin: P = P_tent - D^-1 A_f P_tent Omega with the column-wise energy-minimising omega", gp, rp); hx::prove_eq_vec("smoothed_aggr_emin: R = P_tent^T - Omega P_tent^T A_f D^-1", gr, rr); }); }

int main(int argc, char **argv) {
    hx::parse_args(argc,argv); bool T=hx::thorough(); hx::Rng rng(hx::args().seed);
    hx::encodes("relaxation::gauss_seidel::parallel_sweep<fwd/bwd> constructor (level assignment, ordering, per-thread task tables) and sweep(); relaxation::detail::ilu_solve<builtin>::sptr_solve<lower/upper> constructor and solve(); spgemm_saad / spgemm_rmerge per-thread work arrays");
    hx::assume_note("no thread is ever run concurrently: the library is compiled with -D_OPENMP and a stand-in omp.h but WITHOUT -fopenmp, so each parallel region executes once for the thread id chosen by the harness; the schedule of a T-thread run is assembled from T constructions; between levels the OpenMP barrier is assumed (its placement after each task is visible in the source)");
    hx::assume_note("interleavings are not enumerated: they are discharged by the independence obligation (no intra-level read/write conflict) plus two extreme thread orders executed with the real sweep code");
    hx::assume_note("cross-thread reductions (inner product partial sums, spectral radius, emin) are re-associations: equal over the reals, not bitwise -- not exercised here");
    std::vector<Pattern> pats; for (int n=2;n<=3;++n) { uint64_t lim=1ull<<(n*n); for (uint64_t mask=0;mask<lim;++mask) { bool canon=true; for (int i=0;i<n;++i) if ((mask>>(i*n+i))&1) canon=false; if (canon) pats.push_back(hx::mask_pattern(n,n,mask,true)); } }
    for (int k=0;k<(T?200:40);++k) { uint64_t mask=rng.next()&0xffff; for (int i=0;i<4;++i) mask&=~(1ull<<(i*4+i)); pats.push_back(hx::mask_pattern(4,4,mask,true)); } for (int k=0;k<(T?60:12);++k) pats.push_back(hx::random_pattern(5,5,rng,2,true)); pats.push_back(hx::band_pattern(5,1)); pats.push_back(hx::grid_pattern(3,2)); pats.push_back(hx::arrow_pattern(5));
    for (auto &p : pats) for (int Tn : {2,4,5}) { if (Tn==5 && !(T || p.n>=4)) continue; gs_case<true>(p,Tn); gs_case<false>(p,Tn); if (p.n>=3 && (T || Tn==4)) ilu_case(p,Tn); }
    // rows whose entries are stored in arbitrary (here: reversed) column order -- the smoother may be used standalone on a user matrix
    for (size_t k=0;k<pats.size();++k) if (pats[k].n>=3 && (T || k%3==0)) { Pattern q=reversed(pats[k]); gs_case<true>(q,4); gs_case<false>(q,4); }
    for (int k=0;k<(T?40:10);++k) { spgemm_case(hx::random_pattern(3,3,rng,2,false),hx::random_pattern(3,3,rng,2,false), 2+rng.below(3)); spgemm_case(hx::random_pattern(4,3,rng,2,false),hx::random_pattern(3,5,rng,2,false), 17+rng.below(3)); }
    for (auto &p : std::vector<Pattern>{hx::grid_pattern(3,3),hx::grid_pattern(6,3),hx::grid_pattern(8,2)}) emin_case(p,true,rng);
    return hx::finish();
}
