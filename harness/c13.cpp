// C13: block, complex and mixed formulations solve the same system.
#include "hx_amgcl.hpp"
#include <algorithm>
#include <amgcl/value_type/complex.hpp>
#include <amgcl/adapter/block_matrix.hpp>
#include <amgcl/adapter/complex.hpp>
#include <amgcl/make_solver.hpp>
#include <amgcl/make_block_solver.hpp>
#include <amgcl/amg.hpp>
#include <amgcl/backend/builtin_hybrid.hpp>
#include <amgcl/coarsening/aggregation.hpp>
#include <amgcl/coarsening/smoothed_aggregation.hpp>
#include <amgcl/coarsening/as_scalar.hpp>
#include <amgcl/relaxation/spai0.hpp>
#include <amgcl/relaxation/ilu0.hpp>
#include <amgcl/relaxation/damped_jacobi.hpp>
#include <amgcl/relaxation/as_block.hpp>
#include <amgcl/solver/cg.hpp>
#include <amgcl/solver/bicgstab.hpp>
#include <complex>
using hx::scalar; using hx::var; using hx::Pattern; using hx::SCrs;
namespace be = amgcl::backend; namespace co = amgcl::coarsening; namespace rx = amgcl::relaxation; namespace sv = amgcl::solver;
typedef be::builtin<scalar> SB; typedef be::numa_vector<scalar> NV;
template<int B> using Blk = amgcl::static_matrix<scalar,B,B>; template<int B> using BV = amgcl::static_matrix<scalar,B,1>;

// scalar matrix with bs x bs block structure on block pattern pb; incomplete: some entries of a block are structurally absent
static SCrs blocked(const Pattern &pb, int bs, bool incomplete, bool symbolic, hx::Rng &rng) { int n=pb.n*bs; SCrs S; S.n=S.m=n; S.ptr.push_back(0);
    for (int I=0;I<pb.n;++I) for (int r=0;r<bs;++r) { int i=I*bs+r; for (ptrdiff_t k=pb.ptr[I];k<pb.ptr[I+1];++k) for (int c=0;c<bs;++c) { int j=pb.col[k]*bs+c; bool diagblk=(pb.col[k]==I); if (incomplete && !diagblk && (r+c+I)%2==1) continue; if (incomplete && diagblk && r!=c && (r+c)%2==1 && bs>2) continue;
            double h = i==j ? 6.0+0.25*(i%3)+bs : (diagblk ? -0.5-0.125*((r+2*c)%3) : -1.0-0.125*((i+2*j)%4)); S.col.push_back(j); S.val.push_back(symbolic ? var("a_"+std::to_string(i)+"_"+std::to_string(j),h) : scalar(h)); } S.ptr.push_back(S.col.size()); }
    if (!symbolic) { // symmetrise values to get an SPD diagonally dominant matrix
        auto d=S.dense(); for (int i=0;i<n;++i) for (ptrdiff_t k=S.ptr[i];k<S.ptr[i+1];++k) { int j=S.col[k]; if (i!=j) S.val[k]=scalar((hx::to_double(d[i][j])+hx::to_double(d[j][i]))/2); } }
    return S; }

template<int B> static void entries_case(const Pattern &pb, bool incomplete) { hx::run_case("block_adapter/b"+std::to_string(B)+(incomplete?"/incomplete/":"/full/")+pb.name, [&]() { hx::Rng rng(1); SCrs S=blocked(pb,B,incomplete,true,rng); int n=S.n; auto Sm=hx::to_amgcl(S);
    auto adapted=amgcl::adapter::block_matrix<Blk<B>>(*Sm); be::crs<Blk<B>,ptrdiff_t,ptrdiff_t> Bm(adapted);
    hx::require("block adapter: block rows/cols", Bm.nrows==(size_t)pb.n && Bm.ncols==(size_t)pb.n);
    // entries: the block matrix expands to exactly the scalar matrix
    auto d=S.dense(); std::vector<scalar> got(n*n,scalar(0)), ref; for (size_t I=0;I<Bm.nrows;++I) for (ptrdiff_t k=Bm.ptr[I];k<Bm.ptr[I+1];++k) for (int r=0;r<B;++r) for (int c=0;c<B;++c) got[(I*B+r)*n+Bm.col[k]*B+c]=got[(I*B+r)*n+Bm.col[k]*B+c]+Bm.val[k](r,c); for (int i=0;i<n;++i) for (int j=0;j<n;++j) ref.push_back(d[i][j]);
    hx::prove_eq_vec("block adapter represents the scalar matrix entry by entry", got, ref);
    bool pat=true; for (size_t I=0;I<Bm.nrows;++I) { std::set<ptrdiff_t> want, have; for (ptrdiff_t k=pb.ptr[I];k<pb.ptr[I+1];++k) want.insert(pb.col[k]); for (ptrdiff_t k=Bm.ptr[I];k<Bm.ptr[I+1];++k) have.insert(Bm.col[k]); pat=pat&&want==have; } hx::require("block adapter: block pattern = blocks with a stored entry, one block per column", pat);
    // matrix-vector products agree (scalar vs block value type vs adapter used directly)
    std::vector<scalar> x=hx::sym_vector("x",n), y(n); std::vector<scalar> Sx=hx::dense_mv(S,x); be::numa_vector<BV<B>> X(pb.n,false), Y(pb.n,false); for (int I=0;I<pb.n;++I) { BV<B> v; for (int r=0;r<B;++r) v(r)=x[I*B+r]; X[I]=v; Y[I]=amgcl::math::zero<BV<B>>(); }
    be::spmv(scalar(1),Bm,X,scalar(0),Y); std::vector<scalar> yb; for (int I=0;I<pb.n;++I) for (int r=0;r<B;++r) yb.push_back(Y[I](r)); hx::prove_eq_vec("block spmv = scalar spmv", yb, Sx);
    NV xs=hx::to_numa(x), ys(n,false); for (int i=0;i<n;++i) ys[i]=scalar(0); be::spmv(scalar(1),Bm,xs,scalar(0),ys); hx::prove_eq_vec("block matrix applied to scalar vectors = scalar spmv", hx::to_vec(ys), Sx);
    // round trip: unblock(block(S)) = S
    auto U=amgcl::adapter::unblock_matrix(Bm); auto &Um=*U; std::vector<scalar> gu(n*n,scalar(0)); for (size_t i=0;i<Um.nrows;++i) for (ptrdiff_t k=Um.ptr[i];k<Um.ptr[i+1];++k) gu[i*n+Um.col[k]]=gu[i*n+Um.col[k]]+Um.val[k]; hx::prove_eq_vec("unblock(block(S)) = S", gu, ref); }); }

// truthfulness of the solves through each formulation (L-mode, concrete SPD matrix, one step, cuts on)
template<class Solver, class Call> static void solve_truth(const std::string &nm, const SCrs &S, Call call) { int n=S.n; std::vector<scalar> f=hx::sym_vector("f",n), x0=hx::sym_vector("x",n,0.25); NV F=hx::to_numa(f), X=hx::to_numa(x0); { scalar ff=0; for (auto &v : f) ff+=v*v; hx::assume(hx::le(scalar(1e-30),ff)); }
    hx::cuts(true); size_t it; scalar res; bool threw=false; try { std::tie(it,res)=call(F,X); } catch (const std::runtime_error&) { threw=true; } hx::cuts(false); if (threw) { hx::count("breakdown paths"); return; }
    scalar r=hx::unfold(res); std::vector<scalar> Ax=hx::dense_mv(S,hx::to_vec(X)); scalar rr=0, ff=0; for (int i=0;i<n;++i) { scalar d=f[i]-Ax[i]; rr+=d*d; ff+=f[i]*f[i]; } hx::prove_eq(nm+": returned x and residual are truthful for the SCALAR system: res^2 <f,f> = ||f - A x||^2", r*r*ff, rr); }
template<int B> static void formulations_case(const Pattern &pb, bool incomplete, int k) { hx::CaseOptions coo; coo.max_paths=10; coo.max_depth=160; hx::run_case("formulations/b"+std::to_string(B)+(incomplete?"/incomplete/":"/full/")+"k"+std::to_string(k)+"/"+pb.name, [&]() { hx::Rng rng(7); SCrs S=blocked(pb,B,incomplete,false,rng); int n=S.n; auto Sm=hx::to_amgcl(S);
    typedef be::builtin<Blk<B>> BB;
    { typedef amgcl::make_block_solver<amgcl::amg<BB,co::aggregation,rx::spai0>, sv::cg<BB>> MBS; typename MBS::params p; p.solver.maxiter=k; p.solver.tol=scalar(0); p.solver.abstol=scalar(0); p.precond.coarse_enough=1; MBS s(*Sm,p); solve_truth<MBS>("make_block_solver<amg<aggregation,spai0>,cg>",S,[&](NV &F, NV &X){ return s(F,X); });
      // the scalar matrix with the entries of every row in REVERSED order ("diagonal first" and other unsorted CRS layouts are legal input of make_solver and amg): same operator, same solve
      { SCrs Sr=S; for (int i=0;i<n;++i) { std::reverse(Sr.col.begin()+Sr.ptr[i],Sr.col.begin()+Sr.ptr[i+1]); std::reverse(Sr.val.begin()+Sr.ptr[i],Sr.val.begin()+Sr.ptr[i+1]); } auto Srm=hx::to_amgcl(Sr); bool threw=false; try { MBS sr(*Srm,p); solve_truth<MBS>("make_block_solver built from a scalar matrix with unsorted rows",S,[&](NV &F, NV &X){ return sr(F,X); }); } catch (const std::exception&) { threw=true; } hx::require("make_block_solver accepts a scalar matrix with unsorted rows", !threw); }
      // three-argument call: the system matrix is the one the CALLER passes (here: off-diagonal entries scaled by 3/4), the stored one only built the preconditioner
      SCrs S2=S; for (int i=0;i<n;++i) for (ptrdiff_t q=S2.ptr[i];q<S2.ptr[i+1];++q) if (S2.col[q]!=i) S2.val[q]=S2.val[q]*scalar(3)/scalar(4); auto S2m=hx::to_amgcl(S2); be::crs<Blk<B>,ptrdiff_t,ptrdiff_t> B2m(amgcl::adapter::block_matrix<Blk<B>>(*S2m));
      solve_truth<MBS>("make_block_solver three-argument call solves the system of the matrix passed by the caller",S2,[&](NV &F, NV &X){ return s(B2m,F,X); }); }
    { typedef amgcl::make_solver<amgcl::amg<BB,co::smoothed_aggregation,rx::ilu0>, sv::bicgstab<BB>> BS; typename BS::params p; p.solver.maxiter=k; p.solver.tol=scalar(0); p.solver.abstol=scalar(0); p.precond.coarse_enough=1; BS s(amgcl::adapter::block_matrix<Blk<B>>(*Sm),p);
      solve_truth<BS>("block value type through adapter::block_matrix (amg<smoothed_aggregation,ilu0>, bicgstab)",S,[&](NV &F, NV &X){ auto Fb=be::reinterpret_as_rhs<Blk<B>>(F); auto Xb=be::reinterpret_as_rhs<Blk<B>>(X); return s(Fb,Xb); }); }
    { typedef amgcl::make_solver<amgcl::amg<SB,co::aggregation,rx::as_block<BB,rx::ilu0>::template type>, sv::cg<SB>> AS; typename AS::params p; p.solver.maxiter=k; p.solver.tol=scalar(0); p.solver.abstol=scalar(0); p.precond.coarse_enough=B; p.precond.coarsening.aggr.block_size=B; AS s(*Sm,p); solve_truth<AS>("scalar backend with relaxation::as_block<ilu0>",S,[&](NV &F, NV &X){ return s(F,X); }); }
    { typedef amgcl::make_block_solver<amgcl::amg<BB,co::as_scalar<co::smoothed_aggregation>::template type,rx::damped_jacobi>, sv::cg<BB>> CS; typename CS::params p; p.solver.maxiter=k; p.solver.tol=scalar(0); p.solver.abstol=scalar(0); p.precond.coarse_enough=1; p.precond.coarsening.aggr.block_size=B; CS s(*Sm,p); solve_truth<CS>("block backend with coarsening::as_scalar<smoothed_aggregation>",S,[&](NV &F, NV &X){ return s(F,X); }); }
    { typedef be::builtin_hybrid<Blk<B>> HB; typedef amgcl::make_solver<amgcl::amg<HB,co::smoothed_aggregation,rx::spai0>, sv::cg<HB>> HS; typename HS::params p; p.solver.maxiter=k; p.solver.tol=scalar(0); p.solver.abstol=scalar(0); p.precond.coarse_enough=B; p.precond.coarsening.aggr.block_size=B; HS s(*Sm,p); solve_truth<HS>("hybrid backend (scalar setup, block solve)",S,[&](NV &F, NV &X){ return s(F,X); }); } },coo); }

// coarsening::as_scalar<C> on a block matrix = C with aggr.block_size on the scalar matrix, converted to blocks; restriction = transpose of prolongation
template<int B> static void as_scalar_case(const Pattern &pb) { hx::run_case("as_scalar/b"+std::to_string(B)+"/"+pb.name, [&]() { hx::Rng rng(11); SCrs S=blocked(pb,B,false,false,rng); int n=S.n; auto Sm=hx::to_amgcl(S); typedef be::builtin<Blk<B>> BB; typedef be::crs<Blk<B>,ptrdiff_t,ptrdiff_t> BM;
    BM Ab(amgcl::adapter::block_matrix<Blk<B>>(*Sm)); typedef typename co::as_scalar<co::smoothed_aggregation>::template type<BB> AS; typename AS::params prm; prm.aggr.block_size=B; AS c(prm);
    std::shared_ptr<BM> P, R; std::tie(P,R)=c.transfer_operators(Ab);
    co::smoothed_aggregation<SB> cs(prm); auto PRs=cs.transfer_operators(*Sm); auto &Ps=*std::get<0>(PRs);
    auto expand=[&](const BM &M, size_t rows, size_t cols) { std::vector<std::vector<scalar>> d(rows*B,std::vector<scalar>(cols*B,scalar(0))); for (size_t I=0;I<M.nrows;++I) for (ptrdiff_t k=M.ptr[I];k<M.ptr[I+1];++k) for (int r=0;r<B;++r) for (int q=0;q<B;++q) d[I*B+r][M.col[k]*B+q]=d[I*B+r][M.col[k]*B+q]+M.val[k](r,q); return d; };
    hx::require("as_scalar: block prolongation has the blocked shape of the scalar one", P->nrows*B==Ps.nrows && P->ncols*B==Ps.ncols && R->nrows==P->ncols && R->ncols==P->nrows); if (P->nrows*B!=Ps.nrows || P->ncols*B!=Ps.ncols) return;
    auto Pd=expand(*P,P->nrows,P->ncols), Rd=expand(*R,R->nrows,R->ncols); std::vector<std::vector<scalar>> Psd(Ps.nrows,std::vector<scalar>(Ps.ncols,scalar(0))); for (size_t i=0;i<Ps.nrows;++i) for (ptrdiff_t k=Ps.ptr[i];k<Ps.ptr[i+1];++k) Psd[i][Ps.col[k]]=Psd[i][Ps.col[k]]+Ps.val[k];
    std::vector<scalar> a, b, c1, c2; for (size_t i=0;i<Pd.size();++i) for (size_t j=0;j<Pd[i].size();++j) { a.push_back(Pd[i][j]); b.push_back(Psd[i][j]); c1.push_back(Rd[j][i]); c2.push_back(Pd[i][j]); }
    hx::prove_eq_vec("as_scalar: block prolongation = scalar prolongation (aggr.block_size), entry by entry", a, b); hx::prove_eq_vec("as_scalar: restriction = transpose of the prolongation", c1, c2); }); }

// complex system vs its real-equivalent 2n x 2n form through adapter::complex
static void complex_case(const Pattern &p) { hx::run_case("complex_adapter/"+p.name, [&]() { typedef std::complex<scalar> CX; int n=p.n; hx::Crs<CX> A; A.n=A.m=n; A.ptr=p.ptr; A.col=p.col; for (int i=0;i<n;++i) for (ptrdiff_t k=p.ptr[i];k<p.ptr[i+1];++k) A.val.push_back(CX(var("ar_"+std::to_string(i)+"_"+std::to_string(p.col[k]), i==p.col[k]?4.0:-1.0), var("ai_"+std::to_string(i)+"_"+std::to_string(p.col[k]), 0.5-0.25*(k%3))));
    auto tup=std::tie(n,A.ptr,A.col,A.val); auto Rm=amgcl::adapter::complex_matrix(tup); be::crs<scalar,ptrdiff_t,ptrdiff_t> R(Rm); hx::require("complex adapter: real form is 2n x 2n", R.nrows==(size_t)2*n && R.ncols==(size_t)2*n);
    std::vector<scalar> xr=hx::sym_vector("xr",n), xi=hx::sym_vector("xi",n,-0.5), xx; for (int i=0;i<n;++i) { xx.push_back(xr[i]); xx.push_back(xi[i]); }
    std::vector<scalar> got(2*n,scalar(0)); for (size_t i=0;i<R.nrows;++i) { scalar s=0; for (ptrdiff_t k=R.ptr[i];k<R.ptr[i+1];++k) s+=R.val[k]*xx[R.col[k]]; got[i]=s; }
    std::vector<scalar> ref; for (int i=0;i<n;++i) { scalar sr=0, si=0; for (ptrdiff_t k=p.ptr[i];k<p.ptr[i+1];++k) { int j=p.col[k]; scalar ar=A.val[k].real(), ai=A.val[k].imag(); sr+=ar*xr[j]-ai*xi[j]; si+=ar*xi[j]+ai*xr[j]; } ref.push_back(sr); ref.push_back(si); }
    hx::prove_eq_vec("real-equivalent form of the complex matrix maps (Re x, Im x) interleaved to (Re Ax, Im Ax): same solution set", got, ref);
    // vector adapter round trip
    std::vector<CX> cv; for (int i=0;i<n;++i) cv.push_back(CX(xr[i],xi[i])); auto rv=amgcl::adapter::complex_range(cv); bool same = (size_t)(std::end(rv)-std::begin(rv))==(size_t)2*n; if (same) for (int i=0;i<2*n;++i) same=same&&hx::same_handle(rv[i],xx[i]); hx::require("complex vector adapter exposes (re,im) interleaved without copying or arithmetic", same); }); }

int main(int argc, char **argv) {
    hx::parse_args(argc,argv); bool T=hx::thorough(); hx::Rng rng(hx::args().seed);
    hx::encodes("adapter::block_matrix / unblock_matrix, crs<static_matrix> from the adapter, make_block_solver, relaxation::as_block, coarsening::as_scalar, backend::builtin_hybrid, adapter::complex_matrix / complex_range");
    hx::assume_note("adapter cases: all scalar entries symbolic; formulation cases: concrete SPD block-structured matrices, vectors symbolic, inner coefficients cut, the obligation is truthfulness with respect to the SCALAR system");
    hx::assume_note("NOT decided: a single-precision preconditioner under a double-precision solver reaches 1e-8 (a statement about rounding); Eigen block types");
    std::vector<Pattern> bp{hx::dense_pattern(1,1),hx::dense_pattern(2,2),hx::band_pattern(3,1),hx::mask_pattern(2,2,0x2,true),hx::mask_pattern(3,3,0x0a2,true)};
    for (auto &p : bp) { entries_case<2>(p,false); entries_case<2>(p,true); if (p.n<=2 || T) { entries_case<3>(p,false); entries_case<3>(p,true); } if (T && p.n<=2) entries_case<4>(p,true); }
    for (auto &p : std::vector<Pattern>{hx::band_pattern(3,1),hx::grid_pattern(2,2)}) { formulations_case<2>(p,false,1); formulations_case<2>(p,true,1); if (T) { formulations_case<2>(p,true,2); formulations_case<3>(p,true,1); } }
    if (!T) formulations_case<3>(hx::band_pattern(2,1),true,1);
    for (auto &p : std::vector<Pattern>{hx::dense_pattern(1,1),hx::dense_pattern(2,2),hx::band_pattern(3,1),hx::mask_pattern(3,3,0x0a2,true),hx::mask_pattern(2,2,0x4,false)}) complex_case(p);
    for (auto &pb : std::vector<Pattern>{hx::band_pattern(4,1),hx::grid_pattern(3,2),hx::grid_pattern(3,3)}) { as_scalar_case<2>(pb); if (pb.n<=6) as_scalar_case<3>(pb); }
    return hx::finish();
}
