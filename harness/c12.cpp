// C12: the distributed solve is truthful and rank-consistent for any rank count and row distribution (MPI stand-in lib/symmpi/mpi.h).
#include "hx_amgcl.hpp"
#include <mpi.h>
#include <amgcl/mpi/util.hpp>
#ifdef HX_SYM
namespace amgcl { namespace mpi { template<> struct datatype_impl<symx::sym> { static MPI_Datatype get() { return MPI_SYMX; } }; } }
#endif
#include <amgcl/mpi/make_solver.hpp>
#include <amgcl/mpi/amg.hpp>
#include <amgcl/mpi/coarsening/smoothed_aggregation.hpp>
#include <amgcl/mpi/coarsening/aggregation.hpp>
#include <amgcl/mpi/relaxation/spai0.hpp>
#include <amgcl/mpi/relaxation/gauss_seidel.hpp>
#include <amgcl/mpi/relaxation/damped_jacobi.hpp>
#include <amgcl/mpi/direct_solver/skyline_lu.hpp>
#include <amgcl/mpi/partition/merge.hpp>
#include <amgcl/mpi/solver/cg.hpp>
#include <amgcl/mpi/solver/bicgstab.hpp>
#include <amgcl/mpi/solver/gmres.hpp>
using hx::scalar; using hx::var; using hx::Pattern; using hx::SCrs;
namespace be = amgcl::backend; namespace mp = amgcl::mpi; typedef be::builtin<scalar> BE; typedef be::numa_vector<scalar> NV; typedef hx::ACrs<scalar> M; typedef std::vector<scalar> Vec;
static void compositions(int n, int R, std::vector<int> cur, std::vector<std::vector<int>> &out) { if ((int)cur.size()==R-1) { cur.push_back(n); out.push_back(cur); return; } for (int k=0;k<=n;++k) { auto c=cur; c.push_back(k); compositions(n-k,R,c,out); } }
static std::shared_ptr<M> strip(const SCrs &A, int rb, int re) { auto S=std::make_shared<M>(); S->set_size(re-rb,A.m,true); for (int i=rb;i<re;++i) S->ptr[i-rb+1]=A.ptr[i+1]-A.ptr[i]; S->set_nonzeros(S->scan_row_sizes()); for (int i=rb;i<re;++i) for (ptrdiff_t k=A.ptr[i];k<A.ptr[i+1];++k) { ptrdiff_t d=S->ptr[i-rb]+(k-A.ptr[i]); S->col[d]=A.col[k]; S->val[d]=A.val[k]; } return S; }
static std::string pname(const std::vector<int> &p) { std::string s; for (int v : p) s+=(s.empty()?"":"-")+std::to_string(v); return s; }

template<class Solver, class SetP> static void solve_case(const std::string &nm, const Pattern &p, hx::Rng &rng, const std::vector<int> &rows, int R, SetP setp) { hx::CaseOptions coo; coo.max_paths=6; coo.max_depth=200; hx::run_case("solve/"+nm+"/R"+std::to_string(R)+"/rows"+pname(rows)+"/"+p.name, [&]() {
    hx::Rng r2(rng.s); SCrs A=hx::mmatrix(p,r2); int n=p.n; Vec f=hx::sym_vector("f",n), x0=hx::sym_vector("x",n,0.25); { scalar ff=0; for (auto &v : f) ff+=v*v; hx::assume(hx::le(scalar(1e-30),ff)); }
    std::vector<int> beg(R+1,0); for (int r=0;r<R;++r) beg[r+1]=beg[r]+rows[r]; Vec xs(n); std::vector<size_t> its(R); Vec ress(R); std::vector<int> threw(R,0);
#ifdef HX_SYM
    symmpi::symx_reduce()=[](int op, void *acc, const void *in) { scalar a, b; memcpy(&a,acc,8); memcpy(&b,in,8); if (op==MPI_SUM) a=a+b; else if (op==MPI_PROD) a=a*b; else throw std::runtime_error("symmpi: only SUM/PROD on symbolic scalars"); memcpy(acc,&a,8); };
#endif
    hx::cuts(true);
    try { symmpi::run(R,[&](int rank) { mp::communicator comm(MPI_COMM_WORLD); int rb=beg[rank], re=beg[rank+1], nl=re-rb; auto loc=strip(A,rb,re); typename Solver::params prm; setp(prm);
        auto D=std::make_shared<mp::distributed_matrix<BE>>(comm,*loc,nl); Solver S(comm,D,prm); NV F(nl,false), X(nl,false); for (int i=0;i<nl;++i) { F[i]=f[rb+i]; X[i]=x0[rb+i]; }
        try { std::tie(its[rank],ress[rank])=S(F,X); } catch (const std::runtime_error&) { threw[rank]=1; } for (int i=0;i<nl;++i) xs[rb+i]=X[i]; }); }
    catch (const std::runtime_error &e) { hx::cuts(false); if (std::string(e.what()).find("engine stop")!=std::string::npos) throw; hx::require("distributed solve terminates on all ranks without an MPI-level failure", false, e.what()); return; }
    hx::cuts(false);
    bool same=true; for (int r=1;r<R;++r) same=same&&threw[r]==threw[0]; hx::require("all ranks agree on the outcome (result or breakdown)", same); if (threw[0]) { hx::count("breakdown paths"); return; }
    for (int r=1;r<R;++r) same=same&&its[r]==its[0]&&hx::same_handle(ress[r],ress[0]); hx::require("every rank reports the same iteration count and residual (identical operations)", same);
    scalar res=hx::unfold(ress[0]); Vec Ax=hx::dense_mv(A,xs); scalar rr=0, ff=0; for (int i=0;i<n;++i) { scalar d=f[i]-Ax[i]; rr+=d*d; ff+=f[i]*f[i]; } hx::prove_eq("the assembled solution has the reported global residual: res^2 <f,f> = ||f - A x||^2", res*res*ff, rr); },coo); }
struct symx_rethrow_t {}; 
int main(int argc, char **argv) {
    hx::parse_args(argc,argv); bool T=hx::thorough(); hx::Rng rng(hx::args().seed);
    hx::encodes("mpi::make_solver<mpi::amg<builtin<scalar>, mpi::coarsening::{smoothed_aggregation,aggregation} (PMIS), mpi::relaxation::{spai0,damped_jacobi,gauss_seidel}, mpi::direct::skyline_lu, mpi::partition::merge>, mpi::solver::{cg,bicgstab,gmres}>");
    hx::assume_note("MPI stand-in as in C11 (threads under a global baton, FIFO matching, rendezvous collectives, sub-communicators by MPI_Comm_split); L-mode: concrete SPD M-matrices, vectors symbolic, inner coefficients cut");
    hx::assume_note("NOT decided: convergence of every distributed combination on SPD M-matrices (long floating-point runs), ParMETIS / PT-Scotch repartitioning and PaStiX (not installed), distributed aggregates as a global partition and coarse matrices = R A P (the per-level objects are not inspected here), block value types");
    typedef mp::amg<BE,mp::coarsening::smoothed_aggregation<BE>,mp::relaxation::spai0<BE>,mp::direct::skyline_lu<scalar>,mp::partition::merge<BE>> A1; typedef mp::amg<BE,mp::coarsening::aggregation<BE>,mp::relaxation::damped_jacobi<BE>,mp::direct::skyline_lu<scalar>,mp::partition::merge<BE>> A2;
    auto sp=[](auto &p){ p.precond.coarse_enough=2; p.solver.maxiter=1; p.solver.tol=scalar(0); p.solver.abstol=scalar(0); };
    typedef mp::amg<BE,mp::coarsening::smoothed_aggregation<BE>,mp::relaxation::gauss_seidel<BE>,mp::direct::skyline_lu<scalar>,mp::partition::merge<BE>> A3;
    auto sp2=[](auto &p){ p.precond.coarse_enough=2; p.solver.maxiter=2; p.solver.tol=scalar(0); p.solver.abstol=scalar(0); };
    for (auto &p : std::vector<Pattern>{hx::band_pattern(5,1),hx::grid_pattern(3,2),hx::band_pattern(8,1),hx::grid_pattern(3,3)}) for (int R=1;R<=(T?4:3);++R) { std::vector<std::vector<int>> parts; compositions(p.n,R,{},parts); size_t k=0; for (auto &pt : parts) { ++k; if (p.n>6 && !(T || k%7==1)) continue; if (R==3 && p.n<=6 && !(T || k%3==1)) continue;
        solve_case<mp::make_solver<A1,mp::solver::cg<BE>>>("sa+spai0+cg",p,rng,pt,R,sp); solve_case<mp::make_solver<A2,mp::solver::bicgstab<BE>>>("agg+jacobi+bicgstab",p,rng,pt,R,sp); solve_case<mp::make_solver<A1,mp::solver::gmres<BE>>>("sa+spai0+gmres",p,rng,pt,R,sp);
        if (T || k%2==1) { solve_case<mp::make_solver<A3,mp::solver::cg<BE>>>("sa+gs+cg",p,rng,pt,R,sp); solve_case<mp::make_solver<A1,mp::solver::cg<BE>>>("sa+spai0+cg-k2",p,rng,pt,R,sp2); } } }
    return hx::finish();
}
