// C12: the distributed solve is truthful and rank-consistent for any rank count and row distribution (MPI stand-in lib/symmpi/mpi.h).
#include "hx_amgcl.hpp"
#include <mpi.h>
#include <amgcl/mpi/util.hpp>
#ifdef HX_SYM
namespace amgcl { namespace mpi { template<> struct datatype_impl<symx::sym> { static MPI_Datatype get() { return MPI_SYMX; } }; } }
#endif
#include <amgcl/mpi/make_solver.hpp>
#include <amgcl/mpi/amg.hpp>
#include <amgcl/mpi/coarsening/smoothed_aggregation.hpp>
#include <amgcl/mpi/coarsening/aggregation.hpp>
#include <amgcl/mpi/relaxation/spai0.hpp>
#include <amgcl/mpi/relaxation/gauss_seidel.hpp>
#include <amgcl/mpi/relaxation/damped_jacobi.hpp>
#include <amgcl/mpi/relaxation/ilu0.hpp>
#include <amgcl/mpi/relaxation/chebyshev.hpp>
#include <amgcl/mpi/relaxation/runtime.hpp>
#include <amgcl/mpi/direct_solver/skyline_lu.hpp>
#include <amgcl/mpi/partition/merge.hpp>
#include <amgcl/mpi/solver/cg.hpp>
#include <amgcl/mpi/solver/bicgstab.hpp>
#include <amgcl/mpi/solver/gmres.hpp>
using hx::scalar; using hx::var; using hx::Pattern; using hx::SCrs;
namespace be = amgcl::backend; namespace mp = amgcl::mpi; typedef be::builtin<scalar> BE; typedef be::numa_vector<scalar> NV; typedef hx::ACrs<scalar> M; typedef std::vector<scalar> Vec;
static void compositions(int n, int R, std::vector<int> cur, std::vector<std::vector<int>> &out) { if ((int)cur.size()==R-1) { cur.push_back(n); out.push_back(cur); return; } for (int k=0;k<=n;++k) { auto c=cur; c.push_back(k); compositions(n-k,R,c,out); } }
static std::shared_ptr<M> strip(const SCrs &A, int rb, int re) { auto S=std::make_shared<M>(); S->set_size(re-rb,A.m,true); for (int i=rb;i<re;++i) S->ptr[i-rb+1]=A.ptr[i+1]-A.ptr[i]; S->set_nonzeros(S->scan_row_sizes()); for (int i=rb;i<re;++i) for (ptrdiff_t k=A.ptr[i];k<A.ptr[i+1];++k) { ptrdiff_t d=S->ptr[i-rb]+(k-A.ptr[i]); S->col[d]=A.col[k]; S->val[d]=A.val[k]; } return S; }
static std::string pname(const std::vector<int> &p) { std::string s; for (int v : p) s+=(s.empty()?"":"-")+std::to_string(v); return s; }

template<class Solver, class SetP> static void solve_case(const std::string &nm, const Pattern &p, hx::Rng &rng, const std::vector<int> &rows, int R, SetP setp) { hx::CaseOptions coo; coo.max_paths=6; coo.max_depth=200; hx::run_case("solve/"+nm+"/R"+std::to_string(R)+"/rows"+pname(rows)+"/"+p.name, [&]() {
    hx::Rng r2(rng.s); SCrs A=hx::mmatrix(p,r2); int n=p.n; Vec f=hx::sym_vector("f",n), x0=hx::sym_vector("x",n,0.25); { scalar ff=0; for (auto &v : f) ff+=v*v; hx::assume(hx::le(scalar(1e-30),ff)); }
    std::vector<int> beg(R+1,0); for (int r=0;r<R;++r) beg[r+1]=beg[r]+rows[r]; Vec xs(n); std::vector<size_t> its(R); Vec ress(R); std::vector<int> threw(R,0);
#ifdef HX_SYM
    symmpi::symx_reduce()=[](int op, void *acc, const void *in) { scalar a, b; memcpy(&a,acc,8); memcpy(&b,in,8); if (op==MPI_SUM) a=a+b; else if (op==MPI_PROD) a=a*b; else throw std::runtime_error("symmpi: only SUM/PROD on symbolic scalars"); memcpy(acc,&a,8); };
#endif
    hx::cuts(true);
    try { symmpi::run(R,[&](int rank) { mp::communicator comm(MPI_COMM_WORLD); int rb=beg[rank], re=beg[rank+1], nl=re-rb; auto loc=strip(A,rb,re); typename Solver::params prm; setp(prm);
        auto D=std::make_shared<mp::distributed_matrix<BE>>(comm,*loc,nl); Solver S(comm,D,prm); NV F(nl,false), X(nl,false); for (int i=0;i<nl;++i) { F[i]=f[rb+i]; X[i]=x0[rb+i]; }
        try { std::tie(its[rank],ress[rank])=S(F,X); } catch (const std::runtime_error&) { threw[rank]=1; } for (int i=0;i<nl;++i) xs[rb+i]=X[i]; }); }
    catch (const std::runtime_error &e) { hx::cuts(false); if (std::string(e.what()).find("engine stop")!=std::string::npos) throw; hx::require("distributed solve terminates on all ranks without an MPI-level failure", false, e.what()); return; }
    hx::cuts(false);
    bool same=true; for (int r=1;r<R;++r) same=same&&threw[r]==threw[0]; hx::require("all ranks agree on the outcome (result or breakdown)", same); if (threw[0]) { hx::count("breakdown paths"); return; }
    for (int r=1;r<R;++r) same=same&&its[r]==its[0]&&hx::same_handle(ress[r],ress[0]); hx::require("every rank reports the same iteration count and residual (identical operations)", same);
    scalar res=hx::unfold(ress[0]); Vec Ax=hx::dense_mv(A,xs); scalar rr=0, ff=0; for (int i=0;i<n;++i) { scalar d=f[i]-Ax[i]; rr+=d*d; ff+=f[i]*f[i]; } hx::prove_eq("the assembled solution has the reported global residual: res^2 <f,f> = ||f - A x||^2", res*res*ff, rr); },coo); }
// distributed coarsening objects inspected per level: aggregates form a global partition, R = P^T, coarse matrix = (1/over_interp) R A P.
// Matrix = s * (concrete SPD M-matrix) with ONE symbolic scale s > 0 (strength-of-connection decisions are scale free), scalar and 2x2 block values.
#include <amgcl/value_type/static_matrix.hpp>
#include <amgcl/adapter/block_matrix.hpp>
template<class DMx> static void gather(const DMx &D, int rb, int cb, int B, std::vector<Vec> &G) { const auto &L=*D.local(); const auto &Rm=*D.remote(); typedef typename std::decay<decltype(L.val[0])>::type V;
    auto put=[&](size_t i, ptrdiff_t gc, const V &v) { for (int r=0;r<B;++r) for (int c=0;c<B;++c) { scalar e; if constexpr (std::is_same<V,scalar>::value) e=v; else e=v(r,c); G[(rb+i)*B+r][gc*B+c]=G[(rb+i)*B+r][gc*B+c]+e; } };
    for (size_t i=0;i<L.nrows;++i) { for (ptrdiff_t k=L.ptr[i];k<L.ptr[i+1];++k) put(i,cb+L.col[k],L.val[k]); for (ptrdiff_t k=Rm.ptr[i];k<Rm.ptr[i+1];++k) put(i,Rm.col[k],Rm.val[k]); } }
template<int B, bool SMOOTHED> static void coarsening_case(const Pattern &pb, hx::Rng &rng, const std::vector<int> &rows, int R) { hx::CaseOptions coo; coo.max_paths=6; hx::run_case(std::string("coarsening/")+(SMOOTHED?"smoothed_aggregation":"aggregation")+"/b"+std::to_string(B)+"/R"+std::to_string(R)+"/rows"+pname(rows)+"/"+pb.name, [&]() {
    typedef typename std::conditional<B==1,scalar,amgcl::static_matrix<scalar,B,B>>::type V; typedef be::builtin<V> VB; typedef mp::distributed_matrix<VB> DM; typedef be::crs<V,ptrdiff_t,ptrdiff_t> VM;
    hx::Rng r2(rng.s); int nb=pb.n, n=nb*B; scalar sc=var("s",1.0); hx::assume(hx::lt(scalar(0),sc));
    // block matrix: SPD M-matrix on the block graph (x) non-commuting, non-symmetric-inside-the-block coupling blocks; scalar case: the M-matrix itself
    SCrs Mg=hx::mmatrix(pb,r2); std::vector<V> vals; for (int I=0;I<nb;++I) for (ptrdiff_t k=Mg.ptr[I];k<Mg.ptr[I+1];++k) { int J=Mg.col[k]; if constexpr (B==1) vals.push_back(sc*Mg.val[k]); else { V b; for (int r=0;r<B;++r) for (int c=0;c<B;++c) { double w = r==c ? 1.0 : (I==J ? 0.125*(r<c?1:-1)*0 + 0.125 : 0.25*((r+2*c+I+J)%3-1)); if (I==J && r!=c) w=0.125; b(r,c)=sc*Mg.val[k]*scalar(w); } vals.push_back(b); } }
    if constexpr (B>1) { /* keep the expanded matrix symmetric: block (J,I) = transpose of block (I,J) */ for (int I=0;I<nb;++I) for (ptrdiff_t k=Mg.ptr[I];k<Mg.ptr[I+1];++k) { int J=Mg.col[k]; if (J<I) for (ptrdiff_t q=Mg.ptr[J];q<Mg.ptr[J+1];++q) if (Mg.col[q]==I) for (int r=0;r<B;++r) for (int c=0;c<B;++c) vals[k](r,c)=vals[q](c,r); } }
    std::vector<int> beg(R+1,0); for (int r=0;r<R;++r) beg[r+1]=beg[r]+rows[r];
    std::vector<ptrdiff_t> ncl(R,0), csh(R,0); std::vector<std::shared_ptr<DM>> Ps(R), Rs(R), Acs(R), Pt(R); std::vector<Vec> Ad(n,Vec(n,scalar(0))); float over=1.5f;
#ifdef HX_SYM
    symmpi::symx_reduce()=[](int op, void *acc, const void *in) { scalar a, b; memcpy(&a,acc,8); memcpy(&b,in,8); if (op==MPI_SUM) a=a+b; else if (op==MPI_PROD) a=a*b; else throw std::runtime_error("symmpi: only SUM/PROD on symbolic scalars"); memcpy(acc,&a,8); };
#endif
    symmpi::run(R,[&](int rank) { mp::communicator comm(MPI_COMM_WORLD); int rb=beg[rank], re=beg[rank+1], nl=re-rb; auto loc=std::make_shared<VM>(); loc->set_size(nl,nb,true); for (int i=rb;i<re;++i) loc->ptr[i-rb+1]=Mg.ptr[i+1]-Mg.ptr[i]; loc->set_nonzeros(loc->scan_row_sizes()); for (int i=rb;i<re;++i) for (ptrdiff_t k=Mg.ptr[i];k<Mg.ptr[i+1];++k) { ptrdiff_t d=loc->ptr[i-rb]+(k-Mg.ptr[i]); loc->col[d]=Mg.col[k]; loc->val[d]=vals[k]; }
        DM D(comm,*loc,nl); gather(D,rb,rb,B,Ad);
        typedef typename std::conditional<SMOOTHED,mp::coarsening::smoothed_aggregation<VB>,mp::coarsening::aggregation<VB>>::type C; typename C::params cp; C c(cp);
        { typename mp::coarsening::pmis<VB>::params pp; mp::coarsening::pmis<VB> ag(D,pp); Pt[rank]=ag.p_tent; }
        std::shared_ptr<DM> P, Rr; std::tie(P,Rr)=c.transfer_operators(D); Ps[rank]=P; Rs[rank]=Rr; ncl[rank]=P->loc_cols(); csh[rank]=P->loc_col_shift(); Acs[rank]=c.coarse_operator(D,*P,*Rr); });
    ptrdiff_t nc=0; for (int r=0;r<R;++r) nc+=ncl[r]; bool shifts=true; { ptrdiff_t a=0; for (int r=0;r<R;++r) { shifts=shifts&&csh[r]==a; a+=ncl[r]; } } hx::require("coarse unknowns are numbered contiguously over the ranks", shifts); if (!shifts) return;
    std::vector<Vec> Pd(n,Vec(nc*B,scalar(0))), Rd(nc*B,Vec(n,scalar(0))), Cd(nc*B,Vec(nc*B,scalar(0))), Td(n,Vec(nc*B,scalar(0)));
    for (int r=0;r<R;++r) { gather(*Ps[r],beg[r],(int)csh[r],B,Pd); gather(*Rs[r],(int)csh[r],beg[r],B,Rd); gather(*Acs[r],(int)csh[r],(int)csh[r],B,Cd); gather(*Pt[r],beg[r],(int)Pt[r]->loc_col_shift(),B,Td); }
    // aggregates: every unknown with an off-diagonal coupling is in exactly one aggregate; no empty aggregate
    { bool one=true, nonempty=true; std::string bad; ptrdiff_t nct=Td.empty()?0:(ptrdiff_t)Td[0].size(); std::vector<int> cnt(nct,0); for (int i=0;i<n;++i) { int k=0; for (ptrdiff_t j=0;j<nct;++j) if (!hx::is_zero_value(Td[i][j])) { ++k; cnt[j]++; } bool isolated = (Mg.ptr[i/B+1]-Mg.ptr[i/B])<=1; if (!isolated && k!=1) { one=false; if (bad.empty()) bad="unknown "+std::to_string(i)+" is in "+std::to_string(k)+" aggregates"; } } for (ptrdiff_t j=0;j<nct;++j) nonempty=nonempty&&cnt[j]>0;
      hx::require("distributed aggregation: each non-isolated unknown is in exactly one aggregate", one, bad); hx::require("distributed aggregation: no empty aggregate", nonempty); }
    Vec rg, rr, cg, cr; for (int i=0;i<n;++i) for (ptrdiff_t j=0;j<nc*B;++j) { rg.push_back(Rd[j][i]); rr.push_back(Pd[i][j]); } hx::prove_eq_vec("restriction = transpose of the prolongation (assembled over the ranks)", rg, rr);
    std::vector<Vec> AP(n,Vec(nc*B,scalar(0))); for (int i=0;i<n;++i) for (int k=0;k<n;++k) if (!hx::is_zero_value(Ad[i][k])) for (ptrdiff_t j=0;j<nc*B;++j) AP[i][j]+=Ad[i][k]*Pd[k][j];
    for (ptrdiff_t a=0;a<nc*B;++a) for (ptrdiff_t b=0;b<nc*B;++b) { scalar t=0; for (int i=0;i<n;++i) t+=Rd[a][i]*AP[i][b]; cg.push_back(Cd[a][b]); float inv=1/over; cr.push_back(SMOOTHED ? t : t*scalar((double)inv)); }   /* scaled_galerkin(..., float s): the factor is the FLOAT 1/1.5f */
    hx::prove_eq_vec(std::string("distributed coarse matrix = ")+(SMOOTHED?"R A P":"(1/over_interp) R A P")+" (assembled over the ranks)", cg, cr); },coo); }
// near-null space across rank boundaries: on a symmetric zero-row-sum matrix with WEAK connections (anisotropic grid: -1 along x, -1/64 along y) the rows of the
// distributed smoothed-aggregation prolongation sum to one, for every partition (weak connections -- local or remote -- belong to the filtered diagonal)
static void sa_rowsum_case(int nx, int ny, bool weak_x, const std::vector<int> &rows, int R) { hx::CaseOptions coo; coo.max_paths=6; hx::run_case(std::string("sa_rowsum/")+(weak_x?"weakx":"weaky")+"/grid"+std::to_string(nx)+"x"+std::to_string(ny)+"/R"+std::to_string(R)+"/rows"+pname(rows), [&]() {
    int n=nx*ny; SCrs A; A.n=A.m=n; A.ptr.push_back(0); scalar cx = weak_x ? scalar(1)/scalar(64) : scalar(1), cy = weak_x ? scalar(1) : scalar(1)/scalar(64);
    for (int j=0;j<ny;++j) for (int i=0;i<nx;++i) { int id=j*nx+i; scalar d=0; if (j>0) d+=cy; if (i>0) d+=cx; if (i+1<nx) d+=cx; if (j+1<ny) d+=cy; if (j>0) { A.col.push_back(id-nx); A.val.push_back(scalar(0)-cy); } if (i>0) { A.col.push_back(id-1); A.val.push_back(scalar(0)-cx); } A.col.push_back(id); A.val.push_back(d); if (i+1<nx) { A.col.push_back(id+1); A.val.push_back(scalar(0)-cx); } if (j+1<ny) { A.col.push_back(id+nx); A.val.push_back(scalar(0)-cy); } A.ptr.push_back(A.col.size()); }
    std::vector<int> beg(R+1,0); for (int r=0;r<R;++r) beg[r+1]=beg[r]+rows[r]; typedef mp::distributed_matrix<BE> DM; std::vector<std::shared_ptr<DM>> Ps(R); std::vector<ptrdiff_t> ncl(R,0), csh(R,0);
#ifdef HX_SYM
    symmpi::symx_reduce()=[](int op, void *acc, const void *in) { scalar a, b; memcpy(&a,acc,8); memcpy(&b,in,8); if (op==MPI_SUM) a=a+b; else if (op==MPI_PROD) a=a*b; else if (op==MPI_MAX) a = a<b ? b : a; else if (op==MPI_MIN) a = b<a ? b : a; else throw std::runtime_error("symmpi: unsupported reduction on symbolic scalars"); memcpy(acc,&a,8); };
#endif
    symmpi::run(R,[&](int rank) { mp::communicator comm(MPI_COMM_WORLD); int rb=beg[rank], re=beg[rank+1], nl=re-rb; auto loc=strip(A,rb,re); DM D(comm,*loc,nl); typedef mp::coarsening::smoothed_aggregation<BE> C; C::params cp; C c(cp); std::shared_ptr<DM> P, Rr; std::tie(P,Rr)=c.transfer_operators(D); Ps[rank]=P; ncl[rank]=P->loc_cols(); csh[rank]=P->loc_col_shift(); });
    ptrdiff_t nc=0; for (int r=0;r<R;++r) nc+=ncl[r]; std::vector<Vec> Pd(n,Vec(nc,scalar(0))); for (int r=0;r<R;++r) gather(*Ps[r],beg[r],(int)csh[r],1,Pd);
    Vec sums, ones; for (int i=0;i<n;++i) { bool any=false; scalar t=0; for (ptrdiff_t j=0;j<nc;++j) { if (!hx::is_zero_value(Pd[i][j])) any=true; t+=Pd[i][j]; } if (any) { sums.push_back(t); ones.push_back(scalar(1)); } }
    hx::require("distributed smoothed aggregation: some row interpolates", !sums.empty()); hx::prove_eq_vec("distributed smoothed aggregation on a zero-row-sum matrix: every interpolating row of P sums to one (constant reproduced across rank boundaries)", sums, ones); },coo); }

// every distributed smoother is a splitting method for the GLOBAL matrix: the exact solution of A x = f is a fixed point of one pre- and one post-sweep on every rank
// (the precondition of "converges for each distributed coarsening x relaxation x solver combination"; symbolic solution vector, concrete M-matrix)
template<class P> static void set_type(P &, const std::string &) {} static void set_type(boost::property_tree::ptree &p, const std::string &nm) { p.put("type", nm.substr(nm.find('/')+1)); }
template<class Rx> static void smoother_fixed_point_case(const std::string &nm, const Pattern &p, hx::Rng &rng, const std::vector<int> &rows, int R) { hx::CaseOptions coo; coo.max_paths=6; hx::run_case("smoother_fixed_point/"+nm+"/R"+std::to_string(R)+"/rows"+pname(rows)+"/"+p.name, [&]() {
    hx::Rng r2(rng.s); SCrs A=hx::mmatrix(p,r2); int n=p.n; Vec xs=hx::sym_vector("xs",n,0.5); Vec f=hx::dense_mv(A,xs); std::vector<int> beg(R+1,0); for (int r=0;r<R;++r) beg[r+1]=beg[r]+rows[r]; Vec pre(n), post(n);
#ifdef HX_SYM
    symmpi::symx_reduce()=[](int op, void *acc, const void *in) { scalar a, b; memcpy(&a,acc,8); memcpy(&b,in,8); if (op==MPI_SUM) a=a+b; else if (op==MPI_PROD) a=a*b; else if (op==MPI_MAX) a = a<b ? b : a; else if (op==MPI_MIN) a = b<a ? b : a; else throw std::runtime_error("symmpi: unsupported reduction on symbolic scalars"); memcpy(acc,&a,8); };
#endif
    symmpi::run(R,[&](int rank) { mp::communicator comm(MPI_COMM_WORLD); int rb=beg[rank], re=beg[rank+1], nl=re-rb; auto loc=strip(A,rb,re); typedef mp::distributed_matrix<BE> DM; DM D(comm,*loc,nl); typename Rx::params rp; set_type(rp,nm); Rx rx(D,rp,BE::params()); D.move_to_backend(BE::params());
        for (int post_=0;post_<2;++post_) { NV F(nl,false), X(nl,false), T(nl,false); for (int i=0;i<nl;++i) { F[i]=f[rb+i]; X[i]=xs[rb+i]; T[i]=hx::junk("t"+std::to_string(rb+i)); } if (post_) rx.apply_post(D,F,X,T); else rx.apply_pre(D,F,X,T); for (int i=0;i<nl;++i) (post_?post:pre)[rb+i]=X[i]; } });
    hx::prove_eq_vec(nm+": the exact solution is a fixed point of the distributed pre-sweep", pre, xs); hx::prove_eq_vec(nm+": the exact solution is a fixed point of the distributed post-sweep", post, xs); },coo); }

struct symx_rethrow_t {}; 
int main(int argc, char **argv) {
    hx::parse_args(argc,argv); bool T=hx::thorough(); hx::Rng rng(hx::args().seed);
    hx::encodes("mpi::make_solver<mpi::amg<builtin<scalar>, mpi::coarsening::{smoothed_aggregation,aggregation} (PMIS), mpi::relaxation::{spai0,damped_jacobi,gauss_seidel,ilu0,chebyshev}, mpi::direct::skyline_lu, mpi::partition::merge>, mpi::solver::{cg,bicgstab,gmres}>");
    hx::assume_note("MPI stand-in as in C11 (threads under a global baton, FIFO matching, rendezvous collectives, sub-communicators by MPI_Comm_split); L-mode: concrete SPD M-matrices, vectors symbolic, inner coefficients cut");
    hx::assume_note("NOT decided: convergence of every distributed combination on SPD M-matrices (long floating-point runs), ParMETIS / PT-Scotch repartitioning and PaStiX (not installed); near-null-space reproduction; block value types in the coupled solve (block values are covered for the coarsening objects)");
    typedef mp::amg<BE,mp::coarsening::smoothed_aggregation<BE>,mp::relaxation::spai0<BE>,mp::direct::skyline_lu<scalar>,mp::partition::merge<BE>> A1; typedef mp::amg<BE,mp::coarsening::aggregation<BE>,mp::relaxation::damped_jacobi<BE>,mp::direct::skyline_lu<scalar>,mp::partition::merge<BE>> A2;
    auto sp=[](auto &p){ p.precond.coarse_enough=2; p.solver.maxiter=1; p.solver.tol=scalar(0); p.solver.abstol=scalar(0); };
    typedef mp::amg<BE,mp::coarsening::smoothed_aggregation<BE>,mp::relaxation::gauss_seidel<BE>,mp::direct::skyline_lu<scalar>,mp::partition::merge<BE>> A3;
    auto sp2=[](auto &p){ p.precond.coarse_enough=2; p.solver.maxiter=2; p.solver.tol=scalar(0); p.solver.abstol=scalar(0); };
    for (auto &p : std::vector<Pattern>{hx::band_pattern(5,1),hx::grid_pattern(3,2),hx::band_pattern(8,1),hx::grid_pattern(3,3)}) for (int R=1;R<=(T?4:3);++R) { std::vector<std::vector<int>> parts; compositions(p.n,R,{},parts); size_t k=0; for (auto &pt : parts) { ++k; if (p.n>6 && !(T || k%7==1)) continue; if (R==3 && p.n<=6 && !(T || k%3==1)) continue;
        solve_case<mp::make_solver<A1,mp::solver::cg<BE>>>("sa+spai0+cg",p,rng,pt,R,sp); solve_case<mp::make_solver<A2,mp::solver::bicgstab<BE>>>("agg+jacobi+bicgstab",p,rng,pt,R,sp); solve_case<mp::make_solver<A1,mp::solver::gmres<BE>>>("sa+spai0+gmres",p,rng,pt,R,sp);
        if (T || k%2==1) { solve_case<mp::make_solver<A3,mp::solver::cg<BE>>>("sa+gs+cg",p,rng,pt,R,sp); solve_case<mp::make_solver<A1,mp::solver::cg<BE>>>("sa+spai0+cg-k2",p,rng,pt,R,sp2); } } }
    for (auto &p : std::vector<Pattern>{hx::band_pattern(6,1),hx::grid_pattern(3,2),hx::band_pattern(10,1),hx::grid_pattern(4,3)}) for (int R=1;R<=(T?4:3);++R) { std::vector<std::vector<int>> parts; compositions(p.n,R,{},parts); size_t k=0; for (auto &pt : parts) { ++k; bool onerow=false; for (int v : pt) onerow=onerow||v==1; if (!(T || R==1 || (p.n<=6 && k%3==1) || (onerow && k%5<2) || k%11==0)) continue;
        coarsening_case<1,false>(p,rng,pt,R); coarsening_case<1,true>(p,rng,pt,R); if (p.n<=6 || T) { coarsening_case<2,true>(p,rng,pt,R); if (k%2==0) coarsening_case<2,false>(p,rng,pt,R); } } }
    for (int weak=0;weak<2;++weak) for (auto g : std::vector<std::pair<int,int>>{{3,3},{4,2},{2,4}}) for (int R=1;R<=3;++R) { std::vector<std::vector<int>> parts; compositions(g.first*g.second,R,{},parts); size_t k=0; for (auto &pt : parts) { ++k; if (T || R==1 || k%5==2) sa_rowsum_case(g.first,g.second,weak,pt,R); } }
    for (auto &p : std::vector<Pattern>{hx::band_pattern(5,1),hx::grid_pattern(3,2)}) for (int R=1;R<=3;++R) { std::vector<std::vector<int>> parts; compositions(p.n,R,{},parts); size_t k=0; for (auto &pt : parts) { ++k; if (!(T || R==1 || k%4==1)) continue;
        smoother_fixed_point_case<mp::relaxation::spai0<BE>>("spai0",p,rng,pt,R); smoother_fixed_point_case<mp::relaxation::damped_jacobi<BE>>("damped_jacobi",p,rng,pt,R); smoother_fixed_point_case<mp::relaxation::gauss_seidel<BE>>("gauss_seidel",p,rng,pt,R); smoother_fixed_point_case<mp::relaxation::ilu0<BE>>("ilu0",p,rng,pt,R); smoother_fixed_point_case<mp::relaxation::chebyshev<BE>>("chebyshev",p,rng,pt,R);
        if (R>1) for (const char *t : {"gauss_seidel","damped_jacobi","ilu0","spai0","iluk"}) smoother_fixed_point_case<amgcl::runtime::mpi::relaxation::wrapper<BE>>(std::string("runtime/")+t,p,rng,pt,R); } }
    return hx::finish();
}
