// C11: distributed matrix algebra equals serial algebra for every contiguous partition (in-process MPI stand-in, lib/symmpi/mpi.h).
#include "hx_amgcl.hpp"
#include <mpi.h>
#include <amgcl/mpi/util.hpp>
#ifdef HX_SYM
namespace amgcl { namespace mpi { template<> struct datatype_impl<symx::sym> { static MPI_Datatype get() { return MPI_SYMX; } }; } }
#endif
#include <amgcl/mpi/inner_product.hpp>
#include <amgcl/mpi/distributed_matrix.hpp>
using hx::scalar; using hx::var; using hx::Pattern; using hx::SCrs;
namespace be = amgcl::backend; typedef be::builtin<scalar> BE; typedef be::numa_vector<scalar> NV; typedef hx::ACrs<scalar> M; typedef std::vector<scalar> Vec; typedef amgcl::mpi::distributed_matrix<BE> DM;
// all compositions of n into R non-negative parts (contiguous partitions, empty ranks allowed)
static void compositions(int n, int R, std::vector<int> cur, std::vector<std::vector<int>> &out) { if ((int)cur.size()==R-1) { cur.push_back(n); out.push_back(cur); return; } for (int k=0;k<=n;++k) { auto c=cur; c.push_back(k); compositions(n-k,R,c,out); } }
// local strip (rows rb..re) of a global matrix with global column indices
static std::shared_ptr<M> strip(const SCrs &A, int rb, int re) { auto S=std::make_shared<M>(); S->set_size(re-rb,A.m,true); for (int i=rb;i<re;++i) S->ptr[i-rb+1]=A.ptr[i+1]-A.ptr[i]; S->set_nonzeros(S->scan_row_sizes()); for (int i=rb;i<re;++i) for (ptrdiff_t k=A.ptr[i];k<A.ptr[i+1];++k) { ptrdiff_t d=S->ptr[i-rb]+(k-A.ptr[i]); S->col[d]=A.col[k]; S->val[d]=A.val[k]; } return S; }
static std::string pname(const std::vector<int> &p) { std::string s; for (int v : p) s+=(s.empty()?"":"-")+std::to_string(v); return s; }
// assemble the global dense matrix from the distributed one (local + remote parts, remote columns mapped back through the comm pattern)
static void gather_dense(const DM &D, int rb, int cb, const std::vector<ptrdiff_t> &col_domain, std::vector<std::vector<scalar>> &G) { const M &L=*D.local(); const M &Rm=*D.remote(); const auto &C=D.cpat(); for (size_t i=0;i<L.nrows;++i) { for (ptrdiff_t k=L.ptr[i];k<L.ptr[i+1];++k) G[rb+i][cb+L.col[k]]=G[rb+i][cb+L.col[k]]+L.val[k]; for (ptrdiff_t k=Rm.ptr[i];k<Rm.ptr[i+1];++k) { ptrdiff_t gc=Rm.col[k]; G[rb+i][gc]=G[rb+i][gc]+Rm.val[k]; } } (void)C; (void)col_domain; }

static void algebra_case(const Pattern &pa, const std::vector<int> &rows, int R) { hx::run_case("algebra/R"+std::to_string(R)+"/rows"+pname(rows)+"/"+pa.name, [&]() {
    if (pa.n!=pa.m) return; int n=pa.n; SCrs A=hx::symbolic_matrix(pa,"a",false); Vec x=hx::sym_vector("x",n), y=hx::sym_vector("y",n,-0.5), f=hx::sym_vector("f",n,0.75); scalar alpha=var("alpha",0.75), beta=var("beta",-1.25);
    std::vector<int> beg(R+1,0); for (int r=0;r<R;++r) beg[r+1]=beg[r]+rows[r];
    Vec y_out(n), r_out(n), ips(R), ssum(R); std::vector<std::vector<scalar>> Td(n,Vec(n,scalar(0))), Pd(n,Vec(n,scalar(0))), Sd(n,Vec(n,scalar(0))); std::vector<ptrdiff_t> grows(R), gcols(R);
#ifdef HX_SYM
    symmpi::symx_reduce()=[](int op, void *acc, const void *in) { scalar a, b; memcpy(&a,acc,8); memcpy(&b,in,8); if (op==MPI_SUM) a=a+b; else if (op==MPI_PROD) a=a*b; else throw std::runtime_error("symmpi: only SUM/PROD on symbolic scalars"); memcpy(acc,&a,8); };
#endif
    symmpi::run(R,[&](int rank) { amgcl::mpi::communicator comm(MPI_COMM_WORLD); int rb=beg[rank], re=beg[rank+1], nl=re-rb;
        auto loc=strip(A,rb,re); DM D(comm,*loc,nl); grows[rank]=D.glob_rows(); gcols[rank]=D.glob_cols();
        NV X(nl,false), Y(nl,false), F(nl,false), Rr(nl,false); for (int i=0;i<nl;++i) { X[i]=x[rb+i]; Y[i]=y[rb+i]; F[i]=f[rb+i]; Rr[i]=hx::junk("r"+std::to_string(rb+i)); }
        D.move_to_backend(BE::params(),true);
        D.mul(alpha,X,beta,Y); for (int i=0;i<nl;++i) y_out[rb+i]=Y[i];
        D.residual(F,X,Rr); for (int i=0;i<nl;++i) r_out[rb+i]=Rr[i];
        amgcl::mpi::inner_product ip(comm); ips[rank]=ip(X,F); ssum[rank]=comm.reduce(MPI_SUM,scalar(1)*x[0]*scalar(rank==0?1:0)+scalar(rank));
        auto T=amgcl::mpi::transpose(D); gather_dense(*T,rb,rb,{},Td);
        auto P=amgcl::mpi::product(D,D); gather_dense(*P,rb,rb,{},Pd);
        DM D2(comm,*loc,nl); amgcl::mpi::scale(D2,alpha); amgcl::mpi::sort_rows(D2); gather_dense(D2,rb,rb,{},Sd);
    });
    auto Ad=A.dense(); Vec Ax=hx::dense_mv(A,x), yr, rr; for (int i=0;i<n;++i) { yr.push_back(alpha*Ax[i]+beta*y[i]); rr.push_back(f[i]-Ax[i]); }
    hx::prove_eq_vec("distributed mul: y = alpha A x + beta y equals the serial product on the assembled matrix", y_out, yr); hx::prove_eq_vec("distributed residual = serial residual", r_out, rr);
    bool clean=true; for (auto &v : r_out) clean=clean&&hx::independent_of(v,"junk_"); hx::require("distributed residual ignores the old output", clean);
    scalar ipr=0; for (int i=0;i<n;++i) ipr+=x[i]*f[i]; bool same=true; for (int r=1;r<R;++r) same=same&&hx::same_handle(ips[r],ips[0])&&hx::same_handle(ssum[r],ssum[0]); hx::require("collective scalar results are identical on all ranks (same operations)", same); hx::prove_eq("distributed inner product = serial inner product", ips[0], ipr);
    bool sz=true; for (int r=0;r<R;++r) sz=sz&&grows[r]==n&&gcols[r]==n; hx::require("global sizes are identical on all ranks and equal the serial sizes", sz);
    Vec tg, tr, pg, pr, sg, sr; for (int i=0;i<n;++i) for (int j=0;j<n;++j) { tg.push_back(Td[i][j]); tr.push_back(Ad[j][i]); scalar s=0; for (int k=0;k<n;++k) s+=Ad[i][k]*Ad[k][j]; pg.push_back(Pd[i][j]); pr.push_back(s); sg.push_back(Sd[i][j]); sr.push_back(alpha*Ad[i][j]); }
    hx::prove_eq_vec("distributed transpose = serial transpose of the assembled matrix", tg, tr); hx::prove_eq_vec("distributed product A*A = serial product", pg, pr); hx::prove_eq_vec("distributed scale + sort_rows = serial scaling", sg, sr); }); }

// rectangular matrices, rows and columns partitioned independently (ranks owning rows but no columns, columns but no rows, or nothing)
static void rect_case(const Pattern &pa, const std::vector<int> &rows, const std::vector<int> &cols, int R) { hx::run_case("rect/R"+std::to_string(R)+"/rows"+pname(rows)+"/cols"+pname(cols)+"/"+pa.name, [&]() {
    int n=pa.n, m=pa.m; SCrs A=hx::symbolic_matrix(pa,"a",false); Vec x=hx::sym_vector("x",m), y=hx::sym_vector("y",n,-0.5); scalar alpha=var("alpha",0.75), beta=var("beta",-1.25);
    std::vector<int> rbeg(R+1,0), cbeg(R+1,0); for (int r=0;r<R;++r) { rbeg[r+1]=rbeg[r]+rows[r]; cbeg[r+1]=cbeg[r]+cols[r]; }
    Vec y_out(n); std::vector<std::vector<scalar>> Gd(n,Vec(m,scalar(0))), Td(m,Vec(n,scalar(0))), Pd(m,Vec(m,scalar(0))); std::vector<ptrdiff_t> grows(R), gcols(R), lcols(R), lshift(R);
#ifdef HX_SYM
    symmpi::symx_reduce()=[](int op, void *acc, const void *in) { scalar a, b; memcpy(&a,acc,8); memcpy(&b,in,8); if (op==MPI_SUM) a=a+b; else if (op==MPI_PROD) a=a*b; else throw std::runtime_error("symmpi: only SUM/PROD on symbolic scalars"); memcpy(acc,&a,8); };
#endif
    symmpi::run(R,[&](int rank) { amgcl::mpi::communicator comm(MPI_COMM_WORLD); int rb=rbeg[rank], re=rbeg[rank+1], nl=re-rb, cb=cbeg[rank], ml=cbeg[rank+1]-cb;
        auto loc=strip(A,rb,re); DM D(comm,*loc,ml); grows[rank]=D.glob_rows(); gcols[rank]=D.glob_cols(); lcols[rank]=D.loc_cols(); lshift[rank]=D.loc_col_shift();
        gather_dense(D,rb,cb,{},Gd);
        NV X(ml,false), Y(nl,false); for (int i=0;i<ml;++i) X[i]=x[cb+i]; for (int i=0;i<nl;++i) Y[i]=y[rb+i];
        auto T=amgcl::mpi::transpose(D); gather_dense(*T,cb,rb,{},Td);
        auto P=amgcl::mpi::product(*T,D); gather_dense(*P,cb,cb,{},Pd);
        D.move_to_backend(BE::params(),true); D.mul(alpha,X,beta,Y); for (int i=0;i<nl;++i) y_out[rb+i]=Y[i];
    });
    bool sz=true; for (int r=0;r<R;++r) sz=sz&&grows[r]==n&&gcols[r]==m&&lcols[r]==cols[r]&&lshift[r]==cbeg[r]; hx::require("rectangular: global sizes, local column counts and column offsets equal the partition on every rank", sz);
    auto Ad=A.dense(); Vec Ax=hx::dense_mv(A,x), yr; for (int i=0;i<n;++i) yr.push_back(alpha*Ax[i]+beta*y[i]);
    Vec gg, gr, tg, tr, pg, pr; for (int i=0;i<n;++i) for (int j=0;j<m;++j) { gg.push_back(Gd[i][j]); gr.push_back(Ad[i][j]); tg.push_back(Td[j][i]); tr.push_back(Ad[i][j]); } for (int i=0;i<m;++i) for (int j=0;j<m;++j) { scalar s=0; for (int k=0;k<n;++k) s+=Ad[k][i]*Ad[k][j]; pg.push_back(Pd[i][j]); pr.push_back(s); }
    hx::prove_eq_vec("rectangular: local + remote parts assemble to the global matrix", gg, gr); hx::prove_eq_vec("rectangular: distributed mul = serial product", y_out, yr); hx::prove_eq_vec("rectangular: distributed transpose = serial transpose", tg, tr); hx::prove_eq_vec("rectangular: distributed product A^T A = serial product", pg, pr); }); }

// Gershgorin spectral-radius estimate (power_iters = 0): identical on all ranks and equal to the serial value max_i sum_j |a_ij| (scaled: / |a_ii|);
// power method (power_iters > 0): identical on all ranks.  Concrete dyadic matrices (|.| and max would fork on every symbolic entry), rows of different weight.
static void radius_case(const Pattern &pa, const std::vector<int> &rows, int R, hx::Rng &rng) { hx::run_case("spectral_radius/R"+std::to_string(R)+"/rows"+pname(rows)+"/"+pa.name, [&]() {
    if (pa.n!=pa.m) return; int n=pa.n; hx::Rng r2(rng.s); SCrs A=hx::ddmatrix(pa,r2); for (int i=0;i<n;++i) for (ptrdiff_t k=A.ptr[i];k<A.ptr[i+1];++k) A.val[k]=A.val[k]*scalar(1+((i*5+2)%7))/scalar(4);
    std::vector<int> beg(R+1,0); for (int r=0;r<R;++r) beg[r+1]=beg[r]+rows[r];
    Vec g0(R), g1(R), p0(R), p1(R);
#ifdef HX_SYM
    symmpi::symx_reduce()=[](int op, void *acc, const void *in) { scalar a, b; memcpy(&a,acc,8); memcpy(&b,in,8); if (op==MPI_SUM) a=a+b; else if (op==MPI_PROD) a=a*b; else if (op==MPI_MAX) a = a<b ? b : a; else if (op==MPI_MIN) a = b<a ? b : a; else throw std::runtime_error("symmpi: unsupported reduction on symbolic scalars"); memcpy(acc,&a,8); };
#endif
    symmpi::run(R,[&](int rank) { amgcl::mpi::communicator comm(MPI_COMM_WORLD); int rb=beg[rank], re=beg[rank+1], nl=re-rb; auto loc=strip(A,rb,re); DM D(comm,*loc,nl); D.move_to_backend(BE::params(),true);
        g0[rank]=be::spectral_radius<false>(D,0); g1[rank]=be::spectral_radius<true>(D,0); p0[rank]=be::spectral_radius<false>(D,2); p1[rank]=be::spectral_radius<true>(D,2); });
    auto Ad=A.dense(); scalar s0=0, s1=0; for (int i=0;i<n;++i) { scalar t=0; for (int j=0;j<n;++j) t+=abs(Ad[i][j]); scalar u=t/abs(Ad[i][i]); if (s0<t) s0=t; if (s1<u) s1=u; }
    Vec a, b; for (int r=0;r<R;++r) { a.push_back(g0[r]); b.push_back(s0); a.push_back(g1[r]); b.push_back(s1); }
    hx::prove_eq_vec("Gershgorin spectral-radius estimate (plain, scaled) on every rank = serial value of the assembled matrix", a, b);
    Vec c, d; for (int r=1;r<R;++r) { c.push_back(p0[r]); d.push_back(p0[0]); c.push_back(p1[r]); d.push_back(p1[0]); }
    hx::prove_eq_vec("power-method spectral-radius estimate is identical on all ranks", c, d); }); }

int main(int argc, char **argv) {
    hx::parse_args(argc,argv); bool T=hx::thorough(); hx::Rng rng(hx::args().seed);
    hx::encodes("mpi::distributed_matrix<builtin<scalar>> (constructor from a strip with global columns, comm_pattern, move_to_backend, mul, residual), mpi::inner_product, communicator::reduce / exclusive_sum, mpi::transpose, mpi::product (incl. remote_rows), mpi::scale, mpi::sort_rows, backend::spectral_radius<scale>(distributed_matrix, power_iters)");
    hx::assume_note("MPI is an in-process stand-in (lib/symmpi/mpi.h): ranks are threads under a global baton (no concurrency in the term store), point-to-point messages are buffered and matched FIFO per (source, destination, tag), collectives are rendezvous that reduce in rank order; amgcl uses no wildcard receives, so under this contract results cannot depend on arrival order");
    hx::assume_note("all matrix values, vectors and coefficients symbolic; row partitions = all compositions of n into R parts (empty ranks included); rows and columns are partitioned alike (square matrices)");
    hx::assume_note("NOT covered: real MPI runtimes, more than 4 ranks; the spectral-radius estimates are decided on concrete dyadic matrices (absolute values and maxima would fork on every symbolic entry)");
    std::vector<Pattern> ps{hx::band_pattern(3,1),hx::dense_pattern(3,3),hx::mask_pattern(3,3,0x0a6,false),hx::band_pattern(4,1),hx::mask_pattern(4,4,0x9a5c,true)}; for (int k=0;k<(T?12:3);++k) ps.push_back(hx::mask_pattern(4,4,rng.next()&0xffff,false));
    for (auto &p : ps) for (int R=1;R<=(T?4:3);++R) { std::vector<std::vector<int>> parts; compositions(p.n,R,{},parts); for (auto &pt : parts) if (T || p.n<=3 || rng.below(3)==0 || R==1) algebra_case(p,pt,R); }
    for (auto &p : std::vector<Pattern>{hx::dense_pattern(3,2),hx::mask_pattern(3,2,0x2d,false),hx::mask_pattern(2,3,0x1e,false),hx::random_pattern(4,3,rng,2,false)}) for (int R=2;R<=3;++R) { std::vector<std::vector<int>> rp, cp; compositions(p.n,R,{},rp); compositions(p.m,R,{},cp); size_t k=0; for (auto &a : rp) for (auto &b : cp) { ++k; if (T || p.n*p.m<=6 && (R==2 || k%3==0) || k%7==0) rect_case(p,a,b,R); } }
    for (auto &p : std::vector<Pattern>{hx::band_pattern(4,1),hx::dense_pattern(3,3),hx::grid_pattern(3,2)}) for (int R=1;R<=(T?4:3);++R) { std::vector<std::vector<int>> parts; compositions(p.n,R,{},parts); size_t k=0; for (auto &pt : parts) { ++k; if (T || p.n<=4 || k%3==0) radius_case(p,pt,R,rng); } }
    return hx::finish();
}
