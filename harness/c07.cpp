// C07: backend vector and SpMV primitives equal their algebraic definitions.
// Real templates: amgcl::backend::{spmv,residual,axpby,axpbypcz,vmul,copy,clear,inner_product,lin_comb}
// on builtin<T>, T in { scalar, static_matrix<scalar,2,2>, complex<scalar> }, block_crs and builtin_hybrid.
#include "hx_amgcl.hpp"
#include <amgcl/value_type/complex.hpp>
#include <amgcl/backend/block_crs.hpp>
#include <amgcl/backend/builtin_hybrid.hpp>
#include <complex>
using hx::scalar; using hx::var; using hx::Pattern; using hx::SCrs;
namespace be = amgcl::backend; namespace math = amgcl::math;
typedef be::numa_vector<scalar> NV;

static std::vector<scalar> dense_spmv(const SCrs &A, const std::vector<scalar> &x) { return hx::dense_mv(A,x); }

// scalar value type, all values and coefficients symbolic
static void scalar_case(const Pattern &p) {
    hx::run_case("scalar/"+p.name, [&]() {
        SCrs A=hx::symbolic_matrix(p,"a",false); auto Am=hx::to_amgcl(A);
        std::vector<scalar> x=hx::sym_vector("x",p.m), y0=hx::sym_vector("y",p.n), f=hx::sym_vector("f",p.n);
        scalar alpha=var("alpha",0.75), beta=var("beta",-1.25);
        std::vector<scalar> Ax=dense_spmv(A,x);
        { // spmv, symbolic beta: the beta==0 branch is a solver-decided fork
            NV X=hx::to_numa(x), Y=hx::to_numa(y0); be::spmv(alpha,*Am,X,beta,Y);
            std::vector<scalar> ref; for (int i=0;i<p.n;++i) ref.push_back(alpha*Ax[i]+beta*y0[i]);
            hx::prove_eq_vec("spmv: y = alpha A x + beta y", hx::to_vec(Y), ref);
            if (hx::path_forces_eq(beta,scalar(0))) { bool ok=true; for (int i=0;i<p.n;++i) ok = ok && hx::independent_of(Y[i],"y"); hx::require("spmv: beta==0 path never reads old y", ok); hx::count("beta==0 paths"); }
        }
        { // spmv with literal zero beta into junk
            NV X=hx::to_numa(x), Y(p.n,false); for (int i=0;i<p.n;++i) Y[i]=hx::junk("y"+std::to_string(i)); be::spmv(alpha,*Am,X,0,Y);
            std::vector<scalar> ref; bool ok=true; for (int i=0;i<p.n;++i) { ref.push_back(alpha*Ax[i]); ok = ok && hx::independent_of(Y[i],"junk_"); }
            hx::require("spmv(beta=0): old output content (NaN) does not influence the result", ok);
            hx::prove_eq_vec("spmv(beta=0): y = alpha A x", hx::to_vec(Y), ref);
        }
        { // residual into junk
            NV X=hx::to_numa(x), Fv=hx::to_numa(f), R(p.n,false); for (int i=0;i<p.n;++i) R[i]=hx::junk("r"+std::to_string(i)); be::residual(Fv,*Am,X,R);
            std::vector<scalar> ref; bool ok=true; for (int i=0;i<p.n;++i) { ref.push_back(f[i]-Ax[i]); ok = ok && hx::independent_of(R[i],"junk_"); }
            hx::require("residual: old output content does not influence the result", ok);
            hx::prove_eq_vec("residual: r = f - A x", hx::to_vec(R), ref);
        }
    });
}

static void vector_case(int n) {
    hx::run_case("vector/n"+std::to_string(n), [&]() {
        std::vector<scalar> x=hx::sym_vector("x",n), y=hx::sym_vector("y",n), z=hx::sym_vector("z",n);
        scalar a=var("a",0.5), b=var("b",2.0), c=var("c",-0.75);
        { NV X=hx::to_numa(x), Y=hx::to_numa(y); be::axpby(a,X,b,Y); std::vector<scalar> ref; for (int i=0;i<n;++i) ref.push_back(a*x[i]+b*y[i]); hx::prove_eq_vec("axpby",hx::to_vec(Y),ref);
          if (hx::path_forces_eq(b,scalar(0))) { bool ok=true; for (int i=0;i<n;++i) ok=ok&&hx::independent_of(Y[i],"y"); hx::require("axpby: b==0 path never reads old y",ok); hx::count("beta==0 paths"); } }
        { NV X=hx::to_numa(x), Y=hx::to_numa(y), Z=hx::to_numa(z); be::axpbypcz(a,X,b,Y,c,Z); std::vector<scalar> ref; for (int i=0;i<n;++i) ref.push_back(a*x[i]+b*y[i]+c*z[i]); hx::prove_eq_vec("axpbypcz",hx::to_vec(Z),ref);
          if (hx::path_forces_eq(c,scalar(0))) { bool ok=true; for (int i=0;i<n;++i) ok=ok&&hx::independent_of(Z[i],"z"); hx::require("axpbypcz: c==0 path never reads old z",ok); hx::count("beta==0 paths"); } }
        { NV X=hx::to_numa(x), Y=hx::to_numa(y), Z=hx::to_numa(z); be::vmul(a,X,Y,b,Z); std::vector<scalar> ref; for (int i=0;i<n;++i) ref.push_back(a*x[i]*y[i]+b*z[i]); hx::prove_eq_vec("vmul",hx::to_vec(Z),ref);
          if (hx::path_forces_eq(b,scalar(0))) { bool ok=true; for (int i=0;i<n;++i) ok=ok&&hx::independent_of(Z[i],"z"); hx::require("vmul: b==0 path never reads old z",ok); hx::count("beta==0 paths"); } }
        { NV X=hx::to_numa(x), Y(n,false), Z(n,false); for (int i=0;i<n;++i) { Y[i]=hx::junk("y"+std::to_string(i)); Z[i]=hx::junk("z"+std::to_string(i)); }
          be::axpby(a,X,0,Y); be::copy(X,Z); bool ok=true; std::vector<scalar> ref; for (int i=0;i<n;++i) { ref.push_back(a*x[i]); ok=ok&&hx::independent_of(Y[i],"junk_")&&hx::same_handle(Z[i],x[i]); }
          hx::require("axpby(b=0)/copy: old content ignored, copy is exact",ok); hx::prove_eq_vec("axpby(b=0)",hx::to_vec(Y),ref);
          be::clear(Z); ok=true; for (int i=0;i<n;++i) ok=ok&&hx::same_handle(Z[i],scalar(0)); hx::require("clear gives exact zeros",ok);
          NV W(n,false); for (int i=0;i<n;++i) W[i]=hx::junk("w"+std::to_string(i)); NV Xv=hx::to_numa(x), Yv=hx::to_numa(y); be::axpbypcz(a,Xv,b,Yv,0,W); ok=true; ref.clear(); for (int i=0;i<n;++i) { ref.push_back(a*x[i]+b*y[i]); ok=ok&&hx::independent_of(W[i],"junk_"); }
          hx::require("axpbypcz(c=0): old content ignored",ok); hx::prove_eq_vec("axpbypcz(c=0)",hx::to_vec(W),ref);
          NV V(n,false); for (int i=0;i<n;++i) V[i]=hx::junk("v"+std::to_string(i)); be::vmul(a,Xv,Yv,0,V); ok=true; ref.clear(); for (int i=0;i<n;++i) { ref.push_back(a*x[i]*y[i]); ok=ok&&hx::independent_of(V[i],"junk_"); }
          hx::require("vmul(b=0): old content ignored",ok); hx::prove_eq_vec("vmul(b=0)",hx::to_vec(V),ref); }
        { NV X=hx::to_numa(x), Y=hx::to_numa(y); scalar ip=be::inner_product(X,Y); scalar ref=0; for (int i=0;i<n;++i) ref+=x[i]*y[i]; hx::prove_eq("inner_product = sum x_i y_i",ip,ref); }
        { // lin_comb: y = sum c_k v_k + b y
          NV X=hx::to_numa(x), Z=hx::to_numa(z), Y=hx::to_numa(y); std::vector<scalar> cs{a,c}; std::vector<NV*> vs{&X,&Z};
          be::lin_comb(2,cs,vs,b,Y); std::vector<scalar> ref; for (int i=0;i<n;++i) ref.push_back(a*x[i]+c*z[i]+b*y[i]); hx::prove_eq_vec("lin_comb",hx::to_vec(Y),ref); }
    });
}

// 2x2 block value type: matrix entries are blocks, vectors are 2x1 blocks; reference = scalar expansion
typedef amgcl::static_matrix<scalar,2,2> B2; typedef amgcl::static_matrix<scalar,2,1> V2;
static void block_case(const Pattern &p) {
    hx::run_case("block2/"+p.name, [&]() {
        int n=p.n, m=p.m; std::vector<B2> val; hx::Crs<B2> A; A.n=n; A.m=m; A.ptr=p.ptr; A.col=p.col;
        SCrs S; S.n=2*n; S.m=2*m; std::vector<std::vector<std::pair<int,scalar>>> rows(2*n);
        for (int i=0;i<n;++i) for (ptrdiff_t k=p.ptr[i];k<p.ptr[i+1];++k) { B2 b; for (int r=0;r<2;++r) for (int c=0;c<2;++c) { b(r,c)=var("a_"+std::to_string(i)+"_"+std::to_string(p.col[k])+"_"+std::to_string(r)+std::to_string(c), 0.5+0.25*((i+k+r*2+c)%5)); rows[2*i+r].push_back({2*(int)p.col[k]+c,b(r,c)}); } A.val.push_back(b); }
        S.ptr.push_back(0); for (auto &r : rows) { for (auto &e : r) { S.col.push_back(e.first); S.val.push_back(e.second); } S.ptr.push_back(S.col.size()); }
        auto Am=hx::to_amgcl(A);
        std::vector<scalar> x=hx::sym_vector("x",2*m), y=hx::sym_vector("y",2*n), f=hx::sym_vector("f",2*n); scalar alpha=var("alpha",0.75), beta=var("beta",-1.25);
        std::vector<scalar> Sx=hx::dense_mv(S,x);
        auto pack=[&](const std::vector<scalar> &v) { be::numa_vector<V2> r(v.size()/2,false); for (size_t i=0;i<v.size()/2;++i) { V2 b; b(0)=v[2*i]; b(1)=v[2*i+1]; r[i]=b; } return r; };
        auto unpack=[&](const be::numa_vector<V2> &v) { std::vector<scalar> r; for (size_t i=0;i<v.size();++i) { r.push_back(v[i](0)); r.push_back(v[i](1)); } return r; };
        { auto X=pack(x), Y=pack(y); be::spmv(alpha,*Am,X,beta,Y); std::vector<scalar> ref; for (int i=0;i<2*n;++i) ref.push_back(alpha*Sx[i]+beta*y[i]); hx::prove_eq_vec("block spmv = scalar expansion",unpack(Y),ref); }
        { // scalar vectors passed where block vectors are expected
          NV X=hx::to_numa(x), Y=hx::to_numa(y); be::spmv(alpha,*Am,X,beta,Y); auto Xb=pack(x), Yb=pack(y); be::spmv(alpha,*Am,Xb,beta,Yb); std::vector<scalar> yb=unpack(Yb); bool same=true; for (int i=0;i<2*n;++i) same=same&&hx::same_handle(Y[i],yb[i]);
          hx::require("scalar vectors in place of block vectors give identical results (same operations)",same);
          NV Fv=hx::to_numa(f), R(2*n,false); for (int i=0;i<2*n;++i) R[i]=hx::junk("r"+std::to_string(i)); be::residual(Fv,*Am,X,R); std::vector<scalar> ref; bool ok=true; for (int i=0;i<2*n;++i) { ref.push_back(f[i]-Sx[i]); ok=ok&&hx::independent_of(R[i],"junk_"); }
          hx::require("block residual with scalar vectors: old content ignored",ok); hx::prove_eq_vec("block residual = scalar expansion",hx::to_vec(R),ref); }
        if (n==m) { // vmul with block diagonal "matrix" vector and inner product of block vectors
          be::numa_vector<B2> D(n,false); std::vector<std::vector<scalar>> d(n,std::vector<scalar>(4)); for (int i=0;i<n;++i) { B2 b; for (int r=0;r<2;++r) for (int c=0;c<2;++c) { b(r,c)=var("d_"+std::to_string(i)+"_"+std::to_string(r)+std::to_string(c),1.0+0.5*r-0.25*c); d[i][2*r+c]=b(r,c); } D[i]=b; }
          auto X=pack(x), Z=pack(y); be::vmul(alpha,D,X,beta,Z); std::vector<scalar> ref; for (int i=0;i<n;++i) for (int r=0;r<2;++r) ref.push_back(alpha*(d[i][2*r]*x[2*i]+d[i][2*r+1]*x[2*i+1])+beta*y[2*i+r]); hx::prove_eq_vec("block vmul",unpack(Z),ref);
          auto Xb=pack(x), Yb=pack(y); auto ip=be::inner_product(Xb,Yb); scalar refip=0; for (int i=0;i<2*n;++i) refip+=x[i]*y[i]; hx::prove_eq("block inner product = scalar inner product", math::norm(ip)*0+ip, refip); }
    });
}

// complex value type: reference via real and imaginary parts
typedef std::complex<scalar> CX;
static void complex_case(const Pattern &p) {
    hx::run_case("complex/"+p.name, [&]() {
        int n=p.n, m=p.m; hx::Crs<CX> A; A.n=n; A.m=m; A.ptr=p.ptr; A.col=p.col; for (int i=0;i<n;++i) for (ptrdiff_t k=p.ptr[i];k<p.ptr[i+1];++k) A.val.push_back(CX(var("ar_"+std::to_string(i)+"_"+std::to_string(p.col[k]),0.5+0.25*(k%4)), var("ai_"+std::to_string(i)+"_"+std::to_string(p.col[k]),-0.75+0.5*(k%3))));
        auto Am=hx::to_amgcl(A); std::vector<scalar> xr=hx::sym_vector("xr",m), xi=hx::sym_vector("xi",m,-0.5), yr=hx::sym_vector("yr",n), yi=hx::sym_vector("yi",n,0.25);
        be::numa_vector<CX> X(m,false), Y(n,false); for (int i=0;i<m;++i) X[i]=CX(xr[i],xi[i]); for (int i=0;i<n;++i) Y[i]=CX(yr[i],yi[i]);
        scalar al=var("alpha",0.75), be_=var("beta",-1.25);
        be::spmv(al,*Am,X,be_,Y);
        std::vector<scalar> got, ref; for (int i=0;i<n;++i) { scalar sr=0, si=0; for (ptrdiff_t k=p.ptr[i];k<p.ptr[i+1];++k) { scalar ar=A.val[k].real(), ai=A.val[k].imag(); int j=p.col[k]; sr+=ar*xr[j]-ai*xi[j]; si+=ar*xi[j]+ai*xr[j]; } ref.push_back(al*sr+be_*yr[i]); ref.push_back(al*si+be_*yi[i]); got.push_back(Y[i].real()); got.push_back(Y[i].imag()); }
        hx::prove_eq_vec("complex spmv (re,im)",got,ref);
        if (n==m) { be::numa_vector<CX> U(n,false), V(n,false); for (int i=0;i<n;++i) { U[i]=CX(xr[i],xi[i]); V[i]=CX(yr[i],yi[i]); } CX ip=be::inner_product(U,V); scalar rr=0, ri=0; for (int i=0;i<n;++i) { rr+=xr[i]*yr[i]+xi[i]*yi[i]; ri+=xi[i]*yr[i]-xr[i]*yi[i]; }
          hx::prove_eq("complex inner product conjugate-linear in 2nd argument (re)",ip.real(),rr); hx::prove_eq("complex inner product (im)",ip.imag(),ri); }
    });
}

// complex 2x1 block vectors: inner product conjugate-linear in the second argument
static void complex_block_case(int n) { hx::run_case("complex_block_inner_product/n"+std::to_string(n), [&]() { typedef amgcl::static_matrix<CX,2,1> CV; be::numa_vector<CV> X(n,false), Y(n,false); scalar rr=0, ri=0;
    for (int i=0;i<n;++i) { CV x, y; for (int q=0;q<2;++q) { scalar xr=var("xr"+std::to_string(2*i+q),0.5+i+q), xi=var("xi"+std::to_string(2*i+q),-0.25*(i+1)+q), yr=var("yr"+std::to_string(2*i+q),1.5-i+0.5*q), yi=var("yi"+std::to_string(2*i+q),0.75+0.25*i-q); x(q)=CX(xr,xi); y(q)=CX(yr,yi); rr+=xr*yr+xi*yi; ri+=xi*yr-xr*yi; } X[i]=x; Y[i]=y; }
    CX ip=be::inner_product(X,Y); hx::prove_eq("inner product of complex block vectors = sum x_k conj(y_k)  (real part)", ip.real(), rr); hx::prove_eq("inner product of complex block vectors = sum x_k conj(y_k)  (imaginary part: conjugate-linear in the SECOND argument)", ip.imag(), ri); }); }
// copy: a vector copied through a backend's copy_vector (and a copy-constructed / assigned backend vector) is an INDEPENDENT vector with the same content:
// writing to the copy leaves the source alone, and both can be destroyed
static void copy_case(int n) { hx::run_case("copy_vector/n"+std::to_string(n), [&]() { typedef be::block_crs<scalar> BC; std::vector<scalar> x0=hx::sym_vector("x",n); NV x=hx::to_numa(x0);
    auto y=BC::copy_vector(x,BC::params()); bool alias = (void*)y->data()==(void*)x.data(); bool same=y->size()==x.size(); for (int i=0;i<n&&same;++i) same=hx::same_handle((*y)[i],x0[i]);
    hx::require("block_crs::copy_vector: the copy has the content of the source", same); hx::require("block_crs::copy_vector: the copy owns its own storage", !alias);
    if (alias) { new std::shared_ptr<NV>(y); /* deliberately leaked: destroying both would free the shared buffer twice */ return; }
    be::clear(*y); bool intact=true; for (int i=0;i<n;++i) intact=intact&&hx::same_handle(x[i],x0[i]); hx::require("clearing the copy leaves the source unchanged", intact);
    { NV a=hx::to_numa(x0); NV *b=new NV(a); bool al = (void*)b->data()==(void*)a.data(); hx::require("numa_vector copy construction: independent storage", !al); if (!al) { for (int i=0;i<n;++i) (*b)[i]=scalar(0); bool ok=true; for (int i=0;i<n;++i) ok=ok&&hx::same_handle(a[i],x0[i]); hx::require("writing to a copy-constructed vector leaves the source unchanged", ok); delete b; }
      NV *c=new NV(n?n-1:1,false); *c=a; bool al2 = (void*)c->data()==(void*)a.data(); hx::require("numa_vector copy assignment: independent storage of the source's size", !al2 && c->size()==a.size()); if (!al2) delete c; } }); }
// empty operands: a 0 x 0 block matrix applied to empty scalar std::vectors (the mixed scalar / block call path) is a no-op, not an out-of-range access
static void empty_mixed_case() { hx::run_case("empty/mixed_scalar_block", [&]() { typedef amgcl::static_matrix<scalar,2,2> B2; be::crs<B2,ptrdiff_t,ptrdiff_t> A; A.set_size(0,0,true); A.set_nonzeros(0); std::vector<scalar> x, y, f, r; be::spmv(scalar(1),A,x,scalar(0),y); be::residual(f,A,x,r); hx::require("empty mixed scalar/block spmv and residual return normally", y.empty() && r.empty()); }); }

// block_crs backend (sizes not divisible by the block size) and the hybrid backend
static void blockcrs_case(const Pattern &p, int bs) {
    hx::run_case("block_crs/b"+std::to_string(bs)+"/"+p.name, [&]() {
        SCrs A=hx::symbolic_matrix(p,"a",false); auto Am=hx::to_amgcl(A);
        typedef be::block_crs<scalar> BE; BE::params bp; bp.block_size=bs; auto Bm=BE::copy_matrix(Am,bp);
        std::vector<scalar> x=hx::sym_vector("x",p.m), y=hx::sym_vector("y",p.n), f=hx::sym_vector("f",p.n); scalar alpha=var("alpha",0.75), beta=var("beta",-1.25); std::vector<scalar> Ax=hx::dense_mv(A,x);
        { NV X=hx::to_numa(x), Y=hx::to_numa(y); be::spmv(alpha,*Bm,X,beta,Y); std::vector<scalar> ref; for (int i=0;i<p.n;++i) ref.push_back(alpha*Ax[i]+beta*y[i]); hx::prove_eq_vec("block_crs spmv",hx::to_vec(Y),ref); }
        { NV X=hx::to_numa(x), Fv=hx::to_numa(f), R(p.n,false); for (int i=0;i<p.n;++i) R[i]=hx::junk("r"+std::to_string(i)); be::residual(Fv,*Bm,X,R); std::vector<scalar> ref; bool ok=true; for (int i=0;i<p.n;++i) { ref.push_back(f[i]-Ax[i]); ok=ok&&hx::independent_of(R[i],"junk_"); } hx::require("block_crs residual: old content ignored",ok); hx::prove_eq_vec("block_crs residual",hx::to_vec(R),ref); }
    });
}
static void hybrid_case(const Pattern &p) {   // scalar matrix with 2x2 block structure stored as blocks by builtin_hybrid
    hx::run_case("hybrid/"+p.name, [&]() {
        // expand the block pattern p to a scalar 2n x 2m matrix with full 2x2 blocks
        int n=p.n, m=p.m; SCrs S; S.n=2*n; S.m=2*m; S.ptr.push_back(0); for (int i=0;i<n;++i) for (int r=0;r<2;++r) { for (ptrdiff_t k=p.ptr[i];k<p.ptr[i+1];++k) for (int c=0;c<2;++c) { S.col.push_back(2*p.col[k]+c); S.val.push_back(var("a_"+std::to_string(2*i+r)+"_"+std::to_string(2*p.col[k]+c),0.5+0.25*((i+k+r+c)%5))); } S.ptr.push_back(S.col.size()); }
        auto Sm=hx::to_amgcl(S); typedef be::builtin_hybrid<B2,ptrdiff_t,ptrdiff_t> HB; auto Hm=HB::copy_matrix(Sm,HB::params());
        std::vector<scalar> x=hx::sym_vector("x",2*m), y=hx::sym_vector("y",2*n); scalar alpha=var("alpha",0.75), beta=var("beta",-1.25); std::vector<scalar> Sx=hx::dense_mv(S,x);
        NV X=hx::to_numa(x), Y=hx::to_numa(y); be::spmv(alpha,*Hm,X,beta,Y); std::vector<scalar> ref; for (int i=0;i<2*n;++i) ref.push_back(alpha*Sx[i]+beta*y[i]); hx::prove_eq_vec("hybrid spmv = scalar spmv",hx::to_vec(Y),ref);
        NV Fv=hx::to_numa(y), R(2*n,false); for (int i=0;i<2*n;++i) R[i]=hx::junk("r"+std::to_string(i)); be::residual(Fv,*Hm,X,R); ref.clear(); bool ok=true; for (int i=0;i<2*n;++i) { ref.push_back(y[i]-Sx[i]); ok=ok&&hx::independent_of(R[i],"junk_"); } hx::require("hybrid residual: old content ignored",ok); hx::prove_eq_vec("hybrid residual",hx::to_vec(R),ref);
    });
}

// hybrid backend built from an ARBITRARY scalar pattern (scalar rows of one block row reach different block columns: staggered patterns)
static void hybrid_ragged_case(const Pattern &ps) { hx::run_case("hybrid-ragged/"+ps.name, [&]() { SCrs S=hx::symbolic_matrix(ps,"a",false); auto Sm=hx::to_amgcl(S); typedef be::builtin_hybrid<B2,ptrdiff_t,ptrdiff_t> HB; auto Hm=HB::copy_matrix(Sm,HB::params());
    std::vector<scalar> x=hx::sym_vector("x",ps.m), y=hx::sym_vector("y",ps.n); scalar alpha=var("alpha",0.75), beta=var("beta",-1.25); std::vector<scalar> Sx=hx::dense_mv(S,x);
    NV X=hx::to_numa(x), Y=hx::to_numa(y); be::spmv(alpha,*Hm,X,beta,Y); std::vector<scalar> ref; for (int i=0;i<ps.n;++i) ref.push_back(alpha*Sx[i]+beta*y[i]); hx::prove_eq_vec("hybrid spmv on a staggered scalar pattern = scalar spmv",hx::to_vec(Y),ref); }); }

int main(int argc, char **argv) {
    hx::parse_args(argc,argv);
    hx::encodes("amgcl::backend::spmv_impl / residual_impl (backend/detail/matrix_ops.hpp) on crs<scalar>, crs<static_matrix<scalar,2,2>>, crs<complex<scalar>>");
    hx::encodes("amgcl::backend::{axpby,axpbypcz,vmul,copy,clear,inner_product,lin_comb}_impl (backend/builtin.hpp)");
    hx::encodes("amgcl::backend::block_crs spmv/residual (backend/block_crs.hpp), builtin_hybrid (backend/builtin_hybrid.hpp)");
    hx::assume_note("real arithmetic (no rounding); Kahan compensation in inner_product is exact-zero over the reals");
    hx::assume_note("NaN/Inf clause decided on the raw operation log: an output that never has the old content as an operand cannot inherit its NaN");
    hx::assume_note("OpenMP pragmas compiled out (serial); Eigen backend not covered");
    bool T=hx::thorough(); hx::Rng rng(hx::args().seed);
    // exhaustive patterns: all n x m masks up to 2x2 / 2x3 / 3x2 (quick), up to 3x3 (thorough)
    std::vector<std::pair<int,int>> shapes = T ? std::vector<std::pair<int,int>>{{1,1},{1,2},{2,1},{2,2},{2,3},{3,2},{3,3}} : std::vector<std::pair<int,int>>{{1,1},{1,2},{2,1},{2,2},{2,3},{3,2}};
    for (auto sh : shapes) { int bits=sh.first*sh.second; for (uint64_t mask=0; mask<(1ull<<bits); ++mask) scalar_case(hx::mask_pattern(sh.first,sh.second,mask,false)); }
    if (!T) for (int k=0;k<24;++k) scalar_case(hx::mask_pattern(3,3,rng.next()%512,false));
    for (int k=0;k<(T?40:8);++k) { int n=2+rng.below(5), m=2+rng.below(5); scalar_case(hx::random_pattern(n,m,rng,1+rng.below(3),false)); }
    for (int n=0;n<=(T?6:4);++n) vector_case(n);
    for (int n=0;n<=3;++n) copy_case(n); empty_mixed_case();
    for (int n=1;n<=(T?4:2);++n) complex_block_case(n);
    for (auto sh : std::vector<std::pair<int,int>>{{1,1},{2,2},{2,3},{3,2}}) { int bits=sh.first*sh.second; for (uint64_t mask=0; mask<(1ull<<bits); ++mask) if (T || bits<=4 || rng.below(4)==0) block_case(hx::mask_pattern(sh.first,sh.second,mask,false)); }
    for (auto sh : std::vector<std::pair<int,int>>{{1,1},{2,2},{2,3},{3,3}}) { int bits=sh.first*sh.second; for (uint64_t mask=0; mask<(1ull<<bits); ++mask) if (T || bits<=4 || rng.below(bits>6?24:4)==0) complex_case(hx::mask_pattern(sh.first,sh.second,mask,false)); }
    for (int k=0;k<(T?30:8);++k) { int n=1+rng.below(6), m=1+rng.below(6), bs=2+rng.below(2); blockcrs_case(hx::random_pattern(n,m,rng,1+rng.below(3),false),bs); }
    for (int k=0;k<(T?12:4);++k) { int n=1+rng.below(3), m=n; hybrid_case(hx::random_pattern(n,m,rng,1+rng.below(2),true)); }
    for (int k=0;k<(T?60:16);++k) hybrid_ragged_case(hx::mask_pattern(2+2*(k%2),6+2*(k%3==0),rng.next()&((1ull<<40)-1),false));
    return hx::finish();
}
