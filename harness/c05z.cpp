// C05 (complex systems): each Krylov method produces its defining iterates on builtin<std::complex<scalar>>.
// Concrete Gaussian-rational matrices A (Hermitian positive definite for CG, non-Hermitian diagonally dominant otherwise), dense preconditioner,
// right-hand side and initial guess on seeded lines f = f0 + t f1, x0 = x00 + t x01 with ONE real symbolic parameter t (reference cases) or concrete (termination).
// The inner product of the library is <a,b> = sum a_i conj(b_i)  (backend::inner_product, conjugate-linear in the SECOND argument).
#include "hx_amgcl.hpp"
#include <amgcl/value_type/complex.hpp>
#include <amgcl/solver/cg.hpp>
#include <amgcl/solver/bicgstab.hpp>
#include <amgcl/solver/bicgstabl.hpp>
#include <amgcl/solver/gmres.hpp>
#include <amgcl/solver/fgmres.hpp>
#include <amgcl/solver/lgmres.hpp>
#include <amgcl/solver/idrs.hpp>
#include <complex>
using hx::scalar; using hx::var; using hx::Pattern;
namespace be = amgcl::backend; namespace sv = amgcl::solver; namespace side = amgcl::preconditioner::side;
typedef std::complex<scalar> CX; typedef be::builtin<CX> BE; typedef be::numa_vector<CX> NV; typedef std::vector<CX> Vec; typedef std::vector<Vec> Mat;
static CX cj(const CX &a) { return CX(a.real(), scalar(0)-a.imag()); }
static CX mul(const CX &a, const CX &b) { return CX(a.real()*b.real()-a.imag()*b.imag(), a.real()*b.imag()+a.imag()*b.real()); }
static CX dvd(const CX &a, const CX &b) { scalar d=b.real()*b.real()+b.imag()*b.imag(); CX n=mul(a,cj(b)); return CX(n.real()/d, n.imag()/d); }
static CX add(const CX &a, const CX &b) { return CX(a.real()+b.real(), a.imag()+b.imag()); }
static CX sb(const CX &a, const CX &b) { return CX(a.real()-b.real(), a.imag()-b.imag()); }
struct DensePrec { int n; Mat P; std::shared_ptr<hx::ACrs<CX>> A; template<class V1,class V2> void apply(const V1 &rhs, V2 &&x) const { Vec t(n); for (int i=0;i<n;++i) { CX s(scalar(0),scalar(0)); for (int j=0;j<n;++j) s=add(s,mul(P[i][j],rhs[j])); t[i]=s; } for (int i=0;i<n;++i) x[i]=t[i]; } const hx::ACrs<CX> &system_matrix() const { return *A; } };
static Vec mv(const Mat &M, const Vec &v) { int n=M.size(); Vec r(n); for (int i=0;i<n;++i) { CX s(scalar(0),scalar(0)); for (int j=0;j<n;++j) s=add(s,mul(M[i][j],v[j])); r[i]=s; } return r; }
// Hermitian form  u^H v = sum conj(u_i) v_i
static CX hdot(const Vec &u, const Vec &v) { CX s(scalar(0),scalar(0)); for (size_t i=0;i<u.size();++i) s=add(s,mul(cj(u[i]),v[i])); return s; }
static Vec axpy(const CX &a, const Vec &x, const Vec &y) { Vec r(x.size()); for (size_t i=0;i<x.size();++i) r[i]=add(mul(a,x[i]),y[i]); return r; }
static Vec sub(const Vec &a, const Vec &b) { Vec r(a.size()); for (size_t i=0;i<a.size();++i) r[i]=sb(a[i],b[i]); return r; }
static std::vector<scalar> flat(const Vec &v) { std::vector<scalar> r; for (auto &c : v) { r.push_back(c.real()); r.push_back(c.imag()); } return r; }

struct Sys { int n; hx::Crs<CX> A; Mat Ad, Pd; std::shared_ptr<hx::ACrs<CX>> Am; DensePrec P; Vec f, x0; };
// herm: Hermitian positive definite (diagonally dominant, real diagonal); otherwise non-Hermitian, diagonally dominant, complex diagonal.   prec: 0 identity, 1 diagonal, 2 dense
static Sys make_sys(int n, hx::Rng &rng, bool herm, int prec, bool param) { Sys s; s.n=n; hx::Rng r2(rng.s); s.Ad.assign(n,Vec(n)); s.A.n=n; s.A.m=n; s.A.ptr.push_back(0);
    for (int i=0;i<n;++i) for (int j=0;j<n;++j) { if (i==j) continue; if (herm && j<i) { s.Ad[i][j]=cj(s.Ad[j][i]); continue; } int a=r2.below(7)-3; int b=r2.below(7)-3; if (a==0 && b==0) b=1; s.Ad[i][j]=CX(scalar(a)/scalar(8),scalar(b)/scalar(8)); }
    for (int i=0;i<n;++i) { int a=4+r2.below(3); int b=r2.below(5)-2; s.Ad[i][i]=CX(scalar(a)/scalar(2), herm ? scalar(0) : scalar(b)/scalar(4)); }
    for (int i=0;i<n;++i) { for (int j=0;j<n;++j) { s.A.col.push_back(j); s.A.val.push_back(s.Ad[i][j]); } s.A.ptr.push_back(s.A.col.size()); } s.Am=hx::to_amgcl(s.A);
    CX one(scalar(1),scalar(0)), zero(scalar(0),scalar(0)); s.Pd.assign(n,Vec(n,zero));
    for (int i=0;i<n;++i) for (int j=0;j<n;++j) { if (prec==0) s.Pd[i][j]= i==j?one:zero; else if (prec==1) s.Pd[i][j]= i==j ? dvd(one,s.Ad[i][i]) : zero; else s.Pd[i][j] = i==j ? dvd(one,s.Ad[i][i]) : (herm ? CX(scalar(1+(i+j)%3)/scalar(64), scalar(i<j?1:-1)/scalar(32)) : CX(scalar(((i*3+j)%5)-2)/scalar(32), scalar(((i+2*j)%3)-1)/scalar(32))); }
    s.P.n=n; s.P.P=s.Pd; s.P.A=s.Am; scalar t = param ? var("t",0.375) : scalar(3)/scalar(8);
    for (int i=0;i<n;++i) { int q1=1+r2.below(5); int q2=r2.below(7)-3; int q3=r2.below(5)-2; int q4=r2.below(5)-2; int q5=r2.below(5)-2; int q6=r2.below(5)-2;
        s.f.push_back(CX(scalar(q1)/scalar(2) + t*scalar(q2)/scalar(4), scalar(q5)/scalar(2) + t*scalar(q3)/scalar(4))); s.x0.push_back(CX(scalar(q3)/scalar(4) + t*scalar(q4)/scalar(2), scalar(q6)/scalar(4))); } return s; }
template<class S> static std::tuple<size_t,scalar,Vec> solve(const Sys &s, typename S::params prm, int k) { prm.maxiter=k; prm.tol=scalar(0); prm.abstol=scalar(0); S sol(s.n,prm); NV F=hx::to_numa(s.f), X=hx::to_numa(s.x0); size_t it; scalar res; std::tie(it,res)=sol(*s.Am,s.P,F,X); Vec xs(s.n); for (int i=0;i<s.n;++i) xs[i]=X[i]; return std::make_tuple(it,res,xs); }

// finite termination with the identity preconditioner: n (+extra) iterations give the solution
template<class S, class SetP> static void term_case(const std::string &nm, int n, bool herm, int extra, hx::Rng &rng, SetP setp) { hx::CaseOptions co; co.max_paths=12; hx::run_case("complex/termination/"+nm+"/n"+std::to_string(n), [&]() { Sys s=make_sys(n,rng,herm,0,false);
    typename S::params prm; setp(prm); int k=n+extra; std::tuple<size_t,scalar,Vec> r;
    try { r=solve<S>(s,prm,k); } catch (const std::runtime_error&) { hx::count("breakdown exception (solver reports exact convergence as breakdown)"); return; }
    hx::require("the method performs at most maxiter iterations", std::get<0>(r)<=(size_t)k+3);
    hx::prove_eq_vec(nm+" (complex system): A x = f after at most "+std::to_string(k)+" iterations", flat(mv(s.Ad,std::get<2>(r))), flat(s.f)); },co); }

// CG on a Hermitian positive definite system: x_k - x_0 in K_k(PA, P r0), residual orthogonal (Hermitian form) to the Krylov space; and the textbook reference
static void cg_case(int n, int k, int prec, hx::Rng &rng) { hx::CaseOptions co; co.max_paths=8; hx::run_case("complex/cg/n"+std::to_string(n)+"k"+std::to_string(k)+"p"+std::to_string(prec), [&]() { Sys s=make_sys(n,rng,true,prec==2?1:prec,k==1||n==2); auto r=solve<sv::cg<BE>>(s,sv::cg<BE>::params(),k);
    hx::require("the method performs at most maxiter = k iterations", std::get<0>(r)<=(size_t)k); if (std::get<0>(r)!=(size_t)k) { hx::count("early exact convergence paths"); return; }
    Vec r0=sub(s.f,mv(s.Ad,s.x0)), z0=mv(s.Pd,r0); Vec x=s.x0, rr=r0, z=z0, p=z0;
    for (int i=0;i<k;++i) { Vec q=mv(s.Ad,p); CX rz=hdot(z,rr); CX a=dvd(rz,hdot(p,q)); x=axpy(a,p,x); Vec rn=axpy(sb(CX(scalar(0),scalar(0)),a),q,rr); Vec zn=mv(s.Pd,rn); CX b=dvd(hdot(zn,rn),rz); p=axpy(b,p,zn); rr=rn; z=zn; }
    hx::prove_eq_vec("cg (complex Hermitian system): iterate agrees with the dense textbook reference", flat(std::get<2>(r)), flat(x));
    Vec rk=sub(s.f,mv(s.Ad,std::get<2>(r))); std::vector<scalar> l, zz; Vec v=z0; for (int j=0;j<k;++j) { CX h=hdot(v,rk); l.push_back(h.real()); l.push_back(h.imag()); zz.push_back(scalar(0)); zz.push_back(scalar(0)); v=mv(s.Pd,mv(s.Ad,v)); }
    hx::prove_eq_vec("cg (complex Hermitian system): residual is orthogonal to K_k(PA, P r0)", l, zz); },co); }

// BiCGStab against the textbook algorithm (van der Vorst) with the Hermitian form: rho = rh^H r, alpha = rho / rh^H v, omega = t^H s / t^H t
static void bicgstab_case(int n, int k, bool left, int prec, hx::Rng &rng) { hx::CaseOptions co; co.max_paths=8; hx::run_case(std::string("complex/bicgstab/n")+std::to_string(n)+"k"+std::to_string(k)+(left?"l":"r")+"p"+std::to_string(prec), [&]() { Sys s=make_sys(n,rng,false,prec,k==1); sv::bicgstab<BE>::params p; p.pside=left?side::left:side::right; auto r=solve<sv::bicgstab<BE>>(s,p,k);
    hx::require("the method performs at most maxiter = k iterations", std::get<0>(r)<=(size_t)k); if (std::get<0>(r)!=(size_t)k) { hx::count("early exact convergence paths"); return; }
    CX zero(scalar(0),scalar(0)), one(scalar(1),scalar(0)); Mat Op(n,Vec(n)); for (int i=0;i<n;++i) for (int j=0;j<n;++j) { CX t=zero; for (int l=0;l<n;++l) t=add(t, left ? mul(s.Pd[i][l],s.Ad[l][j]) : mul(s.Ad[i][l],s.Pd[l][j])); Op[i][j]=t; }
    Vec r0=sub(s.f,mv(s.Ad,s.x0)); if (left) r0=mv(s.Pd,r0); Vec y(n,zero), rr=r0, rh=r0, pp(n,zero), v(n,zero); CX rho=one, al=one, om=one;
    for (int i=0;i<k;++i) { CX rho1=hdot(rh,rr); CX beta=mul(dvd(rho1,rho),dvd(al,om)); Vec t1=axpy(sb(zero,om),v,pp); pp=axpy(beta,t1,rr); v=mv(Op,pp); al=dvd(rho1,hdot(rh,v)); Vec sv_=axpy(sb(zero,al),v,rr); Vec tt=mv(Op,sv_); om=dvd(hdot(tt,sv_),hdot(tt,tt)); y=axpy(al,pp,y); y=axpy(om,sv_,y); rr=axpy(sb(zero,om),tt,sv_); rho=rho1; }
    Vec x = left ? y : mv(s.Pd,y); Vec ref(n); for (int i=0;i<n;++i) ref[i]=add(s.x0[i],x[i]);
    hx::prove_eq_vec(std::string("bicgstab ")+(left?"left":"right")+" (complex system): iterate agrees with the dense textbook reference", flat(std::get<2>(r)), flat(ref)); },co); }

// GMRES / FGMRES first cycle: residual orthogonal (Hermitian form) to A P K_k  (the minimal-residual condition)
static void gmres_case(const std::string &which, int n, int k, int prec, hx::Rng &rng) { hx::CaseOptions co; co.max_paths=8; hx::run_case("complex/"+which+"/n"+std::to_string(n)+"k"+std::to_string(k)+"p"+std::to_string(prec), [&]() { Sys s=make_sys(n,rng,false,prec,false); std::tuple<size_t,scalar,Vec> r;
    if (which=="gmres") { sv::gmres<BE>::params p; p.M=n; r=solve<sv::gmres<BE>>(s,p,k); } else if (which=="fgmres") { sv::fgmres<BE>::params p; p.M=n; r=solve<sv::fgmres<BE>>(s,p,k); } else { sv::lgmres<BE>::params p; p.M=n; p.K=1; r=solve<sv::lgmres<BE>>(s,p,k); }
    hx::require("the method performs at most maxiter = k iterations", std::get<0>(r)<=(size_t)k); if (std::get<0>(r)!=(size_t)k) { hx::count("early exact convergence paths"); return; }
    Vec r0=sub(s.f,mv(s.Ad,s.x0)), rk=sub(s.f,mv(s.Ad,std::get<2>(r))); std::vector<scalar> l, zz; Vec v=r0; for (int j=0;j<k;++j) { Vec w=mv(s.Ad,mv(s.Pd,v)); CX h=hdot(w,rk); l.push_back(h.real()); l.push_back(h.imag()); zz.push_back(scalar(0)); zz.push_back(scalar(0)); v=w; }
    hx::prove_eq_vec(which+" right (complex system): residual orthogonality condition of the minimiser over x0 + P K_k(AP, r0)", l, zz); },co); }

// IDR(s): the minimal-residual coefficient.  omega(t, s) (private helper, params.omega = 0: no angle correction) must be the minimiser of |s - omega t|, i.e.
// t^H (s - omega t) = 0, for complex data too (fully symbolic complex vectors); the residual-smoothing step uses the same formula with (t, r_s)
static void idrs_omega_case(int n) { hx::run_case("complex/idrs-omega/n"+std::to_string(n), [&]() { sv::idrs<BE>::params prm; prm.s=1; prm.omega=scalar(0); sv::idrs<BE> S(n,prm);
    NV t(n,false), sv_(n,false); scalar tt=0; for (int i=0;i<n;++i) { t[i]=CX(var("tr"+std::to_string(i),0.5+0.25*i),var("ti"+std::to_string(i),-0.75+0.5*i)); sv_[i]=CX(var("sr"+std::to_string(i),1.25-0.5*i),var("si"+std::to_string(i),0.25+0.75*i)); tt+=t[i].real()*t[i].real()+t[i].imag()*t[i].imag(); }
    hx::assume(hx::lt(scalar(0),tt)); CX om=S.omega(t,sv_); CX g(scalar(0),scalar(0)); for (int i=0;i<n;++i) g=add(g,mul(cj(t[i]),sb(sv_[i],mul(om,t[i]))));
    hx::prove_eq_vec("idrs: omega minimises |s - omega t| (t^H (s - omega t) = 0) on complex vectors", std::vector<scalar>{g.real(),g.imag()}, std::vector<scalar>{scalar(0),scalar(0)}); }); }

int main(int argc, char **argv) {
    hx::parse_args(argc,argv); bool T=hx::thorough(); hx::Rng rng(hx::args().seed);
    hx::encodes("solver::{cg,bicgstab,gmres,fgmres,lgmres,idrs}<builtin<std::complex<scalar>>>::operator() with maxiter = k, no cuts (exact Gaussian rationals / algebraic numbers)");
    hx::assume_note("complex systems: concrete Gaussian-rational matrices n <= 3 (Hermitian positive definite for CG, diagonally dominant non-Hermitian otherwise), one real symbolic parameter in f and x0 for the CG/BiCGStab reference cases, concrete data for termination and GMRES cases");
    // k = 1 (and CG n = 2): one symbolic real parameter t in f and x0; otherwise concrete data
    for (int n=2;n<=4;++n) for (int k=1;k<=std::min(n,3);++k) for (int prec : {0,1}) { if (n==4 && k==1) continue; cg_case(n,k,prec,rng); }
    for (int n=2;n<=4;++n) for (int k=1;k<n;++k) for (int prec : {0,2}) { if (n==4 && k==1) continue; bicgstab_case(n,k,false,prec,rng); bicgstab_case(n,k,true,prec,rng); }
    // GMRES family, k < n (at k = n exact arithmetic divides by the vanished norm of the next Arnoldi vector: no verdict there)
    for (int n=2;n<=4;++n) for (int k=std::max(1,n-2);k<n;++k) for (int prec : {0,2}) { if (prec==2 && n==4 && !T) continue; gmres_case("gmres",n,k,prec,rng); gmres_case("fgmres",n,k,prec,rng); gmres_case("lgmres",n,k,prec,rng); }
    for (int n=2;n<=(T?4:3);++n) { term_case<sv::cg<BE>>("cg",n,true,0,rng,[](auto&){}); term_case<sv::bicgstab<BE>>("bicgstab",n,false,0,rng,[](auto&){}); term_case<sv::idrs<BE>>("idrs-s1",n,false,n,rng,[](auto &p){ p.s=1; }); term_case<sv::idrs<BE>>("idrs-s2",n,false,n/2,rng,[](auto &p){ p.s=2; }); if (n>=3) term_case<sv::idrs<BE>>("idrs-s3",n,false,n/3,rng,[](auto &p){ p.s=3; }); }
    idrs_omega_case(1); idrs_omega_case(2);
    return hx::finish();
}
