// C16: direct and dense kernels are exact: skyline LU, pivoted small inverse, QR, static_matrix algebra.
#include "hx_amgcl.hpp"
#include <amgcl/solver/skyline_lu.hpp>
#include <amgcl/detail/inverse.hpp>
#include <amgcl/detail/qr.hpp>
#include <functional>
using hx::scalar; using hx::var; using hx::Pattern; using hx::SCrs;

// skyline LU:  A * solve(f) == f  for all values for which the factorisation does not break down;
// a zero pivot must be reported by an exception (every division guarded by the path condition).
static void lu_case(const Pattern &p, bool allow_explicit_zeros, size_t max_paths) {
    hx::CaseOptions co; co.max_paths=max_paths; co.max_depth=80;
    hx::run_case(std::string("skyline_lu/")+(allow_explicit_zeros?"z/":"nz/")+p.name, [&]() {
        SCrs A=hx::symbolic_matrix(p,"a"); int n=p.n;
        if (!allow_explicit_zeros) for (auto &v : A.val) hx::assume(hx::ne(v,scalar(0)));
        std::vector<scalar> f=hx::sym_vector("f",n), x(n);
        bool threw=false;
        try {
            amgcl::solver::skyline_lu<scalar> S(std::tie(n,A.ptr,A.col,A.val));
            size_t ung = 0;
#ifdef HX_SYM
            // solver model of a zero divisor is attached to the violation: the replay at that point divides by zero in the real code
            hx::no_breakdown("zero pivot is reported by an exception: every division in the factorisation is guarded", hx::tt());
#endif
            S(f,x);
        } catch (const std::runtime_error &e) { threw=true; hx::count("zero-pivot exception paths"); }
        if (threw) return;
        std::vector<scalar> Ax=hx::dense_mv(A,x);
        hx::prove_eq_vec("skyline_lu: A x = f", Ax, f);
        // second solve on the same object (reuse of the internal work vector)
    }, co);
}

// skyline LU with non-commuting 2x2 block values: A x = f blockwise
static void lu_block_case(const Pattern &p) { hx::CaseOptions co; co.max_paths=40; co.max_depth=120; hx::run_case("skyline_lu/block2/"+p.name, [&]() { typedef amgcl::static_matrix<scalar,2,2> B2; typedef amgcl::static_matrix<scalar,2,1> V2; int n=p.n;
    hx::Crs<B2> A; A.n=A.m=n; A.ptr=p.ptr; A.col=p.col; for (int i=0;i<n;++i) for (ptrdiff_t k=p.ptr[i];k<p.ptr[i+1];++k) { B2 b; int j=p.col[k]; for (int r=0;r<2;++r) for (int c2=0;c2<2;++c2) b(r,c2)=var("a_"+std::to_string(i)+"_"+std::to_string(j)+"_"+std::to_string(r)+std::to_string(c2), i==j ? (r==c2 ? 5.0+i+0.5*r : 0.75-0.5*c2) : (r==c2 ? -1.0-0.25*j : 0.5*(r-c2)*(1+i))); A.val.push_back(b); }
    std::vector<V2> f(n), x(n); for (int i=0;i<n;++i) { V2 v; v(0)=var("f"+std::to_string(2*i),1.0+i); v(1)=var("f"+std::to_string(2*i+1),0.5-i); f[i]=v; }
    try { amgcl::solver::skyline_lu<B2> S(std::tie(n,A.ptr,A.col,A.val)); S(f,x); } catch (const std::runtime_error&) { hx::count("zero-pivot exception paths"); return; }
    std::vector<scalar> l, r; for (int i=0;i<n;++i) { V2 s=amgcl::math::zero<V2>(); for (ptrdiff_t k=p.ptr[i];k<p.ptr[i+1];++k) s+=A.val[k]*x[p.col[k]]; for (int q=0;q<2;++q) { l.push_back(s(q)); r.push_back(f[i](q)); } } hx::prove_eq_vec("skyline_lu with non-commuting 2x2 blocks: A x = f", l, r); },co); }
static void inverse_case(int n) {
    hx::CaseOptions co; co.max_paths = n<=2 ? 64 : (hx::thorough()? 4000 : 600); co.max_depth=100;
    hx::run_case("inverse/n"+std::to_string(n), [&]() {
        std::vector<scalar> A(n*n), A0, t(n*n); std::vector<int> p(n);
        for (int i=0;i<n;++i) for (int j=0;j<n;++j) A[i*n+j]=var("a_"+std::to_string(i)+"_"+std::to_string(j), i==j ? 3.0+0.5*i : 0.5+0.25*((i*3+j)%4)*(((i+j)&1)?-1:1));
        A0=A;
        amgcl::detail::inverse(n,A.data(),t.data(),p.data());
        { // determinant by cofactors: for a nonsingular block the pivot search must never leave a zero pivot
          std::function<scalar(std::vector<std::vector<scalar>>)> det=[&](std::vector<std::vector<scalar>> M) { int m=M.size(); if (m==1) return M[0][0]; scalar d=0; for (int j=0;j<m;++j) { std::vector<std::vector<scalar>> S; for (int i=1;i<m;++i) { std::vector<scalar> r; for (int k=0;k<m;++k) if (k!=j) r.push_back(M[i][k]); S.push_back(r); } scalar cf=M[0][j]*det(S); d = (j%2)? d-cf : d+cf; } return d; };
          std::vector<std::vector<scalar>> M0(n,std::vector<scalar>(n)); for (int i=0;i<n;++i) for (int j=0;j<n;++j) M0[i][j]=A0[i*n+j]; hx::no_breakdown("pivoted inverse: no zero pivot for a nonsingular block", hx::ne(det(M0),scalar(0))); }
        std::vector<scalar> prod, eye;
        for (int i=0;i<n;++i) for (int j=0;j<n;++j) { scalar s=0; for (int k=0;k<n;++k) s+=A0[i*n+k]*A[k*n+j]; prod.push_back(s); eye.push_back(scalar(i==j?1:0)); }
        hx::prove_eq_vec("A * inverse(A) = I", prod, eye);
    }, co);
}

static void qr_case(int m, int n, bool col_major, int zero_col) {
    hx::CaseOptions co; co.max_paths=200; co.max_depth=100;
    std::string nm="qr/"+std::to_string(m)+"x"+std::to_string(n)+(col_major?"/col":"/row")+(zero_col>=0?"/zerocol"+std::to_string(zero_col):"");
    hx::run_case(nm, [&]() {
        auto order = col_major ? amgcl::detail::col_major : amgcl::detail::row_major;
        auto idx=[&](int i,int j) { return col_major ? j*m+i : i*n+j; };
        std::vector<scalar> A(m*n), A0;
        for (int i=0;i<m;++i) for (int j=0;j<n;++j) A[idx(i,j)] = j==zero_col ? scalar(0) : var("a_"+std::to_string(i)+"_"+std::to_string(j), 1.0+0.5*((i*2+j*3)%5)-(i==j?3.5:0));
        A0=A;
        amgcl::detail::QR<scalar> qr;
        // the object is REUSED (tentative_prolongation keeps one QR per thread over all aggregates): an earlier factorisation of another matrix must leave no trace
        { std::vector<scalar> E(m*n); for (int i=0;i<m;++i) for (int j=0;j<n;++j) E[idx(i,j)]=var("early_"+std::to_string(i)+"_"+std::to_string(j), 0.75-0.5*((i+2*j)%3)+(i==j?2.0:0.0)); hx::cuts(true); qr.factorize(m,n,E.data(),order); hx::cuts(false); }
        qr.factorize(m,n,A.data(),order);
        int k=std::min(m,n);
        // A = Q R (Q is m x n as stored, R is upper trapezoidal k x n: product over the first k columns)
        std::vector<scalar> qrp, a0; std::vector<hx::F> tri;
        for (int i=0;i<m;++i) for (int j=0;j<n;++j) { scalar s=0; for (int l=0;l<k;++l) s+=qr.Q(i,l)*qr.R(l,j); qrp.push_back(s); a0.push_back(A0[idx(i,j)]); }
        hx::prove_eq_vec("QR: A = Q R", qrp, a0);
        std::vector<scalar> qtq, eye; for (int a=0;a<k;++a) for (int b=0;b<k;++b) { scalar s=0; for (int i=0;i<m;++i) s+=qr.Q(i,a)*qr.Q(i,b); qtq.push_back(s); eye.push_back(scalar(a==b?1:0)); }
        hx::prove_eq_vec("QR: Q^T Q = I", qtq, eye);
        for (int i=0;i<k;++i) for (int j=0;j<i && j<n;++j) hx::require("QR: R upper triangular", hx::same_handle(qr.R(i,j),scalar(0)));
    }, co);
}
static void qr_solve_case(int m, int n, bool col_major) {
    hx::CaseOptions co; co.max_paths=200; co.max_depth=100;
    hx::run_case("qr_solve/"+std::to_string(m)+"x"+std::to_string(n)+(col_major?"/col":"/row"), [&]() {
        auto order = col_major ? amgcl::detail::col_major : amgcl::detail::row_major;
        auto idx=[&](int i,int j) { return col_major ? j*m+i : i*n+j; };
        std::vector<scalar> A(m*n), A0, b(m), x(n);
        for (int i=0;i<m;++i) for (int j=0;j<n;++j) A[idx(i,j)] = var("a_"+std::to_string(i)+"_"+std::to_string(j), 1.0+0.5*((i*2+j*3)%5)-(i==j?3.5:0));
        for (int i=0;i<m;++i) b[i]=var("b"+std::to_string(i),0.5+i);
        A0=A; amgcl::detail::QR<scalar> qr; qr.solve(m,n,A.data(),b.data(),x.data(),order);
        // full rank (stated precondition of the property): all diagonal entries of R non-zero; rank-deficient paths satisfy the obligations vacuously
        std::vector<hx::F> fr; { int k=std::min(m,n); int rs = m>=n ? (col_major?1:n) : (col_major?m:1), cs = m>=n ? (col_major?m:1) : (col_major?1:n); for (int i=0;i<k;++i) fr.push_back(hx::ne(A[i*(rs+cs)],scalar(0))); }
        hx::F full_rank=hx::all_of(fr);
        auto a0=[&](int i,int j) { return A0[idx(i,j)]; };
        std::vector<scalar> r(m); for (int i=0;i<m;++i) { scalar s=b[i]; for (int j=0;j<n;++j) s-=a0(i,j)*x[j]; r[i]=s; }
        if (m>=n) { // least squares: A^T (b - A x) = 0   (full rank assumed through the non-zero divisors R_ii)
            std::vector<scalar> g, z; for (int j=0;j<n;++j) { scalar s=0; for (int i=0;i<m;++i) s+=a0(i,j)*r[i]; g.push_back(s); z.push_back(scalar(0)); }
            std::vector<hx::F> fs; for (size_t i=0;i<g.size();++i) fs.push_back(hx::implies(full_rank,hx::eq(g[i],z[i]))); hx::prove_all("QR solve (full rank): normal equations A^T(b - A x) = 0", fs);
        } else {   // minimum norm: A x = b and x in range(A^T): x = A^T y for the y solving (A A^T) y = b  <=> x orthogonal to null(A); checked as A x = b
            std::vector<hx::F> fs; for (int i=0;i<m;++i) fs.push_back(hx::implies(full_rank,hx::eq(r[i],scalar(0)))); hx::prove_all("QR solve (wide, full rank): A x = b", fs);
        }
    }, co);
}

template<int N> static void smat_case() {
    hx::run_case("static_matrix/"+std::to_string(N), [&]() {
        typedef amgcl::static_matrix<scalar,N,N> M; typedef amgcl::static_matrix<scalar,N,1> V;
        auto mk=[&](const std::string &pre) { M a; for (int i=0;i<N;++i) for (int j=0;j<N;++j) a(i,j)=var(pre+std::to_string(i)+std::to_string(j), (i==j?2.5:0.25)+0.125*((i*3+j+pre[0])%5)); return a; };
        M A=mk("a"), B=mk("b"), C=mk("c"); scalar s=var("s",1.5);
        auto flat=[&](const M &m) { std::vector<scalar> v; for (int i=0;i<N;++i) for (int j=0;j<N;++j) v.push_back(m(i,j)); return v; };
        auto dense_mul=[&](const M &x,const M &y) { std::vector<scalar> v; for (int i=0;i<N;++i) for (int j=0;j<N;++j) { scalar t=0; for (int k=0;k<N;++k) t+=x(i,k)*y(k,j); v.push_back(t); } return v; };
        hx::prove_eq_vec("product = dense definition", flat(A*B), dense_mul(A,B));
        hx::prove_eq_vec("(AB)C = A(BC)", flat((A*B)*C), flat(A*(B*C)));
        hx::prove_eq_vec("A(B+C) = AB + AC", flat(A*(B+C)), flat(A*B+A*C));
        hx::prove_eq_vec("(A-B)+B = A", flat((A-B)+B), flat(A));
        hx::prove_eq_vec("s*(A+B) = s*A + s*B", flat(s*(A+B)), flat(s*A+s*B));
        hx::prove_eq_vec("(AB)^T = B^T A^T", flat(amgcl::math::adjoint(A*B)), flat(amgcl::math::adjoint(B)*amgcl::math::adjoint(A)));
        { std::vector<scalar> t; M At=amgcl::math::adjoint(A); for (int i=0;i<N;++i) for (int j=0;j<N;++j) t.push_back(A(j,i)); hx::prove_eq_vec("adjoint = transpose", flat(At), t); }
        { M I=amgcl::math::identity<M>(), Z=amgcl::math::zero<M>(); hx::prove_eq_vec("A I = A", flat(A*I), flat(A)); hx::prove_eq_vec("A + 0 = A", flat(A+Z), flat(A)); hx::require("is_zero(zero)", amgcl::math::is_zero(Z)); }
        { V x, y; for (int i=0;i<N;++i) { x(i)=var("x"+std::to_string(i),1.0+i); y(i)=var("y"+std::to_string(i),0.5-i); }
          V ax=A*x; std::vector<scalar> got, ref; for (int i=0;i<N;++i) { got.push_back(ax(i)); scalar t=0; for (int k=0;k<N;++k) t+=A(i,k)*x(k); ref.push_back(t); } hx::prove_eq_vec("matrix * vector", got, ref);
          scalar ip=amgcl::math::inner_product(x,y); scalar r=0; for (int i=0;i<N;++i) r+=x(i)*y(i); hx::prove_eq("inner_product(x,y) = sum x_i y_i", ip, r);
          scalar nx=amgcl::math::norm(x); scalar r2=0; for (int i=0;i<N;++i) r2+=x(i)*x(i); hx::prove_eq("norm(x)^2 = sum x_i^2", nx*nx, r2); }
    });
}
template<int N> static void smat_inverse_case() {
    hx::CaseOptions co; co.max_paths = N<=2 ? 64 : (hx::thorough()? 4000 : 600); co.max_depth=100;
    hx::run_case("static_matrix_inverse/"+std::to_string(N), [&]() {
        typedef amgcl::static_matrix<scalar,N,N> M; M A; for (int i=0;i<N;++i) for (int j=0;j<N;++j) A(i,j)=var("a"+std::to_string(i)+std::to_string(j), i==j ? 0.25 : 1.0+0.5*((i+2*j)%3));   // hints force pivoting
        M Ai=amgcl::math::inverse(A);
        { scalar d = N==2 ? A(0,0)*A(1,1)-A(0,1)*A(1,0) : A(0,0)*(A(1,1)*A(2,2)-A(1,2)*A(2,1)) - A(0,1)*(A(1,0)*A(2,2)-A(1,2)*A(2,0)) + A(0,2)*(A(1,0)*A(2,1)-A(1,1)*A(2,0)); hx::no_breakdown("static_matrix inverse: no zero pivot for a nonsingular block", hx::ne(d,scalar(0))); }
        M P=A*Ai; std::vector<scalar> got, eye; for (int i=0;i<N;++i) for (int j=0;j<N;++j) { got.push_back(P(i,j)); eye.push_back(scalar(i==j?1:0)); }
        hx::prove_eq_vec("A * inverse(A) = I (static_matrix, pivoted)", got, eye);
    }, co);
}

// block QR (QR<static_matrix>): a second solve with computed = true reuses the stored factorisation (as BiCGStab(L) does with the scalar QR): concrete 2x2 blocks, symbolic right-hand sides
static void block_qr_reuse_case(int nb, bool col_major) { hx::run_case(std::string("qr_block_reuse/")+std::to_string(nb)+"x"+std::to_string(nb)+(col_major?"/col":"/row"), [&]() { typedef amgcl::static_matrix<scalar,2,2> B2; typedef amgcl::static_matrix<scalar,2,1> V2; auto order = col_major ? amgcl::detail::col_major : amgcl::detail::row_major;
    std::vector<B2> A(nb*nb); std::vector<std::vector<scalar>> D(2*nb,std::vector<scalar>(2*nb)); for (int I=0;I<nb;++I) for (int J=0;J<nb;++J) { B2 b; for (int r=0;r<2;++r) for (int c=0;c<2;++c) { double v = (I==J && r==c) ? 4.0+I+0.5*r : 0.25*(((I*5+J*3+r*2+c)%7)-3); b(r,c)=scalar(v); D[2*I+r][2*J+c]=scalar(v); } A[col_major ? J*nb+I : I*nb+J]=b; }
    std::vector<B2> A1=A; std::vector<V2> f1(nb), f2(nb), x1(nb), x2(nb); for (int I=0;I<nb;++I) for (int r=0;r<2;++r) { f1[I](r)=var("f1_"+std::to_string(2*I+r),1.0+I+r); f2[I](r)=var("f2_"+std::to_string(2*I+r),-0.5+0.25*I-r); }
    amgcl::detail::QR<B2> qr; qr.solve(nb,nb,A1.data(),f1.data(),x1.data(),order); qr.solve(nb,nb,A1.data(),f2.data(),x2.data(),order,true);
    std::vector<scalar> g1, g2, r1, r2; for (int i=0;i<2*nb;++i) { scalar s1=0, s2=0; for (int j=0;j<2*nb;++j) { s1+=D[i][j]*x1[j/2](j%2); s2+=D[i][j]*x2[j/2](j%2); } g1.push_back(s1); g2.push_back(s2); r1.push_back(f1[i/2](i%2)); r2.push_back(f2[i/2](i%2)); }
    hx::prove_eq_vec("block QR: first solve A x = f", g1, r1); hx::prove_eq_vec("block QR: second solve with computed = true reuses the factorisation: A x = f", g2, r2); }); }

int main(int argc, char **argv) {
    hx::parse_args(argc,argv); bool T=hx::thorough(); hx::Rng rng(hx::args().seed);
    hx::encodes("amgcl::solver::skyline_lu<scalar>::skyline_lu / factorize / operator() (solver/skyline_lu.hpp) incl. reorder::cuthill_mckee<false>::get on the concrete pattern");
    hx::encodes("amgcl::detail::inverse (detail/inverse.hpp), math::inverse<static_matrix>");
    hx::encodes("amgcl::detail::QR<scalar>::compute/factorize/solve, gen_reflector, apply_reflector (detail/qr.hpp)");
    hx::encodes("amgcl::static_matrix operators, math::adjoint/inner_product/norm/identity/zero (value_type/static_matrix.hpp)");
    hx::assume_note("real arithmetic; 'no pivoting needed' = every divisor of the factorisation non-zero (listed as side condition of each query); backward stability in floating point is outside the claim");
    // skyline LU: all patterns with full diagonal n<=3 (quick) / n<=4 (thorough), entries assumed non-zero; explicit zeros allowed for n<=2 (quick) / n<=3 (thorough)
    for (int n=1;n<=(T?4:3);++n) { int bits=n*n; uint64_t lim=1ull<<bits; for (uint64_t mask=0;mask<lim;++mask) { bool offd=true; for (int i=0;i<n;++i) if ((mask>>(i*n+i))&1) offd=false; if (!offd) continue;   // canonical: diagonal bits come from diag=true
            if (n==4 && rng.below(16)!=0 && mask!=(lim-1-0x8421)) continue;
            lu_case(hx::mask_pattern(n,n,mask,true), false, 64); } }
    for (int n=1;n<=(T?3:2);++n) { uint64_t lim=1ull<<(n*n); for (uint64_t mask=0;mask<lim;++mask) { bool offd=true; for (int i=0;i<n;++i) if ((mask>>(i*n+i))&1) offd=false; if (!offd) continue; lu_case(hx::mask_pattern(n,n,mask,true), true, T?600:100); } }
    for (int n=4;n<=(T?7:6);++n) { lu_case(hx::band_pattern(n,1),false,64); lu_case(hx::arrow_pattern(n),false,64); }
    lu_case(hx::band_pattern(5,2),false,64); lu_case(hx::grid_pattern(2,2),false,64); if (T) lu_case(hx::grid_pattern(3,2),false,64);
    for (int k=0;k<(T?20:6);++k) lu_case(hx::random_pattern(4+rng.below(2),4+0*rng.below(2),rng,1,true),false,64);
    lu_block_case(hx::dense_pattern(2,2)); lu_block_case(hx::mask_pattern(2,2,0x2,true));
    for (int n=1;n<=3;++n) inverse_case(n);
    smat_case<1>(); smat_case<2>(); smat_case<3>(); if (T) smat_case<4>();
    smat_inverse_case<2>(); smat_inverse_case<3>();
    for (int cm=0;cm<2;++cm) { qr_case(1,1,cm,-1); qr_case(2,1,cm,-1); qr_case(1,2,cm,-1); qr_case(3,1,cm,-1); qr_case(1,3,cm,-1); qr_case(4,1,cm,-1); qr_case(2,2,cm,0); qr_case(3,2,cm,0);
        qr_solve_case(1,1,cm); qr_solve_case(2,1,cm); qr_solve_case(3,1,cm); qr_solve_case(1,2,cm); qr_solve_case(1,3,cm);
        if (T) { qr_case(2,2,cm,-1); qr_solve_case(2,2,cm); } }
    for (int cm=0;cm<2;++cm) block_qr_reuse_case(1,cm);   /* 2x2 blocks of 2x2 (a 4x4 scalar QR, three nested reflectors): minutes of z3 per obligation, not part of either tier */
    return hx::finish();
}
