// C18: composite preconditioners realise their block formulas.   (compiled with -fno-access-control)
#include "hx_amgcl.hpp"
#include <amgcl/preconditioner/schur_pressure_correction.hpp>
#include <amgcl/preconditioner/cpr.hpp>
#include <amgcl/preconditioner/dummy.hpp>
#include <amgcl/adapter/block_matrix.hpp>
#include <amgcl/value_type/static_matrix.hpp>
#include <amgcl/deflated_solver.hpp>
#include <amgcl/make_solver.hpp>
#include <amgcl/amg.hpp>
#include <amgcl/coarsening/smoothed_aggregation.hpp>
#include <amgcl/relaxation/spai0.hpp>
#include <amgcl/relaxation/ilu0.hpp>
#include <amgcl/relaxation/as_preconditioner.hpp>
#include <amgcl/solver/cg.hpp>
#include <amgcl/solver/bicgstab.hpp>
#include <amgcl/solver/preonly.hpp>
#include <amgcl/solver/skyline_lu.hpp>
using hx::scalar; using hx::var; using hx::Pattern; using hx::SCrs;
namespace be = amgcl::backend; typedef be::builtin<scalar> BE; typedef be::numa_vector<scalar> NV; typedef hx::ACrs<scalar> M; typedef std::vector<scalar> Vec; typedef std::vector<Vec> Mat;
static Mat dense_of(const M &A) { Mat d(A.nrows,Vec(A.ncols,scalar(0))); for (size_t i=0;i<A.nrows;++i) for (ptrdiff_t k=A.ptr[i];k<A.ptr[i+1];++k) d[i][A.col[k]]=d[i][A.col[k]]+A.val[k]; return d; }
static Vec mv(const Mat &A, const Vec &x) { Vec y(A.size()); for (size_t i=0;i<A.size();++i) { scalar s=0; for (size_t j=0;j<x.size();++j) s+=A[i][j]*x[j]; y[i]=s; } return y; }
// exact dense solve (Gauss-Jordan with concrete pivoting on the exact values)
static Vec dense_solve(Mat A, Vec b) { int n=A.size(); for (int c=0;c<n;++c) { int piv=-1; for (int r=c;r<n;++r) if (std::fabs(hx::to_double(A[r][c]))>1e-300) { piv=r; break; } if (piv<0) throw std::runtime_error("singular"); std::swap(A[c],A[piv]); std::swap(b[c],b[piv]); for (int r=0;r<n;++r) if (r!=c) { scalar m=A[r][c]/A[c][c]; for (int k=c;k<n;++k) A[r][k]=A[r][k]-m*A[c][k]; b[r]=b[r]-m*b[c]; } } Vec x(n); for (int i=0;i<n;++i) x[i]=b[i]/A[i][i]; return x; }

// exact inner solvers
struct ExactU { typedef BE backend_type; typedef amgcl::detail::empty_params params; std::shared_ptr<M> A; amgcl::solver::skyline_lu<scalar> lu;
    template<class Mx> ExactU(const Mx &K, const params& =params(), const BE::params& =BE::params()) : A(std::make_shared<M>(K)), lu(K) {}
    template<class V1,class V2> std::tuple<size_t,scalar> operator()(const V1 &rhs, V2 &&x) const { lu(rhs,x); return std::make_tuple((size_t)1,scalar(0)); } const M &system_matrix() const { return *A; } size_t bytes() const { return 0; } };
struct ExactP { typedef BE backend_type; typedef amgcl::detail::empty_params params; std::shared_ptr<M> A;      // solves Op p = rhs exactly, Op given only as an operator
    template<class Mx> ExactP(const Mx &K, const params& =params(), const BE::params& =BE::params()) : A(std::make_shared<M>(K)) {}
    template<class Op,class V1,class V2> std::tuple<size_t,scalar> operator()(const Op &S, const V1 &rhs, V2 &&x) const { int n=A->nrows; Mat D(n,Vec(n)); for (int j=0;j<n;++j) { NV e(n,false), y(n,false); for (int i=0;i<n;++i) { e[i]=scalar(i==j?1:0); y[i]=scalar(0); } be::spmv(scalar(1),S,e,scalar(0),y); for (int i=0;i<n;++i) D[i][j]=y[i]; } Vec b; for (int i=0;i<n;++i) b.push_back(rhs[i]); Vec s=dense_solve(D,b); for (int i=0;i<n;++i) x[i]=s[i]; return std::make_tuple((size_t)1,scalar(0)); }
    const M &system_matrix() const { return *A; } size_t bytes() const { return 0; } };

static void schur_case(const Pattern &p, hx::Rng &rng, unsigned mask, int type, int adjust_p, bool simplec) { int n=p.n; std::string ms; for (int i=0;i<n;++i) ms+=((mask>>i)&1)?'p':'u';
    hx::run_case("schur/type"+std::to_string(type)+"/adj"+std::to_string(adjust_p)+(simplec?"s":"d")+"/"+ms+"/"+p.name, [&]() { hx::Rng r2(rng.s); SCrs K=hx::ddmatrix(p,r2); auto Km=hx::to_amgcl(K); typedef amgcl::preconditioner::schur_pressure_correction<ExactU,ExactP> SPC; SPC::params prm; prm.type=type; prm.adjust_p=adjust_p; prm.simplec_dia=simplec; prm.approx_schur=false; for (int i=0;i<n;++i) prm.pmask.push_back((mask>>i)&1);
        SPC P(*Km,prm); Vec f=hx::sym_vector("f",n); NV F=hx::to_numa(f), X(n,false); for (int i=0;i<n;++i) X[i]=hx::junk("x"+std::to_string(i)); P.apply(F,X); Vec x=hx::to_vec(X); Mat Kd=K.dense();
        bool clean=true; for (auto &v : x) clean=clean&&hx::independent_of(v,"junk_"); hx::require("apply() does not depend on the old content of x", clean);
        std::vector<int> ui, pi; for (int i=0;i<n;++i) (((mask>>i)&1) ? pi : ui).push_back(i);
        // sub-blocks reassemble to K
        { Mat kup=dense_of(*P.Kup), kpu=dense_of(*P.Kpu), kuu=dense_of(P.U->system_matrix()), kpp=dense_of(P.P->system_matrix()); if (adjust_p==2) kpp=dense_of(*P.Lm); if (adjust_p==1) for (size_t i=0;i<pi.size();++i) kpp[i][i]=kpp[i][i]+(*P.Ld)[i];
          Vec got, ref; for (size_t a=0;a<ui.size();++a) { for (size_t b=0;b<ui.size();++b) { got.push_back(kuu[a][b]); ref.push_back(Kd[ui[a]][ui[b]]); } for (size_t b=0;b<pi.size();++b) { got.push_back(kup[a][b]); ref.push_back(Kd[ui[a]][pi[b]]); } } for (size_t a=0;a<pi.size();++a) { for (size_t b=0;b<ui.size();++b) { got.push_back(kpu[a][b]); ref.push_back(Kd[pi[a]][ui[b]]); } for (size_t b=0;b<pi.size();++b) { got.push_back(kpp[a][b]); ref.push_back(Kd[pi[a]][pi[b]]); } }
          hx::prove_eq_vec("extracted Kuu/Kup/Kpu/Kpp reassemble to the original matrix", got, ref); }
        // the matrix-free Schur operator the pressure solver iterates with:  spmv(alpha, x, beta, y) = alpha S x + beta y  with  S = Kpp - Kpu Kuu^-1 Kup  (for every adjust_p)
        { int np=pi.size(), nu=ui.size(); Mat kuu(nu,Vec(nu)), kup(nu,Vec(np)), kpu(np,Vec(nu)), kpp(np,Vec(np)); for (int a=0;a<nu;++a) { for (int b=0;b<nu;++b) kuu[a][b]=Kd[ui[a]][ui[b]]; for (int b=0;b<np;++b) kup[a][b]=Kd[ui[a]][pi[b]]; } for (int a=0;a<np;++a) { for (int b=0;b<nu;++b) kpu[a][b]=Kd[pi[a]][ui[b]]; for (int b=0;b<np;++b) kpp[a][b]=Kd[pi[a]][pi[b]]; }
          scalar al=var("alpha",-0.75), bt=var("beta",0.5); Vec xs=hx::sym_vector("sx",np), ys=hx::sym_vector("sy",np,0.5); NV Xv=hx::to_numa(xs), Yv=hx::to_numa(ys); P.spmv(al,Xv,bt,Yv);
          Vec w = nu ? dense_solve(kuu,mv(kup,xs)) : Vec(); Vec kw = nu ? mv(kpu,w) : Vec(np,scalar(0)); Vec kx=mv(kpp,xs), ref; for (int i=0;i<np;++i) ref.push_back(al*(kx[i]-kw[i])+bt*ys[i]);
          hx::prove_eq_vec("Schur operator: spmv(alpha, x, beta, y) = alpha (Kpp - Kpu Kuu^-1 Kup) x + beta y", hx::to_vec(Yv), ref); }
        if (type==1) hx::prove_eq_vec("type 1 with exact inner solves is the exact inverse: K * apply(f) = f", mv(Kd,x), f);
        else { // block upper triangular:  S p = f_p ,  Kuu u + Kup p = f_u   with S = Kpp - Kpu Kuu^-1 Kup
            Vec pu, pp; for (int i : ui) pu.push_back(x[i]); for (int i : pi) pp.push_back(x[i]); Vec l1, r1; for (size_t a=0;a<ui.size();++a) { scalar s=0; for (size_t b=0;b<ui.size();++b) s+=Kd[ui[a]][ui[b]]*pu[b]; for (size_t b=0;b<pi.size();++b) s+=Kd[ui[a]][pi[b]]*pp[b]; l1.push_back(s); r1.push_back(f[ui[a]]); } hx::prove_eq_vec("type 2: Kuu u + Kup p = f_u", l1, r1);
            Mat kuu(ui.size(),Vec(ui.size())); for (size_t a=0;a<ui.size();++a) for (size_t b=0;b<ui.size();++b) kuu[a][b]=Kd[ui[a]][ui[b]]; Vec kp(ui.size()); for (size_t a=0;a<ui.size();++a) { scalar s=0; for (size_t b=0;b<pi.size();++b) s+=Kd[ui[a]][pi[b]]*pp[b]; kp[a]=s; } Vec w=dense_solve(kuu,kp); Vec l2, r2; for (size_t a=0;a<pi.size();++a) { scalar s=0; for (size_t b=0;b<pi.size();++b) s+=Kd[pi[a]][pi[b]]*pp[b]; for (size_t b=0;b<ui.size();++b) s-=Kd[pi[a]][ui[b]]*w[b]; l2.push_back(s); r2.push_back(f[pi[a]]); } hx::prove_eq_vec("type 2: (Kpp - Kpu Kuu^-1 Kup) p = f_p", l2, r2); } }); }

// CPR: x = S f + Scatter P (Fpp (f - A S f)) ; pressure matrix = first-row-of-inverse-diagonal-block weighting of A
// holes: the diagonal blocks of the later block rows have structurally missing off-diagonal entries (scalar input only knows stored entries)
template<template<class> class SRelax> static void cpr_case(const Pattern &pb, hx::Rng &rng, int B, int active_blocks, const char *sname, bool holes=false) { hx::run_case(std::string("cpr/")+sname+"/b"+std::to_string(B)+"/act"+std::to_string(active_blocks)+(holes?"/holes/":"/")+pb.name, [&]() { hx::Rng r2(rng.s); int nb=pb.n, n=nb*B;
    SCrs K; K.n=K.m=n; K.ptr.push_back(0); for (int I=0;I<nb;++I) for (int r=0;r<B;++r) { for (ptrdiff_t k=pb.ptr[I];k<pb.ptr[I+1];++k) for (int c=0;c<B;++c) { int i=I*B+r, j=pb.col[k]*B+c; double v = i==j ? 6.0+r2.below(4)/2.0+B : (pb.col[k]==I ? (r2.below(5)-2)/4.0 : -(1+r2.below(6))/8.0); if (v==0 && i!=j) v=0.125; if (holes && I>=1 && pb.col[k]==I && r!=c && (r+c+I)%2==1) continue; K.col.push_back(j); K.val.push_back(scalar(v)); } K.ptr.push_back(K.col.size()); }
    auto Km=hx::to_amgcl(K); typedef amgcl::relaxation::as_preconditioner<BE,amgcl::relaxation::spai0> PP; typedef amgcl::relaxation::as_preconditioner<BE,SRelax> SPc; typedef amgcl::preconditioner::cpr<PP,SPc> CPR; typename CPR::params prm; prm.block_size=B; prm.active_rows = active_blocks ? active_blocks*B : 0;
    CPR C(*Km,prm); int N = prm.active_rows ? prm.active_rows : n; int np=N/B; Mat Kd=K.dense(); Vec f=hx::sym_vector("f",n);
    // weights: row ip of Fpp times the diagonal block = e_1^T
    { Mat F=dense_of(*C.Fpp); Vec got, ref; for (int ip=0;ip<np;++ip) for (int j=0;j<B;++j) { scalar s=0; for (int i=0;i<B;++i) s+=F[ip][ip*B+i]*Kd[ip*B+i][ip*B+j]; got.push_back(s); ref.push_back(scalar(j==0?1:0)); } hx::prove_eq_vec("CPR: weighting row * diagonal block = e_1^T (first row of the inverse of the diagonal block)", got, ref);
      Vec og, oz; for (int ip=0;ip<np;++ip) for (int c=0;c<(int)F[ip].size();++c) if (c/B!=ip) { og.push_back(F[ip][c]); oz.push_back(scalar(0)); } hx::prove_eq_vec("CPR: weighting operator is block diagonal", og, oz);
      // pressure matrix
      Mat App=dense_of(C.P->system_matrix()); Vec g2, r2; for (int ip=0;ip<np;++ip) for (int jp=0;jp<np;++jp) { scalar s=0; for (int i=0;i<B;++i) s+=F[ip][ip*B+i]*Kd[ip*B+i][jp*B]; g2.push_back(App[ip][jp]); r2.push_back(s); } hx::prove_eq_vec("CPR: pressure matrix = weighted first-unknown columns of A", g2, r2); }
    // action
    auto act=[&](const CPR &Cx) { NV F=hx::to_numa(f), X(n,false); for (int i=0;i<n;++i) X[i]=hx::junk("x"+std::to_string(i)); Cx.apply(F,X); return hx::to_vec(X); };
    Vec x=act(C); { NV F=hx::to_numa(f), S1(n,false); for (int i=0;i<n;++i) S1[i]=scalar(0); C.S->apply(F,S1); Vec s1=hx::to_vec(S1); Vec As=mv(Kd,s1), rs(n); for (int i=0;i<n;++i) rs[i]=f[i]-As[i]; Mat Fd=dense_of(*C.Fpp), Sc=dense_of(*C.Scatter); Vec rsa(rs.begin(),rs.begin()+Fd[0].size()); /* Fpp has one column per ACTIVE row */ Vec rp=mv(Fd,rsa); NV RP=hx::to_numa(rp), XP(np,false); for (int i=0;i<np;++i) XP[i]=scalar(0); C.P->apply(RP,XP); Vec sx=mv(Sc,hx::to_vec(XP)); Vec ref(n); for (int i=0;i<n;++i) ref[i]=s1[i]+sx[i];
      { bool allzero=true; for (auto &v : rs) allzero=allzero&&hx::same_handle(v,scalar(0)); hx::count(allzero ? "CPR cases whose global stage is exact (pressure stage sees a zero residual)" : "CPR cases with a non-trivial pressure stage"); }
      hx::prove_eq_vec("CPR: x = S f + Scatter P (Fpp (f - A S f))", x, ref); Vec sg, sr; for (int i=0;i<n;++i) for (int j=0;j<np;++j) { bool want = (i<N && i%B==0 && i/B==j); sg.push_back(Sc[i][j]); sr.push_back(scalar(want?1:0)); } hx::prove_eq_vec("CPR: Scatter injects the pressure correction into the first unknown of each active block", sg, sr); }
    // partial update with an unchanged matrix leaves the action unchanged
    { C.partial_update(*Km,true); Vec x2=act(C); hx::prove_eq_vec("CPR: partial update with the unchanged matrix leaves the action unchanged", x2, x); C.partial_update(*Km,false); Vec x3=act(C); hx::prove_eq_vec("CPR: partial update (transfer operators kept) with the unchanged matrix leaves the action unchanged", x3, x); } }); }

// CPR with a BLOCK-VALUED flow backend (static_matrix<B,B>): same formulas, separate code path (init / update_transfer for block values)
template<int B, template<class> class SRelax> static void cpr_block_case(const Pattern &pb, hx::Rng &rng, int active_blocks, const char *sname) { hx::run_case(std::string("cpr-blockvalued/")+sname+"/b"+std::to_string(B)+"/act"+std::to_string(active_blocks)+"/"+pb.name, [&]() { hx::Rng r2(rng.s); int nb=pb.n, n=nb*B;
    SCrs K; K.n=K.m=n; K.ptr.push_back(0); for (int I=0;I<nb;++I) for (int r=0;r<B;++r) { for (ptrdiff_t k=pb.ptr[I];k<pb.ptr[I+1];++k) for (int c=0;c<B;++c) { int i=I*B+r, j=pb.col[k]*B+c; double v = i==j ? 6.0+r2.below(4)/2.0+B : (pb.col[k]==I ? (r2.below(5)-2)/4.0+(r>c?0.125:0.0) : -(1+r2.below(6))/8.0); if (v==0 && i!=j) v=0.125; K.col.push_back(j); K.val.push_back(scalar(v)); } K.ptr.push_back(K.col.size()); }
    auto Km=hx::to_amgcl(K); typedef amgcl::static_matrix<scalar,B,B> Blk; typedef be::builtin<Blk> BB; typedef amgcl::relaxation::as_preconditioner<BE,amgcl::relaxation::spai0> PP; typedef amgcl::relaxation::as_preconditioner<BB,SRelax> SPc; typedef amgcl::preconditioner::cpr<PP,SPc> CPR; typename CPR::params prm; prm.active_rows = active_blocks;
    CPR C(amgcl::adapter::block_matrix<Blk>(*Km),prm); int Nb = active_blocks ? active_blocks : nb; Mat Kd=K.dense(); Vec f=hx::sym_vector("f",n);
    { Mat F=dense_of(*C.Fpp); hx::require("block-valued CPR: weighting operator has one row per active block", (int)F.size()==Nb && (int)F[0].size()==Nb*B); Vec got, ref; for (int ip=0;ip<Nb;++ip) for (int j=0;j<B;++j) { scalar s=0; for (int i=0;i<B;++i) s+=F[ip][ip*B+i]*Kd[ip*B+i][ip*B+j]; got.push_back(s); ref.push_back(scalar(j==0?1:0)); } hx::prove_eq_vec("block-valued CPR: weighting row * diagonal block = e_1^T (first row of the inverse of the diagonal block)", got, ref);
      { const auto &Ap=C.P->system_matrix(); bool wf=Ap.nrows==(size_t)Nb && Ap.ncols==(size_t)Nb; for (size_t i=0;i<Ap.nrows && wf;++i) for (ptrdiff_t k=Ap.ptr[i];k<Ap.ptr[i+1];++k) wf=wf && Ap.col[k]>=0 && (size_t)Ap.col[k]<Ap.ncols; hx::require("block-valued CPR: the pressure matrix is Nb x Nb with in-range column indices (couplings to inactive rows are not part of it)", wf); if (!wf) return; }
      Mat App=dense_of(C.P->system_matrix()); Vec g2, r2v; for (int ip=0;ip<Nb;++ip) for (int jp=0;jp<Nb;++jp) { scalar s=0; for (int i=0;i<B;++i) s+=F[ip][ip*B+i]*Kd[ip*B+i][jp*B]; g2.push_back(App[ip][jp]); r2v.push_back(s); } hx::prove_eq_vec("block-valued CPR: pressure matrix = weighted first-unknown columns of A", g2, r2v); }
    auto act=[&](const CPR &Cx) { NV F=hx::to_numa(f), X(n,false); for (int i=0;i<n;++i) X[i]=hx::junk("x"+std::to_string(i)); auto Fb=be::reinterpret_as_rhs<Blk>(F); auto Xb=be::reinterpret_as_rhs<Blk>(X); Cx.apply(Fb,Xb); return hx::to_vec(X); };
    Vec x=act(C); { bool clean=true; for (auto &v : x) clean=clean&&hx::independent_of(v,"junk_"); hx::require("block-valued CPR: apply() does not depend on the old content of x", clean); }
    { NV F=hx::to_numa(f), S1(n,false); for (int i=0;i<n;++i) S1[i]=scalar(0); auto Fb=be::reinterpret_as_rhs<Blk>(F); auto Sb=be::reinterpret_as_rhs<Blk>(S1); C.S->apply(Fb,Sb); Vec s1=hx::to_vec(S1); Vec As=mv(Kd,s1), rs(n); for (int i=0;i<n;++i) rs[i]=f[i]-As[i]; Mat Fd=dense_of(*C.Fpp); Vec rsa(rs.begin(),rs.begin()+Nb*B); Vec rp=mv(Fd,rsa); NV RP=hx::to_numa(rp), XP(Nb,false); for (int i=0;i<Nb;++i) XP[i]=scalar(0); C.P->apply(RP,XP); Vec ref=s1; for (int ip=0;ip<Nb;++ip) ref[ip*B]=ref[ip*B]+XP[ip];
      hx::prove_eq_vec("block-valued CPR: x = S f + Scatter P (Fpp (f - A S f)), correction injected into the first unknown of each active block", x, ref); }
    { C.partial_update(amgcl::adapter::block_matrix<Blk>(*Km),true); Vec x2=act(C); hx::prove_eq_vec("block-valued CPR: partial update with the unchanged matrix leaves the action unchanged", x2, x); C.partial_update(amgcl::adapter::block_matrix<Blk>(*Km),false); Vec x3=act(C); hx::prove_eq_vec("block-valued CPR: partial update (transfer operators kept) with the unchanged matrix leaves the action unchanged", x3, x); } }); }

// deflated solver: projection leaves a residual orthogonal to every deflation vector; solve is truthful for the original system
static void deflated_case(const Pattern &p, hx::Rng &rng, int nvec, int k, bool nonsym) { hx::CaseOptions coo; coo.max_paths=10; coo.max_depth=160; hx::run_case("deflated/nvec"+std::to_string(nvec)+"/k"+std::to_string(k)+(nonsym?"/nonsym/":"/")+p.name, [&]() { hx::Rng r2(rng.s); SCrs A = nonsym ? hx::ddmatrix(p,r2) : hx::mmatrix(p,r2); int n=p.n; auto Am=hx::to_amgcl(A);
    std::vector<scalar> Z(nvec*n); for (int j=0;j<nvec;++j) for (int i=0;i<n;++i) Z[j*n+i]=scalar(j==0 ? 1.0 : (j==1 ? (double)(i%2) : (double)((i*j)%3)-1.0));
    typedef amgcl::deflated_solver<amgcl::amg<BE,amgcl::coarsening::smoothed_aggregation,amgcl::relaxation::spai0>, amgcl::solver::cg<BE>> DS; DS::params prm; prm.nvec=nvec; prm.vec=Z.data(); prm.solver.maxiter=k; prm.solver.tol=scalar(0); prm.solver.abstol=scalar(0); prm.precond.coarse_enough=2;
    DS S(*Am,prm); Vec f=hx::sym_vector("f",n), x0=hx::sym_vector("x",n,0.25); { scalar ff=0; for (auto &v : f) ff+=v*v; hx::assume(hx::le(scalar(1e-30),ff)); }
    { NV F=hx::to_numa(f), X=hx::to_numa(x0); S.project(F,X); Vec x=hx::to_vec(X); Vec Ax=hx::dense_mv(A,x); Vec l, z; for (int j=0;j<nvec;++j) { scalar s=0; for (int i=0;i<n;++i) s+=Z[j*n+i]*(f[i]-Ax[i]); l.push_back(s); z.push_back(scalar(0)); } hx::prove_eq_vec("deflation: after projection the residual is orthogonal to every deflation vector", l, z); }
    { NV F=hx::to_numa(f), X=hx::to_numa(x0); hx::cuts(true); size_t it; scalar res; bool threw=false; try { std::tie(it,res)=S(F,X); } catch (const std::runtime_error&) { threw=true; } hx::cuts(false); if (threw) return; scalar r=hx::unfold(res); Vec x=hx::to_vec(X); Vec Ax=hx::dense_mv(A,x); scalar rr=0, ff=0; for (int i=0;i<n;++i) { scalar d=f[i]-Ax[i]; rr+=d*d; ff+=f[i]*f[i]; } hx::prove_eq("deflated solver: returned x and residual are truthful for the ORIGINAL system", r*r*ff, rr); hx::require("deflated solver: iterations <= maxiter", it<=(size_t)k); } },coo); }

int main(int argc, char **argv) {
    hx::parse_args(argc,argv); bool T=hx::thorough(); hx::Rng rng(hx::args().seed);
    hx::encodes("preconditioner::schur_pressure_correction<U,P>::init / apply / spmv (types 1 and 2, adjust_p 0/1/2, simplec_dia on/off) with exact inner solvers; preconditioner::cpr<P,S>::first_scalar_pass / init / apply / partial_update / invert; deflated_solver::init / project / operator()");
    hx::assume_note("L-mode: concrete dyadic matrices (nonsymmetric diagonally dominant for Schur/CPR, SPD and nonsymmetric for deflation), right-hand sides symbolic; inner solvers of the Schur preconditioner are exact (skyline LU for U; a dense exact solve of the operator the preconditioner itself exposes for P)");
    hx::assume_note("NOT covered: cpr_drs, pmask pattern strings (parameter parsing)");
    for (auto &p : std::vector<Pattern>{hx::dense_pattern(3,3),hx::band_pattern(4,1),hx::dense_pattern(4,4)}) { int n=p.n; for (unsigned mask=1; mask+1<(1u<<n); ++mask) for (int type=1;type<=2;++type) for (int adj=0;adj<3;++adj) { if (!T && p.nnz()==16 && (mask%3!=1)) continue; schur_case(p,rng,mask,type,adj,(mask+adj)%2); } }
    if (T) { Pattern p=hx::random_pattern(5,5,rng,2,true); for (unsigned mask=1; mask+1<32; ++mask) schur_case(p,rng,mask,1+(mask%2),mask%3,mask%2); }
    // the global stage S: ILU(0) is EXACT on these small block patterns (the pressure stage then sees a zero residual), SPAI-0 is not
    for (int B=2;B<=(T?4:3);++B) for (auto &pb : std::vector<Pattern>{hx::dense_pattern(2,2),hx::band_pattern(3,1)}) { cpr_case<amgcl::relaxation::spai0>(pb,rng,B,0,"spai0"); cpr_case<amgcl::relaxation::ilu0>(pb,rng,B,0,"ilu0"); if (pb.n==3) { cpr_case<amgcl::relaxation::spai0>(pb,rng,B,2,"spai0"); cpr_case<amgcl::relaxation::ilu0>(pb,rng,B,2,"ilu0"); } }
    for (auto &pb : std::vector<Pattern>{hx::dense_pattern(2,2),hx::band_pattern(3,1)}) { cpr_block_case<2,amgcl::relaxation::spai0>(pb,rng,0,"spai0"); cpr_block_case<3,amgcl::relaxation::spai0>(pb,rng,0,"spai0"); cpr_block_case<2,amgcl::relaxation::ilu0>(pb,rng,0,"ilu0"); if (pb.n==3) cpr_block_case<2,amgcl::relaxation::spai0>(pb,rng,2,"spai0"); if (T) cpr_block_case<4,amgcl::relaxation::spai0>(pb,rng,0,"spai0"); }
    for (int B=2;B<=(T?4:3);++B) { cpr_case<amgcl::relaxation::spai0>(hx::band_pattern(3,1),rng,B,0,"spai0",true); cpr_case<amgcl::relaxation::spai0>(hx::dense_pattern(2,2),rng,B,0,"spai0",true); if (T || B==3) cpr_case<amgcl::relaxation::spai0>(hx::band_pattern(4,1),rng,B,3,"spai0",true); }
    for (auto &p : std::vector<Pattern>{hx::grid_pattern(3,2),hx::band_pattern(7,1)}) for (int nvec=1;nvec<=(T?3:2);++nvec) { deflated_case(p,rng,nvec,1,false); if (nvec>=2) deflated_case(p,rng,nvec,1,true); }
    return hx::finish();
}
