// C04: interpolation is exact on the near-null space (constant vector); aggregates partition the grid.
#include "hx_amgcl.hpp"
#include <amgcl/coarsening/plain_aggregates.hpp>
#include <amgcl/coarsening/pointwise_aggregates.hpp>
#include <amgcl/coarsening/tentative_prolongation.hpp>
#include <amgcl/coarsening/aggregation.hpp>
#include <amgcl/coarsening/smoothed_aggregation.hpp>
#include <amgcl/coarsening/smoothed_aggr_emin.hpp>
#include <amgcl/coarsening/ruge_stuben.hpp>
using hx::scalar; using hx::var; using hx::Pattern; using hx::SCrs;
namespace be = amgcl::backend; namespace co = amgcl::coarsening; typedef be::builtin<scalar> BE; typedef hx::ACrs<scalar> M; typedef std::vector<std::vector<scalar>> Dense;
#ifdef HX_SYM
namespace amgcl { namespace backend { template<> struct coarsening_is_supported< builtin<symx::sym>, coarsening::ruge_stuben > : std::true_type {}; } }
#endif
static Dense dense_of(const M &A) { Dense d(A.nrows,std::vector<scalar>(A.ncols,scalar(0))); for (size_t i=0;i<A.nrows;++i) for (ptrdiff_t k=A.ptr[i];k<A.ptr[i+1];++k) d[i][A.col[k]]=d[i][A.col[k]]+A.val[k]; return d; }
// symmetric matrix with symbolic off-diagonals; zero_rowsum: diagonal = -(sum of off-diagonals), else free symbolic diagonal
static SCrs sym_matrix(const Pattern &p, bool zero_rowsum, bool symmetric_values) { SCrs A; A.n=p.n; A.m=p.m; A.ptr=p.ptr; A.col=p.col; A.val.assign(p.col.size(),scalar(0)); std::vector<ptrdiff_t> dk(p.n,-1);
    for (int i=0;i<p.n;++i) for (ptrdiff_t k=p.ptr[i];k<p.ptr[i+1];++k) { int j=p.col[k]; if (j==i) { dk[i]=k; continue; } int a=std::min(i,j), b=std::max(i,j); std::string nm = symmetric_values ? "o_"+std::to_string(a)+"_"+std::to_string(b) : "o_"+std::to_string(i)+"_"+std::to_string(j); A.val[k]=var(nm,-1.0-0.125*((a+2*b)%4)); }
    for (int i=0;i<p.n;++i) if (dk[i]>=0) { if (zero_rowsum) { scalar s=0; for (ptrdiff_t k=p.ptr[i];k<p.ptr[i+1];++k) if (k!=dk[i]) s+=A.val[k]; A.val[dk[i]]=scalar(0)-s; } else A.val[dk[i]]=var("d_"+std::to_string(i),4.0+0.25*i+(double)(p.ptr[i+1]-p.ptr[i])); } return A; }

template<class Aggr> static void partition_checks(const std::string &nm, const Aggr &ag, const Pattern &p, int bs) { int n=p.n; ptrdiff_t cnt=ag.count; bool ok=true; std::string bad; std::vector<int> used(std::max<ptrdiff_t>(cnt,0),0);
    for (int i=0;i<n;++i) { bool strong=false; for (ptrdiff_t k=p.ptr[i];k<p.ptr[i+1];++k) strong=strong||ag.strong_connection[k]; ptrdiff_t id=ag.id[i];
        if (strong) { if (!(id>=0 && id<cnt)) { ok=false; bad="node "+std::to_string(i)+" has a strong neighbour but id="+std::to_string(id); } } else if (bs==1 && id>=0) { ok=false; bad="isolated node "+std::to_string(i)+" was put into aggregate "+std::to_string(id); }
        if (id>=0 && id<cnt) used[id]++; if (id>=cnt) { ok=false; bad="id out of range"; } }
    for (ptrdiff_t a=0;a<cnt;++a) if (!used[a]) { ok=false; bad="aggregate "+std::to_string(a)+" is empty (numbering not contiguous)"; }
    hx::require(nm+": every node with a strong neighbour is in exactly one non-empty aggregate, isolated nodes in none, ids contiguous", ok, bad);
    bool sc=true; for (int i=0;i<n;++i) for (ptrdiff_t k=p.ptr[i];k<p.ptr[i+1];++k) if (p.col[k]==i && ag.strong_connection[k]) sc=false; hx::require(nm+": a diagonal entry is never a strong connection", sc); }

static void aggregates_case(const Pattern &p, bool symmetric_values, float eps) { hx::CaseOptions coo; coo.max_paths=64; coo.max_depth=100; hx::run_case(std::string("plain_aggregates/")+(symmetric_values?"sym/":"nonsym/")+"eps"+std::to_string((int)(eps*100))+"/"+p.name, [&]() {
    SCrs A=sym_matrix(p,false,symmetric_values); auto Am=hx::to_amgcl(A); co::plain_aggregates::params prm; prm.eps_strong=eps;
    try { co::plain_aggregates ag(*Am,prm); partition_checks("plain_aggregates",ag,p,1);
        // strength definition: eps^2 a_ii a_cc < a_ic^2
        std::vector<hx::F> fs; scalar e2=scalar((double)(prm.eps_strong*prm.eps_strong)); for (int i=0;i<p.n;++i) for (ptrdiff_t k=p.ptr[i];k<p.ptr[i+1];++k) { int c=p.col[k]; if (c==i) continue; hx::F st=hx::lt(e2*A.at(i,i)*A.at(c,c), A.val[k]*A.val[k]); fs.push_back(ag.strong_connection[k] ? st : !st); } hx::prove_all("strong connection flag <=> eps^2 a_ii a_cc < a_ic^2", fs);
        // tentative prolongation: one unit entry per aggregated row, disjoint supports, P^T P diagonal
        co::nullspace_params ns; auto P=co::tentative_prolongation<M>(p.n,ag.count,ag.id,ns,1); bool tp = P->nrows==(size_t)p.n && P->ncols==ag.count; for (int i=0;i<p.n&&tp;++i) { ptrdiff_t w=P->ptr[i+1]-P->ptr[i]; tp = tp && w==(ag.id[i]>=0 ? 1 : 0); if (w==1) tp = tp && P->col[P->ptr[i]]==ag.id[i] && hx::same_handle(P->val[P->ptr[i]],scalar(1)); }
        hx::require("tentative prolongation: exactly one unit entry per aggregated row in its aggregate's column (disjoint supports, orthogonal columns, constant vector reproduced)", tp);
    } catch (const amgcl::error::empty_level&) { hx::count("empty level (no strong connection at all) paths"); } },coo); }

static void block_case(const Pattern &p, int bs) { hx::CaseOptions coo; coo.max_paths=64; coo.max_depth=140; hx::run_case("block_aggregates/b"+std::to_string(bs)+"/"+p.name, [&]() {
    SCrs A=sym_matrix(p,false,true); for (int i=0;i<p.n;++i) hx::assume(hx::lt(scalar(0),A.at(i,i)));    // positive diagonal (M-matrix like): |a_ii| = a_ii
    // K = A (x) I_b
    SCrs K; K.n=p.n*bs; K.m=p.m*bs; K.ptr.push_back(0); for (int i=0;i<p.n;++i) for (int r=0;r<bs;++r) { for (ptrdiff_t k=p.ptr[i];k<p.ptr[i+1];++k) { K.col.push_back(p.col[k]*bs+r); K.val.push_back(A.val[k]); } K.ptr.push_back(K.col.size()); }
    auto Am=hx::to_amgcl(A), Km=hx::to_amgcl(K); co::pointwise_aggregates::params p1, pb; pb.block_size=bs;
    bool e1=false, eb=false; std::shared_ptr<co::pointwise_aggregates> a1, ab; try { a1=std::make_shared<co::pointwise_aggregates>(*Am,p1,1); } catch (const amgcl::error::empty_level&) { e1=true; } try { ab=std::make_shared<co::pointwise_aggregates>(*Km,pb,1); } catch (const amgcl::error::empty_level&) { eb=true; }
    hx::require("block coarsening is empty exactly when the scalar coarsening is empty", e1==eb); if (e1||eb) return;
    bool lift = ab->count==a1->count*bs; std::string bad; for (int i=0;i<p.n;++i) for (int r=0;r<bs;++r) { ptrdiff_t want = a1->id[i]<0 ? a1->id[i] : a1->id[i]*bs+r; ptrdiff_t got=ab->id[i*bs+r]; bool same = a1->id[i]<0 ? got<0 : got==want; if (!same) { lift=false; if (bad.empty()) bad="node "+std::to_string(i)+" component "+std::to_string(r)+": id "+std::to_string(got)+" expected "+std::to_string(want); } }
    hx::require("coarsening A (x) I_b with block_size b = lifted coarsening of A (the unknowns of a node travel together)", lift, bad);
    // the strength flags travel too: entry (i*b+r, j*b+r) of A (x) I_b is strong exactly when (i,j) is strong in A (they decide the filtered matrix of smoothed aggregation)
    { bool sl=true; std::string w; for (int i=0;i<p.n;++i) for (ptrdiff_t k=p.ptr[i];k<p.ptr[i+1];++k) for (int r=0;r<bs;++r) { ptrdiff_t kb=K.ptr[i*bs+r]+(k-p.ptr[i]); bool s1=a1->strong_connection[k], sb=ab->strong_connection[kb]; if (s1!=sb) { sl=false; if (w.empty()) w="entry ("+std::to_string(i*bs+r)+","+std::to_string(K.col[kb])+") strong="+std::to_string(sb)+", scalar entry ("+std::to_string(i)+","+std::to_string(p.col[k])+") strong="+std::to_string(s1); } }
      hx::require("strength flags of A (x) I_b with block_size b = lifted strength flags of A", sl, w); }
    // smoothed aggregation: P(A (x) I_b, block_size b) = P(A) (x) I_b
    { co::smoothed_aggregation<BE>::params q1, qb; qb.aggr.block_size=bs; co::smoothed_aggregation<BE> c1(q1), cb(qb); std::shared_ptr<M> P1, R1, Pb, Rb; bool x1=false, xb=false; try { std::tie(P1,R1)=c1.transfer_operators(*Am); } catch (const amgcl::error::empty_level&) { x1=true; } try { std::tie(Pb,Rb)=cb.transfer_operators(*Km); } catch (const amgcl::error::empty_level&) { xb=true; }
      if (!x1 && !xb) { hx::require("smoothed aggregation on A (x) I_b: coarse size = b * scalar coarse size", Pb->ncols==P1->ncols*(size_t)bs); if (Pb->ncols==P1->ncols*(size_t)bs) { std::vector<scalar> got, ref; for (int i=0;i<p.n;++i) for (int r=0;r<bs;++r) { std::vector<scalar> g(Pb->ncols,scalar(0)), e(Pb->ncols,scalar(0)); for (ptrdiff_t k=Pb->ptr[i*bs+r];k<Pb->ptr[i*bs+r+1];++k) g[Pb->col[k]]=g[Pb->col[k]]+Pb->val[k]; for (ptrdiff_t k=P1->ptr[i];k<P1->ptr[i+1];++k) e[P1->col[k]*bs+r]=e[P1->col[k]*bs+r]+P1->val[k]; for (size_t c=0;c<g.size();++c) { got.push_back(g[c]); ref.push_back(e[c]); } }
        hx::prove_eq_vec("smoothed aggregation on A (x) I_b with block_size b = lifted prolongation P(A) (x) I_b", got, ref); } } } },coo); }

static void sa_case(const Pattern &p, bool zero_rowsum, bool estimate_rho, float relax=1.0f) { hx::CaseOptions coo; coo.max_paths=48; coo.max_depth=140; hx::run_case(std::string("smoothed_aggregation/")+(zero_rowsum?"zrs/":"gen/")+(estimate_rho?"rho/":"fixed/")+(relax!=1.0f?"relax"+std::to_string((int)(relax*100))+"/":"")+p.name, [&]() {
    SCrs A=sym_matrix(p,zero_rowsum,true); if (zero_rowsum) for (auto &v : A.val) hx::assume(hx::ne(v,scalar(0))); auto Am=hx::to_amgcl(A); int n=p.n; typedef co::smoothed_aggregation<BE> SA; SA::params prm; prm.relax=relax; prm.estimate_spectral_radius=estimate_rho; if (estimate_rho) for (int i=0;i<n;++i) hx::assume(hx::ne(A.at(i,i),scalar(0)));
    SA sa(prm); std::shared_ptr<M> P, R; try { std::tie(P,R)=sa.transfer_operators(*Am); } catch (const amgcl::error::empty_level&) { hx::count("empty level paths"); return; }
    // reference from the public aggregates (same decisions on this path)
    co::pointwise_aggregates ag(*Am,prm.aggr,0); co::nullspace_params ns; auto Pt=co::tentative_prolongation<M>(n,ag.count,ag.id,ns,1); Dense pt=dense_of(*Pt), pd=dense_of(*P); Dense a=A.dense();
    scalar omega=scalar((double)prm.relax); if (estimate_rho) omega = omega*scalar(4.0/3)/be::spectral_radius<true>(*Am,0); else omega=omega*scalar(2.0/3);
    std::vector<scalar> got, ref; std::vector<hx::F> rows; for (int i=0;i<n;++i) { scalar dF=0; for (ptrdiff_t k=p.ptr[i];k<p.ptr[i+1];++k) if (p.col[k]==i || !ag.strong_connection[k]) dF+=A.val[k]; bool has_strong=false; for (ptrdiff_t k=p.ptr[i];k<p.ptr[i+1];++k) has_strong=has_strong||ag.strong_connection[k];
        scalar rowsum=0; for (size_t c=0;c<ag.count;++c) { scalar s=(scalar(1)-omega)*pt[i][c]; for (ptrdiff_t k=p.ptr[i];k<p.ptr[i+1];++k) if (p.col[k]!=i && ag.strong_connection[k]) s-=omega*A.val[k]/dF*pt[p.col[k]][c]; got.push_back(pd[i][c]); ref.push_back(s); rowsum+=pd[i][c]; }
        if (zero_rowsum && has_strong) rows.push_back(hx::eq(rowsum,scalar(1))); }
    hx::prove_eq_vec("smoothed aggregation: P = (I - omega D_F^-1 A_F) P_tent", got, ref);
    if (!rows.empty()) hx::prove_all("smoothed aggregation: interpolation rows sum to one on zero-row-sum rows with a strong neighbour", rows);
    Dense rd=dense_of(*R); std::vector<scalar> l, r; for (size_t i=0;i<rd.size();++i) for (size_t j=0;j<rd[i].size();++j) { l.push_back(rd[i][j]); r.push_back(pd[j][i]); } hx::prove_eq_vec("R = P^T", l, r); },coo); }

// aggregates smaller than min_aggregate unknowns are removed (their nodes become unaggregated, the numbering stays contiguous): with near-null-space vectors the
// local QR of every surviving aggregate needs at least nullspace.cols rows.  Structural check on all strength graphs of the pattern, block sizes 1..3.
static void min_aggregate_case(const Pattern &p, int bs, unsigned min_aggr) { hx::CaseOptions coo; coo.max_paths=64; coo.max_depth=140; hx::run_case("min_aggregate/b"+std::to_string(bs)+"/m"+std::to_string(min_aggr)+"/"+p.name, [&]() {
    SCrs A=sym_matrix(p,false,true); for (int i=0;i<p.n;++i) hx::assume(hx::lt(scalar(0),A.at(i,i)));
    SCrs K; K.n=p.n*bs; K.m=p.m*bs; K.ptr.push_back(0); for (int i=0;i<p.n;++i) for (int r=0;r<bs;++r) { for (ptrdiff_t k=p.ptr[i];k<p.ptr[i+1];++k) { K.col.push_back(p.col[k]*bs+r); K.val.push_back(A.val[k]); } K.ptr.push_back(K.col.size()); }
    auto Km=hx::to_amgcl(K); co::pointwise_aggregates::params pb; pb.block_size=bs; std::shared_ptr<co::pointwise_aggregates> ag; try { ag=std::make_shared<co::pointwise_aggregates>(*Km,pb,min_aggr); } catch (const amgcl::error::empty_level&) { hx::count("empty level paths"); return; }
    hx::require("a coarsening that returns normally has at least one aggregate (no aggregate left = empty_level)", ag->count>0); if (ag->count==0) return;
    std::vector<int> cnt(ag->count,0); bool range=true; for (int i=0;i<K.n;++i) { ptrdiff_t a=ag->id[i]; if (a>=0) { if ((size_t)a>=ag->count) range=false; else cnt[a]++; } } hx::require("aggregate ids are in [0,count) or negative", range); if (!range) return;
    bool big=true, nonempty=true; std::string w; for (size_t a=0;a<ag->count;++a) { if (cnt[a]==0) nonempty=false; /* scalar aggregate a belongs to pointwise aggregate a/bs: that one has cnt unknowns per component */ int unknowns=0; for (int r=0;r<bs;++r) unknowns+=cnt[(a/bs)*bs+r]; if (unknowns<(int)min_aggr) { big=false; if (w.empty()) w="aggregate "+std::to_string(a/bs)+" has "+std::to_string(unknowns)+" unknowns, min_aggregate="+std::to_string(min_aggr); } }
    hx::require("no empty aggregate after the removal of small aggregates (contiguous numbering)", nonempty); hx::require("every surviving aggregate has at least min_aggregate unknowns (rows for the local QR of the near-null-space vectors)", big, w); },coo); }

// smoothed_aggr_emin against its definition, concrete matrices (uniform Laplacians: exact cancellations in A D^-1 A P do occur), exact rationals:
//   A_f = strong part of A with the weak entries lumped into the diagonal D;  AP = A_f P_t;  ADAP = A_f D^-1 AP;
//   omega_c = <AP_c, ADAP_c> / <ADAP_c, ADAP_c> (column-wise);  P = P_t - D^-1 AP Omega;  R = P_t^T - Omega P_t^T A_f D^-1
static void emin_case(const Pattern &p, bool uniform, hx::Rng &rng) { hx::run_case(std::string("emin/")+(uniform?"uniform/":"mmatrix/")+p.name, [&]() { hx::Rng r2(rng.s); SCrs A=hx::mmatrix(p,r2); int n=p.n;
    if (uniform) for (int i=0;i<n;++i) for (ptrdiff_t k=p.ptr[i];k<p.ptr[i+1];++k) A.val[k] = p.col[k]==i ? scalar(4) : scalar(-1);
    auto Am=hx::to_amgcl(A); typedef co::smoothed_aggr_emin<BE> EM; EM::params prm; EM em(prm); std::shared_ptr<M> P, R; try { std::tie(P,R)=em.transfer_operators(*Am); } catch (const amgcl::error::empty_level&) { hx::count("empty level paths"); return; }
    co::pointwise_aggregates ag(*Am,prm.aggr,0); co::nullspace_params ns; auto Pt=co::tentative_prolongation<M>(n,ag.count,ag.id,ns,1); Dense pt=dense_of(*Pt); size_t nc=ag.count;
    Dense Af(n,std::vector<scalar>(n,scalar(0))); std::vector<scalar> D(n,scalar(0)); for (int i=0;i<n;++i) for (ptrdiff_t k=p.ptr[i];k<p.ptr[i+1];++k) { int c=p.col[k]; if (c==i || !ag.strong_connection[k]) D[i]+=A.val[k]; else Af[i][c]=A.val[k]; } for (int i=0;i<n;++i) Af[i][i]=D[i];
    Dense AP(n,std::vector<scalar>(nc,scalar(0))), ADAP(n,std::vector<scalar>(nc,scalar(0))); for (int i=0;i<n;++i) for (int k=0;k<n;++k) if (!hx::is_zero_value(Af[i][k])) for (size_t c=0;c<nc;++c) AP[i][c]+=Af[i][k]*pt[k][c]; for (int i=0;i<n;++i) for (int k=0;k<n;++k) if (!hx::is_zero_value(Af[i][k])) for (size_t c=0;c<nc;++c) ADAP[i][c]+=Af[i][k]*AP[k][c]/D[k];
    std::vector<scalar> om(nc); for (size_t c=0;c<nc;++c) { scalar a=0, b=0; for (int i=0;i<n;++i) { a+=AP[i][c]*ADAP[i][c]; b+=ADAP[i][c]*ADAP[i][c]; } om[c]=a/b; }
    Dense pd=dense_of(*P), rd=dense_of(*R); std::vector<scalar> gp, rp, gr, rr; for (int i=0;i<n;++i) for (size_t c=0;c<nc;++c) { gp.push_back(pd[i][c]); rp.push_back(pt[i][c]-AP[i][c]*om[c]/D[i]); }
    for (size_t c=0;c<nc;++c) for (int j=0;j<n;++j) { scalar t=0; for (int k=0;k<n;++k) t+=pt[k][c]*Af[k][j]; gr.push_back(rd[c][j]); rr.push_back(pt[j][c]-om[c]*t/D[j]); }
    hx::prove_eq_vec("smoothed_aggr_emin: P = P_tent - D^-1 A_f P_tent Omega with the column-wise energy-minimising omega", gp, rp); hx::prove_eq_vec("smoothed_aggr_emin: R = P_tent^T - Omega P_tent^T A_f D^-1", gr, rr); }); }

static void rs_case(const Pattern &p, bool trunc, bool wide_trunc=false) { hx::CaseOptions coo; coo.max_paths=64; coo.max_depth=160; hx::run_case(std::string("ruge_stuben/")+(trunc?(wide_trunc?"trunc-wide/":"trunc/"):"notrunc/")+p.name, [&]() {
    SCrs A=sym_matrix(p,true,true); for (auto &v : A.val) hx::assume(hx::le(scalar(1e-12),v*v));   // entries are not at the library's absolute zero threshold (2 eps)
    auto Am=hx::to_amgcl(A); int n=p.n; typedef co::ruge_stuben<BE> RS; RS::params prm; prm.do_trunc=trunc; if (wide_trunc) { prm.eps_strong=0.05f; prm.eps_trunc=0.2f; }   /* truncation threshold above the strength threshold: strong entries can really be truncated */ RS rs(prm); std::shared_ptr<M> P, R;
    try { std::tie(P,R)=rs.transfer_operators(*Am); } catch (const amgcl::error::empty_level&) { hx::count("empty level paths"); return; }
    // the real C/F split and strength flags of this path (private statics of the coarsening, compiled with -fno-access-control; the repeated
    // comparisons are the decisions already taken on this path): an F point with a strong C neighbour must receive interpolation weights
    { std::vector<char> cf(n,'U'); amgcl::backend::crs<char,ptrdiff_t,ptrdiff_t> S; RS::connect(*Am,prm.eps_strong,S,cf); RS::cfsplit(*Am,S,cf); bool ok=true; std::string bad;
      for (int i=0;i<n;++i) { if (cf[i]=='C') { ok=ok&&(P->ptr[i+1]-P->ptr[i]==1); continue; } bool strongC=false; for (ptrdiff_t j=Am->ptr[i];j<Am->ptr[i+1];++j) if (S.val[j] && cf[Am->col[j]]=='C') strongC=true; if (strongC && P->ptr[i+1]==P->ptr[i]) { ok=false; if (bad.empty()) bad="F point "+std::to_string(i)+" has a strong C neighbour but an empty interpolation row"; } }
      hx::require("Ruge-Stuben: every F point with a strong C neighbour interpolates (truncation never removes all of its weights)", ok, bad); }
    Dense pd=dense_of(*P); std::vector<hx::F> rows; int nz_rows=0; for (int i=0;i<n;++i) { if (P->ptr[i+1]==P->ptr[i]) continue; nz_rows++; scalar s=0; for (size_t c=0;c<P->ncols;++c) s+=pd[i][c]; rows.push_back(hx::eq(s,scalar(1))); }
    // every row with a negative (strong) off-diagonal interpolates; rows of P sum to one (zero row sum, symmetric A)
    hx::prove_all("Ruge-Stuben: interpolation rows sum to one on zero-row-sum rows that interpolate", rows); hx::count("interpolating rows",nz_rows);
    Dense rd=dense_of(*R); std::vector<scalar> l, r; for (size_t i=0;i<rd.size();++i) for (size_t j=0;j<rd[i].size();++j) { l.push_back(rd[i][j]); r.push_back(pd[j][i]); } hx::prove_eq_vec("R = P^T", l, r); },coo); }

int main(int argc, char **argv) {
    hx::parse_args(argc,argv); bool T=hx::thorough(); hx::Rng rng(hx::args().seed);
    hx::encodes("coarsening::plain_aggregates, pointwise_aggregates (incl. backend::pointwise_matrix, remove_small_aggregates), tentative_prolongation (no near-null-space branch), smoothed_aggregation::transfer_operators, ruge_stuben::transfer_operators (connect, cfsplit, interpolation, truncation)");
    hx::assume_note("matrix values symbolic: every strong/weak decision, C/F decision and truncation comparison is a solver-decided fork, so all strength graphs on the enumerated patterns are covered (up to the path budget)");
    hx::assume_note("block lifting assumes a positive diagonal (the pointwise reduction takes norms); zero-row-sum cases: diagonal := -(sum of the symbolic off-diagonals), symmetric values");
    hx::assume_note("Ruge-Stuben cases: every stored entry has magnitude >= 1e-6 -- the coarsening compares sums of entries with the absolute threshold 2*eps, so matrices scaled down to ~1e-16 are treated as numerically zero and are outside this obligation");
    hx::assume_note("NOT decided: reproduction of user-supplied near-null-space vectors -- that branch of tentative_prolongation runs a QR in plain double whatever the matrix value type is, i.e. it is floating-point code the symbolic scalar never reaches; emin energy minimality");
    std::vector<Pattern> sp; for (int n=2;n<=4;++n) { int bits=n*(n-1)/2; for (uint64_t m=1;m<(1ull<<bits);++m) { Pattern p=hx::sym_mask_pattern(n,m); if (n<4 || T || rng.below(4)==0) sp.push_back(p); } } sp.push_back(hx::band_pattern(5,1)); sp.push_back(hx::grid_pattern(3,2)); if (T) { sp.push_back(hx::grid_pattern(3,3)); sp.push_back(hx::arrow_pattern(5)); }
    for (auto &p : sp) { aggregates_case(p,true,0.08f); if (p.n<=3 || T) aggregates_case(p,true,0.5f); }
    for (int k=0;k<(T?40:10);++k) aggregates_case(hx::random_pattern(3+rng.below(2),3,rng,2,true).n==3 ? hx::mask_pattern(3,3,rng.next()%512,true) : hx::mask_pattern(4,4,rng.next()&0xffff,true),false,0.08f);
    for (auto &p : sp) if (p.n<=3 || T || rng.below(3)==0) { block_case(p,2); if (p.n<=3) block_case(p,3); }
    for (auto &p : std::vector<Pattern>{hx::grid_pattern(3,2),hx::grid_pattern(3,3),hx::grid_pattern(6,3),hx::grid_pattern(8,2),hx::band_pattern(7,1)}) { emin_case(p,true,rng); if (p.n<=9 || T) emin_case(p,false,rng); }
    for (auto &p : sp) if (p.n>=3 && (p.n<=3 || T || rng.below(3)==0)) { min_aggregate_case(p,1,2); min_aggregate_case(p,2,3); if (T || p.n<=3) { min_aggregate_case(p,2,5); min_aggregate_case(p,3,2); min_aggregate_case(p,1,3); } }
    for (auto &p : sp) if (hx::connected(p)) { sa_case(p,true,false); if (p.n<=3 || T) { sa_case(p,false,false); sa_case(p,true,true); sa_case(p,true,true,0.5f); sa_case(p,false,true,0.5f); sa_case(p,false,false,1.25f); } rs_case(p,true); if (p.n<=3 || T) rs_case(p,false); if (p.n>=3 && (p.n<=3 || T || rng.below(2)==0)) rs_case(p,true,true); }
    return hx::finish();
}
