// C06: every relaxation sweep equals its mathematical definition.
// compiled with -fno-access-control: the incomplete factors are read from the private members of the real objects.
#include "hx_amgcl.hpp"
#include <amgcl/relaxation/damped_jacobi.hpp>
#include <amgcl/relaxation/gauss_seidel.hpp>
#include <amgcl/relaxation/spai0.hpp>
#include <amgcl/relaxation/spai1.hpp>
#include <amgcl/relaxation/chebyshev.hpp>
#include <amgcl/relaxation/ilu0.hpp>
#include <amgcl/relaxation/iluk.hpp>
#include <amgcl/relaxation/ilup.hpp>
#include <amgcl/relaxation/ilut.hpp>
#include <amgcl/relaxation/as_preconditioner.hpp>
#include <amgcl/value_type/complex.hpp>
#include <complex>
using hx::scalar; using hx::var; using hx::Pattern; using hx::SCrs;
namespace be = amgcl::backend; namespace rx = amgcl::relaxation;
typedef be::builtin<scalar> BE; typedef be::numa_vector<scalar> NV;
typedef std::vector<std::vector<scalar>> Dense;

static Dense dense_of(const hx::ACrs<scalar> &M, int n) { Dense d(n,std::vector<scalar>(n,scalar(0))); for (int i=0;i<n;++i) for (ptrdiff_t k=M.ptr[i];k<M.ptr[i+1];++k) d[i][M.col[k]]=d[i][M.col[k]]+M.val[k]; return d; }
struct Inputs { SCrs A; std::shared_ptr<hx::ACrs<scalar>> Am; std::vector<scalar> f, x, r; int n; };
static Inputs inputs(const Pattern &p, bool symbolic_matrix, hx::Rng *rng=nullptr, bool nonsym=false) { Inputs in; in.n=p.n;
    in.A = symbolic_matrix ? hx::symbolic_matrix(p,"a") : (nonsym ? hx::ddmatrix(p,*rng) : hx::mmatrix(p,*rng));
    if (symbolic_matrix) for (auto &v : in.A.val) hx::assume(hx::ne(v,scalar(0)));
    in.Am=hx::to_amgcl(in.A); in.f=hx::sym_vector("f",p.n); in.x=hx::sym_vector("x",p.n,0.25); std::vector<scalar> Ax=hx::dense_mv(in.A,in.x); for (int i=0;i<p.n;++i) in.r.push_back(in.f[i]-Ax[i]); return in; }
template<class R> static std::vector<scalar> sweep(const R &relax, const Inputs &in, bool pre) { NV F=hx::to_numa(in.f), X=hx::to_numa(in.x), T(in.n,false); for (int i=0;i<in.n;++i) T[i]=hx::junk("t"+std::to_string(i)); if (pre) relax.apply_pre(*in.Am,F,X,T); else relax.apply_post(*in.Am,F,X,T); return hx::to_vec(X); }
// the exact solution is a fixed point: f := A x  =>  sweep leaves x unchanged
template<class R> static void fixed_point(const std::string &nm, const R &relax, const Inputs &in) { std::vector<scalar> Ax=hx::dense_mv(in.A,in.x); for (int pre=0;pre<2;++pre) { NV F=hx::to_numa(Ax), X=hx::to_numa(in.x), T(in.n,false); for (int i=0;i<in.n;++i) T[i]=scalar(0); if (pre) relax.apply_pre(*in.Am,F,X,T); else relax.apply_post(*in.Am,F,X,T); hx::prove_eq_vec(nm+": exact solution is a fixed point ("+(pre?"pre":"post")+")", hx::to_vec(X), in.x); } }
template<class R> static void standalone(const std::string &nm, const R &relax, const Inputs &in, const std::vector<scalar> &minv_f) { NV F=hx::to_numa(in.f), X(in.n,false); for (int i=0;i<in.n;++i) X[i]=hx::junk("x"+std::to_string(i)); relax.apply(*in.Am,F,X); bool ok=true; for (int i=0;i<in.n;++i) ok=ok&&hx::independent_of(X[i],"junk_"); hx::require(nm+": apply() ignores old output content",ok); hx::prove_eq_vec(nm+": apply(f) = M^-1 f",hx::to_vec(X),minv_f); }

static void jacobi_case(const Pattern &p) { hx::run_case("damped_jacobi/"+p.name,[&]() { Inputs in=inputs(p,true); rx::damped_jacobi<BE>::params prm; prm.damping=var("omega",0.72); rx::damped_jacobi<BE> R(*in.Am,prm,BE::params());
    std::vector<scalar> ref, mf; for (int i=0;i<in.n;++i) { ref.push_back(in.x[i]+prm.damping*in.r[i]/in.A.at(i,i)); mf.push_back(in.f[i]/in.A.at(i,i)); }
    hx::prove_eq_vec("damped_jacobi pre: x + omega D^-1 (f - A x)",sweep(R,in,true),ref); hx::prove_eq_vec("damped_jacobi post: x + omega D^-1 (f - A x)",sweep(R,in,false),ref); fixed_point("damped_jacobi",R,in); standalone("damped_jacobi",R,in,mf); }); }
static void spai0_case(const Pattern &p) { hx::run_case("spai0/"+p.name,[&]() { Inputs in=inputs(p,true); rx::spai0<BE> R(*in.Am,rx::spai0<BE>::params(),BE::params());
    std::vector<scalar> ref, mf; for (int i=0;i<in.n;++i) { scalar den=0; for (ptrdiff_t k=p.ptr[i];k<p.ptr[i+1];++k) den+=in.A.val[k]*in.A.val[k]; scalar m=in.A.at(i,i)/den; ref.push_back(in.x[i]+m*in.r[i]); mf.push_back(m*in.f[i]); }
    hx::prove_eq_vec("spai0 pre: x + M (f - A x), m_i = a_ii / sum_j a_ij^2",sweep(R,in,true),ref); hx::prove_eq_vec("spai0 post",sweep(R,in,false),ref); fixed_point("spai0",R,in); standalone("spai0",R,in,mf); }); }
static void gs_case(const Pattern &p) { hx::run_case("gauss_seidel/"+p.name,[&]() { Inputs in=inputs(p,true); rx::gauss_seidel<BE>::params prm; prm.serial=true; rx::gauss_seidel<BE> R(*in.Am,prm,BE::params()); Dense A=in.A.dense(); int n=in.n;
    { std::vector<scalar> xn=sweep(R,in,true), lhs; for (int i=0;i<n;++i) { scalar s=0; for (int j=0;j<=i;++j) s+=A[i][j]*xn[j]; for (int j=i+1;j<n;++j) s+=A[i][j]*in.x[j]; lhs.push_back(s); } hx::prove_eq_vec("gauss_seidel pre = forward sweep: (D+L) x' + U x = f",lhs,in.f); }
    { std::vector<scalar> xn=sweep(R,in,false), lhs; for (int i=0;i<n;++i) { scalar s=0; for (int j=i;j<n;++j) s+=A[i][j]*xn[j]; for (int j=0;j<i;++j) s+=A[i][j]*in.x[j]; lhs.push_back(s); } hx::prove_eq_vec("gauss_seidel post = backward sweep: (D+U) x' + L x = f",lhs,in.f); }
    fixed_point("gauss_seidel",R,in); }); }

// incomplete factors from the real object:  Lf = I + L,  Uf = D^-1(stored inverted) + U
struct Factors { Dense Lf, Uf; std::vector<std::vector<int>> pat; };
template<class ILU> static Factors factors_of(const ILU &ilu, int n) { Factors F; Dense L=dense_of(*ilu.L,n), U=dense_of(*ilu.U,n); F.Lf=L; F.Uf=U; for (int i=0;i<n;++i) { F.Lf[i][i]=scalar(1); F.Uf[i][i]=scalar(1)/(*ilu.D)[i]; }
    F.pat.assign(n,std::vector<int>(n,0)); for (int i=0;i<n;++i) { F.pat[i][i]=1; for (ptrdiff_t k=ilu.L->ptr[i];k<ilu.L->ptr[i+1];++k) F.pat[i][ilu.L->col[k]]=1; for (ptrdiff_t k=ilu.U->ptr[i];k<ilu.U->ptr[i+1];++k) F.pat[i][ilu.U->col[k]]=1; } return F; }
static Dense lu_product(const Factors &F, int n) { Dense P(n,std::vector<scalar>(n,scalar(0))); for (int i=0;i<n;++i) for (int j=0;j<n;++j) { scalar s=0; for (int k=0;k<=std::min(i,j);++k) s+=F.Lf[i][k]*F.Uf[k][j]; P[i][j]=s; } return P; }
// (LU)_ij = a_ij on the admitted pattern; sweep = x + damping (LU)^-1 (f - A x) checked as  L U (x'-x) = damping r
template<class R, class ILU> static void ilu_checks(const std::string &nm, const R &relax, const ILU &ilu, const Inputs &in, const std::vector<std::vector<int>> &admitted, bool expect_exact, scalar damping) {
    int n=in.n; Factors F=factors_of(ilu,n); Dense P=lu_product(F,n), A=in.A.dense();
    std::vector<scalar> lhs, rhs; for (int i=0;i<n;++i) for (int j=0;j<n;++j) if (expect_exact || admitted[i][j]) { lhs.push_back(P[i][j]); rhs.push_back(A[i][j]); }
    hx::prove_eq_vec(nm+(expect_exact? ": L U = A (exact factors fit the pattern)" : ": (L U)_ij = a_ij on the admitted pattern"),lhs,rhs);
    bool tri=true; for (int i=0;i<n;++i) { for (ptrdiff_t k=ilu.L->ptr[i];k<ilu.L->ptr[i+1];++k) tri=tri&&(ilu.L->col[k]<i); for (ptrdiff_t k=ilu.U->ptr[i];k<ilu.U->ptr[i+1];++k) tri=tri&&(ilu.U->col[k]>i); } hx::require(nm+": L strictly lower, U strictly upper",tri);
    for (int pre=0;pre<2;++pre) { std::vector<scalar> xn=sweep(relax,in,pre), l, r; for (int i=0;i<n;++i) { scalar s=0; for (int j=0;j<n;++j) s+=P[i][j]*(xn[j]-in.x[j]); l.push_back(s); r.push_back(damping*in.r[i]); } hx::prove_eq_vec(nm+": sweep = x + damping (LU)^-1 (f - A x)  ["+(pre?"pre":"post")+"]",l,r); }
    fixed_point(nm,relax,in); }
static std::vector<std::vector<int>> pattern_of(const Pattern &p) { std::vector<std::vector<int>> a(p.n,std::vector<int>(p.n,0)); for (int i=0;i<p.n;++i) for (ptrdiff_t k=p.ptr[i];k<p.ptr[i+1];++k) a[i][p.col[k]]=1; return a; }
// level-of-fill pattern of ILU(k) (standard definition)
static std::vector<std::vector<int>> level_pattern(const Pattern &p, int K) { int n=p.n; const int INF=1000; std::vector<std::vector<int>> lev(n,std::vector<int>(n,INF)); for (int i=0;i<n;++i) for (ptrdiff_t k=p.ptr[i];k<p.ptr[i+1];++k) lev[i][p.col[k]]=0;
    for (int i=1;i<n;++i) for (int k=0;k<i;++k) if (lev[i][k]<=K) for (int j=k+1;j<n;++j) if (lev[k][j]<=K) lev[i][j]=std::min(lev[i][j],lev[i][k]+lev[k][j]+1);
    std::vector<std::vector<int>> a(n,std::vector<int>(n,0)); for (int i=0;i<n;++i) for (int j=0;j<n;++j) a[i][j]=lev[i][j]<=K; return a; }
static std::vector<std::vector<int>> power_pattern(const Pattern &p, int K) { auto a=pattern_of(p), r=a; int n=p.n; for (int t=0;t<K;++t) { std::vector<std::vector<int>> q(n,std::vector<int>(n,0)); for (int i=0;i<n;++i) for (int k=0;k<n;++k) if (r[i][k]) for (int j=0;j<n;++j) if (a[k][j]) q[i][j]=1; r=q; } return r; }
static bool lu_fits(const std::vector<std::vector<int>> &adm, const Pattern &p) { auto full=level_pattern(p,1000); for (int i=0;i<p.n;++i) for (int j=0;j<p.n;++j) if (full[i][j] && !adm[i][j]) return false; return true; }

#define ZP_TRY try {
#define ZP_CATCH } catch (const std::runtime_error &e) { if (std::string(e.what()).find("ivot")==std::string::npos) throw; hx::count("zero-pivot exception paths (breakdown, outside the claim)"); }
static void ilu0_case(const Pattern &p, bool level_sched) { hx::CaseOptions co; co.max_paths=48; hx::run_case(std::string("ilu0/")+(level_sched?"sched/":"serial/")+p.name,[&]() { ZP_TRY Inputs in=inputs(p,true); rx::ilu0<BE>::params prm; prm.damping=var("damping",0.9); prm.solve.serial=!level_sched; rx::ilu0<BE> R(*in.Am,prm,BE::params());
    auto adm=pattern_of(p);
    if (!level_sched) ilu_checks("ilu0",R,*R.ilu,in,adm,lu_fits(adm,p),prm.damping);
    else { rx::ilu0<BE>::params ps=prm; ps.solve.serial=true; rx::ilu0<BE> Rs(*in.Am,ps,BE::params()); for (int pre=0;pre<2;++pre) hx::prove_eq_vec("ilu0: level-scheduled triangular solve = serial solve",sweep(R,in,pre),sweep(Rs,in,pre)); } ZP_CATCH },co); }
static void iluk_case(const Pattern &p, int K) { hx::CaseOptions co; co.max_paths=48; hx::run_case("iluk/k"+std::to_string(K)+"/"+p.name,[&]() { ZP_TRY Inputs in=inputs(p,true); rx::iluk<BE>::params prm; prm.k=K; prm.solve.serial=true; rx::iluk<BE> R(*in.Am,prm,BE::params()); auto adm=level_pattern(p,K); ilu_checks("iluk",R,*R.ilu,in,adm,lu_fits(adm,p),scalar(1)); ZP_CATCH },co); }
static void ilup_case(const Pattern &p, int K) { hx::CaseOptions co; co.max_paths=48; hx::run_case("ilup/k"+std::to_string(K)+"/"+p.name,[&]() { ZP_TRY Inputs in=inputs(p,true); rx::ilup<BE>::params prm; prm.k=K; prm.solve.serial=true; rx::ilup<BE> R(*in.Am,prm,BE::params()); auto adm=power_pattern(p,K); ilu_checks("ilup",R,*R.base->ilu,in,adm,lu_fits(adm,p),scalar(1)); ZP_CATCH },co); }
static void ilut_case(const Pattern &p) { hx::CaseOptions co; co.max_paths=48; co.max_depth=120; hx::run_case("ilut/exact/"+p.name,[&]() { ZP_TRY Inputs in=inputs(p,true); rx::ilut<BE>::params prm; prm.p=scalar(p.n+1); prm.tau=scalar(0); prm.solve.serial=true; rx::ilut<BE> R(*in.Am,prm,BE::params()); auto adm=level_pattern(p,1000); ilu_checks("ilut(tau=0,p>=n)",R,*R.ilu,in,adm,true,scalar(1)); ZP_CATCH },co); }

// Chebyshev: concrete SPD matrix, symbolic x0, x*:  x_k - x* = T_k((d - A)/c) / T_k(d/c) (x0 - x*)   (Gershgorin bounds)
static void cheb_case(const Pattern &p, hx::Rng &rng, int degree, bool scale, float higher=1.0f, float lower=1.0f/30) { hx::run_case("chebyshev/deg"+std::to_string(degree)+(scale?"/scaled/":"/plain/")+(higher!=1.0f?"higher"+std::to_string((int)(higher*100))+"/":"")+p.name,[&]() { Inputs in=inputs(p,false,&rng); int n=in.n; rx::chebyshev<BE>::params prm; prm.degree=degree; prm.scale=scale; prm.higher=higher; prm.lower=lower;   /* non-default spectrum safety factors */ rx::chebyshev<BE> R(*in.Am,prm,BE::params());
    Dense A=in.A.dense(); if (scale) for (int i=0;i<n;++i) { scalar dii=A[i][i]; for (int j=0;j<n;++j) A[i][j]=A[i][j]/dii; }
    scalar hi=0; for (int i=0;i<n;++i) { scalar s=0; for (int j=0;j<n;++j) s+=hx::to_double(A[i][j])<0 ? scalar(0)-A[i][j] : A[i][j]; if (hx::to_double(s)>hx::to_double(hi)) hi=s; }
    scalar lo=hi*prm.lower; hi=hi*prm.higher; scalar d=(hi+lo)/2, c=(hi-lo)/2;
    std::vector<scalar> xs=hx::sym_vector("s",n,-0.5), e0, f; for (int i=0;i<n;++i) e0.push_back(in.x[i]-xs[i]);
    { SCrs A0=in.A; f=hx::dense_mv(A0,xs); }
    // T_k(Z) e0 with Z=(d I - A)/c, sigma_k=T_k(d/c)
    auto Z=[&](const std::vector<scalar> &v) { std::vector<scalar> r(n); for (int i=0;i<n;++i) { scalar s=d*v[i]; for (int j=0;j<n;++j) s-=A[i][j]*v[j]; r[i]=s/c; } return r; };
    std::vector<scalar> t0=e0, t1=Z(e0); scalar s0=1, s1=d/c; for (int k=2;k<=degree;++k) { std::vector<scalar> z=Z(t1), t2(n); for (int i=0;i<n;++i) t2[i]=2*z[i]-t0[i]; scalar s2=2*(d/c)*s1-s0; t0=t1; t1=t2; s0=s1; s1=s2; }
    std::vector<scalar> ref; for (int i=0;i<n;++i) ref.push_back(degree==0 ? in.x[i] : xs[i]+(degree==1? t1[i]/s1 : t1[i]/s1));
    NV F=hx::to_numa(f), X=hx::to_numa(in.x), T(n,false); R.apply_pre(*in.Am,F,X,T); hx::prove_eq_vec("chebyshev: error polynomial = T_k((d-A)/c)/T_k(d/c), Gershgorin [lo,hi]",hx::to_vec(X),ref);
    Inputs in2=in; in2.f=f; fixed_point("chebyshev",R,in); }); }
// SPAI-1: concrete matrix; rows of M minimise || e_i^T - m_i^T A ||_2 over the pattern of row i of A (normal equations)
static void spai1_case(const Pattern &p, hx::Rng &rng, bool nonsym) { hx::run_case(std::string("spai1/")+(nonsym?"nonsym/":"sym/")+p.name,[&]() { Inputs in=inputs(p,false,&rng,nonsym); int n=in.n; rx::spai1<BE> R(*in.Am,rx::spai1<BE>::params(),BE::params()); Dense A=in.A.dense(), M=dense_of(*R.M,n);
    bool pat=true; for (int i=0;i<n;++i) { pat=pat&&(R.M->ptr[i+1]-R.M->ptr[i]==p.ptr[i+1]-p.ptr[i]); for (ptrdiff_t k=R.M->ptr[i];k<R.M->ptr[i+1];++k) pat=pat&&p.has(i,R.M->col[k]); } hx::require("spai1: M has the pattern of A",pat);
    std::vector<scalar> g, z; for (int i=0;i<n;++i) for (ptrdiff_t kk=p.ptr[i];kk<p.ptr[i+1];++kk) { int k=p.col[kk]; scalar s=0; for (int j=0;j<n;++j) { scalar mA=0; for (int l=0;l<n;++l) mA+=M[i][l]*A[l][j]; s+=(mA-scalar(i==j?1:0))*A[k][j]; } g.push_back(s); z.push_back(scalar(0)); }
    hx::prove_eq_vec("spai1: gradient of ||e_i - m_i A||^2 vanishes on the pattern",g,z);
    std::vector<scalar> ref; for (int i=0;i<n;++i) { scalar s=in.x[i]; for (int j=0;j<n;++j) s+=M[i][j]*in.r[j]; ref.push_back(s); } hx::prove_eq_vec("spai1 pre: x + M (f - A x)",sweep(R,in,true),ref); hx::prove_eq_vec("spai1 post",sweep(R,in,false),ref); fixed_point("spai1",R,in); }); }
static void asprec_case(const Pattern &p) { hx::run_case("as_preconditioner/"+p.name,[&]() { Inputs in=inputs(p,true); int n=in.n;
    { rx::as_preconditioner<BE,rx::spai0> P(*in.Am); NV F=hx::to_numa(in.f), X(n,false); for (int i=0;i<n;++i) X[i]=hx::junk("x"+std::to_string(i)); P.apply(F,X); std::vector<scalar> ref; for (int i=0;i<n;++i) { scalar den=0; for (ptrdiff_t k=p.ptr[i];k<p.ptr[i+1];++k) den+=in.A.val[k]*in.A.val[k]; ref.push_back(in.A.at(i,i)/den*in.f[i]); } hx::prove_eq_vec("as_preconditioner<spai0>: apply = M f",hx::to_vec(X),ref); }
    { rx::gauss_seidel<BE>::params prm; prm.serial=true; rx::as_preconditioner<BE,rx::gauss_seidel> P(*in.Am,prm); NV F=hx::to_numa(in.f), X(n,false); for (int i=0;i<n;++i) X[i]=hx::junk("x"+std::to_string(i)); P.apply(F,X); Dense A=in.A.dense();
      // symmetric Gauss-Seidel from zero: (D+L) y = f ; (D+U) x = f - L y
      std::vector<scalar> y(n); for (int i=0;i<n;++i) { scalar s=in.f[i]; for (int j=0;j<i;++j) s-=A[i][j]*y[j]; y[i]=s/A[i][i]; } std::vector<scalar> x(n); for (int i=n-1;i>=0;--i) { scalar s=in.f[i]; for (int j=0;j<i;++j) s-=A[i][j]*y[j]; for (int j=i+1;j<n;++j) s-=A[i][j]*x[j]; x[i]=s/A[i][i]; }
      bool ok=true; for (int i=0;i<n;++i) ok=ok&&hx::independent_of(X[i],"junk_"); hx::require("as_preconditioner<gauss_seidel>: old output ignored",ok); hx::prove_eq_vec("as_preconditioner<gauss_seidel>: forward then backward sweep from zero",hx::to_vec(X),x); } }); }

// ILU(0) with non-commuting 2x2 block values on block tridiagonal matrices: the factorisation is exact, so apply(f) solves A x = f
static void ilu0_block_case(int n) { hx::CaseOptions co; co.max_paths=40; co.max_depth=140; hx::run_case("ilu0/block2/tridiag"+std::to_string(n), [&]() { typedef amgcl::static_matrix<scalar,2,2> B2; typedef amgcl::static_matrix<scalar,2,1> V2; typedef be::builtin<B2> BB; Pattern p=hx::band_pattern(n,1);
    hx::Crs<B2> A; A.n=A.m=n; A.ptr=p.ptr; A.col=p.col; for (int i=0;i<n;++i) for (ptrdiff_t k=p.ptr[i];k<p.ptr[i+1];++k) { B2 b; int j=p.col[k]; for (int r=0;r<2;++r) for (int c=0;c<2;++c) b(r,c)=var("a_"+std::to_string(i)+"_"+std::to_string(j)+"_"+std::to_string(r)+std::to_string(c), i==j ? (r==c ? 5.0+i+0.5*r : 0.75-0.5*c) : (r==c ? -1.0-0.25*j : 0.5*(r-c)*(1+i))); A.val.push_back(b); }
    auto Am=hx::to_amgcl(A); be::numa_vector<V2> F(n,false), X(n,false); for (int i=0;i<n;++i) { V2 v; v(0)=var("f"+std::to_string(2*i),1.0+i); v(1)=var("f"+std::to_string(2*i+1),0.5-i); F[i]=v; X[i]=amgcl::math::zero<V2>(); }
    try { rx::ilu0<BB>::params prm; prm.solve.serial=true; rx::ilu0<BB> R(*Am,prm,BB::params()); R.apply(*Am,F,X); } catch (const std::runtime_error&) { hx::count("zero-pivot exception paths (breakdown, outside the claim)"); return; }
    std::vector<scalar> l, r; for (int i=0;i<n;++i) { V2 s=amgcl::math::zero<V2>(); for (ptrdiff_t k=p.ptr[i];k<p.ptr[i+1];++k) s+=A.val[k]*X[p.col[k]]; for (int q=0;q<2;++q) { l.push_back(s(q)); r.push_back(F[i](q)); } } hx::prove_eq_vec("ilu0 with non-commuting 2x2 blocks on a block tridiagonal matrix is the exact inverse: A * apply(f) = f", l, r); },co); }

// ---- complex value type (builtin<std::complex<scalar>>), fully symbolic entries (real and imaginary parts are separate variables):
// SPAI-0 is the row-wise least-squares minimiser of |I - M A|_F over diagonal M: the normal equation of row i reads  sum_j (delta_ij - m_i a_ij) conj(a_ij) = 0;
// one sweep of damped Jacobi / SPAI-0 / Gauss-Seidel / ILU(0) maps (A x*, x*) to x*; ILU(0) satisfies (L U)_ij = a_ij on the pattern (checked through exactness on tridiagonal patterns)
typedef std::complex<scalar> CX; typedef be::builtin<CX> BEZ; typedef be::numa_vector<CX> NVZ;
static CX zmul(const CX &a, const CX &b) { return CX(a.real()*b.real()-a.imag()*b.imag(), a.real()*b.imag()+a.imag()*b.real()); }
template<class R> static void zsweep_fixed(const std::string &nm, const R &Rx, const hx::ACrs<CX> &Am, const hx::Crs<CX> &A, int n) {
    std::vector<CX> xs; for (int i=0;i<n;++i) xs.push_back(CX(var("xr"+std::to_string(i),0.5+0.25*i),var("xi"+std::to_string(i),-0.75+0.5*i)));
    std::vector<CX> f(n,CX(scalar(0),scalar(0))); for (int i=0;i<n;++i) for (ptrdiff_t k=A.ptr[i];k<A.ptr[i+1];++k) { CX t=zmul(A.val[k],xs[A.col[k]]); f[i]=CX(f[i].real()+t.real(),f[i].imag()+t.imag()); }
    for (int post=0;post<2;++post) { NVZ F=hx::to_numa(f), X=hx::to_numa(xs), T(n,false); for (int i=0;i<n;++i) T[i]=CX(hx::junk("tr"+std::to_string(i)),hx::junk("ti"+std::to_string(i))); if (post) Rx.apply_post(Am,F,X,T); else Rx.apply_pre(Am,F,X,T);
        std::vector<scalar> got, ref; for (int i=0;i<n;++i) { got.push_back(X[i].real()); got.push_back(X[i].imag()); ref.push_back(xs[i].real()); ref.push_back(xs[i].imag()); } hx::prove_eq_vec(nm+" (complex): the exact solution is a fixed point of the "+(post?"post":"pre")+"-sweep", got, ref); } }
static void complex_case(const Pattern &p) { hx::CaseOptions co; co.max_paths=16; hx::run_case("complex/"+p.name,[&]() { int n=p.n; hx::Crs<CX> A; A.n=A.m=n; A.ptr=p.ptr; A.col=p.col;
    for (int i=0;i<n;++i) for (ptrdiff_t k=p.ptr[i];k<p.ptr[i+1];++k) { int j=p.col[k]; A.val.push_back(CX(var("ar_"+std::to_string(i)+"_"+std::to_string(j), i==j?3.0+0.5*i:-0.75+0.25*((i+j)%3)), var("ai_"+std::to_string(i)+"_"+std::to_string(j), i==j?2.0-0.5*i:0.5*((i*2+j)%3)-0.25))); }
    for (int i=0;i<n;++i) for (ptrdiff_t k=p.ptr[i];k<p.ptr[i+1];++k) if (p.col[k]==i) hx::assume(hx::lt(scalar(0),A.val[k].real()*A.val[k].real()+A.val[k].imag()*A.val[k].imag()));   // non-zero diagonal
    auto Am=hx::to_amgcl(A);
    { rx::spai0<BEZ> R(*Am,rx::spai0<BEZ>::params(),BEZ::params()); std::vector<scalar> g, z; for (int i=0;i<n;++i) { CX m=(*R.M)[i]; scalar gr=0, gi=0; for (ptrdiff_t k=p.ptr[i];k<p.ptr[i+1];++k) { CX a=A.val[k]; CX ma=zmul(m,a); scalar dr=(p.col[k]==i?scalar(1):scalar(0))-ma.real(), di=scalar(0)-ma.imag(); /* (d) * conj(a) */ gr+=dr*a.real()+di*a.imag(); gi+=di*a.real()-dr*a.imag(); } g.push_back(gr); g.push_back(gi); z.push_back(scalar(0)); z.push_back(scalar(0)); }
      hx::prove_eq_vec("spai0 (complex): m_i is the least-squares minimiser of |e_i - m_i a_i|: sum_j (delta_ij - m_i a_ij) conj(a_ij) = 0", g, z); zsweep_fixed("spai0",R,*Am,A,n); }
    { rx::damped_jacobi<BEZ> R(*Am,rx::damped_jacobi<BEZ>::params(),BEZ::params()); zsweep_fixed("damped_jacobi",R,*Am,A,n); }
    { rx::gauss_seidel<BEZ>::params gp; gp.serial=true; rx::gauss_seidel<BEZ> R(*Am,gp,BEZ::params()); zsweep_fixed("gauss_seidel",R,*Am,A,n); }
    try { rx::ilu0<BEZ> R(*Am,rx::ilu0<BEZ>::params(),BEZ::params()); zsweep_fixed("ilu0",R,*Am,A,n); } catch (const std::runtime_error&) { hx::count("zero-pivot exception paths (complex ILU0)"); }
  },co); }

int main(int argc, char **argv) {
    hx::parse_args(argc,argv); bool T=hx::thorough(); hx::Rng rng(hx::args().seed);
    hx::encodes("relaxation::damped_jacobi / spai0 / gauss_seidel(serial_sweep) / spai1 / chebyshev::solve : constructors, apply_pre, apply_post, apply; spai0 / damped_jacobi / gauss_seidel / ilu0 on builtin<std::complex<scalar>>");
    hx::encodes("relaxation::ilu0 / iluk / ilup (detail::symb_product) / ilut constructors (factorisation) and detail::ilu_solve<builtin>::serial_solve, sptr_solve (level-scheduled, 1 thread)");
    hx::encodes("relaxation::as_preconditioner; backend::diagonal, backend::spectral_radius<scale>(Gershgorin)");
    hx::assume_note("matrix rows sorted with non-zero diagonal (stated precondition of the property); stored entries assumed non-zero in the symbolic-matrix cases (explicit-zero structure is covered by the pattern enumeration)");
    hx::assume_note("real arithmetic; incomplete factors read with -fno-access-control");
    hx::assume_note("chebyshev and spai1: concrete dyadic matrices from the seeded generators, vectors symbolic");
    std::vector<Pattern> pats; for (int n=1;n<=3;++n) { uint64_t lim=1ull<<(n*n); for (uint64_t mask=0;mask<lim;++mask) { bool canon=true; for (int i=0;i<n;++i) if ((mask>>(i*n+i))&1) canon=false; if (canon) pats.push_back(hx::mask_pattern(n,n,mask,true)); } }
    std::vector<Pattern> big{hx::band_pattern(4,1),hx::band_pattern(5,1),hx::arrow_pattern(4),hx::grid_pattern(2,2),hx::band_pattern(4,2)}; if (T) { big.push_back(hx::dense_pattern(4,4)); big.push_back(hx::arrow_pattern(5)); big.push_back(hx::grid_pattern(3,2)); for (int k=0;k<10;++k) big.push_back(hx::random_pattern(4,4,rng,2,true)); }
    for (auto &p : pats) { jacobi_case(p); spai0_case(p); gs_case(p); ilu0_case(p,false); if (p.n==3 || T) { ilu0_case(p,true); iluk_case(p,1); ilup_case(p,1); } if (p.n<=2 || T || rng.below(8)==0) ilut_case(p); if (p.n==3 && (T || rng.below(4)==0)) { iluk_case(p,2); iluk_case(p,3); } asprec_case(p); }
    for (auto &p : std::vector<Pattern>{hx::band_pattern(2,1),hx::band_pattern(3,1),hx::dense_pattern(2,2)}) complex_case(p); if (T) complex_case(hx::dense_pattern(3,3));
    for (auto &p : big) { jacobi_case(p); spai0_case(p); gs_case(p); ilu0_case(p,false); ilu0_case(p,true); iluk_case(p,1); if (p.n<=5) iluk_case(p,p.n); /* ILU(k=n) on the 3x2 grid: 20 sweep obligations beyond the 60 s budget */ ilup_case(p,1); if (T) ilup_case(p,2); }
    // ILU(2): level bookkeeping when a fill position is reached through several pivots (needs patterns with longer elimination chains)
    for (auto &p : big) if (p.n>=5 || T) iluk_case(p,2); for (int k=0;k<(T?24:8);++k) iluk_case(hx::random_pattern(6,6,rng,2,true),2);
    { // a fill position reached through two pivots, the earlier one giving the higher level, and itself producing level-2 fill
      auto from_entries=[](int n, std::vector<std::pair<int,int>> e, const std::string &nm) { std::vector<std::set<int>> rows(n); for (int i=0;i<n;++i) rows[i].insert(i); for (auto &x : e) rows[x.first].insert(x.second); Pattern p; p.n=p.m=n; p.ptr.push_back(0); for (int i=0;i<n;++i) { for (int c : rows[i]) p.col.push_back(c); p.ptr.push_back(p.col.size()); } p.name=nm; return p; };
      iluk_case(from_entries(6,{{1,0},{0,3},{4,1},{4,2},{2,3},{3,5}},"chain6"),2); iluk_case(from_entries(6,{{1,0},{0,3},{4,1},{4,2},{2,3},{3,5}},"chain6"),3);
      iluk_case(from_entries(7,{{1,0},{0,1},{3,0},{0,3},{4,1},{1,4},{4,2},{2,4},{3,2},{2,3},{5,3},{3,5},{6,5},{5,6}},"chain7sym"),2); }
    ilu0_block_case(2);
    for (int k=0;k<(T?12:4);++k) { Pattern p = k%2 ? hx::grid_pattern(2+k%3,2) : hx::random_sym_pattern(3+rng.below(4),rng,2); for (int deg=1;deg<=(T?5:3);++deg) { cheb_case(p,rng,deg,false); cheb_case(p,rng,deg,true); if (deg==2 || T) { cheb_case(p,rng,deg,false,1.25f,0.0625f); cheb_case(p,rng,deg,true,0.75f,0.125f); } } }
    // SPAI-1: rows with at most two stored entries (the QR of wider rows leaves nested radicals z3 does not resolve within the budget)
    for (int n=2;n<=(T?5:4);++n) { Pattern ub; ub.n=ub.m=n; ub.ptr.push_back(0); for (int i=0;i<n;++i) { ub.col.push_back(i); if (i+1<n) ub.col.push_back(i+1); ub.ptr.push_back(ub.col.size()); } ub.name="upperbidiag"+std::to_string(n); spai1_case(ub,rng,true);
        Pattern lb; lb.n=lb.m=n; lb.ptr.push_back(0); for (int i=0;i<n;++i) { if (i>0) lb.col.push_back(i-1); lb.col.push_back(i); lb.ptr.push_back(lb.col.size()); } lb.name="lowerbidiag"+std::to_string(n); spai1_case(lb,rng,true); }
    if (T) for (int k=0;k<4;++k) spai1_case(hx::band_pattern(3,1),rng,false);
    return hx::finish();
}
