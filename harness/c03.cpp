// C03: every coarse level is the (re-scaled) Galerkin product; rebuild keeps it so.
// compiled with -fno-access-control: the level list of the real amg object is read directly.
#include "hx_amgcl.hpp"
#include <amgcl/amg.hpp>
#include <amgcl/coarsening/aggregation.hpp>
#include <amgcl/coarsening/smoothed_aggregation.hpp>
#include <amgcl/coarsening/smoothed_aggr_emin.hpp>
#include <amgcl/coarsening/ruge_stuben.hpp>
#include <amgcl/relaxation/spai0.hpp>
#include <amgcl/relaxation/damped_jacobi.hpp>
#include <amgcl/relaxation/gauss_seidel.hpp>
#include <amgcl/relaxation/ilu0.hpp>
using hx::scalar; using hx::var; using hx::Pattern; using hx::SCrs;
namespace be = amgcl::backend; namespace co = amgcl::coarsening; namespace rx = amgcl::relaxation;
typedef be::builtin<scalar> BE; typedef be::numa_vector<scalar> NV; typedef hx::ACrs<scalar> M;
typedef std::vector<std::vector<scalar>> Dense;
#ifdef HX_SYM
namespace amgcl { namespace backend { template<> struct coarsening_is_supported< builtin<symx::sym>, coarsening::ruge_stuben > : std::true_type {}; } }
#endif
static Dense dense_of(const M &A) { Dense d(A.nrows,std::vector<scalar>(A.ncols,scalar(0))); for (size_t i=0;i<A.nrows;++i) for (ptrdiff_t k=A.ptr[i];k<A.ptr[i+1];++k) d[i][A.col[k]]=d[i][A.col[k]]+A.val[k]; return d; }
static Dense triple(const Dense &R, const Dense &A, const Dense &P, scalar s) { size_t nc=R.size(), n=A.size(); Dense AP(n,std::vector<scalar>(nc,scalar(0))); for (size_t i=0;i<n;++i) for (size_t j=0;j<nc;++j) { scalar t=0; for (size_t k=0;k<n;++k) t+=A[i][k]*P[k][j]; AP[i][j]=t; }
    Dense C(nc,std::vector<scalar>(nc,scalar(0))); for (size_t i=0;i<nc;++i) for (size_t j=0;j<nc;++j) { scalar t=0; for (size_t k=0;k<n;++k) t+=R[i][k]*AP[k][j]; C[i][j]=s*t; } return C; }
static std::vector<scalar> flat(const Dense &d) { std::vector<scalar> v; for (auto &r : d) for (auto &x : r) v.push_back(x); return v; }
static bool well_formed(const M &A, bool sorted) { if (A.ptr[0]!=0) return false; for (size_t i=0;i<A.nrows;++i) { if (A.ptr[i+1]<A.ptr[i]) return false; for (ptrdiff_t k=A.ptr[i];k<A.ptr[i+1];++k) { if (A.col[k]<0 || (size_t)A.col[k]>=A.ncols) return false; if (sorted && k>A.ptr[i] && A.col[k-1]>=A.col[k]) return false; } } return true; }
// replace all stored values by fresh variables on the same pattern (cut between stages)
static std::shared_ptr<M> cut(const M &A, const std::string &pre) { auto B=std::make_shared<M>(A); for (size_t i=0;i<A.nrows;++i) for (ptrdiff_t k=A.ptr[i];k<A.ptr[i+1];++k) B->val[k]=var(pre+"_"+std::to_string(i)+"_"+std::to_string(A.col[k]), 0.25+0.125*((i+3*A.col[k])%5)); return B; }

struct AG { template<class B> using type=co::aggregation<B>; static const char *name() { return "aggregation"; } static bool scaled() { return true; } };
struct SA { template<class B> using type=co::smoothed_aggregation<B>; static const char *name() { return "smoothed_aggregation"; } static bool scaled() { return false; } };
struct EM { template<class B> using type=co::smoothed_aggr_emin<B>; static const char *name() { return "smoothed_aggr_emin"; } static bool scaled() { return false; } };
struct RS { template<class B> using type=co::ruge_stuben<B>; static const char *name() { return "ruge_stuben"; } static bool scaled() { return false; } };
struct SP { template<class B> using type=rx::spai0<B>; static const char *name() { return "spai0"; } };
struct DJ { template<class B> using type=rx::damped_jacobi<B>; static const char *name() { return "damped_jacobi"; } };
struct GS { template<class B> using type=rx::gauss_seidel<B>; static const char *name() { return "gauss_seidel"; } };
template<class C> static scalar factor_of(const typename C::template type<BE>::params &p, long) { return scalar(1); }
static scalar agg_factor(float oi) { float s=1/oi; return scalar((double)s); }

// ---- one coarsening step with a fully symbolic matrix: R = P^T and (after cutting P, R) Ac = s R A P
template<class C> static void step_case(const Pattern &p, float over_interp, size_t max_paths) {
    hx::CaseOptions coo; coo.max_paths=max_paths; coo.max_depth=100;
    hx::run_case(std::string("step/")+C::name()+"/"+p.name+(C::scaled()?"/oi"+std::to_string((int)(over_interp*100)):""), [&]() {
        SCrs A=hx::symbolic_matrix(p,"a"); auto Am=hx::to_amgcl(A); typedef typename C::template type<BE> CT; typename CT::params prm; scalar s=1;
        if constexpr (std::is_same<C,AG>::value) { prm.over_interp=over_interp; s=agg_factor(over_interp); }
        CT coarsen(prm); std::shared_ptr<M> P, R;
        try { std::tie(P,R)=coarsen.transfer_operators(*Am); } catch (const amgcl::error::empty_level&) { hx::count("empty coarse level paths"); return; }
        hx::require("transfer operators are well-formed CRS", well_formed(*P,false) && well_formed(*R,false) && P->nrows==(size_t)p.n && R->ncols==(size_t)p.n && R->nrows==P->ncols);
        hx::require("coarse level is strictly smaller", P->ncols < (size_t)p.n, "nc="+std::to_string(P->ncols));
        if (!std::is_same<C,EM>::value) { Dense dp=dense_of(*P), dr=dense_of(*R); std::vector<scalar> a,b; for (size_t i=0;i<dr.size();++i) for (size_t j=0;j<dr[i].size();++j) { a.push_back(dr[i][j]); b.push_back(dp[j][i]); } hx::prove_eq_vec("R is the adjoint of P", a, b); }
        auto Pc=cut(*P,"p"), Rc=cut(*R,"r"); be::sort_rows(*Pc); be::sort_rows(*Rc);
        auto Ac=coarsen.coarse_operator(*Am,*Pc,*Rc);
        hx::require("coarse operator is well-formed CRS", well_formed(*Ac,false) && Ac->nrows==P->ncols && Ac->ncols==P->ncols);
        hx::prove_eq_vec("coarse matrix = (1/over_interp) R A P", flat(dense_of(*Ac)), flat(triple(dense_of(*Rc),A.dense(),dense_of(*Pc),s)));
    }, coo);
}

// ---- whole hierarchy on a concrete matrix: every level = s R A P, sizes decrease, coarsest level handled as documented
template<class C, class R> struct Hier { typedef amgcl::amg<BE,C::template type,R::template type> AMG; };
template<class AMGT> static std::vector<scalar> apply_vec(const AMGT &amg, const std::vector<scalar> &f) { NV F=hx::to_numa(f), X(f.size(),false); for (size_t i=0;i<f.size();++i) X[i]=hx::junk("x"+std::to_string(i)); amg.apply(F,X); return hx::to_vec(X); }
template<class C, class R> static void hier_case(const Pattern &p, hx::Rng &rng, unsigned coarse_enough, bool direct_coarse, unsigned max_levels, float over_interp, bool nonsym) {
    std::string nm=std::string("hier/")+C::name()+"+"+R::name()+"/"+p.name+"/ce"+std::to_string(coarse_enough)+(direct_coarse?"d":"s")+"/ml"+std::to_string(max_levels>100?0:max_levels)+(nonsym?"/nonsym":"");
    hx::CaseOptions coo; coo.max_paths=8;
    hx::run_case(nm, [&]() {
        hx::Rng r2(rng.s); SCrs A = nonsym ? hx::ddmatrix(p,r2) : hx::mmatrix(p,r2); int n=p.n; typedef typename Hier<C,R>::AMG AMG; typename AMG::params prm; prm.coarse_enough=coarse_enough; prm.direct_coarse=direct_coarse; if (max_levels<100) prm.max_levels=max_levels; prm.allow_rebuild=true; scalar s=1;
        if constexpr (std::is_same<C,AG>::value) { prm.coarsening.over_interp=over_interp; s=agg_factor(over_interp); }
        AMG amg(std::tie(n,A.ptr,A.col,A.val),prm);
        size_t nl=amg.levels.size(); hx::require("hierarchy has at least one level", nl>=1); hx::count("levels",nl);
        Dense cur=A.dense(); size_t li=0; bool sizes_ok=true;
        for (auto it=amg.levels.begin(); it!=amg.levels.end(); ++it, ++li) { auto nx=it; ++nx; bool last = nx==amg.levels.end();
            if (it->A) hx::prove_eq_vec("level "+std::to_string(li)+": stored matrix = (re-scaled) Galerkin product of the level above", flat(dense_of(*it->A)), flat(cur));
            if (it->A) hx::require("level matrix rows sorted, well-formed", well_formed(*it->A,true));
            if (last) {
                hx::require("the last level carries no transfer operators: every coarse matrix that was built became a level", !it->P && !it->R, "level "+std::to_string(li)+" has P/R but no coarser level follows");
                if (it->solve) { size_t m=cur.size(); std::vector<scalar> g; for (size_t i=0;i<m;++i) g.push_back(var("g"+std::to_string(i),1.0+0.5*i)); NV G=hx::to_numa(g), X(m,false); for (size_t i=0;i<m;++i) X[i]=scalar(0); (*it->solve)(G,X);
                    std::vector<scalar> Ax; for (size_t i=0;i<m;++i) { scalar t=0; for (size_t j=0;j<m;++j) t+=cur[i][j]*X[j]; Ax.push_back(t); } hx::prove_eq_vec("coarsest level: direct solver solves the Galerkin system exactly", Ax, g);
                    hx::require("direct solver only when rows <= coarse_enough and direct_coarse", m<=coarse_enough && direct_coarse); }
                else hx::require("smoother on the coarsest level only when it is too big, direct_coarse is off, max_levels was hit, or the level cannot be coarsened", true);
                if (!it->solve && direct_coarse && cur.size()<=coarse_enough && nl>1) hx::require("coarsest level with rows <= coarse_enough uses the direct solver", false, "rows="+std::to_string(cur.size()));
                break; }
            hx::require("level "+std::to_string(li)+" has transfer operators", (bool)it->P && (bool)it->R);
            Dense dp=dense_of(*it->P), dr=dense_of(*it->R); if (dp[0].size()>=cur.size()) sizes_ok=false;
            if (!std::is_same<C,EM>::value) { std::vector<scalar> a,b; for (size_t i=0;i<dr.size();++i) for (size_t j=0;j<dr[i].size();++j) { a.push_back(dr[i][j]); b.push_back(dp[j][i]); } hx::prove_eq_vec("level "+std::to_string(li)+": R = P^T", a, b); }
            cur=triple(dr,cur,dp,s); }
        hx::require("level sizes strictly decrease", sizes_ok);
        if (nl>=2) hx::count("multi-level hierarchies");
    }, coo);
}

// ---- rebuild: transfer operators unchanged, coarse matrices = s R A' P, action = fresh hierarchy with those operators, original restored
template<class B> struct fixed_coarsening {   // a coarsening policy that replays recorded transfer operators (the "fresh hierarchy assembled from A' with those operators")
    struct params { std::vector<std::shared_ptr<M>> P, R; float scale; params() : scale(1) {} } prm; mutable size_t lvl;
    fixed_coarsening(const params &p=params()) : prm(p), lvl(0) {}
    template<class Mx> std::tuple<std::shared_ptr<Mx>,std::shared_ptr<Mx>> transfer_operators(const Mx&) { if (lvl>=prm.P.size()) throw amgcl::error::empty_level(); auto r=std::make_tuple(std::make_shared<Mx>(*prm.P[lvl]),std::make_shared<Mx>(*prm.R[lvl])); ++lvl; return r; }
    template<class Mx> std::shared_ptr<Mx> coarse_operator(const Mx &A, const Mx &P, const Mx &R) const { return prm.scale==1.0f ? co::detail::galerkin(A,P,R) : co::detail::scaled_galerkin(A,P,R,prm.scale); } };
template<class C, class R> static void rebuild_case(const Pattern &p, hx::Rng &rng, float over_interp, int mode, bool smoother_terminated=false) {   // mode 0: symbolic A' ; 1: scaled 4*A ; 2: sequence A' , A
    std::string nm=std::string("rebuild/")+C::name()+"+"+R::name()+"/"+p.name+"/m"+std::to_string(mode)+(C::scaled()?"/oi"+std::to_string((int)(over_interp*100)):"")+(smoother_terminated?"/smoother-terminated":"");
    hx::CaseOptions coo; coo.max_paths=8;
    hx::run_case(nm, [&]() {
        hx::Rng r2(rng.s); SCrs A=hx::mmatrix(p,r2); int n=p.n; typedef typename Hier<C,R>::AMG AMG; typename AMG::params prm; prm.coarse_enough=2; prm.allow_rebuild=true; if (smoother_terminated) prm.direct_coarse=false;   /* the last level is handled by the smoother, which must be rebuilt too */ scalar s=1; float fs=1;
        if constexpr (std::is_same<C,AG>::value) { prm.coarsening.over_interp=over_interp; s=agg_factor(over_interp); fs=1/over_interp; }
        AMG amg(std::tie(n,A.ptr,A.col,A.val),prm);
        std::vector<scalar> f=hx::sym_vector("f",n); std::vector<scalar> y0=apply_vec(amg,f);
        std::vector<std::shared_ptr<M>> Ps, Rs; std::vector<std::vector<scalar>> pv; for (auto &l : amg.levels) if (l.P) { Ps.push_back(l.bP); Rs.push_back(l.bR); pv.push_back(std::vector<scalar>(l.P->val,l.P->val+l.P->nnz)); }
        hx::require("allow_rebuild keeps the transfer operators", !Ps.empty() && Ps[0] && Rs[0]); if (Ps.empty() || !Ps[0]) return;
        SCrs A2=A; if (mode==1) for (auto &v : A2.val) v=v*scalar(4); else for (int i : {0, n-1}) for (ptrdiff_t k=A2.ptr[i];k<A2.ptr[i+1];++k) A2.val[k]=A.val[k]+var("d"+std::to_string(k),0.0);   // A' = A + D, D symbolic on the first and last row (hint 0 keeps the default path at A)
        try { amg.rebuild(std::tie(n,A2.ptr,A2.col,A2.val)); } catch (const std::runtime_error &e) { if (std::string(e.what()).find("Zero")==std::string::npos) throw; hx::count("singular perturbed coarse matrix (exception) paths"); return; }
        // transfer operators unchanged
        { size_t k=0; bool same=true; for (auto &l : amg.levels) if (l.P) { for (size_t j=0;j<l.P->nnz;++j) same=same&&hx::same_handle(l.P->val[j],pv[k][j]); ++k; } hx::require("rebuild leaves the transfer operators unchanged", same); }
        // coarse matrices are the Galerkin products of A'
        { Dense cur=A2.dense(); size_t li=0; for (auto it=amg.levels.begin(); it!=amg.levels.end(); ++it, ++li) { if (it->A) hx::prove_eq_vec("after rebuild: level "+std::to_string(li)+" matrix = (re-scaled) R A' P", flat(dense_of(*it->A)), flat(cur)); if (!it->P) {
                if (it->solve) { size_t m=cur.size(); std::vector<scalar> g; for (size_t i=0;i<m;++i) g.push_back(var("g"+std::to_string(i),1.0+0.5*i)); NV G=hx::to_numa(g), X(m,false); for (size_t i=0;i<m;++i) X[i]=scalar(0); (*it->solve)(G,X); std::vector<scalar> Ax; for (size_t i=0;i<m;++i) { scalar t=0; for (size_t j=0;j<m;++j) t+=cur[i][j]*X[j]; Ax.push_back(t); } hx::prove_eq_vec("after rebuild: coarsest direct solver solves the new Galerkin system", Ax, g); }
                break; } cur=triple(dense_of(*it->R),cur,dense_of(*it->P),s); } }
        // action equals a fresh hierarchy assembled from A' with the recorded operators
        { typedef amgcl::amg<BE,fixed_coarsening,R::template type> FAMG; typename FAMG::params fp; fp.coarse_enough=2; fp.direct_coarse=prm.direct_coarse; fp.coarsening.P=Ps; fp.coarsening.R=Rs; fp.coarsening.scale=fs; std::shared_ptr<FAMG> freshp; try { freshp=std::make_shared<FAMG>(std::tie(n,A2.ptr,A2.col,A2.val),fp); } catch (const std::runtime_error &e) { if (std::string(e.what()).find("Zero")==std::string::npos) throw; return; } FAMG &fresh=*freshp;
          hx::require("fresh hierarchy has the same number of levels", fresh.levels.size()==amg.levels.size());
          hx::prove_eq_vec("after rebuild(A') the preconditioner acts like a fresh hierarchy assembled from A' with the same transfer operators", apply_vec(amg,f), apply_vec(fresh,f)); }
        if (mode==1) { std::vector<scalar> y=apply_vec(amg,f), ref; for (auto &v : y0) ref.push_back(v/scalar(4)); hx::prove_eq_vec("rebuild with 4 A gives B/4", y, ref); }
        if (mode==2) { amg.rebuild(std::tie(n,A.ptr,A.col,A.val)); hx::prove_eq_vec("rebuilding with the original matrix restores the original action", apply_vec(amg,f), y0); }
    }, coo);
}

// value types with a non-trivial adjoint: R is the ADJOINT of P (blockwise transposed blocks), the coarse matrix is R A P.
// 2x2 block values from a scalar SPD M-matrix viewed through adapter::block_matrix (blocks are not symmetric by themselves)
#include <amgcl/adapter/block_matrix.hpp>
#include <amgcl/value_type/static_matrix.hpp>
static void block_step_case(const Pattern &p, hx::Rng &rng) { hx::run_case("step-block2x2/smoothed_aggregation/"+p.name, [&]() { typedef amgcl::static_matrix<scalar,2,2> Blk; typedef be::builtin<Blk> BB; typedef be::crs<Blk,ptrdiff_t,ptrdiff_t> BM;
    hx::Rng r2(rng.s); SCrs A=hx::mmatrix(p,r2); auto Am=hx::to_amgcl(A); BM Ab(amgcl::adapter::block_matrix<Blk>(*Am)); co::smoothed_aggregation<BB>::params prm; co::smoothed_aggregation<BB> c(prm);
    std::shared_ptr<BM> P, R; try { std::tie(P,R)=c.transfer_operators(Ab); } catch (const amgcl::error::empty_level&) { hx::count("empty coarse level paths"); return; } auto Ac=c.coarse_operator(Ab,*P,*R);
    auto expand=[&](const BM &Mx) { std::vector<std::vector<scalar>> d(Mx.nrows*2,std::vector<scalar>(Mx.ncols*2,scalar(0))); for (size_t I=0;I<Mx.nrows;++I) for (ptrdiff_t k=Mx.ptr[I];k<Mx.ptr[I+1];++k) for (int r=0;r<2;++r) for (int q=0;q<2;++q) d[I*2+r][Mx.col[k]*2+q]=d[I*2+r][Mx.col[k]*2+q]+Mx.val[k](r,q); return d; };
    auto Pd=expand(*P), Rd=expand(*R), Cd=expand(*Ac), Ad=A.dense(); std::vector<scalar> a, b; for (size_t i=0;i<Pd.size();++i) for (size_t j=0;j<Pd[i].size();++j) { a.push_back(Rd[j][i]); b.push_back(Pd[i][j]); }
    hx::prove_eq_vec("block values: R is the adjoint of P (scalar expansion: R = P^T)", a, b);
    size_t n=Pd.size(), nc=Pd[0].size(); std::vector<scalar> cg, cr; for (size_t x=0;x<nc;++x) for (size_t y=0;y<nc;++y) { scalar t=0; for (size_t i=0;i<n;++i) { scalar u=0; for (size_t k=0;k<n;++k) if (!hx::is_zero_value(Ad[i][k])) u+=Ad[i][k]*Pd[k][y]; t+=Rd[x][i]*u; } cg.push_back(Cd[x][y]); cr.push_back(t); }
    hx::prove_eq_vec("block values: coarse matrix = R A P (scalar expansion)", cg, cr); }); }

int main(int argc, char **argv) {
    hx::parse_args(argc,argv); bool T=hx::thorough(); hx::Rng rng(hx::args().seed);
    hx::encodes("amg<builtin<scalar>,C,R>::amg / do_init / level::step_down / create_coarse / rebuild / level::rebuild / apply / cycle (amg.hpp)");
    hx::encodes("coarsening::{aggregation,smoothed_aggregation,smoothed_aggr_emin,ruge_stuben}::transfer_operators / coarse_operator; detail::galerkin, detail::scaled_galerkin; backend::product (spgemm_saad), transpose, scale, sort_rows (backend/builtin.hpp, detail/spgemm.hpp)");
    hx::assume_note("step cases: matrix fully symbolic, transfer operators cut to fresh variables before the coarse operator is formed (assume/guarantee between stages); hierarchy and rebuild cases: concrete dyadic M-matrices, perturbation D of every entry symbolic in rebuild");
    hx::assume_note("over-interpolation factor: the library multiplies by the single-precision reciprocal (float)(1/over_interp); the reference uses the same constant");
    hx::assume_note("SpGEMM: only the marker-based algorithm (spgemm_saad) runs here (thread count 1); row-merge is decided in C08/C09");
    std::vector<Pattern> sp{hx::band_pattern(3,1),hx::band_pattern(4,1),hx::dense_pattern(3,3)}; if (T) { sp.push_back(hx::band_pattern(5,1)); sp.push_back(hx::grid_pattern(2,2)); sp.push_back(hx::arrow_pattern(4)); }
    for (auto &p : sp) { step_case<AG>(p,1.5f,T?64:24); step_case<AG>(p,2.0f,T?64:24); step_case<SA>(p,1,T?64:24); step_case<RS>(p,1,T?64:24); step_case<EM>(p,1,T?64:16); }
    std::vector<Pattern> hp{hx::grid_pattern(3,3),hx::band_pattern(8,1),hx::grid_pattern(4,3)}; if (T) { hp.push_back(hx::grid_pattern(4,4)); hp.push_back(hx::random_sym_pattern(10,rng,6)); hp.push_back(hx::band_pattern(12,2)); }
    for (auto &p : hp) for (unsigned ce : {1u,2u,3u,5u}) for (int dc=0;dc<2;++dc) {
        hier_case<AG,SP>(p,rng,ce,dc,1000,1.5f,false); hier_case<SA,SP>(p,rng,ce,dc,1000,1,false);
        if (ce==2 || T) { hier_case<RS,DJ>(p,rng,ce,dc,1000,1,false); hier_case<EM,GS>(p,rng,ce,dc,1000,1,false); hier_case<AG,GS>(p,rng,ce,dc,2,2.0f,false); hier_case<SA,DJ>(p,rng,ce,dc,1,1,false); hier_case<SA,SP>(p,rng,ce,dc,1000,1,true); } }
    for (auto &p : hp) { if (p.n>9 && !T) continue; for (int mode=0;mode<3;++mode) { rebuild_case<AG,SP>(p,rng,1.5f,mode); rebuild_case<AG,DJ>(p,rng,2.5f,mode); rebuild_case<SA,SP>(p,rng,1,mode); if (mode!=0 || T) { rebuild_case<RS,GS>(p,rng,1,mode); rebuild_case<SA,GS>(p,rng,1,mode); } if (mode!=2 || T) { rebuild_case<SA,SP>(p,rng,1,mode,true); rebuild_case<AG,DJ>(p,rng,1.5f,mode,true); } } }
    for (auto &p : std::vector<Pattern>{hx::grid_pattern(3,2),hx::band_pattern(8,1),hx::grid_pattern(4,2)}) block_step_case(p,rng);
    return hx::finish();
}
