// C10: outputs are a function of the inputs only; no memory errors on valid (incl. degenerate) input.
// Built with -fsanitize=address,undefined and run with ASAN_OPTIONS=malloc_fill_byte=170:max_malloc_fill_size=1073741824 : every fresh
// heap allocation is filled with 0xAA, which is an INVALID symbolic handle, so any arithmetic, comparison or output on never-written
// scalars is reported as an uninitialised read; never-written index/flag arrays hold 0xAA.. garbage and lead to sanitizer errors.
#include "hx_amgcl.hpp"
#include <amgcl/value_type/static_matrix.hpp>
#include <amgcl/adapter/block_matrix.hpp>
#include <amgcl/make_solver.hpp>
#include <amgcl/amg.hpp>
#include <amgcl/coarsening/aggregation.hpp>
#include <amgcl/coarsening/smoothed_aggregation.hpp>
#include <amgcl/coarsening/smoothed_aggr_emin.hpp>
#include <amgcl/coarsening/ruge_stuben.hpp>
#include <amgcl/relaxation/spai0.hpp>
#include <amgcl/relaxation/damped_jacobi.hpp>
#include <amgcl/relaxation/gauss_seidel.hpp>
#include <amgcl/relaxation/ilu0.hpp>
#include <amgcl/relaxation/ilut.hpp>
#include <amgcl/relaxation/chebyshev.hpp>
#include <amgcl/relaxation/as_preconditioner.hpp>
#include <amgcl/solver/cg.hpp>
#include <amgcl/solver/bicgstab.hpp>
#include <amgcl/solver/gmres.hpp>
#include <amgcl/preconditioner/dummy.hpp>
#include <amgcl/solver/richardson.hpp>
#include <amgcl/solver/bicgstabl.hpp>
#include <amgcl/solver/idrs.hpp>
#include <amgcl/solver/fgmres.hpp>
#include <amgcl/solver/lgmres.hpp>
#include <amgcl/solver/preonly.hpp>
#include <amgcl/solver/skyline_lu.hpp>
#include <amgcl/adapter/zero_copy.hpp>
using hx::scalar; using hx::var; using hx::Pattern; using hx::SCrs;
namespace be = amgcl::backend; namespace co = amgcl::coarsening; namespace rx = amgcl::relaxation; namespace sv = amgcl::solver; typedef be::builtin<scalar> BE; typedef be::numa_vector<scalar> NV; typedef std::vector<scalar> Vec;
#ifdef HX_SYM
namespace amgcl { namespace backend { template<> struct coarsening_is_supported< builtin<symx::sym>, coarsening::ruge_stuben > : std::true_type {}; } }
static size_t poison_events() { return symx::ctx().events.size(); }
#else
static size_t poison_events() { return 0; }
#endif
template<class SP> static auto set_it(SP &s) -> decltype(s.maxiter, void()) { s.maxiter=2; s.tol=scalar(1e-8); }
static void set_it(amgcl::detail::empty_params &) {}
// degenerate but valid matrices
struct Input { std::string name; SCrs A; };
static SCrs from_dense(const std::vector<std::vector<double>> &d, bool symbolic, const std::string &pre) { SCrs A; A.n=A.m=d.size(); A.ptr.push_back(0); for (int i=0;i<A.n;++i) { for (int j=0;j<A.n;++j) if (d[i][j]!=0) { A.col.push_back(j); A.val.push_back(symbolic ? var(pre+"_"+std::to_string(i)+"_"+std::to_string(j),d[i][j]) : scalar(d[i][j])); } A.ptr.push_back(A.col.size()); } return A; }
static std::vector<Input> inputs(bool symbolic) { std::vector<Input> v; auto add=[&](const std::string &n, const std::vector<std::vector<double>> &d) { v.push_back({n,from_dense(d,symbolic,"a")}); };
    add("1x1",{{3}}); add("diag3",{{2,0,0},{0,3,0},{0,0,4}}); add("disconnected",{{2,-1,0,0},{-1,2,0,0},{0,0,3,-1},{0,0,-1,3}}); add("positive_offdiag_row",{{2,1,0},{-1,2,-1},{0,-1,2}}); add("all_positive_offdiag",{{3,1,1},{1,3,1},{1,1,3}}); add("tridiag4",{{2,-1,0,0},{-1,2,-1,0},{0,-1,2,-1},{0,0,-1,2}}); add("isolated_node",{{2,-1,0},{-1,2,0},{0,0,5}}); add("2x2",{{2,-1},{-1,2}});
    // numerically non-symmetric strength graph (a_ji strong, a_ij weak): a later seed absorbs an earlier aggregate completely -> the "aggregates vanished, renumber" branch
    { double w=-1.0/64; add("nonsym_strength3",{{2,-1,w},{-1,2,w},{-1,-1,2}}); add("nonsym_strength6",{{2,-1,w,0,0,0},{-1,2,w,0,0,0},{-1,-1,2,w,0,0},{0,0,w,2,-1,w},{0,0,0,-1,2,w},{0,0,0,-1,-1,2}}); }
    return v; }
static void __attribute__((noinline)) scrub_stack();
template<class MS, class SetP> static void twice_case(const std::string &nm, const Input &in, SetP setp) { hx::CaseOptions coo; coo.max_paths=16; coo.max_depth=160; hx::run_case(nm+"/"+in.name, [&]() { const SCrs &A=in.A; int n=A.n; typename MS::params prm; setp(prm); Vec f=hx::sym_vector("f",n), x0=hx::sym_vector("x",n,0.25);
    size_t ev0=poison_events();
    auto once=[&](bool &threw, std::string &what) { Vec out; scrub_stack(); try { MS s(std::tie(n,A.ptr,A.col,A.val),prm); NV F=hx::to_numa(f), X=hx::to_numa(x0); hx::cuts(true); auto r=s(F,X); hx::cuts(false); out=hx::to_vec(X); out.push_back(std::get<1>(r)); out.push_back(scalar((double)std::get<0>(r))); } catch (const std::runtime_error &e) { hx::cuts(false); threw=true; what=e.what(); } catch (const amgcl::error::empty_level&) { hx::cuts(false); threw=true; what="empty_level"; } return out; };
    bool t1=false, t2=false; std::string w1, w2; Vec a=once(t1,w1); // unrelated heap traffic between the two constructions
    { std::vector<std::vector<char>> junk; for (int k=0;k<7;++k) junk.emplace_back(37+k*101,(char)k); }
    Vec b=once(t2,w2);
    hx::require("no scalar was read from never-written memory (0xAA-filled allocations)", poison_events()==ev0, poison_events()>ev0 ? "uninitialised read" : "");
    hx::require("constructing and solving twice gives the same outcome (result or exception)", t1==t2 && w1==w2, w1+" / "+w2); if (t1||t2) { hx::count("exception outcomes (amgcl reported the failure)"); return; }
    bool same=a.size()==b.size(); for (size_t i=0;i<a.size()&&same;++i) same=hx::same_handle(a[i],b[i]); hx::require("constructing and solving twice gives bitwise identical results (identical operation logs), whatever the heap held before", same);
    bool clean=true; for (auto &v : a) clean=clean&&hx::independent_of(v,"poison"); hx::require("no result depends on uninitialised memory", clean); },coo); }
static void lu_case(const Input &in) { hx::run_case("skyline_lu/"+in.name, [&]() { const SCrs &A=in.A; int n=A.n; Vec f=hx::sym_vector("f",n), x(n), y(n); size_t ev0=poison_events(); try { sv::skyline_lu<scalar> S(std::tie(n,A.ptr,A.col,A.val)); S(f,x); sv::skyline_lu<scalar> S2(std::tie(n,A.ptr,A.col,A.val)); S2(f,y); } catch (const std::runtime_error&) { hx::count("exception outcomes (amgcl reported the failure)"); return; }
    bool same=true; for (int i=0;i<n;++i) same=same&&hx::same_handle(x[i],y[i]); hx::require("skyline_lu twice: identical", same); hx::require("skyline_lu: no uninitialised read", poison_events()==ev0); }); }
static void zero_copy_case(const Input &in) { hx::run_case("zero_copy_amg/"+in.name, [&]() { SCrs A=in.A; int n=A.n; auto Z=amgcl::adapter::zero_copy(n,A.ptr.data(),A.col.data(),A.val.data()); Vec v0=A.val; std::vector<ptrdiff_t> p0=A.ptr, c0=A.col; size_t ev0=poison_events();
    try { typedef amgcl::amg<BE,co::smoothed_aggregation,rx::spai0> AMG; AMG::params prm; prm.coarse_enough=1; AMG amg(*Z,prm); Vec f=hx::sym_vector("f",n); NV F=hx::to_numa(f), X(n,false); for (int i=0;i<n;++i) X[i]=scalar(0); amg.apply(F,X); } catch (const amgcl::error::empty_level&) {} catch (const std::runtime_error&) {}
    Z.reset(); bool intact=A.ptr==p0 && A.col==c0; for (size_t k=0;k<v0.size();++k) intact=intact&&hx::same_handle(A.val[k],v0[k]); hx::require("zero-copy matrix: user arrays intact (never freed, never written) after the hierarchy and the adapter are destroyed", intact); hx::require("no uninitialised read", poison_events()==ev0); }); }

// AUXILIARY, not a solver verdict: deep runs of the Krylov solvers with tiny restart / augmentation / shadow-space parameters, on concrete
// numbers, executed only in the concrete (validation) pass of both builds under AddressSanitizer.  They wrap every internal ring buffer and
// restart several times -- iteration depths the symbolic engine cannot reach (3 GB per case at 3 iterations); the sanitizer is the only oracle.
// uninitialised STACK memory: the frames below the call are scrubbed with the 0xAA pattern first (an invalid scalar handle in the symbolic build), so a local
// that is read before it is written shows up as an uninitialised read exactly like a heap cell does
static void __attribute__((noinline)) scrub_stack() { volatile unsigned char buf[1<<16]; for (size_t i=0;i<sizeof(buf);++i) buf[i]=0xAA; }
// block adapter on a scalar matrix whose 2x2 blocks are structurally incomplete (also the FIRST block of a block row): every block value is written before it is read
static void block_adapter_case(const std::string &nm, const std::vector<std::vector<double>> &d) { hx::run_case("block_adapter/"+nm, [&]() { SCrs A=from_dense(d,false,"a"); int n=A.n; typedef amgcl::static_matrix<scalar,2,2> B2; size_t ev0=poison_events();
    auto tup=std::tie(n,A.ptr,A.col,A.val); scrub_stack(); be::crs<B2,ptrdiff_t,ptrdiff_t> Bm(amgcl::adapter::block_matrix<B2>(tup));
    std::vector<std::vector<scalar>> D(n,Vec(n,scalar(0))); for (size_t I=0;I<Bm.nrows;++I) for (ptrdiff_t k=Bm.ptr[I];k<Bm.ptr[I+1];++k) for (int r=0;r<2;++r) for (int c=0;c<2;++c) D[I*2+r][Bm.col[k]*2+c]=Bm.val[k](r,c);
    hx::require("block adapter: no scalar was read from never-written memory (heap or scrubbed stack)", poison_events()==ev0); bool clean=true; auto Ad=A.dense(); Vec g, r; for (int i=0;i<n;++i) for (int j=0;j<n;++j) { clean=clean&&hx::independent_of(D[i][j],"poison"); g.push_back(D[i][j]); r.push_back(Ad[i][j]); }
    hx::require("block adapter: no block value depends on uninitialised memory", clean); if (clean) hx::prove_eq_vec("block adapter: block values = the scalar entries, missing entries are exactly zero", g, r); }); }

template<class S, class SetP> static void deep_run_case(const std::string &nm, SetP setp, int repeats) { hx::run_case("deep-run(concrete)/"+nm, [&]() {
#ifndef HX_DBL
    hx::count("deep concrete runs are executed by the double build in the validation pass only"); return;
#endif
    if (!hx::concrete()) { hx::count("deep concrete runs are executed in the validation pass only"); return; }
    const int n=9; std::vector<ptrdiff_t> ptr{0}, col; Vec val; for (int i=0;i<n;++i) { if (i>0) { col.push_back(i-1); val.push_back(scalar(-1)); } col.push_back(i); val.push_back(scalar(2.5+0.125*i)); if (i+1<n) { col.push_back(i+1); val.push_back(scalar(-1.25)); } ptr.push_back(col.size()); }
    typedef amgcl::make_solver<amgcl::preconditioner::dummy<BE>,S> MS; typename MS::params prm; prm.solver.maxiter=12; prm.solver.tol=scalar(1e-300); setp(prm.solver); MS s(std::tie(n,ptr,col,val),prm);
    bool ok=true; for (int r=0;r<repeats;++r) { NV F(n,false), X(n,false); for (int i=0;i<n;++i) { F[i]=scalar(1.0+0.5*((i*7+r)%5)); X[i]=scalar(0); } try { auto res=s(F,X); ok=ok&&std::get<0>(res)<=12+4; } catch (const std::runtime_error&) {} }
    hx::require("deep concrete run finishes inside its iteration budget without a sanitizer report", ok); }); }

int main(int argc, char **argv) {
    hx::parse_args(argc,argv); bool T=hx::thorough();
    hx::encodes("amg<B,C,R> construction + make_solver solve for C in {aggregation, smoothed_aggregation, smoothed_aggr_emin, ruge_stuben} x R in {spai0, damped_jacobi, gauss_seidel, ilu0, ilut, chebyshev}, solvers cg/bicgstab/gmres, as_preconditioner, skyline_lu, adapter::zero_copy -- on the degenerate inputs the property lists");
    hx::assume_note("memory safety on each solver-decided path is observed by AddressSanitizer/UBSan on the running harness (the sanitizer is the oracle per path, the solver enumerates the feasible paths); prior heap content is modelled by one fill pattern (0xAA, an invalid scalar handle) plus heap traffic between the two constructions");
    hx::assume_note("inputs: 1x1, diagonal, disconnected, rows whose only off-diagonals are positive, isolated node, numerically non-symmetric strength graphs (vanishing aggregates), n < coarse_enough, max_levels = 1; both with concrete values and with ALL values symbolic (then every strength / pivot decision is forked)");
    hx::assume_note("a structurally missing diagonal entry is not among the valid inputs of the property and is not exercised");
    for (int symbolic=0;symbolic<2;++symbolic) for (auto &in : inputs(symbolic)) { std::string tag=symbolic?"sym/":"num/"; Input I=in; I.name=tag+in.name;
        auto ce=[](unsigned c, unsigned ml=1000){ return [=](auto &p){ p.precond.coarse_enough=c; if (ml<100) p.precond.max_levels=ml; set_it(p.solver); }; };
        if (!symbolic) {
            twice_case<amgcl::make_solver<amgcl::amg<BE,co::smoothed_aggregation,rx::spai0>,sv::cg<BE>>>("sa+spai0+cg/ce1",I,ce(1)); twice_case<amgcl::make_solver<amgcl::amg<BE,co::ruge_stuben,rx::gauss_seidel>,sv::bicgstab<BE>>>("rs+gs+bicgstab/ce1",I,ce(1));
            twice_case<amgcl::make_solver<amgcl::amg<BE,co::aggregation,rx::ilu0>,sv::gmres<BE>>>("agg+ilu0+gmres/ce1",I,ce(1)); twice_case<amgcl::make_solver<amgcl::amg<BE,co::smoothed_aggr_emin,rx::damped_jacobi>,sv::cg<BE>>>("emin+jacobi+cg/ce1",I,ce(1));
            twice_case<amgcl::make_solver<amgcl::amg<BE,co::smoothed_aggregation,rx::chebyshev>,sv::cg<BE>>>("sa+chebyshev+cg/ce1",I,ce(1)); twice_case<amgcl::make_solver<amgcl::amg<BE,co::aggregation,rx::ilut>,sv::bicgstab<BE>>>("agg+ilut+bicgstab/ce1",I,ce(1));
            twice_case<amgcl::make_solver<amgcl::amg<BE,co::smoothed_aggregation,rx::spai0>,sv::cg<BE>>>("sa+spai0+cg/ce3000",I,ce(3000)); twice_case<amgcl::make_solver<amgcl::amg<BE,co::ruge_stuben,rx::spai0>,sv::cg<BE>>>("rs+spai0+cg/ml1",I,ce(1,1));
            twice_case<amgcl::make_solver<rx::as_preconditioner<BE,rx::ilu0>,sv::bicgstab<BE>>>("as_preconditioner<ilu0>+bicgstab",I,[](auto &p){ set_it(p.solver); });
        } else {   // all values symbolic: hierarchy construction + one preconditioner application (every strength / pivot / C-F decision forked)
            twice_case<amgcl::make_solver<amgcl::amg<BE,co::smoothed_aggregation,rx::spai0>,sv::preonly<BE>>>("sa+spai0/ce1",I,ce(1)); twice_case<amgcl::make_solver<amgcl::amg<BE,co::ruge_stuben,rx::gauss_seidel>,sv::preonly<BE>>>("rs+gs/ce1",I,ce(1));
            twice_case<amgcl::make_solver<amgcl::amg<BE,co::aggregation,rx::ilu0>,sv::preonly<BE>>>("agg+ilu0/ce1",I,ce(1)); if (T || I.A.n<=3) twice_case<amgcl::make_solver<amgcl::amg<BE,co::smoothed_aggr_emin,rx::damped_jacobi>,sv::preonly<BE>>>("emin+jacobi/ce1",I,ce(1));
            twice_case<amgcl::make_solver<amgcl::amg<BE,co::ruge_stuben,rx::spai0>,sv::preonly<BE>>>("rs+spai0/ml1",I,ce(1,1)); twice_case<amgcl::make_solver<amgcl::amg<BE,co::smoothed_aggregation,rx::spai0>,sv::preonly<BE>>>("sa+spai0/ce3000",I,ce(3000));
        }
        lu_case(I); zero_copy_case(I); }
    block_adapter_case("first_block_incomplete",{{2,0,-1,0},{0,3,0,0},{-1,0,2,-1},{0,0,-1,2}}); block_adapter_case("all_incomplete6",{{2,0,0,-1,0,0},{0,3,0,0,0,0},{0,-1,2,0,0,-1},{0,0,0,3,0,0},{0,0,-1,0,2,0},{0,0,0,0,0,3}});
    deep_run_case<sv::lgmres<BE>>("lgmres/M1K1",[](auto &p){ p.M=1; p.K=1; },1); deep_run_case<sv::lgmres<BE>>("lgmres/M2K2-noreset-x8",[](auto &p){ p.M=2; p.K=2; p.always_reset=false; p.maxiter=3; },8);
    deep_run_case<sv::gmres<BE>>("gmres/M1",[](auto &p){ p.M=1; },2); deep_run_case<sv::gmres<BE>>("gmres/M3",[](auto &p){ p.M=3; },2); deep_run_case<sv::fgmres<BE>>("fgmres/M2",[](auto &p){ p.M=2; },2);
    deep_run_case<sv::idrs<BE>>("idrs/s1",[](auto &p){ p.s=1; },2); deep_run_case<sv::idrs<BE>>("idrs/s3",[](auto &p){ p.s=3; },2); deep_run_case<sv::bicgstabl<BE>>("bicgstabl/L1",[](auto &p){ p.L=1; },2); deep_run_case<sv::bicgstabl<BE>>("bicgstabl/L3",[](auto &p){ p.L=3; },2);
    deep_run_case<sv::cg<BE>>("cg",[](auto &){},2); deep_run_case<sv::bicgstab<BE>>("bicgstab",[](auto &){},2); deep_run_case<sv::richardson<BE>>("richardson",[](auto &){},2);
    return hx::finish();
}
