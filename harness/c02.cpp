// C02: the AMG cycle is a fixed linear, symmetric positive definite, contracting operator (L-mode: concrete matrices, symbolic vectors).
#include "hx_amgcl.hpp"
#include <amgcl/amg.hpp>
#include <amgcl/coarsening/aggregation.hpp>
#include <amgcl/coarsening/smoothed_aggregation.hpp>
#include <amgcl/coarsening/smoothed_aggr_emin.hpp>
#include <amgcl/coarsening/ruge_stuben.hpp>
#include <amgcl/relaxation/spai0.hpp>
#include <amgcl/relaxation/damped_jacobi.hpp>
#include <amgcl/relaxation/gauss_seidel.hpp>
#include <amgcl/relaxation/ilu0.hpp>
#include <amgcl/relaxation/iluk.hpp>
#include <amgcl/relaxation/ilup.hpp>
#include <amgcl/relaxation/chebyshev.hpp>
#include <amgcl/relaxation/spai1.hpp>
#include <amgcl/relaxation/ilut.hpp>
using hx::scalar; using hx::var; using hx::Pattern; using hx::SCrs;
namespace be = amgcl::backend; namespace co = amgcl::coarsening; namespace rx = amgcl::relaxation;
typedef be::builtin<scalar> BE; typedef be::numa_vector<scalar> NV;
#ifdef HX_SYM
namespace amgcl { namespace backend { template<> struct coarsening_is_supported< builtin<symx::sym>, coarsening::ruge_stuben > : std::true_type {}; } }
#endif
#define POLICY(N,NS,CL) struct N { template<class B> using type=NS::CL<B>; static const char *name() { return #CL; } };
POLICY(AG,co,aggregation) POLICY(SA,co,smoothed_aggregation) POLICY(EM,co,smoothed_aggr_emin) POLICY(RS,co,ruge_stuben)
POLICY(SP,rx,spai0) POLICY(DJ,rx,damped_jacobi) POLICY(GS,rx,gauss_seidel) POLICY(I0,rx,ilu0) POLICY(IK,rx,iluk) POLICY(IP,rx,ilup) POLICY(CH,rx,chebyshev) POLICY(S1,rx,spai1) POLICY(IT,rx,ilut)
// Chebyshev smoother with the non-default option scale=true (the recurrence then runs on D^-1 A)
template<class B> struct chebyshev_scaled : rx::chebyshev<B> { struct params : rx::chebyshev<B>::params { params() { this->scale=true; } };
    template<class Mx> chebyshev_scaled(const Mx &A, const params &p, const typename B::params &bp) : rx::chebyshev<B>(A,p,bp) {} };
struct CHS { template<class B> using type=chebyshev_scaled<B>; static const char *name() { return "chebyshev_scaled"; } };
struct Cyc { unsigned ncycle=1, npre=1, npost=1, pre_cycles=1, coarse_enough=2, max_levels=1000; bool direct_coarse=true; std::string tag() const { return "c"+std::to_string(ncycle)+"p"+std::to_string(npre)+std::to_string(npost)+"x"+std::to_string(pre_cycles)+"ce"+std::to_string(coarse_enough)+(direct_coarse?"d":"s")+(max_levels<100?"ml"+std::to_string(max_levels):""); } };
template<class AMG> static std::vector<scalar> apply_vec(const AMG &amg, const std::vector<scalar> &f) { NV F=hx::to_numa(f), X(f.size(),false); for (size_t i=0;i<f.size();++i) X[i]=hx::junk("x"+std::to_string(i)); amg.apply(F,X); return hx::to_vec(X); }
template<class AMG> static void setp(typename AMG::params &p, const Cyc &c) { p.ncycle=c.ncycle; p.npre=c.npre; p.npost=c.npost; p.pre_cycles=c.pre_cycles; p.coarse_enough=c.coarse_enough; p.direct_coarse=c.direct_coarse; if (c.max_levels<100) p.max_levels=c.max_levels; }

// exact matrix of the operator: B[i][j] = coefficient of f_j in (B f)_i
#ifdef HX_SYM
static bool extract(const std::vector<scalar> &y, int n, std::vector<std::vector<mpq_class>> &B) { B.assign(n,std::vector<mpq_class>(n)); for (int i=0;i<n;++i) { std::map<std::string,mpq_class> cf; mpq_class c0; if (!symx::linear_form(y[i],cf,c0) || c0!=0) return false; for (auto &kv : cf) { if (kv.first[0]!='f') return false; B[i][atoi(kv.first.c_str()+1)]=kv.second; } } return true; }
#endif

template<class C, class R> static void op_case(const Pattern &p, hx::Rng &rng, const Cyc &cyc, bool symmetric_smoother, bool spd_checks) {
    hx::run_case(std::string("op/")+C::name()+"+"+R::name()+"/"+p.name+"/"+cyc.tag(), [&]() {
        hx::Rng r2(rng.s); SCrs A=hx::mmatrix(p,r2); int n=p.n; typedef amgcl::amg<BE,C::template type,R::template type> AMG; typename AMG::params prm; setp<AMG>(prm,cyc);
        AMG amg(std::tie(n,A.ptr,A.col,A.val),prm);
        std::vector<scalar> f=hx::sym_vector("f",n), g=hx::sym_vector("g",n,-0.5), fg(n); scalar a=scalar(3)/scalar(7), b=scalar(-5)/scalar(3); for (int i=0;i<n;++i) fg[i]=a*f[i]+b*g[i];
        std::vector<scalar> Bf=apply_vec(amg,f);
        { bool ok=true; for (auto &v : Bf) ok=ok&&hx::independent_of(v,"junk_"); hx::require("apply() does not depend on the old content of the output vector", ok); }
        std::vector<scalar> Bg=apply_vec(amg,g), Bfg=apply_vec(amg,fg), lin(n); for (int i=0;i<n;++i) lin[i]=a*Bf[i]+b*Bg[i];
        hx::prove_eq_vec("B(a f + b g) = a B f + b B g", Bfg, lin);
        // independence of earlier applications: same operations as the first call, and no g-variable in the result
        std::vector<scalar> Bf2=apply_vec(amg,f); bool same=true, clean=true; for (int i=0;i<n;++i) { same=same&&hx::same_handle(Bf2[i],Bf[i]); clean=clean&&hx::independent_of(Bf2[i],"g"); }
        hx::require("apply(f) after other applications performs the same operations as the first apply(f) (bitwise equal)", same); hx::require("apply(f) is independent of earlier right-hand sides", clean);
        { AMG fresh(std::tie(n,A.ptr,A.col,A.val),prm); std::vector<scalar> y=apply_vec(fresh,f); bool s2=true; for (int i=0;i<n;++i) s2=s2&&hx::same_handle(y[i],Bf[i]); hx::require("a second hierarchy built from the same input gives bitwise the same action", s2); }
        // scaling: amg(2^p A) = 2^-p B   (thresholds are scale free)
        if (!std::is_same<R,IT>::value) { SCrs A4=A; for (auto &v : A4.val) v=v*scalar(4); AMG amg4(std::tie(n,A4.ptr,A4.col,A4.val),prm); std::vector<scalar> y=apply_vec(amg4,f), ref; for (auto &v : Bf) ref.push_back(v/scalar(4)); hx::prove_eq_vec("amg(4 A) acts as B/4", y, ref); }
#ifdef HX_SYM
        if (!hx::concrete() && spd_checks) { std::vector<std::vector<mpq_class>> B; bool lin_ok=extract(Bf,n,B); hx::require("B f is a linear form in f with constant coefficients", lin_ok); if (!lin_ok) return;
            if (symmetric_smoother) {
                std::vector<hx::F> symm; for (int i=0;i<n;++i) for (int j=i+1;j<n;++j) symm.push_back(hx::eq(scalar::q(B[i][j]),scalar::q(B[j][i]))); hx::prove_all("B is symmetric", symm);
                // positive definiteness and contraction as quadratic-form queries over a free vector v (normalised: some |v_k| = 1 by homogeneity)
                std::vector<scalar> v; for (int i=0;i<n;++i) v.push_back(var("v"+std::to_string(i),i==0?1.0:0.0));
                auto mul=[&](const std::vector<std::vector<mpq_class>> &M, const std::vector<scalar> &x) { std::vector<scalar> y(n,scalar(0)); for (int i=0;i<n;++i) { scalar s=0; for (int j=0;j<n;++j) if (M[i][j]!=0) s+=scalar::q(M[i][j])*x[j]; y[i]=s; } return y; };
                std::vector<scalar> Bv=mul(B,v); scalar vBv=0; for (int i=0;i<n;++i) vBv+=v[i]*Bv[i];
                std::vector<scalar> ABv=hx::dense_mv(A,Bv), BABv=mul(B,ABv); scalar q2=0; for (int i=0;i<n;++i) q2+=v[i]*(2*Bv[i]-BABv[i]);
                std::vector<hx::F> nz; for (int i=0;i<n;++i) nz.push_back(hx::ne(v[i],scalar(0)));
                hx::prove("B is positive definite: v != 0 => v'Bv > 0", hx::implies(hx::any_of(nz), hx::lt(scalar(0),vBv)));
                hx::prove("contraction: v != 0 => v'(2B - BAB)v > 0  (spectral radius of I - BA below one)", hx::implies(hx::any_of(nz), hx::lt(scalar(0),q2)));
            } }
#endif
        // concrete (replay / validation) runs: B column by column from unit vectors, symmetry by comparison
        if (hx::concrete() && spd_checks && symmetric_smoother) { std::vector<std::vector<scalar>> Bc(n,std::vector<scalar>(n)); for (int j=0;j<n;++j) { std::vector<scalar> e(n,scalar(0)); e[j]=scalar(1); std::vector<scalar> col=apply_vec(amg,e); for (int i=0;i<n;++i) Bc[i][j]=col[i]; }
            std::vector<hx::F> symm; for (int i=0;i<n;++i) for (int j=i+1;j<n;++j) symm.push_back(hx::eq(Bc[i][j],Bc[j][i])); hx::prove_all("B is symmetric", symm);
            std::vector<scalar> v; for (int i=0;i<n;++i) v.push_back(var("v"+std::to_string(i),i==0?1.0:0.0)); auto mulc=[&](const std::vector<scalar> &x) { std::vector<scalar> y(n,scalar(0)); for (int i=0;i<n;++i) { scalar t=0; for (int j=0;j<n;++j) t+=Bc[i][j]*x[j]; y[i]=t; } return y; };
            std::vector<scalar> Bv=mulc(v); scalar vBv=0; for (int i=0;i<n;++i) vBv+=v[i]*Bv[i]; std::vector<scalar> ABv=hx::dense_mv(A,Bv), BABv=mulc(ABv); scalar q2=0; for (int i=0;i<n;++i) q2+=v[i]*(2*Bv[i]-BABv[i]); std::vector<hx::F> nz; for (int i=0;i<n;++i) nz.push_back(hx::ne(v[i],scalar(0)));
            hx::prove("B is positive definite: v != 0 => v'Bv > 0", hx::implies(hx::any_of(nz), hx::lt(scalar(0),vBv))); hx::prove("contraction: v != 0 => v'(2B - BAB)v > 0  (spectral radius of I - BA below one)", hx::implies(hx::any_of(nz), hx::lt(scalar(0),q2))); }
    });
}

// block value type (static_matrix<scalar,2,2>): the scalar SPD M-matrix in natural ordering is viewed through adapter::block_matrix, so
// its off-diagonal BLOCKS are not symmetric by themselves; the cycle must still be one fixed linear SYMMETRIC operator on the scalar vector
#include <amgcl/adapter/block_matrix.hpp>
#include <amgcl/value_type/static_matrix.hpp>
template<class C, class R> static void block_op_case(const Pattern &p, hx::Rng &rng, const Cyc &cyc, bool symmetric_smoother) {
    hx::run_case(std::string("blockop/")+C::name()+"+"+R::name()+"/"+p.name+"/"+cyc.tag(), [&]() {
        typedef amgcl::static_matrix<scalar,2,2> Blk; typedef amgcl::static_matrix<scalar,2,1> BV; typedef be::builtin<Blk> BB; typedef be::numa_vector<BV> BNV;
        hx::Rng r2(rng.s); SCrs A=hx::mmatrix(p,r2); int n=p.n, nb=n/2; auto Am=hx::to_amgcl(A); typedef amgcl::amg<BB,C::template type,R::template type> AMG; typename AMG::params prm; setp<AMG>(prm,cyc);
        AMG amg(amgcl::adapter::block_matrix<Blk>(*Am),prm);
        auto app=[&](const AMG &a, const std::vector<scalar> &f) { BNV F(nb,false), X(nb,false); for (int I=0;I<nb;++I) { BV v, j; for (int r=0;r<2;++r) { v(r)=f[2*I+r]; j(r)=hx::junk("x"+std::to_string(2*I+r)); } F[I]=v; X[I]=j; } a.apply(F,X); std::vector<scalar> y; for (int I=0;I<nb;++I) for (int r=0;r<2;++r) y.push_back(X[I](r)); return y; };
        std::vector<scalar> f=hx::sym_vector("f",n), g=hx::sym_vector("g",n,-0.5), fg(n); scalar a=scalar(3)/scalar(7), b=scalar(-5)/scalar(3); for (int i=0;i<n;++i) fg[i]=a*f[i]+b*g[i];
        std::vector<scalar> Bf=app(amg,f);
        { bool ok=true; for (auto &v : Bf) ok=ok&&hx::independent_of(v,"junk_"); hx::require("block values: apply() does not depend on the old content of the output vector", ok); }
        std::vector<scalar> Bg=app(amg,g), Bfg=app(amg,fg), lin(n); for (int i=0;i<n;++i) lin[i]=a*Bf[i]+b*Bg[i];
        hx::prove_eq_vec("block values: B(a f + b g) = a B f + b B g", Bfg, lin);
        std::vector<scalar> Bf2=app(amg,f); bool same=true; for (int i=0;i<n;++i) same=same&&hx::same_handle(Bf2[i],Bf[i]); hx::require("block values: apply(f) after other applications performs the same operations (bitwise equal)", same);
#ifdef HX_SYM
        if (!hx::concrete()) { std::vector<std::vector<mpq_class>> B; bool lin_ok=extract(Bf,n,B); hx::require("block values: B f is a linear form in f with constant coefficients", lin_ok); if (!lin_ok) return;
            if (symmetric_smoother) { std::vector<hx::F> symm; for (int i=0;i<n;++i) for (int j=i+1;j<n;++j) symm.push_back(hx::eq(scalar::q(B[i][j]),scalar::q(B[j][i]))); hx::prove_all("block values: B is symmetric", symm);
                std::vector<scalar> v; for (int i=0;i<n;++i) v.push_back(var("v"+std::to_string(i),i==0?1.0:0.0));
                auto mul=[&](const std::vector<std::vector<mpq_class>> &M, const std::vector<scalar> &x) { std::vector<scalar> y(n,scalar(0)); for (int i=0;i<n;++i) { scalar s=0; for (int j=0;j<n;++j) if (M[i][j]!=0) s+=scalar::q(M[i][j])*x[j]; y[i]=s; } return y; };
                std::vector<scalar> Bv=mul(B,v); scalar vBv=0; for (int i=0;i<n;++i) vBv+=v[i]*Bv[i]; std::vector<hx::F> nz; for (int i=0;i<n;++i) nz.push_back(hx::ne(v[i],scalar(0)));
                hx::prove("block values: B is positive definite: v != 0 => v'Bv > 0", hx::implies(hx::any_of(nz), hx::lt(scalar(0),vBv)));
                std::vector<scalar> ABv=hx::dense_mv(A,Bv), BABv=mul(B,ABv); scalar q2=0; for (int i=0;i<n;++i) q2+=v[i]*(2*Bv[i]-BABv[i]);
                hx::prove("block values: contraction: v != 0 => v'(2B - BAB)v > 0  (spectral radius of I - BA below one)", hx::implies(hx::any_of(nz), hx::lt(scalar(0),q2))); } }
#endif
        if (hx::concrete() && symmetric_smoother) { std::vector<std::vector<scalar>> Bc(n,std::vector<scalar>(n)); for (int j=0;j<n;++j) { std::vector<scalar> e(n,scalar(0)); e[j]=scalar(1); std::vector<scalar> col=app(amg,e); for (int i=0;i<n;++i) Bc[i][j]=col[i]; }
            std::vector<hx::F> symm; for (int i=0;i<n;++i) for (int j=i+1;j<n;++j) symm.push_back(hx::eq(Bc[i][j],Bc[j][i])); hx::prove_all("block values: B is symmetric", symm); }
    });
}

int main(int argc, char **argv) {
    hx::parse_args(argc,argv); bool T=hx::thorough(); hx::Rng rng(hx::args().seed);
    hx::encodes("amg<builtin<scalar>,C,R>::apply / cycle for C in {aggregation, smoothed_aggregation, smoothed_aggr_emin, ruge_stuben}, R in {spai0, damped_jacobi, gauss_seidel, ilu0, iluk, ilup, chebyshev, ilut}");
    hx::assume_note("L-mode: concrete dyadic SPD M-matrices from the seeded generators; right-hand sides symbolic. B is extracted exactly (rational coefficients of the linear forms computed by the real code)");
    hx::assume_note("SPD / contraction are decided by z3 as quadratic-form queries over a free vector (QF_NRA) on the exactly extracted B; for SPD A and symmetric B, v'(2B-BAB)v>0 for all v!=0 is equivalent to rho(I-BA)<1 in the A-norm");
    std::vector<Pattern> pats{hx::grid_pattern(3,2),hx::band_pattern(7,1),hx::grid_pattern(3,3)}; if (T) { pats.push_back(hx::grid_pattern(4,3)); pats.push_back(hx::random_sym_pattern(9,rng,5)); pats.push_back(hx::grid_pattern(4,4)); }
    std::vector<Cyc> cycs; { Cyc c; cycs.push_back(c); c.ncycle=2; cycs.push_back(c); c=Cyc(); c.npre=2; c.npost=1; cycs.push_back(c); c=Cyc(); c.npre=1; c.npost=3; cycs.push_back(c); c=Cyc(); c.pre_cycles=2; cycs.push_back(c); c=Cyc(); c.direct_coarse=false; cycs.push_back(c); c=Cyc(); c.max_levels=2; c.coarse_enough=1; cycs.push_back(c); c=Cyc(); c.coarse_enough=4; c.ncycle=2; c.npre=2; c.npost=2; cycs.push_back(c); }
    for (auto &p : pats) for (size_t ci=0; ci<cycs.size(); ++ci) { const Cyc &c=cycs[ci]; bool symcyc = c.npre==c.npost; bool small=p.n<=9;
        op_case<SA,SP>(p,rng,c,symcyc,small); op_case<AG,DJ>(p,rng,c,symcyc,small); op_case<SA,GS>(p,rng,c,symcyc,small);
        if (ci<2 || T) { op_case<RS,SP>(p,rng,c,symcyc,small); op_case<EM,DJ>(p,rng,c,false,false); op_case<SA,I0>(p,rng,c,symcyc,small); op_case<AG,IK>(p,rng,c,symcyc,small); op_case<SA,IP>(p,rng,c,symcyc,small); op_case<SA,CH>(p,rng,c,symcyc,small && p.n<=6); op_case<AG,CHS>(p,rng,c,symcyc,small && p.n<=6); op_case<SA,IT>(p,rng,c,false,false); } }
    { std::vector<Pattern> bp{hx::grid_pattern(3,2),hx::band_pattern(8,1)}; if (T) { bp.push_back(hx::grid_pattern(4,3)); bp.push_back(hx::grid_pattern(4,2)); }
      for (auto &p : bp) for (size_t ci=0; ci<(T?cycs.size():2); ++ci) { const Cyc &c=cycs[ci]; bool symcyc=c.npre==c.npost; block_op_case<SA,SP>(p,rng,c,symcyc); block_op_case<AG,DJ>(p,rng,c,symcyc); block_op_case<AG,GS>(p,rng,c,symcyc); if (T || ci==0) block_op_case<SA,I0>(p,rng,c,symcyc); }
      for (auto &p : bp) { Cyc c; c.coarse_enough=3; block_op_case<SA,SP>(p,rng,c,true); c.coarse_enough=8; block_op_case<AG,DJ>(p,rng,c,true); }   /* direct coarse solves with 3 and more BLOCK rows (non-commuting pivot blocks in the skyline LU) */ }
    return hx::finish();
}
