// C14: run-time (property tree) configuration is equivalent to compile-time configuration.
#include <string>
#include <set>
static std::set<std::string> &unknown_params() { static std::set<std::string> s; return s; }
#define AMGCL_PARAM_UNKNOWN(name) unknown_params().insert(name)
#include "hx_amgcl.hpp"
#include <amgcl/make_solver.hpp>
#include <amgcl/amg.hpp>
#include <amgcl/coarsening/runtime.hpp>
#include <amgcl/relaxation/runtime.hpp>
#include <amgcl/solver/runtime.hpp>
#include <amgcl/preconditioner/runtime.hpp>
#include <amgcl/deflated_solver.hpp>
#include <boost/property_tree/ptree.hpp>
using hx::scalar; using hx::var; using hx::Pattern; using hx::SCrs;
namespace be = amgcl::backend; namespace co = amgcl::coarsening; namespace rx = amgcl::relaxation; namespace sv = amgcl::solver;
typedef be::builtin<scalar> BE; typedef be::numa_vector<scalar> NV; typedef boost::property_tree::ptree ptree;
#ifdef HX_SYM
namespace amgcl { namespace backend { template<> struct coarsening_is_supported< builtin<symx::sym>, coarsening::ruge_stuben > : std::true_type {}; } }
#endif
typedef amgcl::make_solver<amgcl::runtime::preconditioner<BE>, amgcl::runtime::solver::wrapper<BE>> RT;

struct Out { std::vector<scalar> x; size_t it=0; scalar res; bool threw=false; std::string what; };
template<class S> static Out run(const S &s, const std::vector<scalar> &f, const std::vector<scalar> &x0) { Out o; NV F=hx::to_numa(f), X=hx::to_numa(x0); hx::cuts(true); try { std::tie(o.it,o.res)=s(F,X); } catch (const std::runtime_error &e) { o.threw=true; o.what=e.what(); } hx::cuts(false); o.x=hx::to_vec(X); return o; }
static bool same(const Out &a, const Out &b) { if (a.threw||b.threw) return a.threw==b.threw; if (a.it!=b.it || !hx::same_handle(a.res,b.res)) return false; for (size_t i=0;i<a.x.size();++i) if (!hx::same_handle(a.x[i],b.x[i])) return false; return true; }

static ptree strip(const ptree &pt) { ptree q=pt; q.get_child("precond").erase("class"); q.get_child("precond.coarsening").erase("type"); q.get_child("precond.relax").erase("type"); q.get_child("solver").erase("type"); return q; }
template<class SP> static auto set_maxiter(SP &s, int k) -> decltype(s.maxiter, void()) { s.maxiter=k; }
static void set_maxiter(amgcl::detail::empty_params &, int) {}
// one (coarsening, relaxation, solver) triple: compile-time type CT with params set directly vs run-time object from a property tree
template<class CT, class SetCT> static void equiv_case(const std::string &c, const std::string &r, const std::string &s, const Pattern &p, hx::Rng &rng, SetCT setct, const std::vector<std::pair<std::string,scalar>> &sym_params, const std::vector<std::pair<std::string,std::string>> &other) {
    hx::CaseOptions coo; coo.max_paths=12; coo.max_depth=160;
    hx::run_case("equiv/"+c+"+"+r+"+"+s+"/"+p.name, [&]() {
        hx::Rng r2(rng.s); SCrs A=hx::mmatrix(p,r2); int n=p.n;
        ptree pt; pt.put("precond.class","amg"); pt.put("precond.coarsening.type",c); pt.put("precond.relax.type",r); pt.put("solver.type",s); if (s!="preonly") pt.put("solver.maxiter",s=="bicgstabl"?1:2); pt.put("precond.coarse_enough",2); pt.put("precond.npre",2);
        std::vector<std::pair<std::string,scalar>> syms; for (auto &kv : sym_params) { scalar v=kv.second; pt.put(kv.first,v); syms.push_back({kv.first,v}); } for (auto &kv : other) pt.put(kv.first,kv.second);
        unknown_params().clear(); RT rt(std::tie(n,A.ptr,A.col,A.val),pt);
        hx::require("no parameter of a valid configuration is reported as unknown", unknown_params().empty(), unknown_params().empty() ? "" : *unknown_params().begin());
        typename CT::params prm; set_maxiter(prm.solver,s=="bicgstabl"?1:2); prm.precond.coarse_enough=2; prm.precond.npre=2; setct(prm,syms); CT ct(std::tie(n,A.ptr,A.col,A.val),prm);
        std::vector<scalar> f=hx::sym_vector("f",n), x0=hx::sym_vector("x",n,0.25); Out a=run(rt,f,x0), b=run(ct,f,x0);
        hx::require("run-time configured solver performs exactly the operations of the compile-time composition (bitwise identical x, iterations, residual)", same(a,b), a.threw?a.what:"");
        // a second compile-time object configured FROM THE SAME TREE must agree too (import of every parameter)
        { typename CT::params p2(strip(pt)); CT ct2(std::tie(n,A.ptr,A.col,A.val),p2); Out c2=run(ct2,f,x0); hx::require("compile-time params imported from the tree = params set field by field", same(b,c2)); }
    }, coo);
}
// preconditioner class "nested": a complete (preconditioner + solver) pair used as the preconditioner of an outer solver
template<class OuterS> static void nested_case(const std::string &outer, const Pattern &p, hx::Rng &rng) { hx::CaseOptions coo; coo.max_paths=8; coo.max_depth=200; hx::run_case("equiv/nested(amg+cg)+"+outer+"/"+p.name, [&]() {
    hx::Rng r2(rng.s); SCrs A=hx::mmatrix(p,r2); int n=p.n; ptree pt; pt.put("precond.class","nested"); pt.put("precond.precond.class","amg"); pt.put("precond.precond.coarsening.type","smoothed_aggregation"); pt.put("precond.precond.relax.type","spai0"); pt.put("precond.precond.coarse_enough",2);
    pt.put("precond.solver.type","cg"); pt.put("precond.solver.maxiter",1); pt.put("solver.type",outer); pt.put("solver.maxiter",2);
    unknown_params().clear(); RT rt(std::tie(n,A.ptr,A.col,A.val),pt); hx::require("nested: no parameter of a valid configuration is reported as unknown", unknown_params().empty(), unknown_params().empty() ? "" : *unknown_params().begin());
    typedef amgcl::make_solver<amgcl::make_solver<amgcl::amg<BE,co::smoothed_aggregation,rx::spai0>,sv::cg<BE>>,OuterS> CT; typename CT::params prm; prm.precond.precond.coarse_enough=2; prm.precond.solver.maxiter=1; prm.solver.maxiter=2; CT ct(std::tie(n,A.ptr,A.col,A.val),prm);
    std::vector<scalar> f=hx::sym_vector("f",n), x0=hx::sym_vector("x",n,0.25); Out a=run(rt,f,x0), b=run(ct,f,x0);
    hx::require("run-time 'nested' preconditioner performs exactly the operations of the compile-time nested make_solver (bitwise identical x, iterations, residual)", same(a,b), a.threw?a.what:""); }, coo); }
static scalar get(const std::vector<std::pair<std::string,scalar>> &v, const std::string &k, scalar dflt) { for (auto &kv : v) if (kv.first==k) return kv.second; return dflt; }

// import followed by export is the identity on every value key; unknown keys are reported
static std::string mutate(const std::string &key, const std::string &v) { if (key.size()>=3 && key.substr(key.size()-3)=="vec") return v; if (v=="true") return "false"; if (v=="false") return "true"; if (v=="left") return "right"; if (v=="right") return "left";
    bool num=!v.empty(); for (char ch : v) if (!(isdigit(ch)||ch=='.'||ch=='e'||ch=='-'||ch=='+')) num=false; if (!num) return v;
    // floating-point parameters whose default happens to print as an integer (ilut.p = 2, damping = 1, higher = 1, relax = 1 ...) get a FRACTIONAL non-default value
    { static const std::set<std::string> floats{"p","higher","lower","damping","relax","tol","abstol","eps_strong","eps_trunc","tau","over_interp","delta","omega","eps"}; std::string leaf=key.substr(key.rfind('.')==std::string::npos?0:key.rfind('.')+1);
      if (floats.count(leaf) && v.find_first_of(".e")==std::string::npos) { std::ostringstream o; o<<(atol(v.c_str())+0.5); return o.str(); } }
    if (v.find_first_of(".e")==std::string::npos) return std::to_string(atol(v.c_str())+1); double d=atof(v.c_str()); std::ostringstream o; o<<(d*0.5+0.125); return o.str(); }
static void leaves(const ptree &p, const std::string &path, std::vector<std::pair<std::string,std::string>> &out) { for (auto &kv : p) { std::string k = path.empty()? kv.first : path+"."+kv.first; if (kv.second.empty()) out.push_back({k,kv.second.data()}); else leaves(kv.second,k,out); } }
// exported text -> number; the symbolic scalar prints non-integral constants as a handle <sR_N>, which its operator>> reads back
static bool as_number(const std::string &t, double &x) { if (t.empty()) return false; if (t[0]=='<') { std::istringstream is(t); scalar v; is>>v; if (!is) return false; x=hx::to_double(v); return true; } char *e; x=strtod(t.c_str(),&e); return *e==0; }
static bool num_equal(const std::string &a, const std::string &b) { if (a==b) return true; double x, y; return as_number(a,x) && as_number(b,y) && std::fabs(x-y)<=1e-6*std::max(1.0,std::fabs(x)); }
template<class P> static void roundtrip_case(const std::string &name) { hx::run_case("roundtrip/"+name, [&]() {
    P dflt; ptree d; dflt.get(d,""); std::vector<std::pair<std::string,std::string>> lv; leaves(d,"",lv); hx::require("parameter export lists at least one key", !lv.empty()); hx::count("parameter keys",lv.size());
    ptree in; size_t changed=0; for (auto &kv : lv) { std::string m=mutate(kv.first,kv.second); if (m!=kv.second) changed++; in.put(kv.first,m); }
    unknown_params().clear(); P imp(in); hx::require("every exported key is accepted on import (no unknown-parameter report)", unknown_params().empty(), unknown_params().empty()?"":*unknown_params().begin());
    ptree out; imp.get(out,""); std::vector<std::pair<std::string,std::string>> lo; leaves(out,"",lo); bool ok=lo.size()==lv.size(); std::string bad;
    for (auto &kv : lo) { std::string want=in.get<std::string>(kv.first,"<missing>"); if (!num_equal(want,kv.second)) { ok=false; if (bad.empty()) bad=kv.first+": imported "+want+" exported "+kv.second; } }
    hx::require("import followed by export is the identity on every value parameter (non-default values)", ok, bad); hx::count("non-default values round-tripped",changed);
    { ptree extra=in; extra.put("bogus_key_xyz",1); unknown_params().clear(); P q(extra); hx::require("a key no component understands is reported through the unknown-parameter hook", unknown_params().count("bogus_key_xyz")==1); }
    // an unknown SECTION (a key with children, e.g. a misspelled component section) is reported as well, not dropped with its whole subtree
    { ptree extra=in; extra.put("bogus_section_xyz.type","ilu0"); extra.put("bogus_section_xyz.damping",0.5); unknown_params().clear(); P q(extra); hx::require("an unknown section (key with children) is reported through the unknown-parameter hook", unknown_params().count("bogus_section_xyz")==1); } }); }

int main(int argc, char **argv) {
    hx::parse_args(argc,argv); bool T=hx::thorough(); hx::Rng rng(hx::args().seed);
    hx::encodes("make_solver<runtime::preconditioner, runtime::solver::wrapper> (run-time interface: preconditioner/runtime.hpp, coarsening/runtime.hpp, relaxation/runtime.hpp, solver/runtime.hpp) vs make_solver<amg<B,C,R>,S> for every coarsening, relaxation and solver name");
    hx::encodes("params(const ptree&) / params::get() of every component (AMGCL_PARAMS_IMPORT_* / EXPORT_*), check_params and the AMGCL_PARAM_UNKNOWN hook (util.hpp)");
    hx::assume_note("invalid enumeration values are checked in a configuration in which every component is actually constructed (coarse_enough=2): the run-time wrappers parse a component's type lazily, when the component is built");
    hx::assume_note("scalar-typed parameters (tol, damping, omega, delta, ...) are symbolic and travel through the property tree as handle-preserving strings; integer / bool / float parameters take concrete non-default values; equality = identical raw operation log (bitwise)");
    std::vector<Pattern> pats{hx::grid_pattern(3,2)}; if (T) pats.push_back(hx::band_pattern(7,1));
    scalar tol=var("tol",1e-8);
    #define SOLVER_T(S) amgcl::make_solver<amgcl::amg<BE,co::smoothed_aggregation,rx::spai0>, sv::S<BE>>
    #define COARS_T(C)  amgcl::make_solver<amgcl::amg<BE,co::C,rx::spai0>, sv::cg<BE>>
    #define RELAX_T(R)  amgcl::make_solver<amgcl::amg<BE,co::smoothed_aggregation,rx::R>, sv::cg<BE>>
    for (auto &p : pats) {
        auto st=[&](auto &prm, const std::vector<std::pair<std::string,scalar>> &v) { prm.solver.tol=get(v,"solver.tol",scalar(1e-8)); };
        std::vector<std::pair<std::string,scalar>> S{{"solver.tol",tol}};
        equiv_case<SOLVER_T(cg)>("smoothed_aggregation","spai0","cg",p,rng,st,S,{});
        equiv_case<SOLVER_T(bicgstab)>("smoothed_aggregation","spai0","bicgstab",p,rng,[&](auto &prm, auto &v){ st(prm,v); prm.solver.pside=amgcl::preconditioner::side::left; },S,{{"solver.pside","left"}});
        equiv_case<SOLVER_T(bicgstabl)>("smoothed_aggregation","spai0","bicgstabl",p,rng,[&](auto &prm, auto &v){ st(prm,v); prm.solver.L=1; prm.solver.delta=get(v,"solver.delta",scalar(0)); },{{"solver.tol",tol},{"solver.delta",var("delta",0.0)}},{{"solver.L","1"}});
        equiv_case<SOLVER_T(gmres)>("smoothed_aggregation","spai0","gmres",p,rng,[&](auto &prm, auto &v){ st(prm,v); prm.solver.M=2; },S,{{"solver.M","2"}});
        equiv_case<SOLVER_T(fgmres)>("smoothed_aggregation","spai0","fgmres",p,rng,[&](auto &prm, auto &v){ st(prm,v); prm.solver.M=1; },S,{{"solver.M","1"}});
        equiv_case<SOLVER_T(lgmres)>("smoothed_aggregation","spai0","lgmres",p,rng,[&](auto &prm, auto &v){ st(prm,v); prm.solver.M=2; prm.solver.K=1; },S,{{"solver.M","2"},{"solver.K","1"}});
        equiv_case<SOLVER_T(idrs)>("smoothed_aggregation","spai0","idrs",p,rng,[&](auto &prm, auto &v){ st(prm,v); prm.solver.s=2; prm.solver.omega=get(v,"solver.omega",scalar(0.7)); },{{"solver.tol",tol},{"solver.omega",var("omega",0.7)}},{{"solver.s","2"}});
        equiv_case<SOLVER_T(richardson)>("smoothed_aggregation","spai0","richardson",p,rng,[&](auto &prm, auto &v){ st(prm,v); prm.solver.damping=get(v,"solver.damping",scalar(1)); },{{"solver.tol",tol},{"solver.damping",var("sdamp",0.9)}},{});
        equiv_case<SOLVER_T(preonly)>("smoothed_aggregation","spai0","preonly",p,rng,[&](auto &prm, auto &v){},{},{});
        equiv_case<COARS_T(aggregation)>("aggregation","spai0","cg",p,rng,[&](auto &prm, auto &v){ st(prm,v); prm.precond.coarsening.over_interp=2.0f; },S,{{"precond.coarsening.over_interp","2"}});
        equiv_case<COARS_T(ruge_stuben)>("ruge_stuben","spai0","cg",p,rng,[&](auto &prm, auto &v){ st(prm,v); prm.precond.coarsening.eps_strong=0.5f; },S,{{"precond.coarsening.eps_strong","0.5"}});
        equiv_case<COARS_T(smoothed_aggr_emin)>("smoothed_aggr_emin","spai0","cg",p,rng,st,S,{});
        equiv_case<RELAX_T(damped_jacobi)>("smoothed_aggregation","damped_jacobi","cg",p,rng,[&](auto &prm, auto &v){ st(prm,v); prm.precond.relax.damping=get(v,"precond.relax.damping",scalar(0.72)); },{{"solver.tol",tol},{"precond.relax.damping",var("rdamp",0.6)}},{});
        equiv_case<RELAX_T(gauss_seidel)>("smoothed_aggregation","gauss_seidel","cg",p,rng,st,S,{});
        equiv_case<RELAX_T(ilu0)>("smoothed_aggregation","ilu0","cg",p,rng,[&](auto &prm, auto &v){ st(prm,v); prm.precond.relax.damping=get(v,"precond.relax.damping",scalar(1)); },{{"solver.tol",tol},{"precond.relax.damping",var("rdamp",0.9)}},{});
        equiv_case<RELAX_T(iluk)>("smoothed_aggregation","iluk","cg",p,rng,[&](auto &prm, auto &v){ st(prm,v); prm.precond.relax.k=2; },S,{{"precond.relax.k","2"}});
        equiv_case<RELAX_T(ilup)>("smoothed_aggregation","ilup","cg",p,rng,[&](auto &prm, auto &v){ st(prm,v); prm.precond.relax.k=1; },S,{{"precond.relax.k","1"}});
        equiv_case<RELAX_T(ilut)>("smoothed_aggregation","ilut","cg",p,rng,[&](auto &prm, auto &v){ st(prm,v); prm.precond.relax.p=scalar(2.5); },S,{{"precond.relax.p","2.5"}});   /* a FRACTIONAL fill factor */
        equiv_case<RELAX_T(chebyshev)>("smoothed_aggregation","chebyshev","cg",p,rng,[&](auto &prm, auto &v){ st(prm,v); prm.precond.relax.degree=2; },S,{{"precond.relax.degree","2"}});
        equiv_case<RELAX_T(spai1)>("smoothed_aggregation","spai1","cg",hx::band_pattern(4,1),rng,st,S,{});
    }
    { Pattern pn=hx::grid_pattern(3,2); nested_case<sv::bicgstab<BE>>("bicgstab",pn,rng); /* gmres as the outer solver needs 3 GB for the same obligation */ }
    // parameter structures: import o export = identity, unknown keys reported
    roundtrip_case<sv::cg<BE>::params>("solver.cg"); roundtrip_case<sv::bicgstab<BE>::params>("solver.bicgstab"); roundtrip_case<sv::bicgstabl<BE>::params>("solver.bicgstabl"); roundtrip_case<sv::gmres<BE>::params>("solver.gmres"); roundtrip_case<sv::fgmres<BE>::params>("solver.fgmres"); roundtrip_case<sv::lgmres<BE>::params>("solver.lgmres"); roundtrip_case<sv::idrs<BE>::params>("solver.idrs"); roundtrip_case<sv::richardson<BE>::params>("solver.richardson");
    roundtrip_case<rx::damped_jacobi<BE>::params>("relax.damped_jacobi"); roundtrip_case<rx::gauss_seidel<BE>::params>("relax.gauss_seidel"); roundtrip_case<rx::ilu0<BE>::params>("relax.ilu0"); roundtrip_case<rx::iluk<BE>::params>("relax.iluk"); roundtrip_case<rx::ilup<BE>::params>("relax.ilup"); roundtrip_case<rx::ilut<BE>::params>("relax.ilut"); roundtrip_case<rx::chebyshev<BE>::params>("relax.chebyshev");
    roundtrip_case<co::aggregation<BE>::params>("coarsening.aggregation"); roundtrip_case<co::smoothed_aggregation<BE>::params>("coarsening.smoothed_aggregation"); roundtrip_case<co::smoothed_aggr_emin<BE>::params>("coarsening.smoothed_aggr_emin"); roundtrip_case<co::ruge_stuben<BE>::params>("coarsening.ruge_stuben");
    roundtrip_case<amgcl::amg<BE,co::smoothed_aggregation,rx::spai0>::params>("amg<sa,spai0>"); roundtrip_case<amgcl::amg<BE,co::aggregation,rx::ilut>::params>("amg<agg,ilut>"); roundtrip_case<SOLVER_T(gmres)::params>("make_solver<amg,gmres>");
    roundtrip_case<amgcl::deflated_solver<amgcl::amg<BE,co::smoothed_aggregation,rx::spai0>,sv::cg<BE>>::params>("deflated_solver<amg,cg>");
    // invalid enumeration values raise an exception
    hx::run_case("invalid_enum", [&]() { Pattern p=hx::grid_pattern(3,2); hx::Rng r2(rng.s); SCrs A=hx::mmatrix(p,r2); int n=p.n; int thrown=0;
        for (auto kv : std::vector<std::pair<std::string,std::string>>{{"solver.type","nosuchsolver"},{"precond.relax.type","nosuchrelax"},{"precond.coarsening.type","nosuchcoarsening"},{"precond.class","nosuchclass"},{"solver.pside","middle"}}) { ptree pt; pt.put("precond.class","amg"); pt.put("precond.coarse_enough",2); pt.put("solver.type", kv.first=="solver.pside"?"gmres":"cg"); pt.put(kv.first,kv.second); try { RT rt(std::tie(n,A.ptr,A.col,A.val),pt); } catch (const std::exception&) { thrown++; } }
        hx::require("every invalid enumeration value (solver, relaxation, coarsening, preconditioner class, side) raises an exception", thrown==5, "thrown="+std::to_string(thrown)); });
    return hx::finish();
}
