// C17: matrix adapters preserve the operator; input row order does not matter.
#include "hx_amgcl.hpp"
#include <amgcl/adapter/zero_copy.hpp>
#include <amgcl/adapter/crs_builder.hpp>
#include <amgcl/adapter/reorder.hpp>
#include <amgcl/adapter/scaled_problem.hpp>
#include <amgcl/amg.hpp>
#include <amgcl/make_solver.hpp>
#include <amgcl/coarsening/smoothed_aggregation.hpp>
#include <amgcl/coarsening/aggregation.hpp>
#include <amgcl/coarsening/ruge_stuben.hpp>
#include <amgcl/relaxation/spai0.hpp>
#include <amgcl/relaxation/ilu0.hpp>
#include <amgcl/relaxation/gauss_seidel.hpp>
#include <amgcl/relaxation/as_preconditioner.hpp>
#include <amgcl/preconditioner/dummy.hpp>
#include <amgcl/preconditioner/cpr.hpp>
#include <amgcl/preconditioner/cpr_drs.hpp>
#include <amgcl/preconditioner/schur_pressure_correction.hpp>
#include <amgcl/solver/preonly.hpp>
#include <amgcl/solver/skyline_lu.hpp>
using hx::scalar; using hx::var; using hx::Pattern; using hx::SCrs;
namespace be = amgcl::backend; typedef be::builtin<scalar> BE; typedef be::numa_vector<scalar> NV; typedef hx::ACrs<scalar> M; typedef std::vector<scalar> Vec;
#ifdef HX_SYM
namespace amgcl { namespace backend { template<> struct coarsening_is_supported< builtin<symx::sym>, coarsening::ruge_stuben > : std::true_type {}; } }
#endif

template<class Mx> static bool same_as(const Mx &A, const SCrs &S) { if (be::rows(A)!=(size_t)S.n || be::nonzeros(A)!=S.col.size()) return false; for (int i=0;i<S.n;++i) { ptrdiff_t k=S.ptr[i]; for (auto a=be::row_begin(A,i); a; ++a, ++k) { if (k>=S.ptr[i+1] || (ptrdiff_t)a.col()!=S.col[k] || !hx::same_handle(a.value(),S.val[k])) return false; } if (k!=S.ptr[i+1]) return false; } return true; }
template<class I1, class I2> static void tuple_case(const Pattern &p, const std::string &tn) { hx::run_case("tuple/"+tn+"/"+p.name, [&]() { SCrs S=hx::symbolic_matrix(p,"a",false); int n=p.n; std::vector<I1> ptr(S.ptr.begin(),S.ptr.end()); std::vector<I2> col(S.col.begin(),S.col.end()); I1 nn=(I1)n;
    auto t=std::tie(nn,ptr,col,S.val); hx::require("tuple adapter (index types "+tn+"): rows, non-zeros, columns and values as given", same_as(t,S) && be::rows(t)==(size_t)n && be::cols(t)==(size_t)n);
    M A(t); SCrs back=hx::from_amgcl(A); bool ok=back.ptr==S.ptr && back.col==S.col; for (size_t k=0;k<S.val.size()&&ok;++k) ok=hx::same_handle(back.val[k],S.val[k]); hx::require("internal CRS built from the tuple equals the source matrix exactly", ok);
    Vec x=hx::sym_vector("x",n), y(n); NV X=hx::to_numa(x), Y(n,false); for (int i=0;i<n;++i) Y[i]=scalar(0); be::spmv(scalar(1),A,X,scalar(0),Y); hx::prove_eq_vec("matrix-vector product agrees with the source matrix", hx::to_vec(Y), hx::dense_mv(S,x));
    // iterator-range tuple (pointers) as well
    auto t2=std::make_tuple(nn, amgcl::make_iterator_range(ptr.data(),ptr.data()+ptr.size()), amgcl::make_iterator_range(col.data(),col.data()+col.size()), amgcl::make_iterator_range(S.val.data(),S.val.data()+S.val.size())); hx::require("tuple of iterator ranges describes the same matrix", same_as(t2,S)); }); }
static void zero_copy_case(const Pattern &p) { hx::run_case("zero_copy/"+p.name, [&]() { SCrs S=hx::symbolic_matrix(p,"a",false); int n=p.n; std::vector<ptrdiff_t> ptr=S.ptr, col=S.col; std::vector<scalar> val=S.val; std::vector<ptrdiff_t> ptr0=ptr, col0=col; std::vector<scalar> val0=val;
    { auto A=amgcl::adapter::zero_copy(n,ptr.data(),col.data(),val.data()); hx::require("zero_copy: no copy (the matrix aliases the user arrays) and no ownership", (void*)A->ptr==(void*)ptr.data() && (void*)A->col==(void*)col.data() && (void*)A->val==(void*)val.data() && !A->own_data && A->nrows==(size_t)n && A->nnz==S.col.size()); hx::require("zero_copy describes the source matrix", same_as(*A,S)); }
    { std::vector<int> ip(S.ptr.begin(),S.ptr.end()), ic(S.col.begin(),S.col.end()); auto A=amgcl::adapter::zero_copy_direct(n,ip.data(),ic.data(),val.data()); hx::require("zero_copy_direct (int indices): aliases the user arrays, does not own them", (void*)A->ptr==(void*)ip.data() && (void*)A->col==(void*)ic.data() && (void*)A->val==(void*)val.data() && !A->own_data); hx::require("zero_copy_direct describes the source matrix", same_as(*A,S)); }
    // moving / assigning zero-copy matrices: ownership follows the data (a moved-to matrix must not claim the user arrays, a matrix that receives a COPY owns that copy)
    { typedef hx::ACrs<scalar> MX; auto A=amgcl::adapter::zero_copy(n,ptr.data(),col.data(),val.data()); MX B(std::move(*A)); bool own_b=B.own_data; B.own_data=false; /* whatever the flag says, this harness must not let the matrix free the user's vectors */ hx::require("move construction from a zero-copy matrix: still aliases the user arrays and does not own them", (void*)B.ptr==(void*)ptr.data() && (void*)B.val==(void*)val.data() && !own_b && same_as(B,S));
      MX C; C=std::move(B); bool own_c=C.own_data; C.own_data=false; B.own_data = B.ptr ? B.own_data : false; hx::require("move assignment from a zero-copy matrix: aliases the user arrays, does not own them", (void*)C.ptr==(void*)ptr.data() && !own_c && same_as(C,S));
      { MX E(S.n,S.m,S.ptr,S.col,S.val); MX &alias=E; E=alias; hx::require("self-assignment leaves a matrix unchanged (well-formed, same operator)", E.ptr && E.nrows==(size_t)S.n && (S.col.empty() || (E.col && E.val)) && same_as(E,S)); }
      auto Z=amgcl::adapter::zero_copy(n,ptr.data(),col.data(),val.data()); MX D(S.n,S.m,S.ptr,S.col,S.val); *Z=D; hx::require("copy assignment INTO a zero-copy matrix: the matrix owns the copy it allocated and no longer aliases the user arrays", Z->own_data && (void*)Z->ptr!=(void*)ptr.data() && (void*)Z->val!=(void*)val.data() && same_as(*Z,S)); }
    bool intact = ptr==ptr0 && col==col0; for (size_t k=0;k<val.size();++k) intact=intact&&hx::same_handle(val[k],val0[k]); hx::require("user arrays are intact after the zero-copy matrices are destroyed", intact); }); }
struct RowBuilder { const SCrs &S; typedef scalar val_type; typedef ptrdiff_t col_type; size_t rows() const { return S.n; } size_t nonzeros() const { return S.col.size(); } void operator()(size_t i, std::vector<ptrdiff_t> &c, std::vector<scalar> &v) const { c.clear(); v.clear(); for (ptrdiff_t k=S.ptr[i];k<S.ptr[i+1];++k) { c.push_back(S.col[k]); v.push_back(S.val[k]); } } };
static void builder_case(const Pattern &p) { hx::run_case("crs_builder/"+p.name, [&]() { SCrs S=hx::symbolic_matrix(p,"a",false); RowBuilder rb{S}; auto mb=amgcl::adapter::make_matrix(rb); hx::require("row-builder adapter describes the source matrix", same_as(mb,S)); M A(mb); hx::require("internal CRS built from the row builder equals the source", same_as(A,S)); }); }
// reordering adapter: the back-permuted solution of the permuted system solves the original one
static void reorder_case(const Pattern &p) { hx::CaseOptions co; co.max_paths=24; hx::run_case("reorder/"+p.name, [&]() { SCrs S=hx::symbolic_matrix(p,"a"); for (auto &v : S.val) hx::assume(hx::ne(v,scalar(0))); int n=p.n; auto Sm=hx::to_amgcl(S); amgcl::adapter::reorder<> perm(*Sm);
    M R(perm(*Sm)); Vec f=hx::sym_vector("f",n); NV F=hx::to_numa(f), Fp(n,false), Xp(n,false), X(n,false); perm.forward(F,Fp);
    // permutation property and entries:  R(i,j) = S(perm i, perm j)
    std::vector<int> seen(n,0); bool isperm=true; for (int i=0;i<n;++i) { ptrdiff_t q=perm.perm[i]; if (q<0||q>=n) isperm=false; else seen[q]++; } for (int i=0;i<n;++i) isperm=isperm&&seen[i]==1; hx::require("reordering is a permutation of 0..n-1", isperm); if (!isperm) return;
    auto Sd=S.dense(); auto Rd=hx::from_amgcl(R).dense(); Vec g, r; for (int i=0;i<n;++i) for (int j=0;j<n;++j) { g.push_back(Rd[i][j]); r.push_back(Sd[perm.perm[i]][perm.perm[j]]); } hx::prove_eq_vec("reordered matrix = P A P^T", g, r);
    try { amgcl::solver::skyline_lu<scalar> lu(R); lu(Fp,Xp); } catch (const std::runtime_error&) { hx::count("zero pivot paths"); return; } perm.inverse(Xp,X); hx::prove_eq_vec("back-permuted solution of the permuted system solves the original system", hx::dense_mv(S,hx::to_vec(X)), f); },co); }
static void scaled_case(const Pattern &p) { hx::CaseOptions co; co.max_paths=24; hx::run_case("scaled_problem/"+p.name, [&]() { SCrs S=hx::symbolic_matrix(p,"a"); int n=p.n; for (int i=0;i<n;++i) hx::assume(hx::lt(scalar(0),S.at(i,i))); for (auto &v : S.val) hx::assume(hx::ne(v,scalar(0))); auto Sm=hx::to_amgcl(S);
    auto tup=std::tie(n,S.ptr,S.col,S.val); auto scale=amgcl::adapter::scale_diagonal<BE>(tup); M As(scale.matrix(tup)); Vec f=hx::sym_vector("f",n); auto Fs=scale.rhs(f); NV Y(n,false);
    auto Ad=hx::from_amgcl(As).dense(); Vec dg, one; for (int i=0;i<n;++i) { dg.push_back(Ad[i][i]); one.push_back(scalar(1)); } hx::prove_eq_vec("diagonally scaled matrix has unit diagonal", dg, one);
    try { amgcl::solver::skyline_lu<scalar> lu(As); lu(*Fs,Y); } catch (const std::runtime_error&) { hx::count("zero pivot paths"); return; } scale(Y); hx::prove_eq_vec("post-scaled solution of the scaled system solves the original system", hx::dense_mv(S,hx::to_vec(Y)), f); },co); }
// a preconditioner built from a matrix whose row entries are listed in arbitrary order equals the one built from the sorted matrix
static SCrs shuffled(const SCrs &S, hx::Rng &rng, int variant) { SCrs T=S; for (int i=0;i<S.n;++i) { std::vector<ptrdiff_t> idx; for (ptrdiff_t k=S.ptr[i];k<S.ptr[i+1];++k) idx.push_back(k); if (variant==0) std::reverse(idx.begin(),idx.end()); else if (variant==1) std::rotate(idx.begin(),idx.begin()+idx.size()/2,idx.end()); else for (size_t a=idx.size();a>1;--a) std::swap(idx[a-1],idx[rng.below(a)]); for (size_t a=0;a<idx.size();++a) { T.col[S.ptr[i]+a]=S.col[idx[a]]; T.val[S.ptr[i]+a]=S.val[idx[a]]; } } return T; }
template<class P, class SetP> static void order_case(const std::string &nm, const Pattern &p, hx::Rng &rng, SetP setp, bool symbolic) { hx::CaseOptions co; co.max_paths=16; hx::run_case("row_order/"+nm+"/"+p.name, [&]() { hx::Rng r2(rng.s); SCrs S = symbolic ? hx::symbolic_matrix(p,"a") : hx::ddmatrix(p,r2); if (symbolic) for (auto &v : S.val) hx::assume(hx::ne(v,scalar(0))); int n=p.n; typename P::params prm; setp(prm);
    Vec f=hx::sym_vector("f",n); auto act=[&](const SCrs &A, bool &threw) { Vec out; try { P pre(std::tie(n,A.ptr,A.col,A.val),prm); NV F=hx::to_numa(f), X(n,false); for (int i=0;i<n;++i) X[i]=scalar(0); pre.apply(F,X); out=hx::to_vec(X); } catch (const std::runtime_error&) { threw=true; } return out; };
    bool t0=false; Vec ref=act(S,t0); for (int variant=0;variant<3;++variant) { SCrs T=shuffled(S,r2,variant); bool t1=false; Vec got=act(T,t1); hx::require(nm+": same outcome (result or exception) for the shuffled matrix", t0==t1); if (t0||t1) continue; hx::prove_eq_vec(nm+": preconditioner built from rows in arbitrary order acts like the one built from sorted rows", got, ref); } },co); }

// block adapter: a scalar matrix whose b x b blocks are structurally INCOMPLETE (some entries of a block absent) viewed through
// adapter::block_matrix describes the same operator: entries and matrix-vector product agree with the scalar source
#include <amgcl/adapter/block_matrix.hpp>
#include <amgcl/value_type/static_matrix.hpp>
// the block adapter's row iterator is copied by adapters that wrap it (reorder stores the wrapped iterator by value): a copy must be a self-contained iterator --
// same entries, and destroying the copy and the original must not destroy the sub-iterators twice (the row-builder's sub-iterators own std::vectors)
static void block_iterator_copy_case(const Pattern &p) { hx::run_case("block_adapter_iterator_copy/"+p.name, [&]() { typedef amgcl::static_matrix<scalar,2,2> Blk; SCrs S=hx::symbolic_matrix(p,"a",false); RowBuilder rb{S}; auto mb=amgcl::adapter::make_matrix(rb); auto Bm=amgcl::adapter::block_matrix<Blk>(mb);
    typedef decltype(amgcl::backend::row_begin(Bm,0)) It; bool same=true; size_t nbr=amgcl::backend::rows(Bm);
    for (size_t I=0;I<nbr;++I) { std::vector<std::pair<ptrdiff_t,Blk>> a, b; { It it=amgcl::backend::row_begin(Bm,I); It *cp=new It(it); for (; *cp; ++*cp) b.push_back({cp->col(),cp->value()}); delete cp; for (; it; ++it) a.push_back({it.col(),it.value()}); }
        same=same&&a.size()==b.size(); for (size_t k=0;k<a.size()&&same;++k) { same=same&&a[k].first==b[k].first; for (int r=0;r<2;++r) for (int c=0;c<2;++c) same=same&&hx::same_handle(a[k].second(r,c),b[k].second(r,c)); } }
    hx::require("a copy of the block adapter's row iterator is a self-contained iterator over the same entries", same); }); }
template<int B> static void block_adapter_case(const Pattern &p) { hx::run_case("block_adapter/b"+std::to_string(B)+"/"+p.name, [&]() { typedef amgcl::static_matrix<scalar,B,B> Blk; typedef amgcl::static_matrix<scalar,B,1> BV;
    SCrs S=hx::symbolic_matrix(p,"a",false); int n=p.n, nb=n/B; auto Sm=hx::to_amgcl(S); auto ad=amgcl::adapter::block_matrix<Blk>(*Sm); be::crs<Blk,ptrdiff_t,ptrdiff_t> Bm(ad);
    hx::require("block adapter: block rows / cols", Bm.nrows==(size_t)nb && Bm.ncols==(size_t)(p.m/B)); if (Bm.nrows!=(size_t)nb) return;
    auto d=S.dense(); Vec got(n*p.m,scalar(0)), ref; bool uniq=true; for (size_t I=0;I<Bm.nrows;++I) { std::set<ptrdiff_t> seen; for (ptrdiff_t k=Bm.ptr[I];k<Bm.ptr[I+1];++k) { uniq=uniq&&seen.insert(Bm.col[k]).second; for (int r=0;r<B;++r) for (int c=0;c<B;++c) { size_t ix=(I*B+r)*p.m+Bm.col[k]*B+c; got[ix]=got[ix]+Bm.val[k](r,c); } } } for (int i=0;i<n;++i) for (int j=0;j<p.m;++j) ref.push_back(d[i][j]);
    hx::require("block adapter: one block per block column in a block row", uniq); hx::prove_eq_vec("block adapter represents the scalar matrix entry by entry (absent entries of a block are zero)", got, ref);
    Vec x=hx::sym_vector("x",p.m), Sx=hx::dense_mv(S,x); be::numa_vector<BV> X(p.m/B,false), Y(nb,false); for (int I=0;I<p.m/B;++I) { BV v; for (int r=0;r<B;++r) v(r)=x[I*B+r]; X[I]=v; } for (int I=0;I<nb;++I) { BV v; for (int r=0;r<B;++r) v(r)=hx::junk("y"+std::to_string(I*B+r)); Y[I]=v; }
    be::spmv(scalar(1),Bm,X,scalar(0),Y); Vec yb; for (int I=0;I<nb;++I) for (int r=0;r<B;++r) yb.push_back(Y[I](r)); hx::prove_eq_vec("block adapter: matrix-vector product agrees with the scalar matrix", yb, Sx); }); }

// amg::rebuild(M) with the rows of M in arbitrary order = rebuild with the sorted matrix
// cpr::partial_update(K) is the second entry point of cpr that accepts a user matrix: the same matrix with row entries in arbitrary order must give the same preconditioner
template<class P> static void cpr_update_order_case(const Pattern &p, hx::Rng &rng, bool transfer, const std::string &cname="cpr") { hx::CaseOptions co; co.max_paths=16; hx::run_case("update_row_order/"+cname+"/"+(transfer?"transfer/":"global_only/")+p.name, [&]() { hx::Rng r2(rng.s); SCrs S=hx::ddmatrix(p,r2); int n=p.n; typename P::params prm; prm.block_size=2;
    SCrs S2=S; for (int i=0;i<n;++i) for (ptrdiff_t k=S.ptr[i];k<S.ptr[i+1];++k) S2.val[k] = S.col[k]==i ? S.val[k] : S.val[k]*scalar(3)/scalar(4);
    Vec f=hx::sym_vector("f",n); auto act=[&](const SCrs &M, bool &threw) { Vec out; try { P pre(std::tie(n,S.ptr,S.col,S.val),prm); pre.partial_update(std::tie(n,M.ptr,M.col,M.val),transfer); NV F=hx::to_numa(f), X(n,false); for (int i=0;i<n;++i) X[i]=scalar(0); pre.apply(F,X); out=hx::to_vec(X); } catch (const std::runtime_error&) { threw=true; } return out; };
    bool t0=false; Vec ref=act(S2,t0); hx::require("cpr: partial_update with the sorted matrix does not throw", !t0); if (t0) return;
    for (int variant=0;variant<3;++variant) { SCrs T=shuffled(S2,r2,variant); bool t1=false; Vec got=act(T,t1); hx::require("cpr: partial_update(M) accepts rows in arbitrary order", !t1); if (t1) continue; hx::prove_eq_vec("cpr: partial_update from rows in arbitrary order acts like partial_update from sorted rows", got, ref); } },co); }
template<class P, class SetP> static void rebuild_order_case(const std::string &nm, const Pattern &p, hx::Rng &rng, SetP setp) { hx::CaseOptions co; co.max_paths=16; hx::run_case("rebuild_row_order/"+nm+"/"+p.name, [&]() { hx::Rng r2(rng.s); SCrs S=hx::ddmatrix(p,r2); int n=p.n; typename P::params prm; setp(prm); prm.allow_rebuild=true;
    SCrs S2=S;   // the matrix handed to rebuild(): same pattern, off-diagonal values scaled by 3/4
    for (int i=0;i<n;++i) for (ptrdiff_t k=S.ptr[i];k<S.ptr[i+1];++k) S2.val[k] = S.col[k]==i ? S.val[k] : S.val[k]*scalar(3)/scalar(4);
    Vec f=hx::sym_vector("f",n); auto act=[&](const SCrs &M, bool &threw) { Vec out; try { P pre(std::tie(n,S.ptr,S.col,S.val),prm); pre.rebuild(std::tie(n,M.ptr,M.col,M.val)); NV F=hx::to_numa(f), X(n,false); for (int i=0;i<n;++i) X[i]=scalar(0); pre.apply(F,X); out=hx::to_vec(X); } catch (const std::runtime_error&) { threw=true; } return out; };
    bool t0=false; Vec ref=act(S2,t0); hx::require(nm+": rebuild with the sorted matrix does not throw", !t0); if (t0) return;
    for (int variant=0;variant<3;++variant) { SCrs T=shuffled(S2,r2,variant); bool t1=false; Vec got=act(T,t1); hx::require(nm+": rebuild(M) accepts rows in arbitrary order", !t1); if (t1) continue; hx::prove_eq_vec(nm+": hierarchy rebuilt from rows in arbitrary order acts like the one rebuilt from sorted rows", got, ref); } },co); }

int main(int argc, char **argv) {
    hx::parse_args(argc,argv); bool T=hx::thorough(); hx::Rng rng(hx::args().seed);
    hx::encodes("adapter/crs_tuple.hpp (tuple of ranges with index types int/long/unsigned/size_t/ptrdiff_t, iterator ranges), adapter::zero_copy / zero_copy_direct, adapter::make_matrix (crs_builder), adapter::reorder (reordered_matrix, forward/inverse, cuthill_mckee), adapter::scale_diagonal / scaled_problem, crs(const Matrix&)");
    hx::encodes("amg, relaxation::as_preconditioner, preconditioner::dummy, cpr, cpr_drs, schur_pressure_correction constructed from matrices with shuffled rows; amg::rebuild and cpr::partial_update with shuffled rows");
    hx::assume_note("adapter cases: all values symbolic, patterns enumerated; exact inner solve by skyline LU for reorder / scaled_problem; scaled_problem assumes a positive diagonal");
    hx::assume_note("NOT covered: Eigen, uBlas and Epetra adapters (Eigen expression templates at a symbolic scalar / packages not installed)");
    std::vector<Pattern> ps; for (uint64_t k=0;k<16;++k) ps.push_back(hx::mask_pattern(2,2,k,false)); for (int k=0;k<(T?60:16);++k) ps.push_back(hx::mask_pattern(3,3,rng.next()%512,false)); ps.push_back(hx::band_pattern(4,1));
    for (auto &p : ps) { tuple_case<int,int>(p,"int-int"); tuple_case<long,int>(p,"long-int"); tuple_case<unsigned,unsigned>(p,"unsigned-unsigned"); tuple_case<size_t,size_t>(p,"size_t-size_t"); tuple_case<ptrdiff_t,long>(p,"ptrdiff_t-long"); zero_copy_case(p); builder_case(p); }
    std::vector<Pattern> sq; for (int n=2;n<=3;++n) { uint64_t lim=1ull<<(n*n); for (uint64_t mask=0;mask<lim;++mask) { bool canon=true; for (int i=0;i<n;++i) if ((mask>>(i*n+i))&1) canon=false; if (canon && (n<3 || T || rng.below(6)==0)) sq.push_back(hx::mask_pattern(n,n,mask,true)); } } sq.push_back(hx::band_pattern(4,1)); sq.push_back(hx::arrow_pattern(4));
    // disconnected graphs whose decoupled (Dirichlet-like) rows have the LOWEST indices: the component search of Cuthill-McKee has to go back to index 0
    sq.push_back(hx::mask_pattern(3,3,(1ull<<5)|(1ull<<7),true)); sq.push_back(hx::mask_pattern(4,4,(1ull<<11)|(1ull<<14),true)); sq.push_back(hx::mask_pattern(5,5,(1ull<<13)|(1ull<<17)|(1ull<<19)|(1ull<<23),true)); sq.push_back(hx::mask_pattern(4,4,(1ull<<6)|(1ull<<9)|(1ull<<11)|(1ull<<14),true)); sq.push_back(hx::mask_pattern(4,4,(1ull<<7)|(1ull<<13),true)); sq.push_back(hx::mask_pattern(5,5,(1ull<<9)|(1ull<<21),true)); sq.push_back(hx::mask_pattern(5,5,(1ull<<9)|(1ull<<21)|(1ull<<13)|(1ull<<17),true));   /* components {1,3} resp. {1,4}: the node left over (2) lies BELOW the number of nodes already placed */
    for (auto &p : sq) { reorder_case(p); scaled_case(p); }
    typedef amgcl::amg<BE,amgcl::coarsening::smoothed_aggregation,amgcl::relaxation::spai0> A1; typedef amgcl::amg<BE,amgcl::coarsening::ruge_stuben,amgcl::relaxation::gauss_seidel> A2; typedef amgcl::amg<BE,amgcl::coarsening::aggregation,amgcl::relaxation::ilu0> A3;
    typedef amgcl::relaxation::as_preconditioner<BE,amgcl::relaxation::ilu0> R1; typedef amgcl::relaxation::as_preconditioner<BE,amgcl::relaxation::gauss_seidel> R2; typedef amgcl::preconditioner::dummy<BE> D1;
    typedef amgcl::preconditioner::cpr<amgcl::relaxation::as_preconditioner<BE,amgcl::relaxation::spai0>, amgcl::relaxation::as_preconditioner<BE,amgcl::relaxation::ilu0>> C1;
    typedef amgcl::make_solver<amgcl::relaxation::as_preconditioner<BE,amgcl::relaxation::ilu0>,amgcl::solver::preonly<BE>> IS; typedef amgcl::preconditioner::schur_pressure_correction<IS,IS> S1;
    for (auto &p : std::vector<Pattern>{hx::grid_pattern(3,2),hx::band_pattern(6,1),hx::grid_pattern(2,2)}) { auto ce=[](auto &prm){ prm.coarse_enough=2; }; order_case<A1>("amg<smoothed_aggregation,spai0>",p,rng,ce,false); order_case<A2>("amg<ruge_stuben,gauss_seidel>",p,rng,ce,false); order_case<A3>("amg<aggregation,ilu0>",p,rng,ce,false);
        order_case<R1>("as_preconditioner<ilu0>",p,rng,[](auto&){},false); order_case<R2>("as_preconditioner<gauss_seidel>",p,rng,[](auto &q){ q.serial=true; },false); order_case<D1>("dummy",p,rng,[](auto&){},false);
        if (p.n%2==0) { typedef amgcl::preconditioner::cpr_drs<amgcl::relaxation::as_preconditioner<BE,amgcl::relaxation::spai0>, amgcl::relaxation::as_preconditioner<BE,amgcl::relaxation::ilu0>> C2; order_case<C2>("cpr_drs",p,rng,[](auto &q){ q.block_size=2; },false); cpr_update_order_case<C2>(p,rng,true,"cpr_drs"); cpr_update_order_case<C2>(p,rng,false,"cpr_drs");
          cpr_update_order_case<C1>(p,rng,true); cpr_update_order_case<C1>(p,rng,false); order_case<C1>("cpr",p,rng,[](auto &q){ q.block_size=2; },false); order_case<S1>("schur_pressure_correction",p,rng,[&](auto &q){ q.pmask.assign(p.n,0); for (int i=0;i<p.n;i+=2) q.pmask[i]=1; },false); } }
    for (auto &p : std::vector<Pattern>{hx::grid_pattern(3,2),hx::band_pattern(6,1)}) { auto ce=[](auto &prm){ prm.coarse_enough=2; }; rebuild_order_case<A3>("amg<aggregation,ilu0>",p,rng,ce); rebuild_order_case<A1>("amg<smoothed_aggregation,spai0>",p,rng,ce); rebuild_order_case<A2>("amg<ruge_stuben,gauss_seidel>",p,rng,ce); }
    for (int k=0;k<4;++k) block_iterator_copy_case(hx::random_pattern(4,4,rng,1+k%3,k%2==0));
    for (int k=0;k<(T?40:12);++k) { block_adapter_case<2>(hx::random_pattern(4,4,rng,1+k%3,k%2==0)); if (k%3==0) block_adapter_case<2>(hx::random_pattern(4,6,rng,2,false)); if (k%4==0) block_adapter_case<3>(hx::random_pattern(6,6,rng,2+k%2,true)); }
    for (auto &p : std::vector<Pattern>{hx::band_pattern(3,1),hx::dense_pattern(3,3)}) { order_case<R1>("as_preconditioner<ilu0> (symbolic matrix)",p,rng,[](auto&){},true); order_case<A1>("amg<smoothed_aggregation,spai0> (symbolic matrix)",p,rng,[](auto &prm){ prm.coarse_enough=1; },true); }
    return hx::finish();
}
