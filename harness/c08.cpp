// C08: sparse matrix kernels equal their dense definitions (values symbolic, patterns enumerated).
#include "hx_amgcl.hpp"
#include <amgcl/detail/spgemm.hpp>
#include <amgcl/adapter/block_matrix.hpp>
#include <amgcl/value_type/static_matrix.hpp>
#include <amgcl/value_type/complex.hpp>
#include <complex>
using hx::scalar; using hx::var; using hx::Pattern; using hx::SCrs;
#ifdef HX_SYM
static bool written(const scalar &v) { return v.valid(); }      // a never-written symbolic scalar carries an invalid handle
#else
static bool written(const scalar &) { return true; }
#endif
namespace be = amgcl::backend; typedef hx::ACrs<scalar> M; typedef std::vector<std::vector<scalar>> Dense;
static Dense dense_of(const M &A) { Dense d(A.nrows,std::vector<scalar>(A.ncols,scalar(0))); for (size_t i=0;i<A.nrows;++i) for (ptrdiff_t k=A.ptr[i];k<A.ptr[i+1];++k) d[i][A.col[k]]=d[i][A.col[k]]+A.val[k]; return d; }
static std::vector<scalar> flat(const Dense &d) { std::vector<scalar> v; for (auto &r : d) for (auto &x : r) v.push_back(x); return v; }
static bool well_formed(const M &A, bool unique, bool sorted) { if (!A.ptr || A.ptr[0]!=0) return false; for (size_t i=0;i<A.nrows;++i) { if (A.ptr[i+1]<A.ptr[i]) return false; std::set<ptrdiff_t> seen; for (ptrdiff_t k=A.ptr[i];k<A.ptr[i+1];++k) { if (A.col[k]<0 || (size_t)A.col[k]>=A.ncols) return false; if (unique && !seen.insert(A.col[k]).second) return false; if (sorted && k>A.ptr[i] && A.col[k-1]>=A.col[k]) return false; } } return (size_t)A.ptr[A.nrows]==A.nnz || A.nnz==0 || true; }
// unsorted variant of a pattern: reverse the entries of every row
static Pattern reversed(const Pattern &p) { Pattern q=p; for (int i=0;i<p.n;++i) std::reverse(q.col.begin()+p.ptr[i], q.col.begin()+p.ptr[i+1]); q.name=p.name+"r"; return q; }

// transpose of block-valued and complex-valued matrices is the CONJUGATE transpose: block (j,i) of the result is the adjoint of block (i,j)
typedef amgcl::static_matrix<scalar,2,2> B2; typedef std::complex<scalar> CX;
static void transpose_block_case(const Pattern &p) { hx::run_case("transpose-block2x2/"+p.name,[&]() { hx::Crs<B2> A; A.n=p.n; A.m=p.m; A.ptr=p.ptr; A.col=p.col;
    for (int i=0;i<p.n;++i) for (ptrdiff_t k=p.ptr[i];k<p.ptr[i+1];++k) { B2 b; for (int r=0;r<2;++r) for (int c=0;c<2;++c) b(r,c)=var("a_"+std::to_string(i)+"_"+std::to_string(p.col[k])+"_"+std::to_string(r)+std::to_string(c), 1.0+0.5*r-0.25*c+i-0.125*p.col[k]); A.val.push_back(b); }
    auto Am=hx::to_amgcl(A); auto T=be::transpose(*Am); bool shape = T->nrows==(size_t)p.m && T->ncols==(size_t)p.n && T->ptr[0]==0 && T->ptr[T->nrows]==(ptrdiff_t)p.nnz(); hx::require("block transpose: shape and entry count", shape); if (!shape) return;
    bool ok=true; size_t cnt=0; for (size_t i=0;i<T->nrows;++i) for (ptrdiff_t k=T->ptr[i];k<T->ptr[i+1];++k) { ptrdiff_t j=T->col[k]; ptrdiff_t src=-1; for (ptrdiff_t q=p.ptr[j];q<p.ptr[j+1];++q) if (p.col[q]==(int)i) src=q; if (src<0) { ok=false; continue; } ++cnt; for (int r=0;r<2;++r) for (int c=0;c<2;++c) ok=ok&&hx::same_handle(T->val[k](r,c),A.val[src](c,r)); }
    hx::require("block transpose: block (j,i) of the result is the transposed block (i,j) (moved without arithmetic)", ok && cnt==(size_t)p.nnz()); }); }
static void transpose_complex_case(const Pattern &p) { hx::run_case("transpose-complex/"+p.name,[&]() { hx::Crs<CX> A; A.n=p.n; A.m=p.m; A.ptr=p.ptr; A.col=p.col;
    for (int i=0;i<p.n;++i) for (ptrdiff_t k=p.ptr[i];k<p.ptr[i+1];++k) { std::string nm=std::to_string(i)+"_"+std::to_string(p.col[k]); A.val.push_back(CX(var("re_"+nm,1.0+i-0.25*p.col[k]),var("im_"+nm,0.5-0.125*i+p.col[k]))); }
    auto Am=hx::to_amgcl(A); auto T=be::transpose(*Am); bool shape = T->nrows==(size_t)p.m && T->ncols==(size_t)p.n && T->ptr[0]==0 && T->ptr[T->nrows]==(ptrdiff_t)p.nnz(); hx::require("complex transpose: shape and entry count", shape); if (!shape) return;
    std::vector<scalar> l, r; for (size_t i=0;i<T->nrows;++i) for (ptrdiff_t k=T->ptr[i];k<T->ptr[i+1];++k) { ptrdiff_t j=T->col[k]; for (ptrdiff_t q=p.ptr[j];q<p.ptr[j+1];++q) if (p.col[q]==(int)i) { l.push_back(T->val[k].real()); r.push_back(A.val[q].real()); l.push_back(T->val[k].imag()); r.push_back(scalar(0)-A.val[q].imag()); } }
    hx::require("complex transpose: every entry has a source entry", l.size()==2*(size_t)p.nnz()); hx::prove_eq_vec("complex transpose: t_ji = conj(a_ij)", l, r); }); }

static void transpose_case(const Pattern &p) { hx::run_case("transpose/"+p.name,[&]() { SCrs A=hx::symbolic_matrix(p,"a",false); auto Am=hx::to_amgcl(A); auto T=be::transpose(*Am);
    hx::require("transpose: well-formed CRS of the transposed shape", well_formed(*T,true,false) && T->nrows==(size_t)p.m && T->ncols==(size_t)p.n && T->ptr[T->nrows]==(ptrdiff_t)p.nnz());
    Dense a=A.dense(), t=dense_of(*T); std::vector<scalar> l, r; for (int i=0;i<p.m;++i) for (int j=0;j<p.n;++j) { l.push_back(t[i][j]); r.push_back(a[j][i]); } hx::prove_eq_vec("transpose: T_ij = a_ji", l, r);
    bool exact=true; for (size_t i=0;i<T->nrows;++i) for (ptrdiff_t k=T->ptr[i];k<T->ptr[i+1];++k) exact=exact&&hx::same_handle(T->val[k],A.at(T->col[k],i)); hx::require("transpose moves values without arithmetic (real case)", exact); }); }
static void product_case(const Pattern &pa, const Pattern &pb, bool sort) { hx::run_case(std::string("product/")+(sort?"sorted/":"plain/")+pa.name+"*"+pb.name,[&]() { SCrs A=hx::symbolic_matrix(pa,"a",false), B=hx::symbolic_matrix(pb,"b",false); auto Am=hx::to_amgcl(A), Bm=hx::to_amgcl(B);
    Dense a=A.dense(), b=B.dense(); Dense ref(pa.n,std::vector<scalar>(pb.m,scalar(0))); for (int i=0;i<pa.n;++i) for (int j=0;j<pb.m;++j) { scalar s=0; for (int k=0;k<pa.m;++k) s+=a[i][k]*b[k][j]; ref[i][j]=s; }
    { auto C=be::product(*Am,*Bm,sort); hx::require("product (marker algorithm): well-formed, no duplicate column in a row", well_formed(*C,true,sort) && C->nrows==(size_t)pa.n && C->ncols==(size_t)pb.m); hx::prove_eq_vec("product (marker algorithm): C = A B", flat(dense_of(*C)), flat(ref));
      // structural pattern = union of the row patterns (no entry dropped or invented)
      bool pat=true; for (int i=0;i<pa.n;++i) { std::set<ptrdiff_t> want, got; for (ptrdiff_t k=pa.ptr[i];k<pa.ptr[i+1];++k) for (ptrdiff_t l=pb.ptr[pa.col[k]];l<pb.ptr[pa.col[k]+1];++l) want.insert(pb.col[l]); for (ptrdiff_t k=C->ptr[i];k<C->ptr[i+1];++k) got.insert(C->col[k]); pat=pat&&(want==got); } hx::require("product (marker algorithm): pattern = union of the contributing rows of B", pat); }
    { M C; amgcl::backend::spgemm_rmerge(*Am,*Bm,C); hx::require("product (row-merge algorithm): well-formed, sorted, no duplicate column in a row", well_formed(C,true,true) && C.nrows==(size_t)pa.n && C.ncols==(size_t)pb.m); hx::prove_eq_vec("product (row-merge algorithm): C = A B", flat(dense_of(C)), flat(ref)); } }); }
static void sum_case(const Pattern &pa, const Pattern &pb, bool sort) { hx::run_case(std::string("sum/")+(sort?"sorted/":"plain/")+pa.name+"+"+pb.name,[&]() { SCrs A=hx::symbolic_matrix(pa,"a",false), B=hx::symbolic_matrix(pb,"b",false); auto Am=hx::to_amgcl(A), Bm=hx::to_amgcl(B); scalar al=var("alpha",0.75), bt=var("beta",-1.5);
    auto C=be::sum(al,*Am,bt,*Bm,sort); hx::require("sum: well-formed, no duplicate column in a row", well_formed(*C,true,sort)); Dense a=A.dense(), b=B.dense(), c=dense_of(*C); std::vector<scalar> ref; for (int i=0;i<pa.n;++i) for (int j=0;j<pa.m;++j) ref.push_back(al*a[i][j]+bt*b[i][j]); hx::prove_eq_vec("sum: C = alpha A + beta B", flat(c), ref);
    bool pat=true; for (int i=0;i<pa.n;++i) { std::set<ptrdiff_t> want, got; for (ptrdiff_t k=pa.ptr[i];k<pa.ptr[i+1];++k) want.insert(pa.col[k]); for (ptrdiff_t k=pb.ptr[i];k<pb.ptr[i+1];++k) want.insert(pb.col[k]); for (ptrdiff_t k=C->ptr[i];k<C->ptr[i+1];++k) got.insert(C->col[k]); pat=pat&&(want==got); } hx::require("sum: pattern = union of the operand patterns", pat); }); }
static void misc_case(const Pattern &p0) { hx::run_case("misc/"+p0.name,[&]() { Pattern p=reversed(p0); SCrs A=hx::symbolic_matrix(p,"a",false); auto Am=hx::to_amgcl(A); Dense a=A.dense(); scalar s=var("s",2.5);
    { M B(*Am); be::scale(B,s); std::vector<scalar> ref; for (auto &r : a) for (auto &x : r) ref.push_back(s*x); hx::prove_eq_vec("scale: B = s A", flat(dense_of(B)), ref); }
    { M B(*Am); be::sort_rows(B); hx::require("sort_rows: rows sorted, structure well-formed", well_formed(B,true,true)); hx::prove_eq_vec("sort_rows: same matrix", flat(dense_of(B)), flat(a)); bool ex=true; for (size_t i=0;i<B.nrows;++i) for (ptrdiff_t k=B.ptr[i];k<B.ptr[i+1];++k) ex=ex&&hx::same_handle(B.val[k],A.at(i,B.col[k])); hx::require("sort_rows moves (col,val) pairs together", ex); }
    { M B(*Am); M C2(std::tie(p.n,A.ptr,A.col,A.val)); M D; D=B; M E(std::move(B)); bool ok=true; for (const M *X : {&C2,&D,&E}) { ok=ok&&X->nrows==(size_t)p.n&&X->ptr[p.n]==(ptrdiff_t)p.nnz(); if ((int)X->ncols==p.m || X==&C2) for (size_t k=0;k<p.nnz();++k) ok=ok&&X->col[k]==p.col[k]&&hx::same_handle(X->val[k],A.val[k]); } hx::require("CRS copy / tuple / assignment / move constructors reproduce structure and values exactly", ok); }
    if (p.n==p.m) { // a diagonal entry that is not stored is zero (its "inverse" the identity, like a stored zero): every entry of the result is written
        { auto d0=be::diagonal(*Am,false); std::vector<scalar> got, ref; bool wr=true; for (int i=0;i<p.n;++i) { scalar v=(*d0)[i]; wr=wr&&written(v); got.push_back(written(v)?v:scalar(0)); ref.push_back(p.has(i,i)?a[i][i]:scalar(0)); } hx::require("diagonal(): every entry of the result is written, also for rows without a stored diagonal entry", wr); if (wr) hx::prove_eq_vec("diagonal (absent entries are zero)", got, ref); }
        bool fulldiag=true; for (int i=0;i<p.n;++i) fulldiag=fulldiag&&p.has(i,i); if (fulldiag) { auto d=be::diagonal(*Am,false); std::vector<scalar> ref; for (int i=0;i<p.n;++i) ref.push_back(a[i][i]); hx::prove_eq_vec("diagonal", hx::to_vec(*d), ref);
        for (int i=0;i<p.n;++i) hx::assume(hx::ne(a[i][i],scalar(0))); auto di=be::diagonal(*Am,true); std::vector<scalar> r2; for (int i=0;i<p.n;++i) r2.push_back(scalar(1)/a[i][i]); hx::prove_eq_vec("inverted diagonal", hx::to_vec(*di), r2);
        // an explicitly stored ZERO diagonal entry is replaced by the identity when inverting (the library's stated convention: is_zero(d) ? identity : inverse(d)); extraction returns it as it is
        for (int z=0;z<p.n;++z) { SCrs Z=A; for (ptrdiff_t k=Z.ptr[z];k<Z.ptr[z+1];++k) if (Z.col[k]==z) Z.val[k]=scalar(0); auto Zm=hx::to_amgcl(Z); auto dz=be::diagonal(*Zm,false), dzi=be::diagonal(*Zm,true); std::vector<scalar> e0, e1; for (int i=0;i<p.n;++i) { e0.push_back(i==z?scalar(0):a[i][i]); e1.push_back(i==z?scalar(1):scalar(1)/a[i][i]); }
            hx::prove_eq_vec("diagonal with a stored zero entry", hx::to_vec(*dz), e0); hx::prove_eq_vec("inverted diagonal: a stored zero entry becomes the identity", hx::to_vec(*dzi), e1); } } } }); }
static void gershgorin_case(const Pattern &p, bool scaled) { hx::CaseOptions co; co.max_paths=80; hx::run_case(std::string("gershgorin/")+(scaled?"scaled/":"plain/")+p.name,[&]() { SCrs A=hx::symbolic_matrix(p,"a",true); auto Am=hx::to_amgcl(A); int n=p.n; if (scaled) for (int i=0;i<n;++i) hx::assume(hx::ne(A.at(i,i),scalar(0)));
    scalar r = scaled ? be::spectral_radius<true>(*Am,0) : be::spectral_radius<false>(*Am,0); Dense a=A.dense();
    std::vector<scalar> rows; for (int i=0;i<n;++i) { scalar s=0; for (ptrdiff_t k=p.ptr[i];k<p.ptr[i+1];++k) s+=hx::sabs(A.val[k]); if (scaled) s=s/hx::sabs(a[i][i]); rows.push_back(s); }
    std::vector<hx::F> ge, hit; for (int i=0;i<n;++i) { ge.push_back(hx::le(rows[i],r)); hit.push_back(hx::eq(rows[i],r)); } hx::prove("Gershgorin estimate = max_i sum_j |a_ij| (/|a_ii|)", hx::all_of(ge) && hx::any_of(hit));
    if (n<=2) { // upper bound of the spectral radius: no (complex) eigenpair with |lambda| > estimate
        std::vector<scalar> u, w; for (int i=0;i<n;++i) { u.push_back(var("u"+std::to_string(i),1.0)); w.push_back(var("w"+std::to_string(i),0.0)); } scalar la=var("lam_re",0.5), lb=var("lam_im",0.0);
        std::vector<hx::F> eig, nz; for (int i=0;i<n;++i) { scalar au=0, aw=0; for (int j=0;j<n;++j) { scalar aij = scaled ? a[i][j]/a[i][i] : a[i][j]; au+=aij*u[j]; aw+=aij*w[j]; } eig.push_back(hx::eq(au,la*u[i]-lb*w[i])); eig.push_back(hx::eq(aw,lb*u[i]+la*w[i])); nz.push_back(hx::ne(u[i],scalar(0))); nz.push_back(hx::ne(w[i],scalar(0))); }
        hx::prove("Gershgorin estimate bounds every eigenvalue: A(u+iw) = lambda(u+iw), (u,w) != 0  =>  |lambda|^2 <= estimate^2", hx::implies(hx::all_of(eig) && hx::any_of(nz), hx::le(la*la+lb*lb, r*r))); } },co); }
// block -> pointwise: entry = largest norm in the block
static void pointwise_case(const Pattern &pb, int bs) { hx::CaseOptions co; co.max_paths=96; hx::run_case("pointwise/b"+std::to_string(bs)+"/"+pb.name,[&]() { // scalar matrix whose block pattern is pb, blocks structurally incomplete (checkerboard mask)
    int n=pb.n*bs, m=pb.m*bs; SCrs A; A.n=n; A.m=m; A.ptr.push_back(0); for (int I=0;I<pb.n;++I) for (int r=0;r<bs;++r) { for (ptrdiff_t k=pb.ptr[I];k<pb.ptr[I+1];++k) for (int c=0;c<bs;++c) if ((I+pb.col[k]+r*c)%3!=1 || (r==0&&c==0)) { A.col.push_back(pb.col[k]*bs+c); A.val.push_back(var("a_"+std::to_string(I*bs+r)+"_"+std::to_string(pb.col[k]*bs+c), 0.5+0.25*((I+r+2*c)%5))); } A.ptr.push_back(A.col.size()); }
    auto Am=hx::to_amgcl(A); auto P=be::pointwise_matrix(*Am,bs); hx::require("pointwise: well-formed block-level CRS", well_formed(*P,true,true) && P->nrows==(size_t)pb.n && P->ncols==(size_t)pb.m);
    Dense a=A.dense(), pd=dense_of(*P); bool pat=true; std::vector<hx::F> fs; for (int I=0;I<pb.n;++I) for (int J=0;J<pb.m;++J) { bool present=false; for (ptrdiff_t k=P->ptr[I];k<P->ptr[I+1];++k) present=present||P->col[k]==J; bool want=false; std::vector<scalar> norms; for (int r=0;r<bs;++r) for (ptrdiff_t k=A.ptr[I*bs+r];k<A.ptr[I*bs+r+1];++k) if (A.col[k]/bs==J) { want=true; norms.push_back(hx::sabs(A.val[k])); }
        pat=pat&&(present==want); if (present&&want) { std::vector<hx::F> ge, hit; for (auto &v : norms) { ge.push_back(hx::le(v,pd[I][J])); hit.push_back(hx::eq(v,pd[I][J])); } fs.push_back(hx::all_of(ge) && hx::any_of(hit)); } }
    hx::require("pointwise: block pattern = blocks with at least one stored entry", pat); hx::prove_all("pointwise: entry = largest |a| in the block", fs); },co); }

// power-method estimate (power_iters > 0): never exceeds the largest singular value of the (diagonally scaled) matrix.
// Concrete dyadic matrix with SMALL diagonal entries (so that the scaling matters), the library's own pseudo-random start vector.
//   r <= sigma_max(M)  <=>  r^2 I - M^T M is NOT positive definite  <=>  some leading principal minor of it is <= 0   (Sylvester)
// a ground formula in algebraic numbers (nested square roots of rationals), decided by z3
static scalar det_of(std::vector<std::vector<scalar>> Mx) { int n=Mx.size(); if (n==1) return Mx[0][0]; if (n==2) return Mx[0][0]*Mx[1][1]-Mx[0][1]*Mx[1][0]; scalar d=0; for (int j=0;j<n;++j) { std::vector<std::vector<scalar>> S; for (int i=1;i<n;++i) { std::vector<scalar> r; for (int k=0;k<n;++k) if (k!=j) r.push_back(Mx[i][k]); S.push_back(r); } scalar c=Mx[0][j]*det_of(S); d = (j%2) ? d-c : d+c; } return d; }
static void power_case(const Pattern &p, hx::Rng &rng, int iters, bool scaled) { hx::run_case(std::string("power_method/")+(scaled?"scaled/":"plain/")+"it"+std::to_string(iters)+"/"+p.name,[&]() { hx::Rng r2(rng.s); SCrs A=hx::mmatrix(p,r2); for (auto &v : A.val) v=v/scalar(8); int n=p.n; auto Am=hx::to_amgcl(A);
    scalar r = scaled ? be::spectral_radius<true>(*Am,iters) : be::spectral_radius<false>(*Am,iters); Dense M=A.dense(); if (scaled) for (int i=0;i<n;++i) { scalar d=M[i][i]; for (int j=0;j<n;++j) M[i][j]=M[i][j]/d; }
    Dense G(n,std::vector<scalar>(n,scalar(0))); for (int i=0;i<n;++i) for (int j=0;j<n;++j) { scalar t=0; for (int k=0;k<n;++k) t+=M[k][i]*M[k][j]; G[i][j] = (i==j ? r*r : scalar(0)) - t; }
    std::vector<hx::F> minors; for (int k=1;k<=n;++k) { std::vector<std::vector<scalar>> S(k,std::vector<scalar>(k)); for (int a=0;a<k;++a) for (int b=0;b<k;++b) S[a][b]=G[a][b]; minors.push_back(hx::le(det_of(S),scalar(0))); }
    hx::prove("power-method estimate r <= largest singular value: r^2 I - M^T M is not positive definite (a leading principal minor is <= 0)", hx::any_of(minors)); }); }

// ragged block rows: an ARBITRARY scalar pattern (the scalar rows of one block row have different block-column patterns)
static void pointwise_ragged_case(const Pattern &ps, int bs) { hx::CaseOptions co; co.max_paths=64; hx::run_case("pointwise-ragged/b"+std::to_string(bs)+"/"+ps.name,[&]() { SCrs A=hx::symbolic_matrix(ps,"a",false); int nb=ps.n/bs, mb=(ps.m+bs-1)/bs; auto Am=hx::to_amgcl(A); auto P=be::pointwise_matrix(*Am,bs);
    bool shape = P->nrows==(size_t)nb && P->ptr[0]==0; std::vector<ptrdiff_t> want_cnt(nb,0); std::vector<std::vector<std::vector<scalar>>> norms(nb,std::vector<std::vector<scalar>>(mb)); for (int i=0;i<ps.n;++i) for (ptrdiff_t k=ps.ptr[i];k<ps.ptr[i+1];++k) norms[i/bs][ps.col[k]/bs].push_back(hx::sabs(A.val[k]));
    for (int I=0;I<nb;++I) for (int J=0;J<mb;++J) if (!norms[I][J].empty()) want_cnt[I]++; for (int I=0;I<nb&&shape;++I) shape=shape&&(P->ptr[I+1]-P->ptr[I]==want_cnt[I]);
    hx::require("pointwise (ragged rows): one entry per block with a stored scalar entry, row pointers consistent", shape); if (!shape) return;
    std::vector<hx::F> fs; bool cols=true; for (int I=0;I<nb;++I) { int q=0; for (int J=0;J<mb;++J) if (!norms[I][J].empty()) { ptrdiff_t k=P->ptr[I]+q++; cols=cols&&P->col[k]==J; std::vector<hx::F> ge, hit; for (auto &v : norms[I][J]) { ge.push_back(hx::le(v,P->val[k])); hit.push_back(hx::eq(v,P->val[k])); } fs.push_back(hx::all_of(ge) && hx::any_of(hit)); } }
    hx::require("pointwise (ragged rows): block columns ascending and complete", cols); hx::prove_all("pointwise (ragged rows): entry = largest |a| in the block", fs); },co); }

int main(int argc, char **argv) {
    hx::parse_args(argc,argv); bool T=hx::thorough(); hx::Rng rng(hx::args().seed);
    hx::encodes("backend::transpose, product (spgemm_saad), detail spgemm_rmerge (called directly), sum, scale, sort_rows, diagonal, pointwise_matrix, crs copy/tuple/assign/move constructors, spectral_radius<scale> (Gershgorin and power method)  (backend/builtin.hpp, detail/spgemm.hpp, detail/sort_row.hpp)");
    hx::assume_note("values symbolic; sparsity patterns enumerated exhaustively at the stated sizes (structure is concrete per case in engine S; symbolic structure for sort_row / sort_rows is decided by engine C)");
    hx::assume_note("row-merge SpGEMM requires row-sorted operands (documented); the thread-count dispatch (>16 threads) itself is not executed, both algorithms are called directly");
    hx::assume_note("power-method spectral radius estimate vs largest singular value: not decided (iterative, irrational)");
    std::vector<Pattern> p22, p23, p32, p33; for (uint64_t k=0;k<16;++k) p22.push_back(hx::mask_pattern(2,2,k,false)); for (uint64_t k=0;k<64;++k) { p23.push_back(hx::mask_pattern(2,3,k,false)); p32.push_back(hx::mask_pattern(3,2,k,false)); } for (uint64_t k=0;k<512;++k) p33.push_back(hx::mask_pattern(3,3,k,false));
    for (auto &p : p22) { transpose_case(p); transpose_block_case(p); transpose_complex_case(p); } for (size_t k=0;k<p23.size();++k) if (T || k%4==1) { transpose_block_case(p23[k]); transpose_complex_case(p23[k]); }
    for (auto &p : p23) transpose_case(p); for (auto &p : p33) if (T || rng.below(8)==0) transpose_case(p); for (int k=0;k<(T?20:6);++k) transpose_case(reversed(hx::random_pattern(2+rng.below(4),2+rng.below(4),rng,2,false)));
    for (auto &a : p22) for (auto &b : p22) product_case(a,b,(a.nnz()+b.nnz())%2);                      // exhaustive 2x2 * 2x2
    for (int k=0;k<(T?400:60);++k) { const Pattern &a=p23[rng.below(64)], &b=p32[rng.below(64)]; product_case(a,b,k%2); product_case(b,a,k%2); }
    for (int k=0;k<(T?300:40);++k) product_case(p33[rng.below(512)],p33[rng.below(512)],k%2);
    for (auto &a : p22) for (auto &b : p22) sum_case(a,b,(a.nnz()+b.nnz())%2); for (int k=0;k<(T?300:40);++k) { sum_case(p33[rng.below(512)],p33[rng.below(512)],k%2); sum_case(reversed(p23[rng.below(64)]),p23[rng.below(64)],false); }
    for (auto &p : p22) misc_case(p); for (int k=0;k<(T?100:24);++k) misc_case(p33[rng.below(512)]); for (int k=0;k<(T?30:8);++k) misc_case(p23[rng.below(64)]);
    for (uint64_t k=0;k<4;++k) { gershgorin_case(hx::mask_pattern(2,2,k*2+k/2*0+ (k&1?2:0) + (k&2?4:0),true),false); gershgorin_case(hx::mask_pattern(2,2,(k&1?2:0)+(k&2?4:0),true),true); } gershgorin_case(hx::band_pattern(3,1),false); gershgorin_case(hx::band_pattern(3,1),true); if (T) { gershgorin_case(hx::dense_pattern(3,3),false); gershgorin_case(hx::band_pattern(4,1),true); }
    for (auto &p : std::vector<Pattern>{hx::band_pattern(3,1),hx::dense_pattern(3,3),hx::grid_pattern(2,2)}) for (int it : {1,2,3}) for (int sc=0;sc<2;++sc) if (T || p.n==3 || it==2) power_case(p,rng,it,sc);
    for (uint64_t mask=1; mask<256; ++mask) if (T || mask%3==0) pointwise_ragged_case(hx::mask_pattern(2,4,mask,false),2); for (int k=0;k<(T?200:40);++k) { pointwise_ragged_case(hx::mask_pattern(2,8,rng.next()&0xffff,false),2); if (k%4==0) pointwise_ragged_case(hx::mask_pattern(3,6,rng.next()&0x3ffff,false),3); if (k%5==0) pointwise_ragged_case(hx::mask_pattern(4,6,rng.next()&0xffffff,false),2); }
    for (auto &p : p22) if (p.nnz()) { pointwise_case(p,2); } for (int k=0;k<(T?12:3);++k) pointwise_case(p23[1+rng.below(63)],2); pointwise_case(hx::mask_pattern(2,2,0xb,false),3);
    return hx::finish();
}
