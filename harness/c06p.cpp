// C06 (second harness): the LEVEL-SCHEDULED ("parallel") forms of the Gauss-Seidel sweeps and of the ILU triangular solves equal the
// mathematical definition, for T-thread schedules, rows stored in any column order (Gauss-Seidel, Jacobi, SPAI-0 do not require sorted rows).
// Compiled with -D_OPENMP -Ilib/fakeomp, WITHOUT -fopenmp (see lib/hx_levels.hpp) and with -fno-access-control.
#include "hx_levels.hpp"
int hx_omp_threads = 1, hx_omp_tid = 0;
#include <amgcl/relaxation/gauss_seidel.hpp>
#include <amgcl/relaxation/damped_jacobi.hpp>
#include <amgcl/relaxation/spai0.hpp>
#include <amgcl/relaxation/ilu0.hpp>
#include <amgcl/relaxation/iluk.hpp>
using hx::scalar; using hx::var; using hx::Pattern; using hx::SCrs;
namespace be = amgcl::backend; namespace rx = amgcl::relaxation; typedef be::builtin<scalar> BE; typedef be::numa_vector<scalar> NV; typedef hx::ACrs<scalar> M;
typedef std::vector<std::vector<scalar>> Dense;

// forward sweep:  (D+L) x' + U x = f ;  backward sweep:  (D+U) x' + L x = f
static void sweep_def(const std::string &nm, bool fwd, const Dense &A, const std::vector<scalar> &xn, const std::vector<scalar> &x, const std::vector<scalar> &f) { int n=f.size(); std::vector<scalar> lhs;
    for (int i=0;i<n;++i) { scalar s=0; for (int j=0;j<n;++j) { bool newv = fwd ? j<=i : j>=i; s+=A[i][j]*(newv?xn[j]:x[j]); } lhs.push_back(s); } hx::prove_eq_vec(nm,lhs,f); }

template<bool fwd> static void gs_case(const Pattern &p, int T) { hx::run_case(std::string("gauss_seidel-levels/")+(fwd?"fwd":"bwd")+"/T"+std::to_string(T)+"/"+p.name, [&]() {
    SCrs A=hx::symbolic_matrix(p,"a"); for (auto &v : A.val) hx::assume(hx::ne(v,scalar(0))); auto Am=hx::to_amgcl(A); int n=p.n; typedef typename rx::gauss_seidel<BE>::template parallel_sweep<fwd> PS;
    auto S=hxl::gs_schedule<PS>(*Am,T); std::vector<scalar> f=hx::sym_vector("f",n), x0=hx::sym_vector("x",n,0.25); Dense Ad=A.dense(); NV F=hx::to_numa(f);
    for (int rev=0;rev<2;++rev) { NV X=hx::to_numa(x0); hxl::gs_run(*S,F,X,rev); sweep_def(std::string("level-scheduled gauss_seidel ")+(fwd?"pre = forward sweep: (D+L) x' + U x = f":"post = backward sweep: (D+U) x' + L x = f")+(rev?" [threads in reverse order]":" [threads in order]"), fwd, Ad, hx::to_vec(X), x0, f); }
    // the public object with serial=false under T threads uses the same schedule class: its apply_pre/apply_post run thread 0's tasks here; check they touch only rows of thread 0
    }); }

// the public gauss_seidel object (serial=true) on rows stored in any order
static void gs_public_case(const Pattern &p) { hx::run_case("gauss_seidel-public/"+p.name, [&]() { hx_omp_threads=1; hx_omp_tid=0;
    SCrs A=hx::symbolic_matrix(p,"a"); for (auto &v : A.val) hx::assume(hx::ne(v,scalar(0))); auto Am=hx::to_amgcl(A); int n=p.n; rx::gauss_seidel<BE>::params prm; prm.serial=true; rx::gauss_seidel<BE> R(*Am,prm,BE::params());
    std::vector<scalar> f=hx::sym_vector("f",n), x0=hx::sym_vector("x",n,0.25); Dense Ad=A.dense(); NV F=hx::to_numa(f), Tm(n,false); for (int i=0;i<n;++i) Tm[i]=hx::junk("t"+std::to_string(i));
    { NV X=hx::to_numa(x0); R.apply_pre(*Am,F,X,Tm); sweep_def("gauss_seidel pre (rows in any stored order) = forward sweep",true,Ad,hx::to_vec(X),x0,f); }
    { NV X=hx::to_numa(x0); R.apply_post(*Am,F,X,Tm); sweep_def("gauss_seidel post (rows in any stored order) = backward sweep",false,Ad,hx::to_vec(X),x0,f); }
    { rx::damped_jacobi<BE>::params pj; pj.damping=var("omega",0.72); rx::damped_jacobi<BE> J(*Am,pj,BE::params()); NV X=hx::to_numa(x0); J.apply_pre(*Am,F,X,Tm); std::vector<scalar> Ax=hx::dense_mv(A,x0), ref; for (int i=0;i<n;++i) ref.push_back(x0[i]+pj.damping*(f[i]-Ax[i])/Ad[i][i]); hx::prove_eq_vec("damped_jacobi (rows in any stored order): x + omega D^-1 (f - A x)",hx::to_vec(X),ref); }
    { rx::spai0<BE> S0(*Am,rx::spai0<BE>::params(),BE::params()); NV X=hx::to_numa(x0); S0.apply_pre(*Am,F,X,Tm); std::vector<scalar> Ax=hx::dense_mv(A,x0), ref; for (int i=0;i<n;++i) { scalar den=0; for (int j=0;j<n;++j) den+=Ad[i][j]*Ad[i][j]; ref.push_back(x0[i]+Ad[i][i]/den*(f[i]-Ax[i])); } hx::prove_eq_vec("spai0 (rows in any stored order): x + M (f - A x), m_i = a_ii / sum_j a_ij^2",hx::to_vec(X),ref); }
    }); }

// ILU: factors of the real ilu0 / iluk object (sorted rows: stated requirement of the factorisations), level-scheduled T-thread solve:
//   (I+L)(D^-1+U) x = f   i.e. the level-scheduled solve is the exact inverse of the stored factors
template<class ILU> static void ilu_levels(const std::string &nm, const ILU &ilu, int n, int T) { std::vector<scalar> f=hx::sym_vector("f",n);
    hxl::IluLevels S(*ilu.L,*ilu.U,*ilu.D,T);
    Dense Lf(n,std::vector<scalar>(n,scalar(0))), Uf=Lf; for (int i=0;i<n;++i) { Lf[i][i]=scalar(1); Uf[i][i]=scalar(1)/(*ilu.D)[i]; for (ptrdiff_t k=ilu.L->ptr[i];k<ilu.L->ptr[i+1];++k) Lf[i][ilu.L->col[k]]+=ilu.L->val[k]; for (ptrdiff_t k=ilu.U->ptr[i];k<ilu.U->ptr[i+1];++k) Uf[i][ilu.U->col[k]]+=ilu.U->val[k]; }
    for (int rev=0;rev<2;++rev) { NV X=hx::to_numa(f); S.solve(X,rev); std::vector<scalar> y(n), l; for (int i=0;i<n;++i) { scalar s=0; for (int j=0;j<n;++j) s+=Uf[i][j]*X[j]; y[i]=s; } for (int i=0;i<n;++i) { scalar s=0; for (int j=0;j<n;++j) s+=Lf[i][j]*y[j]; l.push_back(s); }
        hx::prove_eq_vec(nm+": level-scheduled triangular solves invert the stored factors: (I+L)(D^-1+U) x = f"+(rev?" [threads in reverse order]":" [threads in order]"),l,f); } }
static void ilu0_levels_case(const Pattern &p, int T) { hx::CaseOptions co; co.max_paths=24; hx::run_case("ilu0-levels/T"+std::to_string(T)+"/"+p.name, [&]() { hx_omp_threads=1; hx_omp_tid=0;
    SCrs A=hx::symbolic_matrix(p,"a"); for (auto &v : A.val) hx::assume(hx::ne(v,scalar(0))); auto Am=hx::to_amgcl(A);
    try { rx::ilu0<BE>::params prm; prm.solve.serial=true; rx::ilu0<BE> R(*Am,prm,BE::params()); ilu_levels("ilu0",*R.ilu,p.n,T); } catch (const std::runtime_error &e) { if (std::string(e.what()).find("ivot")==std::string::npos) throw; hx::count("zero-pivot exception paths (breakdown, outside the claim)"); } },co); }
static void iluk_levels_case(const Pattern &p, int K, int T) { hx::CaseOptions co; co.max_paths=24; hx::run_case("iluk-levels/k"+std::to_string(K)+"/T"+std::to_string(T)+"/"+p.name, [&]() { hx_omp_threads=1; hx_omp_tid=0;
    SCrs A=hx::symbolic_matrix(p,"a"); for (auto &v : A.val) hx::assume(hx::ne(v,scalar(0))); auto Am=hx::to_amgcl(A);
    try { rx::iluk<BE>::params prm; prm.k=K; prm.solve.serial=true; rx::iluk<BE> R(*Am,prm,BE::params()); ilu_levels("iluk",*R.ilu,p.n,T); } catch (const std::runtime_error &e) { if (std::string(e.what()).find("ivot")==std::string::npos) throw; hx::count("zero-pivot exception paths (breakdown, outside the claim)"); } },co); }

int main(int argc, char **argv) {
    hx::parse_args(argc,argv); bool T=hx::thorough(); hx::Rng rng(hx::args().seed);
    hx::encodes("relaxation::gauss_seidel::parallel_sweep<fwd/bwd> constructor + sweep() under T-thread schedules; gauss_seidel / damped_jacobi / spai0 public sweeps on unsorted rows; detail::ilu_solve::sptr_solve<lower/upper> constructor + solve() on the factors of the real ilu0 / iluk objects");
    hx::assume_note("stand-in omp.h (lib/fakeomp): no concurrency; T-thread task tables assembled by one construction per thread id, executed level by level in two thread orders");
    hx::assume_note("stored entries assumed non-zero; ILU factorisations on sorted rows (their stated requirement); Gauss-Seidel/Jacobi/SPAI-0 also with rows stored in reversed and diagonal-first order");
    std::vector<Pattern> pats; for (int n=2;n<=3;++n) { uint64_t lim=1ull<<(n*n); for (uint64_t mask=0;mask<lim;++mask) { bool canon=true; for (int i=0;i<n;++i) if ((mask>>(i*n+i))&1) canon=false; if (canon) pats.push_back(hx::mask_pattern(n,n,mask,true)); } }
    std::vector<Pattern> big{hx::band_pattern(4,1),hx::arrow_pattern(4),hx::grid_pattern(2,2),hx::band_pattern(5,2),hx::grid_pattern(3,2)}; for (int k=0;k<(T?30:6);++k) big.push_back(hx::random_pattern(4+k%2,4+k%2,rng,2,true));
    size_t k=0;
    for (auto &p : pats) { ++k; for (int Tn : {2,4}) { if (Tn==4 && p.n<3 && !T) continue; gs_case<true>(p,Tn); gs_case<false>(p,Tn); }
        if (p.n==3 && (T || k%2==0)) { Pattern q=hxl::reversed(p), d=hxl::diag_first(p); gs_case<true>(q,2); gs_case<false>(q,2); gs_case<true>(d,4); gs_case<false>(d,4); gs_public_case(q); if (T || k%4==0) gs_public_case(d); }
        if (p.n==3 && (T || k%2==1)) { ilu0_levels_case(p,2); ilu0_levels_case(p,4); } }
    for (auto &p : big) { for (int Tn : {2,3,5}) { gs_case<true>(p,Tn); gs_case<false>(p,Tn); } Pattern q=hxl::reversed(p), d=hxl::diag_first(p); gs_case<true>(q,4); gs_case<false>(q,4); gs_case<true>(d,2); gs_case<false>(d,2); gs_public_case(q);
        ilu0_levels_case(p,2); ilu0_levels_case(p,4); iluk_levels_case(p,1,4); if (T) iluk_levels_case(p,2,3); }
    return hx::finish();
}
