// C05: each Krylov method produces its defining iterates.
// U-mode: concrete matrix A and preconditioner P (dense, nonsymmetric allowed), rhs and initial guess on seeded lines
// f = f0 + t f1, x0 = x00 + t x01 with ONE symbolic parameter t; no cuts: every coefficient is the true rational function of t.
#include "hx_amgcl.hpp"
#include <amgcl/solver/cg.hpp>
#include <amgcl/solver/bicgstab.hpp>
#include <amgcl/solver/bicgstabl.hpp>
#include <amgcl/solver/gmres.hpp>
#include <amgcl/solver/fgmres.hpp>
#include <amgcl/solver/lgmres.hpp>
#include <amgcl/solver/idrs.hpp>
#include <amgcl/solver/richardson.hpp>
using hx::scalar; using hx::var; using hx::Pattern; using hx::SCrs;
namespace be = amgcl::backend; namespace sv = amgcl::solver; typedef be::builtin<scalar> BE; typedef be::numa_vector<scalar> NV; typedef std::vector<scalar> Vec; typedef std::vector<Vec> Mat;
namespace side = amgcl::preconditioner::side;
struct DensePrec { int n; Mat P; std::shared_ptr<hx::ACrs<scalar>> A; template<class V1,class V2> void apply(const V1 &rhs, V2 &&x) const { Vec t(n); for (int i=0;i<n;++i) { scalar s=0; for (int j=0;j<n;++j) s+=P[i][j]*rhs[j]; t[i]=s; } for (int i=0;i<n;++i) x[i]=t[i]; } const hx::ACrs<scalar> &system_matrix() const { return *A; } };
static Vec mv(const Mat &M, const Vec &v) { int n=M.size(); Vec r(n); for (int i=0;i<n;++i) { scalar s=0; for (int j=0;j<n;++j) s+=M[i][j]*v[j]; r[i]=s; } return r; }
static scalar dot(const Vec &a, const Vec &b) { scalar s=0; for (size_t i=0;i<a.size();++i) s+=a[i]*b[i]; return s; }
static Vec axpy(scalar a, const Vec &x, const Vec &y) { Vec r(x.size()); for (size_t i=0;i<x.size();++i) r[i]=a*x[i]+y[i]; return r; }
static Vec sub(const Vec &a, const Vec &b) { Vec r(a.size()); for (size_t i=0;i<a.size();++i) r[i]=a[i]-b[i]; return r; }
static scalar det(Mat M) { int n=M.size(); if (n==1) return M[0][0]; if (n==2) return M[0][0]*M[1][1]-M[0][1]*M[1][0]; scalar d=0; for (int j=0;j<n;++j) { Mat S; for (int i=1;i<n;++i) { Vec r; for (int k=0;k<n;++k) if (k!=j) r.push_back(M[i][k]); S.push_back(r); } scalar c=M[0][j]*det(S); d = (j%2) ? d-c : d+c; } return d; }
static scalar gram_det(const std::vector<Vec> &vs) { int k=vs.size(); Mat G(k,Vec(k)); for (int i=0;i<k;++i) for (int j=0;j<k;++j) G[i][j]=dot(vs[i],vs[j]); return det(G); }

struct Sys { int n; SCrs A; Mat Ad, Pd; std::shared_ptr<hx::ACrs<scalar>> Am; DensePrec P; Vec f, x0; };
static Sys make_sys(int n, hx::Rng &rng, bool spd, int prec /*0 identity,1 diagonal,2 dense*/) { Sys s; s.n=n; Pattern p=hx::dense_pattern(n,n); hx::Rng r2(rng.s); s.A = spd ? hx::mmatrix(p,r2,1.0) : hx::ddmatrix(p,r2); s.Ad=s.A.dense(); s.Am=hx::to_amgcl(s.A);
    s.Pd.assign(n,Vec(n,scalar(0))); for (int i=0;i<n;++i) for (int j=0;j<n;++j) { if (prec==0) s.Pd[i][j]=scalar(i==j?1:0); else if (prec==1) s.Pd[i][j]= i==j ? scalar(1)/s.Ad[i][i] : scalar(0); else s.Pd[i][j] = i==j ? scalar(1)/s.Ad[i][i] : (spd ? scalar((1+(i+j)%3))/scalar(64) : scalar(((i*3+j)%5)-2)/scalar(32)); }
    if (prec==2 && spd) for (int i=0;i<n;++i) for (int j=0;j<i;++j) s.Pd[i][j]=s.Pd[j][i];
    s.P.n=n; s.P.P=s.Pd; s.P.A=s.Am; scalar t=var("t",0.375); for (int i=0;i<n;++i) { int q1=1+r2.below(5), q2=r2.below(7)-3, q3=r2.below(5)-2, q4=r2.below(5)-2; /* sequenced: operand evaluation order differs between the sym and the double build */ s.f.push_back(scalar(q1)/scalar(2) + t*scalar(q2)/scalar(4)); s.x0.push_back(scalar(q3)/scalar(4) + t*scalar(q4)/scalar(2)); } return s; }
template<class S> static std::tuple<size_t,scalar,Vec> solve(const Sys &s, typename S::params prm, int k) { prm.maxiter=k; prm.tol=scalar(0); prm.abstol=scalar(0); S sol(s.n,prm); NV F=hx::to_numa(s.f), X=hx::to_numa(s.x0); size_t it; scalar res; std::tie(it,res)=sol(*s.Am,s.P,F,X);
    // the k-th iterate is a function of (A, P, f, x0, k) only: the same call on the now USED object performs the same operations
    { NV X2=hx::to_numa(s.x0); size_t it2; scalar res2; std::tie(it2,res2)=sol(*s.Am,s.P,F,X2); bool same = it2==it && hx::same_handle(res2,res); for (int i=0;i<s.n;++i) same=same&&hx::same_handle(X2[i],X[i]); hx::require("the k-th iterate does not depend on earlier solves with the same object (second identical call: identical operations)", same); }
    return std::make_tuple(it,res,hx::to_vec(X)); }
// Krylov vectors v_j = (M)^j v0
static std::vector<Vec> krylov(const Mat &M1, const Mat &M2, Vec v, int k) { std::vector<Vec> K; for (int j=0;j<k;++j) { K.push_back(v); v=mv(M1,mv(M2,v)); } return K; }
static Mat ident(int n) { Mat I(n,Vec(n,scalar(0))); for (int i=0;i<n;++i) I[i][i]=scalar(1); return I; }

// x_k in x0 + span(V): Gram determinant of (V, x_k - x0) vanishes;  w perpendicular to every vector of W
static void galerkin(const std::string &nm, const Vec &xk, const Vec &x0, const std::vector<Vec> &V, const Vec &w, const std::vector<Vec> &W) {
    std::vector<Vec> g=V; g.push_back(sub(xk,x0)); hx::prove_eq(nm+": x_k - x_0 lies in the Krylov space (Gram determinant = 0)", gram_det(g), scalar(0));
    Vec l, z; for (auto &u : W) { l.push_back(dot(w,u)); z.push_back(scalar(0)); } hx::prove_eq_vec(nm+": residual orthogonality condition of the minimiser", l, z); }

static void richardson_case(int n, int k, int prec, hx::Rng &rng) { hx::run_case("richardson/n"+std::to_string(n)+"k"+std::to_string(k)+"p"+std::to_string(prec), [&]() { Sys s=make_sys(n,rng,false,prec); sv::richardson<BE>::params prm; prm.damping=var("omega",0.8); auto r=solve<sv::richardson<BE>>(s,prm,k);
    Vec x=s.x0; for (int i=0;i<k;++i) { Vec res=sub(s.f,mv(s.Ad,x)); x=axpy(prm.damping,mv(s.Pd,res),x); }
    hx::require("the method performs at most maxiter = k iterations", std::get<0>(r)<=(size_t)k, "iterations="+std::to_string(std::get<0>(r))+" maxiter="+std::to_string(k)); if (std::get<0>(r)!=(size_t)k) { hx::count("early exact convergence paths"); return; } hx::prove_eq_vec("richardson: x_k = (x + omega P (f - A x)) repeated k times", std::get<2>(r), x); }); }
static void cg_case(int n, int k, int prec, hx::Rng &rng) { hx::CaseOptions co; co.max_paths=8; hx::run_case("cg/n"+std::to_string(n)+"k"+std::to_string(k)+"p"+std::to_string(prec), [&]() { Sys s=make_sys(n,rng,true,prec); auto r=solve<sv::cg<BE>>(s,sv::cg<BE>::params(),k); hx::require("the method performs at most maxiter = k iterations", std::get<0>(r)<=(size_t)k, "iterations="+std::to_string(std::get<0>(r))+" maxiter="+std::to_string(k)); if (std::get<0>(r)!=(size_t)k) { hx::count("early exact convergence paths"); return; }
    Vec r0=sub(s.f,mv(s.Ad,s.x0)), z0=mv(s.Pd,r0); std::vector<Vec> K=krylov(s.Pd,s.Ad,z0,k); Vec rk=sub(s.f,mv(s.Ad,std::get<2>(r))); galerkin("cg (A-norm error minimiser over K_k(PA, P r0))",std::get<2>(r),s.x0,K,rk,K);
    // independent dense reference: textbook preconditioned CG
    Vec x=s.x0, rr=r0, z=z0, p=z0; for (int i=0;i<k;++i) { Vec q=mv(s.Ad,p); scalar a=dot(rr,z)/dot(p,q); x=axpy(a,p,x); Vec rn=axpy(scalar(0)-a,q,rr); Vec zn=mv(s.Pd,rn); scalar b=dot(rn,zn)/dot(rr,z); p=axpy(b,p,zn); rr=rn; z=zn; } hx::prove_eq_vec("cg: iterate agrees with the dense textbook reference", std::get<2>(r), x); },co); }
static void gmres_case(const std::string &which, int n, int k, int M, bool left, int prec, hx::Rng &rng) { hx::CaseOptions co; co.max_paths=8; hx::run_case(which+"/n"+std::to_string(n)+"k"+std::to_string(k)+"M"+std::to_string(M)+(left?"l":"r")+"p"+std::to_string(prec), [&]() { Sys s=make_sys(n,rng,false,prec); std::tuple<size_t,scalar,Vec> r, r1;
    if (which=="gmres") { sv::gmres<BE>::params p; p.M=M; p.pside=left?side::left:side::right; r=solve<sv::gmres<BE>>(s,p,k); if (k>1) r1=solve<sv::gmres<BE>>(s,p,k-1); }
    else if (which=="fgmres") { sv::fgmres<BE>::params p; p.M=M; r=solve<sv::fgmres<BE>>(s,p,k); if (k>1) r1=solve<sv::fgmres<BE>>(s,p,k-1); }
    else { sv::lgmres<BE>::params p; p.M=M; p.K=1; p.pside=left?side::left:side::right; r=solve<sv::lgmres<BE>>(s,p,k); if (k>1) r1=solve<sv::lgmres<BE>>(s,p,k-1); }
    hx::require("the method performs at most maxiter = k iterations", std::get<0>(r)<=(size_t)k, "iterations="+std::to_string(std::get<0>(r))+" maxiter="+std::to_string(k)); if (std::get<0>(r)!=(size_t)k) { hx::count("early exact convergence paths"); return; }
    Vec r0=sub(s.f,mv(s.Ad,s.x0)), rk=sub(s.f,mv(s.Ad,std::get<2>(r)));
    if (k<=M) { // first cycle: residual minimiser over the Krylov space
        if (!left) { std::vector<Vec> K=krylov(s.Ad,s.Pd,r0,k), V, W; for (auto &v : K) { V.push_back(mv(s.Pd,v)); W.push_back(mv(s.Ad,mv(s.Pd,v))); } galerkin(which+" right (minimal residual over x0 + P K_k(AP, r0))",std::get<2>(r),s.x0,V,rk,W); }
        else { Vec z0=mv(s.Pd,r0); std::vector<Vec> K=krylov(s.Pd,s.Ad,z0,k), W; for (auto &v : K) W.push_back(mv(s.Pd,mv(s.Ad,v))); galerkin(which+" left (minimal preconditioned residual over x0 + K_k(PA, P r0))",std::get<2>(r),s.x0,K,mv(s.Pd,rk),W); } }
    if (k>1 && n<=2 && std::get<0>(r1)==(size_t)(k-1)) hx::prove(which+": returned residual is non-increasing in k", hx::le(std::get<1>(r)*std::get<1>(r), std::get<1>(r1)*std::get<1>(r1))); },co); }
static void bicgstab_case(int n, int k, bool left, int prec, hx::Rng &rng) { hx::CaseOptions co; co.max_paths=8; hx::run_case(std::string("bicgstab/n")+std::to_string(n)+"k"+std::to_string(k)+(left?"l":"r")+"p"+std::to_string(prec), [&]() { Sys s=make_sys(n,rng,false,prec); sv::bicgstab<BE>::params p; p.pside=left?side::left:side::right; auto r=solve<sv::bicgstab<BE>>(s,p,k); hx::require("the method performs at most maxiter = k iterations", std::get<0>(r)<=(size_t)k, "iterations="+std::to_string(std::get<0>(r))+" maxiter="+std::to_string(k)); if (std::get<0>(r)!=(size_t)k) { hx::count("early exact convergence paths"); return; }
    // dense textbook BiCGStab on the preconditioned operator:  right: (A P) y = f, x = x0 + P y ;  left: (P A) x = P f
    Mat Op(n,Vec(n)); for (int i=0;i<n;++i) for (int j=0;j<n;++j) { scalar t=0; for (int l=0;l<n;++l) t += left ? s.Pd[i][l]*s.Ad[l][j] : s.Ad[i][l]*s.Pd[l][j]; Op[i][j]=t; }
    Vec r0=sub(s.f,mv(s.Ad,s.x0)); if (left) r0=mv(s.Pd,r0); Vec y(n,scalar(0)), rr=r0, rh=r0, pp(n,scalar(0)), v(n,scalar(0)); scalar rho=1, al=1, om=1;
    for (int i=0;i<k;++i) { scalar rho1=dot(rh,rr); scalar beta=(rho1/rho)*(al/om); Vec t1=axpy(scalar(0)-om,v,pp); pp=axpy(beta,t1,rr); v=mv(Op,pp); al=rho1/dot(rh,v); Vec sv_=axpy(scalar(0)-al,v,rr); Vec tt=mv(Op,sv_); om=dot(tt,sv_)/dot(tt,tt); y=axpy(al,pp,y); y=axpy(om,sv_,y); rr=axpy(scalar(0)-om,tt,sv_); rho=rho1; }
    Vec x = left ? Vec() : mv(s.Pd,y); Vec ref(n); for (int i=0;i<n;++i) ref[i] = s.x0[i] + (left ? y[i] : x[i]); hx::prove_eq_vec(std::string("bicgstab ")+(left?"left":"right")+": iterate agrees with the dense textbook reference", std::get<2>(r), ref); },co); }
// finite termination: n (+n/s) iterations with an exact (P = A^-1) or identity preconditioner give the solution
template<class S, class SetP> static void term_case(const std::string &nm, int n, bool exactP, int extra, hx::Rng &rng, SetP setp) { hx::CaseOptions co; co.max_paths=12; hx::run_case("termination/"+nm+"/n"+std::to_string(n)+(exactP?"/exactP":"/noP"), [&]() { Sys s=make_sys(n,rng,true,0);
    if (exactP) { // P = A^-1 by cofactors (exact rationals)
        scalar d=det(s.Ad); for (int i=0;i<n;++i) for (int j=0;j<n;++j) { Mat Mn; for (int a=0;a<n;++a) if (a!=j) { Vec r; for (int b=0;b<n;++b) if (b!=i) r.push_back(s.Ad[a][b]); Mn.push_back(r); } scalar c = n==1 ? scalar(1) : det(Mn); s.Pd[i][j] = (((i+j)%2)? scalar(0)-c : c)/d; } s.P.P=s.Pd; }
    typename S::params prm; setp(prm); int k = exactP ? 1+extra : n+extra; std::tuple<size_t,scalar,Vec> r;
    try { r=solve<S>(s,prm,k); } catch (const std::runtime_error&) { hx::count("breakdown exception (solver reports exact convergence as breakdown)"); return; }
    hx::prove_eq_vec(nm+": A x = f after at most "+std::to_string(k)+" iterations", mv(s.Ad,std::get<2>(r)), s.f); },co); }

// solvers without a dense reference in this harness (BiCGStab(L), IDR(s)): k iterations far from convergence; the obligation is the one inside solve():
// the k-th iterate is a function of the call's arguments only (a second identical call on the used object performs the same operations)
template<class S, class SetP> static void iterate_case(const std::string &nm, int n, int k, int prec, hx::Rng &rng, SetP setp) { hx::CaseOptions co; co.max_paths=8; hx::run_case("iterate/"+nm+"/n"+std::to_string(n)+"k"+std::to_string(k)+"p"+std::to_string(prec), [&]() { Sys s=make_sys(n,rng,false,prec); typename S::params prm; setp(prm);
    try { auto r=solve<S>(s,prm,k); hx::require("the method performs at most maxiter (+L-1) iterations", std::get<0>(r)<=(size_t)k+3); } catch (const std::runtime_error&) { hx::count("breakdown exception paths"); } },co); }

int main(int argc, char **argv) {
    hx::parse_args(argc,argv); bool T=hx::thorough(); hx::Rng rng(hx::args().seed);
    hx::encodes("solver::{cg,bicgstab,gmres,fgmres,lgmres,richardson,idrs,bicgstabl}<builtin<scalar>>::operator() with maxiter = k, no cuts (the true rational coefficients)");
    hx::assume_note("U-mode: concrete dyadic matrices and dense preconditioners, right-hand side and initial guess on seeded lines in ONE symbolic parameter t: every claim is 'for all t' on those lines; Richardson additionally with symbolic omega");
    hx::assume_note("characterisations: CG = Galerkin condition r_k orthogonal to K_k(PA, P r0) with x_k - x0 in K_k (equivalent to A-norm error minimisation for SPD A, P); GMRES/FGMRES/LGMRES first cycle = Petrov-Galerkin condition of the residual minimiser; CG and BiCGStab additionally against dense textbook references written in the harness");
    hx::assume_note("BiCGStab(L), IDR(s) and LGMRES beyond the first cycle: only finite termination is decided here (their iterates against an independent reference are out of reach: nested radicals / degree growth)");
    for (int n=2;n<=3;++n) for (int k=1;k<=(T?4:3);++k) for (int prec : {0,2}) richardson_case(n,k,prec,rng);
    for (int n=2;n<=(T?4:3);++n) for (int k=1;k<=std::min(n,T?3:2);++k) for (int prec : {0,1,2}) { cg_case(n,k,prec,rng); if (n<=2 || k==1) { bicgstab_case(n,k,false,prec,rng); bicgstab_case(n,k,true,prec,rng); } }   /* BiCGStab with k >= 2 on n >= 3: the reference identity in t is beyond 45 s of z3 for some preconditioners (measured), so it is not part of either tier */
    for (int n=2;n<=3;++n) for (int k=1;k<=std::min(n,2);++k) for (int prec : {0,2}) { gmres_case("gmres",n,k,2,false,prec,rng); gmres_case("gmres",n,k,2,true,prec,rng); gmres_case("fgmres",n,k,2,false,prec,rng); if (T || !(n==3 && k==2 && prec==2)) gmres_case("lgmres",n,k,2,false,prec,rng); /* n=3,k=2 with the dense preconditioner: 10 M z3 resource units per orthogonality query, thorough tier only */ if (T) gmres_case("lgmres",n,k,2,true,prec,rng); }
    for (int n=2;n<=(T?3:2);++n) for (int ex=0;ex<2;++ex) { if (n==3 && !ex) continue;   /* n = 3 without preconditioner: three iterations with a symbolic t, no verdict within the budget (measured) */
        term_case<sv::cg<BE>>("cg",n,ex,0,rng,[](auto&){}); term_case<sv::bicgstab<BE>>("bicgstab",n,ex,0,rng,[](auto&){}); term_case<sv::gmres<BE>>("gmres",n,ex,0,rng,[&](auto &p){ p.M=n; }); term_case<sv::fgmres<BE>>("fgmres",n,ex,0,rng,[&](auto &p){ p.M=n; });
        if (T || ex) { term_case<sv::lgmres<BE>>("lgmres",n,ex,0,rng,[&](auto &p){ p.M=n; p.K=1; }); term_case<sv::idrs<BE>>("idrs-s1",n,ex,ex?0:n,rng,[](auto &p){ p.s=1; }); term_case<sv::bicgstabl<BE>>("bicgstabl-L1",n,ex,0,rng,[](auto &p){ p.L=1; }); } }
    for (int n=2;n<=3;++n) for (int prec : {0,2}) { iterate_case<sv::bicgstabl<BE>>("bicgstabl-L1",n,1,prec,rng,[](auto &p){ p.L=1; }); iterate_case<sv::bicgstabl<BE>>("bicgstabl-L2",n,2,prec,rng,[](auto &p){ p.L=2; }); iterate_case<sv::idrs<BE>>("idrs-s1",n,1,prec,rng,[](auto &p){ p.s=1; }); if (T) iterate_case<sv::idrs<BE>>("idrs-s2",n,2,prec,rng,[](auto &p){ p.s=2; }); }
    return hx::finish();
}
