// C01: a reported convergence is truthful.  Every iterative solver is run by the real templates on a symbolic system:
//   M-mode: matrix, rhs, initial guess symbolic AND the preconditioner an arbitrary (fully symbolic) dense linear operator;
//   L-mode: concrete SPD matrix with the real AMG hierarchy as preconditioner, rhs / guess symbolic.
// All inner coefficients (alpha, beta, omega, Givens, QR ...) are cut to fresh variables (H-mode): truthfulness must not depend on them.
#include "hx_amgcl.hpp"
#include <amgcl/make_solver.hpp>
#include <amgcl/amg.hpp>
#include <amgcl/coarsening/smoothed_aggregation.hpp>
#include <amgcl/coarsening/aggregation.hpp>
#include <amgcl/relaxation/spai0.hpp>
#include <amgcl/relaxation/damped_jacobi.hpp>
#include <amgcl/relaxation/gauss_seidel.hpp>
#include <amgcl/solver/cg.hpp>
#include <amgcl/solver/bicgstab.hpp>
#include <amgcl/solver/bicgstabl.hpp>
#include <amgcl/solver/gmres.hpp>
#include <amgcl/solver/fgmres.hpp>
#include <amgcl/solver/lgmres.hpp>
#include <amgcl/solver/idrs.hpp>
#include <amgcl/solver/richardson.hpp>
#include <amgcl/preconditioner/dummy.hpp>
using hx::scalar; using hx::var; using hx::Pattern; using hx::SCrs;
namespace be = amgcl::backend; namespace sv = amgcl::solver;
typedef be::builtin<scalar> BE; typedef be::numa_vector<scalar> NV;

// an arbitrary linear preconditioner: dense matrix with symbolic entries
struct DensePrec { int n; std::vector<scalar> P; std::shared_ptr<hx::ACrs<scalar>> A;
    DensePrec(int n, std::shared_ptr<hx::ACrs<scalar>> A, bool identity) : n(n), P(n*n), A(A) { for (int i=0;i<n;++i) for (int j=0;j<n;++j) P[i*n+j] = identity ? scalar(i==j?1:0) : var("p_"+std::to_string(i)+"_"+std::to_string(j), i==j ? 0.5 : 0.0625*((i+2*j)%3-1)); }
    template<class V1,class V2> void apply(const V1 &rhs, V2 &&x) const { std::vector<scalar> t(n); for (int i=0;i<n;++i) { scalar s=0; for (int j=0;j<n;++j) s+=P[i*n+j]*rhs[j]; t[i]=s; } for (int i=0;i<n;++i) x[i]=t[i]; }
    std::vector<scalar> mul(const std::vector<scalar> &v) const { std::vector<scalar> t(n); for (int i=0;i<n;++i) { scalar s=0; for (int j=0;j<n;++j) s+=P[i*n+j]*v[j]; t[i]=s; } return t; }
    const hx::ACrs<scalar> &system_matrix() const { return *A; } };

struct Cfg { std::string solver; int maxiter; bool left; int M=2, L=2, s=2, K=1; bool flag=false; double delta=0; };
template<class S> static void setp(typename S::params &p, const Cfg &c, scalar tol, scalar abstol) { p.maxiter=c.maxiter; p.tol=tol; p.abstol=abstol; }
template<class S, class Prec> static std::tuple<size_t,scalar> solve(const Cfg &c, int n, scalar tol, scalar abstol, const hx::ACrs<scalar> &A, const Prec &P, const NV &f, NV &x);
#define SOLVE_IMPL(NAME, EXTRA) \
  template<class Prec> static std::tuple<size_t,scalar> solve_##NAME(const Cfg &c, int n, scalar tol, scalar abstol, const hx::ACrs<scalar> &A, const Prec &P, const NV &f, NV &x) { typedef sv::NAME<BE> S; S::params p; p.maxiter=c.maxiter; p.tol=tol; p.abstol=abstol; EXTRA; S s(n,p); return s(A,P,f,x); }
SOLVE_IMPL(cg, )
SOLVE_IMPL(bicgstab, p.pside = c.left ? amgcl::preconditioner::side::left : amgcl::preconditioner::side::right)
SOLVE_IMPL(bicgstabl, p.pside = c.left ? amgcl::preconditioner::side::left : amgcl::preconditioner::side::right; p.L=c.L; p.convex=c.flag; p.delta=scalar(c.delta))
SOLVE_IMPL(gmres, p.pside = c.left ? amgcl::preconditioner::side::left : amgcl::preconditioner::side::right; p.M=c.M)
SOLVE_IMPL(fgmres, p.M=c.M)
SOLVE_IMPL(lgmres, p.pside = c.left ? amgcl::preconditioner::side::left : amgcl::preconditioner::side::right; p.M=c.M; p.K=c.K)
SOLVE_IMPL(idrs, p.s=c.s; p.smoothing=c.flag)
SOLVE_IMPL(richardson, p.damping=var("rich_damping",0.8))
template<class Prec> static std::tuple<size_t,scalar> dispatch(const Cfg &c, int n, scalar tol, scalar abstol, const hx::ACrs<scalar> &A, const Prec &P, const NV &f, NV &x) {
    if (c.solver=="cg") return solve_cg(c,n,tol,abstol,A,P,f,x); if (c.solver=="bicgstab") return solve_bicgstab(c,n,tol,abstol,A,P,f,x); if (c.solver=="bicgstabl") return solve_bicgstabl(c,n,tol,abstol,A,P,f,x);
    if (c.solver=="gmres") return solve_gmres(c,n,tol,abstol,A,P,f,x); if (c.solver=="fgmres") return solve_fgmres(c,n,tol,abstol,A,P,f,x); if (c.solver=="lgmres") return solve_lgmres(c,n,tol,abstol,A,P,f,x);
    if (c.solver=="idrs") return solve_idrs(c,n,tol,abstol,A,P,f,x); return solve_richardson(c,n,tol,abstol,A,P,f,x); }
static std::string cfgname(const Cfg &c) { std::string s=c.solver+"/k"+std::to_string(c.maxiter)+(c.left?"/left":"/right"); if (c.solver=="gmres"||c.solver=="fgmres"||c.solver=="lgmres") s+="/M"+std::to_string(c.M); if (c.solver=="lgmres") s+="K"+std::to_string(c.K); if (c.solver=="bicgstabl") s+="/L"+std::to_string(c.L)+(c.flag?"c":"")+(c.delta>0?"/reliable":""); if (c.solver=="idrs") s+="/s"+std::to_string(c.s)+(c.flag?"sm":""); return s; }

// the truthfulness obligation on the returned (iters, res, x)
template<class ApplyP> static void truthful(const Cfg &c, const SCrs &A, const std::vector<scalar> &f, const std::vector<scalar> &x, size_t iters, scalar res_in, ApplyP applyP, bool zero_rhs_exit) {
    int n=A.n; size_t bound=c.maxiter + (c.solver=="bicgstabl" ? c.L-1 : 0);
    hx::require("iterations <= maxiter (+L-1)", iters<=bound, "iters="+std::to_string(iters)+" bound="+std::to_string(bound));
    if (zero_rhs_exit) return;
    scalar res=hx::unfold(res_in);
    std::vector<scalar> Ax=hx::dense_mv(A,x), r(n); for (int i=0;i<n;++i) r[i]=f[i]-Ax[i]; if (c.left) r=applyP(r);
    scalar rr=0, ff=0; for (int i=0;i<n;++i) { rr+=r[i]*r[i]; ff+=f[i]*f[i]; }
    hx::prove_eq(std::string("reported residual is the true ")+(c.left?"preconditioned ":"")+"relative residual: res^2 <f,f> = ||"+(c.left?"P(f - A x)":"f - A x")+"||^2", res*res*ff, rr);
}

// right-hand sides with |f| < 2^-50 are treated as zero by the library (documented trivial-solution exit, decided in C15): outside this obligation
static void nonzero_rhs(const std::vector<scalar> &f) { scalar ff=0; for (auto &v : f) ff+=v*v; hx::assume(hx::le(scalar(1e-30),ff)); }
static void mmode_case(const Cfg &c, const Pattern &p, int prec_kind, size_t max_paths) {   // prec_kind 0: identity (dummy-like), 1: arbitrary dense symbolic operator
    hx::CaseOptions co; co.max_paths=max_paths; co.max_depth=120;
    hx::run_case("M/"+cfgname(c)+"/"+(prec_kind?"anyP/":"noP/")+p.name, [&]() {
        SCrs A=hx::symbolic_matrix(p,"a"); auto Am=hx::to_amgcl(A); int n=p.n; DensePrec P(n,Am,prec_kind==0);
        std::vector<scalar> f=hx::sym_vector("f",n), x0=hx::sym_vector("x",n,0.25); NV F=hx::to_numa(f), X=hx::to_numa(x0);
        nonzero_rhs(f);
        hx::cuts(true); size_t it; scalar res; bool threw=false;
        try { std::tie(it,res)=dispatch(c,n,scalar(0),scalar(0),*Am,P,F,X); } catch (const std::runtime_error &e) { threw=true; hx::count("breakdown exception paths (solver reported breakdown)"); }
        hx::cuts(false); if (threw) return;
        truthful(c,A,f,hx::to_vec(X),it,res,[&](const std::vector<scalar> &v){ return P.mul(v); }, false);
    }, co);
}
// U-mode: concrete non-symmetric diagonally dominant matrix, concrete dense preconditioner, right-hand side and initial guess affine in ONE
// parameter t; no cuts: every coefficient of the run is the true rational function of t, so deeper iteration counts stay tractable
static void umode_case(const Cfg &c, int n, int prec_kind, hx::Rng &rng, size_t max_paths) {
    hx::CaseOptions co; co.max_paths=max_paths; co.max_depth=160;
    hx::run_case("U/"+cfgname(c)+"/"+(prec_kind?"denseP/":"noP/")+"n"+std::to_string(n), [&]() {
        hx::Rng r2(rng.s ^ (uint64_t)(n*7919+c.maxiter*104729+prec_kind)); Pattern p=hx::dense_pattern(n,n); SCrs A=hx::ddmatrix(p,r2); auto Am=hx::to_amgcl(A); DensePrec P(n,Am,true);
        if (prec_kind) for (int i=0;i<n;++i) for (int j=0;j<n;++j) P.P[i*n+j] = i==j ? scalar(1)/A.at(i,i) : scalar(((i*3+j)%5)-2)/scalar(32);
        scalar t=var("t",0.375); std::vector<scalar> f, x0; for (int i=0;i<n;++i) { int q1=1+r2.below(5), q2=r2.below(7)-3, q3=r2.below(5)-2, q4=r2.below(5)-2; f.push_back(scalar(q1)/scalar(2)+t*scalar(q2)/scalar(4)); x0.push_back(scalar(q3)/scalar(4)+t*scalar(q4)/scalar(2)); }
        NV F=hx::to_numa(f), X=hx::to_numa(x0); nonzero_rhs(f);
        size_t it; scalar res; bool threw=false;
        try { std::tie(it,res)=dispatch(c,n,scalar(0),scalar(0),*Am,P,F,X); } catch (const std::runtime_error &e) { threw=true; hx::count("breakdown exception paths (solver reported breakdown)"); }
        if (threw) return;
        truthful(c,A,f,hx::to_vec(X),it,res,[&](const std::vector<scalar> &v){ return P.mul(v); }, false);
    }, co);
}
// BiCGStab(L) reliable updates (delta > 0): state invariant after k iterations, read from the solver object's work vectors:
//   B is the true (preconditioned, for left) residual of the base solution  x_base = x - [P] X,  and R[0] = B - [op] X
// (it holds after every iteration; with it the carried residual is the true residual at any later iteration, flushes and refreshes included)
static void reliable_invariant_case(const Pattern &p, int k, bool left, double delta, int prec_kind) {
    hx::CaseOptions co; co.max_paths=hx::thorough()?16:6; co.max_depth=120; co.budget_s=25;
    hx::run_case(std::string("M/bicgstabl-reliable-invariant/k")+std::to_string(k)+(left?"/left":"/right")+"/delta"+(delta>1?"1000":"0.5")+(prec_kind?"/anyP/":"/noP/")+p.name, [&]() {
        SCrs A=hx::symbolic_matrix(p,"a"); auto Am=hx::to_amgcl(A); int n=p.n; DensePrec P(n,Am,prec_kind==0);
        std::vector<scalar> f=hx::sym_vector("f",n), x0=hx::sym_vector("x",n,0.25); NV F=hx::to_numa(f), X=hx::to_numa(x0); nonzero_rhs(f);
        typedef sv::bicgstabl<BE> S; S::params prm; prm.maxiter=k; prm.tol=scalar(0); prm.abstol=scalar(0); prm.L=1; prm.delta=scalar(delta); prm.pside = left ? amgcl::preconditioner::side::left : amgcl::preconditioner::side::right; S s(n,prm);
        hx::cuts(true); size_t it; scalar res; bool threw=false;
        try { std::tie(it,res)=s(*Am,P,F,X); } catch (const std::runtime_error &e) { threw=true; hx::count("breakdown exception paths (solver reported breakdown)"); }
        hx::cuts(false); if (threw) return;
        std::vector<scalar> x=hx::to_vec(X), Xc=hx::to_vec(*s.X), B=hx::to_vec(*s.B), R0=hx::to_vec(*s.R[0]);
        std::vector<scalar> corr = left ? Xc : P.mul(Xc), xb(n); for (int i=0;i<n;++i) xb[i]=x[i]-corr[i];
        std::vector<scalar> Axb=hx::dense_mv(A,xb), tb(n); for (int i=0;i<n;++i) tb[i]=f[i]-Axb[i]; if (left) tb=P.mul(tb);
        hx::prove_eq_vec("reliable update: reference right-hand side B = [P](f - A x_base) for the base solution the correction X refers to", B, tb);
        std::vector<scalar> opX = left ? P.mul(hx::dense_mv(A,Xc)) : hx::dense_mv(A,P.mul(Xc)), tr(n); for (int i=0;i<n;++i) tr[i]=B[i]-opX[i];
        bool flushed=true; for (auto &v : Xc) flushed=flushed&&hx::same_handle(v,scalar(0));
        if (flushed || hx::thorough()) hx::prove_eq_vec("reliable update: carried residual R[0] = B - op X", R0, tr);   // with a pending X the two sides are equal but factored differently: left to the thorough tier hx::count(flushed ? "paths ending right after a flush of X into x" : "paths ending with a pending correction X");
    }, co);
}
// stopping rule with symbolic tolerances: leaving before maxiter implies carried norm below max(tol |f|, abstol)
static void stop_case(const Cfg &c, const Pattern &p) {
    hx::CaseOptions co; co.max_paths=40; co.max_depth=120;
    hx::run_case("stop/"+cfgname(c)+"/"+p.name, [&]() {
        SCrs A=hx::symbolic_matrix(p,"a"); auto Am=hx::to_amgcl(A); int n=p.n; DensePrec P(n,Am,true);
        std::vector<scalar> f=hx::sym_vector("f",n), x0=hx::sym_vector("x",n,0.25); NV F=hx::to_numa(f), X=hx::to_numa(x0);
        nonzero_rhs(f); scalar tol=var("tol",1e-3), abstol=var("abstol",1e-6); hx::assume(hx::le(scalar(0),tol)); hx::assume(hx::le(scalar(0),abstol));
        hx::cuts(true); size_t it; scalar res; bool threw=false;
        try { std::tie(it,res)=dispatch(c,n,tol,abstol,*Am,P,F,X); } catch (const std::runtime_error &e) { threw=true; }
        hx::cuts(false); if (threw) return;
        scalar ff=0; for (int i=0;i<n;++i) ff+=f[i]*f[i];
        truthful(c,A,f,hx::to_vec(X),it,res,[&](const std::vector<scalar> &v){ return v; }, false);
        if (it < (size_t)c.maxiter) { scalar r=hx::unfold(res); // res = carried_norm / |f|  =>  carried_norm^2 = res^2 ff
            hx::prove("early exit implies carried residual norm <= max(tol |f|, abstol)  (or a zero right-hand side)", hx::any_of({ hx::le(r*r*ff, tol*tol*ff), hx::le(r*r*ff, abstol*abstol), hx::lt(ff, scalar(1e-30)) })); hx::count("early-exit paths"); }
    }, co);
}
// L-mode: real AMG hierarchy on a concrete SPD M-matrix as the preconditioner
template<class Coarsening, class Relax> static void amg_case(const Cfg &c, const Pattern &p, hx::Rng &rng, const std::string &tag) {
    hx::CaseOptions co; co.max_paths=24; co.max_depth=120;
    hx::run_case("L/"+cfgname(c)+"/amg-"+tag+"/"+p.name, [&]() {
        hx::Rng r2(rng.s); SCrs A=hx::mmatrix(p,r2); int n=p.n; typedef amgcl::amg<BE,Coarsening::template type,Relax::template type> AMG; typename AMG::params ap; ap.coarse_enough=2; ap.npre=1; ap.npost=1;
        AMG P(std::tie(n,A.ptr,A.col,A.val),ap);
        std::vector<scalar> f=hx::sym_vector("f",n), x0=hx::sym_vector("x",n,0.25); NV F=hx::to_numa(f), X=hx::to_numa(x0);
        nonzero_rhs(f);
        hx::cuts(true); size_t it; scalar res; bool threw=false;
        try { std::tie(it,res)=dispatch(c,n,scalar(0),scalar(0),P.system_matrix(),P,F,X); } catch (const std::runtime_error &e) { threw=true; hx::count("breakdown exception paths (solver reported breakdown)"); }
        hx::cuts(false); if (threw) return;
        truthful(c,A,f,hx::to_vec(X),it,res,[&](const std::vector<scalar> &v){ NV in=hx::to_numa(v), out(n,false); for (int i=0;i<n;++i) out[i]=scalar(0); P.apply(in,out); return hx::to_vec(out); }, false);
    }, co);
}
struct SA { template<class B> using type=amgcl::coarsening::smoothed_aggregation<B>; }; struct AG { template<class B> using type=amgcl::coarsening::aggregation<B>; };
struct SP { template<class B> using type=amgcl::relaxation::spai0<B>; }; struct GS { template<class B> using type=amgcl::relaxation::gauss_seidel<B>; }; struct DJ { template<class B> using type=amgcl::relaxation::damped_jacobi<B>; };

int main(int argc, char **argv) {
    hx::parse_args(argc,argv); bool T=hx::thorough(); hx::Rng rng(hx::args().seed);
    hx::encodes("solver::{cg,bicgstab,bicgstabl,gmres,fgmres,lgmres,idrs,richardson}<builtin<scalar>>::operator()(A,P,rhs,x) incl. preconditioner::spmv (left/right), detail::QR (bicgstabl), givens rotations");
    hx::encodes("amg<builtin<scalar>,{smoothed_aggregation,aggregation},{spai0,gauss_seidel,damped_jacobi}>::apply as the preconditioner (L-mode)");
    hx::assume_note("real arithmetic: rounding drift of the recursively carried residual is outside the claim");
    hx::assume_note("H-mode: every division by a non-constant inside the solver is replaced by a fresh variable (sound over-approximation); only the final res = norm/|f| is unfolded");
    hx::assume_note("M-mode preconditioner is an arbitrary dense linear operator with symbolic entries (covers every fixed linear preconditioner)");
    hx::assume_note("convergence within 100 iterations on model problems and Richardson's asymptotic rate are NOT decided (floating-point long-run behaviour)");
    std::vector<Cfg> cfgs;
    for (int k=1;k<=(T?4:3);++k) for (int left=0;left<2;++left) {
        for (std::string s : {"cg","fgmres","idrs","richardson"}) if (!left) { Cfg c; c.solver=s; c.maxiter=k; c.left=false; cfgs.push_back(c); if (s=="idrs") { c.s=1; cfgs.push_back(c); c.flag=true; cfgs.push_back(c); /* s=1 with residual smoothing: the omega step (every (s+1)-th iteration) is reached at k=2 */ c.s=2; cfgs.push_back(c); } if (s=="fgmres") { c.M=1; cfgs.push_back(c); } }
        for (std::string s : {"bicgstab","gmres","lgmres","bicgstabl"}) { Cfg c; c.solver=s; c.maxiter=k; c.left=left; cfgs.push_back(c); if (s=="gmres"||s=="lgmres") { c.M=1; cfgs.push_back(c); } if (s=="bicgstabl") { c.L=1; cfgs.push_back(c); c.L=2; c.flag=true; cfgs.push_back(c); } }
    }
    if (!T) { std::vector<Cfg> keep; for (auto &c : cfgs) if (!(c.solver=="bicgstabl" && (c.L!=1 || c.maxiter>1))) keep.push_back(c); cfgs=keep; }
    // BiCGStab(L) with reliable updates (delta > 0): the true-residual refresh and the flush of the partial solution into x
    std::vector<Cfg> reliable; for (int k=2;k<=(T?4:3);++k) for (int left=0;left<(T?2:1);++left) { Cfg c; c.solver="bicgstabl"; c.L=1; c.maxiter=k; c.left=left; c.delta=1000; reliable.push_back(c); if (T && k<=3) { c.delta=0.5; reliable.push_back(c); } }
    Pattern p2=hx::dense_pattern(2,2), b3=hx::band_pattern(3,1), d3=hx::dense_pattern(3,3);
    auto heavy=[&](const Cfg &c) { return c.solver=="idrs" || c.solver=="bicgstabl" || c.solver=="lgmres"; };
    auto bl=[&](const Cfg &c) { return c.solver=="bicgstabl"; }; auto idk2=[&](const Cfg &c) { return c.solver=="idrs" && c.maxiter>=2 && c.s!=1; };
    for (auto &c : cfgs) {
        if (c.maxiter<=2 && !idk2(c)) mmode_case(c,p2,0,12);
        if (c.maxiter<=((heavy(c)||c.left||c.M==1)?1:2) && (T || !bl(c))) mmode_case(c,b3,0,12);
        if (c.maxiter==1 && (T || !bl(c))) mmode_case(c,p2,1,12);
        if (c.maxiter==1 && !heavy(c)) mmode_case(c,b3,1,12);
        if (T) { if (c.maxiter<=3) mmode_case(c,b3,0,48); if (c.maxiter<=2) { mmode_case(c,d3,0,48); mmode_case(c,b3,1,48); } if (c.maxiter<=2 && !heavy(c)) mmode_case(c,d3,1,48); }
    }
    for (int k=1;k<=(T?3:2);++k) for (int left=0;left<2;++left) for (double delta : {1000.0, 0.5}) { if (k==1 || T) reliable_invariant_case(p2,k,left,delta,1); if (T || (k==1 && delta>1) || (k==2 && !left && delta>1)) reliable_invariant_case(k==1?b3:p2,k,left,delta,0); }
    if (T) for (auto &c : reliable) for (int n=2;n<=3;++n) umode_case(c,n,0,rng,8);
    for (auto &c : cfgs) if ((T && c.maxiter<=2) || (c.maxiter==1 && c.solver!="idrs")) stop_case(c,p2);
    for (auto &c : cfgs) if (c.maxiter<=(T?3:2) && (T || (!bl(c) && !idk2(c)))) { Pattern g=hx::grid_pattern(3,2); if (T || c.maxiter==1 || !c.left) amg_case<SA,SP>(c,g,rng,"sa-spai0"); if (T || (c.maxiter==1 && c.M==2 && !c.left)) { amg_case<AG,GS>(c,hx::grid_pattern(3,3),rng,"agg-gs"); amg_case<SA,DJ>(c,hx::band_pattern(7,1),rng,"sa-jacobi"); } }
    return hx::finish();
}
