// C15: solver and preconditioner objects are reusable; calls do not leak state.
// Every call on a used object is compared with the same call on a freshly constructed object: the recorded operation
// log must be identical (=> bitwise equal results), and the result may not depend on variables of earlier calls.
#include "hx_amgcl.hpp"
#include <amgcl/make_solver.hpp>
#include <amgcl/amg.hpp>
#include <amgcl/coarsening/smoothed_aggregation.hpp>
#include <amgcl/coarsening/aggregation.hpp>
#include <amgcl/relaxation/spai0.hpp>
#include <amgcl/relaxation/gauss_seidel.hpp>
#include <amgcl/relaxation/ilu0.hpp>
#include <amgcl/relaxation/as_preconditioner.hpp>
#include <amgcl/preconditioner/dummy.hpp>
#include <amgcl/solver/cg.hpp>
#include <amgcl/solver/bicgstab.hpp>
#include <amgcl/solver/bicgstabl.hpp>
#include <amgcl/solver/gmres.hpp>
#include <amgcl/solver/fgmres.hpp>
#include <amgcl/solver/lgmres.hpp>
#include <amgcl/solver/idrs.hpp>
#include <amgcl/solver/richardson.hpp>
#include <amgcl/solver/preonly.hpp>
#include <amgcl/solver/skyline_lu.hpp>
using hx::scalar; using hx::var; using hx::Pattern; using hx::SCrs;
namespace be = amgcl::backend; namespace sv = amgcl::solver; namespace co = amgcl::coarsening; namespace rx = amgcl::relaxation;
typedef be::builtin<scalar> BE; typedef be::numa_vector<scalar> NV;
typedef amgcl::amg<BE,co::smoothed_aggregation,rx::spai0> AMG1; typedef amgcl::amg<BE,co::aggregation,rx::gauss_seidel> AMG2; typedef rx::as_preconditioner<BE,rx::ilu0> ILU; typedef amgcl::preconditioner::dummy<BE> DUM;

struct Out { std::vector<scalar> x; size_t it; scalar res; bool threw=false; };
template<class MS> static Out call(const MS &S, const std::vector<scalar> &f, const std::vector<scalar> &x0) { Out o; NV F=hx::to_numa(f), X=hx::to_numa(x0); hx::cuts(true); try { std::tie(o.it,o.res)=S(F,X); } catch (const std::runtime_error&) { o.threw=true; } hx::cuts(false); o.x=hx::to_vec(X);
    bool same=true; for (size_t i=0;i<f.size();++i) same=same&&hx::same_handle(F[i],f[i]); hx::require("the right-hand side is not modified by a solve", same); return o; }
static bool same_out(const Out &a, const Out &b) { if (a.threw!=b.threw) return false; if (a.threw) return true; if (a.it!=b.it || !hx::same_handle(a.res,b.res) || a.x.size()!=b.x.size()) return false; for (size_t i=0;i<a.x.size();++i) if (!hx::same_handle(a.x[i],b.x[i])) return false; return true; }
static bool clean(const Out &o, const std::string &pre) { if (o.threw) return true; if (!hx::independent_of(o.res,pre)) return false; for (auto &v : o.x) if (!hx::independent_of(v,pre)) return false; return true; }

template<class MS, class SetP> static void reuse_case(const std::string &nm, const Pattern &p, hx::Rng &rng, SetP setp, bool expect_stateful=false) {
    hx::CaseOptions coo; coo.max_paths=12; coo.max_depth=160;
    hx::run_case("reuse/"+nm+"/"+p.name, [&]() {
        hx::Rng r2(rng.s); SCrs A=hx::mmatrix(p,r2); int n=p.n; typename MS::params prm; setp(prm);
        std::vector<scalar> mat0=A.val;
        MS used(std::tie(n,A.ptr,A.col,A.val),prm);
        std::vector<scalar> f1=hx::sym_vector("early_f",n), x1=hx::sym_vector("early_x",n,0.25), f2=hx::sym_vector("f",n,0.75), x2=hx::sym_vector("x",n,-0.25), zero(n,scalar(0));
        Out a1=call(used,f1,x1);                          // an earlier, unrelated solve
        Out a2=call(used,f2,x2);                          // the call under test on the used object
        MS fresh(std::tie(n,A.ptr,A.col,A.val),prm); Out b2=call(fresh,f2,x2);
        if (!expect_stateful) { hx::require("second solve on a used object = same solve on a fresh object (identical operations, bitwise equal)", same_out(a2,b2)); hx::require("second solve does not depend on the first call's data", clean(a2,"early_")); }
        else hx::count(same_out(a2,b2) ? "documented-stateful solver happened to agree" : "documented-stateful solver differs from fresh (exception is not vacuous)");
        // a call with garbage (stands for NaN / diverged) inputs in between
        { std::vector<scalar> fj, xj; for (int i=0;i<n;++i) { fj.push_back(hx::junk("f"+std::to_string(i))); xj.push_back(hx::junk("x"+std::to_string(i))); }
#ifdef HX_SYM
          Out g=call(used,fj,xj); (void)g;
#endif
          Out a3=call(used,f2,x2); if (!expect_stateful) { hx::require("solve after a garbage (NaN-like) call = fresh solve", same_out(a3,b2)); hx::require("solve after a garbage call does not depend on the garbage", clean(a3,"junk_")); } }
        // zero right-hand side: zero vector, zero iterations
        { Out z=call(used,zero,x2); bool ok=!z.threw && z.it==0; for (auto &v : z.x) ok=ok&&hx::same_handle(v,scalar(0)); hx::require("zero right-hand side returns the zero vector in zero iterations", ok, "iters="+std::to_string(z.it)); }
        // initial guess that already solves the system: returned unchanged in zero iterations
        { std::vector<scalar> Ax=hx::dense_mv(A,x2); { scalar ff=0; for (auto &v : Ax) ff+=v*v; hx::assume(hx::le(scalar(1e-30),ff)); }   // right-hand sides below the trivial-solution threshold are cleared by design
          Out c=call(used,Ax,x2); hx::require("an initial guess that already satisfies the system needs zero iterations and does not throw", !c.threw && c.it==0, "iters="+std::to_string(c.it)); if (!c.threw) { bool ident=true; for (int i=0;i<n;++i) ident=ident&&hx::same_handle(c.x[i],x2[i]); if (ident) hx::require("an initial guess that already satisfies the system is returned unchanged", true); else hx::prove_eq_vec("an initial guess that already satisfies the system is returned unchanged", c.x, x2); } }
        { bool same=true; for (size_t k=0;k<A.val.size();++k) same=same&&hx::same_handle(A.val[k],mat0[k]); hx::require("the caller's matrix storage is not modified", same); }
    }, coo);
}
template<class P> static void set_pre(P &p) {}
static void set_pre(AMG1::params &p) { p.coarse_enough=2; } static void set_pre(AMG2::params &p) { p.coarse_enough=2; }
template<class S> using MS1 = amgcl::make_solver<AMG1,S>; template<class S> using MS2 = amgcl::make_solver<AMG2,S>; template<class S> using MS3 = amgcl::make_solver<ILU,S>; template<class S> using MS4 = amgcl::make_solver<DUM,S>;
// smoothed coarsest level (direct_coarse = false): the coarsest solution vector is the smoother's initial guess and must not carry over between applications
template<class P> static void set_dc(P &p) {} static void set_dc(AMG1::params &p) { p.direct_coarse=false; } static void set_dc(AMG2::params &p) { p.direct_coarse=false; }
template<template<class> class MSx, class S, class Ex> static void one(const std::string &pn, const std::string &sn, const Pattern &p, hx::Rng &rng, int k, Ex extra, bool stateful=false, bool smoothed_coarsest=false) {
    reuse_case<MSx<S>>(pn+"+"+sn+"/k"+std::to_string(k), p, rng, [&](typename MSx<S>::params &prm) { prm.solver.maxiter=k; prm.solver.tol=scalar(1e-8); prm.solver.abstol=scalar(0); extra(prm.solver); set_pre(prm.precond); if (smoothed_coarsest) set_dc(prm.precond); }, stateful); }

// a call that is INTERRUPTED by an exception (thrown by the preconditioner at its k-th application, as a failing backend operation would)
// leaves no trace: the next call on the same solver object performs exactly the operations of the same call on a fresh object
struct ThrowingPrec { int n; std::shared_ptr<hx::ACrs<scalar>> A; std::vector<scalar> d; mutable int left; ThrowingPrec(int n, std::shared_ptr<hx::ACrs<scalar>> A, int throw_at) : n(n), A(A), left(throw_at) { for (int i=0;i<n;++i) for (ptrdiff_t k=A->ptr[i];k<A->ptr[i+1];++k) if (A->col[k]==i) d.push_back(scalar(1)/A->val[k]); }
    template<class V1,class V2> void apply(const V1 &rhs, V2 &&x) const { if (left>0 && --left==0) throw std::runtime_error("injected failure"); for (int i=0;i<n;++i) x[i]=d[i]*rhs[i]; }
    const hx::ACrs<scalar> &system_matrix() const { return *A; } };
template<class S, class SetP> static void interrupted_case(const std::string &nm, const Pattern &p, hx::Rng &rng, int k, int throw_at, SetP setp) {
    hx::CaseOptions coo; coo.max_paths=hx::thorough()?8:3; coo.max_depth=160; coo.budget_s=12; coo.max_undecided=1;
    hx::run_case("interrupted/"+nm+"/k"+std::to_string(k)+"/throw"+std::to_string(throw_at)+"/"+p.name, [&]() {
        hx::Rng r2(rng.s); SCrs A=hx::mmatrix(p,r2); int n=p.n; auto Am=hx::to_amgcl(A); typename S::params prm; prm.maxiter=k; prm.tol=scalar(1e-8); prm.abstol=scalar(0); setp(prm);
        std::vector<scalar> f1=hx::sym_vector("early_f",n), x1=hx::sym_vector("early_x",n,0.25), f2=hx::sym_vector("f",n,0.75), x2=hx::sym_vector("x",n,-0.25);
        S used(n,prm); bool threw=false; { ThrowingPrec P(n,Am,throw_at); NV F=hx::to_numa(f1), X=hx::to_numa(x1); hx::cuts(true); try { used(*Am,P,F,X); } catch (const std::runtime_error&) { threw=true; } hx::cuts(false); }
        hx::count(threw ? "earlier call interrupted by the injected exception" : "earlier call finished before the injection point");
        auto run=[&](const S &s) { Out o; ThrowingPrec P(n,Am,0); NV F=hx::to_numa(f2), X=hx::to_numa(x2); hx::cuts(true); try { std::tie(o.it,o.res)=s(*Am,P,F,X); } catch (const std::runtime_error&) { o.threw=true; } hx::cuts(false); o.x=hx::to_vec(X); return o; };
        Out a=run(used); S fresh(n,prm); Out b=run(fresh);
        hx::require("solve after an interrupted (throwing) call = same solve on a fresh object (identical operations, bitwise equal)", same_out(a,b)); hx::require("solve after an interrupted call does not depend on the interrupted call's data", clean(a,"early_"));
    }, coo);
}

static void skyline_case(const Pattern &p) { hx::run_case("reuse/skyline_lu/"+p.name, [&]() { SCrs A=hx::symbolic_matrix(p,"a"); for (auto &v : A.val) hx::assume(hx::ne(v,scalar(0))); int n=p.n; try { sv::skyline_lu<scalar> S(std::tie(n,A.ptr,A.col,A.val)); sv::skyline_lu<scalar> S2(std::tie(n,A.ptr,A.col,A.val));
        std::vector<scalar> f1=hx::sym_vector("early_f",n), f2=hx::sym_vector("f",n), x(n), y(n); S(f1,x); S(f2,x); S2(f2,y); bool same=true, cl=true; for (int i=0;i<n;++i) { same=same&&hx::same_handle(x[i],y[i]); cl=cl&&hx::independent_of(x[i],"early_"); }
        hx::require("skyline_lu: second solve on a used object = fresh solve (work vector carries nothing)", same&&cl); } catch (const std::runtime_error&) { hx::count("zero pivot paths"); } }); }

int main(int argc, char **argv) {
    hx::parse_args(argc,argv); bool T=hx::thorough(); hx::Rng rng(hx::args().seed);
    hx::encodes("make_solver<P,S>::operator() for S in {cg,bicgstab,bicgstabl,gmres,fgmres,lgmres,idrs,richardson,preonly} and P in {amg<smoothed_aggregation,spai0>, amg<aggregation,gauss_seidel>, as_preconditioner<ilu0>, dummy}; solver::skyline_lu::operator()");
    hx::assume_note("L-mode: concrete dyadic SPD matrices, all vectors symbolic; inner coefficients cut (keyed by their operands so that identical computations name identical cut variables); equality is identity of the raw operation log (implies bitwise equality in IEEE arithmetic)");
    hx::assume_note("a 'failing / NaN' earlier call is modelled by a call whose inputs are distinct junk variables: no later result may mention them");
    hx::assume_note("LGMRES with always_reset=false is the documented exception; it is only checked to differ");
    std::vector<Pattern> pats{hx::grid_pattern(3,2),hx::band_pattern(6,1)}; if (T) { pats.push_back(hx::grid_pattern(3,3)); pats.push_back(hx::random_sym_pattern(7,rng,3)); }
    auto none=[](auto &) {};
    for (auto &p : pats) for (int k=1;k<=(T?3:2);++k) { bool light = T || (k==1 && p.n<=6 && p.name[0]=='g');
        one<MS1,sv::cg<BE>>("amg-sa-spai0","cg",p,rng,k,none); one<MS2,sv::cg<BE>>("amg-agg-gs","cg",p,rng,k,none);
        one<MS1,sv::bicgstab<BE>>("amg-sa-spai0","bicgstab",p,rng,k,none); one<MS3,sv::bicgstab<BE>>("ilu0","bicgstab-left",p,rng,k,[](auto &s){ s.pside=amgcl::preconditioner::side::left; });
        if (light) one<MS1,sv::bicgstabl<BE>>("amg-sa-spai0","bicgstabl",p,rng,k,[](auto &s){ s.L=2; }); if (light) one<MS4,sv::bicgstabl<BE>>("dummy","bicgstabl-L1",p,rng,k,[](auto &s){ s.L=1; });
        if (light) one<MS1,sv::gmres<BE>>("amg-sa-spai0","gmres",p,rng,k,[](auto &s){ s.M=2; }); if (light) one<MS3,sv::gmres<BE>>("ilu0","gmres-left",p,rng,k,[](auto &s){ s.M=2; s.pside=amgcl::preconditioner::side::left; });
        if (light) one<MS1,sv::fgmres<BE>>("amg-sa-spai0","fgmres",p,rng,k,[](auto &s){ s.M=2; }); if (light) one<MS2,sv::fgmres<BE>>("amg-agg-gs","fgmres-M1",p,rng,k,[](auto &s){ s.M=1; });
        if (light) one<MS1,sv::lgmres<BE>>("amg-sa-spai0","lgmres",p,rng,k,[](auto &s){ s.M=2; s.K=1; }); if (light) one<MS4,sv::lgmres<BE>>("dummy","lgmres-K2",p,rng,k,[](auto &s){ s.M=2; s.K=2; });
        if (light) one<MS4,sv::lgmres<BE>>("dummy","lgmres-noreset",p,rng,k+1,[](auto &s){ s.M=1; s.K=2; s.always_reset=false; },true);
        if (light) one<MS1,sv::idrs<BE>>("amg-sa-spai0","idrs",p,rng,k,[](auto &s){ s.s=2; }); if (light) one<MS4,sv::idrs<BE>>("dummy","idrs-s1-smooth",p,rng,k,[](auto &s){ s.s=1; s.smoothing=true; }); if (light) one<MS3,sv::idrs<BE>>("ilu0","idrs-repl",p,rng,k,[](auto &s){ s.s=2; s.replacement=true; });
        one<MS1,sv::richardson<BE>>("amg-sa-spai0","richardson",p,rng,k,none); one<MS3,sv::richardson<BE>>("ilu0","richardson",p,rng,k,none);
        if (k==1 || T) { one<MS1,sv::cg<BE>>("amg-sa-spai0-smoothed-coarsest","cg",p,rng,k,none,false,true); one<MS2,sv::richardson<BE>>("amg-agg-gs-smoothed-coarsest","richardson",p,rng,k,none,false,true); }
    }
    { Pattern p=hx::band_pattern(4,1); /* 4 unknowns: the cut-coefficient polynomials of 3 Krylov iterations on 6 unknowns need 3 GB per case */ namespace side=amgcl::preconditioner::side;
      for (int at=2; at<=(T?6:4); ++at) { int k=3;
        interrupted_case<sv::cg<BE>>("cg",p,rng,k,at,none); interrupted_case<sv::bicgstab<BE>>("bicgstab",p,rng,k,at,none); interrupted_case<sv::bicgstab<BE>>("bicgstab-left",p,rng,k,at,[](auto &s){ s.pside=side::left; });
        if (at<=3 || T) { interrupted_case<sv::bicgstabl<BE>>("bicgstabl-L2",p,rng,2,at,[](auto &s){ s.L=2; }); interrupted_case<sv::bicgstabl<BE>>("bicgstabl-L1-left",p,rng,2,at,[](auto &s){ s.L=1; s.pside=side::left; }); }   // BiCGStab(L) with cut coefficients is the memory hog: 2 iterations
        interrupted_case<sv::gmres<BE>>("gmres",p,rng,2,at,[](auto &s){ s.M=2; }); interrupted_case<sv::fgmres<BE>>("fgmres",p,rng,2,at,[](auto &s){ s.M=2; }); if (at<=3 || T) interrupted_case<sv::lgmres<BE>>("lgmres",p,rng,2,at,[](auto &s){ s.M=2; s.K=1; });   // GMRES family: 2 iterations (a third one needs minutes and gigabytes per path)
        interrupted_case<sv::idrs<BE>>("idrs",p,rng,k,at,[](auto &s){ s.s=2; }); interrupted_case<sv::richardson<BE>>("richardson",p,rng,k,at,none); } }
    for (auto &p : std::vector<Pattern>{hx::band_pattern(3,1),hx::dense_pattern(3,3),hx::arrow_pattern(4)}) skyline_case(p);
    return hx::finish();
}
